"""C15 - equality, ordering and hashing of values obey their algebraic laws."""
import json
import os
import shutil
import struct
import subprocess
import tempfile
from concurrent.futures import ThreadPoolExecutor

from lib import common as C

PROP = "C15"
LEVEL = "proof"

# ------------------------------------------------------------------ values (Python side: generation and classification only)
# ('n',) ('t',) ('f',) ('i', int) ('d', bits) ('y', int) ('s', bytes) ('b', bytes) ('e', raised, bytes)
# ('L', [v]) ('M', [(key bytes, v)]) ('S', [v])
# an error may carry its chain: ('e', raised, full message, (id, base message, (prefix, ...))) - the Go error is the base error
# `id` (one object per id and message within a case, as a sentinel) wrapped once per prefix with "%s: %w"; the model and the laws
# know the message and the raised flag only
# ('o', kind, id, variant): a value of a kind without a literal spelling (time, builtin, function, module, list / int iterator,
# buffer, channel, float_slice, partial); the same (kind, id, variant) is the same object within a case, another id with the same
# variant another object with the same content.  Outside the model: judged by the laws alone

INF_MAG = 0x7FF0000000000000
SIGN = 1 << 63


def fbits(x):
    return struct.unpack(">Q", struct.pack(">d", x))[0]


def text(v):
    k = v[0]
    if k in "ntf":
        return k
    if k == "i":
        return "i%d" % v[1]
    if k == "d":
        return "d%016x" % v[1]
    if k == "y":
        return "y%d" % v[1]
    if k == "s":
        return "s=" + v[1].hex()
    if k == "b":
        return "b=" + v[1].hex()
    if k == "e":
        if len(v) > 3:
            return "E%d=%s" % (1 if v[1] else 0, "/".join([str(v[3][0]), v[3][1].hex()] + [x.hex() for x in v[3][2]]))
        return "e%d=%s" % (1 if v[1] else 0, v[2].hex())
    if k == "o":
        return "O=%s/%d/%d" % (v[1], v[2], v[3])
    if k == "L":
        return " ".join(["L%d" % len(v[1])] + [text(x) for x in v[1]])
    if k == "S":
        return " ".join(["S%d" % len(v[1])] + [text(x) for x in v[1]])
    if k == "M":
        return " ".join(["M%d" % len(v[1])] + ["k=%s %s" % (kk.hex(), text(x)) for kk, x in v[1]])
    raise ValueError(v)


def chain_err(raised, ident, base, prefixes):
    msg = base
    for px in prefixes:
        msg = px + b": " + msg
    return ("e", raised, msg, (ident, base, tuple(prefixes)))


def model_text(line):
    """the case line as the model reads it: an error is its message and its raised flag"""
    if "E" not in line:
        return line
    out = []
    for t in line.split(" "):
        if t.startswith("E0=") or t.startswith("E1="):
            v, _ = parse_text([t])
            t = "e%d=%s" % (1 if v[1] else 0, v[2].hex())
        out.append(t)
    return " ".join(out)


def children(v):
    if v[0] in "LS":
        return v[1]
    if v[0] == "M":
        return [x for _, x in v[1]]
    return []


def anywhere(v, pred):
    return pred(v) or any(anywhere(x, pred) for x in children(v))


def is_nan(v):
    return v[0] == "d" and (v[1] & (SIGN - 1)) > INF_MAG


def has_nan(v):
    return anywhere(v, is_nan)


def has_time(v):
    return anywhere(v, lambda x: x[0] == "o" and x[1] == "time")


def has_kind(v, k):
    return anywhere(v, lambda x: x[0] == k)


def big_int(v):
    return v[0] == "i" and abs(v[1]) > (1 << 53)


def trans_guard(a, b, c):
    """complement of the known class: the middle value holds a float, both outer values hold an int and one of
    those ints lies beyond 2^53 (a subset of the complement of Ops.trans_guard, which the guarded theorem covers)"""
    return not (has_kind(b, "d") and has_kind(a, "i") and has_kind(c, "i") and (anywhere(a, big_int) or anywhere(c, big_int)))


TAGNAME = {"n": "nil", "t": "bool", "f": "bool", "i": "int", "d": "float", "y": "byte", "s": "string", "b": "byte_slice",
           "e": "error", "L": "list", "M": "map", "S": "set"}


def tag(v):
    if v[0] == "o":
        return "o:" + v[1]
    return TAGNAME[v[0]]


def oty(v):
    """homogeneous orderable type of v (int float byte string bool list<t>), '*' for the empty list, None otherwise"""
    k = v[0]
    if k == "i":
        return "int"
    if k == "d":
        return None if is_nan(v) else "float"
    if k == "y":
        return "byte"
    if k in "sb":
        return "string"     # strings and byte_slices order together by their bytes (fix 786c921)
    if k in "tf":
        return "bool"
    if k == "L":
        t = "*"
        for x in v[1]:
            u = oty(x)
            if u is None:
                return None
            t2 = unify(t, u)
            if t2 is None:
                return None
            t = t2
        return ("list", t)
    return None


def unify(t, u):
    if t == "*":
        return u
    if u == "*":
        return t
    if isinstance(t, tuple) and isinstance(u, tuple):
        w = unify(t[1], u[1])
        return None if w is None else ("list", w)
    return t if t == u else None


def same_oty(*vs):
    t = "*"
    for v in vs:
        u = oty(v)
        if u is None:
            return None
        t = unify(t, u)
        if t is None:
            return None
    return t


def numeric(v):
    return v[0] in "idy"


def hashable(v):
    return v[0] in "ntfidysb"


# ------------------------------------------------------------------ generator

INTS = [0, 1, -1, 2, 3, 7, 127, 128, 255, 256, -128, -255, 1 << 31, -(1 << 31), (1 << 53) - 1, 1 << 53, (1 << 53) + 1,
        (1 << 53) + 2, (1 << 53) + 3, -(1 << 53), -(1 << 53) - 1, -(1 << 53) - 2, (1 << 54) + 2, (1 << 54) + 6,
        (1 << 62), (1 << 63) - 1, (1 << 63) - 512, (1 << 63) - 513, (1 << 63) - 1024, -(1 << 63), -(1 << 63) + 1,
        -(1 << 63) + 513, 1000000007, 4611686018427387905]
FLOATS = [0.0, -0.0, 1.0, -1.0, 0.5, 1.5, 2.0, 3.0, 7.0, 127.0, 128.0, 255.0, 256.0, 254.5, -128.0, 2.0 ** 31, 2.0 ** 53,
          2.0 ** 53 - 1, 2.0 ** 53 + 2, -(2.0 ** 53), 2.0 ** 54 + 4, 2.0 ** 62, 2.0 ** 63, -(2.0 ** 63), 2.0 ** 64, 1e300,
          -1e300, 5e-324, -5e-324, 2.2250738585072014e-308, 1.7976931348623157e308, float("inf"), float("-inf"),
          1000000007.0, 0.1, 1e-9, 4611686018427387904.0]
NANS = [0x7FF8000000000000, 0xFFF8000000000000, 0x7FF0000000000001]
BYTES = [0, 1, 2, 3, 7, 127, 128, 254, 255]
STRS = [b"", b"a", b"b", b"ab", b"aa", b"ba", b"A", "é".encode(), "世界".encode(), b"a\x00", b"\xff", b"\xc3", b"z",
        "aé".encode(), b"1", b" "]
MSGS = [b"", b"a", b"b", b"boom"]
BASES = [b"a", b"b", b"", b"a: b", b"a: a", b"boom"]
PREFIXES = [b"a", b"a", b"", b"outer"]


OPAQUE = ["time", "time", "builtin", "function", "module", "listiter", "intiter", "buffer", "chan", "floatslice", "partial"]


def gen_opaque(r, kind=None):
    kind = kind or r.choice(OPAQUE)
    return ("o", kind, r.below(2), r.below(4 if kind == "time" else 3))


def cousin_opaque(r, v):
    """the same object, another object with the same content, the same kind with another content, another kind"""
    c = r.below(8)
    if c < 2:
        return v
    if c < 4:
        return ("o", v[1], 1 - v[2], v[3])
    if c < 7:
        return gen_opaque(r, v[1])
    return gen_opaque(r)


def gen_error(r):
    """an error value: plain, or with a chain of wrapped errors (up to three layers over one of three base errors)"""
    if r.chance(1, 2):
        return ("e", r.chance(1, 2), r.choice(MSGS))
    return chain_err(r.chance(1, 4), r.below(3), r.choice(BASES), [r.choice(PREFIXES) for _ in range(r.below(4))])


def cousin_error(r, v):
    """an error related to v: the same Go error again, an error that wraps it, the error it wraps, an error with the same
    message and another chain (another base object, a flat error, the layers cut elsewhere), the other raised flag"""
    raised = v[1]
    if len(v) > 3:
        ident, base, pxs = v[3][0], v[3][1], list(v[3][2])
    else:
        ident, base, pxs = 0, v[2], []
    c = r.below(9)
    if c == 0:
        return v
    if c in (1, 2):
        return chain_err(raised, ident, base, pxs + [r.choice(PREFIXES)])
    if c == 3 and pxs:
        return chain_err(raised, ident, base, pxs[:-1])
    if c == 4 and pxs:
        return chain_err(raised, ident, base, [])
    if c == 5:
        return chain_err(raised, (ident + 1) % 3, base, pxs)
    if c == 6:
        return ("e", raised, v[2])
    if c == 7 and pxs:
        # the same message with the innermost layer folded into the base message
        return chain_err(raised, ident, pxs[0] + b": " + base, pxs[1:])
    if c == 8:
        return chain_err(not raised, ident, base, pxs)
    return chain_err(raised, ident, base, pxs)
KEYS = [b"", b"a", b"b", b"k", "é".encode()]


def gen_int(r):
    c = r.below(10)
    if c < 6:
        return ("i", r.choice(INTS))
    if c < 8:
        return ("i", r.below(41) - 20)
    v = r.next()
    if v >= 1 << 63:
        v -= 1 << 64
    if c == 8:
        v >>= r.below(60)
    return ("i", v)


def gen_float(r, nan_ok=False):
    c = r.below(12)
    if nan_ok and c == 0:
        return ("d", r.choice(NANS))
    if c < 7:
        return ("d", fbits(r.choice(FLOATS)))
    if c < 9:
        # neighbours of an integer value
        i = r.choice(INTS)
        b = fbits(float(i))
        d = r.below(3) - 1
        mag = (b & (SIGN - 1)) + d
        if 0 <= mag <= INF_MAG:
            b = (b & SIGN) | mag
        return ("d", b)
    if c < 10:
        return ("d", fbits(float(r.below(41) - 20) / r.choice([1, 2, 4])))
    b = r.next()
    if (b & (SIGN - 1)) > INF_MAG and not nan_ok:
        b &= ~(1 << 62)
    return ("d", b)


def gen_scalar(r, nan_ok=False):
    c = r.below(17)
    if c == 16:
        return gen_opaque(r)
    if c == 0:
        return ("n",)
    if c == 1:
        return (r.choice("tf"),)
    if c < 6:
        return gen_int(r)
    if c < 10:
        return gen_float(r, nan_ok)
    if c < 12:
        return ("y", r.choice(BYTES))
    if c < 14:
        return ("s", r.choice(STRS))
    if c == 14:
        return ("b", r.choice(STRS))
    return gen_error(r)


def gen_hashable(r, nan_ok=False):
    while True:
        v = gen_scalar(r, nan_ok)
        if hashable(v):
            return v


def gen_value(r, depth=0, nan_ok=False):
    c = r.below(10)
    if depth >= 3 or c < 6:
        return gen_scalar(r, nan_ok)
    if c < 8:
        return ("L", [gen_value(r, depth + 1, nan_ok) for _ in range(r.below(4))])
    if c == 8:
        ks = []
        for _ in range(r.below(4)):
            k = r.choice(KEYS)
            if k not in ks:
                ks.append(k)
        return ("M", [(k, gen_value(r, depth + 1, nan_ok)) for k in ks])
    return ("S", dedup_set([gen_hashable(r, nan_ok) for _ in range(r.below(4))]))


def set_key(v):
    """identity of a hashable scalar inside a Go map[HashKey]: used only to build well-formed set literals"""
    if v[0] == "d":
        mag = v[1] & (SIGN - 1)
        if mag > INF_MAG:
            return None
        return ("d", 0 if mag == 0 else v[1])
    return v


def dedup_set(items):
    out, seen = [], set()
    for v in items:
        k = set_key(v)
        if k is None or k in seen:
            continue
        seen.add(k)
        out.append(v)
    return out


def cousin(r, v):
    """a value related to v: equal under ==, or nearly so (other numeric type, string<->byte_slice, +-0, neighbour)"""
    k = v[0]
    if k == "o":
        return cousin_opaque(r, v)
    if k == "e":
        return cousin_error(r, v)
    if k == "i":
        c = r.below(6)
        if c == 0:
            return ("d", fbits(float(v[1])))
        if c == 1 and 0 <= v[1] <= 255:
            return ("y", v[1])
        if c == 2:
            return ("i", max(-(1 << 63), min((1 << 63) - 1, v[1] + r.below(3) - 1)))
        if c == 3:
            f = float(v[1])
            if abs(f) < 2.0 ** 63:
                return ("i", int(f))
        return v
    if k == "d":
        c = r.below(6)
        mag = v[1] & (SIGN - 1)
        if c == 0 and mag <= INF_MAG:
            x = struct.unpack(">d", struct.pack(">Q", v[1]))[0]
            if x == x and abs(x) < 2.0 ** 63 and x == int(x):
                return ("i", int(x))
        if c == 1:
            x = struct.unpack(">d", struct.pack(">Q", v[1]))[0]
            if x == x and 0 <= x <= 255 and x == int(x):
                return ("y", int(x))
        if c == 2:
            return ("d", v[1] ^ SIGN)
        if c == 3:
            m2 = mag + r.below(3) - 1
            if 0 <= m2 <= INF_MAG:
                return ("d", (v[1] & SIGN) | m2)
        return v
    if k == "y":
        c = r.below(4)
        if c == 0:
            return ("i", v[1])
        if c == 1:
            return ("d", fbits(float(v[1])))
        if c == 2:
            return ("y", (v[1] + 1) % 256)
        return v
    if k == "s":
        c = r.below(4)
        if c == 0:
            return ("b", v[1])
        if c == 1:
            return ("s", v[1] + r.choice([b"", b"a", b"\x00"]))
        return v
    if k == "b":
        c = r.below(4)
        if c == 0:
            return ("s", v[1])
        if c == 1:
            return ("b", v[1] + r.choice([b"", b"a"]))
        return v
    if k == "e":
        c = r.below(4)
        if c == 0:
            return ("e", not v[1], v[2])
        if c == 1:
            return ("e", v[1], r.choice(MSGS))
        return v
    if k == "L":
        items = list(v[1])
        c = r.below(6)
        if items and c < 3:
            i = r.below(len(items))
            items[i] = cousin(r, items[i])
        elif c == 3:
            items = items + [gen_scalar(r)]
        elif c == 4 and items:
            items = items[:-1]
        return ("L", items)
    if k == "M":
        es = list(v[1])
        c = r.below(8)
        if es and c < 3:
            i = r.below(len(es))
            es[i] = (es[i][0], cousin(r, es[i][1]))
        elif c == 3 and es:
            es = es[1:] + es[:1]
        elif c == 4 and es:
            es = es[:-1]
        elif c >= 5 and es:
            # same size, another key set (a key renamed) and / or an entry bound to nil: a missing key and a key bound to
            # nil must not be confused
            i = r.below(len(es))
            free = [k for k in KEYS if k not in [e[0] for e in es]]
            k2 = r.choice(free) if free and c != 6 else es[i][0]
            es[i] = (k2, ("n",) if c >= 6 else es[i][1])
        return ("M", es)
    if k == "S":
        items = list(v[1])
        c = r.below(5)
        if items and c < 2:
            i = r.below(len(items))
            items[i] = cousin(r, items[i])
            if not hashable(items[i]):
                items = list(v[1])
        elif c == 2 and items:
            items = items[1:] + items[:1]
        elif c == 3:
            items = items + [gen_hashable(r)]
        return ("S", dedup_set(items))
    return v


HOMO = ["int", "float", "byte", "string", "bool", "lint", "lstr", "smallnum", "mixnum", "err", "bytes", "opaque", "otime"]


def gen_homo(r, kind):
    if kind == "int":
        return gen_int(r)
    if kind == "float":
        return gen_float(r)
    if kind == "byte":
        return ("y", r.choice(BYTES))
    if kind == "string":
        return ("s", r.choice(STRS))
    if kind == "bool":
        return (r.choice("tf"),)
    if kind == "lint":
        return ("L", [("i", r.below(4)) for _ in range(r.below(3))])
    if kind == "lstr":
        return ("L", [("s", r.choice(STRS[:6])) for _ in range(r.below(3))])
    if kind == "smallnum":
        c = r.below(3)
        n = r.below(6)
        return [("i", n), ("d", fbits(float(n) + r.choice([0.0, 0.5]))), ("y", n)][c]
    if kind == "mixnum":
        return r.choice([gen_int(r), gen_float(r), ("y", r.choice(BYTES))])
    if kind == "err":
        return gen_error(r)
    if kind == "opaque":
        return gen_opaque(r, r.choice(OPAQUE[2:]))
    if kind == "otime":
        return gen_opaque(r, "time")
    if kind == "bytes":
        return ("b", r.choice(STRS))
    raise ValueError(kind)


def gen_sort_input(r, malformed):
    if malformed:
        n = r.below(7)
        return ("L", [gen_value(r, 2, nan_ok=r.chance(1, 8)) for _ in range(n)])
    kind = r.choice(HOMO)
    n = r.below(13) if r.chance(5, 6) else 13 + r.below(8)
    if kind not in ("mixnum", "smallnum") and r.chance(1, 12):
        n = 21 + r.below(40)
    items = [gen_homo(r, kind) for _ in range(n)]
    # duplicates and equal-but-distinguishable members make stability observable
    for _ in range(r.below(4)):
        if items:
            items.insert(r.below(len(items) + 1), cousin(r, r.choice(items)) if kind in ("smallnum", "mixnum", "float")
                         else r.choice(items))
    if kind in ("smallnum", "mixnum", "float"):
        # lists that may mix ints and floats have no transitive order above 2^53 (known finding): the model sorts by
        # insertion, which is what sort.SliceStable does only up to 20 elements - longer mixed lists would compare algorithms
        items = items[:20]
    return ("L", items[:60])


# ------------------------------------------------------------------ observations

def parse_pair(line):
    f = line.split()
    if len(f) != 5 or f[0][0] != "E":
        return None
    return {"eq": f[0][1:], "ne": f[1][1:], "cmp": f[2][1:], "ops": f[3][1:], "h": f[4][1:]}


OPP = {"L": "G", "G": "L", "E": "E", "X": "X"}


def ops_of(c):
    """what <, <=, >, >= must answer when the three-way comparison answered c"""
    return {"L": "1100", "E": "0101", "G": "0011", "X": "XXXX"}[c]


class Findings:
    def __init__(self):
        self.viol = []
        self.known = {}

    def add(self, clause, case, why, known=None):
        if known:
            self.known.setdefault(known, {"clause": clause, "case": case, "why": why, "count": 0})["count"] += 1
        else:
            self.viol.append({"clause": clause, "case": case, "why": why})


K_MIX = "int-float-rounding-not-transitive"
K_SETX = "set-membership-cross-type"
K_TIME = "time-compare-same-instant-both-less"


def oracle_pair(a, b, o, route, F, stats):
    """laws on one ordered pair, evaluated on the implementation's answers only"""
    case = {"route": route, "a": text(a), "b": text(b), "impl": o}
    if has_nan(a) or has_nan(b):
        stats["nan_skipped"] += 1
        return
    eq_ab, eq_ba = o["eq"][0], o["eq"][1]
    # symmetry
    if eq_ab != eq_ba:
        F.add("symmetry of ==", case, "a == b is %s but b == a is %s" % (eq_ab, eq_ba))
    # != is the exact negation
    for i in (0, 1):
        if o["ne"][i] not in "01" or o["eq"][i] not in "01" or o["ne"][i] == o["eq"][i]:
            F.add("!= negates ==", case, "== gave %s and != gave %s" % (o["eq"][i], o["ne"][i]))
    # operators are the three-way comparison
    for i in (0, 1):
        if o["ops"][4 * i:4 * i + 4] != ops_of(o["cmp"][i]):
            F.add("operators agree with Compare", case, "compare %s but < <= > >= answered %s" % (o["cmp"][i], o["ops"][4 * i:4 * i + 4]))
    t = same_oty(a, b)
    if t is not None:
        stats["ordered_pairs"] += 1
        c_ab, c_ba = o["cmp"][0], o["cmp"][1]
        if c_ab == "X" or c_ba == "X":
            F.add("total preorder: comparable", case, "values of type %s were not comparable" % (t,))
        else:
            if OPP[c_ab] != c_ba:
                F.add("total preorder: antisymmetry", case, "compare(a,b)=%s compare(b,a)=%s" % (c_ab, c_ba))
            if (c_ab == "E") != (eq_ab == "1"):
                F.add("order agrees with ==", case, "compare(a,b)=%s but a == b is %s" % (c_ab, eq_ab))
            le_ab, le_ba = o["ops"][1], o["ops"][5]
            if le_ab != "1" and le_ba != "1":
                F.add("total preorder: totality", case, "neither a <= b nor b <= a")
    if o["ops"][0] == "1" and o["ops"][4] == "1" and not (numeric(a) and numeric(b)) and t is None:
        # outside the types the property lists: still, no order reports a < b together with b < a
        F.add("strict order is asymmetric", case, "a < b and b < a", K_TIME if (has_time(a) and has_time(b)) else None)
    if numeric(a) and numeric(b):
        stats["numeric_pairs"] += 1
        if o["ops"][0] == "1" and o["ops"][4] == "1":
            F.add("cross-numeric antisymmetry", case, "a < b and b < a")
        if o["cmp"][0] == "X" or o["cmp"][1] == "X":
            F.add("numeric values comparable", case, "compare failed between numeric types")
    # one slot in a set for == values of one type
    if hashable(a) and hashable(b) and tag(a) == tag(b):
        stats["slot_pairs"] += 1
        if o["h"] not in "01":
            F.add("set slot", case, "hash keys unavailable for hashable values")
        elif (o["h"] == "1") != (eq_ab == "1"):
            F.add("set slot", case, "a == b is %s but same-slot is %s" % (eq_ab, o["h"]))


def oracle_refl(a, o, route, F):
    case = {"route": route, "a": text(a), "b": "(a structural copy of a)", "impl": o}
    if has_nan(a):
        return
    if o["eq"] != "11":
        F.add("reflexivity of ==", case, "a == a is %s" % o["eq"])
    if oty(a) is not None and o["cmp"] != "EE":
        F.add("total preorder: reflexivity", case, "compare(a,a)=%s" % o["cmp"])


def oracle_triple(a, b, c, oab, obc, oac, route, F, stats):
    case = {"route": route, "a": text(a), "b": text(b), "c": text(c), "impl": {"ab": oab, "bc": obc, "ac": oac}}
    if has_nan(a) or has_nan(b) or has_nan(c):
        return
    if tag(a) == tag(b) == tag(c):
        stats["typed_triples"] += 1
        if oab["eq"][0] == "1" and obc["eq"][0] == "1":
            stats["eq_chains"] += 1
            if oac["eq"][0] != "1":
                F.add("transitivity of == within a type", case, "a == b and b == c but a == c is %s" % oac["eq"][0],
                      None if trans_guard(a, b, c) else K_MIX)
    if same_oty(a, b, c) is not None:
        stats["ordered_triples"] += 1
        if oab["ops"][1] == "1" and obc["ops"][1] == "1":
            stats["le_chains"] += 1
            if oac["ops"][1] != "1":
                F.add("total preorder: transitivity", case, "a <= b and b <= c but a <= c is %s" % oac["ops"][1])
            if (oab["ops"][0] == "1" or obc["ops"][0] == "1") and oac["ops"][0] != "1":
                F.add("total preorder: transitivity (strict)", case, "a < b <= c or a <= b < c but a < c is %s" % oac["ops"][0])


def oracle_contains(c, x, line, route, F, stats, extra=None):
    case = {"route": route, "container": text(c), "x": text(x), "impl": line}
    if extra:
        case.update(extra)
    if has_nan(c) or has_nan(x):
        return
    f = line.split()
    if c[0] not in "LSM":
        return
    if len(f) < 1 or f[0] not in ("I0", "I1"):
        F.add("in agrees with iterating and comparing", case, "membership test did not answer: %s" % line)
        return
    q = f[1][1:] if len(f) > 1 else ""
    if len(q) != len(c[1]):
        F.add("in agrees with iterating and comparing", case, "iteration yielded %d elements of %d" % (len(q), len(c[1])))
        return
    stats["contains"] += 1
    any_eq = "1" in q
    if any_eq:
        stats["contains_true"] += 1
    if (f[0] == "I1") != any_eq:
        known = None
        text_pair = lambda m: (m[0] == "b" and x[0] == "s") or (m[0] == "s" and x[0] == "b")
        if c[0] == "S" and any(tag(m) != tag(x) and ((numeric(m) and numeric(x)) or text_pair(m)) for m in c[1]):
            known = K_SETX
        if c[0] == "M" and x[0] == "b":
            known = K_SETX      # a byte_slice is == to the string key with its bytes; map membership asks for a string
        F.add("in agrees with iterating and comparing", case,
              "x in c is %s but comparing the elements with == gives %s" % (f[0][1], q), known)


def oracle_sorted(l, line, route, F, stats):
    case = {"route": route, "list": text(l), "impl": line}
    items = l[1]
    n = len(items)
    if has_nan(l):
        return
    f = line.split()
    mpos = [i for i, x in enumerate(f) if x.startswith("M")]
    if not mpos:
        F.add("sorted", case, "no comparison matrix in the observation")
        return
    matrix = f[mpos[-1]][1:]
    if len(matrix) != n * n:
        F.add("sorted", case, "comparison matrix has the wrong size")
        return
    M = [matrix[i * n:(i + 1) * n] for i in range(n)]
    comparable = all(ch != "X" for ch in matrix)
    if not comparable:
        stats["sort_incomparable"] += 1
        return
    stats["sort_comparable"] += 1
    mixed = anywhere(l, big_int) and has_kind(l, "d")
    known = K_MIX if mixed else None
    if has_time(l) and known is None:
        known = K_TIME      # times of one instant in different locations are each < the other: no order to sort by
    if f[0] != "ROK":
        if n >= 2:
            F.add("sorted: mutually comparable input is sorted", case, "sorted() answered %s" % f[0])
        return
    if n == 0:
        return
    try:
        perm = [int(x) for x in f[1].split(",")] if n else []
    except ValueError:
        F.add("sorted: permutation", case, "result is not a permutation of the argument's objects: %s" % f[1])
        return
    if sorted(perm) != list(range(n)):
        F.add("sorted: permutation", case, "result is not a permutation: %s" % f[1])
        return
    if f[2] != "A" + ",".join(str(i) for i in range(n)):
        F.add("sorted: argument untouched", case, "the argument list was reordered: %s" % f[2])
    bad = None
    for i in range(n):
        for j in range(i + 1, n):
            ch = M[perm[i]][perm[j]]
            if ch == "G":
                bad = "positions %d,%d are out of order" % (i, j)
            elif ch == "E" and perm[i] > perm[j]:
                bad = "equal elements at positions %d,%d swapped their original order (%d,%d)" % (i, j, perm[i], perm[j])
            if bad:
                break
        if bad:
            break
    if bad:
        F.add("sorted: stably ordered", case, bad, known)
    if any(perm[i] != i for i in range(n)):
        stats["sort_moved"] += 1
    if len(f) < 5 or f[3] != "ROK":
        F.add("sorted: idempotent", case, "second application answered %s" % (f[3] if len(f) > 3 else "nothing"), known)
    elif f[4] != ",".join(str(i) for i in range(n)):
        F.add("sorted: idempotent", case, "second application permuted again: %s" % f[4], known)


def oracle_set(l, line, F, stats):
    case = {"route": "api", "items": text(l), "impl": line}
    items = l[1]
    if has_nan(l):
        return
    f = line.split()
    if f[0] == "UNHASHABLE":
        if all(hashable(x) for x in items):
            F.add("set slot", case, "hashable items rejected")
        return
    n = int(f[0][1:])
    e = f[3][1:] if len(f) > 3 and f[3].startswith("E") else None
    if e is None or len(e) != len(items) ** 2:
        F.add("set slot", case, "no equality matrix in the observation")
        return
    k = len(items)
    E = [e[i * k:(i + 1) * k] for i in range(k)]
    # values of one type that are == occupy one slot: slots = number of ==-classes per type
    classes = 0
    for i in range(k):
        if not any(tag(items[j]) == tag(items[i]) and E[i][j] == "1" for j in range(i)):
            classes += 1
    stats["sets"] += 1
    if classes < k:
        stats["sets_with_merges"] += 1
    if n != classes:
        F.add("set slot", case, "%d items in %d ==-classes (by type) occupy %d slots" % (k, classes, n))
    if f[1] != "T%d" % (1 if n else 0):
        F.add("truthiness", case, "set with %d members has truthiness %s" % (n, f[1]))
    if f[2] != "I" + "1" * k:
        F.add("in agrees with iterating and comparing", case, "an item put into the set is not found in it: %s" % f[2])


def oracle_truthy(v, line, F, stats):
    case = {"route": "api", "v": text(v), "impl": line}
    f = line.split()
    if v[0] in "sbLMS":
        stats["truthy_containers"] += 1
        if f[1] == "N-":
            F.add("truthiness", case, "container without a length")
        elif (f[0] == "T1") != (int(f[1][1:]) != 0):
            F.add("truthiness", case, "truthiness %s but length %s" % (f[0][1], f[1][1:]))
        if v[0] in "LMS" and f[1] != "N%d" % len(v[1]):
            F.add("truthiness", case, "length %s of a container with %d members" % (f[1][1:], len(v[1])))


# ------------------------------------------------------------------ histories on one container object
# A container is looked at, changed through one of its mutating entry points (methods, the Container interface behind
# `c[k] = v` and the delete() builtin, the Go API), and looked at again - by every observer the property names
# (in, iteration, sorted, len, truthiness) and by the other readers of the same state (list, keys, printing, JSON,
# indexing, ==, copies).  Judged on the implementation's answers alone:
#   * the laws of the property at every step (in <-> iterating and comparing; len = number iterated; truthy <-> len != 0;
#     sorted / list / keys are permutations of the iteration);
#   * the post-condition of the operation on the membership test of its own argument;
#   * history independence: every observer answers on the container exactly as on a NEW container built from the
#     container's raw contents at that moment (c15obs builds it, see harness/cmd/c15obs/history.go).

H_OBS = "ntmieslkpjgzx"
H_OBS_NAME = {"n": "len", "t": "truthiness", "m": "in", "i": "iteration", "e": "iteration (entries)", "s": "sorted",
              "l": "list()", "k": "keys()", "p": "string() / printing", "j": "JSON", "g": "indexing", "z": "==",
              "x": "copying methods"}
H_MUT = {"S": ["add", "add", "add2", "remove", "remove", "delete", "delete", "delete", "clear", "setitem"],
         "M": ["set", "set", "mset", "delete", "delete", "mdelete", "pop", "pop", "clear", "setdefault", "update"],
         "L": ["append", "append", "extend", "insert", "pop", "pop", "remove", "remove", "clear", "reverse", "sort", "setidx",
               "delete", "delete"]}
H_INDEXED = ("insert", "pop", "setidx")     # first argument of these list operations is a literal index


def gen_plain(r, depth=1):
    """a value without errors and NaN (errors as script globals are a subject of their own)"""
    while True:
        v = gen_value(r, depth) if r.chance(1, 4) else gen_scalar(r)
        if not has_kind(v, "e") and not has_kind(v, "o") and not has_nan(v):
            return v


def gen_history(r):
    kind = r.choice("SSSSMML")
    if kind == "S":
        u = []
        for _ in range(4 + r.below(4)):
            v = cousin(r, r.choice(u)) if u and r.chance(1, 3) else gen_hashable(r)
            if hashable(v) and not has_nan(v):
                u.append(v)
        cont = ("S", dedup_set([x for x in u if r.chance(2, 3)]))
    elif kind == "M":
        ks = [("s", k) for k in KEYS if r.chance(3, 5)] or [("s", b"a")]
        u = ks + [gen_plain(r) for _ in range(2 + r.below(3))]
        cont = ("M", [(k[1], r.choice(u)) for k in ks if r.chance(2, 3)])
    else:
        u = [gen_plain(r) for _ in range(3 + r.below(4))]
        if r.chance(1, 2):
            u = [x if x[0] in "idy" else ("i", r.below(5)) for x in u]     # sortable lists
        cont = ("L", [r.choice(u) for _ in range(r.below(6))])
    ops = []
    nsteps = 3 + r.below(7)
    for k in range(nsteps):
        if k == 0 and r.chance(3, 4):
            name = "obs"
        elif r.chance(1, 8):
            name = "obs"
        else:
            name = r.choice(H_MUT[kind])
        a, b = r.below(len(u)), r.below(len(u))
        if kind == "L" and (name in H_INDEXED or name == "delete"):
            a = r.below(9) - 3
        if r.chance(1, 2):
            letters = list(H_OBS)
        else:
            letters = [r.choice(H_OBS) for _ in range(1 + r.below(5))]
            letters = [x for i, x in enumerate(letters) if x not in letters[:i]]
        # shuffle
        for i in range(len(letters) - 1, 0, -1):
            j = r.below(i + 1)
            letters[i], letters[j] = letters[j], letters[i]
        ops.append("%s:%d:%d:%s" % (name, a, b, "".join(letters)))
    return kind, cont, u, ops


def _plist(t):
    """parse the text of a list value; None when it is something else"""
    try:
        v, pos = parse_text(t.split())
    except (ValueError, IndexError):
        return None
    return v[1] if v[0] == "L" else None


def _bit(v):
    return {"t": "1", "f": "0"}.get(v[0], "X")


def oracle_history(route, kind, cont, u, ops, line, obs, F, stats):
    base = {"route": "script" if route == "h" else "api", "case": line}
    try:
        d = json.loads(obs)
        steps = d["steps"]
    except (ValueError, KeyError, TypeError):
        F.add("observation", dict(base, impl=obs[:300]), "the implementation side produced no observation")
        return
    if len(steps) != len(ops):
        F.add("observation", dict(base, impl=obs[:300]), "%d steps observed of %d" % (len(steps), len(ops)))
        return
    stats["histories"] += 1
    for k, (st, optext) in enumerate(zip(steps, ops)):
        name, a, b, letters = optext.split(":")
        a, b = int(a), int(b)
        o, f = st["o"], st["f"]
        case = dict(base, step=k, operation=optext, status=st["st"],
                    history=" ".join(x.rsplit(":", 1)[0] for x in ops[:k + 1]))
        if "!" in o or "!" in f:
            F.add("observation", dict(case, impl=o.get("!") or f.get("!")), "the observers of step %d could not be evaluated" % k)
            continue
        stats["history_steps"] += 1
        if name != "obs" and st["st"] == "ok":
            stats["history_mutations"] += 1
        # history independence
        for l in letters:
            if o.get(l) != f.get(l):
                F.add("a container with a history equals a new one with the same contents",
                      dict(case, observer=H_OBS_NAME[l], answered=o.get(l), new_container_answers=f.get(l)),
                      "after %s, %s answers differently on the container than on a new %s with the same contents"
                      % (case["history"], H_OBS_NAME[l], TAGNAME[kind]))
        n = t = m = it = q = None
        if "n" in o and o["n"].startswith("i"):
            n = int(o["n"][1:])
        if "t" in o and o["t"] in "tf":
            t = o["t"] == "t"
        if "m" in o:
            m = _plist(o["m"])
        if "i" in o:
            iq = _plist(o["i"])
            if iq is not None and len(iq) == 2 and iq[0][0] == "L" and iq[1][0] == "L":
                it, q = iq[0][1], iq[1][1]
        if n is not None and it is not None and n != len(it):
            F.add("len agrees with iterating", case, "len is %d, iteration yields %d elements" % (n, len(it)))
        if n is not None and t is not None and t != (n != 0):
            F.add("truthiness", dict(case), "truthiness %s but length %d" % (t, n))
        if t is not None and it is not None and t != (len(it) != 0):
            F.add("truthiness", dict(case), "truthiness %s but iteration yields %d elements" % (t, len(it)))
        if m is not None and it is not None and q is not None and len(m) == len(u) == len(q):
            members = [(e[1], ("n",)) for e in it if e[0] == "s"] if kind == "M" else it
            if len(members) == len(it):
                for x, mb, row in zip(u, m, q):
                    if _bit(mb) == "X" or row[0] != "L":
                        continue
                    before = len(F.viol)
                    oracle_contains((kind, members), x, "I%s Q%s" % (_bit(mb), "".join(_bit(e) for e in row[1])),
                                    base["route"], F, stats)
                    for v in F.viol[before:]:
                        v["case"] = dict(case, **v["case"])
        for l, nm in (("s", "sorted"), ("l", "list()"), ("k", "keys()")):
            if l in o and it is not None:
                got = _plist(o[l])
                if got is None:
                    continue            # an error answer: judged by the comparison with the new container
                if l == "k" and kind == "L":
                    if len(got) != len(it):
                        F.add("%s agrees with iterating" % nm, case, "%d keys for %d elements" % (len(got), len(it)))
                    continue
                if sorted(text(x) for x in got) != sorted(text(x) for x in it):
                    F.add("%s is a permutation of the iteration" % nm, dict(case, answered=o[l], iteration=o["i"]),
                          "%s yields other members than iterating" % nm)
        # post-condition of the operation on its own argument
        if m is not None and st["st"] == "ok" and len(m) == len(u):
            want = None
            args = [a]
            if (kind, name) in (("S", "add"), ("M", "set"), ("M", "mset"), ("M", "setdefault"), ("M", "update"), ("L", "append")):
                want = "1"
            elif (kind, name) == ("S", "add2"):
                want, args = "1", [a, b]
            elif (kind, name) in (("S", "remove"), ("S", "delete"), ("M", "delete"), ("M", "mdelete"), ("M", "pop")):
                want = "0"
            for i in args:
                if kind == "M" and u[i][0] != "s":
                    continue            # a byte_slice is accepted as a key by the methods and is not `in` the map (known class)
                if want is not None and _bit(m[i]) in "01" and _bit(m[i]) != want:
                    F.add("membership after the operation", dict(case, x=text(u[i])),
                          "after a successful %s(x), x in c is %s" % (name, _bit(m[i])))
        if name == "clear" and st["st"] == "ok" and n not in (None, 0):
            F.add("membership after the operation", case, "len is %d after clear" % n)


def run_histories(obs, rng, tier, work, F, stats):
    n = 2500 if tier == "quick" else 60000
    cases = []
    for _ in range(n):
        kind, cont, u, ops = gen_history(rng)
        body = "%s %s %s" % (text(cont), text(("L", u)), " ".join(ops))
        cases.append(("H", kind, cont, u, ops, "H " + body))
        cases.append(("h", kind, cont, u, ops, "h " + body))
    lines = [c[5] for c in cases]
    got, err = run_sharded(obs, lines, work, "hist", C.NCPU)
    if got is None:
        return None, err
    for (route, kind, cont, u, ops, line), g in zip(cases, got):
        oracle_history(route, kind, cont, u, ops, line, g, F, stats)
    return len(lines), ""


# ------------------------------------------------------------------ values spelled as source text

def gen_family_list(r):
    """a short list of scalars of one family of mutually == values (small ints / floats / bytes, or strings / byte_slices)"""
    n = r.below(6)
    if r.chance(2, 3):
        one = r.chance(1, 2)
        t = r.below(3)
        items = []
        for _ in range(n):
            k = r.below(5)
            items.append([("i", k), ("d", fbits(float(k))), ("y", k)][t if one else r.below(3)])
        return ("L", items)
    one = r.chance(2, 3)
    t = r.below(2)
    return ("L", [("sb"[t if one else r.below(2)], r.choice(STRS[:6])) for _ in range(n)])


def gen_spelled(rng, tier):
    """(kind, values) for the spelled routes `k` (membership) and `e` (pairs); each is preceded by its object-API twin"""
    q = tier == "quick"
    out = []
    for k in range(3000 if q else 80000):
        c = rng.below(10)
        if c < 5:
            cont = gen_family_list(rng)
        elif c < 6:
            cont = ("L", [gen_value(rng, 1) for _ in range(rng.below(5))])
        elif c < 8:
            cont = ("S", dedup_set([gen_hashable(rng) for _ in range(rng.below(5))]))
        elif c < 9:
            ks = []
            for _ in range(rng.below(4)):
                kk = rng.choice(KEYS)
                if kk not in ks:
                    ks.append(kk)
            cont = ("M", [(kk, gen_scalar(rng)) for kk in ks])
        else:
            cont = gen_value(rng, 1)
        members = cont[1] if cont[0] in "LS" else ([("s", kk) for kk, _ in cont[1]] if cont[0] == "M" else [])
        d = rng.below(8)
        if members and d < 2:
            x = rng.choice(members)
        elif members and d < 6:
            x = cousin(rng, rng.choice(members))
        elif d < 7 and cont[0] == "L":
            x = rng.choice([("i", rng.below(6)), ("d", fbits(float(rng.below(6)))), ("y", rng.below(6)), ("s", rng.choice(STRS[:6])),
                            ("b", rng.choice(STRS[:6]))])
        else:
            x = gen_value(rng, 1)
        out.append(("C", (cont, x)))
        out.append(("k", (cont, x)))
    for k in range(2500 if q else 60000):
        a = gen_value(rng, 0) if rng.chance(2, 3) else gen_homo(rng, rng.choice(HOMO))
        c = rng.below(10)
        b = a if c < 2 else (cousin(rng, a) if c < 8 else gen_value(rng, 0))
        out.append(("P", (a, b)))
        out.append(("e", (a, b)))
    return out


def run_spelled(obs, rng, tier, work, F, stats):
    """the laws on values that the script WRITES OUT: literal operands in place, in variables, in call results, nested in
    other literals ... - every spelling must answer as the object API does and obey the same laws"""
    cases = gen_spelled(rng, tier)
    lines = ["%s %s" % (k, " ".join(text(v) for v in vs)) for k, vs in cases]
    got, err = run_sharded(obs, lines, work, "spell", C.NCPU)
    if got is None:
        return None, err
    api = None
    for (k, vs), line, g in zip(cases, lines, got):
        if k in "CP":
            api = g
            continue
        src = ""
        for tok in g.split():
            if tok.startswith("SRC="):
                src = bytes.fromhex(tok[4:]).decode("utf-8", "replace")
        if g.startswith("SCRIPTERR") or g.startswith("BADCASE"):
            if not any(has_nan(v) for v in vs):
                F.add("observation", {"case": line, "impl": g[:300], "script": src}, "the spelled script produced no observation")
            continue
        stats["spelled"] += 1
        if k == "k":
            c, x = vs
            f = g.split()
            spell = dict(t.split("=I", 1) for t in f if "=I" in t and not t.startswith("SRC="))
            qlit = [t for t in f if t.startswith("Q")][0]
            qvar = [t for t in f if t.startswith("V")][0]
            if has_nan(c) or has_nan(x):
                continue
            extra = {"script": src}
            for name, ans in spell.items():
                oracle_contains(c, x, "I%s %s" % (ans, qlit), "script, spelling " + name, F, stats, extra)
            if qlit[1:] != qvar[1:]:
                F.add("in agrees with iterating and comparing", {"case": line, "impl": g[:300], "script": src},
                      "iterating the container literal and comparing gives %s, iterating the same container held in a variable gives %s" % (qlit[1:], qvar[1:]))
            if len(set(spell.values())) > 1:
                F.add("in agrees with iterating and comparing", {"case": line, "container": text(c), "x": text(x), "answers": spell, "script": src},
                      "the membership test answers differently depending on how container and value are spelled: %s"
                      % ", ".join("%s=%s" % kv for kv in sorted(spell.items())))
            if api is not None and api.split()[:1] and api.split()[0] in ("I0", "I1"):
                wrong = sorted(n for n, a in spell.items() if "I" + a != api.split()[0])
                if wrong:
                    F.add("script and API agree", {"case": line, "api": api, "answers": spell, "script": src},
                          "Contains() through the object API answers %s, the script spellings %s answer otherwise" % (api.split()[0][1], ", ".join(wrong)))
            if "1" in spell.values() and any(tag(m) != tag(x) for m in (c[1] if c[0] in "LS" else [])):
                stats["spelled_cross_type_hits"] += 1
        else:
            a, b = vs
            parts = [t.strip() for t in g[2:].split("|")]
            names = ["literal-literal", "variable-literal", "literal-variable", "through-parameters"]
            obs_lines = parts[:len(names)]
            for name, ol in zip(names, obs_lines):
                o = parse_pair(ol)
                if o is None:
                    F.add("observation", {"case": line, "impl": ol, "script": src}, "unparsable pair observation")
                    continue
                before = len(F.viol)
                oracle_pair(a, b, o, "script, operands " + name, F, stats)
                for v in F.viol[before:]:
                    v["case"]["script"] = src
                if api is not None and api != ol and not (has_nan(a) or has_nan(b)):
                    F.add("script and API agree", {"case": line, "api": api, "script_answers": ol, "spelling": name, "script": src},
                          "operands spelled %s: the script answers differently from the object API" % name)
            if len(set(obs_lines)) > 1:
                F.add("script and API agree", {"case": line, "answers": dict(zip(names, obs_lines)), "script": src},
                      "== / != / < / <= / > / >= / set slots answer differently depending on how the operands are spelled")
    return len(lines), ""


# ------------------------------------------------------------------ case generation

def gen_cases(rng, tier):
    q = tier == "quick"
    n_pairs = 40000 if q else 1200000
    n_triples = 20000 if q else 600000
    n_sort = 2000 if q else 60000
    n_sets = 1500 if q else 40000
    n_cont = 4000 if q else 120000
    n_truthy = 1500 if q else 20000
    script_every = 8 if q else 12
    cases = []   # (kind, values, meta)

    def add_pair(a, b, meta, k):
        cases.append(("P", (a, b), meta))
        if k % script_every == 0:
            cases.append(("p", (a, b), meta))

    for k in range(n_pairs):
        malformed = k % 10 == 9
        a = gen_value(rng, 0, nan_ok=malformed)
        c = rng.below(10)
        if c < 2:
            add_pair(a, a, "refl", k)
        elif c < 6:
            add_pair(a, cousin(rng, a), "cousin", k)
        elif c < 8:
            kind = rng.choice(HOMO)
            add_pair(gen_homo(rng, kind), gen_homo(rng, kind), "homo", k)
        else:
            add_pair(a, gen_value(rng, 0, nan_ok=malformed), "indep", k)
    triples = []
    for k in range(n_triples):
        c = rng.below(10)
        if c < 4:
            a = gen_value(rng, 0)
            b = cousin(rng, a)
            cc = cousin(rng, b if rng.chance(2, 3) else a)
        elif c < 9:
            kind = rng.choice(HOMO)
            a, b, cc = gen_homo(rng, kind), gen_homo(rng, kind), gen_homo(rng, kind)
            if rng.chance(1, 3):
                b = cousin(rng, a)
            if rng.chance(1, 3):
                cc = cousin(rng, b)
        else:
            a, b, cc = gen_value(rng, 0), gen_value(rng, 0), gen_value(rng, 0)
        kind = "p" if k % (script_every * 2) == 0 else "P"
        base = len(cases)
        cases.append((kind, (a, b), "tri"))
        cases.append((kind, (b, cc), "tri"))
        cases.append((kind, (a, cc), "tri"))
        triples.append((base, a, b, cc))
    for k in range(n_sort):
        l = gen_sort_input(rng, malformed=(k % 8 == 7))
        cases.append(("S", (l,), "sort"))
        if k % 4 == 0:
            cases.append(("s", (l,), "sort"))
    for k in range(n_sets):
        n = rng.below(7)
        items = []
        for _ in range(n):
            if items and rng.chance(1, 2):
                items.append(cousin(rng, rng.choice(items)))
                if not hashable(items[-1]):
                    items.pop()
            else:
                items.append(gen_hashable(rng))
        if k % 10 == 9:
            items.append(gen_value(rng, 1))
        cases.append(("U", (("L", items),), "set"))
    for k in range(n_cont):
        c = rng.below(10)
        if c < 4:
            cont = ("L", [gen_value(rng, 1) for _ in range(rng.below(5))])
        elif c < 8:
            cont = ("S", dedup_set([gen_hashable(rng) for _ in range(rng.below(5))]))
        elif c < 9:
            ks = []
            for _ in range(rng.below(4)):
                kk = rng.choice(KEYS)
                if kk not in ks:
                    ks.append(kk)
            cont = ("M", [(kk, gen_scalar(rng)) for kk in ks])
        else:
            cont = gen_value(rng, 1)
        d = rng.below(6)
        members = cont[1] if cont[0] in "LS" else ([("s", kk) for kk, _ in cont[1]] if cont[0] == "M" else [])
        if members and d < 2:
            x = rng.choice(members)
        elif members and d < 4:
            x = cousin(rng, rng.choice(members))
        else:
            x = gen_value(rng, 1)
        cases.append(("C", (cont, x), "in"))
        if k % 4 == 0:
            cases.append(("c", (cont, x), "in"))
    for k in range(n_truthy):
        cases.append(("Y", (gen_value(rng, 0, nan_ok=(k % 10 == 9)),), "truthy"))
    return cases, triples


def parse_text(toks, pos=0):
    """inverse of text(): returns (value, next position)"""
    t = toks[pos]
    if t in ("n", "t", "f"):
        return (t,), pos + 1
    if t.startswith("s="):
        return ("s", bytes.fromhex(t[2:])), pos + 1
    if t.startswith("b="):
        return ("b", bytes.fromhex(t[2:])), pos + 1
    if t.startswith("e0=") or t.startswith("e1="):
        return ("e", t[1] == "1", bytes.fromhex(t[3:])), pos + 1
    if t.startswith("O="):
        parts = t[2:].split("/")
        return ("o", parts[0], int(parts[1]), int(parts[2])), pos + 1
    if t.startswith("E0=") or t.startswith("E1="):
        parts = t[3:].split("/")
        return chain_err(t[1] == "1", int(parts[0]), bytes.fromhex(parts[1]), [bytes.fromhex(x) for x in parts[2:]]), pos + 1
    if t[0] == "i":
        return ("i", int(t[1:])), pos + 1
    if t[0] == "y":
        return ("y", int(t[1:])), pos + 1
    if t[0] == "d":
        return ("d", int(t[1:], 16)), pos + 1
    if t[0] in "LS":
        n, items, pos = int(t[1:]), [], pos + 1
        for _ in range(n):
            v, pos = parse_text(toks, pos)
            items.append(v)
        return (t[0], items), pos
    if t[0] == "M":
        n, es, pos = int(t[1:]), [], pos + 1
        for _ in range(n):
            k = bytes.fromhex(toks[pos][2:])
            v, pos = parse_text(toks, pos + 1)
            es.append((k, v))
        return ("M", es), pos
    raise ValueError(t)


def parse_case(line):
    toks = line.split()
    if toks[0] == "T":
        toks = ["P"] + toks[1:]
    vals, pos = [], 1
    while pos < len(toks):
        v, pos = parse_text(toks, pos)
        vals.append(v)
    return (toks[0], tuple(vals), "corpus")


def corpus_cases():
    """witnesses of the known classes and past disagreements: run first"""
    out = []
    d = os.path.join(C.VERIF, "corpus", PROP)
    if os.path.isdir(d):
        for fn in sorted(os.listdir(d)):
            for line in open(os.path.join(d, fn)):
                line = line.strip()
                if line and not line.startswith("#"):
                    out.append(line)
    return out


# ------------------------------------------------------------------ running both sides

def run_sharded(exe, lines, work, name, shards):
    n = len(lines)
    size = (n + shards - 1) // shards
    paths = []
    for i in range(shards):
        part = lines[i * size:(i + 1) * size]
        p = os.path.join(work, "%s_in_%d" % (name, i))
        with open(p, "w") as f:
            f.write("\n".join(part) + ("\n" if part else ""))
        paths.append((p, os.path.join(work, "%s_out_%d" % (name, i)), len(part)))

    def one(pi):
        p, o, k = pi
        with open(p, "rb") as fin, open(o, "wb") as fout:
            return subprocess.run([exe], stdin=fin, stdout=fout, stderr=subprocess.PIPE).returncode

    with ThreadPoolExecutor(max_workers=shards) as ex:
        rcs = list(ex.map(one, paths))
    out = []
    for (p, o, k), rc in zip(paths, rcs):
        got = open(o, "rb").read().decode("utf-8", "replace").split("\n")
        if got and got[-1] == "":
            got.pop()
        if rc != 0 or len(got) != k:
            return None, "shard %s: exit %d, %d lines for %d cases" % (os.path.basename(p), rc, len(got), k)
        out += got
    return out, ""


def load_known_ids():
    ids = {}
    import glob
    for fn in ["known_findings.jsonl"] + sorted(os.path.basename(x) for x in glob.glob(os.path.join(C.VERIF, "known_findings.*.jsonl"))):
        p = os.path.join(C.VERIF, fn)
        if not os.path.exists(p):
            continue
        for line in open(p):
            line = line.strip()
            if not line or line.startswith("#"):
                continue
            j = json.loads(line)
            if j.get("property") == PROP and not j.get("fixed") and j.get("id") not in ids:
                ids[j["id"]] = j
    return ids


def run(res):
    tier = res.tier
    cov = res.coverage
    obs, err = C.go_build("c15obs")
    if not obs:
        res.violation({"property": PROP, "kind": "harness-build-failed", "stage": "go build c15obs", "log": err[-3000:]},
                      nofail=True, tag="build")
        return
    proved = C.prove(res, PROP)
    if proved and tier == "thorough":
        # independent re-check of the compiled proofs
        if not C.coqchk(res, PROP):
            proved = False
            res.broken = {"log_tail": res.coverage.get("coqchk", {}).get("tail", ""), "errors": []}
    model, err = C.build_extracted("ops", "ExtractOps.v", "ops_driver.ml")
    if not model:
        res.violation({"property": PROP, "kind": "model-build-failed", "stage": "extraction", "log": err[-3000:],
                       "broken": getattr(res, "broken", None)}, nofail=True, tag="extract")
        return
    os.makedirs(C.WORK, exist_ok=True)
    work = tempfile.mkdtemp(prefix="c15-", dir=C.WORK)
    try:
        _body(res, tier, obs, model, work, proved)
    finally:
        shutil.rmtree(work, ignore_errors=True)


def _body(res, tier, obs, model, work, proved):
    cov = res.coverage
    rng = C.Rng(res.seed)
    cases, triples = gen_cases(rng, tier)
    corpus = []
    ctriples = []
    for l in corpus_cases():
        k, vs, meta = parse_case(l)
        if l.startswith("T ") and len(vs) == 3:
            ctriples.append((len(corpus), vs[0], vs[1], vs[2]))
            corpus += [("P", (vs[0], vs[1]), "tri"), ("P", (vs[1], vs[2]), "tri"), ("P", (vs[0], vs[2]), "tri")]
        else:
            corpus.append((k, vs, meta))
    triples = ctriples + [(b + len(corpus), x, y, z) for b, x, y, z in triples]
    cases = corpus + cases
    lines = ["%s %s" % (k, " ".join(text(v) for v in vs)) for k, vs, _ in cases]
    nc = 0
    shards = C.NCPU
    with ThreadPoolExecutor(max_workers=2) as ex:
        fg = ex.submit(run_sharded, obs, lines, work, "go", shards)
        fm = ex.submit(run_sharded, model, ["Y n" if "O=" in l else model_text(l) for l in lines], work, "mo", shards)
        (go, e1), (mo, e2) = fg.result(), fm.result()
    if go is None or mo is None:
        res.violation({"property": PROP, "kind": "harness-run-failed", "stage": "c15obs / model_ops", "log": e1 + " " + e2},
                      nofail=True, tag="run")
        return

    # correspondence
    diffs = []
    ndiff = 0
    badcase = 0
    for i, (g, m) in enumerate(zip(go, mo)):
        if "O=" in lines[i]:
            continue        # values outside the model (no literal spelling): judged by the laws alone
        if g.startswith("BADCASE") or m.startswith("BADCASE"):
            badcase += 1
        if g != m:
            ndiff += 1
            if len(diffs) < 25:
                diffs.append({"case": lines[i], "impl": g, "model": m})

    # oracle on the implementation's observations
    F = Findings()
    stats = {k: 0 for k in ("nan_skipped", "ordered_pairs", "numeric_pairs", "slot_pairs", "typed_triples", "eq_chains",
                            "ordered_triples", "le_chains", "contains", "contains_true", "sort_comparable",
                            "sort_incomparable", "sort_moved", "sets", "sets_with_merges", "truthy_containers",
                            "route_pairs", "route_differences", "histories", "history_steps", "history_mutations",
                            "spelled", "spelled_cross_type_hits")}
    nontrivial = set()
    kinds = {}
    parsed = {}
    last_api = {}
    for i, (k, vs, meta) in enumerate(cases):
        g = go[nc + i]
        kinds[k] = kinds.get(k, 0) + 1
        route = "script" if k.islower() else "api"
        if g.startswith("SCRIPTERR") or g.startswith("BADCASE"):
            F.add("observation", {"case": lines[nc + i], "impl": g}, "the implementation side produced no observation")
            continue
        if k in "Pp":
            o = parse_pair(g)
            if o is None:
                F.add("observation", {"case": lines[nc + i], "impl": g}, "unparsable pair observation")
                continue
            parsed[i] = o
            a, b = vs
            oracle_pair(a, b, o, route, F, stats)
            if meta == "refl":
                oracle_refl(a, o, route, F)
            if k == "P":
                last_api[lines[nc + i][2:]] = g
            else:
                stats["route_pairs"] += 1
                ga = last_api.get(lines[nc + i][2:])
                if ga is not None and ga != g:
                    stats["route_differences"] += 1
                    F.add("script and API agree", {"case": lines[nc + i], "api": ga, "script": g}, "the two routes answered differently")
            if o["eq"][0] == "1" and text(a) != text(b):
                nontrivial.add(lines[nc + i][2:])
            elif o["cmp"][0] in "LG":
                nontrivial.add(lines[nc + i][2:])
        elif k in "Cc":
            oracle_contains(vs[0], vs[1], g, route, F, stats)
            if g.startswith("I1"):
                nontrivial.add(lines[nc + i])
        elif k in "Ss":
            before = stats["sort_moved"]
            oracle_sorted(vs[0], g, route, F, stats)
            if stats["sort_moved"] > before:
                nontrivial.add(lines[nc + i])
        elif k == "U":
            before = stats["sets_with_merges"]
            oracle_set(vs[0], g, F, stats)
            if stats["sets_with_merges"] > before:
                nontrivial.add(lines[nc + i])
        elif k == "Y":
            oracle_truthy(vs[0], g, F, stats)
    for base, a, b, c in triples:
        if base in parsed and base + 1 in parsed and base + 2 in parsed:
            route = "script" if cases[base][0] == "p" else "api"
            oracle_triple(a, b, c, parsed[base], parsed[base + 1], parsed[base + 2], route, F, stats)

    nh, herr = run_histories(obs, rng, tier, work, F, stats)
    if nh is None:
        res.violation({"property": PROP, "kind": "harness-run-failed", "stage": "c15obs histories", "log": herr},
                      nofail=True, tag="run")
        return

    nsp, serr = run_spelled(obs, rng, tier, work, F, stats)
    if nsp is None:
        res.violation({"property": PROP, "kind": "harness-run-failed", "stage": "c15obs spelled values", "log": serr},
                      nofail=True, tag="run")
        return

    known_ids = load_known_ids()

    evals = len(lines) + nh + nsp
    cov["evaluations"] = evals
    cov["distinct_nontrivial"] = len(nontrivial)
    cov["rule"] = ("values generated from C.Rng(seed): scalars at boundary values (ints around 2^53, 2^63, byte range; floats "
                   "+-0, subnormal, 2^53, 2^63, +-Inf, neighbours of integer values), strings with multi-byte and invalid "
                   "UTF-8, byte_slices, errors, nested lists / maps / sets to depth 3; pairs are (copy, related value of a "
                   "neighbouring type or magnitude, same-type, independent), triples are chains of related values; sort and "
                   "set inputs are lists with duplicates and equal-but-distinguishable members (1, 1.0, byte 1, +-0); one "
                   "case in ten carries NaN or mixes incomparable types (malformed stream, oracle skipped, model still "
                   "compared). Every case goes through object.Compare/Equals/HashKey/Contains/builtins.Sorted and a "
                   "subset also through scripts (== < in sorted, set literals). Non-trivial = distinct pairs that are == "
                   "without being the same text or are strictly ordered, membership tests that answer true, sorts that move "
                   "an element, set inputs that merge members. Histories (oracle only, both routes): one set / map / list object "
                   "is observed, changed through its methods, `c[k] = v`, the delete() builtin or the Go API, and observed "
                   "again by every reader (in, iteration, sorted, len, truthiness, list, keys, printing, JSON, indexing, ==, "
                   "copies), each also on a new container with the same raw contents. Spelled values (oracle only): container and "
                   "value, and the operands of the comparison operators, written out as source text - the literal in place, held in a "
                   "variable, returned by a call, element of an enclosing literal, parenthesised, passed as arguments, as a condition, "
                   "through `not in` -: every spelling must obey the laws, answer like every other spelling and like the object API.")
    cov["samples"] = [{"case": lines[nc + i], "impl": go[nc + i], "model": mo[nc + i]}
                      for i in range(0, len(cases), max(1, len(cases) // 14))][:14]
    cov["correspondence"] = {"cases": evals, "differences": ndiff, "unparsable": badcase, "first_differences": diffs[:5]}
    cov["input_distribution"] = {"kinds": kinds, "corpus": len(corpus), **stats}
    cov["oracle"] = {"violations": len(F.viol), "known_classes_seen": {k: v["count"] for k, v in F.known.items()}}
    res.assumptions += [
        "IEEE-754 binary64 comparison of non-NaN values is the integer order of the sign-magnitude bit pattern (model of Go's ==, > on float64); float64(int64) is round-to-nearest-even; both validated by the differential run on boundary values",
        "Go map key equality on object.HashKey is field-wise ==, so +0 and -0 share a slot and NaN never matches",
        "sort.SliceStable is an insertion sort for n <= 20; for longer inputs it is assumed to be a correct stable sort (inputs longer than 20 are generated homogeneous only)",
        "values are finite trees: cyclic containers are outside the model (C03 finding: l.append(l); l == l overflows the stack)",
        "NaN is excluded by the property; the model still reproduces the implementation on NaN and is compared on it",
    ]

    # decide
    for kid, info in F.known.items():
        if kid in known_ids:
            ex = info["case"]
            ex = " ".join("%s=%s" % (k, ex[k]) for k in ("a", "b", "c", "container", "x", "list") if k in ex)
            res.known_finding("%s: %s [%d cases this run, e.g. %s]" % (kid, known_ids[kid]["what"], info["count"], ex[:160]))
        else:
            F.viol.append({"clause": info["clause"], "case": info["case"], "why": info["why"]})
    for v in F.viol[:10]:
        res.violation({"property": PROP, "kind": "oracle-violation", "clause": v["clause"], "input": v["case"], "why": v["why"],
                       "replay_cmd": "echo '<case line>' | build/bin/c15obs"})
    if F.viol:
        return
    if not proved:
        res.violation({"property": PROP, "kind": "proof-obligation-broken", "theorem_file": "coq/props/C15.v",
                       "broken": res.broken, "search": "oracle evaluated on %d implementation observations: no failing input" % evals},
                      nofail=True, tag="proof")
        return
    if ndiff:
        res.violation({"property": PROP, "kind": "correspondence-broken", "stage": "c15obs vs extracted Ops.v",
                       "first_difference": diffs[0], "differences": diffs,
                       "search": "oracle evaluated on all %d implementation observations: no failing input" % evals},
                      nofail=True, tag="corr")


def replay(data):
    print(json.dumps(data, indent=1))
    obs, err = C.go_build("c15obs")
    if not obs:
        print(err)
        return 2
    inp = data.get("input") or data.get("first_difference") or {}
    line = inp.get("case")
    if not line and "a" in inp:
        parts = [inp[k] for k in ("a", "b", "c") if k in inp and not inp[k].startswith("(")]
        if len(parts) == 1:
            parts = parts * 2
        line = "\n".join("%s %s %s" % ("p" if inp.get("route") == "script" else "P", x, y)
                         for x, y in zip(parts, parts[1:]))
    if not line and "container" in inp:
        line = "%s %s %s" % ("c" if inp.get("route") == "script" else "C", inp["container"], inp["x"])
    if not line and "list" in inp:
        line = "%s %s" % ("s" if inp.get("route") == "script" else "S", inp["list"])
    if not line and "items" in inp:
        line = "U " + inp["items"]
    if not line and "v" in inp:
        line = "Y " + inp["v"]
    if line:
        rc, o, e = C.run([obs], input=(line + "\n").encode())
        print(line)
        print(o)
    return 0
