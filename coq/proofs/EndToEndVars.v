(* Stages B and C assembled: for programs over top-level variables - declarations, assignments, expression statements
   and conditionals with assignment / expression branches, any number, any scalar expressions over the variables
   declared so far - compiling with the compiler model and running the result on the VM model gives what the
   reference semantics gives. *)
From Coq Require Import List ZArith NArith Bool Arith Lia.
Require Import RV.model.Syntax RV.model.Compiler RV.model.VM RV.model.ScalarFrag RV.model.VarProg.
Require Import RV.proofs.VMScalarProofs RV.proofs.VarProgFacts RV.proofs.VarCompileProofs RV.proofs.VarVMProofs.
Require RV.model.Sem RV.proofs.SemScalarProofs RV.proofs.VarSemProofs.
Import ListNotations.
Local Open Scope nat_scope.

Definition agree (o : Sem.outcome) (r : res) : Prop :=
  exists x : sval + serr,
    o = SemScalarProofs.lift x /\
    match x with
    | inl v => exists s, r = RVal (VMScalarProofs.inj v) s
    | inr er => exists s, r = RErr (cls er) s
    end.

Lemma nth_of_nth_error (A : Type) (l : list A) i k d : nth_error l i = Some k -> nth i l d = k.
Proof. revert i; induction l as [|x l IH]; intros [|i] H; cbn in *; try discriminate; [congruence|auto]. Qed.

Lemma max_need_pos l : l <> [] -> 1 <= max_need l.
Proof.
  destruct l as [|s r]; [contradiction|]. intros _. rewrite max_need_cons.
  pose proof (VarVMProofs.stmt_need_pos s). lia.
Qed.

Section Names.
  Variable names : list (list N).
  Hypothesis names_nodup : NoDup names.
  Hypothesis names_nonempty : Forall (fun nm => nm <> []) names.

  Theorem run_var_program l tabs ng :
    l <> [] -> wf_stmts 0 l = true -> ndecls l <= ng -> max_need l <= MAXSTACK ->
    exists n s', forall f,
      VM.run (n + S f) (Code main_id main_id false 0 (fst (pcode 0 0 l)) (snd (pcode 0 0 l)) [] [] []) tabs ng [] =
      match run_stmts [] l VNil with
      | inl v => RVal (VMScalarProofs.inj v) s'
      | inr x => RErr (cls x) s'
      end.
  Proof.
    intros Hne Hwf Hng Hn.
    set (c := Code main_id main_id false 0 (fst (pcode 0 0 l)) (snd (pcode 0 0 l)) [] [] []).
    set (s0 := {| lists := []; maps := []; arrays := [repeat VGoNil ng]; iters := [];
                  globals := [] ++ repeat VGoNil (ng - length (@nil value)); trace := [] |}).
    assert (Hinv : vm_inv [] (ndecls l) s0).
    { split; [cbn [length Nat.add globals s0 app]; rewrite repeat_length; cbn; lia|]. intros i Hi. cbn in Hi. lia. }
    destruct (vm_prog tabs c 0 [0] [] [] true l [] s0 0 [] [] VNil Hne Hinv Hwf) as [n [s' Hr]].
    - cbn [code_instr c app]. rewrite app_nil_r. reflexivity.
    - intros i kk Hi. cbn [code_consts c Nat.add]. apply nth_of_nth_error. exact Hi.
    - cbn [Nat.add]. exact Hn.
    - exists n, s'. intros f. unfold VM.run. fold s0. fold c. specialize (Hr (S f)). cbn [length] in Hr.
      destruct (run_stmts [] l VNil) as [v|x].
      + rewrite Hr. cbn [length Nat.add]. cbn [exec].
        replace (nth_error (code_instr c) (length (fst (pcode 0 0 l)))) with (@None N);
          [reflexivity|symmetry; apply nth_error_None; cbn [code_instr c]; lia].
      + rewrite Hr. reflexivity.
  Qed.

  Theorem var_programs_end_to_end : forall l,
    l <> [] -> wf_stmts 0 l = true -> ndecls l <= length names -> max_need l <= MAXSTACK ->
    exists c tabs, compile_program (S (max_height l)) [] (embed_stmts names 0 l) = inr (c, tabs) /\
    forall ng, ndecls l <= ng -> exists n, forall f fs, max_height l < fs ->
      agree (fst (Sem.run fs (embed_stmts names 0 l))) (VM.run (n + S f) c tabs ng []).
  Proof.
    intros l Hne Hwf Hd Hn. eexists. eexists.
    split; [exact (compile_var_program names names_nodup l (max_height l) Hne Hd Hwf (le_n _))|].
    intros ng Hng. destruct (run_var_program l (root_tb names (ndecls l) (nblocks l) :: blocks (nblocks l)) ng Hne Hwf Hng Hn) as [n [s' Hr]].
    exists n. intros f fs Hfs. exists (run_stmts [] l VNil). split.
    - destruct fs as [|fs]; [lia|].
      exact (VarSemProofs.sem_var_program names names_nodup names_nonempty l fs Hwf Hd ltac:(lia)).
    - rewrite Hr. destruct (run_stmts [] l VNil); eexists; reflexivity.
  Qed.
End Names.
