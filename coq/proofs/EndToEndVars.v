(* Stages B-G assembled: for programs over variables - declarations (at the top level and inside blocks), assignments,
   compound assignments, ++ / --, expression statements, conditionals, plain loops, condition loops and three-clause loops (with break and continue)
   nested to any depth, any scalar expressions over the variables visible at that point -
   compiling with the compiler model and running the result on the VM model gives what the reference semantics
   gives, whenever the program ends (its source-level run [run_stmts] returns with some fuel). *)
From Coq Require Import List ZArith NArith Bool Arith Lia.
Require Import RV.model.Syntax RV.model.Compiler RV.model.VM RV.model.ScalarFrag RV.model.VarProg.
Require Import RV.proofs.VMScalarProofs RV.proofs.VarProgFacts RV.proofs.VarCompileProofs RV.proofs.VarVMProofs.
Require RV.model.Sem RV.proofs.SemScalarProofs RV.proofs.VarSemProofs.
Import ListNotations.
Local Open Scope nat_scope.

(* the outcome x of the source-level run is what both sides report *)
Definition agree_on (x : sval + serr) (o : Sem.outcome) (r : res) : Prop :=
  o = SemScalarProofs.lift x /\
  match x with
  | inl v => exists s, r = RVal (VMScalarProofs.inj v) s
  | inr er => exists s, r = RErr (cls er) s
  end.
Definition agree (o : Sem.outcome) (r : res) : Prop := exists x, agree_on x o r.

(* what a whole program amounts to; break / continue cannot reach the top level of a well-formed program (VarProgFacts.no_escape_stmts) *)
Definition top_result (r : (list sval * sval) + stop) : sval + serr :=
  match r with inl (_, v) => inl v | inr (StErr x) => inr x | inr _ => inr EType end.

Lemma nth_of_nth_error (A : Type) (l : list A) i k d : nth_error l i = Some k -> nth i l d = k.
Proof. revert i; induction l as [|x l IH]; intros [|i] H; cbn in *; try discriminate; [congruence|auto]. Qed.

Section Names.
  Variable names : list (list N).
  Hypothesis names_nodup : NoDup names.
  Hypothesis names_nonempty : Forall (fun nm => nm <> []) names.

  Theorem run_var_program l tabs ng n r :
    l <> [] -> wf_stmts false 0 l = true -> ndecls l <= ng -> max_need l <= MAXSTACK ->
    run_stmts n [] l VNil = Some r ->
    exists k s', forall f,
      VM.run (k + S f) (Code main_id main_id false 0 (fst (pcode l)) (snd (pcode l)) [] [] []) tabs ng [] =
      match top_result r with
      | inl v => RVal (VMScalarProofs.inj v) s'
      | inr x => RErr (cls x) s'
      end.
  Proof.
    intros Hne Hwf Hng Hn Hr.
    set (c := Code main_id main_id false 0 (fst (pcode l)) (snd (pcode l)) [] [] []).
    set (s0 := {| lists := []; maps := []; arrays := [repeat VGoNil ng]; iters := [];
                  globals := [] ++ repeat VGoNil (ng - length (@nil value)); trace := [] |}).
    assert (Hinv : vm_inv [] [] s0).
    { split; [reflexivity|]. split; [constructor|]. intros i Hi. cbn in Hi. lia. }
    assert (Hsl : slots_ok 0 (ndecls l) [] s0).
    { split; [constructor|]. cbn [length Nat.add globals s0 app]. rewrite repeat_length. cbn. lia. }
    pose proof (no_escape_stmts n l [] VNil r 0 Hwf Hr) as Hno.
    destruct (vm_prog tabs c 0 [0] [] [] true n l [] [] 0 s0 0 [] [] VNil r Hne Hinv Hsl Hwf) as [k [s' Hrun]]; try exact Hr.
    - cbn [code_instr c app]. rewrite app_nil_r. reflexivity.
    - intros i kk Hi. cbn [code_consts c Nat.add]. apply nth_of_nth_error. exact Hi.
    - cbn [Nat.add]. exact Hn.
    - exists k, s'. intros f. unfold VM.run. fold s0. fold c.
      destruct r as [[rho v]|[x|rho|rho]]; cbn [top_result no_ctl] in *; try contradiction.
      + destruct Hrun as [_ Hrun]. specialize (Hrun (S f)). cbn [length] in Hrun.
        change (strip (fst (scode 0 [] 0 l))) with (fst (pcode l)) in Hrun.
        rewrite Hrun. cbn [length Nat.add]. cbn [exec].
        replace (nth_error (code_instr c) (length (fst (pcode l)))) with (@None N);
          [reflexivity|symmetry; apply nth_error_None; cbn [code_instr c]; lia].
      + pose proof (Hrun (S f)) as H. cbn [length] in H. rewrite H. reflexivity.
  Qed.

  Theorem var_programs_end_to_end : forall l n r,
    l <> [] -> wf_stmts false 0 l = true -> ndecls l <= length names -> max_need l <= MAXSTACK ->
    run_stmts n [] l VNil = Some r ->
    exists c tabs, compile_program (S (max_height l)) [] (embed_stmts names 0 [] l) = inr (c, tabs) /\
    forall ng, ndecls l <= ng -> exists k, forall f fs, max_height l < fs -> n < fs ->
      agree_on (top_result r) (fst (Sem.run fs (embed_stmts names 0 [] l))) (VM.run (k + S f) c tabs ng []).
  Proof.
    intros l n r Hne Hwf Hd Hn Hr.
    destruct (compile_var_program names names_nodup l (max_height l) Hne Hd Hwf (le_n _)) as [tabs Hc].
    eexists. exists tabs. split; [exact Hc|].
    intros ng Hng. destruct (run_var_program l tabs ng n r Hne Hwf Hng Hn Hr) as [k [s' Hrun]].
    exists k. intros f fs Hfs Hnfs. split.
    - destruct fs as [|fs]; [lia|].
      rewrite (VarSemProofs.sem_var_program names names_nodup names_nonempty l n fs r Hwf Hd ltac:(lia) ltac:(lia) Hr).
      pose proof (no_escape_stmts n l [] VNil r 0 Hwf Hr) as Hno.
      destruct r as [[rho v]|[x|rho|rho]]; cbn [no_ctl] in Hno; try contradiction; reflexivity.
    - rewrite Hrun. destruct (top_result r); eexists; reflexivity.
  Qed.
End Names.
