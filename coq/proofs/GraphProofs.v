(* The executable closure computes exactly the inductive reachability relation, for every graph. *)
From Coq Require Import List Bool PArith MSets.MSetPositive FSets.FMapPositive Lia.
Require Import RV.model.Graph.
Import ListNotations.

Lemma adj_get_add : forall a e n m,
  In m (adj_get (adj_add a e) n) <-> (e = (n, m) \/ In m (adj_get a n)).
Proof.
  intros a [s d] n m. unfold adj_add, adj_get at 1. simpl.
  destruct (Pos.eq_dec n s) as [->|Hne].
  - rewrite PM.gss. simpl. split.
    + intros [->|H]; [left; reflexivity | right; exact H].
    + intros [H|H]; [inversion H; left; reflexivity | right; exact H].
  - rewrite PM.gso by exact Hne. fold (adj_get a n). split.
    + intro H; right; exact H.
    + intros [H|H]; [inversion H; congruence | exact H].
Qed.

Lemma build_adj_spec_gen : forall g a n m,
  In m (adj_get (fold_left adj_add g a) n) <-> (In (n, m) g \/ In m (adj_get a n)).
Proof.
  induction g as [|e g IH]; intros a n m; simpl.
  - tauto.
  - rewrite IH, adj_get_add. intuition.
Qed.

Lemma build_adj_spec : forall g n m, In m (adj_get (build_adj g) n) <-> In (n, m) g.
Proof.
  intros. unfold build_adj. rewrite build_adj_spec_gen.
  unfold adj_get at 1. rewrite PM.gempty. simpl. tauto.
Qed.

Section Saturate.
  Variable g : graph.
  Variable roots : list node.
  Let a := build_adj g.

  Definition inv (work : list node) (seen : PS.t) : Prop :=
    (forall n, PS.In n seen -> forall m, In (n, m) g -> PS.In m seen \/ In m work) /\
    (forall r, In r roots -> PS.In r seen \/ In r work) /\
    (forall n, PS.In n seen \/ In n work -> Reach g roots n).

  Lemma saturate_inv : forall fuel work seen s,
    inv work seen -> saturate a fuel work seen = Some s -> inv [] s.
  Proof.
    induction fuel as [|f IH]; intros work seen s Hinv Hs; simpl in Hs; [discriminate|].
    destruct work as [|n w].
    - inversion Hs; subst. exact Hinv.
    - destruct Hinv as (Hc & Hr & Hsound).
      destruct (PS.mem n seen) eqn:Hm.
      + apply PS.mem_spec in Hm. apply (IH w seen s); [|exact Hs].
        split; [|split].
        * intros x Hx m Hxm. destruct (Hc x Hx m Hxm) as [H|[H|H]]; auto. subst. auto.
        * intros r Hin. destruct (Hr r Hin) as [H|[H|H]]; auto. subst. auto.
        * intros x [H|H]; apply Hsound; auto. right; right; exact H.
      + apply (IH (adj_get a n ++ w) (PS.add n seen) s); [|exact Hs].
        split; [|split].
        * intros x Hx m Hxm. apply PS.add_spec in Hx. destruct Hx as [->|Hx].
          -- right. apply in_or_app. left. apply build_adj_spec. exact Hxm.
          -- destruct (Hc x Hx m Hxm) as [H|[H|H]].
             ++ left. apply PS.add_spec. auto.
             ++ subst. left. apply PS.add_spec. auto.
             ++ right. apply in_or_app. auto.
        * intros r Hin. destruct (Hr r Hin) as [H|[H|H]].
          -- left. apply PS.add_spec. auto.
          -- subst. left. apply PS.add_spec. auto.
          -- right. apply in_or_app. auto.
        * intros x [H|H].
          -- apply PS.add_spec in H. destruct H as [->|H]; apply Hsound; [right; left; reflexivity | left; exact H].
          -- apply in_app_or in H. destruct H as [H|H].
             ++ apply build_adj_spec in H. eapply reach_step; [|exact H]. apply Hsound. right; left; reflexivity.
             ++ apply Hsound. right; right; exact H.
  Qed.

  Lemma inv_init : inv roots PS.empty.
  Proof.
    split; [|split].
    - intros n Hn. exfalso. revert Hn. apply PS.empty_spec.
    - intros r Hr. right. exact Hr.
    - intros n [H|H]; [exfalso; revert H; apply PS.empty_spec | apply reach_root; exact H].
  Qed.

  Lemma inv_final_complete : forall s, inv [] s -> forall n, Reach g roots n <-> PS.In n s.
  Proof.
    intros s (Hc & Hr & Hsound) n. split.
    - induction 1 as [r Hin | x m Hx IH Hxm].
      + destruct (Hr r Hin) as [H|[]]. exact H.
      + destruct (Hc x IH m Hxm) as [H|[]]. exact H.
    - intro H. apply Hsound. left. exact H.
  Qed.
End Saturate.

(* The completeness lemma, proved once for every graph, every root set and every amount of fuel:
   whenever the search terminates within the fuel, its answer is exactly the reachable set. *)
Theorem reach_complete : forall fuel g roots s,
  reachable_set fuel g roots = Some s -> forall n, Reach g roots n <-> PS.In n s.
Proof.
  intros fuel g roots s H. apply inv_final_complete.
  eapply saturate_inv; [apply inv_init | exact H].
Qed.

Corollary reaches_sound : forall g roots n b,
  reaches g roots n = Some b -> (Reach g roots n <-> b = true).
Proof.
  intros g roots n b. unfold reaches.
  destruct (reachable_set (default_fuel g roots) g roots) as [s|] eqn:Hs; [|discriminate].
  intro H; inversion H; subst. rewrite (reach_complete _ _ _ _ Hs). symmetry. apply PS.mem_spec.
Qed.

(* Reachability is monotone in the edge set and in the roots. *)
Lemma Reach_mono : forall g g' roots roots' n,
  (forall e, In e g -> In e g') -> (forall r, In r roots -> In r roots') ->
  Reach g roots n -> Reach g' roots' n.
Proof.
  intros g g' roots roots' n Hg Hr. induction 1.
  - apply reach_root. auto.
  - eapply reach_step; eauto.
Qed.

(* A set closed under successors that contains the roots contains everything reachable. *)
Lemma Reach_closed : forall g roots (P : node -> Prop),
  (forall r, In r roots -> P r) -> (forall n m, P n -> In (n, m) g -> P m) ->
  forall n, Reach g roots n -> P n.
Proof. intros g roots P Hr Hc n. induction 1; eauto. Qed.
