(* Proofs about the globals model (C11). *)
From Coq Require Import List Bool String Ascii PArith Lia.
Require Import RV.model.Graph RV.model.Globals RV.proofs.GraphProofs.
Import ListNotations.
Open Scope string_scope.

(* ------------------------------------------------------------------ basic facts *)

Lemma env_get_in : forall (e : env) x n, env_get e x = Some n -> In (x, n) e.
Proof.
  intros e x n. unfold env_get. destruct (find _ e) as [[y m]|] eqn:Hf; [|discriminate].
  intro H; inversion H; subst. apply find_some in Hf. destruct Hf as [Hin Heq].
  simpl in Heq. apply String.eqb_eq in Heq. subst. exact Hin.
Qed.

Lemma env_get_nodes : forall (e : env) x n, env_get e x = Some n -> In n (env_nodes e).
Proof. intros e x n H. apply env_get_in in H. unfold env_nodes. change n with (snd (x, n)). apply in_map. exact H. Qed.

Lemma get_attr_edge : forall (h : heap) n a m, get_attr h n a = Some m -> In (E n a (existsb (fun e => edge_at n a e && e_mem e) h) m) h \/ exists b, In (E n a b m) h.
Proof.
  intros h n a m. unfold get_attr. destruct (find _ h) as [e|] eqn:Hf; [|discriminate].
  intro H; inversion H; subst. apply find_some in Hf. destruct Hf as [Hin Hk].
  unfold edge_at in Hk. apply andb_true_iff in Hk. destruct Hk as [Hs Hl].
  apply Pos.eqb_eq in Hs. apply String.eqb_eq in Hl. right. exists (e_mem e).
  destruct e; simpl in *; subst. exact Hin.
Qed.

Lemma get_attr_in_edges : forall (h : heap) n a m, get_attr h n a = Some m -> In (n, m) (edges_of h).
Proof.
  intros h n a m H. apply get_attr_edge in H. destruct H as [H|[b H]];
    unfold edges_of; apply in_map_iff; eexists; (split; [|exact H]); reflexivity.
Qed.

(* Every access path of a script is a path of the object graph. *)
Lemma access_reach : forall w n, Access w n -> Reach (edges_of (w_heap w)) (env_nodes (w_env w)) n.
Proof.
  intros w n. induction 1.
  - apply reach_root. eapply env_get_nodes; eauto.
  - apply reach_root. eapply env_get_nodes; eauto.
  - eapply reach_step; [exact IHAccess|]. eapply get_attr_in_edges; eauto.
  - eapply reach_step; [exact IHAccess|]. eapply get_attr_in_edges; eauto.
Qed.

(* ------------------------------------------------------------------ keys are unique in a well-formed world *)

Lemma nodup_keys_unique : forall A (eqb : A -> A -> bool) (l : list A),
  (forall x y, eqb x y = eqb y x) ->
  nodup_keys eqb l = true -> forall x y, In x l -> In y l -> eqb x y = true -> x = y \/ False.
Proof.
  intros A eqb l Hsym. induction l as [|z r IH]; intros Hn x y Hx Hy Hxy; [destruct Hx|].
  simpl in Hn. apply andb_true_iff in Hn. destruct Hn as [Hz Hr].
  apply negb_true_iff in Hz.
  assert (Hno : forall u, In u r -> eqb z u = false).
  { intros u Hu. destruct (eqb z u) eqn:E; [|reflexivity].
    assert (existsb (eqb z) r = true) by (apply existsb_exists; exists u; auto). congruence. }
  destruct Hx as [->|Hx], Hy as [->|Hy].
  - left; reflexivity.
  - rewrite (Hno y Hy) in Hxy. discriminate.
  - rewrite Hsym, (Hno x Hx) in Hxy. discriminate.
  - apply IH; auto.
Qed.

Lemma edge_key_sym : forall e1 e2, edge_key_eqb e1 e2 = edge_key_eqb e2 e1.
Proof. intros. unfold edge_key_eqb. rewrite Pos.eqb_sym, String.eqb_sym. reflexivity. Qed.

Lemma find_first_key : forall (h : heap) n a e,
  nodup_keys edge_key_eqb h = true -> In e h -> edge_at n a e = true -> find (edge_at n a) h = Some e.
Proof.
  intros h n a e Hn Hin Hk. destruct (find (edge_at n a) h) as [e'|] eqn:Hf.
  - apply find_some in Hf. destruct Hf as [Hin' Hk'].
    destruct (nodup_keys_unique _ edge_key_eqb h edge_key_sym Hn e' e Hin' Hin) as [->|[]]; [|reflexivity].
    unfold edge_at in *. unfold edge_key_eqb.
    apply andb_true_iff in Hk, Hk'. destruct Hk as [H1 H2], Hk' as [H3 H4].
    apply Pos.eqb_eq in H1, H3. apply String.eqb_eq in H2, H4. subst.
    rewrite H3, H4. rewrite Pos.eqb_refl, String.eqb_refl. reflexivity.
  - exfalso. eapply find_none in Hf; [|exact Hin]. congruence.
Qed.

Lemma env_get_nodup : forall (e : env) x n,
  nodup_keys String.eqb (map fst e) = true -> In (x, n) e -> env_get e x = Some n.
Proof.
  induction e as [|[y m] r IH]; intros x n Hn Hin; [destruct Hin|].
  simpl in Hn. apply andb_true_iff in Hn. destruct Hn as [Hy Hr].
  unfold env_get. simpl. destruct (String.eqb y x) eqn:E.
  - apply String.eqb_eq in E. subst y. destruct Hin as [H|H]; [inversion H; reflexivity|].
    exfalso. apply negb_true_iff in Hy.
    assert (existsb (String.eqb x) (map fst r) = true).
    { apply existsb_exists. exists x. split; [|apply String.eqb_refl]. change x with (fst (x, n)). apply in_map. exact H. }
    congruence.
  - destruct Hin as [H|H]; [inversion H; subst; rewrite String.eqb_refl in E; discriminate|].
    apply IH; auto.
Qed.

(* ------------------------------------------------------------------ environment operations *)

Lemma env_get_del_same : forall (e : env) x, env_get (env_del e x) x = None.
Proof.
  intros e x. unfold env_get. destruct (find _ (env_del e x)) as [p|] eqn:Hf; [|reflexivity].
  apply find_some in Hf. destruct Hf as [Hin Hk]. unfold env_del in Hin. apply filter_In in Hin.
  destruct Hin as [_ H]. rewrite Hk in H. discriminate.
Qed.

Lemma find_app_none : forall A (p : A -> bool) l1 l2, find p l1 = None -> find p (l1 ++ l2) = find p l2.
Proof. induction l1; simpl; intros; auto. destruct (p a); [discriminate|auto]. Qed.

Lemma env_get_set_same : forall (e : env) x v, env_get (env_set e x v) x = Some v.
Proof.
  intros e x v. pose proof (env_get_del_same e x) as H. unfold env_get, env_set in *.
  rewrite find_app_none.
  - simpl. rewrite String.eqb_refl. reflexivity.
  - destruct (find _ (env_del e x)); [discriminate|reflexivity].
Qed.

Lemma env_del_absent : forall (e : env) x, existsb (String.eqb x) (map fst e) = false -> env_del e x = e.
Proof.
  induction e as [|[y m] r IH]; intros x H; [reflexivity|]. simpl in *.
  apply orb_false_iff in H. destruct H as [H1 H2]. rewrite String.eqb_sym, H1. simpl. f_equal. auto.
Qed.

Lemma rebuild_env : forall (l acc : env),
  nodup_keys String.eqb (map fst (acc ++ l)) = true ->
  fold_left (fun e p => env_set e (fst p) (snd p)) l acc = (acc ++ l)%list.
Proof.
  induction l as [|[y m] r IH]; intros acc Hn; simpl.
  - rewrite app_nil_r. reflexivity.
  - unfold env_set at 2. simpl. rewrite env_del_absent.
    + rewrite IH; rewrite <- app_assoc; simpl; [reflexivity|exact Hn].
    + clear IH. induction acc as [|[z k] acc IHa]; [reflexivity|]. simpl in *.
      apply andb_true_iff in Hn. destruct Hn as [H1 H2]. apply negb_true_iff in H1.
      rewrite IHa by exact H2. rewrite orb_false_r.
      destruct (String.eqb y z) eqn:E; [|reflexivity]. apply String.eqb_eq in E. subst.
      exfalso. assert (existsb (String.eqb z) (map fst (acc ++ (z, m) :: r)) = true); [|congruence].
      apply existsb_exists. exists z. split; [|apply String.eqb_refl].
      rewrite map_app. apply in_or_app. right. left. reflexivity.
Qed.

Lemma initial_env_defaults : forall (d : env) dn ov,
  nodup_keys String.eqb (map fst d) = true -> initial_env d (Cfg false [] dn ov) = d.
Proof. intros. unfold initial_env. simpl. rewrite rebuild_env; [reflexivity|exact H]. Qed.

(* ------------------------------------------------------------------ strings.Split on names without dots *)

Lemma cut_dot_nodot : forall s, has_dot s = false -> cut_dot s = (s, None).
Proof.
  induction s as [|c r IH]; simpl; intro H; [reflexivity|].
  apply orb_false_iff in H. destruct H as [H1 H2]. rewrite H1. rewrite IH by exact H2. reflexivity.
Qed.

Lemma split_dot_nodot : forall s, has_dot s = false -> split_dot s = [s].
Proof.
  induction s as [|c r IH]; simpl; intro H; [reflexivity|].
  apply orb_false_iff in H. destruct H as [H1 H2]. rewrite H1. rewrite IH by exact H2. reflexivity.
Qed.

Lemma cut_dot_app : forall x r, has_dot x = false -> cut_dot (x ++ String "." r) = (x, Some r).
Proof.
  induction x as [|c x IH]; simpl; intros r H; [reflexivity|].
  apply orb_false_iff in H. destruct H as [H1 H2]. rewrite H1. rewrite IH by exact H2. reflexivity.
Qed.

Lemma split_dot_app : forall x r, has_dot x = false -> split_dot (x ++ String "." r) = x :: split_dot r.
Proof.
  induction x as [|c x IH]; simpl; intros r H; [reflexivity|].
  apply orb_false_iff in H. destruct H as [H1 H2]. rewrite H1. rewrite IH by exact H2. reflexivity.
Qed.

(* ------------------------------------------------------------------ the registered names *)

Definition wf_parts (w : world) :=
  nodup_keys edge_key_eqb (w_heap w) = true /\
  nodup_keys String.eqb (map fst (w_env w)) = true /\
  (forall p, In p (w_env w) -> has_dot (fst p) = false) /\
  (forall e, In e (w_heap w) -> e_mem e = true -> has_dot (e_lbl e) = false /\ e_lbl e <> "__name__").

Lemma wf_world_parts : forall w, wf_world w = true -> wf_parts w.
Proof.
  intros w H. unfold wf_world in H.
  apply andb_true_iff in H. destruct H as [H Hd].
  apply andb_true_iff in H. destruct H as [H Hc].
  apply andb_true_iff in H. destruct H as [Ha Hb].
  rewrite forallb_forall in Hc, Hd.
  split; [exact Ha|]. split; [exact Hb|]. split.
  - intros p Hp. apply negb_true_iff. auto.
  - intros e He Hm. specialize (Hd e He). rewrite Hm in Hd. simpl in Hd.
    apply andb_true_iff in Hd. destruct Hd as [H1 H2]. split.
    + apply negb_true_iff. exact H1.
    + apply negb_true_iff in H2. intro Heq. rewrite Heq in H2. discriminate.
Qed.

(* a registered name is a global, or module-global "." member *)
Inductive registered (w : world) : string -> Prop :=
| reg_global : forall x n, In (x, n) (w_env w) -> registered w x
| reg_member : forall x m e, In (x, m) (w_env w) -> is_module (w_mods w) m = true ->
    In e (w_heap w) -> e_src e = m -> e_mem e = true -> registered w (x ++ String "." (e_lbl e)).

Lemma names_registered : forall w nm, In nm (names w) -> registered w nm.
Proof.
  intros w nm H. unfold names in H. apply in_app_or in H. destruct H as [H|H].
  - apply in_map_iff in H. destruct H as [[x n] [Hx Hin]]. simpl in Hx. subst. eapply reg_global; eauto.
  - apply in_flat_map in H. destruct H as [[x m] [Hin H]]. simpl in H.
    destruct (is_module (w_mods w) m) eqn:Hm; [|destruct H].
    apply in_map_iff in H. destruct H as [a [Ha Hmem]]. unfold members_of in Hmem.
    apply in_map_iff in Hmem. destruct Hmem as [e [He Hf]]. apply filter_In in Hf. destruct Hf as [Hf Hk].
    apply andb_true_iff in Hk. destruct Hk as [Hs Hb]. apply Pos.eqb_eq in Hs. subst.
    eapply reg_member; eauto.
Qed.

Lemma edge_at_self : forall e, edge_at (e_src e) (e_lbl e) e = true.
Proof. intros. unfold edge_at. rewrite Pos.eqb_refl, String.eqb_refl. reflexivity. Qed.

(* ------------------------------------------------------------------ Override on a well-formed heap *)

Lemma get_attr_removed : forall (h : heap) e,
  nodup_keys edge_key_eqb h = true -> In e h -> e_mem e = true -> e_lbl e <> "__name__" ->
  get_attr (override_attr h (e_src e) (e_lbl e) None) (e_src e) (e_lbl e) = None.
Proof.
  intros h e Hn Hin Hm Hne. unfold override_attr.
  destruct (String.eqb (e_lbl e) "__name__") eqn:E; [apply String.eqb_eq in E; contradiction|].
  unfold get_attr. destruct (find _ _) as [e'|] eqn:Hf; [|reflexivity]. exfalso.
  apply find_some in Hf. destruct Hf as [Hin' Hk]. apply filter_In in Hin'. destruct Hin' as [Hin' Hnm].
  pose proof (find_first_key h _ _ e Hn Hin (edge_at_self e)) as H1.
  pose proof (find_first_key h _ _ e' Hn Hin' Hk) as H2.
  rewrite H1 in H2. inversion H2; subst e'. unfold member_at in Hnm. rewrite Hk, Hm in Hnm. discriminate.
Qed.

Lemma find_map_key : forall (h : heap) n a (f : edge -> edge),
  (forall e, e_src (f e) = e_src e /\ e_lbl (f e) = e_lbl e) ->
  find (edge_at n a) (map f h) = option_map f (find (edge_at n a) h).
Proof.
  intros h n a f Hf. induction h as [|e r IH]; [reflexivity|]. simpl.
  assert (edge_at n a (f e) = edge_at n a e) as ->.
  { unfold edge_at. destruct (Hf e) as [-> ->]. reflexivity. }
  destruct (edge_at n a e); [reflexivity|exact IH].
Qed.

Lemma get_attr_replaced : forall (h : heap) e v,
  nodup_keys edge_key_eqb h = true -> In e h -> e_mem e = true -> e_lbl e <> "__name__" ->
  get_attr (override_attr h (e_src e) (e_lbl e) (Some v)) (e_src e) (e_lbl e) = Some v.
Proof.
  intros h e v Hn Hin Hm Hne. unfold override_attr.
  destruct (String.eqb (e_lbl e) "__name__") eqn:E; [apply String.eqb_eq in E; contradiction|].
  unfold get_attr. rewrite find_map_key.
  - rewrite (find_first_key h _ _ e Hn Hin (edge_at_self e)). simpl.
    unfold member_at. rewrite edge_at_self, Hm. reflexivity.
  - intro e0. destruct (member_at _ _ e0); simpl; auto.
Qed.

(* ------------------------------------------------------------------ deny / override of a registered name *)

Lemma is_module_true_eq : forall mods n, is_module mods n = true -> In n mods.
Proof.
  intros mods n H. unfold is_module in H. apply existsb_exists in H. destruct H as [x [Hin Hx]].
  apply Pos.eqb_eq in Hx. subst. exact Hin.
Qed.

(* Denying a registered name (a global, or a member of a module global) removes the registration:
   the name no longer resolves.  For every well-formed world. *)
Theorem deny_unregisters : forall w nm,
  wf_world w = true -> In nm (names w) -> lookup_name (apply_config w (deny1 nm)) nm = None.
Proof.
  intros w nm Hwf Hnm. apply wf_world_parts in Hwf. destruct Hwf as (Hnk & Hne & Hnd & Hmem).
  apply names_registered in Hnm. unfold apply_config, deny1. cbn [c_over c_deny].
  rewrite initial_env_defaults by exact Hne. cbn [fold_left].
  destruct Hnm as [x n Hin | x m e Hin Hmod He Hsrc Hm].
  - pose proof (Hnd _ Hin) as Hx. simpl in Hx.
    unfold apply_deny. rewrite cut_dot_nodot by exact Hx. simpl.
    unfold lookup_name. rewrite split_dot_nodot by exact Hx. simpl. rewrite env_get_del_same. reflexivity.
  - pose proof (Hnd _ Hin) as Hx. simpl in Hx. destruct (Hmem e He Hm) as [Ha Hnn].
    unfold apply_deny. rewrite cut_dot_app by exact Hx. simpl.
    rewrite (env_get_nodup _ _ _ Hne Hin). rewrite Hmod.
    unfold remove_module_attr. rewrite split_dot_nodot by exact Ha. simpl.
    unfold lookup_name. rewrite split_dot_app by exact Hx. rewrite split_dot_nodot by exact Ha.
    simpl. rewrite (env_get_nodup _ _ _ Hne Hin). subst m.
    rewrite get_attr_removed; auto.
Qed.

(* Overriding a registered name installs the replacement under that name. *)
Theorem override_installs : forall w nm v,
  wf_world w = true -> In nm (names w) -> lookup_name (apply_config w (override1 nm v)) nm = Some v.
Proof.
  intros w nm v Hwf Hnm. apply wf_world_parts in Hwf. destruct Hwf as (Hnk & Hne & Hnd & Hmem).
  apply names_registered in Hnm. unfold apply_config, override1. cbn [c_over c_deny].
  rewrite initial_env_defaults by exact Hne. cbn [fold_left].
  destruct Hnm as [x n Hin | x m e Hin Hmod He Hsrc Hm].
  - pose proof (Hnd _ Hin) as Hx. simpl in Hx.
    unfold apply_override. rewrite split_dot_nodot by exact Hx. simpl.
    unfold lookup_name. rewrite split_dot_nodot by exact Hx. simpl. rewrite env_get_set_same. reflexivity.
  - pose proof (Hnd _ Hin) as Hx. simpl in Hx. destruct (Hmem e He Hm) as [Ha Hnn].
    unfold apply_override. rewrite split_dot_app by exact Hx. rewrite split_dot_nodot by exact Ha.
    simpl. rewrite (env_get_nodup _ _ _ Hne Hin). rewrite Hmod. simpl.
    unfold lookup_name. rewrite split_dot_app by exact Hx. rewrite split_dot_nodot by exact Ha.
    simpl. rewrite (env_get_nodup _ _ _ Hne Hin). subst m.
    rewrite get_attr_replaced; auto.
Qed.

(* ------------------------------------------------------------------ soundness of the decision procedures *)

Lemma world_reach_spec : forall w s, world_reach w = Some s ->
  forall n, Access w n -> PS.In n s.
Proof.
  intros w s H n Ha. unfold world_reach in H. eapply reach_complete in H. apply H. apply access_reach. exact Ha.
Qed.

Lemma check_deny_sound_reach : forall w nm, check_deny w nm = true ->
  exists o, lookup_name w nm = Some o /\
    ~ Reach (edges_of (w_heap (apply_config w (deny1 nm)))) (env_nodes (w_env (apply_config w (deny1 nm)))) o.
Proof.
  intros w nm H. unfold check_deny in H. destruct (lookup_name w nm) as [o|]; [|discriminate].
  exists o. split; [reflexivity|].
  destruct (world_reach _) as [s|] eqn:Hs; [|discriminate].
  intro Hr. unfold world_reach in Hs. eapply reach_complete in Hs. apply Hs in Hr.
  apply PS.mem_spec in Hr. rewrite Hr in H. discriminate.
Qed.

Lemma check_deny_sound : forall w nm, check_deny w nm = true ->
  exists o, lookup_name w nm = Some o /\ ~ Access (apply_config w (deny1 nm)) o.
Proof.
  intros w nm H. destruct (check_deny_sound_reach w nm H) as [o [Hl Hr]]. exists o. split; [exact Hl|].
  intro Ha. apply Hr. apply access_reach. exact Ha.
Qed.

Lemma check_override_sound : forall w v nm, check_override w v nm = true ->
  exists o, lookup_name w nm = Some o /\
    lookup_name (apply_config w (override1 nm v)) nm = Some v /\
    Reach (edges_of (w_heap (apply_config w (override1 nm v)))) (env_nodes (w_env (apply_config w (override1 nm v)))) v /\
    ~ Access (apply_config w (override1 nm v)) o.
Proof.
  intros w v nm H. unfold check_override in H. destruct (lookup_name w nm) as [o|]; [|discriminate].
  exists o. split; [reflexivity|].
  destruct (world_reach _) as [s|] eqn:Hs; [|discriminate].
  destruct (lookup_name (apply_config _ _) nm) as [x|] eqn:Hl; [|discriminate].
  apply andb_true_iff in H. destruct H as [H H3]. apply andb_true_iff in H. destruct H as [H1 H2].
  apply Pos.eqb_eq in H1. subst x. split; [reflexivity|]. split.
  - unfold world_reach in Hs. eapply reach_complete in Hs. apply Hs. apply PS.mem_spec. exact H2.
  - intro Ha. apply (world_reach_spec _ _ Hs) in Ha. apply PS.mem_spec in Ha. rewrite Ha in H3. discriminate.
Qed.

(* ------------------------------------------------------------------ locality of a configuration's edits *)

Section Frame.
  Variable P : node -> bool.          (* the part of the heap this configuration may touch *)
  Variable H0 : heap.
  Variable mods : list node.

  Definition frozen (e : edge) : Prop := P (e_src e) = false \/ is_module mods (e_src e) = false.

  Definition finv (w : world) : Prop :=
    w_mods w = mods /\
    (forall x n, In (x, n) (w_env w) -> P n = true) /\
    (forall e, In e (w_heap w) -> P (e_src e) = true -> P (e_dst e) = true) /\
    (forall e, frozen e -> (In e (w_heap w) <-> In e H0)).

  Lemma get_attr_P : forall (h : heap) n a m,
    (forall e, In e h -> P (e_src e) = true -> P (e_dst e) = true) ->
    P n = true -> get_attr h n a = Some m -> P m = true.
  Proof.
    intros h n a m Hc Hn Hg. apply get_attr_edge in Hg.
    destruct Hg as [Hg|[b Hg]]; apply Hc in Hg; simpl in Hg; auto.
  Qed.

  Lemma resolve_module_P : forall (h : heap) path m t,
    (forall e, In e h -> P (e_src e) = true -> P (e_dst e) = true) ->
    P m = true -> is_module mods m = true ->
    resolve_module h mods m path = Some t -> P t = true /\ is_module mods t = true.
  Proof.
    intros h path. induction path as [|name rest IH]; intros m t Hc Hm Hmod Hr; simpl in Hr.
    - inversion Hr; subst. auto.
    - destruct (get_attr h m name) as [o|] eqn:Hg; [|discriminate].
      destruct (is_module mods o) eqn:Ho; [|discriminate].
      apply (IH o t Hc); auto. eapply get_attr_P; eauto.
  Qed.

  Lemma override_attr_finv : forall env (h : heap) t a v,
    finv (W env h mods) -> P t = true -> is_module mods t = true ->
    (forall x, v = Some x -> P x = true) ->
    finv (W env (override_attr h t a v) mods).
  Proof.
    intros env h t a v (Hm & He & Hc & Hf) Ht Hmod Hv. simpl in *.
    unfold override_attr. destruct (String.eqb a "__name__"); [split; [reflexivity|]; split; [exact He|]; split; [exact Hc|exact Hf]|].
    assert (Hnot : forall e, frozen e -> member_at t a e = false).
    { intros e [Hfr|Hfr]; unfold member_at, edge_at; destruct (Pos.eqb (e_src e) t) eqn:E; auto;
        apply Pos.eqb_eq in E; rewrite E in Hfr; congruence. }
    destruct v as [x|].
    - split; [reflexivity|]. split; [exact He|]. split; simpl.
      + intros e Hin Hs. apply in_map_iff in Hin. destruct Hin as [e0 [Heq Hin]].
        destruct (member_at t a e0); subst e; simpl in *; [apply Hv; reflexivity | apply Hc; auto].
      + intros e Hfr. rewrite <- (Hf e Hfr). split.
        * intro Hin. apply in_map_iff in Hin. destruct Hin as [e0 [Heq Hin]].
          destruct (member_at t a e0) eqn:Hma.
          -- exfalso. subst e. unfold frozen in Hfr. simpl in Hfr.
             unfold member_at, edge_at in Hma. apply andb_true_iff in Hma. destruct Hma as [Hma _].
             apply andb_true_iff in Hma. destruct Hma as [Hma _]. apply Pos.eqb_eq in Hma. rewrite Hma in Hfr.
             destruct Hfr; congruence.
          -- subst e. exact Hin.
        * intro Hin. apply in_map_iff. exists e. rewrite (Hnot e Hfr). auto.
    - split; [reflexivity|]. split; [exact He|]. split; simpl.
      + intros e Hin. apply filter_In in Hin. destruct Hin as [Hin _]. apply Hc. exact Hin.
      + intros e Hfr. rewrite <- (Hf e Hfr). rewrite filter_In. rewrite (Hnot e Hfr). simpl. tauto.
  Qed.

  Lemma env_in_P : forall (w : world) x m, finv w -> env_get (w_env w) x = Some m -> P m = true.
  Proof. intros w x m (_ & He & _) Hg. apply env_get_in in Hg. eapply He; eauto. Qed.

  Lemma apply_deny_finv : forall w name, finv w -> finv (apply_deny w name).
  Proof.
    intros w name Hw. unfold apply_deny. destruct (cut_dot name) as [mn [attr|]].
    - destruct (env_get (w_env w) mn) as [m|] eqn:Hg; [|exact Hw].
      pose proof Hw as (Hm & He & Hc & Hf). rewrite Hm.
      destruct (is_module mods m) eqn:Hmod; [|exact Hw].
      pose proof (env_in_P w mn m Hw Hg) as HPm.
      assert (Hw' : finv (W (w_env w) (w_heap w) mods)) by (split; [reflexivity|]; split; [exact He|]; split; [exact Hc|exact Hf]).
      unfold remove_module_attr. destruct (rev (split_dot attr)) as [|a [|b rp]].
      + exact Hw'.
      + apply override_attr_finv; auto. discriminate.
      + destruct (resolve_module (w_heap w) mods m (rev (b :: rp))) as [t|] eqn:Hr; [|exact Hw'].
        destruct (resolve_module_P _ _ _ _ Hc HPm Hmod Hr) as [HPt Hmt].
        apply override_attr_finv; auto. discriminate.
    - destruct Hw as (Hm & He & Hc & Hf). split; [exact Hm|]. split; [|split; [exact Hc|exact Hf]]. simpl.
      intros x n Hin. unfold env_del in Hin. apply filter_In in Hin. destruct Hin as [Hin _]. eapply He; eauto.
  Qed.

  Lemma env_set_P : forall (e : env) x v, (forall y n, In (y, n) e -> P n = true) -> P v = true ->
    forall y n, In (y, n) (env_set e x v) -> P n = true.
  Proof.
    intros e x v He Hv y n Hin. unfold env_set in Hin. apply in_app_or in Hin. destruct Hin as [Hin|Hin].
    - unfold env_del in Hin. apply filter_In in Hin. destruct Hin as [Hin _]. eapply He; eauto.
    - destruct Hin as [Hin|[]]. inversion Hin; subst. exact Hv.
  Qed.

  Lemma apply_override_finv : forall w ov, finv w -> P (snd ov) = true -> finv (apply_override w ov).
  Proof.
    intros w [name v] Hw Hv. simpl in Hv. unfold apply_override.
    destruct (split_dot name) as [|mn [|r1 rest]]; [exact Hw | |].
    - destruct Hw as (Hm & He & Hc & Hf). split; [exact Hm|]. split; [|split; [exact Hc|exact Hf]]. simpl.
      apply env_set_P; auto.
    - destruct (env_get (w_env w) mn) as [m|] eqn:Hg; [|exact Hw].
      pose proof Hw as (Hm & He & Hc & Hf). rewrite Hm.
      destruct (is_module mods m) eqn:Hmod; [|exact Hw].
      pose proof (env_in_P w mn m Hw Hg) as HPm.
      destruct (resolve_module (w_heap w) mods m (removelast (r1 :: rest))) as [t|] eqn:Hr; [|exact Hw].
      destruct (resolve_module_P _ _ _ _ Hc HPm Hmod Hr) as [HPt Hmt].
      assert (Hw' : finv (W (w_env w) (w_heap w) mods)) by (split; [reflexivity|]; split; [exact He|]; split; [exact Hc|exact Hf]).
      apply override_attr_finv; auto. intros x Hx. inversion Hx; subst. exact Hv.
  Qed.

  Lemma fold_deny_finv : forall l w, finv w -> finv (fold_left apply_deny l w).
  Proof. induction l; simpl; intros; auto. apply IHl. apply apply_deny_finv. auto. Qed.

  Lemma fold_override_finv : forall l w, finv w -> (forall ov, In ov l -> P (snd ov) = true) ->
    finv (fold_left apply_override l w).
  Proof.
    induction l; simpl; intros w Hw Hl; auto. apply IHl.
    - apply apply_override_finv; auto.
    - intros; auto.
  Qed.

  Lemma initial_env_P : forall (d : env) c,
    (forall x n, In (x, n) d -> P n = true) -> (forall x n, In (x, n) (c_extra c) -> P n = true) ->
    forall x n, In (x, n) (initial_env d c) -> P n = true.
  Proof.
    intros d c Hd Hx. unfold initial_env. destruct (c_nodefaults c); [exact Hx|].
    generalize (c_extra c) Hx. clear Hx. induction d as [|[y m] r IH]; intros acc Hacc; simpl; [exact Hacc|].
    apply IH.
    - intros; eapply Hd; right; eauto.
    - apply env_set_P; auto. eapply Hd. left. reflexivity.
  Qed.

  (* Whatever the configuration (any deny list, any overrides), an edge whose source lies outside P, or is
     not a module, is neither removed nor added nor redirected. *)
  Theorem apply_config_frame : forall (d : env) c,
    (forall e, In e H0 -> P (e_src e) = true -> P (e_dst e) = true) ->
    (forall x n, In (x, n) d -> P n = true) ->
    (forall x n, In (x, n) (c_extra c) -> P n = true) ->
    (forall x v, In (x, v) (c_over c) -> P v = true) ->
    forall e, frozen e -> (In e (w_heap (apply_config (W d H0 mods) c)) <-> In e H0).
  Proof.
    intros d c Hc Hd Hx Ho. unfold apply_config. simpl.
    assert (Hfin : finv (fold_left apply_override (c_over c)
                     (fold_left apply_deny (c_deny c) (W (initial_env d c) H0 mods)))).
    { apply fold_override_finv; [apply fold_deny_finv|].
      - split; [reflexivity|]. split; [apply initial_env_P; auto|]. split; [exact Hc|]. intros e0 _; simpl; tauto.
      - intros [x v] Hin. simpl. eapply Ho; eauto. }
    destruct Hfin as (_ & _ & _ & Hf). exact Hf.
  Qed.
End Frame.

(* ------------------------------------------------------------------ WithoutDefaultGlobals *)

Lemma apply_deny_env_nil : forall w name, w_env w = [] -> w_env (apply_deny w name) = [].
Proof.
  intros w name H. unfold apply_deny. destruct (cut_dot name) as [mn [attr|]].
  - rewrite H. simpl. exact H.
  - simpl. rewrite H. reflexivity.
Qed.

Lemma fold_deny_env_nil : forall l w, w_env w = [] -> w_env (fold_left apply_deny l w) = [].
Proof. induction l as [|a l IH]; intros w Hw; simpl; [exact Hw|]. apply IH. apply apply_deny_env_nil. exact Hw. Qed.

Theorem without_defaults_empty : forall d c n,
  c_nodefaults c = true -> c_extra c = [] -> c_over c = [] -> ~ Access (apply_config d c) n.
Proof.
  intros d c n Hn Hx Ho Ha. unfold apply_config in Ha. rewrite Ho in Ha. simpl in Ha.
  assert (He : w_env (fold_left apply_deny (c_deny c) (W (initial_env (w_env d) c) (w_heap d) (w_mods d))) = []).
  { apply fold_deny_env_nil. simpl. unfold initial_env. rewrite Hn. exact Hx. }
  induction Ha as [x n Hg | x n Hg _ | n a m _ IH _ | n a m _ IH _]; auto;
    rewrite He in Hg; discriminate.
Qed.

(* ------------------------------------------------------------------ converse: graph paths are access paths *)

Lemma in_env_nodes : forall (e : env) n, In n (env_nodes e) -> exists x, In (x, n) e.
Proof.
  intros e n H. unfold env_nodes in H. apply in_map_iff in H. destruct H as [[x m] [Hs Hin]].
  simpl in Hs. subst. eauto.
Qed.

Theorem reach_access : forall w n, wf_world w = true ->
  Reach (edges_of (w_heap w)) (env_nodes (w_env w)) n -> Access w n.
Proof.
  intros w n Hwf Hr. apply wf_world_parts in Hwf. destruct Hwf as (Hnk & Hne & _ & _).
  induction Hr as [r Hin | x m Hx IH Hxm].
  - apply in_env_nodes in Hin. destruct Hin as [y Hin]. eapply acc_ident. apply env_get_nodup; eauto.
  - unfold edges_of in Hxm. apply in_map_iff in Hxm. destruct Hxm as [e [Heq Hin]]. inversion Heq; subst.
    eapply acc_attr; [exact IH|]. unfold get_attr.
    rewrite (find_first_key _ _ _ e Hnk Hin (edge_at_self e)). reflexivity.
Qed.

(* ------------------------------------------------------------------ explicit form of single-name configurations *)

Lemma deny1_global : forall w x n, wf_world w = true -> In (x, n) (w_env w) ->
  apply_config w (deny1 x) = W (env_del (w_env w) x) (w_heap w) (w_mods w).
Proof.
  intros w x n Hwf Hin. apply wf_world_parts in Hwf. destruct Hwf as (Hnk & Hne & Hnd & Hmem).
  unfold apply_config, deny1. cbn [c_over c_deny]. rewrite initial_env_defaults by exact Hne. cbn [fold_left].
  pose proof (Hnd _ Hin) as Hx. simpl in Hx. unfold apply_deny. rewrite cut_dot_nodot by exact Hx. reflexivity.
Qed.

Lemma override1_global : forall w x n v, wf_world w = true -> In (x, n) (w_env w) ->
  apply_config w (override1 x v) = W (env_set (w_env w) x v) (w_heap w) (w_mods w).
Proof.
  intros w x n v Hwf Hin. apply wf_world_parts in Hwf. destruct Hwf as (Hnk & Hne & Hnd & Hmem).
  unfold apply_config, override1. cbn [c_over c_deny]. rewrite initial_env_defaults by exact Hne. cbn [fold_left].
  pose proof (Hnd _ Hin) as Hx. simpl in Hx. unfold apply_override. rewrite split_dot_nodot by exact Hx. reflexivity.
Qed.

Lemma deny1_member : forall w x e, wf_world w = true -> In (x, e_src e) (w_env w) ->
  is_module (w_mods w) (e_src e) = true -> In e (w_heap w) -> e_mem e = true ->
  apply_config w (deny1 (x ++ String "." (e_lbl e))) =
  W (w_env w) (filter (fun e' => negb (member_at (e_src e) (e_lbl e) e')) (w_heap w)) (w_mods w).
Proof.
  intros w x e Hwf Hin Hmod He Hm. apply wf_world_parts in Hwf. destruct Hwf as (Hnk & Hne & Hnd & Hmem).
  unfold apply_config, deny1. cbn [c_over c_deny]. rewrite initial_env_defaults by exact Hne. cbn [fold_left].
  pose proof (Hnd _ Hin) as Hx. simpl in Hx. destruct (Hmem e He Hm) as [Ha Hnn].
  unfold apply_deny. rewrite cut_dot_app by exact Hx. simpl.
  rewrite (env_get_nodup _ _ _ Hne Hin). rewrite Hmod.
  unfold remove_module_attr. rewrite split_dot_nodot by exact Ha. simpl. unfold override_attr.
  destruct (String.eqb (e_lbl e) "__name__") eqn:E; [apply String.eqb_eq in E; contradiction|]. reflexivity.
Qed.

Lemma override1_member : forall w x e v, wf_world w = true -> In (x, e_src e) (w_env w) ->
  is_module (w_mods w) (e_src e) = true -> In e (w_heap w) -> e_mem e = true ->
  apply_config w (override1 (x ++ String "." (e_lbl e)) v) =
  W (w_env w) (map (fun e' => if member_at (e_src e) (e_lbl e) e' then E (e_src e') (e_lbl e') true v else e')
                   (w_heap w)) (w_mods w).
Proof.
  intros w x e v Hwf Hin Hmod He Hm. apply wf_world_parts in Hwf. destruct Hwf as (Hnk & Hne & Hnd & Hmem).
  unfold apply_config, override1. cbn [c_over c_deny]. rewrite initial_env_defaults by exact Hne. cbn [fold_left].
  pose proof (Hnd _ Hin) as Hx. simpl in Hx. destruct (Hmem e He Hm) as [Ha Hnn].
  unfold apply_override. rewrite split_dot_app by exact Hx. rewrite split_dot_nodot by exact Ha.
  simpl. rewrite (env_get_nodup _ _ _ Hne Hin). rewrite Hmod. simpl. unfold override_attr.
  destruct (String.eqb (e_lbl e) "__name__") eqn:E; [apply String.eqb_eq in E; contradiction|]. reflexivity.
Qed.

(* Everything reachable after overriding a registered name with a fresh object v (no outgoing edges in the
   heap) is v itself or was reachable after denying that name: an override exposes nothing a deny hides. *)
Theorem override_le_deny : forall w nm v,
  wf_world w = true -> In nm (names w) -> (forall e, In e (w_heap w) -> e_src e <> v) ->
  forall n, Access (apply_config w (override1 nm v)) n ->
            n = v \/ Reach (edges_of (w_heap (apply_config w (deny1 nm)))) (env_nodes (w_env (apply_config w (deny1 nm)))) n.
Proof.
  intros w nm v Hwf Hnm Hfresh n Ha. apply access_reach in Ha. revert n Ha.
  apply names_registered in Hnm. destruct Hnm as [x k Hin | x m e Hin Hmod He Hsrc Hm].
  - rewrite (deny1_global w x k Hwf Hin), (override1_global w x k v Hwf Hin). simpl.
    intros n Hr. induction Hr as [r Hr | a b Ha IH Hab].
    + unfold env_set, env_nodes in Hr. rewrite map_app in Hr. apply in_app_or in Hr. destruct Hr as [Hr|[Hr|[]]].
      * right. apply reach_root. exact Hr.
      * left. simpl in Hr. auto.
    + destruct IH as [->|IH].
      * exfalso. unfold edges_of in Hab. apply in_map_iff in Hab. destruct Hab as [e0 [Heq He0]].
        inversion Heq. eapply Hfresh; eauto.
      * right. eapply reach_step; eauto.
  - subst m. rewrite (deny1_member w x e Hwf Hin Hmod He Hm), (override1_member w x e v Hwf Hin Hmod He Hm). simpl.
    intros n Hr. induction Hr as [r Hr | a b Ha IH Hab].
    + right. apply reach_root. exact Hr.
    + unfold edges_of in Hab. apply in_map_iff in Hab. destruct Hab as [e1 [Heq He1]].
      apply in_map_iff in He1. destruct He1 as [e0 [Hf He0]].
      destruct (member_at (e_src e) (e_lbl e) e0) eqn:Hma.
      * subst e1. simpl in Heq. inversion Heq. left. reflexivity.
      * subst e1. inversion Heq; subst a b. destruct IH as [Hv|IH].
        -- exfalso. eapply Hfresh; eauto.
        -- right. eapply reach_step; [exact IH|]. unfold edges_of. apply in_map_iff. exists e0. split; [reflexivity|].
           apply filter_In. split; [exact He0|]. rewrite Hma. reflexivity.
Qed.

Lemma walk_access : forall w path n m, Access w n -> walk (w_heap w) n path = Some m -> Access w m.
Proof.
  intros w path. induction path as [|a r IH]; intros n m Hn Hw; simpl in Hw.
  - inversion Hw; subst. exact Hn.
  - destruct (get_attr (w_heap w) n a) as [k|] eqn:Hg; [|discriminate].
    eapply IH; [|exact Hw]. eapply acc_attr; eauto.
Qed.

Lemma lookup_access : forall w nm n, lookup_name w nm = Some n -> Access w n.
Proof.
  intros w nm n H. unfold lookup_name, lookup_path in H. destruct (split_dot nm) as [|x r]; [discriminate|].
  destruct (env_get (w_env w) x) as [k|] eqn:Hg; [|discriminate].
  eapply walk_access; [|exact H]. eapply acc_ident; eauto.
Qed.

(* ------------------------------------------------------------------ lifting the finite checks over a concrete world *)

Theorem denied_from_check : forall w,
  forallb (check_deny w) (names w) = true ->
  forall nm, In nm (names w) -> exists o, lookup_name w nm = Some o /\ ~ Access (apply_config w (deny1 nm)) o.
Proof.
  intros w H nm Hin. apply check_deny_sound. exact (proj1 (forallb_forall _ _) H nm Hin).
Qed.

Definition heap_bounded (w : world) (maxn : node) : bool :=
  forallb (fun e => Pos.leb (e_src e) maxn && Pos.leb (e_dst e) maxn) (w_heap w).

Lemma fresh_no_edges : forall w maxn v, heap_bounded w maxn = true -> (maxn < v)%positive ->
  forall e, In e (w_heap w) -> e_src e <> v.
Proof.
  intros w maxn v Hb Hv e He Heq. unfold heap_bounded in Hb. rewrite forallb_forall in Hb.
  specialize (Hb e He). apply andb_true_iff in Hb. destruct Hb as [Hb _].
  apply Pos.leb_le in Hb. rewrite Heq in Hb. apply Pos.lt_nle in Hv. contradiction.
Qed.

Theorem override_observed_from_check : forall w maxn,
  wf_world w = true -> forallb (check_deny w) (names w) = true -> heap_bounded w maxn = true ->
  forall v nm, (maxn < v)%positive -> In nm (names w) ->
  exists o, lookup_name w nm = Some o /\
            lookup_name (apply_config w (override1 nm v)) nm = Some v /\
            Access (apply_config w (override1 nm v)) v /\
            (o <> v -> ~ Access (apply_config w (override1 nm v)) o).
Proof.
  intros w maxn Hwf Hall Hb v nm Hv Hin.
  destruct (check_deny_sound_reach w nm (proj1 (forallb_forall _ _) Hall nm Hin)) as [o [Hl Hnr]].
  exists o. split; [exact Hl|]. pose proof (override_installs w nm v Hwf Hin) as Hi.
  split; [exact Hi|]. split; [eapply lookup_access; exact Hi|].
  intros Hne Ha.
  destruct (override_le_deny w nm v Hwf Hin (fresh_no_edges w maxn v Hb Hv) o Ha) as [H|H]; [contradiction|].
  exact (Hnr H).
Qed.

(* two configurations in one heap: what configuration 1 may touch *)
Definition touch1 (s1 s2 : PS.t) (n : node) : bool := negb (PS.mem n s2) || PS.mem n s1.

Theorem independent_from_checks : forall (h : heap) mods (env1 env2 : env) s1 s2,
  world_reach (W env1 h mods) = Some s1 -> world_reach (W env2 h mods) = Some s2 ->
  forallb (fun e => implb (touch1 s1 s2 (e_src e)) (touch1 s1 s2 (e_dst e))) h = true ->
  forallb (fun p => touch1 s1 s2 (snd p)) env1 = true ->
  forallb (fun m => negb (PS.mem m s1 && PS.mem m s2)) mods = true ->
  forall c,
  (forall x v, In (x, v) (c_extra c) -> touch1 s1 s2 v = true) ->
  (forall x v, In (x, v) (c_over c) -> touch1 s1 s2 v = true) ->
  forall n, Reach (edges_of h) (env_nodes env2) n ->
  forall e, e_src e = n -> (In e (w_heap (apply_config (W env1 h mods) c)) <-> In e h).
Proof.
  intros h mods env1 env2 s1 s2 H1 H2 Hcl Henv Hmods c Hx Ho n Hr e Hsrc.
  apply (apply_config_frame (touch1 s1 s2) h mods env1 c).
  - intros e0 He0 Hs. rewrite forallb_forall in Hcl. specialize (Hcl e0 He0). rewrite Hs in Hcl. exact Hcl.
  - intros x k Hin. rewrite forallb_forall in Henv. exact (Henv (x, k) Hin).
  - exact Hx.
  - exact Ho.
  - unfold frozen. rewrite Hsrc.
    assert (Hn2 : PS.mem n s2 = true).
    { apply PS.mem_spec. unfold world_reach in H2. eapply reach_complete in H2. apply H2. exact Hr. }
    destruct (PS.mem n s1) eqn:Hn1.
    + right. destruct (is_module mods n) eqn:Hm; [|reflexivity]. exfalso.
      apply is_module_true_eq in Hm. rewrite forallb_forall in Hmods.
      specialize (Hmods n Hm). rewrite Hn1, Hn2 in Hmods. discriminate.
    + left. unfold touch1. rewrite Hn1, Hn2. reflexivity.
Qed.

(* ------------------------------------------------------------------ nested names of any depth (after the repair of resolveModule) *)

Local Open Scope list_scope.

(* t is the module reached from module m by following the attribute names p, every step landing on a module *)
Inductive mod_path (h : heap) (mods : list node) : node -> list string -> node -> Prop :=
| mp_nil : forall m, mod_path h mods m [] m
| mp_cons : forall m a o rest t, get_attr h m a = Some o -> is_module mods o = true ->
    mod_path h mods o rest t -> mod_path h mods m (a :: rest) t.

Lemma resolve_module_path : forall h mods m p t, mod_path h mods m p t -> resolve_module h mods m p = Some t.
Proof. induction 1; simpl; [reflexivity|]. rewrite H, H0. exact IHmod_path. Qed.

Lemma mod_path_walk : forall h mods m p t, mod_path h mods m p t -> walk h m p = Some t.
Proof. induction 1; simpl; [reflexivity|]. rewrite H. exact IHmod_path. Qed.

Lemma walk_app : forall (h : heap) p q n,
  walk h n (p ++ q) = match walk h n p with Some k => walk h k q | None => None end.
Proof.
  intros h p q. induction p as [|a r IH]; intro n; simpl; [reflexivity|].
  destruct (get_attr h n a); [apply IH|reflexivity].
Qed.

Lemma get_attr_filter_sub : forall (h : heap) f n a k,
  nodup_keys edge_key_eqb h = true -> get_attr (filter f h) n a = Some k -> get_attr h n a = Some k.
Proof.
  intros h f n a k Hn H. unfold get_attr in *. destruct (find (edge_at n a) (filter f h)) as [e|] eqn:Hf; [|discriminate].
  inversion H; subst. apply find_some in Hf. destruct Hf as [Hin Hk]. apply filter_In in Hin. destruct Hin as [Hin _].
  rewrite (find_first_key h n a e Hn Hin Hk). reflexivity.
Qed.

Lemma walk_filter_sub : forall (h : heap) f p n k,
  nodup_keys edge_key_eqb h = true -> walk (filter f h) n p = Some k -> walk h n p = Some k.
Proof.
  intros h f p. induction p as [|a r IH]; intros n k Hn H; simpl in *; [exact H|].
  destruct (get_attr (filter f h) n a) as [o|] eqn:Hg; [|discriminate].
  rewrite (get_attr_filter_sub h f n a o Hn Hg). apply IH; auto.
Qed.

Definition nodot (s : string) : Prop := has_dot s = false.

Lemma dotted_cons : forall x y r, dotted (x :: y :: r) = (x ++ String "." (dotted (y :: r)))%string.
Proof. reflexivity. Qed.

Lemma split_dot_dotted : forall l, l <> [] -> Forall nodot l -> split_dot (dotted l) = l.
Proof.
  induction l as [|x r IH]; intros Hne Hf; [contradiction|].
  inversion Hf; subst. destruct r as [|y r'].
  - simpl. apply split_dot_nodot. assumption.
  - rewrite dotted_cons. rewrite split_dot_app by assumption. f_equal. apply IH; [discriminate|assumption].
Qed.

Lemma cut_dot_dotted : forall x r, nodot x -> r <> [] -> cut_dot (dotted (x :: r)) = (x, Some (dotted r)).
Proof.
  intros x r Hx Hr. destruct r as [|y r']; [contradiction|]. rewrite dotted_cons. apply cut_dot_app. exact Hx.
Qed.

Lemma Forall_nodot_app : forall p a, Forall nodot p -> nodot a -> Forall nodot (p ++ [a]).
Proof. intros. apply Forall_app. split; [assumption|]. constructor; [assumption|constructor]. Qed.

Lemma app_last_not_nil : forall A (p : list A) a, p ++ [a] <> [].
Proof. intros A p a H. apply app_eq_nil in H. destruct H as [_ H]. discriminate. Qed.

Section Nested.
  Variables (w : world) (x : string) (m : node) (p : list string) (t : node) (e : edge).
  Hypothesis Hwf : wf_world w = true.
  Hypothesis Hin : In (x, m) (w_env w).
  Hypothesis Hmod : is_module (w_mods w) m = true.
  Hypothesis Hp : Forall nodot p.
  Hypothesis Hpath : mod_path (w_heap w) (w_mods w) m p t.
  Hypothesis He : In e (w_heap w).
  Hypothesis Hsrc : e_src e = t.
  Hypothesis Hm : e_mem e = true.

  Let nm := dotted (x :: p ++ [e_lbl e]).

  Lemma nested_facts : nodup_keys edge_key_eqb (w_heap w) = true /\ nodup_keys String.eqb (map fst (w_env w)) = true /\
    nodot x /\ nodot (e_lbl e) /\ e_lbl e <> "__name__".
  Proof.
    destruct (wf_world_parts w Hwf) as (Hnk & Hne & Hnd & Hmem). destruct (Hmem e He Hm) as [Ha Hnn].
    repeat split; auto. exact (Hnd _ Hin).
  Qed.

  Lemma nested_split : split_dot nm = x :: p ++ [e_lbl e].
  Proof.
    destruct nested_facts as (_ & _ & Hx & Ha & _). unfold nm. apply split_dot_dotted; [discriminate|].
    constructor; [exact Hx|]. apply Forall_nodot_app; assumption.
  Qed.

  Lemma nested_remove : forall h, h = w_heap w ->
    remove_module_attr h (w_mods w) m (dotted (p ++ [e_lbl e])) = override_attr h t (e_lbl e) None.
  Proof.
    intros h ->. destruct nested_facts as (_ & _ & Hx & Ha & _).
    unfold remove_module_attr. rewrite split_dot_dotted; [|apply app_last_not_nil|apply Forall_nodot_app; assumption].
    rewrite rev_app_distr. simpl. destruct (rev p) as [|c rp] eqn:Hr.
    - assert (p = []) by (apply (f_equal (@rev string)) in Hr; rewrite rev_involutive in Hr; exact Hr).
      subst p. inversion Hpath; subst. reflexivity.
    - rewrite <- Hr, rev_involutive. rewrite (resolve_module_path _ _ _ _ _ Hpath). reflexivity.
  Qed.

  (* WithoutGlobal(x.p1...pk.a): exactly the attribute a of the module reached along p1...pk is removed, and the
     denied name no longer resolves - for module paths of ANY length. *)
  Theorem nested_deny_exact :
    apply_config w (deny1 nm) =
      W (w_env w) (filter (fun e' => negb (member_at t (e_lbl e) e')) (w_heap w)) (w_mods w) /\
    lookup_name (apply_config w (deny1 nm)) nm = None.
  Proof.
    destruct nested_facts as (Hnk & Hne & Hx & Ha & Hnn).
    assert (Heq : apply_config w (deny1 nm) =
      W (w_env w) (filter (fun e' => negb (member_at t (e_lbl e) e')) (w_heap w)) (w_mods w)).
    { unfold apply_config, deny1. cbn [c_over c_deny]. rewrite initial_env_defaults by exact Hne. cbn [fold_left].
      unfold apply_deny. unfold nm. rewrite cut_dot_dotted; [|exact Hx|apply app_last_not_nil]. cbn [w_env w_heap w_mods].
      rewrite (env_get_nodup _ _ _ Hne Hin). rewrite Hmod. rewrite nested_remove by reflexivity.
      unfold override_attr. destruct (String.eqb (e_lbl e) "__name__") eqn:E; [apply String.eqb_eq in E; contradiction|].
      reflexivity. }
    split; [exact Heq|]. rewrite Heq. unfold lookup_name. rewrite nested_split. cbn [lookup_path w_env w_heap].
    rewrite (env_get_nodup _ _ _ Hne Hin). rewrite walk_app.
    destruct (walk _ m p) as [k|] eqn:Hw; [|reflexivity].
    apply walk_filter_sub in Hw; [|exact Hnk]. rewrite (mod_path_walk _ _ _ _ _ Hpath) in Hw. inversion Hw; subst k.
    simpl. subst t. pose proof (get_attr_removed (w_heap w) e Hnk He Hm Hnn) as Hr. unfold override_attr in Hr.
    destruct (String.eqb (e_lbl e) "__name__") eqn:E; [apply String.eqb_eq in E; contradiction|].
    rewrite Hr. reflexivity.
  Qed.

  (* WithGlobalOverride(x.p1...pk.a, v): exactly that attribute is redirected to v. *)
  Theorem nested_override_exact : forall v,
    apply_config w (override1 nm v) =
      W (w_env w) (map (fun e' => if member_at t (e_lbl e) e' then E (e_src e') (e_lbl e') true v else e') (w_heap w))
        (w_mods w) /\
    get_attr (w_heap (apply_config w (override1 nm v))) t (e_lbl e) = Some v.
  Proof.
    intro v. destruct nested_facts as (Hnk & Hne & Hx & Ha & Hnn).
    assert (Heq : apply_config w (override1 nm v) =
      W (w_env w) (map (fun e' => if member_at t (e_lbl e) e' then E (e_src e') (e_lbl e') true v else e') (w_heap w))
        (w_mods w)).
    { unfold apply_config, override1. cbn [c_over c_deny]. rewrite initial_env_defaults by exact Hne. cbn [fold_left].
      unfold apply_override. rewrite nested_split. cbn [w_env w_heap w_mods].
      destruct (p ++ [e_lbl e]) as [|r1 rest] eqn:Hpe; [exfalso; eapply app_last_not_nil; eauto|].
      rewrite (env_get_nodup _ _ _ Hne Hin). rewrite Hmod. rewrite <- Hpe.
      rewrite removelast_last, last_last. rewrite (resolve_module_path _ _ _ _ _ Hpath).
      unfold override_attr. destruct (String.eqb (e_lbl e) "__name__") eqn:E; [apply String.eqb_eq in E; contradiction|].
      reflexivity. }
    split; [exact Heq|]. rewrite Heq. cbn [w_heap]. subst t.
    pose proof (get_attr_replaced (w_heap w) e v Hnk He Hm Hnn) as Hr. unfold override_attr in Hr.
    destruct (String.eqb (e_lbl e) "__name__") eqn:E; [apply String.eqb_eq in E; contradiction|]. exact Hr.
  Qed.
End Nested.

(* ------------------------------------------------------------------ configurations composed from a sequence of options *)

Lemma deny_add_in : forall l x y, In x (deny_add l y) <-> In x l \/ x = y.
Proof.
  intros l x y. unfold deny_add. destruct (existsb (String.eqb y) l) eqn:E.
  - split; [auto|]. intros [H|H]; [exact H|]. subst x.
    apply existsb_exists in E. destruct E as [z [Hz Hyz]]. apply String.eqb_eq in Hyz. subst z. exact Hz.
  - rewrite in_app_iff. simpl. split.
    + intros [H|[H|[]]]; [left; exact H|right; symmetry; exact H].
    + intros [H|H]; [left; exact H|right; left; symmetry; exact H].
Qed.

Lemma fold_deny_add_in : forall ys l x, In x (fold_left deny_add ys l) <-> In x l \/ In x ys.
Proof.
  induction ys as [|y r IH]; intros l x; simpl.
  - split; [auto|]. intros [H|[]]. exact H.
  - rewrite IH, deny_add_in. split.
    + intros [[H|H]|H]; auto.
    + intros [H|[H|H]]; auto.
Qed.

Lemma fold_opts_deny : forall opts c x,
  In x (c_deny (fold_left apply_opt opts c)) <-> In x (c_deny c) \/ denied_by opts x.
Proof.
  induction opts as [|o r IH]; intros c x; simpl.
  - split; [auto|]. intros [H|[o [[] _]]]. exact H.
  - rewrite IH. split.
    + intros [H|[o' [Hin Hd]]].
      * destruct o; simpl in H; auto.
        -- apply deny_add_in in H. destruct H as [H|H]; [auto|].
           right. exists (OptWithout x0). split; [left; reflexivity|]. simpl. symmetry. exact H.
        -- apply fold_deny_add_in in H. destruct H as [H|H]; [auto|].
           right. exists (OptWithoutMany xs). split; [left; reflexivity|]. exact H.
      * right. exists o'. split; [right; exact Hin|exact Hd].
    + intros [H|[o' [[Heq|Hin] Hd]]].
      * left. destruct o; simpl; auto.
        -- apply deny_add_in. auto.
        -- apply fold_deny_add_in. auto.
      * subst o'. left. destruct o; simpl in Hd; try contradiction; simpl.
        -- apply deny_add_in. right. symmetry. exact Hd.
        -- apply fold_deny_add_in. right. exact Hd.
      * right. exists o'. split; assumption.
Qed.

(* deny options ACCUMULATE: the deny set of the composed configuration is exactly the union of the names given to all
   the WithoutGlobal / WithoutGlobals options of the list, whatever their order and whatever stands between them *)
Theorem config_of_denies : forall opts x, In x (c_deny (config_of opts)) <-> denied_by opts x.
Proof.
  intros opts x. unfold config_of. rewrite fold_opts_deny. simpl. split; [intros [[]|H]; exact H|auto].
Qed.

Lemma over_set_in : forall l x v y u, In (y, u) (over_set l x v) -> In (y, u) l \/ (y = x /\ u = v).
Proof.
  intros l x v y u H. unfold over_set in H. apply in_app_iff in H. destruct H as [H|H].
  - apply filter_In in H. left. exact (proj1 H).
  - destruct H as [H|[]]. inversion H. right. split; reflexivity.
Qed.

Lemma fold_opts_over : forall opts c y u,
  In (y, u) (c_over (fold_left apply_opt opts c)) -> In (y, u) (c_over c) \/ In (OptOverride y u) opts.
Proof.
  induction opts as [|o r IH]; intros c y u H; simpl in *; [auto|].
  destruct (IH _ _ _ H) as [H1|H1]; [|auto].
  destruct o; simpl in H1; auto.
  apply over_set_in in H1. destruct H1 as [H1|[-> ->]]; auto.
Qed.

Lemma config_of_over : forall opts y u, In (y, u) (c_over (config_of opts)) -> overridden_by opts y.
Proof.
  intros opts y u H. unfold config_of in H. apply fold_opts_over in H. destruct H as [[]|H]. exists u. exact H.
Qed.

(* ---- a denied global stays out of the environment through all later denials and through overrides of OTHER names *)

Lemma env_get_del_other : forall (e : env) x y, x <> y -> env_get (env_del e y) x = env_get e x.
Proof.
  induction e as [|[z m] r IH]; intros x y Hxy; [reflexivity|]. unfold env_get, env_del in *. simpl.
  destruct (String.eqb z y) eqn:Ezy; simpl.
  - apply String.eqb_eq in Ezy. subst z.
    destruct (String.eqb y x) eqn:Eyx; [apply String.eqb_eq in Eyx; subst; contradiction|]. apply IH. exact Hxy.
  - destruct (String.eqb z x); [reflexivity|]. apply IH. exact Hxy.
Qed.

Lemma env_get_del_none : forall (e : env) x y, env_get e x = None -> env_get (env_del e y) x = None.
Proof.
  intros e x y H. destruct (String.eqb x y) eqn:E.
  - apply String.eqb_eq in E. subst y. apply env_get_del_same.
  - rewrite env_get_del_other; [exact H|]. intro Heq. subst y. rewrite String.eqb_refl in E. discriminate.
Qed.

Lemma env_get_set_other : forall (e : env) x y v, x <> y -> env_get (env_set e y v) x = env_get e x.
Proof.
  intros e x y v Hxy. unfold env_set.
  assert (Happ : forall a b : env, env_get (a ++ b) x = match env_get a x with Some n => Some n | None => env_get b x end).
  { induction a as [|[z m] a IHa]; intros b; [reflexivity|]. unfold env_get in *. simpl.
    destruct (String.eqb z x); [reflexivity|apply IHa]. }
  rewrite Happ, env_get_del_other by exact Hxy.
  destruct (env_get e x); [reflexivity|]. unfold env_get. simpl.
  destruct (String.eqb y x) eqn:E; [apply String.eqb_eq in E; subst; contradiction|reflexivity].
Qed.

Lemma apply_deny_keeps_none : forall w y x, env_get (w_env w) x = None -> env_get (w_env (apply_deny w y)) x = None.
Proof.
  intros w y x H. unfold apply_deny. destruct (cut_dot y) as [mn [attr|]].
  - destruct (env_get (w_env w) mn) as [m|]; [|exact H]. destruct (is_module (w_mods w) m); exact H.
  - simpl. apply env_get_del_none. exact H.
Qed.

Lemma fold_deny_keeps_none : forall l w x, env_get (w_env w) x = None -> env_get (w_env (fold_left apply_deny l w)) x = None.
Proof. induction l as [|y r IH]; intros w x H; simpl; [exact H|]. apply IH. apply apply_deny_keeps_none. exact H. Qed.

Lemma fold_deny_removes : forall l w x, In x l -> has_dot x = false ->
  env_get (w_env (fold_left apply_deny l w)) x = None.
Proof.
  induction l as [|y r IH]; intros w x Hin Hd; [destruct Hin|]. simpl. destruct Hin as [->|Hin].
  - apply fold_deny_keeps_none. unfold apply_deny. rewrite (cut_dot_nodot x Hd). simpl. apply env_get_del_same.
  - apply IH; assumption.
Qed.

Lemma apply_override_keeps_none : forall w y v x, y <> x ->
  env_get (w_env w) x = None -> env_get (w_env (apply_override w (y, v))) x = None.
Proof.
  intros w y v x Hyx H. unfold apply_override. destruct (split_dot y) as [|a [|b r]].
  - exact H.
  - simpl. rewrite env_get_set_other; [exact H|]. intro E. subst. contradiction.
  - destruct (env_get (w_env w) a) as [m|]; [|exact H]. destruct (is_module (w_mods w) m); [|exact H].
    destruct (resolve_module _ _ _ _); exact H.
Qed.

Lemma fold_override_keeps_none : forall l w x, (forall y v, In (y, v) l -> y <> x) ->
  env_get (w_env w) x = None -> env_get (w_env (fold_left apply_override l w)) x = None.
Proof.
  induction l as [|[y v] r IH]; intros w x Hl H; simpl; [exact H|]. apply IH.
  - intros y' v' Hin. apply (Hl y' v'). right. exact Hin.
  - apply apply_override_keeps_none; [apply (Hl y v); left; reflexivity|exact H].
Qed.

(* For EVERY configuration (any deny list of any length, any extra globals, any overrides) over any defaults: a global
   name that is in the deny list and is not itself overridden is not in the environment - no identifier, no import
   statement and no from-import can name it. *)
Theorem denied_global_absent : forall d c x,
  In x (c_deny c) -> has_dot x = false -> (forall y v, In (y, v) (c_over c) -> y <> x) ->
  env_get (w_env (apply_config d c)) x = None.
Proof.
  intros d c x Hin Hd Ho. unfold apply_config. apply fold_override_keeps_none; [exact Ho|].
  apply fold_deny_removes; assumption.
Qed.

(* ... hence for every option list, in any order: a global denied by SOME WithoutGlobal / WithoutGlobals option and
   not overridden by a WithGlobalOverride option of the list is absent from the composed configuration *)
Theorem composed_deny_wins : forall d opts x,
  denied_by opts x -> has_dot x = false -> ~ overridden_by opts x ->
  env_get (w_env (apply_config d (config_of opts))) x = None.
Proof.
  intros d opts x Hd Hn Ho. apply denied_global_absent; [apply config_of_denies; exact Hd|exact Hn|].
  intros y v Hin Heq. subst y. apply Ho. exact (config_of_over opts x v Hin).
Qed.

(* ------------------------------------------------------------------ modules a host assembles from existing builtins *)

Lemma reparent_key : forall n bs e, e_src (reparent n bs e) = e_src e /\ e_lbl (reparent n bs e) = e_lbl e.
Proof. intros n bs e. unfold reparent. destruct (_ && _); simpl; auto. Qed.

(* after NewBuiltinsModule(n, members) every builtin among the members answers __module__ with the NEW module *)
Theorem assemble_backref : forall w n members a b old,
  wf_world w = true -> In (a, b) members -> In (E b "__module__" false old) (w_heap w) ->
  get_attr (w_heap (assemble w n members)) b "__module__" = Some n.
Proof.
  intros w n members a b old Hwf Hin He. destruct (wf_world_parts w Hwf) as [Hk _].
  unfold assemble, get_attr. simpl.
  assert (Hf : find (edge_at b "__module__") (map (reparent n (map snd members)) (w_heap w))
               = Some (E b "__module__" false n)).
  { rewrite find_map_key by (intro e; apply reparent_key).
    rewrite (find_first_key (w_heap w) b "__module__" _ Hk He) by (unfold edge_at; simpl; rewrite Pos.eqb_refl; reflexivity).
    simpl. unfold reparent. simpl.
    assert (existsb (Pos.eqb b) (map snd members) = true) as ->; [|reflexivity].
    apply existsb_exists. exists b. split; [|apply Pos.eqb_refl]. change b with (snd (a, b)). apply in_map. exact Hin. }
  assert (Happ : forall (l1 l2 : list edge) x, find (edge_at b "__module__") l1 = Some x ->
                   find (edge_at b "__module__") (l1 ++ l2) = Some x).
  { induction l1 as [|y l1 IH]; intros l2 x Hx; simpl in *; [discriminate|].
    destruct (edge_at b "__module__" y); auto. }
  rewrite (Happ _ _ _ Hf). reflexivity.
Qed.

(* nothing else changes: an edge that is not the __module__ attribute of a member is in the new heap as it was *)
Theorem assemble_keeps : forall w n members e,
  In e (w_heap w) -> (e_lbl e <> "__module__" \/ e_mem e = true \/ ~ In (e_src e) (map snd members)) ->
  In e (w_heap (assemble w n members)).
Proof.
  intros w n members e Hin Hc. unfold assemble. simpl. apply in_or_app. left.
  assert (reparent n (map snd members) e = e) as <-; [|apply in_map; exact Hin].
  unfold reparent. destruct Hc as [Hc|[Hc|Hc]].
  - destruct (String.eqb (e_lbl e) "__module__") eqn:E; [apply String.eqb_eq in E; contradiction|reflexivity].
  - rewrite Hc. simpl. rewrite andb_false_r. reflexivity.
  - destruct (existsb (Pos.eqb (e_src e)) (map snd members)) eqn:E; [|rewrite andb_false_r; reflexivity].
    exfalso. apply Hc. apply existsb_exists in E. destruct E as [z [Hz Hez]]. apply Pos.eqb_eq in Hez. subst z. exact Hz.
Qed.

Lemma check_assemble_sound : forall w n keep x m, check_assemble w n keep x = true ->
  env_get (w_env w) x = Some m -> is_module (w_mods w) m = true ->
  ~ Access (apply_config (restricted w n m keep) (override1 x n)) m /\
  ~ Access (apply_config (restricted w n m keep) (beside x n)) m.
Proof.
  intros w n keep x m H He Hm. unfold check_assemble in H. rewrite He, Hm in H.
  destruct (world_reach (apply_config (restricted w n m keep) (override1 x n))) as [s1|] eqn:H1; [|discriminate].
  destruct (world_reach (apply_config (restricted w n m keep) (beside x n))) as [s2|] eqn:H2; [|discriminate].
  apply andb_true_iff in H. destruct H as [H _]. apply andb_true_iff in H. destruct H as [H _].
  apply andb_true_iff in H. destruct H as [Ha Hb]. apply negb_true_iff in Ha, Hb.
  split; intro Hacc.
  - apply (world_reach_spec _ _ H1) in Hacc. apply PS.mem_spec in Hacc. congruence.
  - apply (world_reach_spec _ _ H2) in Hacc. apply PS.mem_spec in Hacc. congruence.
Qed.

Theorem assembled_from_check : forall w n keep,
  forallb (check_assemble w n keep) (map fst (w_env w)) = true ->
  forall x m, In (x, m) (w_env w) -> env_get (w_env w) x = Some m -> is_module (w_mods w) m = true ->
  ~ Access (apply_config (restricted w n m keep) (override1 x n)) m /\
  ~ Access (apply_config (restricted w n m keep) (beside x n)) m.
Proof.
  intros w n keep H x m Hin He Hm. apply check_assemble_sound; [|exact He|exact Hm].
  apply (proj1 (forallb_forall _ _) H). change x with (fst (x, m)). apply in_map. exact Hin.
Qed.
