(* Soundness of the lock discipline (model/Lockset.v): any number of threads, any schedule. *)
From Coq Require Import List Bool Arith Lia.
Require Import RV.model.Lockset.
Import ListNotations.

(* ------------------------------------------------------------------ lists of threads *)

Lemma nth_set_same t th s : t < length s -> nth_error (set_thread t th s) t = Some th.
Proof. revert t. induction s as [|x s IH]; intros [|t] H; cbn in *; try lia; [reflexivity|]. apply IH. lia. Qed.

Lemma nth_set_other t u th s : t <> u -> nth_error (set_thread t th s) u = nth_error s u.
Proof.
  revert t u. induction s as [|x s IH]; intros t u H; cbn.
  - destruct t; reflexivity.
  - destruct t, u; cbn; try reflexivity; [contradiction|]. apply IH. congruence.
Qed.

Lemma nth_error_lt {A} (s : list A) t x : nth_error s t = Some x -> t < length s.
Proof. intros H. apply nth_error_Some. rewrite H. discriminate. Qed.

Lemma existsb_false_nth {A} (f : A -> bool) s t x : existsb f s = false -> nth_error s t = Some x -> f x = false.
Proof.
  intros E H. apply nth_error_In in H. destruct (f x) eqn:F; [|reflexivity].
  assert (existsb f s = true) by (apply existsb_exists; exists x; split; assumption). congruence.
Qed.

(* ------------------------------------------------------------------ held sets *)

Lemma holds_any_cons p h m : holds_any (p :: h) m = Nat.eqb (fst p) m || holds_any h m.
Proof. reflexivity. Qed.

Lemma holds_w_cons p h m : holds_w (p :: h) m = (Nat.eqb (fst p) m && snd p) || holds_w h m.
Proof. reflexivity. Qed.

Lemma holds_w_any h m : holds_w h m = true -> holds_any h m = true.
Proof.
  unfold holds_w, holds_any. rewrite !existsb_exists. intros (p & Hp & E). exists p. split; [exact Hp|].
  apply andb_prop in E. apply E.
Qed.

Lemma holds_any_release h m m' : holds_any (release m h) m' = true -> holds_any h m' = true.
Proof.
  induction h as [|p h IH]; cbn; [discriminate|]. destruct (Nat.eqb (fst p) m) eqn:E.
  - intros H. rewrite H. apply orb_true_r.
  - cbn. destruct (Nat.eqb (fst p) m'); [reflexivity|]. cbn. exact IH.
Qed.

Lemma holds_w_release h m m' : holds_w (release m h) m' = true -> holds_w h m' = true.
Proof.
  induction h as [|p h IH]; cbn; [discriminate|]. destruct (Nat.eqb (fst p) m) eqn:E.
  - intros H. rewrite H. apply orb_true_r.
  - cbn. destruct (Nat.eqb (fst p) m' && snd p); [reflexivity|]. cbn. exact IH.
Qed.

(* ------------------------------------------------------------------ the two invariants *)

(* a lock held in write mode by one thread is held by no other thread *)
Definition Compat (s : list thread) : Prop :=
  forall t1 t2 th1 th2 m, t1 <> t2 -> nth_error s t1 = Some th1 -> nth_error s t2 = Some th2 ->
    holds_w (held th1) m = true -> holds_any (held th2) m = false.

Definition Conf (sites : list site) (s : list thread) : Prop :=
  forall t th, nth_error s t = Some th -> conformsb sites (held th) (todo th) = true.

Lemma compat_init progs : Compat (init progs).
Proof.
  intros t1 t2 th1 th2 m _ H1 _ Hw. unfold init in H1. apply nth_error_In in H1. apply in_map_iff in H1.
  destruct H1 as (p & <- & _). discriminate.
Qed.

Lemma conf_init sites progs : Forall (fun p => conformsb sites [] p = true) progs -> Conf sites (init progs).
Proof.
  intros F t th H. unfold init in H. apply nth_error_In in H. apply in_map_iff in H. destruct H as (p & <- & Hp).
  cbn. rewrite Forall_forall in F. apply F. exact Hp.
Qed.

(* what a step does to the table of threads *)
Lemma step_shape s t s' :
  step s t = Some s' ->
  exists th th', nth_error s t = Some th /\ s' = set_thread t th' s /\
    ((exists m r, todo th = Acq m true :: r /\ existsb (fun u => holds_any (held u) m) s = false /\
                  th' = mk_thread ((m, true) :: held th) r) \/
     (exists m r, todo th = Acq m false :: r /\ existsb (fun u => holds_w (held u) m) s = false /\
                  th' = mk_thread ((m, false) :: held th) r) \/
     (exists m r, todo th = Rel m :: r /\ th' = mk_thread (release m (held th)) r) \/
     (exists x r, (todo th = Rd x :: r \/ todo th = Wr x :: r) /\ th' = mk_thread (held th) r)).
Proof.
  unfold step. destruct (nth_error s t) as [th|] eqn:N; [|discriminate].
  destruct (todo th) as [|[m [|]|m|x|x] r] eqn:T; try discriminate.
  - destruct (existsb _ s) eqn:E; [discriminate|]. intros [= <-]. exists th. eexists. split; [reflexivity|]. split; [reflexivity|].
    left. exists m, r. repeat split; first [exact T | assumption | reflexivity].
  - destruct (existsb _ s) eqn:E; [discriminate|]. intros [= <-]. exists th. eexists. split; [reflexivity|]. split; [reflexivity|].
    right. left. exists m, r. repeat split; first [exact T | assumption | reflexivity].
  - destruct (holds_any (held th) m); [|discriminate]. intros [= <-]. exists th. eexists. split; [reflexivity|]. split; [reflexivity|].
    right. right. left. exists m, r. split; first [exact T | reflexivity].
  - intros [= <-]. exists th. eexists. split; [reflexivity|]. split; [reflexivity|].
    right. right. right. exists x, r. split; [left; first [exact T | reflexivity]|reflexivity].
  - intros [= <-]. exists th. eexists. split; [reflexivity|]. split; [reflexivity|].
    right. right. right. exists x, r. split; [right; first [exact T | reflexivity]|reflexivity].
Qed.

Lemma conf_step sites s t s' : Conf sites s -> step s t = Some s' -> Conf sites s'.
Proof.
  intros C H. destruct (step_shape _ _ _ H) as (th & th' & N & -> & Cases).
  pose proof (C _ _ N) as Ct. intros u thu Hu.
  destruct (Nat.eq_dec t u) as [<-|Ne]; [|rewrite nth_set_other in Hu by exact Ne; apply C in Hu; exact Hu].
  rewrite nth_set_same in Hu by (eapply nth_error_lt; exact N). injection Hu as <-.
  destruct Cases as [(m & r & T & _ & ->)|[(m & r & T & _ & ->)|[(m & r & T & ->)|(x & r & T & ->)]]];
    try (rewrite T in Ct; cbn in *; exact Ct).
  destruct T as [T|T]; rewrite T in Ct; cbn in *; apply andb_prop in Ct; apply Ct.
Qed.

Lemma compat_step s t s' : Compat s -> step s t = Some s' -> Compat s'.
Proof.
  intros C H. destruct (step_shape _ _ _ H) as (th & th' & N & -> & Cases).
  pose proof (nth_error_lt _ _ _ N) as Lt.
  intros t1 t2 th1 th2 m' Ne H1 H2 Hw.
  destruct (Nat.eq_dec t t1) as [<-|N1]; destruct (Nat.eq_dec t t2) as [<-|N2]; try contradiction.
  - (* the stepping thread is the write holder *)
    rewrite nth_set_same in H1 by exact Lt. injection H1 as <-. rewrite nth_set_other in H2 by exact N2.
    destruct Cases as [(m & r & T & E & ->)|[(m & r & T & E & ->)|[(m & r & T & ->)|(x & r & T & ->)]]]; cbn [held] in Hw.
    + rewrite holds_w_cons in Hw. cbn [fst snd] in Hw. destruct (Nat.eqb m m') eqn:Em; cbn in Hw.
      * apply Nat.eqb_eq in Em. subst m'. apply (existsb_false_nth _ _ _ _ E H2).
      * eapply C; [exact Ne|exact N|exact H2|exact Hw].
    + rewrite holds_w_cons in Hw. cbn [fst snd] in Hw. rewrite andb_false_r in Hw. cbn in Hw.
      eapply C; [exact Ne|exact N|exact H2|exact Hw].
    + apply holds_w_release in Hw. eapply C; [exact Ne|exact N|exact H2|exact Hw].
    + eapply C; [exact Ne|exact N|exact H2|exact Hw].
  - (* the stepping thread is the other holder *)
    rewrite nth_set_same in H2 by exact Lt. injection H2 as <-. rewrite nth_set_other in H1 by exact N1.
    assert (Old : holds_any (held th) m' = false) by (eapply C; [exact Ne|exact H1|exact N|exact Hw]).
    destruct Cases as [(m & r & T & E & ->)|[(m & r & T & E & ->)|[(m & r & T & ->)|(x & r & T & ->)]]]; cbn [held].
    + rewrite holds_any_cons. cbn [fst]. destruct (Nat.eqb m m') eqn:Em; cbn; [|exact Old].
      apply Nat.eqb_eq in Em. subst m'. pose proof (existsb_false_nth _ _ _ _ E H1) as F. cbn in F.
      rewrite (holds_w_any _ _ Hw) in F. discriminate.
    + rewrite holds_any_cons. cbn [fst]. destruct (Nat.eqb m m') eqn:Em; cbn; [|exact Old].
      apply Nat.eqb_eq in Em. subst m'. pose proof (existsb_false_nth _ _ _ _ E H1) as F. cbn in F.
      rewrite Hw in F. discriminate.
    + destruct (holds_any (release m (held th)) m') eqn:R; [|reflexivity].
      apply holds_any_release in R. congruence.
    + exact Old.
  - rewrite nth_set_other in H1 by exact N1. rewrite nth_set_other in H2 by exact N2.
    eapply C; [exact Ne|exact H1|exact H2|exact Hw].
Qed.

Lemma invariants_run sites sched : forall s s',
  Compat s -> Conf sites s -> run s sched = Some s' -> Compat s' /\ Conf sites s'.
Proof.
  induction sched as [|t r IH]; intros s s' C F R; cbn in R.
  - injection R as <-. split; assumption.
  - destruct (step s t) as [s1|] eqn:E; [|discriminate].
    apply (IH s1); [eapply compat_step; eassumption|eapply conf_step; eassumption|exact R].
Qed.

(* ------------------------------------------------------------------ no race under the discipline *)

Lemma conf_site sites th x w :
  conformsb sites (held th) (todo th) = true -> next_access th = Some (x, w) ->
  exists st, In st sites /\ s_loc st = x /\ s_write st = w /\ covers (held th) st = true.
Proof.
  unfold next_access. intros Cf N. destruct (todo th) as [|[m b|m|y|y] r]; try discriminate; injection N as <- <-;
    cbn in Cf; apply andb_prop in Cf; destruct Cf as (S & _); unfold site_for in S; apply existsb_exists in S;
    destruct S as (st & Hin & E); apply andb_prop in E; destruct E as (E1 & Cv); apply andb_prop in E1;
    destruct E1 as (El & Ew); apply Nat.eqb_eq in El; apply eqb_prop in Ew; exists st; repeat split; assumption.
Qed.

Lemma covers_any h st m : covers h st = true -> holds_any (s_held st) m = true -> holds_any h m = true.
Proof.
  unfold covers. intros Cv H. unfold holds_any in H. apply existsb_exists in H. destruct H as (p & Hp & E).
  apply Nat.eqb_eq in E. rewrite forallb_forall in Cv. specialize (Cv p Hp). unfold holds_mode in Cv. rewrite E in Cv.
  destruct (snd p); [apply holds_w_any|]; exact Cv.
Qed.

Lemma covers_w h st m : covers h st = true -> holds_w (s_held st) m = true -> holds_w h m = true.
Proof.
  unfold covers. intros Cv H. unfold holds_w in H. apply existsb_exists in H. destruct H as (p & Hp & E).
  apply andb_prop in E. destruct E as (E & W). apply Nat.eqb_eq in E.
  rewrite forallb_forall in Cv. specialize (Cv p Hp). unfold holds_mode in Cv. rewrite E, W in Cv. exact Cv.
Qed.

Lemma excluded_no_overlap s t1 t2 th1 th2 a b :
  Compat s -> t1 <> t2 -> nth_error s t1 = Some th1 -> nth_error s t2 = Some th2 ->
  covers (held th1) a = true -> covers (held th2) b = true -> excluded a b = true -> False.
Proof.
  intros C Ne H1 H2 Ca Cb E. unfold excluded in E. apply existsb_exists in E. destruct E as (p & Hp & E).
  apply orb_prop in E. destruct E as [E|E].
  - apply andb_prop in E. destruct E as (W & Hb).
    assert (W1 : holds_w (held th1) (fst p) = true).
    { apply (covers_w _ a); [exact Ca|]. unfold holds_w. apply existsb_exists. exists p. split; [exact Hp|]. rewrite Nat.eqb_refl, W. reflexivity. }
    pose proof (covers_any _ _ _ Cb Hb) as A2. rewrite (C _ _ _ _ _ Ne H1 H2 W1) in A2. discriminate.
  - pose proof (covers_w _ _ _ Cb E) as W2.
    assert (A1 : holds_any (held th1) (fst p) = true).
    { apply (covers_any _ a); [exact Ca|]. unfold holds_any. apply existsb_exists. exists p. split; [exact Hp|apply Nat.eqb_refl]. }
    assert (Ne' : t2 <> t1) by congruence. rewrite (C _ _ _ _ _ Ne' H2 H1 W2) in A1. discriminate.
Qed.

Theorem lockset_sound sites progs :
  all_pairs_ok sites = true -> Forall (fun p => conformsb sites [] p = true) progs ->
  forall sched s, run (init progs) sched = Some s -> ~ race s.
Proof.
  intros Ok F sched s R (t1 & t2 & th1 & th2 & x & w1 & w2 & Ne & H1 & H2 & A1 & A2 & W).
  destruct (invariants_run sites sched _ _ (compat_init progs) (conf_init sites progs F) R) as (C & Cf).
  destruct (conf_site sites th1 x w1 (Cf _ _ H1) A1) as (a & Ia & La & Wa & Ca).
  destruct (conf_site sites th2 x w2 (Cf _ _ H2) A2) as (b & Ib & Lb & Wb & Cb).
  unfold all_pairs_ok in Ok. rewrite forallb_forall in Ok. specialize (Ok a Ia). rewrite forallb_forall in Ok.
  specialize (Ok b Ib). unfold pair_ok in Ok. rewrite La, Lb, Nat.eqb_refl, Wa, Wb in Ok. cbn in Ok.
  assert (Ex : excluded a b = true).
  { destruct W as [-> | ->]; cbn in Ok; [exact Ok|]. rewrite andb_false_r in Ok. exact Ok. }
  exact (excluded_no_overlap s t1 t2 th1 th2 a b C Ne H1 H2 Ca Cb Ex).
Qed.

(* ------------------------------------------------------------------ the decision procedures *)

Lemma find_bad_pair_with_none a l : find_bad_pair_with a l = None -> forallb (pair_ok a) l = true.
Proof. induction l as [|b r IH]; cbn; [reflexivity|]. destruct (pair_ok a b); [exact IH|discriminate]. Qed.

Lemma find_bad_pair_in_none l all : find_bad_pair_in l all = None -> forallb (fun a => forallb (pair_ok a) all) l = true.
Proof.
  induction l as [|a r IH]; cbn; [reflexivity|]. destruct (find_bad_pair_with a all) eqn:E; [discriminate|].
  intros H. rewrite (find_bad_pair_with_none _ _ E). exact (IH H).
Qed.

Lemma find_bad_pair_none sites : find_bad_pair sites = None -> all_pairs_ok sites = true.
Proof. apply find_bad_pair_in_none. Qed.

Lemma find_bad_pair_with_some a l p : find_bad_pair_with a l = Some p -> fst p = a /\ In (snd p) l /\ pair_ok a (snd p) = false.
Proof.
  induction l as [|b r IH]; cbn; [discriminate|]. destruct (pair_ok a b) eqn:E.
  - intros H. destruct (IH H) as (H1 & H2 & H3). repeat split; [exact H1|right; exact H2|exact H3].
  - intros [= <-]. cbn. repeat split; [left; reflexivity|exact E].
Qed.

Lemma find_bad_pair_some sites p :
  find_bad_pair sites = Some p -> In (fst p) sites /\ In (snd p) sites /\ pair_ok (fst p) (snd p) = false.
Proof.
  unfold find_bad_pair. generalize sites at 1 3 as l. induction l as [|a r IH]; cbn; [discriminate|].
  destruct (find_bad_pair_with a sites) as [q|] eqn:E.
  - intros [= <-]. destruct (find_bad_pair_with_some _ _ _ E) as (H1 & H2 & H3). rewrite H1. repeat split; [left; reflexivity|exact H2|exact H3].
  - intros H. destruct (IH H) as (H1 & H2 & H3). repeat split; [right; exact H1|exact H2|exact H3].
Qed.

Lemma raceb_from_sound a rest : raceb_from 0 a rest = true ->
  exists k th, nth_error rest k = Some th /\ conflicting a (next_access th) = true.
Proof.
  induction rest as [|th r IH]; cbn; [discriminate|]. intros H. apply orb_prop in H. destruct H as [H|H].
  - exists 0, th. split; [reflexivity|exact H].
  - destruct (IH H) as (k & th' & N & Cf). exists (S k), th'. split; [exact N|exact Cf].
Qed.

Lemma conflicting_spec a b : conflicting a b = true ->
  exists x w1 w2, a = Some (x, w1) /\ b = Some (x, w2) /\ (w1 = true \/ w2 = true).
Proof.
  destruct a as [(x, w1)|], b as [(y, w2)|]; cbn; try discriminate. intros H. apply andb_prop in H. destruct H as (E & W).
  apply Nat.eqb_eq in E. subst y. exists x, w1, w2. repeat split. destruct w1; [left; reflexivity|right; exact W].
Qed.

Lemma raceb_sound s : raceb s = true -> race s.
Proof.
  induction s as [|th r IH]; cbn; [discriminate|]. intros H. apply orb_prop in H. destruct H as [H|H].
  - destruct (raceb_from_sound _ _ H) as (k & th2 & N & Cf). destruct (conflicting_spec _ _ Cf) as (x & w1 & w2 & A1 & A2 & W).
    exists 0, (S k), th, th2, x, w1, w2. repeat split; try assumption; discriminate.
  - destruct (IH H) as (t1 & t2 & th1 & th2 & x & w1 & w2 & Ne & H1 & H2 & A1 & A2 & W).
    exists (S t1), (S t2), th1, th2, x, w1, w2. repeat split; try assumption. congruence.
Qed.

Theorem check_witness_sound sites a b :
  check_witness sites a b = true ->
  exists progs sched s, Forall (fun p => conformsb sites [] p = true) progs /\ run (init progs) sched = Some s /\ race s.
Proof.
  unfold check_witness. intros H. apply andb_prop in H. destruct H as (H & R). apply andb_prop in H. destruct H as (Ca & Cb).
  destruct (run (init [site_prog a; site_prog b]) (witness_sched a b)) as [s|] eqn:E; [|discriminate].
  exists [site_prog a; site_prog b], (witness_sched a b), s. split; [|split; [exact E|apply raceb_sound; exact R]].
  constructor; [exact Ca|constructor; [exact Cb|constructor]].
Qed.

(* the dichotomy evaluated on the generated list: the discipline holds (and then no schedule of any conforming
   threads races), or a concrete conforming two-thread program races *)
Theorem refuted_or_ok_meaning sites :
  refuted_or_ok sites = true ->
  (all_pairs_ok sites = true /\
   forall progs, Forall (fun p => conformsb sites [] p = true) progs ->
     forall sched s, run (init progs) sched = Some s -> ~ race s) \/
  (all_pairs_ok sites = false /\
   exists progs sched s, Forall (fun p => conformsb sites [] p = true) progs /\ run (init progs) sched = Some s /\ race s).
Proof.
  unfold refuted_or_ok. destruct (find_bad_pair sites) as [(a, b)|] eqn:E.
  - intros H. right. split; [|apply (check_witness_sound sites a b H)].
    destruct (find_bad_pair_some _ _ E) as (Ia & Ib & Bad). cbn in *.
    destruct (all_pairs_ok sites) eqn:Ok; [|reflexivity].
    unfold all_pairs_ok in Ok. rewrite forallb_forall in Ok. specialize (Ok a Ia). rewrite forallb_forall in Ok.
    rewrite (Ok b Ib) in Bad. discriminate.
  - intros _. left. pose proof (find_bad_pair_none _ E) as Ok. split; [exact Ok|].
    intros progs F. apply (lockset_sound sites progs Ok F).
Qed.
