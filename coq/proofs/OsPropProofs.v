From Coq Require Import List.
Require Import RV.model.OsProp.
Import ListNotations.

Lemma supplied_get_os : forall o v c, supplied o v c -> get_os v c = o.
Proof. intros o v c [->|[-> ->]]; reflexivity. Qed.

Lemma ctx_after : forall o d, host_supplies o d -> snd (ectx_of d) = Some o.
Proof.
  intros o d. induction d as [v c | d IH c' | d IH c' | d IH | d IH | d IH | d IH]; simpl; intro H.
  - unfold init_context. rewrite (supplied_get_os o v c H). reflexivity.
  - destruct H as [_ H]. unfold init_context. rewrite (supplied_get_os _ _ _ H). reflexivity.
  - destruct H as [_ H]. unfold init_context. rewrite (supplied_get_os _ _ _ H). reflexivity.
  - unfold init_context. rewrite (IH H). reflexivity.
  - unfold init_context. rewrite (IH H). reflexivity.
  - exact (IH H).
  - exact (IH H).
Qed.

(* Every execution context derived from a root for which the host supplied o serves builtins with o. *)
Theorem propagates : forall o d, host_supplies o d -> effective_os d = o.
Proof. intros o d H. unfold effective_os. rewrite (ctx_after o d H). reflexivity. Qed.

(* The VM's own OS field is never changed by a derivation step (Clone copies it). *)
Lemma vm_os_constant : forall d, fst (ectx_of d) =
  (fix root d := match d with Top v _ => v | HostCall d _ | HostClone d _ | Spawn d | CloneSync d | Import d | CallFn d => root d end) d.
Proof. induction d; simpl; auto. Qed.

(* Script-level steps never change the OS: only the host can, by passing a different context. *)
Lemma script_steps_keep_os : forall d,
  effective_os (Spawn d) = effective_os d /\ effective_os (CloneSync d) = effective_os d /\
  effective_os (Import d) = effective_os d /\ effective_os (CallFn d) = effective_os d.
Proof.
  intro d. unfold effective_os. simpl. unfold init_context, get_os, builtin_os.
  assert (H : exists x, snd (ectx_of d) = Some x).
  { induction d; simpl; unfold init_context; eauto. }
  destruct H as [x ->]. repeat split; reflexivity.
Qed.
