From Coq Require Import List.
Require Import RV.model.OsProp.
Import ListNotations.

Lemma supplied_get_os : forall o v c, supplied o v c -> get_os v c = o.
Proof. intros o v c [->|[-> ->]]; reflexivity. Qed.

Lemma ctx_after : forall o d, host_supplies o d -> snd (ectx_of d) = Some o.
Proof.
  intros o d. induction d as [v c | d IH c' | d IH c' | d IH | d IH | d IH | d IH | d IH l v]; simpl; intro H.
  - unfold init_context. rewrite (supplied_get_os o v c H). reflexivity.
  - destruct H as [_ H]. unfold init_context. rewrite (supplied_get_os _ _ _ H). reflexivity.
  - destruct H as [_ H]. unfold init_context. rewrite (supplied_get_os _ _ _ H). reflexivity.
  - unfold init_context. rewrite (IH H). reflexivity.
  - unfold init_context. rewrite (IH H). reflexivity.
  - exact (IH H).
  - exact (IH H).
  - destruct l as [o'|]; simpl in *.
    + subst o'. reflexivity.
    + rewrite (IH H). reflexivity.
Qed.

(* Layering: the OS placed last on a context is the one it carries, whatever was there before. *)
Lemma with_os_replaces : forall c o, with_os c o = Some o.
Proof. reflexivity. Qed.

Lemma layers_last_wins : forall ls o, ctx_of_layers (ls ++ [o]) = Some o.
Proof. intros ls o. unfold ctx_of_layers. rewrite fold_left_app. reflexivity. Qed.

(* A nested evaluation whose context the host layered with o is served by o: whatever the outer evaluation ran under
   and whatever WithOS option the nested one got. *)
Lemma nested_layer_wins : forall d o v, effective_os (Nest d (Some o) v) = o.
Proof. reflexivity. Qed.

(* Every execution context derived from a root for which the host supplied o serves builtins with o. *)
Theorem propagates : forall o d, host_supplies o d -> effective_os d = o.
Proof. intros o d H. unfold effective_os. rewrite (ctx_after o d H). reflexivity. Qed.

(* The VM's own OS field is never changed by a derivation step (Clone copies it). *)
Lemma vm_os_constant : forall d, fst (ectx_of d) =
  (fix root d := match d with Top v _ => v | Nest _ _ v => v
                 | HostCall d _ | HostClone d _ | Spawn d | CloneSync d | Import d | CallFn d => root d end) d.
Proof. induction d; simpl; auto. Qed.

(* Script-level steps never change the OS: only the host can, by passing a different context. *)
Lemma script_steps_keep_os : forall d,
  effective_os (Spawn d) = effective_os d /\ effective_os (CloneSync d) = effective_os d /\
  effective_os (Import d) = effective_os d /\ effective_os (CallFn d) = effective_os d.
Proof.
  intro d. unfold effective_os. simpl. unfold init_context, get_os, builtin_os.
  assert (H : exists x, snd (ectx_of d) = Some x).
  { induction d; simpl; unfold init_context; eauto. }
  destruct H as [x ->]. repeat split; reflexivity.
Qed.
