(* Proofs about model/VmRun.v: stack/frame restoration, halt-flag invariant, independence of runs. *)
From Coq Require Import List Bool Arith ZArith Lia.
Require Import RV.model.VmRun.
Import ListNotations.

Arguments MaxStack : simpl never.
Arguments MaxFrames : simpl never.
Arguments polled : simpl never.
Arguments halt_res : simpl never.

Ltac inv H := inversion H; subst; clear H.

(* ------------------------------------------------------------------ small facts *)
Lemma MaxStack_val : MaxStack = 1024. Proof. reflexivity. Qed.
Lemma MaxFrames_val : MaxFrames = 1024. Proof. reflexivity. Qed.

Lemma sH_setH s h : sH (setH s h) = h. Proof. reflexivity. Qed.
Lemma sFP_setH s h : sFP (setH s h) = sFP s. Proof. reflexivity. Qed.
Lemma sE_setH s h : sE (setH s h) = sE s. Proof. reflexivity. Qed.

(* properties of one evaluation are proved for a fixed configuration with the push repair *)
Section EvalFacts.
  Variable cfg : config.
  Hypothesis Hguard : push_guard cfg = true.
  Variable hc : option nat.
  Variable cx : nat.

  Notation ev := (eval cfg hc cx).

  Lemma push_val_RV z s z' s' :
    push_val cfg z s = (RV z', s') -> z' = z /\ s' = setH s (S (sH s)) /\ sH s < MaxStack.
  Proof.
    unfold push_val. destruct (sH s <? MaxStack) eqn:E; intros X; inv X.
    apply Nat.ltb_lt in E. auto.
  Qed.

  Lemma push_val_cases z s :
    (sH s < MaxStack /\ push_val cfg z s = (RV z, setH s (S (sH s)))) \/
    (MaxStack <= sH s /\ push_val cfg z s = (RP EStack, s)).
  Proof.
    unfold push_val. rewrite Hguard. destruct (sH s <? MaxStack) eqn:E.
    - apply Nat.ltb_lt in E. left; auto.
    - apply Nat.ltb_ge in E. right; auto.
  Qed.

  Lemma pop1_some s : 0 < sH s -> sH s <= MaxStack -> pop1 s = Some (setH s (pred (sH s))).
  Proof.
    intros A B. unfold pop1.
    destruct (sH s =? 0) eqn:E1; [apply Nat.eqb_eq in E1; lia|].
    destruct (MaxStack <? sH s) eqn:E2; [apply Nat.ltb_lt in E2; lia|]. reflexivity.
  Qed.

  Lemma spin_shape gs s r s' :
    spin hc cx gs s = (r, s') ->
    sH s' = sH s /\ sFP s' = sFP s /\ (forall z, r <> RV z) /\ (forall x, r <> RP x).
  Proof.
    revert s. induction gs as [|xs gs IH]; intros s; cbn.
    - destruct (polled hc s); intros X; inv X; cbn; repeat split; try congruence;
        unfold halt_res; destruct (is_cancelled _ _); congruence.
    - destruct (polled hc s).
      + intros X; inv X; cbn; repeat split; try congruence;
          unfold halt_res; destruct (is_cancelled _ _); congruence.
      + intros X. apply IH in X. cbn in X. exact X.
  Qed.

  (* what one evaluation does to the stack height and the frame pointer *)
  Definition good (s : st) (r : res) (s' : st) : Prop :=
    sH s' <= MaxStack /\
    (r <> RDiverge -> sFP s' = sFP s) /\
    sH s <= sH s' /\
    (forall z, r = RV z -> sH s' = S (sH s)).

  Lemma resume_ok bh bf s :
    sH s <= MaxStack -> bh <= sH s ->
    fst (resume bh bf s) = false /\
    sFP (snd (resume bh bf s)) = bf /\
    bh <= sH (snd (resume bh bf s)) /\ sH (snd (resume bh bf s)) <= S bh /\
    sH (snd (resume bh bf s)) <= sH s.
  Proof.
    intros A B. unfold resume.
    destruct (bh <? sH s) eqn:E1.
    - apply Nat.ltb_lt in E1.
      destruct (MaxStack <? sH s) eqn:E2; [apply Nat.ltb_lt in E2; lia|].
      cbn. repeat split; lia.
    - apply Nat.ltb_ge in E1. cbn. repeat split; lia.
  Qed.

  Lemma halt_res_shape s : (forall z, halt_res cx s <> RV z) /\ (forall x, halt_res cx s <> RP x) /\ halt_res cx s <> RDiverge.
  Proof. unfold halt_res; destruct (is_cancelled _ _); repeat split; congruence. Qed.

  Lemma good_refl s r : sH s <= MaxStack -> (forall z, r <> RV z) -> good s r s.
  Proof. intros A B. repeat split; auto. intros z X. exfalso. eapply B; eauto. Qed.

  Lemma good_push z s0 s :
    sH s <= MaxStack -> sFP s = sFP s0 -> sH s = sH s0 ->
    good s0 (fst (push_val cfg z s)) (snd (push_val cfg z s)).
  Proof.
    intros A F Hh. destruct (push_val_cases z s) as [[L E]|[L E]]; rewrite E; cbn;
      (split; [|split; [|split]]); cbn; try lia; auto; try (intros; lia); intros; discriminate.
  Qed.

  Ltac fin :=
    repeat match goal with C : ?r <> RDiverge -> _ |- _ =>
             first [ specialize (C ltac:(discriminate)) | clear C ] end;
    repeat match goal with |- _ /\ _ => split end; cbn in *;
    try lia; try congruence; try (intros; discriminate); try (intros; lia); auto;
    try (intros; exfalso; congruence);
    try (intros; match goal with
                 | X : halt_res _ _ = RV _ |- _ => exfalso; eapply (proj1 (halt_res_shape _)); eauto
                 | X : halt_res _ _ = RDiverge |- _ => exfalso; eapply (proj2 (proj2 (halt_res_shape _))); eauto
                 end).

  Lemma call_fn_good (body : st -> res * st) s :
    sH s <= MaxStack ->
    (forall s1, sH s1 <= MaxStack -> good s1 (fst (body s1)) (snd (body s1))) ->
    let r := fst (call_fn hc cx body s) in
    let s' := snd (call_fn hc cx body s) in
    sH s' <= MaxStack /\ (r <> RDiverge -> sFP s' = sFP s) /\ sH s <= sH s' /\
    (forall z, r = RV z -> sH s' = sH s) /\ (r <> RDiverge -> sH s' <= S (sH s)).
  Proof.
    intros A IH. unfold call_fn.
    destruct (MaxFrames <=? S (sFP s)) eqn:EF.
    - pose proof (resume_ok (sH s) (sFP s) (setHF s (sH s) (S (sFP s))) A (le_n _)) as R.
      destruct (resume (sH s) (sFP s) (setHF s (sH s) (S (sFP s)))) as [p s2]. cbn in R. cbn.
      destruct R as (_ & R2 & R3 & R4 & R5). fin.
    - specialize (IH (setHF s (sH s) (S (sFP s))) A).
      destruct (body (setHF s (sH s) (S (sFP s)))) as [r s1]. cbn in IH.
      destruct IH as (I1 & I2 & I3 & I4). cbn in I3.
      pose proof (resume_ok (sH s) (sFP s) s1 I1 I3) as R.
      destruct (resume (sH s) (sFP s) s1) as [p s2]. cbn in R.
      destruct R as (Rp & R2 & R3 & R4 & R5). subst p.
      destruct r; cbn.
      + destruct (polled hc s1); cbn; fin.
      + fin.
      + fin.
      + fin.
      + fin.
  Qed.

  Lemma eval_good e : forall s, sH s <= MaxStack -> good s (fst (ev e s)) (snd (ev e s)).
  Proof.
    induction e; intros s A; cbn [eval]; unfold poll_then.
    - (* Lit *) destruct (polled hc s); cbn.
      + apply good_refl; auto. apply halt_res_shape.
      + apply good_push; auto.
    - destruct (polled hc s); cbn.
      + apply good_refl; auto. apply halt_res_shape.
      + apply good_push; auto.
    - destruct (polled hc s); cbn.
      + apply good_refl; auto. apply halt_res_shape.
      + apply (good_push z s (setG s (sG s + z)%Z)); auto.
    - (* Bin *)
      specialize (IHe1 s A). destruct (ev e1 s) as [r1 s1]. cbn in IHe1.
      destruct IHe1 as (B1 & B2 & B3 & B4).
      destruct r1; try (unfold good; fin; fail).
      specialize (B4 _ eq_refl). specialize (B2 ltac:(discriminate)).
      specialize (IHe2 s1 B1). destruct (ev e2 s1) as [r2 s2]. cbn in IHe2.
      destruct IHe2 as (C1 & C2 & C3 & C4).
      destruct r2; try (unfold good; fin; fail).
      specialize (C4 _ eq_refl). specialize (C2 ltac:(discriminate)).
      destruct (polled hc s2); cbn.
      + unfold good; fin.
      + rewrite (pop1_some s2) by lia. cbn.
        rewrite (pop1_some (setH s2 (pred (sH s2)))) by (cbn; lia). cbn.
        match goal with |- good _ (fst (push_val _ ?z ?t)) _ => apply (good_push z s t) end; cbn; try lia; congruence.
    - (* Seq *)
      specialize (IHe1 s A). destruct (ev e1 s) as [r1 s1]. cbn in IHe1.
      destruct IHe1 as (B1 & B2 & B3 & B4).
      destruct r1; try (unfold good; fin; fail).
      specialize (B4 _ eq_refl). specialize (B2 ltac:(discriminate)).
      destruct (polled hc s1); cbn.
      + unfold good; fin.
      + rewrite (pop1_some s1) by lia.
        specialize (IHe2 (setH s1 (pred (sH s1))) ltac:(cbn; lia)).
        destruct (ev e2 (setH s1 (pred (sH s1)))) as [r2 s2]. cbn [fst snd] in IHe2.
        destruct IHe2 as (C1 & C2 & C3 & C4). rewrite sH_setH in C3, C4. rewrite sFP_setH in C2.
        unfold good. cbn [fst snd]. split; [|split; [|split]].
        * lia.
        * intros X. rewrite C2; auto.
        * lia.
        * intros z1 X. rewrite (C4 _ X). lia.
    - (* ListN *)
      destruct (polled hc s); cbn.
      + apply good_refl; auto. apply halt_res_shape.
      + destruct (sH s + n <=? MaxStack) eqn:E.
        * apply Nat.leb_le in E.
          specialize (IHe (setH s (sH s + n)) ltac:(cbn; lia)).
          destruct (ev e (setH s (sH s + n))) as [r1 s1]. cbn in IHe.
          destruct IHe as (B1 & B2 & B3 & B4). rewrite ?sH_setH, ?sFP_setH in *.
          destruct r1; try (unfold good; fin; fail).
          specialize (B4 _ eq_refl). specialize (B2 ltac:(discriminate)).
          destruct (polled hc s1); cbn.
          -- unfold good; fin.
          -- match goal with |- good _ (fst (push_val _ ?z ?t)) _ => apply (good_push z s t) end; cbn; try lia; congruence.
        * apply Nat.leb_gt in E. rewrite Hguard. unfold good; fin.
    - (* CallE *)
      destruct (polled hc s); cbn.
      + apply good_refl; auto. apply halt_res_shape.
      + pose proof (call_fn_good (ev e) s A IHe) as C. cbn in C.
        destruct (call_fn hc cx (ev e) s) as [r s1]. cbn in C.
        destruct C as (C1 & C2 & C3 & C4 & C5).
        destruct r; try (unfold good; fin; fail).
        specialize (C4 _ eq_refl). specialize (C2 ltac:(discriminate)).
        match goal with |- good _ (fst (push_val _ ?z ?t)) _ => apply (good_push z s t) end; cbn; try lia; congruence.
    - destruct (polled hc s); cbn; apply good_refl; auto; try apply halt_res_shape. intros; discriminate.
    - destruct (polled hc s); cbn; apply good_refl; auto; try apply halt_res_shape. intros; discriminate.
    - (* Gate *)
      destruct (polled hc s); cbn.
      + apply good_refl; auto. apply halt_res_shape.
      + assert (T : sH (take_gate s) = sH s /\ sFP (take_gate s) = sFP s)
          by (unfold take_gate; destruct (sGates s); split; reflexivity).
        destruct T as [T1 T2]. apply (good_push 0%Z s (take_gate s)); auto. lia.
    - (* Spin *)
      destruct (spin hc cx (sGates s) s) as [r s'] eqn:E. apply spin_shape in E.
      destruct E as (E1 & E2 & E3 & E4). unfold good. cbn. split; [|split; [|split]]; try lia; auto.
      intros z X. exfalso; eapply E3; eauto.
  Qed.

  (* ---------------------------------------------------------------- less room, same run *)
  (* s1 is s2 with b more operands below: everything else equal *)
  Definition rel (b : nat) (s1 s2 : st) : Prop :=
    sG s1 = sG s2 /\ sE s1 = sE s2 /\ sFP s1 = sFP s2 /\ sGates s1 = sGates s2 /\ sH s1 = sH s2 + b.

  Lemma polled_rel b s1 s2 : rel b s1 s2 -> polled hc s1 = polled hc s2.
  Proof. intros (_ & E & _). unfold polled. rewrite E. reflexivity. Qed.
  Lemma halt_res_rel b s1 s2 : rel b s1 s2 -> halt_res cx s1 = halt_res cx s2.
  Proof. intros (_ & E & _). unfold halt_res. rewrite E. reflexivity. Qed.

  Lemma spin_rel b gs : forall s1 s2, rel b s1 s2 ->
    fst (spin hc cx gs s1) = fst (spin hc cx gs s2) /\
    rel b (snd (spin hc cx gs s1)) (snd (spin hc cx gs s2)).
  Proof.
    induction gs as [|xs gs IH]; intros s1 s2 R; cbn;
      rewrite (polled_rel _ _ _ R); destruct (polled hc s2); cbn.
    - rewrite (halt_res_rel _ _ _ R). split; auto. destruct R as (R1 & R2 & R3 & R4 & R5).
      repeat split; cbn; auto.
    - destruct R as (R1 & R2 & R3 & R4 & R5). repeat split; cbn; auto.
    - rewrite (halt_res_rel _ _ _ R). split; auto. destruct R as (R1 & R2 & R3 & R4 & R5).
      repeat split; cbn; auto.
    - apply IH. destruct R as (R1 & R2 & R3 & R4 & R5). repeat split; cbn; auto; try congruence.
  Qed.

  Definition shifted (b : nat) (p1 p2 : res * st) : Prop :=
    fst p1 = RP EStack \/ (fst p1 = fst p2 /\ rel b (snd p1) (snd p2)).

  Lemma push_val_shift b z s1 s2 :
    rel b s1 s2 -> shifted b (push_val cfg z s1) (push_val cfg z s2).
  Proof.
    intros R. destruct (push_val_cases z s1) as [[L E]|[L E]]; rewrite E.
    - destruct (push_val_cases z s2) as [[L2 E2]|[L2 E2]]; rewrite E2.
      + right. split; auto. destruct R as (R1 & R2 & R3 & R4 & R5). repeat split; cbn; auto; try lia.
      + destruct R as (R1 & R2 & R3 & R4 & R5). lia.
    - left. reflexivity.
  Qed.

  Lemma resume_rel b bh bf s1 s2 :
    rel b s1 s2 -> sH s1 <= MaxStack -> bh <= sH s2 ->
    fst (resume (bh + b) bf s1) = false /\ fst (resume bh bf s2) = false /\
    rel b (snd (resume (bh + b) bf s1)) (snd (resume bh bf s2)).
  Proof.
    intros (R1 & R2 & R3 & R4 & R5) A B. unfold resume.
    destruct (bh <? sH s2) eqn:E1.
    - apply Nat.ltb_lt in E1.
      assert (X : (bh + b <? sH s1) = true) by (apply Nat.ltb_lt; lia). rewrite X.
      assert (Y1 : (MaxStack <? sH s1) = false) by (apply Nat.ltb_ge; lia).
      assert (Y2 : (MaxStack <? sH s2) = false) by (apply Nat.ltb_ge; lia).
      rewrite Y1, Y2. cbn. repeat split; auto.
    - apply Nat.ltb_ge in E1.
      assert (X : (bh + b <? sH s1) = false) by (apply Nat.ltb_ge; lia). rewrite X.
      cbn. repeat split; auto.
  Qed.

  Lemma call_fn_shift b (body : st -> res * st) s1 s2 :
    rel b s1 s2 -> sH s1 <= MaxStack ->
    (forall t, sH t <= MaxStack -> good t (fst (body t)) (snd (body t))) ->
    (forall t1 t2, rel b t1 t2 -> sH t1 <= MaxStack -> shifted b (body t1) (body t2)) ->
    shifted b (call_fn hc cx body s1) (call_fn hc cx body s2).
  Proof.
    intros R A G IH. pose proof R as (R1 & R2 & R3 & R4 & R5). unfold shifted. unfold call_fn. rewrite R3.
    assert (A2 : sH s2 <= MaxStack) by lia.
    destruct (MaxFrames <=? S (sFP s2)) eqn:EF.
    - assert (Q : rel b (setHF s1 (sH s1) (S (sFP s2))) (setHF s2 (sH s2) (S (sFP s2))))
        by (repeat split; cbn; auto).
      pose proof (resume_rel b (sH s2) (sFP s2) _ _ Q A (le_n _)) as Z. rewrite <- R5 in Z.
      destruct (resume (sH s1) (sFP s2) (setHF s1 (sH s1) (S (sFP s2)))) as [p1 t1].
      destruct (resume (sH s2) (sFP s2) (setHF s2 (sH s2) (S (sFP s2)))) as [p2 t2].
      cbn in Z. destruct Z as (Z1 & Z2 & Z3). subst. right. split; auto.
    - assert (Q : rel b (setHF s1 (sH s1) (S (sFP s2))) (setHF s2 (sH s2) (S (sFP s2))))
        by (repeat split; cbn; auto).
      pose proof (IH _ _ Q A) as SS. unfold shifted in SS.
      pose proof (G (setHF s1 (sH s1) (S (sFP s2))) A) as G1.
      pose proof (G (setHF s2 (sH s2) (S (sFP s2))) A2) as G2.
      destruct (body (setHF s1 (sH s1) (S (sFP s2)))) as [r1 t1].
      destruct (body (setHF s2 (sH s2) (S (sFP s2)))) as [r2 t2].
      cbn [fst snd] in *. destruct G1 as (G11 & G12 & G13 & G14). destruct G2 as (G21 & G22 & G23 & G24).
      cbn in G13, G23.
      destruct SS as [SS|[S1 S2]].
      + (* the run with less room ran out of stack inside the callee: still a stack panic after the unwinding *)
        subst r1. pose proof (resume_ok (sH s1) (sFP s2) t1 G11 G13) as Z.
        destruct (resume (sH s1) (sFP s2) t1) as [p u]. cbn in Z. destruct Z as (Z1 & _). subst p. left. reflexivity.
      + subst r2.
        pose proof (resume_rel b (sH s2) (sFP s2) _ _ S2 G11 G23) as Z. rewrite <- R5 in Z.
        destruct (resume (sH s1) (sFP s2) t1) as [p1 u1].
        destruct (resume (sH s2) (sFP s2) t2) as [p2 u2].
        cbn in Z. destruct Z as (Z1 & Z2 & Z3). subst p1 p2.
        rewrite (polled_rel _ _ _ S2), (halt_res_rel _ _ _ S2).
        destruct r1; cbn.
        * destruct (polled hc t2); cbn.
          -- right. split; auto.
          -- right. split; auto. destruct S2 as (Q1 & Q2 & Q3 & Q4 & Q5). repeat split; cbn; auto.
        * right. split; auto.
        * right. split; auto.
        * right. split; auto.
        * right. split; auto.
  Qed.

  Lemma eval_shift b e : forall s1 s2, rel b s1 s2 -> sH s1 <= MaxStack -> shifted b (ev e s1) (ev e s2).
  Proof.
    unfold shifted. induction e; intros s1 s2 R A; cbn [eval]; unfold poll_then.
    - rewrite (polled_rel _ _ _ R), (halt_res_rel _ _ _ R). destruct (polled hc s2).
      + right; split; auto. + apply push_val_shift; auto.
    - rewrite (polled_rel _ _ _ R), (halt_res_rel _ _ _ R). destruct (polled hc s2).
      + right; split; auto.
      + replace (sG s1) with (sG s2) by (symmetry; apply R). apply push_val_shift; auto.
    - rewrite (polled_rel _ _ _ R), (halt_res_rel _ _ _ R). destruct (polled hc s2).
      + right; split; auto.
      + apply push_val_shift. destruct R as (R1 & R2 & R3 & R4 & R5). repeat split; cbn; auto; try congruence.
    - (* Bin *)
      pose proof (IHe1 _ _ R A) as S1.
      pose proof (eval_good e1 s1 A) as G1.
      pose proof (eval_good e1 s2 ltac:(destruct R as (_&_&_&_&R5); lia)) as G2.
      destruct (ev e1 s1) as [r1 t1]. destruct (ev e1 s2) as [r2 t2]. cbn [fst snd] in *.
      destruct S1 as [S1|[S1 S1']]; [subst; left; reflexivity|]. subst r2.
      destruct r1; try (right; split; auto; fail).
      destruct G1 as (G11 & G12 & G13 & G14). destruct G2 as (G21 & G22 & G23 & G24).
      specialize (G14 _ eq_refl). specialize (G24 _ eq_refl).
      pose proof (IHe2 _ _ S1' G11) as S2.
      pose proof (eval_good e2 t1 G11) as H1.
      pose proof (eval_good e2 t2 G21) as H2.
      destruct (ev e2 t1) as [q1 u1]. destruct (ev e2 t2) as [q2 u2]. cbn [fst snd] in *.
      destruct S2 as [S2|[S2 S2']]; [subst; left; reflexivity|]. subst q2.
      destruct q1; try (right; split; auto; fail).
      destruct H1 as (H11 & H12 & H13 & H14). destruct H2 as (H21 & H22 & H23 & H24).
      specialize (H14 _ eq_refl). specialize (H24 _ eq_refl).
      rewrite (polled_rel _ _ _ S2'), (halt_res_rel _ _ _ S2'). destruct (polled hc u2).
      + right; split; auto.
      + rewrite (pop1_some u1) by lia. rewrite (pop1_some u2) by lia.
        rewrite (pop1_some (setH u1 _)) by (cbn; lia). rewrite (pop1_some (setH u2 _)) by (cbn; lia).
        apply push_val_shift. destruct S2' as (Q1 & Q2 & Q3 & Q4 & Q5). repeat split; cbn; auto; try lia.
    - (* Seq *)
      pose proof (IHe1 _ _ R A) as S1.
      pose proof (eval_good e1 s1 A) as G1.
      pose proof (eval_good e1 s2 ltac:(destruct R as (_&_&_&_&R5); lia)) as G2.
      destruct (ev e1 s1) as [r1 t1]. destruct (ev e1 s2) as [r2 t2]. cbn [fst snd] in *.
      destruct S1 as [S1|[S1 S1']]; [subst; left; reflexivity|]. subst r2.
      destruct r1; try (right; split; auto; fail).
      destruct G1 as (G11 & G12 & G13 & G14). destruct G2 as (G21 & G22 & G23 & G24).
      specialize (G14 _ eq_refl). specialize (G24 _ eq_refl).
      rewrite (polled_rel _ _ _ S1'), (halt_res_rel _ _ _ S1'). destruct (polled hc t2).
      + right; split; auto.
      + rewrite (pop1_some t1) by lia. rewrite (pop1_some t2) by lia.
        apply IHe2; [|cbn; lia].
        destruct S1' as (Q1 & Q2 & Q3 & Q4 & Q5). repeat split; cbn; auto; try lia.
    - (* ListN *)
      rewrite (polled_rel _ _ _ R), (halt_res_rel _ _ _ R). destruct (polled hc s2).
      + right; split; auto.
      + pose proof R as (R1 & R2 & R3 & R4 & R5).
        destruct (sH s1 + n <=? MaxStack) eqn:E1.
        * apply Nat.leb_le in E1.
          assert (E2 : (sH s2 + n <=? MaxStack) = true) by (apply Nat.leb_le; lia). rewrite E2.
          assert (Q : rel b (setH s1 (sH s1 + n)) (setH s2 (sH s2 + n))) by (repeat split; cbn; auto; lia).
          pose proof (IHe _ _ Q ltac:(cbn; lia)) as S1.
          pose proof (eval_good e (setH s1 (sH s1 + n)) ltac:(cbn; lia)) as G1.
          pose proof (eval_good e (setH s2 (sH s2 + n)) ltac:(cbn; lia)) as G2.
          destruct (ev e (setH s1 (sH s1 + n))) as [r1 t1]. destruct (ev e (setH s2 (sH s2 + n))) as [r2 t2].
          cbn [fst snd] in *.
          destruct S1 as [S1|[S1 S1']]; [subst; left; reflexivity|]. subst r2.
          destruct r1; try (right; split; auto; fail).
          destruct G1 as (G11 & G12 & G13 & G14). destruct G2 as (G21 & G22 & G23 & G24).
          specialize (G14 _ eq_refl). specialize (G24 _ eq_refl). rewrite sH_setH in *.
          rewrite (polled_rel _ _ _ S1'), (halt_res_rel _ _ _ S1'). destruct (polled hc t2).
          -- right; split; auto.
          -- apply push_val_shift. destruct S1' as (Q1 & Q2 & Q3 & Q4 & Q5). repeat split; cbn; auto; try lia.
        * left. reflexivity.
    - (* CallE *)
      rewrite (polled_rel _ _ _ R), (halt_res_rel _ _ _ R). destruct (polled hc s2).
      + right; split; auto.
      + pose proof (call_fn_shift b (ev e) s1 s2 R A (eval_good e) IHe) as SS. unfold shifted in SS.
        destruct (call_fn hc cx (ev e) s1) as [r1 t1]. destruct (call_fn hc cx (ev e) s2) as [r2 t2].
        cbn [fst snd] in *.
        destruct SS as [SS|[SS SS']]; [subst; left; reflexivity|]. subst r2.
        destruct r1; try (right; split; auto; fail).
        apply push_val_shift; auto.
    - rewrite (polled_rel _ _ _ R), (halt_res_rel _ _ _ R). destruct (polled hc s2); right; split; auto.
    - rewrite (polled_rel _ _ _ R), (halt_res_rel _ _ _ R). destruct (polled hc s2); right; split; auto.
    - (* Gate *)
      rewrite (polled_rel _ _ _ R), (halt_res_rel _ _ _ R). destruct (polled hc s2).
      + right; split; auto.
      + apply push_val_shift. destruct R as (R1 & R2 & R3 & R4 & R5). unfold take_gate. rewrite R4.
        destruct (sGates s2) eqn:EG; repeat split; cbn; auto; try congruence.
    - (* Spin *)
      right. replace (sGates s1) with (sGates s2) by (symmetry; apply R). apply spin_rel; auto.
  Qed.
End EvalFacts.

(* ------------------------------------------------------------------ the halt-flag invariant *)
Lemma mem_cons n m l : mem n (m :: l) = Nat.eqb n m || mem n l.
Proof. reflexivity. Qed.

(* every watcher points to an allocated cell; a cell holds 1 only because a watcher whose context is
   cancelled stored it *)
Definition env_ok (e : env) : Prop :=
  (forall w c k, nth_error (watchers e) w = Some (c, k) -> k < ncells e) /\
  (forall k, cell_set e k = true ->
     exists w c, nth_error (watchers e) w = Some (c, k) /\ is_cancelled e c = true).

(* during a run that polls cell k0 under context cx: only watchers of cx point to k0 *)
Definition run_ok (k0 cx : nat) (e : env) : Prop :=
  env_ok e /\ (forall w c, nth_error (watchers e) w = Some (c, k0) -> c = cx).

Lemma env_ok_0 : env_ok env0.
Proof.
  split.
  - intros w c k X. destruct w; discriminate.
  - intros k X. discriminate.
Qed.

Lemma do_ev_watchers x e : watchers (do_ev x e) = watchers e.
Proof.
  destruct x as [c|w|]; cbn; auto. unfold do_fire.
  destruct (nth_error (watchers e) w) as [[c k]|]; auto.
  destruct (is_cancelled e c && negb (mem w (fired e))); auto.
Qed.
Lemma do_ev_ncells x e : ncells (do_ev x e) = ncells e.
Proof.
  destruct x as [c|w|]; cbn; auto. unfold do_fire.
  destruct (nth_error (watchers e) w) as [[c k]|]; auto.
  destruct (is_cancelled e c && negb (mem w (fired e))); auto.
Qed.
Lemma do_ev_cancel_mono x e c : is_cancelled e c = true -> is_cancelled (do_ev x e) c = true.
Proof.
  intros A. destruct x as [c0|w|]; cbn.
  - unfold is_cancelled, mem in *. cbn. rewrite A. apply orb_true_r.
  - unfold do_fire. destruct (nth_error (watchers e) w) as [[c' k]|]; auto.
    destruct (is_cancelled e c' && negb (mem w (fired e))); auto.
  - auto.
Qed.

Lemma do_ev_ok x e : env_ok e -> env_ok (do_ev x e).
Proof.
  intros [A B]. split.
  - intros w c k X. rewrite do_ev_watchers in X. rewrite do_ev_ncells. eauto.
  - intros k X. destruct x as [c0|w0|]; [| |apply B; exact X].
    + cbn in *. unfold cell_set in *. cbn in X. destruct (B k X) as (w & c & W & C).
      exists w, c. split; auto. apply (do_ev_cancel_mono (Cancel c0)); auto.
    + cbn in *. unfold do_fire in *.
      destruct (nth_error (watchers e) w0) as [[c' k']|] eqn:EW; [|apply B; auto].
      destruct (is_cancelled e c' && negb (mem w0 (fired e))) eqn:EC; [|apply B; auto].
      unfold cell_set in X. cbn [setcells] in X. rewrite mem_cons in X. apply orb_true_iff in X. destruct X as [X|X].
      * apply Nat.eqb_eq in X. subst k'. exists w0, c'. cbn. split; auto.
        apply andb_true_iff in EC. apply EC.
      * destruct (B k X) as (w & c & W & C). exists w, c. cbn. split; auto.
Qed.

Lemma do_ev_run_ok k0 cx x e : run_ok k0 cx e -> run_ok k0 cx (do_ev x e).
Proof.
  intros [A B]. split. apply do_ev_ok; auto. intros w c X. rewrite do_ev_watchers in X. eauto.
Qed.
Lemma do_evs_run_ok k0 cx xs : forall e, run_ok k0 cx e -> run_ok k0 cx (do_evs xs e).
Proof.
  unfold do_evs. induction xs as [|x xs IH]; intros e A; cbn; auto. apply IH. apply do_ev_run_ok; auto.
Qed.
Lemma do_evs_ok xs : forall e, env_ok e -> env_ok (do_evs xs e).
Proof.
  unfold do_evs. induction xs as [|x xs IH]; intros e A; cbn; auto. apply IH. apply do_ev_ok; auto.
Qed.

Lemma polled_own k0 cx s : run_ok k0 cx (sE s) -> polled (Some k0) s = true -> halt_res cx s = RE ECtx.
Proof.
  intros [[A B] C] P. unfold polled in P. destruct (B _ P) as (w & c & W & X).
  apply C in W. subst c. unfold halt_res. rewrite X. reflexivity.
Qed.

Section NoSilent.
  Variable cfg : config.
  Variable k0 cx : nat.
  Notation ev := (eval cfg (Some k0) cx).

  Definition nsil (p : res * st) : Prop := fst p <> RHaltNil /\ run_ok k0 cx (sE (snd p)).

  Lemma nsil_push z s : run_ok k0 cx (sE s) -> nsil (push_val cfg z s).
  Proof.
    intros A. unfold push_val. destruct (sH s <? MaxStack); split; cbn; try discriminate; auto.
    destruct (push_guard cfg); auto.
  Qed.

  Lemma nsil_halt s : run_ok k0 cx (sE s) -> polled (Some k0) s = true -> nsil (halt_res cx s, s).
  Proof. intros A P. split; cbn; auto. rewrite (polled_own _ _ _ A P). discriminate. Qed.

  Lemma spin_nsil gs : forall s, run_ok k0 cx (sE s) -> nsil (spin (Some k0) cx gs s).
  Proof.
    induction gs as [|xs gs IH]; intros s A; cbn [spin].
    - destruct (polled (Some k0) s) eqn:P.
      + split; cbn; auto. rewrite (polled_own _ _ _ A P). discriminate.
      + split; cbn; auto. discriminate.
    - destruct (polled (Some k0) s) eqn:P.
      + split; cbn; auto. rewrite (polled_own _ _ _ A P). discriminate.
      + apply IH. cbn. apply do_evs_run_ok; auto.
  Qed.

  Lemma resume_E bh bf s : sE (snd (resume bh bf s)) = sE s.
  Proof. unfold resume. destruct (bh <? sH s); [destruct (MaxStack <? sH s)|]; reflexivity. Qed.

  Lemma call_fn_nsil (body : st -> res * st) s :
    run_ok k0 cx (sE s) ->
    (forall t, run_ok k0 cx (sE t) -> nsil (body t)) ->
    nsil (call_fn (Some k0) cx body s).
  Proof.
    intros A IH. unfold call_fn.
    destruct (MaxFrames <=? S (sFP s)).
    - pose proof (resume_E (sH s) (sFP s) (setHF s (sH s) (S (sFP s)))) as RE.
      destruct (resume (sH s) (sFP s) (setHF s (sH s) (S (sFP s)))) as [p t]. cbn in *.
      split; cbn; try discriminate. rewrite RE. auto.
    - specialize (IH (setHF s (sH s) (S (sFP s))) A).
      destruct (body (setHF s (sH s) (S (sFP s)))) as [r s1]. destruct IH as [I1 I2]. cbn in I1, I2.
      pose proof (resume_E (sH s) (sFP s) s1) as RE.
      destruct (resume (sH s) (sFP s) s1) as [p s2]. cbn in RE.
      destruct r; cbn.
      + destruct (polled (Some k0) s1) eqn:P.
        * split; cbn; [|rewrite RE; auto]. rewrite (polled_own _ _ _ I2 P). destruct p; discriminate.
        * split; cbn; auto; discriminate.
      + split; cbn; [destruct p; discriminate|rewrite RE; auto].
      + split; cbn; [discriminate|rewrite RE; auto].
      + congruence.
      + split; cbn; [discriminate|auto].
  Qed.

  Lemma eval_nsil e : forall s, run_ok k0 cx (sE s) -> nsil (ev e s).
  Proof.
    induction e; intros s A; cbn [eval]; unfold poll_then.
    - destruct (polled (Some k0) s) eqn:P; [apply nsil_halt|apply nsil_push]; auto.
    - destruct (polled (Some k0) s) eqn:P; [apply nsil_halt|apply nsil_push]; auto.
    - destruct (polled (Some k0) s) eqn:P; [apply nsil_halt|apply nsil_push]; auto.
    - specialize (IHe1 s A). destruct (ev e1 s) as [r1 s1]. destruct IHe1 as [I1 I2]. cbn in I1, I2.
      destruct r1; try (split; cbn; auto; discriminate).
      specialize (IHe2 s1 I2). destruct (ev e2 s1) as [r2 s2]. destruct IHe2 as [J1 J2]. cbn in J1, J2.
      destruct r2; try (split; cbn; auto; discriminate).
      destruct (polled (Some k0) s2) eqn:P; [apply nsil_halt; auto|].
      destruct (pop1 s2) as [s3|] eqn:P1; [|split; cbn; auto; discriminate].
      assert (E3 : sE s3 = sE s2).
      { unfold pop1 in P1. destruct ((sH s2 =? 0) || (MaxStack <? sH s2)); inv P1. reflexivity. }
      destruct (pop1 s3) as [s4|] eqn:P2; [|split; cbn; [discriminate|rewrite E3; auto]].
      assert (E4 : sE s4 = sE s3).
      { unfold pop1 in P2. destruct ((sH s3 =? 0) || (MaxStack <? sH s3)); inv P2. reflexivity. }
      apply nsil_push. rewrite E4, E3. auto.
    - specialize (IHe1 s A). destruct (ev e1 s) as [r1 s1]. destruct IHe1 as [I1 I2]. cbn in I1, I2.
      destruct r1; try (split; cbn; auto; discriminate).
      destruct (polled (Some k0) s1) eqn:P; [apply nsil_halt; auto|].
      destruct (pop1 s1) as [s3|] eqn:P1; [|split; cbn; auto; discriminate].
      assert (E3 : sE s3 = sE s1).
      { unfold pop1 in P1. destruct ((sH s1 =? 0) || (MaxStack <? sH s1)); inv P1. reflexivity. }
      apply IHe2. rewrite E3. auto.
    - destruct (polled (Some k0) s) eqn:P; [apply nsil_halt; auto|].
      destruct (sH s + n <=? MaxStack); [|split; cbn; auto; discriminate].
      specialize (IHe (setH s (sH s + n)) A). destruct (ev e (setH s (sH s + n))) as [r1 s1].
      destruct IHe as [I1 I2]. cbn in I1, I2.
      destruct r1; try (split; cbn; auto; discriminate).
      destruct (polled (Some k0) s1) eqn:P'; [apply nsil_halt; auto|]. apply nsil_push. auto.
    - destruct (polled (Some k0) s) eqn:P; [apply nsil_halt; auto|].
      pose proof (call_fn_nsil (ev e) s A IHe) as C.
      destruct (call_fn (Some k0) cx (ev e) s) as [r s1]. destruct C as [C1 C2]. cbn in C1, C2.
      destruct r; try (split; cbn; auto; discriminate). apply nsil_push; auto.
    - destruct (polled (Some k0) s) eqn:P; [apply nsil_halt; auto|]. split; cbn; auto; discriminate.
    - destruct (polled (Some k0) s) eqn:P; [apply nsil_halt; auto|]. split; cbn; auto; discriminate.
    - destruct (polled (Some k0) s) eqn:P; [apply nsil_halt; auto|]. apply nsil_push.
      unfold take_gate. destruct (sGates s); cbn; auto. apply do_evs_run_ok; auto.
    - apply spin_nsil; auto.
  Qed.
End NoSilent.

(* ------------------------------------------------------------------ one invocation, code as it is *)
(* cfgd d: the halt-flag, push, Run-position and module-table repairs; d says whether start() empties the stack *)
Definition vm_ok (v : vm) : Prop :=
  running v = false /\ H v <= MaxStack /\ FP v = 0 /\ (startCount v = 0 -> H v = 0) /\ mods v = true.

Lemma vm_ok_new d e : vm_ok (fst (new_vm (cfgd d) e)).
Proof. cbn. unfold vm_ok. cbn. repeat split; auto. apply Nat.le_0_l. Qed.

Definition env1 (e : env) (c : nat) : env :=
  arm c (ncells e) (mkEnv (cancelled e) (S (ncells e)) (setcells e) (watchers e) (fired e)).

Lemma env1_run_ok e c : env_ok e -> run_ok (ncells e) c (env1 e c).
Proof.
  intros [A B]. split; [split|].
  - intros w c' k X. cbn in *. destruct (Nat.lt_ge_cases w (length (watchers e))) as [L|L].
    + rewrite nth_error_app1 in X by auto. apply A in X. lia.
    + rewrite nth_error_app2 in X by auto. destruct (w - length (watchers e)) as [|n]; cbn in X.
      * inv X. lia. * destruct n; discriminate.
  - intros k X. unfold cell_set in *. cbn in *. destruct (B k X) as (w & c' & W & C).
    exists w, c'. split; auto. rewrite nth_error_app1; auto. apply nth_error_Some. congruence.
  - intros w c' X. cbn in X. destruct (Nat.lt_ge_cases w (length (watchers e))) as [L|L].
    + rewrite nth_error_app1 in X by auto. apply A in X. lia.
    + rewrite nth_error_app2 in X by auto. destruct (w - length (watchers e)) as [|n]; cbn in X.
      * inv X. auto. * destruct n; discriminate.
Qed.

(* the state in which the code of an invocation starts, on a VM that is not running *)
Definition start_st (e : env) (g : Z) (h f : nat) (i : inv) : st :=
  mkSt g (env1 e (ictx i)) h f (igates i).

Definition body_run (d : bool) (e : env) (i : inv) (s0 : st) : res * st :=
  match iapi i with
  | ACall => call_fn (Some (ncells e)) (ictx i) (eval (cfgd d) (Some (ncells e)) (ictx i) (ibody i)) s0
  | _ => eval (cfgd d) (Some (ncells e)) (ictx i) (ibody i) s0
  end.

Definition base_h (d : bool) (v : vm) (i : inv) : nat :=
  if d then 0 else
  match iapi i with
  | ARunCode => if 1 <? S (startCount v) then 0 else H v
  | _ => H v
  end.
Definition base_f (v : vm) (i : inv) : nat := match iapi i with ACall => FP v | _ => 0 end.

Lemma run_inv_eq d e g v i :
  running v = false -> mods v = true ->
  run_inv (cfgd d) e g v i =
  let '(r, s1) := body_run d e i (start_st e g (base_h d v i) (base_f v i) i) in
  (outcome_of r, sE s1, sG s1,
   mkVm (Some (ncells e)) (match r with RDiverge => true | _ => false end) (S (startCount v)) (sH s1) (sFP s1)
        (match iapi i with ARunCode => false | _ => ipok v end) true).
Proof.
  intros R M. unfold run_inv, start. rewrite R.
  unfold body_run, start_st, base_h, base_f, env1.
  destruct d; destruct (iapi i) eqn:EA; cbn -[eval call_fn Nat.ltb]; rewrite ?orb_true_r;
    cbn -[eval call_fn Nat.ltb];
    try (destruct (1 <? S (startCount v)); cbn -[eval call_fn]);
    rewrite ?M, ?andb_false_r; cbn -[eval call_fn];
    try (match goal with |- context [eval ?a ?b ?c ?d ?s] => destruct (eval a b c d s) as [r s1] end;
         destruct r; reflexivity);
    try (match goal with |- context [call_fn ?a ?b ?c ?s] => destruct (call_fn a b c s) as [r s1] end;
         destruct r; reflexivity).
Qed.

Lemma body_run_good d e i s0 :
  sH s0 <= MaxStack ->
  let r := fst (body_run d e i s0) in let s1 := snd (body_run d e i s0) in
  sH s1 <= MaxStack /\ (r <> RDiverge -> sFP s1 = sFP s0).
Proof.
  intros A. unfold body_run. destruct (iapi i).
  - pose proof (eval_good (cfgd d) eq_refl (Some (ncells e)) (ictx i) (ibody i) s0 A) as (G1 & G2 & _). auto.
  - pose proof (eval_good (cfgd d) eq_refl (Some (ncells e)) (ictx i) (ibody i) s0 A) as (G1 & G2 & _). auto.
  - pose proof (call_fn_good (Some (ncells e)) (ictx i) _ s0 A
                  (eval_good (cfgd d) eq_refl (Some (ncells e)) (ictx i) (ibody i))) as (G1 & G2 & _). auto.
Qed.

Lemma body_run_nsil d e i s0 :
  run_ok (ncells e) (ictx i) (sE s0) -> nsil (ncells e) (ictx i) (body_run d e i s0).
Proof.
  intros A. unfold body_run. destruct (iapi i).
  - apply eval_nsil; auto. - apply eval_nsil; auto.
  - apply call_fn_nsil; auto. intros t T. apply eval_nsil; auto.
Qed.

Lemma body_run_shift d e i b s1 s2 :
  rel b s1 s2 -> sH s1 <= MaxStack ->
  shifted b (body_run d e i s1) (body_run d e i s2).
Proof.
  intros R A. unfold body_run. destruct (iapi i).
  - apply eval_shift; auto. - apply eval_shift; auto.
  - apply call_fn_shift; auto.
    + intros t T. apply eval_good; auto.
    + intros t1 t2 R' A'. apply eval_shift; auto.
Qed.

Definition fresh_of (d : bool) (e : env) (g : Z) (i : inv) : outcome :=
  let '(o0, _, _, _) := run_inv (cfgd d) e g (mkVm None false 0 0 0 true true) i in o0.
Lemma fresh_outcome_of d e g v i o : fresh_outcome (cfgd d) (mkObs e g v i o) = fresh_of d e g i.
Proof. reflexivity. Qed.

(* what one invocation on a VM in a sane state does, compared with the same invocation on a new VM *)
Lemma run_inv_cfgd d e g v i :
  vm_ok v -> env_ok e ->
  let '(o, e', g', v') := run_inv (cfgd d) e g v i in
  (o = fresh_of d e g i \/ (d = false /\ o = OErr EStack /\ iapi i <> ARunCode)) /\
  o <> OStale /\ o <> OBusy /\ o <> OWild /\ env_ok e' /\ (o <> ODiverge -> vm_ok v').
Proof.
  intros (V1 & V2 & V3 & V4 & V5) EO.
  unfold fresh_of. change (mkVm None false 0 0 0 true true) with (fst (new_vm (cfgd d) e)).
  rewrite (run_inv_eq d e g v i V1 V5). rewrite run_inv_eq by reflexivity.
  set (s_sh := start_st e g (base_h d v i) (base_f v i) i).
  set (s_fr := start_st e g (base_h d (fst (new_vm (cfgd d) e)) i) (base_f (fst (new_vm (cfgd d) e)) i) i).
  assert (Hsh : sH s_sh <= MaxStack).
  { unfold s_sh, base_h. cbn -[Nat.ltb]. destruct d; [apply Nat.le_0_l|].
    destruct (iapi i); auto. destruct (1 <? S (startCount v)); auto. apply Nat.le_0_l. }
  assert (R : rel (sH s_sh) s_sh s_fr).
  { unfold s_sh, s_fr, start_st, base_f. cbn. repeat split; auto.
    - destruct (iapi i); auto.
    - unfold base_h. destruct d; cbn -[Nat.ltb]; [reflexivity|]. destruct (iapi i); cbn -[Nat.ltb]; try reflexivity. }
  pose proof (body_run_shift d e i _ _ _ R Hsh) as SH. unfold shifted in SH.
  pose proof (body_run_good d e i s_sh Hsh) as (G1 & G2).
  pose proof (body_run_nsil d e i s_sh (env1_run_ok e (ictx i) EO)) as (N1 & N2).
  assert (Hzero : d = true \/ iapi i = ARunCode -> s_sh = s_fr).
  { intros X. unfold s_sh, s_fr, base_h, base_f. destruct d.
    - cbn. rewrite V3. destruct (iapi i); reflexivity.
    - destruct X as [X|X]; [discriminate|]. rewrite X. cbn -[Nat.ltb].
      destruct (startCount v) eqn:SC; cbn; auto. rewrite V4; auto. }
  destruct (body_run d e i s_sh) as [r s1] eqn:E1. destruct (body_run d e i s_fr) as [r0 s1'] eqn:E2.
  cbn [fst snd] in *.
  split; [|split; [|split; [|split; [|split]]]].
  - destruct d; [left; rewrite Hzero in E1 by auto; congruence|].
    destruct (iapi i) eqn:EA.
    + left. rewrite Hzero in E1 by auto. congruence.
    + destruct SH as [SH|[SH _]]; [right; subst; repeat split; [discriminate]|left; congruence].
    + destruct SH as [SH|[SH _]]; [right; subst; repeat split; [discriminate]|left; congruence].
  - destruct r; cbn; congruence.
  - destruct r; cbn; congruence.
  - destruct r; cbn; congruence.
  - apply N2.
  - intros D. assert (D' : r <> RDiverge) by (destruct r; cbn in D; congruence).
    unfold vm_ok. cbn. repeat split.
    + destruct r; congruence.
    + auto.
    + rewrite G2 by auto. unfold s_sh, base_f. cbn. destruct (iapi i); auto.
    + discriminate.
Qed.

(* ------------------------------------------------------------------ histories *)
Definition verdict (d : bool) (b : obs) : Prop :=
  o_out b = fresh_outcome (cfgd d) b \/
  (d = false /\ o_out b = OErr EStack /\ iapi (o_inv b) <> ARunCode).

Lemma exec_cfgd d h : forall e g v b,
  vm_ok v -> env_ok e -> In b (exec (cfgd d) e g v h) ->
  verdict d b /\ o_out b <> OStale /\ o_out b <> OBusy /\ o_out b <> OWild /\ vm_ok (o_vm b) /\ env_ok (o_env b).
Proof.
  induction h as [|it h IH]; intros e g v b V E I; [destruct I|].
  destruct it as [x|i]; cbn [exec] in I.
  - exact (IH (do_ev x e) g v b V (do_ev_ok x e E) I).
  - pose proof (run_inv_cfgd d e g v i V E) as P.
    destruct (run_inv (cfgd d) e g v i) as [[[o e'] g'] v'] eqn:ER.
    destruct P as (P1 & P2 & P3 & P4 & P5 & P6).
    destruct I as [I|I].
    + subst b. unfold verdict. rewrite fresh_outcome_of. cbn [o_out o_inv o_vm o_env].
      exact (conj P1 (conj P2 (conj P3 (conj P4 (conj V E))))).
    + assert (X : o <> ODiverge) by (intros ->; destruct I).
      assert (I' : In b (exec (cfgd d) e' g' v' h)) by (destruct o; auto; congruence).
      exact (IH e' g' v' b (P6 X) P5 I').
Qed.

Lemma exec0_cfgd d g h b :
  In b (exec0 (cfgd d) g h) ->
  verdict d b /\ o_out b <> OStale /\ o_out b <> OBusy /\ o_out b <> OWild /\ vm_ok (o_vm b) /\ env_ok (o_env b).
Proof.
  intros I. unfold exec0 in I. cbn [new_vm per_run_flag cfgd] in I.
  eapply exec_cfgd in I; [exact I| apply (vm_ok_new d env0) | apply env_ok_0].
Qed.

(* the code as it is: every invocation of every history of RunCode, Run and Call gives what a new VM gives *)
Theorem independent_current g h b :
  In b (exec0 cfg_current g h) -> o_out b = fresh_outcome cfg_current b.
Proof.
  intros I. destruct (exec0_cfgd true g h b I) as ([X|[X _]] & _); [exact X|discriminate].
Qed.

Theorem no_silent_halt g h b :
  In b (exec0 cfg_current g h) -> o_out b <> OStale /\ o_out b <> OBusy /\ o_out b <> OWild.
Proof. intros I. destruct (exec0_cfgd true g h b I) as (_ & A & B & C & _). auto. Qed.

(* the state every invocation starts from: not running, frame 0, stack within bounds, module table in place -
   resumeFrame / resetForNewCode / stop() have put it back, whatever happened before *)
Theorem restored_between_runs g h b : In b (exec0 cfg_current g h) -> vm_ok (o_vm b).
Proof. intros I. destruct (exec0_cfgd true g h b I) as (_ & _ & _ & _ & A & _). auto. Qed.

(* without c13bc4b (start() kept the stack): independent, or the stack is exhausted (Call / Run only) *)
Theorem independent_nodrop g h b :
  In b (exec0 cfg_nodrop g h) ->
  o_out b = fresh_outcome cfg_nodrop b \/ (o_out b = OErr EStack /\ iapi (o_inv b) <> ARunCode).
Proof.
  intros I. destruct (exec0_cfgd false g h b I) as ([X|(_ & X)] & _); auto.
Qed.

(* ------------------------------------------------------------------ events of other contexts do not matter *)
Section Foreign.
  Variable cfg : config.
  Variable k0 cx w : nat.       (* the run's cell, context and watcher *)
  Notation ev := (eval cfg (Some k0) cx).

  Definition own (x : VmRun.ev) : bool :=
    match x with Cancel c => Nat.eqb c cx | Fire v => Nat.eqb v w | Reenter => true end.

  Definition erel (e1 e2 : env) : Prop :=
    is_cancelled e1 cx = is_cancelled e2 cx /\ cell_set e1 k0 = cell_set e2 k0 /\
    mem w (fired e1) = mem w (fired e2) /\
    nth_error (watchers e1) w = Some (cx, k0) /\ nth_error (watchers e2) w = Some (cx, k0) /\
    (forall v c, nth_error (watchers e1) v = Some (c, k0) -> v = w).

  Lemma do_ev_erel x e1 e2 : erel e1 e2 -> erel (do_ev x e1) (if own x then do_ev x e2 else e2).
  Proof.
    intros (A & B & C & D & E & F). destruct x as [c|v|]; cbn [own do_ev]; [| |repeat split; auto].
    - destruct (Nat.eqb_spec c cx) as [->|NE].
      + unfold erel, do_cancel, is_cancelled, cell_set in *. cbn [cancelled setcells fired watchers].
        rewrite !mem_cons, Nat.eqb_refl. cbn [orb]. repeat split; auto.
      + unfold erel, do_cancel, is_cancelled, cell_set in *. cbn [cancelled setcells fired watchers].
        rewrite mem_cons. destruct (Nat.eqb_spec cx c); [congruence|]. cbn [orb]. repeat split; auto.
    - destruct (Nat.eqb_spec v w) as [->|NE].
      + unfold do_fire. rewrite D, E. rewrite A, C.
        destruct (is_cancelled e2 cx && negb (mem w (fired e2))).
        * unfold erel, is_cancelled, cell_set in *. cbn [cancelled setcells fired watchers].
          rewrite !mem_cons, !Nat.eqb_refl. cbn [orb]. repeat split; auto.
        * repeat split; auto.
      + unfold do_fire. destruct (nth_error (watchers e1) v) as [[c k]|] eqn:N; [|repeat split; auto].
        destruct (is_cancelled e1 c && negb (mem v (fired e1))); [|repeat split; auto].
        assert (K : k <> k0) by (intros ->; apply NE; eapply F; eauto).
        unfold erel, is_cancelled, cell_set in *. cbn [cancelled setcells fired watchers]. rewrite !mem_cons.
        destruct (Nat.eqb_spec k0 k); [congruence|]. destruct (Nat.eqb_spec w v); [congruence|]. cbn [orb].
        repeat split; auto.
  Qed.

  Lemma do_evs_erel xs : forall e1 e2, erel e1 e2 -> erel (do_evs xs e1) (do_evs (filter own xs) e2).
  Proof.
    unfold do_evs. induction xs as [|x xs IH]; intros e1 e2 R; cbn; auto.
    pose proof (do_ev_erel x e1 e2 R) as R'. destruct (own x); cbn; apply IH; auto.
  Qed.

  Definition srel (s1 s2 : st) : Prop :=
    sG s1 = sG s2 /\ sH s1 = sH s2 /\ sFP s1 = sFP s2 /\ erel (sE s1) (sE s2) /\
    sGates s2 = map (filter own) (sGates s1).
  Definition same (p1 p2 : res * st) : Prop := fst p1 = fst p2 /\ srel (snd p1) (snd p2).

  Ltac s5 := split; [|split; [|split; [|split]]]; cbn; auto; try congruence.

  Lemma polled_srel s1 s2 : srel s1 s2 -> polled (Some k0) s1 = polled (Some k0) s2.
  Proof. intros (_ & _ & _ & (_ & B & _) & _). unfold polled. auto. Qed.
  Lemma halt_res_srel s1 s2 : srel s1 s2 -> halt_res cx s1 = halt_res cx s2.
  Proof. intros (_ & _ & _ & (A & _) & _). unfold halt_res. rewrite A. reflexivity. Qed.

  Lemma push_val_same z s1 s2 : srel s1 s2 -> same (push_val cfg z s1) (push_val cfg z s2).
  Proof.
    intros R. pose proof R as (A & B & C & D & E). unfold push_val. rewrite B.
    destruct (sH s2 <? MaxStack); split; cbn; auto.
    - s5.
    - destruct (push_guard cfg); auto. s5.
  Qed.

  Lemma pop1_same s1 s2 : srel s1 s2 ->
    match pop1 s1, pop1 s2 with Some t1, Some t2 => srel t1 t2 | None, None => True | _, _ => False end.
  Proof.
    intros R. pose proof R as (A & B & C & D & E). unfold pop1. rewrite B.
    destruct ((sH s2 =? 0) || (MaxStack <? sH s2)); auto. s5.
  Qed.

  Lemma resume_same bh bf s1 s2 : srel s1 s2 ->
    fst (resume bh bf s1) = fst (resume bh bf s2) /\ srel (snd (resume bh bf s1)) (snd (resume bh bf s2)).
  Proof.
    intros R. pose proof R as (A & B & C & D & E). unfold resume. rewrite B.
    destruct (bh <? sH s2); [destruct (MaxStack <? sH s2)|]; cbn; split; auto; s5.
  Qed.

  Lemma spin_same gs : forall s1 s2, srel s1 s2 ->
    same (spin (Some k0) cx gs s1) (spin (Some k0) cx (map (filter own) gs) s2).
  Proof.
    induction gs as [|xs gs IH]; intros s1 s2 R; cbn [spin map];
      rewrite (polled_srel _ _ R); destruct (polled (Some k0) s2).
    - split; cbn; [apply halt_res_srel; auto|]. destruct R as (A & B & C & D & E). s5.
    - split; cbn; auto. destruct R as (A & B & C & D & E). s5.
    - split; cbn; [apply halt_res_srel; auto|]. destruct R as (A & B & C & D & E). s5.
    - apply IH. destruct R as (A & B & C & D & E). split; [|split; [|split; [|split]]]; cbn; auto.
      apply do_evs_erel; auto.
  Qed.

  Lemma call_fn_same (body : st -> res * st) s1 s2 :
    srel s1 s2 -> (forall t1 t2, srel t1 t2 -> same (body t1) (body t2)) ->
    same (call_fn (Some k0) cx body s1) (call_fn (Some k0) cx body s2).
  Proof.
    intros R IH. pose proof R as (A & B & C & D & E). unfold call_fn. rewrite B, C.
    assert (Q : srel (setHF s1 (sH s2) (S (sFP s2))) (setHF s2 (sH s2) (S (sFP s2))))
      by s5.
    destruct (MaxFrames <=? S (sFP s2)).
    - destruct (resume_same (sH s2) (sFP s2) _ _ Q) as [X Y].
      destruct (resume (sH s2) (sFP s2) (setHF s1 (sH s2) (S (sFP s2)))) as [p1 t1].
      destruct (resume (sH s2) (sFP s2) (setHF s2 (sH s2) (S (sFP s2)))) as [p2 t2].
      cbn in X, Y. subst. split; auto.
    - destruct (IH _ _ Q) as [X Y].
      destruct (body (setHF s1 (sH s2) (S (sFP s2)))) as [r1 t1].
      destruct (body (setHF s2 (sH s2) (S (sFP s2)))) as [r2 t2]. cbn in X, Y. subst r2.
      destruct (resume_same (sH s2) (sFP s2) _ _ Y) as [X2 Y2].
      destruct (resume (sH s2) (sFP s2) t1) as [p1 u1]. destruct (resume (sH s2) (sFP s2) t2) as [p2 u2].
      cbn in X2, Y2. subst p2. rewrite (polled_srel _ _ Y), (halt_res_srel _ _ Y).
      destruct r1; try (split; cbn; auto; fail).
      destruct (polled (Some k0) t2); split; cbn; auto.
      destruct Y as (Y1 & Y2' & Y3 & Y4 & Y5). s5.
  Qed.

  Lemma eval_same e : forall s1 s2, srel s1 s2 -> same (ev e s1) (ev e s2).
  Proof.
    induction e; intros s1 s2 R; cbn [eval]; unfold poll_then.
    - rewrite (polled_srel _ _ R), (halt_res_srel _ _ R). destruct (polled (Some k0) s2); [split; auto|apply push_val_same; auto].
    - rewrite (polled_srel _ _ R), (halt_res_srel _ _ R). destruct (polled (Some k0) s2); [split; auto|].
      replace (sG s1) with (sG s2) by (symmetry; apply R). apply push_val_same; auto.
    - rewrite (polled_srel _ _ R), (halt_res_srel _ _ R). destruct (polled (Some k0) s2); [split; auto|].
      apply push_val_same. destruct R as (A & B & C & D & E). s5.
    - destruct (IHe1 _ _ R) as [X Y]. destruct (ev e1 s1) as [r1 t1]. destruct (ev e1 s2) as [r2 t2]. cbn in X, Y. subst r2.
      destruct r1; try (split; auto; fail).
      destruct (IHe2 _ _ Y) as [X2 Y2]. destruct (ev e2 t1) as [q1 u1]. destruct (ev e2 t2) as [q2 u2]. cbn in X2, Y2. subst q2.
      destruct q1; try (split; auto; fail).
      rewrite (polled_srel _ _ Y2), (halt_res_srel _ _ Y2). destruct (polled (Some k0) u2); [split; auto|].
      pose proof (pop1_same _ _ Y2) as P. destruct (pop1 u1) as [v1|], (pop1 u2) as [v2|]; try contradiction; [|split; auto].
      pose proof (pop1_same _ _ P) as P2. destruct (pop1 v1) as [x1|], (pop1 v2) as [x2|]; try contradiction; [|split; auto].
      apply push_val_same; auto.
    - destruct (IHe1 _ _ R) as [X Y]. destruct (ev e1 s1) as [r1 t1]. destruct (ev e1 s2) as [r2 t2]. cbn in X, Y. subst r2.
      destruct r1; try (split; auto; fail).
      rewrite (polled_srel _ _ Y), (halt_res_srel _ _ Y). destruct (polled (Some k0) t2); [split; auto|].
      pose proof (pop1_same _ _ Y) as P. destruct (pop1 t1) as [v1|], (pop1 t2) as [v2|]; try contradiction; [|split; auto].
      apply IHe2; auto.
    - rewrite (polled_srel _ _ R), (halt_res_srel _ _ R). destruct (polled (Some k0) s2); [split; auto|].
      pose proof R as (A & B & C & D & E). rewrite B.
      destruct (sH s2 + n <=? MaxStack).
      + assert (Q : srel (setH s1 (sH s2 + n)) (setH s2 (sH s2 + n))) by s5.
        destruct (IHe _ _ Q) as [X Y]. destruct (ev e (setH s1 (sH s2 + n))) as [r1 t1].
        destruct (ev e (setH s2 (sH s2 + n))) as [r2 t2]. cbn in X, Y. subst r2.
        destruct r1; try (split; auto; fail).
        rewrite (polled_srel _ _ Y), (halt_res_srel _ _ Y). destruct (polled (Some k0) t2); [split; auto|].
        apply push_val_same. destruct Y as (Y1 & Y2 & Y3 & Y4 & Y5). s5.
      + split; cbn; auto. s5.
    - rewrite (polled_srel _ _ R), (halt_res_srel _ _ R). destruct (polled (Some k0) s2); [split; auto|].
      destruct (call_fn_same (ev e) s1 s2 R IHe) as [X Y].
      destruct (call_fn (Some k0) cx (ev e) s1) as [r1 t1]. destruct (call_fn (Some k0) cx (ev e) s2) as [r2 t2].
      cbn in X, Y. subst r2. destruct r1; try (split; auto; fail). apply push_val_same; auto.
    - rewrite (polled_srel _ _ R), (halt_res_srel _ _ R). destruct (polled (Some k0) s2); split; auto.
    - rewrite (polled_srel _ _ R), (halt_res_srel _ _ R). destruct (polled (Some k0) s2); split; auto.
    - rewrite (polled_srel _ _ R), (halt_res_srel _ _ R). destruct (polled (Some k0) s2); [split; auto|].
      apply push_val_same. destruct R as (A & B & C & D & E). unfold take_gate. rewrite E.
      destruct (sGates s1) as [|xs r] eqn:EG; cbn [map]; [s5; rewrite EG; auto|].
      split; [|split; [|split; [|split]]]; cbn; auto. apply do_evs_erel; auto.
    - destruct R as (A & B & C & D & E). rewrite E. apply spin_same. s5.
  Qed.
End Foreign.

(* on a VM created for the invocation, deleting every event that is not the cancellation of the invocation's own
   context or the firing of its own watcher changes nothing *)
Definition own_gates (e : env) (i : inv) : list (list VmRun.ev) :=
  map (filter (own (ictx i) (length (watchers e)))) (igates i).

Theorem foreign_events_irrelevant d e g i :
  env_ok e ->
  fresh_of d e g i = fresh_of d e g (mkInv (iapi i) (ibody i) (ictx i) (own_gates e i) (iimport i)).
Proof.
  intros [EO1 EO2]. unfold fresh_of.
  rewrite (run_inv_eq d e g (mkVm None false 0 0 0 true true) i eq_refl eq_refl).
  rewrite (run_inv_eq d e g (mkVm None false 0 0 0 true true) (mkInv (iapi i) (ibody i) (ictx i) (own_gates e i) (iimport i)) eq_refl eq_refl).
  set (s1 := start_st e g _ _ i). set (s2 := start_st e g _ _ _).
  assert (R : srel (ncells e) (ictx i) (length (watchers e)) s1 s2).
  { unfold s1, s2, start_st, base_h, base_f. unfold srel, erel, env1, arm.
    cbn [sG sE sH sFP sGates iapi ibody ictx igates H FP startCount watchers cancelled setcells fired ncells].
    split; [reflexivity|]. split; [reflexivity|]. split; [reflexivity|]. split; [|reflexivity].
    split; [reflexivity|]. split; [reflexivity|]. split; [reflexivity|].
    assert (N : nth_error (watchers e ++ [(ictx i, ncells e)]) (length (watchers e)) = Some (ictx i, ncells e)).
    { rewrite nth_error_app2 by lia. rewrite Nat.sub_diag. reflexivity. }
    split; [exact N|]. split; [exact N|].
    intros v c X. destruct (Nat.lt_ge_cases v (length (watchers e))) as [L|L].
    - rewrite nth_error_app1 in X by auto. apply EO1 in X. lia.
    - assert (L2 : v < length (watchers e ++ [(ictx i, ncells e)])) by (apply nth_error_Some; congruence).
      rewrite app_length in L2. cbn in L2. lia. }
  assert (S : same (ncells e) (ictx i) (length (watchers e)) (body_run d e i s1)
                   (body_run d e (mkInv (iapi i) (ibody i) (ictx i) (own_gates e i) (iimport i)) s2)).
  { unfold body_run. cbn [iapi ibody ictx]. destruct (iapi i).
    - apply eval_same; auto. - apply eval_same; auto.
    - apply call_fn_same; auto. intros t1 t2 T. apply eval_same; auto. }
  destruct S as [S1 _].
  destruct (body_run d e i s1) as [r1 t1]. destruct (body_run d e _ s2) as [r2 t2]. cbn in S1. subst. reflexivity.
Qed.
