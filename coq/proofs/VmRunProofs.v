(* Proofs about model/VmRun.v: stack/frame restoration, halt-flag invariant, independence of runs. *)
From Coq Require Import List Bool Arith ZArith Lia.
Require Import RV.model.VmRun.
Import ListNotations.

Arguments MaxStack : simpl never.
Arguments MaxFrames : simpl never.

Ltac inv H := inversion H; subst; clear H.

(* ------------------------------------------------------------------ small facts *)
Lemma MaxStack_val : MaxStack = 1024. Proof. reflexivity. Qed.
Lemma MaxFrames_val : MaxFrames = 1024. Proof. reflexivity. Qed.

Lemma sH_setH s h : sH (setH s h) = h. Proof. reflexivity. Qed.
Lemma sFP_setH s h : sFP (setH s h) = sFP s. Proof. reflexivity. Qed.
Lemma sE_setH s h : sE (setH s h) = sE s. Proof. reflexivity. Qed.

(* properties of one evaluation are proved for a fixed configuration with the push repair *)
Section EvalFacts.
  Variable cfg : config.
  Hypothesis Hguard : push_guard cfg = true.
  Variable hc : option nat.
  Variable cx : nat.

  Notation ev := (eval cfg hc cx).

  Lemma push_val_RV z s z' s' :
    push_val cfg z s = (RV z', s') -> z' = z /\ s' = setH s (S (sH s)) /\ sH s < MaxStack.
  Proof.
    unfold push_val. destruct (sH s <? MaxStack) eqn:E; intros X; inv X.
    apply Nat.ltb_lt in E. auto.
  Qed.

  Lemma push_val_cases z s :
    (sH s < MaxStack /\ push_val cfg z s = (RV z, setH s (S (sH s)))) \/
    (MaxStack <= sH s /\ push_val cfg z s = (RP EStack, s)).
  Proof.
    unfold push_val. rewrite Hguard. destruct (sH s <? MaxStack) eqn:E.
    - apply Nat.ltb_lt in E. left; auto.
    - apply Nat.ltb_ge in E. right; auto.
  Qed.

  Lemma pop1_some s : 0 < sH s -> sH s <= MaxStack -> pop1 s = Some (setH s (pred (sH s))).
  Proof.
    intros A B. unfold pop1.
    destruct (sH s =? 0) eqn:E1; [apply Nat.eqb_eq in E1; lia|].
    destruct (MaxStack <? sH s) eqn:E2; [apply Nat.ltb_lt in E2; lia|]. reflexivity.
  Qed.

  Lemma spin_shape gs s r s' :
    spin hc cx gs s = (r, s') ->
    sH s' = sH s /\ sFP s' = sFP s /\ (forall z, r <> RV z) /\ (forall x, r <> RP x).
  Proof.
    revert s. induction gs as [|xs gs IH]; intros s; cbn.
    - destruct (polled hc s); intros X; inv X; cbn; repeat split; try congruence;
        unfold halt_res; destruct (is_cancelled _ _); congruence.
    - destruct (polled hc s).
      + intros X; inv X; cbn; repeat split; try congruence;
          unfold halt_res; destruct (is_cancelled _ _); congruence.
      + intros X. apply IH in X. cbn in X. exact X.
  Qed.

  (* what one evaluation does to the stack height and the frame pointer *)
  Definition good (s : st) (r : res) (s' : st) : Prop :=
    sH s' <= MaxStack /\
    (r <> RDiverge -> sFP s' = sFP s) /\
    sH s <= sH s' /\
    (forall z, r = RV z -> sH s' = S (sH s)).

  Lemma resume_ok bh bf s :
    sH s <= MaxStack -> bh <= sH s ->
    fst (resume bh bf s) = false /\
    sFP (snd (resume bh bf s)) = bf /\
    bh <= sH (snd (resume bh bf s)) /\ sH (snd (resume bh bf s)) <= S bh /\
    sH (snd (resume bh bf s)) <= sH s.
  Proof.
    intros A B. unfold resume.
    destruct (bh <? sH s) eqn:E1.
    - apply Nat.ltb_lt in E1.
      destruct (MaxStack <? sH s) eqn:E2; [apply Nat.ltb_lt in E2; lia|].
      cbn. repeat split; lia.
    - apply Nat.ltb_ge in E1. cbn. repeat split; lia.
  Qed.

  Lemma halt_res_shape s : (forall z, halt_res cx s <> RV z) /\ (forall x, halt_res cx s <> RP x) /\ halt_res cx s <> RDiverge.
  Proof. unfold halt_res; destruct (is_cancelled _ _); repeat split; congruence. Qed.

  Lemma good_refl s r : sH s <= MaxStack -> (forall z, r <> RV z) -> good s r s.
  Proof. intros A B. repeat split; auto. intros z X. exfalso. eapply B; eauto. Qed.

  Lemma good_push z s0 s :
    sH s <= MaxStack -> sFP s = sFP s0 -> sH s = sH s0 ->
    good s0 (fst (push_val cfg z s)) (snd (push_val cfg z s)).
  Proof.
    intros A F Hh. destruct (push_val_cases z s) as [[L E]|[L E]]; rewrite E; cbn;
      (split; [|split; [|split]]); cbn; try lia; auto; try (intros; lia); intros; discriminate.
  Qed.

  Ltac fin :=
    repeat match goal with C : ?r <> RDiverge -> _ |- _ =>
             first [ specialize (C ltac:(discriminate)) | clear C ] end;
    repeat match goal with |- _ /\ _ => split end; cbn in *;
    try lia; try congruence; try (intros; discriminate); try (intros; lia); auto;
    try (intros; exfalso; congruence);
    try (intros; match goal with
                 | X : halt_res _ _ = RV _ |- _ => exfalso; eapply (proj1 (halt_res_shape _)); eauto
                 | X : halt_res _ _ = RDiverge |- _ => exfalso; eapply (proj2 (proj2 (halt_res_shape _))); eauto
                 end).

  Lemma call_fn_good (body : st -> res * st) s :
    sH s <= MaxStack ->
    (forall s1, sH s1 <= MaxStack -> good s1 (fst (body s1)) (snd (body s1))) ->
    let r := fst (call_fn hc cx body s) in
    let s' := snd (call_fn hc cx body s) in
    sH s' <= MaxStack /\ (r <> RDiverge -> sFP s' = sFP s) /\ sH s <= sH s' /\
    (forall z, r = RV z -> sH s' = sH s) /\ (r <> RDiverge -> sH s' <= S (sH s)).
  Proof.
    intros A IH. unfold call_fn.
    destruct (MaxFrames <=? S (sFP s)) eqn:EF.
    - pose proof (resume_ok (sH s) (sFP s) (setHF s (sH s) (S (sFP s))) A (le_n _)) as R.
      destruct (resume (sH s) (sFP s) (setHF s (sH s) (S (sFP s)))) as [p s2]. cbn in R. cbn.
      destruct R as (_ & R2 & R3 & R4 & R5). fin.
    - specialize (IH (setHF s (sH s) (S (sFP s))) A).
      destruct (body (setHF s (sH s) (S (sFP s)))) as [r s1]. cbn in IH.
      destruct IH as (I1 & I2 & I3 & I4). cbn in I3.
      pose proof (resume_ok (sH s) (sFP s) s1 I1 I3) as R.
      destruct (resume (sH s) (sFP s) s1) as [p s2]. cbn in R.
      destruct R as (Rp & R2 & R3 & R4 & R5). subst p.
      destruct r; cbn.
      + destruct (polled hc s1); cbn; fin.
      + fin.
      + fin.
      + fin.
      + fin.
  Qed.

  Lemma eval_good e : forall s, sH s <= MaxStack -> good s (fst (ev e s)) (snd (ev e s)).
  Proof.
    induction e; intros s A; cbn [eval]; unfold poll_then.
    - (* Lit *) destruct (polled hc s); cbn.
      + apply good_refl; auto. apply halt_res_shape.
      + apply good_push; auto.
    - destruct (polled hc s); cbn.
      + apply good_refl; auto. apply halt_res_shape.
      + apply good_push; auto.
    - destruct (polled hc s); cbn.
      + apply good_refl; auto. apply halt_res_shape.
      + apply (good_push z s (setG s (sG s + z)%Z)); auto.
    - (* Bin *)
      specialize (IHe1 s A). destruct (ev e1 s) as [r1 s1]. cbn in IHe1.
      destruct IHe1 as (B1 & B2 & B3 & B4).
      destruct r1; try (unfold good; fin; fail).
      specialize (B4 _ eq_refl). specialize (B2 ltac:(discriminate)).
      specialize (IHe2 s1 B1). destruct (ev e2 s1) as [r2 s2]. cbn in IHe2.
      destruct IHe2 as (C1 & C2 & C3 & C4).
      destruct r2; try (unfold good; fin; fail).
      specialize (C4 _ eq_refl). specialize (C2 ltac:(discriminate)).
      destruct (polled hc s2); cbn.
      + unfold good; fin.
      + rewrite (pop1_some s2) by lia. cbn.
        rewrite (pop1_some (setH s2 (pred (sH s2)))) by (cbn; lia). cbn.
        match goal with |- good _ (fst (push_val _ ?z ?t)) _ => apply (good_push z s t) end; cbn; try lia; congruence.
    - (* Seq *)
      specialize (IHe1 s A). destruct (ev e1 s) as [r1 s1]. cbn in IHe1.
      destruct IHe1 as (B1 & B2 & B3 & B4).
      destruct r1; try (unfold good; fin; fail).
      specialize (B4 _ eq_refl). specialize (B2 ltac:(discriminate)).
      destruct (polled hc s1); cbn.
      + unfold good; fin.
      + rewrite (pop1_some s1) by lia.
        specialize (IHe2 (setH s1 (pred (sH s1))) ltac:(cbn; lia)).
        destruct (ev e2 (setH s1 (pred (sH s1)))) as [r2 s2]. cbn [fst snd] in IHe2.
        destruct IHe2 as (C1 & C2 & C3 & C4). rewrite sH_setH in C3, C4. rewrite sFP_setH in C2.
        unfold good. cbn [fst snd]. split; [|split; [|split]].
        * lia.
        * intros X. rewrite C2; auto.
        * lia.
        * intros z1 X. rewrite (C4 _ X). lia.
    - (* ListN *)
      destruct (polled hc s); cbn.
      + apply good_refl; auto. apply halt_res_shape.
      + destruct (sH s + n <=? MaxStack) eqn:E.
        * apply Nat.leb_le in E.
          specialize (IHe (setH s (sH s + n)) ltac:(cbn; lia)).
          destruct (ev e (setH s (sH s + n))) as [r1 s1]. cbn in IHe.
          destruct IHe as (B1 & B2 & B3 & B4). rewrite ?sH_setH, ?sFP_setH in *.
          destruct r1; try (unfold good; fin; fail).
          specialize (B4 _ eq_refl). specialize (B2 ltac:(discriminate)).
          destruct (polled hc s1); cbn.
          -- unfold good; fin.
          -- match goal with |- good _ (fst (push_val _ ?z ?t)) _ => apply (good_push z s t) end; cbn; try lia; congruence.
        * apply Nat.leb_gt in E. rewrite Hguard. unfold good; fin.
    - (* CallE *)
      destruct (polled hc s); cbn.
      + apply good_refl; auto. apply halt_res_shape.
      + pose proof (call_fn_good (ev e) s A IHe) as C. cbn in C.
        destruct (call_fn hc cx (ev e) s) as [r s1]. cbn in C.
        destruct C as (C1 & C2 & C3 & C4 & C5).
        destruct r; try (unfold good; fin; fail).
        specialize (C4 _ eq_refl). specialize (C2 ltac:(discriminate)).
        match goal with |- good _ (fst (push_val _ ?z ?t)) _ => apply (good_push z s t) end; cbn; try lia; congruence.
    - destruct (polled hc s); cbn; apply good_refl; auto; try apply halt_res_shape. intros; discriminate.
    - destruct (polled hc s); cbn; apply good_refl; auto; try apply halt_res_shape. intros; discriminate.
    - (* Gate *)
      destruct (polled hc s); cbn.
      + apply good_refl; auto. apply halt_res_shape.
      + assert (T : sH (take_gate s) = sH s /\ sFP (take_gate s) = sFP s)
          by (unfold take_gate; destruct (sGates s); split; reflexivity).
        destruct T as [T1 T2]. apply (good_push 0%Z s (take_gate s)); auto. lia.
    - (* Spin *)
      destruct (spin hc cx (sGates s) s) as [r s'] eqn:E. apply spin_shape in E.
      destruct E as (E1 & E2 & E3 & E4). unfold good. cbn. split; [|split; [|split]]; try lia; auto.
      intros z X. exfalso; eapply E3; eauto.
  Qed.

  (* ---------------------------------------------------------------- less room, same run *)
  (* s1 is s2 with b more operands below: everything else equal *)
  Definition rel (b : nat) (s1 s2 : st) : Prop :=
    sG s1 = sG s2 /\ sE s1 = sE s2 /\ sFP s1 = sFP s2 /\ sGates s1 = sGates s2 /\ sH s1 = sH s2 + b.

  Lemma polled_rel b s1 s2 : rel b s1 s2 -> polled hc s1 = polled hc s2.
  Proof. intros (_ & E & _). unfold polled. rewrite E. reflexivity. Qed.
  Lemma halt_res_rel b s1 s2 : rel b s1 s2 -> halt_res cx s1 = halt_res cx s2.
  Proof. intros (_ & E & _). unfold halt_res. rewrite E. reflexivity. Qed.

  Lemma spin_rel b gs : forall s1 s2, rel b s1 s2 ->
    fst (spin hc cx gs s1) = fst (spin hc cx gs s2) /\
    rel b (snd (spin hc cx gs s1)) (snd (spin hc cx gs s2)).
  Proof.
    induction gs as [|xs gs IH]; intros s1 s2 R; cbn;
      rewrite (polled_rel _ _ _ R); destruct (polled hc s2); cbn.
    - rewrite (halt_res_rel _ _ _ R). split; auto. destruct R as (R1 & R2 & R3 & R4 & R5).
      repeat split; cbn; auto.
    - destruct R as (R1 & R2 & R3 & R4 & R5). repeat split; cbn; auto.
    - rewrite (halt_res_rel _ _ _ R). split; auto. destruct R as (R1 & R2 & R3 & R4 & R5).
      repeat split; cbn; auto.
    - apply IH. destruct R as (R1 & R2 & R3 & R4 & R5). repeat split; cbn; auto; try congruence.
  Qed.

  Definition shifted (b : nat) (p1 p2 : res * st) : Prop :=
    fst p1 = RP EStack \/ (fst p1 = fst p2 /\ rel b (snd p1) (snd p2)).

  Lemma push_val_shift b z s1 s2 :
    rel b s1 s2 -> shifted b (push_val cfg z s1) (push_val cfg z s2).
  Proof.
    intros R. destruct (push_val_cases z s1) as [[L E]|[L E]]; rewrite E.
    - destruct (push_val_cases z s2) as [[L2 E2]|[L2 E2]]; rewrite E2.
      + right. split; auto. destruct R as (R1 & R2 & R3 & R4 & R5). repeat split; cbn; auto; try lia.
      + destruct R as (R1 & R2 & R3 & R4 & R5). lia.
    - left. reflexivity.
  Qed.

  Lemma resume_rel b bh bf s1 s2 :
    rel b s1 s2 -> sH s1 <= MaxStack -> bh <= sH s2 ->
    fst (resume (bh + b) bf s1) = false /\ fst (resume bh bf s2) = false /\
    rel b (snd (resume (bh + b) bf s1)) (snd (resume bh bf s2)).
  Proof.
    intros (R1 & R2 & R3 & R4 & R5) A B. unfold resume.
    destruct (bh <? sH s2) eqn:E1.
    - apply Nat.ltb_lt in E1.
      assert (X : (bh + b <? sH s1) = true) by (apply Nat.ltb_lt; lia). rewrite X.
      assert (Y1 : (MaxStack <? sH s1) = false) by (apply Nat.ltb_ge; lia).
      assert (Y2 : (MaxStack <? sH s2) = false) by (apply Nat.ltb_ge; lia).
      rewrite Y1, Y2. cbn. repeat split; auto.
    - apply Nat.ltb_ge in E1.
      assert (X : (bh + b <? sH s1) = false) by (apply Nat.ltb_ge; lia). rewrite X.
      cbn. repeat split; auto.
  Qed.

  Lemma call_fn_shift b (body : st -> res * st) s1 s2 :
    rel b s1 s2 -> sH s1 <= MaxStack ->
    (forall t, sH t <= MaxStack -> good t (fst (body t)) (snd (body t))) ->
    (forall t1 t2, rel b t1 t2 -> sH t1 <= MaxStack -> shifted b (body t1) (body t2)) ->
    shifted b (call_fn hc cx body s1) (call_fn hc cx body s2).
  Proof.
    intros R A G IH. pose proof R as (R1 & R2 & R3 & R4 & R5). unfold shifted. unfold call_fn. rewrite R3.
    assert (A2 : sH s2 <= MaxStack) by lia.
    destruct (MaxFrames <=? S (sFP s2)) eqn:EF.
    - assert (Q : rel b (setHF s1 (sH s1) (S (sFP s2))) (setHF s2 (sH s2) (S (sFP s2))))
        by (repeat split; cbn; auto).
      pose proof (resume_rel b (sH s2) (sFP s2) _ _ Q A (le_n _)) as Z. rewrite <- R5 in Z.
      destruct (resume (sH s1) (sFP s2) (setHF s1 (sH s1) (S (sFP s2)))) as [p1 t1].
      destruct (resume (sH s2) (sFP s2) (setHF s2 (sH s2) (S (sFP s2)))) as [p2 t2].
      cbn in Z. destruct Z as (Z1 & Z2 & Z3). subst. right. split; auto.
    - assert (Q : rel b (setHF s1 (sH s1) (S (sFP s2))) (setHF s2 (sH s2) (S (sFP s2))))
        by (repeat split; cbn; auto).
      pose proof (IH _ _ Q A) as SS. unfold shifted in SS.
      pose proof (G (setHF s1 (sH s1) (S (sFP s2))) A) as G1.
      pose proof (G (setHF s2 (sH s2) (S (sFP s2))) A2) as G2.
      destruct (body (setHF s1 (sH s1) (S (sFP s2)))) as [r1 t1].
      destruct (body (setHF s2 (sH s2) (S (sFP s2)))) as [r2 t2].
      cbn [fst snd] in *. destruct G1 as (G11 & G12 & G13 & G14). destruct G2 as (G21 & G22 & G23 & G24).
      cbn in G13, G23.
      destruct SS as [SS|[S1 S2]].
      + (* the run with less room ran out of stack inside the callee: still a stack panic after the unwinding *)
        subst r1. pose proof (resume_ok (sH s1) (sFP s2) t1 G11 G13) as Z.
        destruct (resume (sH s1) (sFP s2) t1) as [p u]. cbn in Z. destruct Z as (Z1 & _). subst p. left. reflexivity.
      + subst r2.
        pose proof (resume_rel b (sH s2) (sFP s2) _ _ S2 G11 G23) as Z. rewrite <- R5 in Z.
        destruct (resume (sH s1) (sFP s2) t1) as [p1 u1].
        destruct (resume (sH s2) (sFP s2) t2) as [p2 u2].
        cbn in Z. destruct Z as (Z1 & Z2 & Z3). subst p1 p2.
        rewrite (polled_rel _ _ _ S2), (halt_res_rel _ _ _ S2).
        destruct r1; cbn.
        * destruct (polled hc t2); cbn.
          -- right. split; auto.
          -- right. split; auto. destruct S2 as (Q1 & Q2 & Q3 & Q4 & Q5). repeat split; cbn; auto.
        * right. split; auto.
        * right. split; auto.
        * right. split; auto.
        * right. split; auto.
  Qed.

  Lemma eval_shift b e : forall s1 s2, rel b s1 s2 -> sH s1 <= MaxStack -> shifted b (ev e s1) (ev e s2).
  Proof.
    unfold shifted. induction e; intros s1 s2 R A; cbn [eval]; unfold poll_then.
    - rewrite (polled_rel _ _ _ R), (halt_res_rel _ _ _ R). destruct (polled hc s2).
      + right; split; auto. + apply push_val_shift; auto.
    - rewrite (polled_rel _ _ _ R), (halt_res_rel _ _ _ R). destruct (polled hc s2).
      + right; split; auto.
      + replace (sG s1) with (sG s2) by (symmetry; apply R). apply push_val_shift; auto.
    - rewrite (polled_rel _ _ _ R), (halt_res_rel _ _ _ R). destruct (polled hc s2).
      + right; split; auto.
      + apply push_val_shift. destruct R as (R1 & R2 & R3 & R4 & R5). repeat split; cbn; auto; try congruence.
    - (* Bin *)
      pose proof (IHe1 _ _ R A) as S1.
      pose proof (eval_good e1 s1 A) as G1.
      pose proof (eval_good e1 s2 ltac:(destruct R as (_&_&_&_&R5); lia)) as G2.
      destruct (ev e1 s1) as [r1 t1]. destruct (ev e1 s2) as [r2 t2]. cbn [fst snd] in *.
      destruct S1 as [S1|[S1 S1']]; [subst; left; reflexivity|]. subst r2.
      destruct r1; try (right; split; auto; fail).
      destruct G1 as (G11 & G12 & G13 & G14). destruct G2 as (G21 & G22 & G23 & G24).
      specialize (G14 _ eq_refl). specialize (G24 _ eq_refl).
      pose proof (IHe2 _ _ S1' G11) as S2.
      pose proof (eval_good e2 t1 G11) as H1.
      pose proof (eval_good e2 t2 G21) as H2.
      destruct (ev e2 t1) as [q1 u1]. destruct (ev e2 t2) as [q2 u2]. cbn [fst snd] in *.
      destruct S2 as [S2|[S2 S2']]; [subst; left; reflexivity|]. subst q2.
      destruct q1; try (right; split; auto; fail).
      destruct H1 as (H11 & H12 & H13 & H14). destruct H2 as (H21 & H22 & H23 & H24).
      specialize (H14 _ eq_refl). specialize (H24 _ eq_refl).
      rewrite (polled_rel _ _ _ S2'), (halt_res_rel _ _ _ S2'). destruct (polled hc u2).
      + right; split; auto.
      + rewrite (pop1_some u1) by lia. rewrite (pop1_some u2) by lia.
        rewrite (pop1_some (setH u1 _)) by (cbn; lia). rewrite (pop1_some (setH u2 _)) by (cbn; lia).
        apply push_val_shift. destruct S2' as (Q1 & Q2 & Q3 & Q4 & Q5). repeat split; cbn; auto; try lia.
    - (* Seq *)
      pose proof (IHe1 _ _ R A) as S1.
      pose proof (eval_good e1 s1 A) as G1.
      pose proof (eval_good e1 s2 ltac:(destruct R as (_&_&_&_&R5); lia)) as G2.
      destruct (ev e1 s1) as [r1 t1]. destruct (ev e1 s2) as [r2 t2]. cbn [fst snd] in *.
      destruct S1 as [S1|[S1 S1']]; [subst; left; reflexivity|]. subst r2.
      destruct r1; try (right; split; auto; fail).
      destruct G1 as (G11 & G12 & G13 & G14). destruct G2 as (G21 & G22 & G23 & G24).
      specialize (G14 _ eq_refl). specialize (G24 _ eq_refl).
      rewrite (polled_rel _ _ _ S1'), (halt_res_rel _ _ _ S1'). destruct (polled hc t2).
      + right; split; auto.
      + rewrite (pop1_some t1) by lia. rewrite (pop1_some t2) by lia.
        apply IHe2; [|cbn; lia].
        destruct S1' as (Q1 & Q2 & Q3 & Q4 & Q5). repeat split; cbn; auto; try lia.
    - (* ListN *)
      rewrite (polled_rel _ _ _ R), (halt_res_rel _ _ _ R). destruct (polled hc s2).
      + right; split; auto.
      + pose proof R as (R1 & R2 & R3 & R4 & R5).
        destruct (sH s1 + n <=? MaxStack) eqn:E1.
        * apply Nat.leb_le in E1.
          assert (E2 : (sH s2 + n <=? MaxStack) = true) by (apply Nat.leb_le; lia). rewrite E2.
          assert (Q : rel b (setH s1 (sH s1 + n)) (setH s2 (sH s2 + n))) by (repeat split; cbn; auto; lia).
          pose proof (IHe _ _ Q ltac:(cbn; lia)) as S1.
          pose proof (eval_good e (setH s1 (sH s1 + n)) ltac:(cbn; lia)) as G1.
          pose proof (eval_good e (setH s2 (sH s2 + n)) ltac:(cbn; lia)) as G2.
          destruct (ev e (setH s1 (sH s1 + n))) as [r1 t1]. destruct (ev e (setH s2 (sH s2 + n))) as [r2 t2].
          cbn [fst snd] in *.
          destruct S1 as [S1|[S1 S1']]; [subst; left; reflexivity|]. subst r2.
          destruct r1; try (right; split; auto; fail).
          destruct G1 as (G11 & G12 & G13 & G14). destruct G2 as (G21 & G22 & G23 & G24).
          specialize (G14 _ eq_refl). specialize (G24 _ eq_refl). rewrite sH_setH in *.
          rewrite (polled_rel _ _ _ S1'), (halt_res_rel _ _ _ S1'). destruct (polled hc t2).
          -- right; split; auto.
          -- apply push_val_shift. destruct S1' as (Q1 & Q2 & Q3 & Q4 & Q5). repeat split; cbn; auto; try lia.
        * left. reflexivity.
    - (* CallE *)
      rewrite (polled_rel _ _ _ R), (halt_res_rel _ _ _ R). destruct (polled hc s2).
      + right; split; auto.
      + pose proof (call_fn_shift b (ev e) s1 s2 R A (eval_good e) IHe) as SS. unfold shifted in SS.
        destruct (call_fn hc cx (ev e) s1) as [r1 t1]. destruct (call_fn hc cx (ev e) s2) as [r2 t2].
        cbn [fst snd] in *.
        destruct SS as [SS|[SS SS']]; [subst; left; reflexivity|]. subst r2.
        destruct r1; try (right; split; auto; fail).
        apply push_val_shift; auto.
    - rewrite (polled_rel _ _ _ R), (halt_res_rel _ _ _ R). destruct (polled hc s2); right; split; auto.
    - rewrite (polled_rel _ _ _ R), (halt_res_rel _ _ _ R). destruct (polled hc s2); right; split; auto.
    - (* Gate *)
      rewrite (polled_rel _ _ _ R), (halt_res_rel _ _ _ R). destruct (polled hc s2).
      + right; split; auto.
      + apply push_val_shift. destruct R as (R1 & R2 & R3 & R4 & R5). unfold take_gate. rewrite R4.
        destruct (sGates s2) eqn:EG; repeat split; cbn; auto; try congruence.
    - (* Spin *)
      right. replace (sGates s1) with (sGates s2) by (symmetry; apply R). apply spin_rel; auto.
  Qed.
End EvalFacts.
