(* Stage B, part 1: Compiler.compile_program on straight-line programs over top-level variables emits exactly
   [pcode], and leaves a root table that maps the variables, in declaration order, to the global slots 0, 1, 2 ... *)
From Coq Require Import List ZArith NArith Bool Arith Lia.
Require Import RV.model.Syntax RV.model.Compiler RV.model.ScalarFrag RV.model.VarProg RV.proofs.BackendProofs RV.proofs.VarProgFacts.
Import ListNotations.
Local Open Scope nat_scope.

(* insert_symbol on a state whose only table is a non-block table that does not know the name yet *)
Lemma insert_root (tb : table) name c stk fi :
  tb_block tb = false -> Compiler.assoc name (tb_byname tb) = None ->
  insert_symbol 0 name c {| st_tabs := [tb]; st_stack := stk; st_funcindex := fi |} =
  inr ({| sy_name := name; sy_index := N.of_nat (length (tb_syms tb)); sy_const := c |},
       {| st_tabs := [ {| tb_id := tb_id tb; tb_parent := tb_parent tb; tb_nchildren := tb_nchildren tb;
                          tb_byname := (name, {| sy_name := name; sy_index := N.of_nat (length (tb_syms tb)); sy_const := c |}) :: tb_byname tb;
                          tb_freebyname := tb_freebyname tb;
                          tb_syms := tb_syms tb ++ [ {| sy_name := name; sy_index := N.of_nat (length (tb_syms tb)); sy_const := c |} ];
                          tb_free := tb_free tb; tb_block := tb_block tb |} ];
          st_stack := stk; st_funcindex := fi |}).
Proof.
  destruct tb as [tid tpar tnc tby tfb tsy tfr tbl]. cbn [tb_block tb_byname]. intros -> Ha.
  unfold insert_symbol, bind, get_tab, get, set_tab, ret. cbn. rewrite Ha. cbn. reflexivity.
Qed.

Section Names.
  Variable names : list (list N).
  Hypothesis names_nodup : NoDup names.

  Definition root_tb (n : nat) : table :=
    {| tb_id := root_id; tb_parent := None; tb_nchildren := 0;
       tb_byname := map (fun i => (nth i names [], sym_of names i)) (rev (seq 0 n));
       tb_freebyname := []; tb_syms := map (sym_of names) (seq 0 n); tb_free := []; tb_block := false |}.

  Definition main_w (ks : list konst) : wcode :=
    {| w_id := main_id; w_name := main_id; w_named := false; w_functab := 0; w_tab := 0;
       w_consts := ks; w_names := []; w_children := []; w_pipe := false; w_funcid := [];
       w_loops := []; w_root := true |}.

  Definition pstate (n : nat) (ks : list konst) : cstate :=
    {| st_tabs := [root_tb n]; st_stack := [main_w ks]; st_funcindex := 0 |}.

  Lemma init_is_pstate : init_state [] = pstate 0 [].
  Proof. reflexivity. Qed.

  Lemma beq_refl (a : list N) : Compiler.beq a a = true.
  Proof. unfold Compiler.beq. destruct (list_eq_dec N.eq_dec a a); [reflexivity|contradiction]. Qed.
  Lemma beq_neq (a b : list N) : a <> b -> Compiler.beq a b = false.
  Proof. intros H. unfold Compiler.beq. destruct (list_eq_dec N.eq_dec a b); [contradiction|reflexivity]. Qed.

  Lemma names_distinct i j : i < length names -> j < length names -> i <> j -> nth i names [] <> nth j names [].
  Proof. intros Hi Hj Hne Heq. apply Hne. exact (proj1 (NoDup_nth names []) names_nodup i j Hi Hj Heq). Qed.

  Lemma byname_lookup n : n <= length names -> forall i, i < n ->
    Compiler.assoc (nth i names []) (tb_byname (root_tb n)) = Some (sym_of names i).
  Proof.
    induction n as [|n IH]; intros Hn i Hi; [lia|].
    cbn [root_tb tb_byname]. rewrite seq_S, rev_app_distr. cbn [rev app map Nat.add Compiler.assoc].
    destruct (Nat.eq_dec i n) as [->|Hne].
    - rewrite beq_refl. reflexivity.
    - rewrite beq_neq by (apply names_distinct; lia). apply (IH ltac:(lia) i ltac:(lia)).
  Qed.

  Lemma byname_fresh n : n < length names ->
    Compiler.assoc (nth n names []) (tb_byname (root_tb n)) = None.
  Proof.
    intros Hn. cbn [root_tb tb_byname].
    assert (H : forall m, m <= n -> Compiler.assoc (nth n names []) (map (fun i => (nth i names [], sym_of names i)) (rev (seq 0 m))) = None).
    { induction m as [|m IH]; intros Hm; [reflexivity|].
      rewrite seq_S, rev_app_distr. cbn [rev app map Nat.add Compiler.assoc].
      rewrite beq_neq by (apply names_distinct; lia). apply IH. lia. }
    apply H. lia.
  Qed.

  Lemma pstate_tabs_ok n ks : n <= length names -> tabs_ok names (st_tabs (pstate n ks)) n.
  Proof. intros Hn. split; [reflexivity|]. intros i Hi. exact (byname_lookup n Hn i Hi). Qed.

  Lemma add_consts_pstate n ks ks' : add_consts (pstate n ks) ks' = pstate n (ks ++ ks').
  Proof. reflexivity. Qed.

  (* expressions on the program state *)
  Lemma compile_exp n ks e f : n <= length names -> wf n e = true -> height e <= f ->
    compile f (embed names e) (pstate n ks) =
    inr (I (fst (cexp (length ks) e)), pstate n (ks ++ snd (cexp (length ks) e))).
  Proof.
    intros Hn Hwf Hf.
    rewrite (compile_scalar names n e f (pstate n ks) (main_w ks) [] eq_refl eq_refl (pstate_tabs_ok n ks Hn) Hwf Hf).
    reflexivity.
  Qed.

  Lemma root_tb_S n : root_tb (S n) =
    {| tb_id := root_id; tb_parent := None; tb_nchildren := 0;
       tb_byname := (nth n names [], sym_of names n) :: tb_byname (root_tb n);
       tb_freebyname := []; tb_syms := tb_syms (root_tb n) ++ [sym_of names n]; tb_free := []; tb_block := false |}.
  Proof.
    unfold root_tb. cbn [tb_byname tb_syms]. rewrite seq_S, map_app, rev_app_distr. reflexivity.
  Qed.

  Lemma root_syms_length n : length (tb_syms (root_tb n)) = n.
  Proof. cbn [root_tb tb_syms]. rewrite map_length, seq_length. reflexivity. Qed.

  Arguments root_tb : simpl never.

  Lemma insert_next n ks : n < length names ->
    insert_symbol 0 (nth n names []) false (pstate n ks) = inr (sym_of names n, pstate (S n) ks).
  Proof.
    intros Hn. unfold pstate. rewrite (insert_root (root_tb n) _ _ _ _ eq_refl (byname_fresh n Hn)).
    rewrite root_syms_length, root_tb_S. reflexivity.
  Qed.
  (* ---------------------------------------------------------------- statements *)
  Lemma compile_NVar f name v : compile (S f) (NVar name v) =
    bind (compile f v) (fun a => bind cur (fun w => bind (insert_symbol (w_tab w) name false) (fun sym =>
      bind (store_sym sym) (fun st => ret (a ++ st))))).
  Proof. reflexivity. Qed.
  Lemma compile_NAssign_eq f name v : compile (S f) (NAssign name [61%N] v) =
    bind (resolve_cur name) (fun rs =>
      if sy_const (rs_sym rs) then fail (EConstAssign name) else
      bind (compile f v) (fun a => ret (a ++ store_res rs))).
  Proof. reflexivity. Qed.

  Notation embed_stmt := (VarProgFacts.embed_stmt names).
  Notation embed_stmts_cons := (VarProgFacts.embed_stmts_cons names).

  Lemma compile_stmt k ks s f :
    next_k k s <= length names -> wf_stmt k s = true -> height (stmt_exp s) <= f ->
    compile (S f) (embed_stmt k s) (pstate k ks) =
    inr (I (fst (stmt_code k (length ks) s)), pstate (next_k k s) (ks ++ snd (stmt_code k (length ks) s))).
  Proof.
    intros Hk Hwf Hf. destruct s as [e|i e|e]; cbn [embed_stmt stmt_code next_k wf_stmt stmt_exp] in *.
    - (* x := e *)
      rewrite compile_NVar. unfold bind at 1.
      rewrite (compile_exp k ks e f ltac:(lia) Hwf Hf).
      destruct (cexp (length ks) e) as [c kk]. cbn [fst snd].
      unfold bind, cur. cbn [pstate st_stack main_w w_tab].
      rewrite (insert_next k (ks ++ kk) ltac:(lia)).
      unfold store_sym, bind, is_root, cur, ret. cbn [pstate st_stack main_w w_root sym_of sy_index].
      rewrite I_app. reflexivity.
    - (* x = e *)
      apply andb_true_iff in Hwf. destruct Hwf as [Hi Hwf]. apply Nat.ltb_lt in Hi.
      rewrite compile_NAssign_eq. unfold bind at 1.
      rewrite (resolve_cur_bound names (pstate k ks) (main_w ks) [] k i eq_refl eq_refl (pstate_tabs_ok k ks ltac:(lia)) Hi).
      cbn [rs_sym sym_of sy_const]. unfold bind.
      rewrite (compile_exp k ks e f ltac:(lia) Hwf ltac:(lia)).
      destruct (cexp (length ks) e) as [c kk]. cbn [fst snd].
      unfold ret, store_res. cbn [rs_scope rs_sym sym_of sy_index]. rewrite I_app. reflexivity.
    - (* e *)
      rewrite (compile_exp k ks e (S f) ltac:(lia) Hwf ltac:(lia)). reflexivity.
  Qed.
  (* ---------------------------------------------------------------- the statement loop of compileProgram *)
  Definition cs_loop (fuel : nat) : list node -> M (list slot) :=
    fix cs (l : list node) : M (list slot) :=
      match l with
      | [] => ret []
      | [x] => bind (compile fuel x) (fun a => ret (a ++ nil_after x))
      | x :: r => bind (compile fuel x) (fun a => bind (cs r) (fun b => ret (a ++ pop_between x ++ b)))
      end.

  Lemma cs_loop_cons f x y r : cs_loop f (x :: y :: r) =
    bind (compile f x) (fun a => bind (cs_loop f (y :: r)) (fun b => ret (a ++ pop_between x ++ b))).
  Proof. reflexivity. Qed.

  Notation embed_is_expression := (VarProgFacts.embed_is_expression names).

  Lemma pop_between_stmt k s : pop_between (embed_stmt k s) = if is_expr_stmt s then [SI opPopTop] else [].
  Proof. destruct s; cbn [embed_stmt is_expr_stmt]; unfold pop_between; [reflexivity|reflexivity|rewrite embed_is_expression; reflexivity]. Qed.
  Lemma nil_after_stmt k s : nil_after (embed_stmt k s) = if is_expr_stmt s then [] else [SI opNil].
  Proof. destruct s; cbn [embed_stmt is_expr_stmt]; unfold nil_after; [reflexivity|reflexivity|rewrite embed_is_expression; reflexivity]. Qed.

  Lemma cs_program f : forall l k ks, l <> [] ->
    k + ndecls l <= length names -> wf_stmts k l = true -> max_height l <= f ->
    cs_loop (S f) (embed_stmts names k l) (pstate k ks) =
    inr (I (fst (pcode k (length ks) l)), pstate (k + ndecls l) (ks ++ snd (pcode k (length ks) l))).
  Proof.
    induction l as [|s r IH]; intros k ks Hne Hk Hwf Hh; [contradiction|].
    rewrite wf_stmts_cons in Hwf. apply andb_true_iff in Hwf. destruct Hwf as [Hws Hwr].
    rewrite max_height_cons in Hh. rewrite embed_stmts_cons.
    assert (Hnk : next_k k s <= length names) by (rewrite <- ndecls_cons in Hk; lia).
    pose proof (compile_stmt k ks s f Hnk Hws ltac:(lia)) as Hc.
    destruct r as [|s2 r2].
    - (* the last statement *)
      cbn [embed_stmts cs_loop]. rewrite pcode_single. unfold bind. rewrite Hc.
      destruct (stmt_code k (length ks) s) as [c kk]. cbn [fst snd]. unfold ret.
      rewrite nil_after_stmt, I_app. rewrite <- ndecls_cons. cbn [ndecls]. rewrite Nat.add_0_r.
      destruct (is_expr_stmt s); reflexivity.
    - (* more statements follow *)
      assert (Hr : s2 :: r2 <> []) by discriminate.
      rewrite (embed_stmts_cons (next_k k s) s2 r2), cs_loop_cons, <- (embed_stmts_cons (next_k k s) s2 r2).
      unfold bind at 1. rewrite Hc.
      destruct (stmt_code k (length ks) s) as [c kk] eqn:Es. cbn [fst snd].
      unfold bind at 1.
      rewrite (IH (next_k k s) (ks ++ kk) Hr ltac:(rewrite ndecls_cons; exact Hk) Hwr ltac:(lia)).
      rewrite app_length, pcode_cons2, Es.
      destruct (pcode (next_k k s) (length ks + length kk) (s2 :: r2)) as [cr kr]. cbn [fst snd].
      unfold ret. rewrite pop_between_stmt, ndecls_cons, <- app_assoc, !I_app.
      destruct (is_expr_stmt s); reflexivity.
  Qed.
  Lemma strip_I l : map (fun s => match s with SI n => n | _ => PLACEHOLDER end) (I l) = l.
  Proof. unfold I. rewrite map_map. induction l; cbn; congruence. Qed.

  Lemma collect_decls_stmts st : forall l k, collect_decls (embed_stmts names k l) st = inr (tt, st).
  Proof.
    unfold collect_decls. induction l as [|s r IH]; intros k; [reflexivity|].
    rewrite embed_stmts_cons.
    destruct s as [e|i e|e]; cbn [embed_stmt]; try apply IH.
    destruct e; cbn [embed]; apply IH.
  Qed.

  Theorem compile_var_program l f :
    l <> [] -> ndecls l <= length names -> wf_stmts 0 l = true -> max_height l <= f ->
    compile_program (S f) [] (embed_stmts names 0 l) =
    inr (Code main_id main_id false 0 (fst (pcode 0 0 l)) (snd (pcode 0 0 l)) [] [] [], [root_tb (ndecls l)]).
  Proof.
    intros Hne Hn Hwf Hh. unfold compile_program. rewrite init_is_pstate.
    unfold bind at 1. unfold ret at 1. unfold bind at 1.
    rewrite (collect_decls_stmts (pstate 0 []) l 0).
    destruct l as [|s r]; [contradiction|].
    rewrite embed_stmts_cons.
    change (fix cs (l0 : list node) : M (list slot) :=
              match l0 with
              | [] => ret []
              | [x] => bind (compile (S f) x) (fun a => ret (a ++ nil_after x))
              | x :: (_ :: _) as r0 => bind (compile (S f) x) (fun a => bind (cs r0) (fun b => ret (a ++ pop_between x ++ b)))
              end) with (cs_loop (S f)).
    change (match embed_stmts names (next_k 0 s) r with [] => _ | _ :: _ => _ end)
      with (cs_loop (S f) (embed_stmt 0 s :: embed_stmts names (next_k 0 s) r)).
    rewrite <- embed_stmts_cons. unfold bind at 1.
    rewrite (cs_program f (s :: r) 0 [] Hne Hn Hwf Hh). cbn [length app Nat.add].
    destruct (pcode 0 0 (s :: r)) as [c ks]. cbn [fst snd].
    unfold bind, cur, ret. cbn [pstate st_stack st_tabs main_w w_id w_name w_consts w_names w_children].
    rewrite strip_I. reflexivity.
  Qed.
End Names.
