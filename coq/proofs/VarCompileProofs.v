(* Stages B-D, part 1: Compiler.compile_program on programs over top-level variables emits exactly [pcode]: global
   slots in declaration order, one block table per branch / loop / loop body (however deeply nested), jumps,
   the PopTop / Nil glue between statements.  The symbol tables are described by an invariant: the root table maps the
   variables declared so far to the global slots 0, 1, 2 ...; every other table is an empty block table whose parent
   is an earlier table, so every name resolves, through any chain of blocks, to its global slot. *)
From Coq Require Import List ZArith NArith Bool Arith Lia.
Require Import RV.model.Syntax RV.model.Compiler RV.model.ScalarFrag RV.model.VarProg RV.proofs.BackendProofs RV.proofs.VarProgFacts.
Import ListNotations.
Local Open Scope nat_scope.

(* insert_symbol into table 0 when that is a non-block table that does not know the name yet *)
Lemma insert_root (tb : table) rest name c stk fi :
  tb_block tb = false -> Compiler.assoc name (tb_byname tb) = None ->
  insert_symbol 0 name c {| st_tabs := tb :: rest; st_stack := stk; st_funcindex := fi |} =
  inr ({| sy_name := name; sy_index := N.of_nat (length (tb_syms tb)); sy_const := c |},
       {| st_tabs := {| tb_id := tb_id tb; tb_parent := tb_parent tb; tb_nchildren := tb_nchildren tb;
                        tb_byname := (name, {| sy_name := name; sy_index := N.of_nat (length (tb_syms tb)); sy_const := c |}) :: tb_byname tb;
                        tb_freebyname := tb_freebyname tb;
                        tb_syms := tb_syms tb ++ [ {| sy_name := name; sy_index := N.of_nat (length (tb_syms tb)); sy_const := c |} ];
                        tb_free := tb_free tb; tb_block := tb_block tb |} :: rest;
          st_stack := stk; st_funcindex := fi |}).
Proof.
  destruct tb as [tid tpar tnc tby tfb tsy tfr tbl]. cbn [tb_block tb_byname]. intros -> Ha.
  unfold insert_symbol, bind, get_tab, get, set_tab, ret. cbn. rewrite Ha. cbn. reflexivity.
Qed.

Lemma nth_cset_same (A : Type) (l : list A) i v d : i < length l -> nth i (Compiler.list_set l i v) d = v.
Proof. revert i; induction l as [|x l IH]; intros [|i] H; cbn in *; try lia; [reflexivity|apply IH; lia]. Qed.
Lemma nth_cset_other (A : Type) (l : list A) i j v d : i <> j -> nth j (Compiler.list_set l i v) d = nth j l d.
Proof. revert i j; induction l as [|x l IH]; intros [|i] [|j] H; cbn; try reflexivity; try lia. apply IH. lia. Qed.
Lemma length_cset (A : Type) (l : list A) i v : length (Compiler.list_set l i v) = length l.
Proof. revert i; induction l as [|x l IH]; intros [|i]; cbn; auto. Qed.

Lemma patch_I l : forall off a b, patch off a b (I l) = I l.
Proof. induction l as [|x l IH]; intros off a b; [reflexivity|]. cbn [I map patch]. f_equal. apply IH. Qed.

Section Names.
  Variable names : list (list N).
  Hypothesis names_nodup : NoDup names.

  (* the main code object and the compiler state around it *)
  Definition mw (t : nat) (ks : list konst) (loops : list (bool * nat)) : wcode :=
    {| w_id := main_id; w_name := main_id; w_named := false; w_functab := 0; w_tab := t;
       w_consts := ks; w_names := []; w_children := []; w_pipe := false; w_funcid := [];
       w_loops := loops; w_root := true |}.
  Definition mkst (tabs : list table) (t : nat) (ks : list konst) (loops : list (bool * nat)) : cstate :=
    {| st_tabs := tabs; st_stack := [mw t ks loops]; st_funcindex := 0 |}.

  Definition root_names (n : nat) : list (list N * symbol) := map (fun i => (nth i names [], sym_of names i)) (rev (seq 0 n)).
  (* a block table: empty, hanging under an earlier table *)
  Definition blk_ok (j : nat) (tb : table) : Prop :=
    tb_byname tb = [] /\ tb_freebyname tb = [] /\ exists p, tb_parent tb = Some p /\ p < j.
  Definition tabs_good (n : nat) (tabs : list table) : Prop :=
    0 < length tabs /\
    tb_parent (nth 0 tabs dummy_table) = None /\ tb_block (nth 0 tabs dummy_table) = false /\
    tb_byname (nth 0 tabs dummy_table) = root_names n /\
    tb_syms (nth 0 tabs dummy_table) = map (sym_of names) (seq 0 n) /\
    forall j, 0 < j < length tabs -> blk_ok j (nth j tabs dummy_table).
  (* tables are only ever added; the parent links of the existing ones stay *)
  Definition ext (tabs tabs' : list table) : Prop :=
    length tabs <= length tabs' /\
    forall j, j < length tabs -> tb_parent (nth j tabs' dummy_table) = tb_parent (nth j tabs dummy_table).
  Lemma ext_refl tabs : ext tabs tabs.
  Proof. split; [lia|reflexivity]. Qed.
  Lemma ext_trans a b c : ext a b -> ext b c -> ext a c.
  Proof. intros [H1 H2] [H3 H4]. split; [lia|]. intros j Hj. rewrite H4 by lia. apply H2. exact Hj. Qed.

  Lemma init_is_mkst : init_state [] = mkst (st_tabs (init_state [])) 0 [] [].
  Proof. reflexivity. Qed.
  Lemma init_tabs_good : tabs_good 0 (st_tabs (init_state [])).
  Proof. unfold tabs_good. cbn. repeat split; try lia. Qed.

  Lemma beq_refl (a : list N) : Compiler.beq a a = true.
  Proof. unfold Compiler.beq. destruct (list_eq_dec N.eq_dec a a); [reflexivity|contradiction]. Qed.
  Lemma beq_neq (a b : list N) : a <> b -> Compiler.beq a b = false.
  Proof. intros H. unfold Compiler.beq. destruct (list_eq_dec N.eq_dec a b); [contradiction|reflexivity]. Qed.
  Lemma names_distinct i j : i < length names -> j < length names -> i <> j -> nth i names [] <> nth j names [].
  Proof. intros Hi Hj Hne Heq. apply Hne. exact (proj1 (NoDup_nth names []) names_nodup i j Hi Hj Heq). Qed.

  Lemma root_names_S n : root_names (S n) = (nth n names [], sym_of names n) :: root_names n.
  Proof. unfold root_names. rewrite seq_S, rev_app_distr. reflexivity. Qed.
  Lemma byname_lookup n : n <= length names -> forall i, i < n ->
    Compiler.assoc (nth i names []) (root_names n) = Some (sym_of names i).
  Proof.
    induction n as [|n IH]; intros Hn i Hi; [lia|].
    rewrite root_names_S. cbn [Compiler.assoc].
    destruct (Nat.eq_dec i n) as [->|Hne].
    - rewrite beq_refl. reflexivity.
    - rewrite beq_neq by (apply names_distinct; lia). apply (IH ltac:(lia) i ltac:(lia)).
  Qed.
  Lemma byname_fresh n : n < length names -> Compiler.assoc (nth n names []) (root_names n) = None.
  Proof.
    intros Hn.
    assert (H : forall k, k <= n -> Compiler.assoc (nth n names []) (root_names k) = None).
    { induction k as [|k IH]; intros Hk; [reflexivity|].
      rewrite root_names_S. cbn [Compiler.assoc].
      rewrite beq_neq by (apply names_distinct; lia). apply IH. lia. }
    apply H. lia.
  Qed.

  (* ---------------------------------------------------------------- resolution through a chain of blocks *)
  Lemma resolve_up_chain n tabs t active d i : tabs_good n tabs -> n <= length names -> i < n ->
    forall an fuel, an < fuel -> an < length tabs ->
    resolve_up fuel tabs t active d (nth i names []) (Some an) = Some (sym_of names i, Global, 0).
  Proof.
    intros [Hlen [Hrp [Hrb [Hby [Hsy Hblk]]]]] Hn Hi.
    induction an as [an IH] using lt_wf_ind. intros fuel Hf Han.
    destruct fuel as [|f]; [lia|]. cbn [resolve_up].
    destruct (Nat.eq_dec an 0) as [->|Hnz].
    - rewrite Hby, (byname_lookup n Hn i Hi). cbn [is_global]. rewrite Hrp. reflexivity.
    - destruct (Hblk an ltac:(lia)) as [Hb [_ [p [Hp Hlt]]]]. rewrite Hb. cbn [Compiler.assoc]. rewrite Hp.
      apply IH; lia.
  Qed.

  Lemma resolve_good n tabs t ks loops i : tabs_good n tabs -> n <= length names -> t < length tabs -> i < n ->
    resolve_cur (nth i names []) (mkst tabs t ks loops) =
    inr ({| rs_sym := sym_of names i; rs_scope := Global; rs_depth := 0; rs_free := 0 |}, mkst tabs t ks loops).
  Proof.
    intros Hg Hn Ht Hi. pose proof Hg as [Hlen [Hrp [Hrb [Hby [Hsy Hblk]]]]].
    unfold resolve_cur, bind, cur. cbn [mkst st_stack]. unfold resolve, bind, get, get_tab. cbv beta. cbn [mkst mw w_tab st_tabs].
    destruct (Nat.eq_dec t 0) as [->|Hnz].
    - rewrite Hby, (byname_lookup n Hn i Hi). unfold ret, fuel_of. cbn [is_global st_tabs]. rewrite Hrp. reflexivity.
    - destruct (Hblk t ltac:(lia)) as [Hb [Hfb [p [Hp Hlt]]]]. rewrite Hb, Hfb, Hp. cbn [Compiler.assoc].
      unfold fuel_of. cbn [st_tabs].
      rewrite (resolve_up_chain n tabs t _ _ i Hg Hn Hi p (S (length tabs)) ltac:(lia) ltac:(lia)). reflexivity.
  Qed.

  Lemma add_consts_mkst tabs t ks loops ks' : add_consts (mkst tabs t ks loops) ks' = mkst tabs t (ks ++ ks') loops.
  Proof. reflexivity. Qed.

  Lemma good_res_ok n tabs t ks loops : tabs_good n tabs -> n <= length names -> t < length tabs ->
    res_ok names (mkst tabs t ks loops) n.
  Proof. intros Hg Hn Ht kk i Hi. rewrite add_consts_mkst. apply (resolve_good n); assumption. Qed.

  (* expressions on the program state *)
  Lemma compile_exp n tabs t ks loops e f : tabs_good n tabs -> n <= length names -> t < length tabs ->
    wf n e = true -> height e <= f ->
    compile f (embed names e) (mkst tabs t ks loops) =
    inr (I (fst (cexp (length ks) e)), mkst tabs t (ks ++ snd (cexp (length ks) e)) loops).
  Proof.
    intros Hg Hn Ht Hwf Hf.
    rewrite (compile_scalar_res names n e f (mkst tabs t ks loops) (mw t ks loops) [] eq_refl
               (good_res_ok n tabs t ks loops Hg Hn Ht) Hwf Hf).
    reflexivity.
  Qed.

  (* ---------------------------------------------------------------- declarations *)
  Lemma insert_next n tabs ks loops : tabs_good n tabs -> n < length names ->
    exists tabs', insert_symbol 0 (nth n names []) false (mkst tabs 0 ks loops) = inr (sym_of names n, mkst tabs' 0 ks loops) /\
                  tabs_good (S n) tabs' /\ ext tabs tabs'.
  Proof.
    intros [Hlen [Hrp [Hrb [Hby [Hsy Hblk]]]]] Hn.
    destruct tabs as [|tb rest]; [cbn in Hlen; lia|]. cbn [nth] in Hrp, Hrb, Hby, Hsy.
    eexists. split.
    - unfold mkst. rewrite (insert_root tb rest _ _ _ _ Hrb ltac:(rewrite Hby; exact (byname_fresh n Hn))).
      rewrite Hsy, map_length, seq_length. reflexivity.
    - split.
      + unfold tabs_good. cbn [nth length tb_parent tb_block tb_byname tb_syms].
        split; [lia|]. split; [exact Hrp|]. split; [exact Hrb|].
        split; [rewrite Hby, root_names_S; reflexivity|].
        split; [rewrite seq_S, map_app; reflexivity|].
        intros j Hj. destruct j as [|j]; [lia|]. exact (Hblk (S j) Hj).
      + split; [cbn [length]; lia|]. intros j Hj. destruct j as [|j]; reflexivity.
  Qed.

  (* ---------------------------------------------------------------- blocks *)
  Lemma open_block_good n tabs t ks loops : tabs_good n tabs -> t < length tabs ->
    exists tabs', open_block (mkst tabs t ks loops) = inr (tt, mkst tabs' (length tabs) ks loops) /\
                  tabs_good n tabs' /\ ext tabs tabs' /\ length tabs' = S (length tabs) /\
                  tb_parent (nth (length tabs) tabs' dummy_table) = Some t.
  Proof.
    intros [Hlen [Hrp [Hrb [Hby [Hsy Hblk]]]]] Ht.
    eexists. split.
    - unfold open_block, bind, cur, new_child, get_tab, set_tab, set_cur, bind.
      cbn [mkst st_stack st_tabs mw w_tab with_tab st_funcindex]. rewrite length_cset. reflexivity.
    - set (p := nth t tabs dummy_table).
      set (p' := {| tb_id := tb_id p; tb_parent := tb_parent p; tb_nchildren := S (tb_nchildren p);
                    tb_byname := tb_byname p; tb_freebyname := tb_freebyname p; tb_syms := tb_syms p;
                    tb_free := tb_free p; tb_block := tb_block p |}).
      assert (Hsame : forall j, j < length tabs ->
                forall (P : table -> Prop), (P (nth j tabs dummy_table) -> P p' -> True) ->
                tb_parent (nth j (Compiler.list_set tabs t p') dummy_table) = tb_parent (nth j tabs dummy_table) /\
                tb_byname (nth j (Compiler.list_set tabs t p') dummy_table) = tb_byname (nth j tabs dummy_table) /\
                tb_freebyname (nth j (Compiler.list_set tabs t p') dummy_table) = tb_freebyname (nth j tabs dummy_table) /\
                tb_syms (nth j (Compiler.list_set tabs t p') dummy_table) = tb_syms (nth j tabs dummy_table) /\
                tb_block (nth j (Compiler.list_set tabs t p') dummy_table) = tb_block (nth j tabs dummy_table)).
      { intros j Hj P _. destruct (Nat.eq_dec t j) as [<-|Hne].
        - rewrite nth_cset_same by exact Ht. repeat split; reflexivity.
        - rewrite nth_cset_other by exact Hne. repeat split; reflexivity. }
      assert (Hs : forall j, j < length tabs ->
                tb_parent (nth j (Compiler.list_set tabs t p' ++ [ {| tb_id := tb_id p ++ [46%N] ++ dec (tb_nchildren p); tb_parent := Some t; tb_nchildren := 0;
                                                                      tb_byname := []; tb_freebyname := []; tb_syms := []; tb_free := []; tb_block := true |} ]) dummy_table)
                = tb_parent (nth j tabs dummy_table)).
      { intros j Hj. rewrite app_nth1 by (rewrite length_cset; exact Hj). apply (Hsame j Hj (fun _ => True)). auto. }
      split; [|split; [|split]].
      + unfold tabs_good. rewrite app_length, length_cset. cbn [length].
        rewrite !(app_nth1 _ _ dummy_table) by (rewrite length_cset; exact Hlen).
        destruct (Hsame 0 Hlen (fun _ => True) ltac:(auto)) as [E1 [E2 [E3 [E4 E5]]]].
        rewrite E1, E2, E4, E5.
        split; [lia|]. split; [exact Hrp|]. split; [exact Hrb|]. split; [exact Hby|]. split; [exact Hsy|].
        intros j Hj. destruct (Nat.eq_dec j (length tabs)) as [->|Hne].
        * rewrite app_nth2 by (rewrite length_cset; lia). rewrite length_cset, Nat.sub_diag. cbn [nth].
          split; [reflexivity|]. split; [reflexivity|]. exists t. split; [reflexivity|exact Ht].
        * assert (Hjl : j < length tabs) by lia.
          rewrite app_nth1 by (rewrite length_cset; exact Hjl).
          destruct (Hsame j Hjl (fun _ => True) ltac:(auto)) as [F1 [F2 [F3 [F4 F5]]]].
          destruct (Hblk j ltac:(lia)) as [G1 [G2 G3]].
          unfold blk_ok. rewrite F1, F2, F3. split; [exact G1|]. split; [exact G2|exact G3].
      + split; [rewrite app_length, length_cset; cbn [length]; lia|exact Hs].
      + rewrite app_length, length_cset. cbn [length]. lia.
      + rewrite app_nth2 by (rewrite length_cset; lia). rewrite length_cset, Nat.sub_diag. reflexivity.
  Qed.

  Lemma close_block_to tabs j t ks loops : tb_parent (nth j tabs dummy_table) = Some t ->
    close_block (mkst tabs j ks loops) = inr (tt, mkst tabs t ks loops).
  Proof.
    intros H. unfold close_block, bind, cur, get_tab, set_cur. cbn [mkst st_stack st_tabs mw w_tab]. rewrite H. reflexivity.
  Qed.

  (* ---------------------------------------------------------------- unfoldings of compile *)
  Lemma compile_NVar f name v : compile (S f) (NVar name v) =
    bind (compile f v) (fun a => bind cur (fun w => bind (insert_symbol (w_tab w) name false) (fun sym =>
      bind (store_sym sym) (fun st => ret (a ++ st))))).
  Proof. reflexivity. Qed.
  Lemma compile_NAssign_eq f name v : compile (S f) (NAssign name [61%N] v) =
    bind (resolve_cur name) (fun rs =>
      if sy_const (rs_sym rs) then fail (EConstAssign name) else
      bind (compile f v) (fun a => ret (a ++ store_res rs))).
  Proof. reflexivity. Qed.

  Lemma compile_NAssign_op f name o v : is_compound o = true ->
    compile (S f) (NAssign name (op_text o ++ [61%N]) v) =
    bind (resolve_cur name) (fun rs =>
      if sy_const (rs_sym rs) then fail (EConstAssign name) else
      bind (compile f v) (fun a => ret (load_res rs ++ a ++ I (op_code o) ++ store_res rs))).
  Proof. destruct o; try discriminate; reflexivity. Qed.
  Lemma compile_NPostfix f name (up : bool) : compile (S f) (NPostfix name (if up then [43; 43]%N else [45; 45]%N)) =
    bind (resolve_cur name) (fun rs => bind (constant (KInt (if up then 1 else -1))) (fun k =>
      ret (load_res rs ++ I [opLoadConst; k; opBinaryOp; bAdd] ++ store_res rs))).
  Proof. destruct up; reflexivity. Qed.

  (* the statement loop of compileProgram and of compileBlock *)
  Definition cs_loop (fuel : nat) : list node -> M (list slot) :=
    fix cs (l : list node) : M (list slot) :=
      match l with
      | [] => ret []
      | [x] => bind (compile fuel x) (fun a => ret (a ++ nil_after x))
      | x :: r => bind (compile fuel x) (fun a => bind (cs r) (fun b => ret (a ++ pop_between x ++ b)))
      end.
  Lemma cs_loop_cons f x y r : cs_loop f (x :: y :: r) =
    bind (compile f x) (fun a => bind (cs_loop f (y :: r)) (fun b => ret (a ++ pop_between x ++ b))).
  Proof. reflexivity. Qed.

  (* compileBlock *)
  Definition cblock (fuel : nat) (l : list node) : M (list slot) :=
    bind open_block (fun _ => bind (match l with [] => ret (I [opNil]) | _ => cs_loop fuel l end)
                                   (fun c => bind close_block (fun _ => ret c))).
  Lemma compile_NIf f c cns al : compile (S f) (NIf c cns (Some al)) =
    bind (compile f c) (fun a => bind (cblock f cns) (fun t => bind (cblock f al) (fun e =>
      ret (a ++ I [opPopJumpForwardIfFalse; (nlen t + 4)%N] ++ t ++ I [opJumpForward; (nlen e + 2)%N] ++ e)))).
  Proof. reflexivity. Qed.
  Lemma compile_NIf1 f c cns : compile (S f) (NIf c cns None) =
    bind (compile f c) (fun a => bind (cblock f cns) (fun t => bind (ret (I [opNil])) (fun e =>
      ret (a ++ I [opPopJumpForwardIfFalse; (nlen t + 4)%N] ++ t ++ I [opJumpForward; (nlen e + 2)%N] ++ e)))).
  Proof. reflexivity. Qed.
  (* compileForCondition *)
  Lemma compile_NFor_cond f e body : compile (S f) (NFor (Some (embed names e)) None None body) =
    bind open_block (fun _ => bind (push_loop false) (fun _ =>
      bind (compile f (embed names e)) (fun cc => bind (cblock f body) (fun b =>
        bind pop_loop (fun _ => bind close_block (fun _ =>
          let pre := cc ++ I [opPopJumpForwardIfFalse; (nlen b + 2 + 1 + 2 + 1)%N] in
          let inner := pre ++ b ++ I [opPopTop] in
          let jb := nlen inner in
          ret (patch 0 (jb + 2) jb inner ++ I [opJumpBackward; jb; opNop]))))))).
  Proof. destruct e; reflexivity. Qed.

  Lemma compile_NBreak f tabs t ks rest : compile (S f) NBreak (mkst tabs t ks ((false, 0) :: rest)) =
    inr ([SI opJumpForward; SBrk], mkst tabs t ks ((false, 0) :: rest)).
  Proof. reflexivity. Qed.
  Lemma compile_NContinue f tabs t ks rest : compile (S f) NContinue (mkst tabs t ks ((false, 0) :: rest)) =
    inr ([SI opJumpForward; SCont], mkst tabs t ks ((false, 0) :: rest)).
  Proof. reflexivity. Qed.

  Lemma push_loop_mkst tabs t ks loops b : push_loop b (mkst tabs t ks loops) = inr (tt, mkst tabs t ks ((b, 0) :: loops)).
  Proof. reflexivity. Qed.
  Lemma pop_loop_mkst tabs t ks loops x : pop_loop (mkst tabs t ks (x :: loops)) = inr (tt, mkst tabs t ks loops).
  Proof. reflexivity. Qed.

  Lemma pop_between_stmt k s : pop_between (embed_stmt names k s) = if is_expr_stmt s then I [opPopTop] else [].
  Proof. destruct s; cbn [embed_stmt is_expr_stmt]; unfold pop_between; try reflexivity. rewrite embed_is_expression; reflexivity. Qed.
  Lemma nil_after_stmt k s : nil_after (embed_stmt names k s) = if is_expr_stmt s then [] else I [opNil].
  Proof. destruct s; cbn [embed_stmt is_expr_stmt]; unfold nil_after; try reflexivity. rewrite embed_is_expression; reflexivity. Qed.

  (* ---------------------------------------------------------------- statements, lists, blocks *)
  (* what holds of one statement compiled with fuel S f *)
  Definition loops_ok (lp : bool) (loops : list (bool * nat)) : Prop :=
    lp = true -> exists rest, loops = (false, 0) :: rest.
  Definition stmt_ok (f : nat) : Prop :=
    forall s k tabs t ks loops top lp,
      sheight s <= f -> next_k k s <= length names -> wf_stmt top lp k s = true -> (top = true -> t = 0) ->
      loops_ok lp loops -> tabs_good k tabs -> t < length tabs ->
      exists tabs', compile (S f) (embed_stmt names k s) (mkst tabs t ks loops) =
                    inr (fst (stmt_code k (length ks) s), mkst tabs' t (ks ++ snd (stmt_code k (length ks) s)) loops) /\
                    tabs_good (next_k k s) tabs' /\ ext tabs tabs'.

  Lemma cs_list f : stmt_ok f -> forall l k tabs t ks loops top lp,
    l <> [] -> max_height l <= f -> k + ndecls l <= length names -> wf_stmts top lp k l = true -> (top = true -> t = 0) ->
    loops_ok lp loops -> tabs_good k tabs -> t < length tabs ->
    exists tabs', cs_loop (S f) (embed_stmts names k l) (mkst tabs t ks loops) =
                  inr (fst (scode k (length ks) l), mkst tabs' t (ks ++ snd (scode k (length ks) l)) loops) /\
                  tabs_good (k + ndecls l) tabs' /\ ext tabs tabs'.
  Proof.
    intros Hst. induction l as [|s r IH]; intros k tabs t ks loops top lp Hne Hh Hk Hwf Htop Hlp Hg Ht; [contradiction|].
    rewrite wf_stmts_cons in Hwf. apply andb_true_iff in Hwf. destruct Hwf as [Hws Hwr].
    rewrite max_height_cons in Hh. rewrite embed_stmts_cons.
    assert (Hnk : next_k k s <= length names) by (rewrite <- ndecls_cons in Hk; lia).
    destruct (Hst s k tabs t ks loops top lp ltac:(lia) Hnk Hws Htop Hlp Hg Ht) as [tabs1 [Hc [Hg1 Hx1]]].
    destruct r as [|s2 r2].
    - (* the last statement *)
      exists tabs1. split; [|split; [|exact Hx1]].
      + cbn [embed_stmts embed_list cs_loop]. rewrite scode_single. unfold bind. rewrite Hc.
        destruct (stmt_code k (length ks) s) as [c kk]. cbn [fst snd]. unfold ret.
        rewrite nil_after_stmt. destruct (is_expr_stmt s); reflexivity.
      + rewrite <- ndecls_cons. cbn [ndecls]. rewrite Nat.add_0_r. exact Hg1.
    - (* more statements follow *)
      assert (Hr : s2 :: r2 <> []) by discriminate.
      assert (Ht1 : t < length tabs1) by (destruct Hx1 as [Hl _]; lia).
      destruct (stmt_code k (length ks) s) as [c kk] eqn:Es. cbn [fst snd] in Hc.
      destruct (IH (next_k k s) tabs1 t (ks ++ kk) loops top lp Hr ltac:(lia) ltac:(rewrite ndecls_cons; exact Hk) Hwr Htop Hlp Hg1 Ht1)
        as [tabs2 [Hc2 [Hg2 Hx2]]].
      exists tabs2. split; [|split; [|exact (ext_trans _ _ _ Hx1 Hx2)]].
      + rewrite (embed_stmts_cons names (next_k k s) s2 r2), cs_loop_cons, <- (embed_stmts_cons names (next_k k s) s2 r2).
        unfold bind at 1. rewrite Hc. unfold bind at 1. rewrite Hc2.
        rewrite app_length, scode_cons2, Es.
        destruct (scode (next_k k s) (length ks + length kk) (s2 :: r2)) as [cr kr]. cbn [fst snd].
        unfold ret. rewrite pop_between_stmt, <- app_assoc.
        destruct (is_expr_stmt s); reflexivity.
      + rewrite <- ndecls_cons. exact Hg2.
  Qed.

  (* a whole block: opens a table, compiles the statements (Nil for none), closes it *)
  Lemma cblock_good f : stmt_ok f -> forall l k tabs t ks loops lp,
    max_height l <= f -> k <= length names -> wf_stmts false lp k l = true -> loops_ok lp loops -> tabs_good k tabs -> t < length tabs ->
    exists tabs', cblock (S f) (embed_stmts names k l) (mkst tabs t ks loops) =
                  inr (fst (block_code k (length ks) l), mkst tabs' t (ks ++ snd (block_code k (length ks) l)) loops) /\
                  tabs_good k tabs' /\ ext tabs tabs'.
  Proof.
    intros Hst l k tabs t ks loops lp Hh Hk Hwf Hlp Hg Ht.
    destruct (open_block_good k tabs t ks loops Hg Ht) as [tabs1 [Ho [Hg1 [Hx1 [Hl1 Hp1]]]]].
    unfold cblock. unfold bind at 1. rewrite Ho.
    destruct l as [|s r].
    - exists tabs1. split; [|split; assumption].
      cbn [embed_stmts embed_list]. rewrite block_code_nil. cbn [fst snd]. unfold bind, ret.
      rewrite (close_block_to tabs1 (length tabs) t ks loops Hp1), app_nil_r. reflexivity.
    - assert (Hne : s :: r <> []) by discriminate.
      pose proof (wf_false_ndecls _ _ _ Hwf) as Hnd.
      destruct (cs_list f Hst (s :: r) k tabs1 (length tabs) ks loops false lp Hne Hh ltac:(lia) Hwf ltac:(discriminate) Hlp Hg1 ltac:(lia))
        as [tabs2 [Hc [Hg2 Hx2]]].
      exists tabs2. rewrite Hnd, Nat.add_0_r in Hg2. split; [|split; [exact Hg2|exact (ext_trans _ _ _ Hx1 Hx2)]].
      rewrite embed_stmts_cons. rewrite embed_stmts_cons in Hc.
      unfold bind at 1. rewrite Hc. rewrite block_code_cons.
      destruct (scode k (length ks) (s :: r)) as [c kk]. cbn [fst snd].
      unfold bind, ret. rewrite (close_block_to tabs2 (length tabs) t _ loops); [reflexivity|].
      destruct Hx2 as [_ Hpp]. rewrite Hpp by lia. exact Hp1.
  Qed.

  Theorem compile_stmt : forall f, stmt_ok f.
  Proof.
    induction f as [f IH] using lt_wf_ind.
    intros s k tabs t ks loops top lp Hh Hk Hwf Htop Hlp Hg Ht.
    destruct s as [e|i e|i o e|i up|e|c tb eb|c tb|c b| |].
    - (* x := e *)
      cbn [embed_stmt stmt_code next_k wf_stmt sheight] in *.
      apply andb_true_iff in Hwf. destruct Hwf as [Hto Hwf]. rewrite (Htop Hto) in *.
      rewrite compile_NVar.
      destruct (cexp (length ks) e) as [c kk] eqn:Ee.
      destruct (insert_next k tabs (ks ++ kk) loops Hg ltac:(lia)) as [tabs1 [Hin [Hg1 Hx1]]].
      exists tabs1. split; [|split; assumption].
      unfold bind at 1. rewrite (compile_exp k tabs 0 ks loops e f Hg ltac:(lia) Ht Hwf Hh), Ee. cbn [fst snd].
      unfold bind, cur. cbn [mkst st_stack mw w_tab]. fold (mw 0 (ks ++ kk) loops). fold (mkst tabs 0 (ks ++ kk) loops).
      rewrite Hin.
      unfold store_sym, bind, is_root, cur, ret. cbn [mkst st_stack mw w_root sym_of sy_index].
      rewrite I_app. reflexivity.
    - (* x = e *)
      cbn [embed_stmt stmt_code next_k wf_stmt sheight] in *.
      apply andb_true_iff in Hwf. destruct Hwf as [Hi Hwf]. apply Nat.ltb_lt in Hi.
      exists tabs. split; [|split; [exact Hg|apply ext_refl]].
      rewrite compile_NAssign_eq. unfold bind at 1.
      rewrite (resolve_good k tabs t ks loops i Hg Hk Ht Hi).
      cbn [rs_sym sym_of sy_const]. unfold bind.
      rewrite (compile_exp k tabs t ks loops e f Hg Hk Ht Hwf Hh).
      destruct (cexp (length ks) e) as [c kk]. cbn [fst snd].
      unfold ret, store_res. cbn [rs_scope rs_sym sym_of sy_index]. rewrite I_app. reflexivity.
    - (* x += e *)
      cbn [embed_stmt stmt_code next_k wf_stmt sheight] in *.
      apply andb_true_iff in Hwf. destruct Hwf as [Hwf Ho]. apply andb_true_iff in Hwf. destruct Hwf as [Hi Hwf]. apply Nat.ltb_lt in Hi.
      exists tabs. split; [|split; [exact Hg|apply ext_refl]].
      rewrite (compile_NAssign_op f _ o _ Ho). unfold bind at 1.
      rewrite (resolve_good k tabs t ks loops i Hg Hk Ht Hi).
      cbn [rs_sym sym_of sy_const]. unfold bind.
      rewrite (compile_exp k tabs t ks loops e f Hg Hk Ht Hwf Hh).
      destruct (cexp (length ks) e) as [c kk]. cbn [fst snd].
      unfold ret, store_res, load_res. cbn [rs_scope rs_sym sym_of sy_index]. rewrite <- !I_app. reflexivity.
    - (* x++ / x-- *)
      cbn [embed_stmt stmt_code next_k wf_stmt sheight fst snd] in *. apply Nat.ltb_lt in Hwf.
      exists tabs. split; [|split; [exact Hg|apply ext_refl]].
      rewrite compile_NPostfix. unfold bind at 1.
      rewrite (resolve_good k tabs t ks loops i Hg Hk Ht Hwf).
      unfold bind. rewrite (constant_spec _ (mkst tabs t ks loops) (mw t ks loops) [] eq_refl).
      unfold ret, store_res, load_res. cbn [rs_scope rs_sym sym_of sy_index mw w_consts]. rewrite <- !I_app. reflexivity.
    - (* e *)
      cbn [embed_stmt stmt_code next_k wf_stmt sheight] in *.
      exists tabs. split; [|split; [exact Hg|apply ext_refl]].
      exact (compile_exp k tabs t ks loops e (S f) Hg Hk Ht Hwf ltac:(lia)).
    - (* if c { tb } else { eb } *)
      rewrite wf_SIf in Hwf. apply andb_true_iff in Hwf. destruct Hwf as [Hwct Hwe].
      apply andb_true_iff in Hwct. destruct Hwct as [Hwc Hwt].
      rewrite sheight_SIf in Hh. destruct f as [|f]; [lia|]. cbn [next_k] in *.
      assert (Hst : stmt_ok f) by (apply IH; lia).
      rewrite embed_SIf, code_SIf, compile_NIf.
      destruct (cexp (length ks) c) as [cc kc] eqn:Ec.
      destruct (cblock_good f Hst tb k tabs t (ks ++ kc) loops lp ltac:(lia) Hk Hwt Hlp Hg Ht) as [tabs1 [Hc1 [Hg1 Hx1]]].
      rewrite app_length in Hc1.
      destruct (block_code k (length ks + length kc) tb) as [ct kt] eqn:Et. cbn [fst snd] in Hc1.
      assert (Ht1 : t < length tabs1) by (destruct Hx1 as [Hl _]; lia).
      destruct (cblock_good f Hst eb k tabs1 t ((ks ++ kc) ++ kt) loops lp ltac:(lia) Hk Hwe Hlp Hg1 Ht1) as [tabs2 [Hc2 [Hg2 Hx2]]].
      rewrite !app_length in Hc2.
      destruct (block_code k (length ks + length kc + length kt) eb) as [ce ke] eqn:Ee. cbn [fst snd] in Hc2.
      exists tabs2. split; [|split; [exact Hg2|exact (ext_trans _ _ _ Hx1 Hx2)]].
      unfold bind at 1. rewrite (compile_exp k tabs t ks loops c (S f) Hg Hk Ht Hwc ltac:(lia)), Ec. cbn [fst snd].
      unfold bind at 1. rewrite Hc1. unfold bind at 1. rewrite Hc2.
      unfold ret. rewrite <- !app_assoc. reflexivity.
    - (* if c { tb } *)
      rewrite wf_SIf1 in Hwf. apply andb_true_iff in Hwf. destruct Hwf as [Hwc Hwt].
      rewrite sheight_SIf1 in Hh. destruct f as [|f]; [lia|]. cbn [next_k] in *.
      assert (Hst : stmt_ok f) by (apply IH; lia).
      rewrite embed_SIf1, code_SIf1, compile_NIf1.
      destruct (cexp (length ks) c) as [cc kc] eqn:Ec.
      destruct (cblock_good f Hst tb k tabs t (ks ++ kc) loops lp ltac:(lia) Hk Hwt Hlp Hg Ht) as [tabs1 [Hc1 [Hg1 Hx1]]].
      rewrite app_length in Hc1.
      destruct (block_code k (length ks + length kc) tb) as [ct kt] eqn:Et. cbn [fst snd] in Hc1.
      exists tabs1. split; [|split; [exact Hg1|exact Hx1]].
      unfold bind at 1. rewrite (compile_exp k tabs t ks loops c (S f) Hg Hk Ht Hwc ltac:(lia)), Ec. cbn [fst snd].
      unfold bind at 1. rewrite Hc1. unfold bind at 1. unfold ret at 1.
      unfold ret. rewrite <- !app_assoc. reflexivity.
    - (* for c { b } *)
      rewrite wf_SWhile in Hwf. apply andb_true_iff in Hwf. destruct Hwf as [Hwc Hwb].
      rewrite sheight_SWhile in Hh. destruct f as [|f]; [lia|]. cbn [next_k] in *.
      assert (Hst : stmt_ok f) by (apply IH; lia).
      rewrite embed_SWhile, code_SWhile, compile_NFor_cond.
      destruct (open_block_good k tabs t ks loops Hg Ht) as [tabs1 [Ho [Hg1 [Hx1 [Hl1 Hp1]]]]].
      destruct (cexp (length ks) c) as [cc kc] eqn:Ec.
      assert (Hlp' : loops_ok true ((false, 0) :: loops)) by (intros _; eexists; reflexivity).
      destruct (cblock_good f Hst b k tabs1 (length tabs) (ks ++ kc) ((false, 0) :: loops) true ltac:(lia) Hk Hwb Hlp' Hg1 ltac:(lia))
        as [tabs2 [Hc2 [Hg2 Hx2]]].
      rewrite app_length in Hc2.
      destruct (block_code k (length ks + length kc) b) as [cb kb] eqn:Eb. cbn [fst snd] in Hc2.
      exists tabs2. split; [|split; [exact Hg2|exact (ext_trans _ _ _ Hx1 Hx2)]].
      unfold bind at 1. rewrite Ho. unfold bind at 1. rewrite push_loop_mkst.
      unfold bind at 1.
      rewrite (compile_exp k tabs1 (length tabs) ks ((false, 0) :: loops) c (S f) Hg1 Hk ltac:(lia) Hwc ltac:(lia)), Ec. cbn [fst snd].
      unfold bind at 1. rewrite Hc2. unfold bind at 1. rewrite pop_loop_mkst.
      unfold bind at 1. rewrite (close_block_to tabs2 (length tabs) t _ loops) by (destruct Hx2 as [_ Hpp]; rewrite Hpp by lia; exact Hp1).
      cbv zeta. unfold ret.
      replace (nlen cb + 2 + 1 + 2 + 1)%N with (nlen cb + 6)%N by lia.
      rewrite <- !app_assoc. reflexivity.
    - (* break *)
      cbn [wf_stmt] in Hwf. destruct (Hlp Hwf) as [rest ->].
      exists tabs. split; [|split; [exact Hg|apply ext_refl]].
      cbn [embed_stmt stmt_code fst snd]. rewrite compile_NBreak, app_nil_r. reflexivity.
    - (* continue *)
      cbn [wf_stmt] in Hwf. destruct (Hlp Hwf) as [rest ->].
      exists tabs. split; [|split; [exact Hg|apply ext_refl]].
      cbn [embed_stmt stmt_code fst snd]. rewrite compile_NContinue, app_nil_r. reflexivity.
  Qed.

  (* ---------------------------------------------------------------- the program *)
  Lemma strip_I l : map (fun s => match s with SI n => n | _ => PLACEHOLDER end) (I l) = l.
  Proof. unfold I. rewrite map_map. induction l; cbn; congruence. Qed.

  Lemma collect_decls_stmts st : forall l k, collect_decls (embed_stmts names k l) st = inr (tt, st).
  Proof.
    unfold collect_decls. induction l as [|s r IH]; intros k; [reflexivity|].
    rewrite embed_stmts_cons.
    destruct s as [e|i e|i o e|i up|e|c t e|c t|c b| |]; cbn [embed_stmt]; try apply IH.
    destruct e; cbn [embed]; apply IH.
  Qed.

  Theorem compile_var_program l f :
    l <> [] -> ndecls l <= length names -> wf_stmts true false 0 l = true -> max_height l <= f ->
    exists tabs, compile_program (S f) [] (embed_stmts names 0 l) =
                 inr (Code main_id main_id false 0 (fst (pcode 0 0 l)) (snd (pcode 0 0 l)) [] [] [], tabs).
  Proof.
    intros Hne Hn Hwf Hh.
    destruct (cs_list f (compile_stmt f) l 0 (st_tabs (init_state [])) 0 [] [] true false Hne Hh Hn Hwf (fun _ => eq_refl)
                ltac:(intros H; discriminate) init_tabs_good ltac:(cbn; lia)) as [tabs [Hc _]].
    exists tabs. unfold compile_program. rewrite init_is_mkst.
    unfold bind at 1. unfold ret at 1. unfold bind at 1.
    rewrite (collect_decls_stmts _ l 0).
    destruct l as [|s r]; [contradiction|].
    rewrite embed_stmts_cons. rewrite embed_stmts_cons in Hc.
    change (fix cs (l0 : list node) : M (list slot) :=
              match l0 with
              | [] => ret []
              | [x] => bind (compile (S f) x) (fun a => ret (a ++ nil_after x))
              | x :: (_ :: _) as r0 => bind (compile (S f) x) (fun a => bind (cs r0) (fun b => ret (a ++ pop_between x ++ b)))
              end) with (cs_loop (S f)).
    change (match embed_stmts names (next_k 0 s) r with [] => _ | _ :: _ => _ end)
      with (cs_loop (S f) (embed_stmt names 0 s :: embed_stmts names (next_k 0 s) r)).
    unfold bind at 1. rewrite Hc. cbn [length app Nat.add].
    unfold pcode. destruct (scode 0 0 (s :: r)) as [c ks]. cbn [fst snd].
    unfold bind, cur, ret. cbn [mkst st_stack st_tabs mw w_id w_name w_consts w_names w_children].
    reflexivity.
  Qed.
End Names.
