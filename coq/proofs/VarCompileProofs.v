(* Stages B-G, part 1: Compiler.compile_program on programs over variables emits exactly [pcode]: one global slot per
   declaration in program-text order (whatever block it is in), one block table per branch / loop / loop body, jumps, the
   placeholders of break / continue patched by the enclosing loop, the PopTop / Nil glue between statements.
   The symbol tables are described by an invariant ([chain]): from the current table up to the root every table is an
   open block that knows exactly the variables declared in it so far, each bound to its global slot; so every visible
   name resolves, through any chain of blocks, to its slot, and a variable whose block has ended is no longer found. *)
From Coq Require Import List ZArith NArith Bool Arith Lia.
Require Import RV.model.Syntax RV.model.Compiler RV.model.ScalarFrag RV.model.VarProg RV.proofs.BackendProofs RV.proofs.VarProgFacts.
Import ListNotations.
Local Open Scope nat_scope.

Lemma nth_cset_same (A : Type) (l : list A) i v d : i < length l -> nth i (Compiler.list_set l i v) d = v.
Proof. revert i; induction l as [|x l IH]; intros [|i] H; cbn in *; try lia; [reflexivity|apply IH; lia]. Qed.
Lemma nth_cset_other (A : Type) (l : list A) i j v d : i <> j -> nth j (Compiler.list_set l i v) d = nth j l d.
Proof. revert i j; induction l as [|x l IH]; intros [|i] [|j] H; cbn; try reflexivity; try lia. apply IH. lia. Qed.
Lemma length_cset (A : Type) (l : list A) i v : length (Compiler.list_set l i v) = length l.
Proof. revert i; induction l as [|x l IH]; intros [|i]; cbn; auto. Qed.

Section Names.
  Variable names : list (list N).
  Hypothesis names_nodup : NoDup names.

  (* the main code object and the compiler state around it *)
  Definition mw (t : nat) (ks : list konst) (loops : list (bool * nat)) : wcode :=
    {| w_id := main_id; w_name := main_id; w_named := false; w_functab := 0; w_tab := t;
       w_consts := ks; w_names := []; w_children := []; w_pipe := false; w_funcid := [];
       w_loops := loops; w_root := true |}.
  Definition mkst (tabs : list table) (t : nat) (ks : list konst) (loops : list (bool * nat)) : cstate :=
    {| st_tabs := tabs; st_stack := [mw t ks loops]; st_funcindex := 0 |}.

  (* the symbol of global slot sl, and the by-name list of a table in which the slots l were declared (newest first) *)
  Definition sym (sl : nat) : symbol := {| sy_name := nth sl names []; sy_index := N.of_nat sl; sy_const := false |}.
  Definition binds (l : list nat) : list (list N * symbol) := map (fun sl => (nth sl names [], sym sl)) (rev l).

  (* the open tables from the current one to the root, each with the slots declared in it *)
  Inductive chain (tabs : list table) : list (nat * list nat) -> Prop :=
  | chain_root l :
      0 < length tabs ->
      tb_parent (nth 0 tabs dummy_table) = None -> tb_block (nth 0 tabs dummy_table) = false ->
      tb_byname (nth 0 tabs dummy_table) = binds l -> tb_freebyname (nth 0 tabs dummy_table) = [] ->
      chain tabs [(0, l)]
  | chain_blk t l p lp rest :
      0 < t -> t < length tabs -> p < t ->
      tb_parent (nth t tabs dummy_table) = Some p -> tb_block (nth t tabs dummy_table) = true ->
      tb_byname (nth t tabs dummy_table) = binds l -> tb_freebyname (nth t tabs dummy_table) = [] ->
      chain tabs ((p, lp) :: rest) ->
      chain tabs ((t, l) :: (p, lp) :: rest).
  (* the visible slots, in declaration order *)
  Definition flat (ch : list (nat * list nat)) : list nat := concat (rev (map snd ch)).
  (* the invariant: the chain, k symbols in all (they all live in the root table), every visible slot below k *)
  Definition cinv (k : nat) (tabs : list table) (ch : list (nat * list nat)) : Prop :=
    chain tabs ch /\ length (tb_syms (nth 0 tabs dummy_table)) = k /\ Forall (fun sl => sl < k) (flat ch) /\ k <= length names.

  Lemma flat_cons t l rest : flat ((t, l) :: rest) = flat rest ++ l.
  Proof. unfold flat. cbn [map snd rev]. rewrite concat_app. cbn [concat]. rewrite app_nil_r. reflexivity. Qed.
  Lemma flat_decl t l rest k : flat ((t, l ++ [k]) :: rest) = flat ((t, l) :: rest) ++ [k].
  Proof. rewrite !flat_cons, app_assoc. reflexivity. Qed.

  Lemma beq_refl (a : list N) : Compiler.beq a a = true.
  Proof. unfold Compiler.beq. destruct (list_eq_dec N.eq_dec a a); [reflexivity|contradiction]. Qed.
  Lemma beq_neq (a b : list N) : a <> b -> Compiler.beq a b = false.
  Proof. intros H. unfold Compiler.beq. destruct (list_eq_dec N.eq_dec a b); [contradiction|reflexivity]. Qed.
  Lemma names_distinct i j : i < length names -> j < length names -> i <> j -> nth i names [] <> nth j names [].
  Proof. intros Hi Hj Hne Heq. apply Hne. exact (proj1 (NoDup_nth names []) names_nodup i j Hi Hj Heq). Qed.

  (* looking a slot's name up in a by-name list *)
  Lemma assoc_slots sl : sl < length names -> forall m, Forall (fun x => x < length names) m ->
    Compiler.assoc (nth sl names []) (map (fun x => (nth x names [], sym x)) m) =
    if in_dec Nat.eq_dec sl m then Some (sym sl) else None.
  Proof.
    intros Hsl. induction m as [|x m IH]; intros Hm; [reflexivity|].
    inversion Hm as [|? ? Hx Hm']; subst. cbn [map Compiler.assoc].
    destruct (Nat.eq_dec sl x) as [->|Hne].
    - rewrite beq_refl. destruct (in_dec Nat.eq_dec x (x :: m)) as [_|Hn]; [reflexivity|exfalso; apply Hn; left; reflexivity].
    - rewrite beq_neq by (apply names_distinct; assumption). rewrite (IH Hm').
      destruct (in_dec Nat.eq_dec sl m) as [Hin|Hn]; destruct (in_dec Nat.eq_dec sl (x :: m)) as [Hin2|Hn2]; try reflexivity.
      + exfalso. apply Hn2. right. exact Hin.
      + exfalso. destruct Hin2 as [->|Hin2]; [apply Hne; reflexivity|apply Hn; exact Hin2].
  Qed.
  Lemma assoc_binds sl l : sl < length names -> Forall (fun x => x < length names) l ->
    Compiler.assoc (nth sl names []) (binds l) = if in_dec Nat.eq_dec sl l then Some (sym sl) else None.
  Proof.
    intros Hsl Hl. unfold binds. rewrite (assoc_slots sl Hsl (rev l)) by (apply Forall_rev; exact Hl).
    destruct (in_dec Nat.eq_dec sl (rev l)) as [H|H]; destruct (in_dec Nat.eq_dec sl l) as [H2|H2]; try reflexivity.
    - exfalso. apply H2. apply in_rev. exact H.
    - exfalso. apply H. apply in_rev in H2. exact H2.
  Qed.

  (* ---------------------------------------------------------------- facts about chains *)
  Lemma chain_head_lt tabs t l rest : chain tabs ((t, l) :: rest) -> t < length tabs.
  Proof. intros H. inversion H; subst; assumption. Qed.

  (* only four fields of the tables at indices up to the current one matter *)
  Definition same_fields (a b : table) : Prop :=
    tb_parent a = tb_parent b /\ tb_block a = tb_block b /\ tb_byname a = tb_byname b /\ tb_freebyname a = tb_freebyname b.
  Lemma chain_mono tabs tabs' : length tabs <= length tabs' -> forall ch t l rest, ch = (t, l) :: rest ->
    (forall j, j <= t -> same_fields (nth j tabs' dummy_table) (nth j tabs dummy_table)) ->
    chain tabs ch -> chain tabs' ch.
  Proof.
    intros Hlen ch t l rest Hch Hsame H. revert t l rest Hch Hsame.
    induction H as [l0 H0 H1 H2 H3 H4|t0 l0 p lp rest0 Ht0 Ht1 Hp Hpar Hblk Hby Hfb Hrest IH]; intros t l rest Hch Hsame; inversion Hch; subst.
    - destruct (Hsame 0 (le_n _)) as [E1 [E2 [E3 E4]]].
      apply chain_root; [lia|rewrite E1; exact H1|rewrite E2; exact H2|rewrite E3; exact H3|rewrite E4; exact H4].
    - destruct (Hsame t (le_n _)) as [E1 [E2 [E3 E4]]].
      apply chain_blk; try assumption; try lia; [rewrite E1; exact Hpar|rewrite E2; exact Hblk|rewrite E3; exact Hby|rewrite E4; exact Hfb|].
      apply (IH p lp rest0 eq_refl). intros j Hj. apply Hsame. lia.
  Qed.

  Lemma chain_is_global tabs ch : chain tabs ch -> forall t l rest fuel, ch = (t, l) :: rest -> is_global fuel tabs t = true.
  Proof.
    intros H. induction H as [l0 H0 H1 H2 H3 H4|t0 l0 p lp rest0 Ht0 Ht1 Hp Hpar Hblk Hby Hfb Hrest IH]; intros t l rest fuel Hch; inversion Hch; subst.
    - destruct fuel; [reflexivity|]. cbn [is_global]. rewrite H1. reflexivity.
    - destruct fuel; [reflexivity|]. cbn [is_global]. rewrite Hpar, Hblk. exact (IH p lp rest0 fuel eq_refl).
  Qed.

  Lemma chain_len tabs ch : chain tabs ch -> forall t l rest, ch = (t, l) :: rest -> length ch <= S t.
  Proof.
    intros H. induction H as [l0 H0 H1 H2 H3 H4|t0 l0 p lp rest0 Ht0 Ht1 Hp Hpar Hblk Hby Hfb Hrest IH]; intros t l rest Hch; inversion Hch; subst.
    - cbn. lia.
    - pose proof (IH p lp rest0 eq_refl). cbn [length] in *. lia.
  Qed.

  Lemma chain_owner tabs ch : chain tabs ch -> forall t l rest fuel, ch = (t, l) :: rest -> length ch <= fuel -> owner fuel tabs t = 0.
  Proof.
    intros H. induction H as [l0 H0 H1 H2 H3 H4|t0 l0 p lp rest0 Ht0 Ht1 Hp Hpar Hblk Hby Hfb Hrest IH]; intros t l rest fuel Hch Hf; inversion Hch; subst.
    - destruct fuel; [reflexivity|]. cbn [owner]. rewrite H2. reflexivity.
    - destruct fuel; [cbn in Hf; lia|]. cbn [owner]. rewrite Hblk, Hpar. apply (IH p lp rest0 fuel eq_refl). cbn [length] in *. lia.
  Qed.

  Lemma chain_tail tabs t l p lp rest : chain tabs ((t, l) :: (p, lp) :: rest) ->
    tb_parent (nth t tabs dummy_table) = Some p /\ chain tabs ((p, lp) :: rest).
  Proof. intros H. inversion H; subst. split; assumption. Qed.

  (* ---------------------------------------------------------------- resolution through a chain of blocks *)
  Lemma resolve_up_chain tabs t0 active d sl : sl < length names ->
    forall ch, chain tabs ch -> Forall (fun x => x < length names) (flat ch) -> In sl (flat ch) ->
    forall an l rest fuel, ch = (an, l) :: rest -> length ch <= fuel ->
    resolve_up fuel tabs t0 active d (nth sl names []) (Some an) = Some (sym sl, Global, 0).
  Proof.
    intros Hsl ch H. induction H as [l0 H0 H1 H2 H3 H4|t1 l0 p lp rest0 Ht0 Ht1 Hp Hpar Hblk Hby Hfb Hrest IH];
      intros Hb Hin an l rest fuel Hch Hf; inversion Hch; subst; (destruct fuel as [|f]; [cbn in Hf; lia|]); cbn [resolve_up].
    - rewrite flat_cons in Hb, Hin. cbn [flat map rev concat app] in Hb, Hin.
      rewrite H3, (assoc_binds sl l Hsl Hb).
      destruct (in_dec Nat.eq_dec sl l) as [_|Hn]; [|contradiction].
      rewrite (chain_is_global tabs _ (chain_root tabs l H0 H1 H2 H3 H4) 0 l [] _ eq_refl). reflexivity.
    - rewrite flat_cons in Hb, Hin. apply Forall_app in Hb. destruct Hb as [Hb1 Hb2].
      rewrite Hby, (assoc_binds sl l Hsl Hb2).
      destruct (in_dec Nat.eq_dec sl l) as [Hl|Hn].
      + rewrite (chain_is_global tabs _ (chain_blk tabs an l p lp rest0 Ht0 Ht1 Hp Hpar Hblk Hby Hfb Hrest) an l _ _ eq_refl). reflexivity.
      + rewrite Hpar.
        assert (Hin' : In sl (flat ((p, lp) :: rest0))) by (apply in_app_or in Hin; destruct Hin as [Hin|Hin]; [exact Hin|contradiction]).
        exact (IH Hb1 Hin' p lp rest0 f eq_refl ltac:(cbn [length] in *; lia)).
  Qed.

  Lemma resolve_good k tabs ch t l rest ks loops sl : cinv k tabs ch -> ch = (t, l) :: rest -> In sl (flat ch) ->
    resolve_cur (nth sl names []) (mkst tabs t ks loops) =
    inr ({| rs_sym := sym sl; rs_scope := Global; rs_depth := 0; rs_free := 0 |}, mkst tabs t ks loops).
  Proof.
    intros [Hch [Hk [Hb Hkn]]] -> Hin.
    assert (Hbn : Forall (fun x => x < length names) (flat ((t, l) :: rest)))
      by (eapply Forall_impl; [|exact Hb]; cbn; intros; lia).
    assert (Hsl : sl < length names) by (exact (proj1 (Forall_forall _ _) Hbn sl Hin)).
    unfold resolve_cur, bind, cur. cbn [mkst st_stack]. unfold resolve, bind, get, get_tab. cbv beta. cbn [mkst mw w_tab st_tabs].
    pose proof (chain_is_global tabs _ Hch t l rest (fuel_of (mkst tabs t ks loops)) eq_refl) as Hglob.
    rewrite flat_cons in Hin, Hbn. apply Forall_app in Hbn. destruct Hbn as [Hb1 Hb2].
    inversion Hch as [l0 H0 H1 H2 H3 H4|t1 l0 p lp rest0 Ht0 Ht1 Hp Hpar Hblk Hby Hfb Hrest]; subst.
    - cbn [flat map rev concat app] in Hin.
      rewrite H3, (assoc_binds sl l Hsl Hb2).
      destruct (in_dec Nat.eq_dec sl l) as [_|Hn]; [|contradiction].
      unfold ret. rewrite Hglob. reflexivity.
    - rewrite Hby, (assoc_binds sl l Hsl Hb2).
      destruct (in_dec Nat.eq_dec sl l) as [_|Hn].
      + unfold ret. rewrite Hglob. reflexivity.
      + rewrite Hfb, Hpar. cbn [Compiler.assoc].
        apply in_app_or in Hin. destruct Hin as [Hin|Hin]; [|contradiction].
        unfold fuel_of. cbn [st_tabs mkst].
        rewrite (resolve_up_chain tabs t _ _ sl Hsl _ Hrest Hb1 Hin p lp rest0 (S (length tabs)) eq_refl).
        * reflexivity.
        * pose proof (chain_len tabs _ Hrest p lp rest0 eq_refl). lia.
  Qed.

  Lemma add_consts_mkst tabs t ks loops ks' : add_consts (mkst tabs t ks loops) ks' = mkst tabs t (ks ++ ks') loops.
  Proof. reflexivity. Qed.

  (* the visible variables by position *)
  Lemma vnames_nth scope i : i < length scope -> nth i (vnames names scope) [] = nth (slot_of scope i) names [].
  Proof.
    intros Hi. unfold vnames, slot_of. rewrite (nth_indep _ [] (nth 0 names [])) by (rewrite map_length; exact Hi).
    exact (map_nth (fun sl => nth sl names []) scope 0 i).
  Qed.
  Lemma sym_at_vnames scope i : i < length scope -> sym_at (vnames names scope) (slot_of scope) i = sym (slot_of scope i).
  Proof. intros Hi. unfold sym_at, sym. rewrite (vnames_nth scope i Hi). reflexivity. Qed.
  Lemma slot_in scope i : i < length scope -> In (slot_of scope i) scope.
  Proof. intros Hi. apply nth_In. exact Hi. Qed.

  Lemma good_res_ok k tabs ch t l rest ks loops : cinv k tabs ch -> ch = (t, l) :: rest ->
    res_ok_at (vnames names (flat ch)) (slot_of (flat ch)) (mkst tabs t ks loops) (length (flat ch)).
  Proof.
    intros Hc Hch kk i Hi. rewrite add_consts_mkst, (vnames_nth _ i Hi), (sym_at_vnames _ i Hi).
    exact (resolve_good k tabs ch t l rest (ks ++ kk) loops _ Hc Hch (slot_in _ i Hi)).
  Qed.

  (* expressions on the program state *)
  Lemma compile_exp k tabs ch t l rest ks loops e f scope : cinv k tabs ch -> ch = (t, l) :: rest -> scope = flat ch ->
    wf (length scope) e = true -> height e <= f ->
    compile f (embed (vnames names scope) e) (mkst tabs t ks loops) =
    inr (I (fst (cexp_at (slot_of scope) (length ks) e)), mkst tabs t (ks ++ snd (cexp_at (slot_of scope) (length ks) e)) loops).
  Proof.
    intros Hc Hch -> Hwf Hf.
    rewrite (compile_scalar_at (vnames names (flat ch)) (slot_of (flat ch)) (length (flat ch)) e f (mkst tabs t ks loops) (mw t ks loops) [] eq_refl
               (good_res_ok k tabs ch t l rest ks loops Hc Hch) Hwf Hf).
    reflexivity.
  Qed.

  (* ---------------------------------------------------------------- declarations *)
  Lemma binds_snoc l k : binds (l ++ [k]) = (nth k names [], sym k) :: binds l.
  Proof. unfold binds. rewrite rev_app_distr. reflexivity. Qed.

  Lemma chain_head_fields tabs t l rest : chain tabs ((t, l) :: rest) ->
    tb_byname (nth t tabs dummy_table) = binds l /\ tb_freebyname (nth t tabs dummy_table) = [] /\ t < length tabs.
  Proof. intros H. inversion H; subst; repeat split; assumption. Qed.

  Lemma insert_decl k tabs ch t l rest ks loops : cinv k tabs ch -> ch = (t, l) :: rest -> k < length names ->
    exists tabs', insert_symbol t (nth k names []) false (mkst tabs t ks loops) = inr (sym k, mkst tabs' t ks loops) /\
                  cinv (S k) tabs' ((t, l ++ [k]) :: rest).
  Proof.
    intros [Hch [Hk [Hb Hkn]]] -> Hlt.
    destruct (chain_head_fields tabs t l rest Hch) as [Hby [Hfb Htl]].
    assert (Hbl : Forall (fun x => x < length names) l).
    { rewrite flat_cons in Hb. apply Forall_app in Hb. destruct Hb as [_ Hb]. eapply Forall_impl; [|exact Hb]. cbn. intros; lia. }
    assert (Hnotin : ~ In k l).
    { intros Hin. rewrite flat_cons in Hb. apply Forall_app in Hb. destruct Hb as [_ Hb].
      pose proof (proj1 (Forall_forall _ _) Hb k Hin) as Hlt'. cbn in Hlt'. lia. }
    assert (Hfresh : Compiler.assoc (nth k names []) (tb_byname (nth t tabs dummy_table)) = None).
    { rewrite Hby, (assoc_binds k l Hlt Hbl). destruct (in_dec Nat.eq_dec k l); [contradiction|reflexivity]. }
    assert (Hown : owner (S (length tabs)) tabs t = 0).
    { apply (chain_owner tabs _ Hch t l rest _ eq_refl). pose proof (chain_len tabs _ Hch t l rest eq_refl). lia. }
    set (otb := nth 0 tabs dummy_table).
    set (sy := {| sy_name := nth k names []; sy_index := N.of_nat (length (tb_syms otb)); sy_const := false |}).
    assert (Hsy : sy = sym k) by (unfold sy, sym, otb; rewrite Hk; reflexivity).
    set (otb' := {| tb_id := tb_id otb; tb_parent := tb_parent otb; tb_nchildren := tb_nchildren otb; tb_byname := tb_byname otb;
                    tb_freebyname := tb_freebyname otb; tb_syms := tb_syms otb ++ [sy]; tb_free := tb_free otb; tb_block := tb_block otb |}).
    set (tabs1 := Compiler.list_set tabs 0 otb').
    set (tb' := nth t tabs1 dummy_table).
    set (tb'' := {| tb_id := tb_id tb'; tb_parent := tb_parent tb'; tb_nchildren := tb_nchildren tb';
                    tb_byname := (nth k names [], sy) :: tb_byname tb'; tb_freebyname := tb_freebyname tb';
                    tb_syms := tb_syms tb'; tb_free := tb_free tb'; tb_block := tb_block tb' |}).
    exists (Compiler.list_set tabs1 t tb''). split.
    - unfold insert_symbol, bind, get_tab, get, set_tab, ret. cbv beta. cbn [mkst st_tabs st_stack st_funcindex].
      rewrite Hfresh. cbv beta. unfold fuel_of. cbn [mkst st_tabs st_stack st_funcindex]. rewrite Hown. fold otb. fold sy. fold otb'. fold tabs1. fold tb'. fold tb''.
      rewrite Hsy. reflexivity.
    - assert (H0l : 0 < length tabs) by lia.
      assert (Hl1 : length tabs1 = length tabs) by (apply length_cset).
      (* the tables of the new list, field by field *)
      assert (Hother : forall j, j <> t -> same_fields (nth j (Compiler.list_set tabs1 t tb'') dummy_table) (nth j tabs dummy_table)).
      { intros j Hj. rewrite nth_cset_other by (intros E; apply Hj; symmetry; exact E).
        unfold tabs1. destruct (Nat.eq_dec j 0) as [->|Hj0].
        - rewrite nth_cset_same by exact H0l. repeat split; reflexivity.
        - rewrite nth_cset_other by (intros E; apply Hj0; symmetry; exact E). repeat split; reflexivity. }
      assert (Htb' : same_fields tb' (nth t tabs dummy_table) /\ (t = 0 -> tb_syms tb' = tb_syms otb ++ [sy])).
      { unfold tb', tabs1. destruct (Nat.eq_dec t 0) as [->|Ht0].
        - rewrite nth_cset_same by exact H0l. split; [repeat split; reflexivity|intros _; reflexivity].
        - rewrite nth_cset_other by (intros E; apply Ht0; symmetry; exact E). split; [repeat split; reflexivity|intros E; contradiction]. }
      destruct Htb' as [[F1 [F2 [F3 F4]]] Hsyms0].
      assert (Hnew : nth t (Compiler.list_set tabs1 t tb'') dummy_table = tb'') by (apply nth_cset_same; rewrite Hl1; exact Htl).
      assert (Hlen' : length (Compiler.list_set tabs1 t tb'') = length tabs) by (rewrite length_cset; exact Hl1).
      split; [|split; [|split]].
      + inversion Hch as [l0 H0 H1 H2 H3 H4|t1 l0 p lp rest0 Ht0 Ht1 Hp Hpar Hblk Hby' Hfb' Hrest]; subst.
        * apply chain_root; rewrite ?Hlen', ?Hnew; cbn [tb'' tb_parent tb_block tb_byname tb_freebyname];
            [exact H0l|rewrite F1; exact H1|rewrite F2; exact H2|rewrite F3, H3, binds_snoc, Hsy; reflexivity|rewrite F4; exact H4].
        * apply chain_blk; rewrite ?Hlen', ?Hnew; cbn [tb'' tb_parent tb_block tb_byname tb_freebyname]; try assumption;
            [rewrite F1; exact Hpar|rewrite F2; exact Hblk|rewrite F3, Hby', binds_snoc, Hsy; reflexivity|rewrite F4; exact Hfb'|].
          apply (chain_mono tabs _ ltac:(rewrite Hlen'; lia) _ p lp rest0 eq_refl); [|exact Hrest].
          intros j Hj. apply Hother. lia.
      + destruct (Nat.eq_dec t 0) as [->|Ht0].
        * rewrite Hnew. cbn [tb'' tb_syms]. rewrite (Hsyms0 eq_refl), app_length. fold otb in Hk. rewrite Hk. cbn. lia.
        * rewrite nth_cset_other by exact Ht0. unfold tabs1. rewrite nth_cset_same by exact H0l.
          cbn [otb' tb_syms]. rewrite app_length. fold otb in Hk. rewrite Hk. cbn. lia.
      + rewrite flat_decl. apply Forall_app. split; [eapply Forall_impl; [|exact Hb]; cbn; intros; lia|constructor; [lia|constructor]].
      + lia.
  Qed.

  (* ---------------------------------------------------------------- blocks *)
  Lemma open_block_good k tabs ch t l rest ks loops : cinv k tabs ch -> ch = (t, l) :: rest ->
    exists tabs', open_block (mkst tabs t ks loops) = inr (tt, mkst tabs' (length tabs) ks loops) /\
                  cinv k tabs' ((length tabs, []) :: ch).
  Proof.
    intros [Hch [Hk [Hb Hkn]]] ->.
    destruct (chain_head_fields tabs t l rest Hch) as [_ [_ Htl]].
    set (p := nth t tabs dummy_table).
    set (p' := {| tb_id := tb_id p; tb_parent := tb_parent p; tb_nchildren := S (tb_nchildren p);
                  tb_byname := tb_byname p; tb_freebyname := tb_freebyname p; tb_syms := tb_syms p;
                  tb_free := tb_free p; tb_block := tb_block p |}).
    set (nt := {| tb_id := tb_id p ++ [46%N] ++ dec (tb_nchildren p); tb_parent := Some t; tb_nchildren := 0;
                  tb_byname := []; tb_freebyname := []; tb_syms := []; tb_free := []; tb_block := true |}).
    exists (Compiler.list_set tabs t p' ++ [nt]). split.
    - unfold open_block, bind, cur, new_child, get_tab, set_tab, set_cur, bind.
      cbn [mkst st_stack st_tabs mw w_tab with_tab st_funcindex]. rewrite length_cset. reflexivity.
    - assert (Hold : forall j, j < length tabs -> same_fields (nth j (Compiler.list_set tabs t p' ++ [nt]) dummy_table) (nth j tabs dummy_table)
                                                  /\ tb_syms (nth j (Compiler.list_set tabs t p' ++ [nt]) dummy_table) = tb_syms (nth j tabs dummy_table)).
      { intros j Hj. rewrite app_nth1 by (rewrite length_cset; exact Hj).
        destruct (Nat.eq_dec t j) as [<-|Hne].
        - rewrite nth_cset_same by exact Htl. split; [repeat split; reflexivity|reflexivity].
        - rewrite nth_cset_other by exact Hne. split; [repeat split; reflexivity|reflexivity]. }
      assert (Hnewt : nth (length tabs) (Compiler.list_set tabs t p' ++ [nt]) dummy_table = nt).
      { rewrite app_nth2 by (rewrite length_cset; lia). rewrite length_cset, Nat.sub_diag. reflexivity. }
      assert (Hlen' : length (Compiler.list_set tabs t p' ++ [nt]) = S (length tabs)) by (rewrite app_length, length_cset; cbn; lia).
      split; [|split; [|split]].
      + apply chain_blk; rewrite ?Hlen', ?Hnewt; cbn [nt tb_parent tb_block tb_byname tb_freebyname]; try reflexivity; try lia.
        apply (chain_mono tabs _ ltac:(rewrite Hlen'; lia) _ t l rest eq_refl); [|exact Hch].
        intros j Hj. apply Hold. lia.
      + rewrite (proj2 (Hold 0 ltac:(lia))). exact Hk.
      + rewrite flat_cons, app_nil_r. exact Hb.
      + exact Hkn.
  Qed.

  Lemma close_block_to k tabs tn ln t l rest ks loops : cinv k tabs ((tn, ln) :: (t, l) :: rest) ->
    close_block (mkst tabs tn ks loops) = inr (tt, mkst tabs t ks loops) /\ cinv k tabs ((t, l) :: rest).
  Proof.
    intros [Hch [Hk [Hb Hkn]]]. destruct (chain_tail tabs tn ln t l rest Hch) as [Hpar Hrest]. split.
    - unfold close_block, bind, cur, get_tab, set_cur. cbn [mkst st_stack st_tabs mw w_tab]. rewrite Hpar. reflexivity.
    - split; [exact Hrest|]. split; [exact Hk|]. split; [|exact Hkn].
      rewrite flat_cons in Hb. apply Forall_app in Hb. exact (proj1 Hb).
  Qed.

  (* ---------------------------------------------------------------- unfoldings of compile *)
  Lemma compile_NVar f name v : compile (S f) (NVar name v) =
    bind (compile f v) (fun a => bind cur (fun w => bind (insert_symbol (w_tab w) name false) (fun sym =>
      bind (store_sym sym) (fun st => ret (a ++ st))))).
  Proof. reflexivity. Qed.
  Lemma compile_NAssign_eq f name v : compile (S f) (NAssign name [61%N] v) =
    bind (resolve_cur name) (fun rs =>
      if sy_const (rs_sym rs) then fail (EConstAssign name) else
      bind (compile f v) (fun a => ret (a ++ store_res rs))).
  Proof. reflexivity. Qed.
  Lemma compile_NAssign_op f name o v : is_compound o = true ->
    compile (S f) (NAssign name (op_text o ++ [61%N]) v) =
    bind (resolve_cur name) (fun rs =>
      if sy_const (rs_sym rs) then fail (EConstAssign name) else
      bind (compile f v) (fun a => ret (load_res rs ++ a ++ I (op_code o) ++ store_res rs))).
  Proof. destruct o; try discriminate; reflexivity. Qed.
  Lemma compile_NPostfix f name (up : bool) : compile (S f) (NPostfix name (if up then [43; 43]%N else [45; 45]%N)) =
    bind (resolve_cur name) (fun rs => bind (constant (KInt (if up then 1 else -1))) (fun k =>
      ret (load_res rs ++ I [opLoadConst; k; opBinaryOp; bAdd] ++ store_res rs))).
  Proof. destruct up; reflexivity. Qed.

  (* the statement loop of compileProgram and of compileBlock *)
  Definition cs_loop (fuel : nat) : list node -> M (list slot) :=
    fix cs (l : list node) : M (list slot) :=
      match l with
      | [] => ret []
      | [x] => bind (compile fuel x) (fun a => ret (a ++ nil_after x))
      | x :: r => bind (compile fuel x) (fun a => bind (cs r) (fun b => ret (a ++ pop_between x ++ b)))
      end.
  Lemma cs_loop_cons f x y r : cs_loop f (x :: y :: r) =
    bind (compile f x) (fun a => bind (cs_loop f (y :: r)) (fun b => ret (a ++ pop_between x ++ b))).
  Proof. reflexivity. Qed.

  (* compileBlock *)
  Definition cblock (fuel : nat) (l : list node) : M (list slot) :=
    bind open_block (fun _ => bind (match l with [] => ret (I [opNil]) | _ => cs_loop fuel l end)
                                   (fun c => bind close_block (fun _ => ret c))).
  Lemma compile_NIf f c cns al : compile (S f) (NIf c cns (Some al)) =
    bind (compile f c) (fun a => bind (cblock f cns) (fun t => bind (cblock f al) (fun e =>
      ret (a ++ I [opPopJumpForwardIfFalse; (nlen t + 4)%N] ++ t ++ I [opJumpForward; (nlen e + 2)%N] ++ e)))).
  Proof. reflexivity. Qed.
  Lemma compile_NIf1 f c cns : compile (S f) (NIf c cns None) =
    bind (compile f c) (fun a => bind (cblock f cns) (fun t => bind (ret (I [opNil])) (fun e =>
      ret (a ++ I [opPopJumpForwardIfFalse; (nlen t + 4)%N] ++ t ++ I [opJumpForward; (nlen e + 2)%N] ++ e)))).
  Proof. reflexivity. Qed.
  (* compileForCondition *)
  Lemma compile_NFor_cond f vn e body : compile (S f) (NFor (Some (embed vn e)) None None body) =
    bind open_block (fun _ => bind (push_loop false) (fun _ =>
      bind (compile f (embed vn e)) (fun cc => bind (cblock f body) (fun b =>
        bind pop_loop (fun _ => bind close_block (fun _ =>
          let pre := cc ++ I [opPopJumpForwardIfFalse; (nlen b + 2 + 1 + 2 + 1)%N] in
          let inner := pre ++ b ++ I [opPopTop] in
          let jb := nlen inner in
          ret (patch 0 (jb + 2) jb inner ++ I [opJumpBackward; jb; opNop]))))))).
  Proof. destruct e; reflexivity. Qed.
  (* compileSimpleFor *)
  Lemma compile_NFor_plain f body : compile (S f) (NFor None None None body) =
    bind open_block (fun _ => bind (push_loop false) (fun _ =>
      bind (cblock f body) (fun b => bind pop_loop (fun _ => bind close_block (fun _ =>
        let c := b ++ I [opPopTop] in
        let jb := nlen c in
        ret (patch 0 (jb + 2) jb c ++ I [opJumpBackward; jb; opNop])))))).
  Proof. reflexivity. Qed.
  (* the three-clause loop *)
  Lemma compile_NFor3 f c i p body : compile (S f) (NFor (Some c) (Some i) (Some p) body) =
    bind open_block (fun _ => bind (push_loop false) (fun _ =>
      bind (bind (compile f i) (fun x => ret (x ++ (if is_expression i then I [opPopTop] else [])))) (fun ic =>
      bind (compile f c) (fun cc => bind (cblock f body) (fun b =>
      bind (bind (compile f p) (fun x => ret (x ++ (if is_expression p then I [opPopTop] else [])))) (fun pc =>
      bind pop_loop (fun _ => bind close_block (fun _ =>
        let tail_len := (nlen b + 1 + nlen pc + 2)%N in
        let head := cc ++ I [opPopJumpForwardIfFalse; (tail_len + 2)%N] in
        let cont_dst := (nlen head + nlen b + 1)%N in
        let jb := (cont_dst + nlen pc)%N in
        ret (ic ++ patch 0 (jb + 2) cont_dst (head ++ b ++ I [opPopTop] ++ pc) ++ I [opJumpBackward; jb]))))))))).
  Proof. reflexivity. Qed.
  Lemma simple_code k1 k2 scope base p : is_simple p = true -> stmt_code k1 scope base p = stmt_code k2 scope base p.
  Proof. destruct p; try discriminate; reflexivity. Qed.
  Lemma simple_embed k1 k2 scope p : is_simple p = true -> embed_stmt names k1 scope p = embed_stmt names k2 scope p.
  Proof. destruct p; try discriminate; reflexivity. Qed.
  Lemma simple_not_expr p : is_simple p = true -> is_expr_stmt p = false.
  Proof. destruct p; try discriminate; reflexivity. Qed.
  Lemma compile_NBreak f tabs t ks rest : compile (S f) NBreak (mkst tabs t ks ((false, 0) :: rest)) =
    inr ([SI opJumpForward; SBrk], mkst tabs t ks ((false, 0) :: rest)).
  Proof. reflexivity. Qed.
  Lemma compile_NContinue f tabs t ks rest : compile (S f) NContinue (mkst tabs t ks ((false, 0) :: rest)) =
    inr ([SI opJumpForward; SCont], mkst tabs t ks ((false, 0) :: rest)).
  Proof. reflexivity. Qed.

  Lemma push_loop_mkst tabs t ks loops b : push_loop b (mkst tabs t ks loops) = inr (tt, mkst tabs t ks ((b, 0) :: loops)).
  Proof. reflexivity. Qed.
  Lemma pop_loop_mkst tabs t ks loops x : pop_loop (mkst tabs t ks (x :: loops)) = inr (tt, mkst tabs t ks loops).
  Proof. reflexivity. Qed.

  Lemma pop_between_stmt k scope s : pop_between (embed_stmt names k scope s) = if is_expr_stmt s then I [opPopTop] else [].
  Proof. destruct s; cbn [embed_stmt is_expr_stmt]; unfold pop_between; try reflexivity. rewrite embed_is_expression; reflexivity. Qed.
  Lemma nil_after_stmt k scope s : nil_after (embed_stmt names k scope s) = if is_expr_stmt s then [] else I [opNil].
  Proof. destruct s; cbn [embed_stmt is_expr_stmt]; unfold nil_after; try reflexivity. rewrite embed_is_expression; reflexivity. Qed.

  (* ---------------------------------------------------------------- statements, lists, blocks *)
  (* the slots a statement adds to the table it is in, and a list of statements *)
  Definition dl (k : nat) (s : stmt) : list nat := match s with SDecl _ => [k] | _ => [] end.
  Fixpoint dls (k : nat) (l : list stmt) : list nat :=
    match l with [] => [] | s :: r => dl k s ++ dls (k + nd s) r end.
  Lemma next_scope_flat k t l rest s : next_scope k (flat ((t, l) :: rest)) s = flat ((t, l ++ dl k s) :: rest).
  Proof. destruct s; cbn [next_scope dl]; rewrite ?app_nil_r; try reflexivity. rewrite flat_decl. reflexivity. Qed.

  Lemma simple_dl k p : is_simple p = true -> dl k p = [].
  Proof. destruct p; try discriminate; reflexivity. Qed.
  Definition loops_ok (lp : bool) (loops : list (bool * nat)) : Prop :=
    lp = true -> exists rest, loops = (false, 0) :: rest.
  (* what holds of one statement compiled with fuel S f *)
  Definition stmt_ok (f : nat) : Prop :=
    forall s k tabs t l rest ks loops lp,
      sheight s <= f -> k + nd s <= length names -> wf_stmt lp (length (flat ((t, l) :: rest))) s = true ->
      loops_ok lp loops -> cinv k tabs ((t, l) :: rest) ->
      exists tabs', compile (S f) (embed_stmt names k (flat ((t, l) :: rest)) s) (mkst tabs t ks loops) =
                    inr (fst (stmt_code k (flat ((t, l) :: rest)) (length ks) s),
                         mkst tabs' t (ks ++ snd (stmt_code k (flat ((t, l) :: rest)) (length ks) s)) loops) /\
                    cinv (k + nd s) tabs' ((t, l ++ dl k s) :: rest).

  Lemma cs_list f : stmt_ok f -> forall lst k tabs t l rest ks loops lp,
    lst <> [] -> max_height lst <= f -> k + ndecls lst <= length names ->
    wf_stmts lp (length (flat ((t, l) :: rest))) lst = true -> loops_ok lp loops -> cinv k tabs ((t, l) :: rest) ->
    exists tabs', cs_loop (S f) (embed_stmts names k (flat ((t, l) :: rest)) lst) (mkst tabs t ks loops) =
                  inr (fst (scode k (flat ((t, l) :: rest)) (length ks) lst),
                       mkst tabs' t (ks ++ snd (scode k (flat ((t, l) :: rest)) (length ks) lst)) loops) /\
                  cinv (k + ndecls lst) tabs' ((t, l ++ dls k lst) :: rest).
  Proof.
    intros Hst. induction lst as [|s r IH]; intros k tabs t l rest ks loops lp Hne Hh Hk Hwf Hlp Hc; [contradiction|].
    rewrite wf_stmts_cons in Hwf. apply andb_true_iff in Hwf. destruct Hwf as [Hws Hwr].
    rewrite max_height_cons in Hh. rewrite ndecls_cons in Hk. rewrite embed_stmts_cons.
    destruct (Hst s k tabs t l rest ks loops lp ltac:(lia) ltac:(lia) Hws Hlp Hc) as [tabs1 [Hcs Hc1]].
    destruct r as [|s2 r2].
    - (* the last statement *)
      exists tabs1. split.
      + cbn [embed_stmts embed_list cs_loop]. rewrite scode_single. unfold bind. rewrite Hcs.
        destruct (stmt_code k (flat ((t, l) :: rest)) (length ks) s) as [c kk]. cbn [fst snd]. unfold ret.
        rewrite nil_after_stmt. destruct (is_expr_stmt s); reflexivity.
      + cbn [dls ndecls sum_list fold_right]. rewrite !Nat.add_0_r, app_nil_r. exact Hc1.
    - (* more statements follow *)
      assert (Hr : s2 :: r2 <> []) by discriminate.
      destruct (stmt_code k (flat ((t, l) :: rest)) (length ks) s) as [c kk] eqn:Es. cbn [fst snd] in Hcs.
      rewrite <- next_scope_length with (k := k) (scope := flat ((t, l) :: rest)) in Hwr. rewrite next_scope_flat in Hwr.
      destruct (IH (k + nd s) tabs1 t (l ++ dl k s) rest (ks ++ kk) loops lp Hr ltac:(lia) ltac:(lia) Hwr Hlp Hc1)
        as [tabs2 [Hc2 Hcv2]].
      exists tabs2. split.
      + rewrite (embed_stmts_cons names (k + nd s) _ s2 r2), cs_loop_cons, <- (embed_stmts_cons names (k + nd s) _ s2 r2).
        unfold bind at 1. rewrite Hcs. unfold bind at 1. rewrite next_scope_flat, Hc2.
        rewrite app_length, scode_cons2, Es, next_scope_flat.
        destruct (scode (k + nd s) (flat ((t, l ++ dl k s) :: rest)) (length ks + length kk) (s2 :: r2)) as [cr kr]. cbn [fst snd].
        unfold ret. rewrite pop_between_stmt, <- app_assoc.
        destruct (is_expr_stmt s); reflexivity.
      + rewrite ndecls_cons, Nat.add_assoc. cbn [dls]. rewrite app_assoc. exact Hcv2.
  Qed.

  (* a whole block: opens a table, compiles the statements (Nil for none), closes it; its variables are gone *)
  Lemma cblock_good f : stmt_ok f -> forall lst k tabs t l rest ks loops lp,
    max_height lst <= f -> k + ndecls lst <= length names ->
    wf_stmts lp (length (flat ((t, l) :: rest))) lst = true -> loops_ok lp loops -> cinv k tabs ((t, l) :: rest) ->
    exists tabs', cblock (S f) (embed_stmts names k (flat ((t, l) :: rest)) lst) (mkst tabs t ks loops) =
                  inr (fst (block_code k (flat ((t, l) :: rest)) (length ks) lst),
                       mkst tabs' t (ks ++ snd (block_code k (flat ((t, l) :: rest)) (length ks) lst)) loops) /\
                  cinv (k + ndecls lst) tabs' ((t, l) :: rest).
  Proof.
    intros Hst lst k tabs t l rest ks loops lp Hh Hk Hwf Hlp Hc.
    destruct (open_block_good k tabs _ t l rest ks loops Hc eq_refl) as [tabs1 [Ho Hc1]].
    unfold cblock. unfold bind at 1. rewrite Ho.
    assert (Hfl : flat ((length tabs, []) :: (t, l) :: rest) = flat ((t, l) :: rest)) by (rewrite (flat_cons (length tabs)), app_nil_r; reflexivity).
    destruct lst as [|s r].
    - exists tabs1. destruct (close_block_to k tabs1 (length tabs) [] t l rest ks loops Hc1) as [Hcl Hc2]. split.
      + cbn [embed_stmts embed_list]. rewrite block_code_nil. cbn [fst snd]. unfold bind, ret.
        rewrite Hcl, app_nil_r. reflexivity.
      + cbn [ndecls sum_list fold_right]. rewrite Nat.add_0_r. exact Hc2.
    - assert (Hne : s :: r <> []) by discriminate.
      rewrite <- Hfl in Hwf |- *.
      destruct (cs_list f Hst (s :: r) k tabs1 (length tabs) [] ((t, l) :: rest) ks loops lp Hne Hh Hk Hwf Hlp Hc1)
        as [tabs2 [Hcs Hc2]].
      exists tabs2. cbn [app] in Hc2.
      destruct (close_block_to (k + ndecls (s :: r)) tabs2 (length tabs) _ t l rest
                  (ks ++ snd (scode k (flat ((length tabs, []) :: (t, l) :: rest)) (length ks) (s :: r))) loops Hc2) as [Hcl Hc3].
      split; [|exact Hc3].
      rewrite embed_stmts_cons. rewrite embed_stmts_cons in Hcs.
      unfold bind at 1. rewrite Hcs. rewrite block_code_cons.
      destruct (scode k (flat ((length tabs, []) :: (t, l) :: rest)) (length ks) (s :: r)) as [c kk]. cbn [fst snd] in *.
      unfold bind, ret. rewrite Hcl. reflexivity.
  Qed.

  Theorem compile_stmt : forall f, stmt_ok f.
  Proof.
    induction f as [f IH] using lt_wf_ind.
    intros s k tabs t l rest ks loops lp Hh Hk Hwf Hlp Hc.
    set (ch := (t, l) :: rest) in *. set (scope := flat ch) in *.
    destruct s as [e|i e|i o e|i up|e|c tb eb|c tb|c b|b|e c p b| |].
    - (* x := e *)
      cbn [embed_stmt stmt_code nd wf_stmt sheight dl] in *.
      rewrite compile_NVar.
      destruct (cexp_at (slot_of scope) (length ks) e) as [c kk] eqn:Ee.
      destruct (insert_decl k tabs ch t l rest (ks ++ kk) loops Hc eq_refl ltac:(lia)) as [tabs1 [Hin Hc1]].
      exists tabs1. split; [|rewrite Nat.add_1_r; exact Hc1].
      unfold bind at 1. rewrite (compile_exp k tabs ch t l rest ks loops e f scope Hc eq_refl eq_refl Hwf Hh). rewrite Ee. cbn [fst snd].
      unfold bind, cur. cbn [mkst st_stack mw w_tab]. fold (mw t (ks ++ kk) loops). fold (mkst tabs t (ks ++ kk) loops).
      rewrite Hin.
      unfold store_sym, bind, is_root, cur, ret. cbn [mkst st_stack mw w_root sym sy_index].
      rewrite I_app. reflexivity.
    - (* x = e *)
      cbn [embed_stmt stmt_code nd wf_stmt sheight dl] in *. rewrite Nat.add_0_r, app_nil_r.
      apply andb_true_iff in Hwf. destruct Hwf as [Hi Hwf]. apply Nat.ltb_lt in Hi.
      exists tabs. split; [|exact Hc].
      rewrite compile_NAssign_eq. unfold bind at 1.
      rewrite (vnames_nth scope i Hi), (resolve_good k tabs ch t l rest ks loops _ Hc eq_refl (slot_in scope i Hi)).
      cbn [rs_sym sym sy_const]. unfold bind.
      rewrite (compile_exp k tabs ch t l rest ks loops e f scope Hc eq_refl eq_refl Hwf Hh).
      destruct (cexp_at (slot_of scope) (length ks) e) as [c kk]. cbn [fst snd].
      unfold ret, store_res. cbn [rs_scope rs_sym sym sy_index]. rewrite I_app. reflexivity.
    - (* x += e *)
      cbn [embed_stmt stmt_code nd wf_stmt sheight dl] in *. rewrite Nat.add_0_r, app_nil_r.
      apply andb_true_iff in Hwf. destruct Hwf as [Hwf Ho]. apply andb_true_iff in Hwf. destruct Hwf as [Hi Hwf]. apply Nat.ltb_lt in Hi.
      exists tabs. split; [|exact Hc].
      rewrite (compile_NAssign_op f _ o _ Ho). unfold bind at 1.
      rewrite (vnames_nth scope i Hi), (resolve_good k tabs ch t l rest ks loops _ Hc eq_refl (slot_in scope i Hi)).
      cbn [rs_sym sym sy_const]. unfold bind.
      rewrite (compile_exp k tabs ch t l rest ks loops e f scope Hc eq_refl eq_refl Hwf Hh).
      destruct (cexp_at (slot_of scope) (length ks) e) as [c kk]. cbn [fst snd].
      unfold ret, store_res, load_res. cbn [rs_scope rs_sym sym sy_index]. rewrite <- !I_app. reflexivity.
    - (* x++ / x-- *)
      cbn [embed_stmt stmt_code nd wf_stmt sheight dl fst snd] in *. rewrite Nat.add_0_r, app_nil_r. apply Nat.ltb_lt in Hwf.
      exists tabs. split; [|exact Hc].
      rewrite compile_NPostfix. unfold bind at 1.
      rewrite (vnames_nth scope i Hwf), (resolve_good k tabs ch t l rest ks loops _ Hc eq_refl (slot_in scope i Hwf)).
      unfold bind. rewrite (constant_spec _ (mkst tabs t ks loops) (mw t ks loops) [] eq_refl).
      unfold ret, store_res, load_res. cbn [rs_scope rs_sym sym sy_index mw w_consts]. rewrite <- !I_app. reflexivity.
    - (* e *)
      cbn [embed_stmt stmt_code nd wf_stmt sheight dl] in *. rewrite Nat.add_0_r, app_nil_r.
      exists tabs. split; [|exact Hc].
      rewrite (compile_exp k tabs ch t l rest ks loops e (S f) scope Hc eq_refl eq_refl Hwf ltac:(lia)).
      destruct (cexp_at (slot_of scope) (length ks) e) as [c kk]. reflexivity.
    - (* if c { tb } else { eb } *)
      rewrite wf_SIf in Hwf. apply andb_true_iff in Hwf. destruct Hwf as [Hwct Hwe].
      apply andb_true_iff in Hwct. destruct Hwct as [Hwc Hwt].
      rewrite sheight_SIf in Hh. destruct f as [|f]; [lia|]. rewrite nd_SIf in *. cbn [dl]. rewrite app_nil_r.
      assert (Hst : stmt_ok f) by (apply IH; lia).
      rewrite embed_SIf, code_SIf, compile_NIf.
      destruct (cexp_at (slot_of scope) (length ks) c) as [cc kc] eqn:Ec.
      destruct (cblock_good f Hst tb k tabs t l rest (ks ++ kc) loops lp ltac:(lia) ltac:(lia) Hwt Hlp Hc) as [tabs1 [Hc1 Hcv1]].
      fold ch scope in Hc1. rewrite app_length in Hc1.
      destruct (block_code k scope (length ks + length kc) tb) as [ct kt] eqn:Et. cbn [fst snd] in Hc1.
      destruct (cblock_good f Hst eb (k + ndecls tb) tabs1 t l rest ((ks ++ kc) ++ kt) loops lp ltac:(lia) ltac:(lia) Hwe Hlp Hcv1) as [tabs2 [Hc2 Hcv2]].
      fold ch scope in Hc2. rewrite !app_length in Hc2.
      destruct (block_code (k + ndecls tb) scope (length ks + length kc + length kt) eb) as [ce ke] eqn:Ee. cbn [fst snd] in Hc2.
      exists tabs2. split; [|rewrite Nat.add_assoc; exact Hcv2].
      unfold bind at 1. rewrite (compile_exp k tabs ch t l rest ks loops c (S f) scope Hc eq_refl eq_refl Hwc ltac:(lia)). rewrite Ec. cbn [fst snd].
      unfold bind at 1. rewrite Hc1. unfold bind at 1. rewrite Hc2.
      unfold ret. rewrite <- !app_assoc. reflexivity.
    - (* if c { tb } *)
      rewrite wf_SIf1 in Hwf. apply andb_true_iff in Hwf. destruct Hwf as [Hwc Hwt].
      rewrite sheight_SIf1 in Hh. destruct f as [|f]; [lia|]. rewrite nd_SIf1 in *. cbn [dl]. rewrite app_nil_r.
      assert (Hst : stmt_ok f) by (apply IH; lia).
      rewrite embed_SIf1, code_SIf1, compile_NIf1.
      destruct (cexp_at (slot_of scope) (length ks) c) as [cc kc] eqn:Ec.
      destruct (cblock_good f Hst tb k tabs t l rest (ks ++ kc) loops lp ltac:(lia) ltac:(lia) Hwt Hlp Hc) as [tabs1 [Hc1 Hcv1]].
      fold ch scope in Hc1. rewrite app_length in Hc1.
      destruct (block_code k scope (length ks + length kc) tb) as [ct kt] eqn:Et. cbn [fst snd] in Hc1.
      exists tabs1. split; [|exact Hcv1].
      unfold bind at 1. rewrite (compile_exp k tabs ch t l rest ks loops c (S f) scope Hc eq_refl eq_refl Hwc ltac:(lia)). rewrite Ec. cbn [fst snd].
      unfold bind at 1. rewrite Hc1. unfold bind at 1. unfold ret at 1.
      unfold ret. rewrite <- !app_assoc. reflexivity.
    - (* for c { b } *)
      rewrite wf_SWhile in Hwf. apply andb_true_iff in Hwf. destruct Hwf as [Hwc Hwb].
      rewrite sheight_SWhile in Hh. destruct f as [|f]; [lia|]. rewrite nd_SWhile in *. cbn [dl]. rewrite app_nil_r.
      assert (Hst : stmt_ok f) by (apply IH; lia).
      rewrite embed_SWhile, code_SWhile, compile_NFor_cond.
      destruct (open_block_good k tabs ch t l rest ks loops Hc eq_refl) as [tabs1 [Ho Hc1]].
      assert (Hfl : flat ((length tabs, []) :: ch) = scope) by (rewrite (flat_cons (length tabs)), app_nil_r; reflexivity).
      destruct (cexp_at (slot_of scope) (length ks) c) as [cc kc] eqn:Ec.
      assert (Hlp' : loops_ok true ((false, 0) :: loops)) by (intros _; eexists; reflexivity).
      assert (Hwb' : wf_stmts true (length (flat ((length tabs, []) :: ch))) b = true) by (rewrite Hfl; exact Hwb).
      destruct (cblock_good f Hst b k tabs1 (length tabs) [] ch (ks ++ kc) ((false, 0) :: loops) true ltac:(lia) ltac:(lia) Hwb' Hlp' Hc1)
        as [tabs2 [Hc2 Hcv2]].
      rewrite Hfl, app_length in Hc2.
      destruct (block_code k scope (length ks + length kc) b) as [cb kb] eqn:Eb. cbn [fst snd] in Hc2.
      destruct (close_block_to (k + ndecls b) tabs2 (length tabs) [] t l rest ((ks ++ kc) ++ kb) loops Hcv2) as [Hcl Hcv3].
      exists tabs2. split; [|exact Hcv3].
      unfold bind at 1. rewrite Ho. unfold bind at 1. rewrite push_loop_mkst.
      unfold bind at 1.
      rewrite (compile_exp k tabs1 ((length tabs, []) :: ch) (length tabs) [] ch ks ((false, 0) :: loops) c (S f) scope Hc1 eq_refl (eq_sym Hfl) Hwc ltac:(lia)).
      rewrite Ec. cbn [fst snd].
      unfold bind at 1. rewrite Hc2. unfold bind at 1. rewrite pop_loop_mkst.
      unfold bind at 1. rewrite Hcl.
      cbv zeta. unfold ret.
      replace (nlen cb + 2 + 1 + 2 + 1)%N with (nlen cb + 6)%N by lia.
      rewrite <- !app_assoc. reflexivity.
    - (* for { b } *)
      rewrite wf_SLoop in Hwf. rename Hwf into Hwb.
      rewrite sheight_SLoop in Hh. destruct f as [|f]; [lia|]. rewrite nd_SLoop in *. cbn [dl]. rewrite app_nil_r.
      assert (Hst : stmt_ok f) by (apply IH; lia).
      rewrite embed_SLoop, code_SLoop, compile_NFor_plain.
      destruct (open_block_good k tabs ch t l rest ks loops Hc eq_refl) as [tabs1 [Ho Hc1]].
      assert (Hfl : flat ((length tabs, []) :: ch) = scope) by (rewrite (flat_cons (length tabs)), app_nil_r; reflexivity).
      assert (Hlp' : loops_ok true ((false, 0) :: loops)) by (intros _; eexists; reflexivity).
      assert (Hwb' : wf_stmts true (length (flat ((length tabs, []) :: ch))) b = true) by (rewrite Hfl; exact Hwb).
      destruct (cblock_good f Hst b k tabs1 (length tabs) [] ch ks ((false, 0) :: loops) true ltac:(lia) ltac:(lia) Hwb' Hlp' Hc1)
        as [tabs2 [Hc2 Hcv2]].
      rewrite Hfl in Hc2.
      destruct (block_code k scope (length ks) b) as [cb kb] eqn:Eb. cbn [fst snd] in Hc2.
      destruct (close_block_to (k + ndecls b) tabs2 (length tabs) [] t l rest (ks ++ kb) loops Hcv2) as [Hcl Hcv3].
      exists tabs2. split; [|exact Hcv3].
      unfold bind at 1. rewrite Ho. unfold bind at 1. rewrite push_loop_mkst.
      unfold bind at 1. rewrite Hc2. unfold bind at 1. rewrite pop_loop_mkst.
      unfold bind at 1. rewrite Hcl.
      cbv zeta. unfold ret. reflexivity.
    - (* for x := e; c; p { b } *)
      rewrite wf_SFor in Hwf. apply andb_true_iff in Hwf. destruct Hwf as [Hwf Hwb].
      apply andb_true_iff in Hwf. destruct Hwf as [Hwf Hwp]. apply andb_true_iff in Hwf. destruct Hwf as [Hwf Hsp].
      apply andb_true_iff in Hwf. destruct Hwf as [Hwe Hwc].
      rewrite sheight_SFor in Hh. destruct f as [|f]; [lia|]. rewrite nd_SFor in *. cbn [dl]. rewrite app_nil_r.
      assert (Hst : stmt_ok f) by (apply IH; lia).
      rewrite embed_SFor, code_SFor, compile_NFor3.
      destruct (open_block_good k tabs ch t l rest ks loops Hc eq_refl) as [tabs1 [Ho Hc1]].
      assert (Hfl : flat ((length tabs, []) :: ch) = scope) by (rewrite (flat_cons (length tabs)), app_nil_r; reflexivity).
      set (lps := (false, 0) :: loops).
      (* init *)
      destruct (cexp_at (slot_of scope) (length ks) e) as [ci ki] eqn:Ei.
      assert (Hwe' : wf_stmt false (length (flat ((length tabs, []) :: ch))) (SDecl e) = true) by (rewrite Hfl; exact Hwe).
      destruct (Hst (SDecl e) k tabs1 (length tabs) [] ch ks lps false ltac:(cbn [sheight]; lia) ltac:(cbn [nd]; lia) Hwe'
                  ltac:(intros Hx; discriminate) Hc1) as [tabs2 [Hin Hc2]].
      rewrite Hfl in Hin. cbn [embed_stmt stmt_code] in Hin. rewrite Ei in Hin. cbn [fst snd] in Hin.
      cbn [nd dl app] in Hc2. rewrite Nat.add_1_r in Hc2.
      assert (Hfl2 : flat ((length tabs, [k]) :: ch) = scope ++ [k]) by (rewrite (flat_cons (length tabs)); reflexivity).
      cbv zeta.
      (* condition *)
      assert (Hwc' : wf (length (scope ++ [k])) c = true) by (rewrite app_length; cbn [length]; rewrite Nat.add_1_r; exact Hwc).
      destruct (cexp_at (slot_of (scope ++ [k])) (length ks + length ki) c) as [cc kc] eqn:Ec.
      (* body *)
      assert (Hlp' : loops_ok true lps) by (intros _; eexists; reflexivity).
      assert (Hwb' : wf_stmts true (length (flat ((length tabs, [k]) :: ch))) b = true)
        by (rewrite Hfl2, app_length; cbn [length]; rewrite Nat.add_1_r; exact Hwb).
      destruct (cblock_good f Hst b (S k) tabs2 (length tabs) [k] ch ((ks ++ ki) ++ kc) lps true ltac:(lia) ltac:(lia) Hwb' Hlp' Hc2)
        as [tabs3 [Hc3 Hcv3]].
      rewrite Hfl2, !app_length in Hc3.
      destruct (block_code (S k) (scope ++ [k]) (length ks + length ki + length kc) b) as [cb kb] eqn:Eb. cbn [fst snd] in Hc3.
      (* post *)
      assert (Hwp' : wf_stmt lp (length (flat ((length tabs, [k]) :: ch))) p = true)
        by (rewrite Hfl2, app_length; cbn [length]; rewrite Nat.add_1_r; exact Hwp).
      assert (Hlpp : loops_ok lp lps) by (intros _; eexists; reflexivity).
      destruct (Hst p (S k + ndecls b) tabs3 (length tabs) [k] ch (((ks ++ ki) ++ kc) ++ kb) lps lp ltac:(lia)
                  ltac:(rewrite (nd_simple p Hsp); lia) Hwp' Hlpp Hcv3) as [tabs4 [Hc4 Hcv4]].
      rewrite (simple_dl _ p Hsp), (nd_simple p Hsp), Nat.add_0_r in Hcv4. cbn [app] in Hcv4.
      rewrite Hfl2, !app_length in Hc4.
      rewrite (simple_code _ (S k) _ _ p Hsp), (simple_embed _ (S k) _ p Hsp) in Hc4.
      destruct (stmt_code (S k) (scope ++ [k]) (length ks + length ki + length kc + length kb) p) as [cp kp] eqn:Ep. cbn [fst snd] in Hc4.
      destruct (close_block_to (S k + ndecls b) tabs4 (length tabs) [k] t l rest ((((ks ++ ki) ++ kc) ++ kb) ++ kp) loops Hcv4) as [Hcl Hcv5].
      exists tabs4. split; [|replace (k + S (ndecls b)) with (S k + ndecls b) by lia; exact Hcv5].
      unfold bind at 1. rewrite Ho. unfold bind at 1. rewrite push_loop_mkst. fold lps.
      unfold bind at 1. unfold bind at 1. rewrite Hin. unfold ret at 1. cbn [is_expression].
      unfold bind at 1.
      rewrite (compile_exp (S k) tabs2 ((length tabs, [k]) :: ch) (length tabs) [k] ch (ks ++ ki) lps c (S f) (scope ++ [k]) Hc2 eq_refl (eq_sym Hfl2) Hwc' ltac:(lia)).
      rewrite app_length, Ec. cbn [fst snd].
      unfold bind at 1. rewrite Hc3.
      unfold bind at 1. unfold bind at 1. rewrite Hc4. unfold ret at 1.
      rewrite embed_stmt_is_expression, (simple_not_expr p Hsp).
      unfold bind at 1. unfold lps. rewrite pop_loop_mkst. unfold bind at 1. rewrite Hcl.
      cbv zeta. unfold ret. rewrite !app_nil_r, <- !app_assoc. reflexivity.
    - (* break *)
      cbn [wf_stmt] in Hwf. destruct (Hlp Hwf) as [rest' ->].
      exists tabs. cbn [nd dl stmt_code fst snd embed_stmt]. rewrite Nat.add_0_r, !app_nil_r. split; [|exact Hc].
      apply compile_NBreak.
    - (* continue *)
      cbn [wf_stmt] in Hwf. destruct (Hlp Hwf) as [rest' ->].
      exists tabs. cbn [nd dl stmt_code fst snd embed_stmt]. rewrite Nat.add_0_r, !app_nil_r. split; [|exact Hc].
      apply compile_NContinue.
  Qed.

  (* ---------------------------------------------------------------- the program *)
  Lemma init_is_mkst : init_state [] = mkst (st_tabs (init_state [])) 0 [] [].
  Proof. reflexivity. Qed.
  Lemma init_cinv : cinv 0 (st_tabs (init_state [])) [(0, [])].
  Proof.
    split; [|split; [reflexivity|split; [constructor|lia]]].
    apply chain_root; cbn; try reflexivity. lia.
  Qed.

  Lemma collect_decls_stmts st : forall l k scope, collect_decls (embed_stmts names k scope l) st = inr (tt, st).
  Proof.
    unfold collect_decls. induction l as [|s r IH]; intros k scope; [reflexivity|].
    rewrite embed_stmts_cons.
    destruct s as [e|i e|i o e|i up|e|c t e|c t|c b|b|e0 c p b| |]; cbn [embed_stmt]; try apply IH.
    destruct e; cbn [embed]; apply IH.
  Qed.

  Theorem compile_var_program l f :
    l <> [] -> ndecls l <= length names -> wf_stmts false 0 l = true -> max_height l <= f ->
    exists tabs, compile_program (S f) [] (embed_stmts names 0 [] l) =
                 inr (Code main_id main_id false 0 (fst (pcode l)) (snd (pcode l)) [] [] [], tabs).
  Proof.
    intros Hne Hn Hwf Hh.
    destruct (cs_list f (compile_stmt f) l 0 (st_tabs (init_state [])) 0 [] [] [] [] false Hne Hh Hn Hwf
                ltac:(intros H; discriminate) init_cinv) as [tabs [Hc _]].
    change (flat [(0, [])]) with (@nil nat) in Hc.
    exists tabs. unfold compile_program. rewrite init_is_mkst.
    unfold bind at 1. unfold ret at 1. unfold bind at 1.
    rewrite (collect_decls_stmts _ l 0 []).
    destruct l as [|s r]; [contradiction|].
    rewrite embed_stmts_cons. rewrite embed_stmts_cons in Hc.
    change (fix cs (l0 : list node) : M (list slot) :=
              match l0 with
              | [] => ret []
              | [x] => bind (compile (S f) x) (fun a => ret (a ++ nil_after x))
              | x :: (_ :: _) as r0 => bind (compile (S f) x) (fun a => bind (cs r0) (fun b => ret (a ++ pop_between x ++ b)))
              end) with (cs_loop (S f)).
    change (match embed_stmts names (0 + nd s) (next_scope 0 [] s) r with [] => _ | _ :: _ => _ end)
      with (cs_loop (S f) (embed_stmt names 0 [] s :: embed_stmts names (0 + nd s) (next_scope 0 [] s) r)).
    unfold bind at 1. rewrite Hc. cbn [length app Nat.add].
    unfold pcode. destruct (scode 0 [] 0 (s :: r)) as [c ks]. cbn [fst snd].
    unfold bind, cur, ret. cbn [mkst st_stack st_tabs mw w_id w_name w_consts w_names w_children].
    reflexivity.
  Qed.
End Names.
