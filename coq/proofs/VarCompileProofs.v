(* Stages B and C, part 1: Compiler.compile_program on programs over top-level variables emits exactly [pcode], and
   leaves a root table that maps the variables, in declaration order, to the global slots 0, 1, 2 ... plus one empty
   block table per branch of a conditional. *)
From Coq Require Import List ZArith NArith Bool Arith Lia.
Require Import RV.model.Syntax RV.model.Compiler RV.model.ScalarFrag RV.model.VarProg RV.proofs.BackendProofs RV.proofs.VarProgFacts.
Import ListNotations.
Local Open Scope nat_scope.

(* insert_symbol into table 0 when that is a non-block table that does not know the name yet *)
Lemma insert_root (tb : table) rest name c stk fi :
  tb_block tb = false -> Compiler.assoc name (tb_byname tb) = None ->
  insert_symbol 0 name c {| st_tabs := tb :: rest; st_stack := stk; st_funcindex := fi |} =
  inr ({| sy_name := name; sy_index := N.of_nat (length (tb_syms tb)); sy_const := c |},
       {| st_tabs := {| tb_id := tb_id tb; tb_parent := tb_parent tb; tb_nchildren := tb_nchildren tb;
                        tb_byname := (name, {| sy_name := name; sy_index := N.of_nat (length (tb_syms tb)); sy_const := c |}) :: tb_byname tb;
                        tb_freebyname := tb_freebyname tb;
                        tb_syms := tb_syms tb ++ [ {| sy_name := name; sy_index := N.of_nat (length (tb_syms tb)); sy_const := c |} ];
                        tb_free := tb_free tb; tb_block := tb_block tb |} :: rest;
          st_stack := stk; st_funcindex := fi |}).
Proof.
  destruct tb as [tid tpar tnc tby tfb tsy tfr tbl]. cbn [tb_block tb_byname]. intros -> Ha.
  unfold insert_symbol, bind, get_tab, get, set_tab, ret. cbn. rewrite Ha. cbn. reflexivity.
Qed.

Section Names.
  Variable names : list (list N).
  Hypothesis names_nodup : NoDup names.

  (* the root table after n declarations and m blocks *)
  Definition root_tb (n m : nat) : table :=
    {| tb_id := root_id; tb_parent := None; tb_nchildren := m;
       tb_byname := map (fun i => (nth i names [], sym_of names i)) (rev (seq 0 n));
       tb_freebyname := []; tb_syms := map (sym_of names) (seq 0 n); tb_free := []; tb_block := false |}.
  (* the j-th block opened directly under the root *)
  Definition block_j (j : nat) : table :=
    {| tb_id := root_id ++ [46%N] ++ dec j; tb_parent := Some 0; tb_nchildren := 0; tb_byname := [];
       tb_freebyname := []; tb_syms := []; tb_free := []; tb_block := true |}.
  Definition blocks (m : nat) : list table := map block_j (seq 0 m).

  Definition main_w (ks : list konst) : wcode :=
    {| w_id := main_id; w_name := main_id; w_named := false; w_functab := 0; w_tab := 0;
       w_consts := ks; w_names := []; w_children := []; w_pipe := false; w_funcid := [];
       w_loops := []; w_root := true |}.

  (* the compiler state: n variables, m blocks so far, current table t (0 = root), constants ks *)
  Definition gstate (n m t : nat) (ks : list konst) : cstate :=
    {| st_tabs := root_tb n m :: blocks m; st_stack := [with_tab (main_w ks) t]; st_funcindex := 0 |}.
  Notation pstate n m ks := (gstate n m 0 ks).

  Lemma init_is_pstate : init_state [] = pstate 0 0 [].
  Proof. reflexivity. Qed.

  Lemma beq_refl (a : list N) : Compiler.beq a a = true.
  Proof. unfold Compiler.beq. destruct (list_eq_dec N.eq_dec a a); [reflexivity|contradiction]. Qed.
  Lemma beq_neq (a b : list N) : a <> b -> Compiler.beq a b = false.
  Proof. intros H. unfold Compiler.beq. destruct (list_eq_dec N.eq_dec a b); [contradiction|reflexivity]. Qed.

  Lemma names_distinct i j : i < length names -> j < length names -> i <> j -> nth i names [] <> nth j names [].
  Proof. intros Hi Hj Hne Heq. apply Hne. exact (proj1 (NoDup_nth names []) names_nodup i j Hi Hj Heq). Qed.

  Lemma byname_lookup n m : n <= length names -> forall i, i < n ->
    Compiler.assoc (nth i names []) (tb_byname (root_tb n m)) = Some (sym_of names i).
  Proof.
    induction n as [|n IH]; intros Hn i Hi; [lia|].
    cbn [root_tb tb_byname]. rewrite seq_S, rev_app_distr. cbn [rev app map Nat.add Compiler.assoc].
    destruct (Nat.eq_dec i n) as [->|Hne].
    - rewrite beq_refl. reflexivity.
    - rewrite beq_neq by (apply names_distinct; lia). apply (IH ltac:(lia) i ltac:(lia)).
  Qed.

  Lemma byname_fresh n m : n < length names ->
    Compiler.assoc (nth n names []) (tb_byname (root_tb n m)) = None.
  Proof.
    intros Hn. cbn [root_tb tb_byname].
    assert (H : forall k, k <= n -> Compiler.assoc (nth n names []) (map (fun i => (nth i names [], sym_of names i)) (rev (seq 0 k))) = None).
    { induction k as [|k IH]; intros Hk; [reflexivity|].
      rewrite seq_S, rev_app_distr. cbn [rev app map Nat.add Compiler.assoc].
      rewrite beq_neq by (apply names_distinct; lia). apply IH. lia. }
    apply H. lia.
  Qed.

  Lemma gstate_tabs_ok n m t ks : n <= length names -> tabs_ok names (st_tabs (gstate n m t ks)) n.
  Proof. intros Hn. split; [reflexivity|]. intros i Hi. exact (byname_lookup n m Hn i Hi). Qed.

  Lemma add_consts_gstate n m t ks ks' : add_consts (gstate n m t ks) ks' = gstate n m t (ks ++ ks').
  Proof. reflexivity. Qed.

  Lemma nth_blocks m j : j < m -> nth (S j) (root_tb 0 0 :: blocks m) dummy_table = block_j j.
  Proof.
    intros Hj. cbn [nth]. unfold blocks.
    rewrite (nth_indep _ dummy_table (block_j 0)) by (rewrite map_length, seq_length; exact Hj).
    rewrite map_nth, seq_nth by exact Hj. reflexivity.
  Qed.

  (* variables resolve to their global slot, at the root and inside a block *)
  Lemma gstate_res_ok n m t ks : n <= length names -> t <= m -> res_ok names (gstate n m t ks) n.
  Proof.
    intros Hn Ht. destruct t as [|j].
    - exact (res_ok_root names (gstate n m 0 ks) (main_w ks) [] n eq_refl eq_refl (gstate_tabs_ok n m 0 ks Hn)).
    - apply (res_ok_block names (gstate n m (S j) ks) (with_tab (main_w ks) (S j)) [] n eq_refl).
      + cbn [with_tab w_tab gstate st_tabs nth]. unfold blocks.
        rewrite (nth_indep _ dummy_table (block_j 0)) by (rewrite map_length, seq_length; lia).
        rewrite map_nth, seq_nth by lia. repeat split.
      + exact (gstate_tabs_ok n m (S j) ks Hn).
  Qed.

  (* expressions on the program state *)
  Lemma compile_exp n m t ks e f : n <= length names -> t <= m -> wf n e = true -> height e <= f ->
    compile f (embed names e) (gstate n m t ks) =
    inr (I (fst (cexp (length ks) e)), gstate n m t (ks ++ snd (cexp (length ks) e))).
  Proof.
    intros Hn Ht Hwf Hf.
    rewrite (compile_scalar_res names n e f (gstate n m t ks) (with_tab (main_w ks) t) [] eq_refl
               (gstate_res_ok n m t ks Hn Ht) Hwf Hf).
    reflexivity.
  Qed.

  Lemma root_tb_S n m : root_tb (S n) m =
    {| tb_id := root_id; tb_parent := None; tb_nchildren := m;
       tb_byname := (nth n names [], sym_of names n) :: tb_byname (root_tb n m);
       tb_freebyname := []; tb_syms := tb_syms (root_tb n m) ++ [sym_of names n]; tb_free := []; tb_block := false |}.
  Proof.
    unfold root_tb. cbn [tb_byname tb_syms]. rewrite seq_S, map_app, rev_app_distr. reflexivity.
  Qed.

  Lemma root_syms_length n m : length (tb_syms (root_tb n m)) = n.
  Proof. cbn [root_tb tb_syms]. rewrite map_length, seq_length. reflexivity. Qed.

  Arguments root_tb : simpl never.

  Lemma insert_next n m ks : n < length names ->
    insert_symbol 0 (nth n names []) false (pstate n m ks) = inr (sym_of names n, pstate (S n) m ks).
  Proof.
    intros Hn. unfold gstate. rewrite (insert_root (root_tb n m) _ _ _ _ _ eq_refl (byname_fresh n m Hn)).
    rewrite root_syms_length, root_tb_S. reflexivity.
  Qed.

  (* ---------------------------------------------------------------- statements *)
  Lemma compile_NVar f name v : compile (S f) (NVar name v) =
    bind (compile f v) (fun a => bind cur (fun w => bind (insert_symbol (w_tab w) name false) (fun sym =>
      bind (store_sym sym) (fun st => ret (a ++ st))))).
  Proof. reflexivity. Qed.
  Lemma compile_NAssign_eq f name v : compile (S f) (NAssign name [61%N] v) =
    bind (resolve_cur name) (fun rs =>
      if sy_const (rs_sym rs) then fail (EConstAssign name) else
      bind (compile f v) (fun a => ret (a ++ store_res rs))).
  Proof. reflexivity. Qed.

  (* the statement loop of compileProgram and of compileBlock *)
  Definition cs_loop (fuel : nat) : list node -> M (list slot) :=
    fix cs (l : list node) : M (list slot) :=
      match l with
      | [] => ret []
      | [x] => bind (compile fuel x) (fun a => ret (a ++ nil_after x))
      | x :: r => bind (compile fuel x) (fun a => bind (cs r) (fun b => ret (a ++ pop_between x ++ b)))
      end.
  Lemma cs_loop_cons f x y r : cs_loop f (x :: y :: r) =
    bind (compile f x) (fun a => bind (cs_loop f (y :: r)) (fun b => ret (a ++ pop_between x ++ b))).
  Proof. reflexivity. Qed.

  (* compileBlock *)
  Definition cblock (fuel : nat) (l : list node) : M (list slot) :=
    bind open_block (fun _ => bind (match l with [] => ret (I [opNil]) | _ => cs_loop fuel l end)
                                   (fun c => bind close_block (fun _ => ret c))).
  Lemma compile_NIf f c cns al : compile (S f) (NIf c cns (Some al)) =
    bind (compile f c) (fun a => bind (cblock f cns) (fun t => bind (cblock f al) (fun e =>
      ret (a ++ I [opPopJumpForwardIfFalse; (nlen t + 4)%N] ++ t ++ I [opJumpForward; (nlen e + 2)%N] ++ e)))).
  Proof. reflexivity. Qed.
  (* ---------------------------------------------------------------- blocks *)
  Lemma blocks_S m : blocks (S m) = blocks m ++ [block_j m].
  Proof. unfold blocks. rewrite seq_S, map_app. reflexivity. Qed.

  Lemma blocks_length m : length (blocks m) = m.
  Proof. unfold blocks. rewrite map_length, seq_length. reflexivity. Qed.

  Lemma open_block_root n m ks : open_block (pstate n m ks) = inr (tt, gstate n (S m) (S m) ks).
  Proof.
    unfold open_block, bind, cur, new_child, get_tab, set_tab, set_cur, bind.
    cbn [gstate st_stack st_tabs nth with_tab w_tab main_w list_set st_funcindex].
    unfold gstate. rewrite blocks_S. cbn [length]. rewrite blocks_length.
    reflexivity.
  Qed.

  Lemma close_block_last n m ks : close_block (gstate n (S m) (S m) ks) = inr (tt, pstate n (S m) ks).
  Proof.
    unfold close_block, bind, cur, get_tab, set_cur.
    cbn [gstate st_stack st_tabs with_tab w_tab main_w].
    assert (E : nth (S m) (root_tb n (S m) :: blocks (S m)) dummy_table = block_j m).
    { cbn [nth]. unfold blocks. rewrite (nth_indep _ dummy_table (block_j 0)) by (rewrite map_length, seq_length; lia).
      rewrite map_nth, seq_nth by lia. reflexivity. }
    rewrite E. reflexivity.
  Qed.

  (* ---------------------------------------------------------------- the statements of a branch *)
  Lemma pop_between_simple m0 : pop_between (embed_simple names m0) = if is_expr_simple m0 then [SI opPopTop] else [].
  Proof. destruct m0; cbn [embed_simple is_expr_simple]; unfold pop_between; [reflexivity|rewrite (embed_is_expression names); reflexivity]. Qed.
  Lemma nil_after_simple m0 : nil_after (embed_simple names m0) = if is_expr_simple m0 then [] else [SI opNil].
  Proof. destruct m0; cbn [embed_simple is_expr_simple]; unfold nil_after; [reflexivity|rewrite (embed_is_expression names); reflexivity]. Qed.

  Lemma compile_simple n m t ks m0 f :
    n <= length names -> t <= m -> wf_simple n m0 = true -> height (simple_exp m0) <= f ->
    compile (S f) (embed_simple names m0) (gstate n m t ks) =
    inr (I (fst (simple_code (length ks) m0)), gstate n m t (ks ++ snd (simple_code (length ks) m0))).
  Proof.
    intros Hn Ht Hwf Hf. destruct m0 as [i e|e]; cbn [embed_simple simple_code wf_simple simple_exp] in *.
    - apply andb_true_iff in Hwf. destruct Hwf as [Hi Hwf]. apply Nat.ltb_lt in Hi.
      rewrite compile_NAssign_eq. unfold bind at 1.
      rewrite (res_ok_here names (gstate n m t ks) n (with_tab (main_w ks) t) [] i eq_refl (gstate_res_ok n m t ks Hn Ht) Hi).
      cbn [rs_sym sym_of sy_const]. unfold bind.
      rewrite (compile_exp n m t ks e f Hn Ht Hwf Hf).
      destruct (cexp (length ks) e) as [c kk]. cbn [fst snd].
      unfold ret, store_res. cbn [rs_scope rs_sym sym_of sy_index]. rewrite I_app. reflexivity.
    - rewrite (compile_exp n m t ks e (S f) Hn Ht Hwf ltac:(lia)). reflexivity.
  Qed.

  Lemma simples_height_cons m0 r : simples_height (m0 :: r) = Nat.max (height (simple_exp m0)) (simples_height r).
  Proof. reflexivity. Qed.

  Lemma cs_simples f n m t : n <= length names -> t <= m -> forall l ks, l <> [] ->
    forallb (wf_simple n) l = true -> simples_height l <= f ->
    cs_loop (S f) (map (embed_simple names) l) (gstate n m t ks) =
    inr (I (fst (simples_code (length ks) l)), gstate n m t (ks ++ snd (simples_code (length ks) l))).
  Proof.
    intros Hn Ht. induction l as [|m0 r IH]; intros ks Hne Hwf Hh; [contradiction|].
    cbn [forallb] in Hwf. apply andb_true_iff in Hwf. destruct Hwf as [Hw0 Hwr].
    rewrite simples_height_cons in Hh.
    pose proof (compile_simple n m t ks m0 f Hn Ht Hw0 ltac:(lia)) as Hc.
    destruct r as [|m2 r2].
    - cbn [map cs_loop]. rewrite simples_code_single. unfold bind. rewrite Hc.
      destruct (simple_code (length ks) m0) as [c kk]. cbn [fst snd]. unfold ret.
      rewrite nil_after_simple, I_app. destruct (is_expr_simple m0); reflexivity.
    - assert (Hr : m2 :: r2 <> []) by discriminate.
      change (map (embed_simple names) (m0 :: m2 :: r2))
        with (embed_simple names m0 :: embed_simple names m2 :: map (embed_simple names) r2).
      rewrite cs_loop_cons.
      change (embed_simple names m2 :: map (embed_simple names) r2) with (map (embed_simple names) (m2 :: r2)).
      unfold bind at 1. rewrite Hc.
      destruct (simple_code (length ks) m0) as [c kk] eqn:Es. cbn [fst snd].
      unfold bind at 1.
      rewrite (IH (ks ++ kk) Hr Hwr ltac:(lia)).
      rewrite app_length, simples_code_cons2, Es.
      destruct (simples_code (length ks + length kk) (m2 :: r2)) as [cr kr]. cbn [fst snd].
      unfold ret. rewrite pop_between_simple, <- app_assoc, !I_app.
      destruct (is_expr_simple m0); reflexivity.
  Qed.

  (* a whole branch: opens block m, compiles the statements (Nil for none), closes the block *)
  Lemma cblock_branch f n m ks l : n <= length names ->
    forallb (wf_simple n) l = true -> simples_height l <= f ->
    cblock (S f) (map (embed_simple names) l) (pstate n m ks) =
    inr (I (fst (block_code (length ks) l)), pstate n (S m) (ks ++ snd (block_code (length ks) l))).
  Proof.
    intros Hn Hwf Hh. unfold cblock. unfold bind at 1. rewrite open_block_root.
    destruct l as [|m0 r].
    - cbn [map block_code fst snd]. unfold bind, ret. rewrite close_block_last, app_nil_r. reflexivity.
    - assert (Hne : m0 :: r <> []) by discriminate.
      change (match map (embed_simple names) (m0 :: r) with [] => ret (I [opNil]) | _ :: _ => cs_loop (S f) (map (embed_simple names) (m0 :: r)) end)
        with (cs_loop (S f) (map (embed_simple names) (m0 :: r))).
      unfold bind at 1.
      rewrite (cs_simples f n (S m) (S m) Hn (le_n _) (m0 :: r) ks Hne Hwf Hh).
      change (block_code (length ks) (m0 :: r)) with (simples_code (length ks) (m0 :: r)).
      destruct (simples_code (length ks) (m0 :: r)) as [c kk]. cbn [fst snd].
      unfold bind, ret. rewrite close_block_last. reflexivity.
  Qed.
  (* ---------------------------------------------------------------- top-level statements *)
  Notation embed_stmt := (VarProgFacts.embed_stmt names).
  Notation embed_stmts_cons := (VarProgFacts.embed_stmts_cons names).
  Notation embed_is_expression := (VarProgFacts.embed_is_expression names).

  (* every conditional opens two blocks *)
  Definition next_m (m : nat) (s : stmt) : nat := match s with SIf _ _ _ => S (S m) | _ => m end.
  Fixpoint nblocks (l : list stmt) : nat :=
    match l with [] => 0 | SIf _ _ _ :: r => S (S (nblocks r)) | _ :: r => nblocks r end.
  Lemma nblocks_cons m s r : next_m m s + nblocks r = m + nblocks (s :: r).
  Proof. destruct s; cbn [next_m nblocks]; lia. Qed.

  Lemma compile_stmt k m ks s f :
    next_k k s <= length names -> wf_stmt k s = true -> stmt_height s <= f ->
    compile (S f) (embed_stmt k s) (pstate k m ks) =
    inr (I (fst (stmt_code k (length ks) s)), pstate (next_k k s) (next_m m s) (ks ++ snd (stmt_code k (length ks) s))).
  Proof.
    intros Hk Hwf Hf. destruct s as [e|i e|e|c t e]; cbn [VarProgFacts.embed_stmt stmt_code next_k next_m wf_stmt stmt_height] in *.
    - (* x := e *)
      rewrite compile_NVar. unfold bind at 1.
      rewrite (compile_exp k m 0 ks e f ltac:(lia) ltac:(lia) Hwf Hf).
      destruct (cexp (length ks) e) as [c kk]. cbn [fst snd].
      unfold bind, cur. cbn [gstate st_stack main_w with_tab w_tab].
      rewrite (insert_next k m (ks ++ kk) ltac:(lia)).
      unfold store_sym, bind, is_root, cur, ret. cbn [gstate st_stack main_w with_tab w_root sym_of sy_index].
      rewrite I_app. reflexivity.
    - (* x = e *)
      exact (compile_simple k m 0 ks (MSet i e) f ltac:(lia) ltac:(lia) Hwf Hf).
    - (* e *)
      exact (compile_simple k m 0 ks (MExpr e) f ltac:(lia) ltac:(lia) Hwf ltac:(cbn [simple_exp]; lia)).
    - (* if c { t } else { e } *)
      apply andb_true_iff in Hwf. destruct Hwf as [Hwct Hwe]. apply andb_true_iff in Hwct. destruct Hwct as [Hwc Hwt].
      destruct f as [|f]; [lia|]. destruct f as [|f]; [lia|].
      rewrite compile_NIf. unfold bind at 1.
      rewrite (compile_exp k m 0 ks c (S (S f)) ltac:(lia) ltac:(lia) Hwc ltac:(lia)).
      destruct (cexp (length ks) c) as [cc kc]. cbn [fst snd].
      unfold bind at 1.
      rewrite (cblock_branch (S f) k m (ks ++ kc) t ltac:(lia) Hwt ltac:(lia)). rewrite app_length.
      destruct (block_code (length ks + length kc) t) as [ct kt]. cbn [fst snd].
      unfold bind at 1.
      rewrite (cblock_branch (S f) k (S m) ((ks ++ kc) ++ kt) e ltac:(lia) Hwe ltac:(lia)). rewrite !app_length.
      destruct (block_code (length ks + length kc + length kt) e) as [ce ke]. cbn [fst snd].
      unfold ret. rewrite !nlen_I, <- !app_assoc, !I_app. cbn [I map app]. reflexivity.
  Qed.

  Lemma pop_between_stmt k s : pop_between (embed_stmt k s) = if is_expr_stmt s then [SI opPopTop] else [].
  Proof. destruct s; cbn [VarProgFacts.embed_stmt is_expr_stmt]; unfold pop_between; try reflexivity. rewrite embed_is_expression; reflexivity. Qed.
  Lemma nil_after_stmt k s : nil_after (embed_stmt k s) = if is_expr_stmt s then [] else [SI opNil].
  Proof. destruct s; cbn [VarProgFacts.embed_stmt is_expr_stmt]; unfold nil_after; try reflexivity. rewrite embed_is_expression; reflexivity. Qed.

  Lemma cs_program f : forall l k m ks, l <> [] ->
    k + ndecls l <= length names -> wf_stmts k l = true -> max_height l <= f ->
    cs_loop (S f) (embed_stmts names k l) (pstate k m ks) =
    inr (I (fst (pcode k (length ks) l)), pstate (k + ndecls l) (m + nblocks l) (ks ++ snd (pcode k (length ks) l))).
  Proof.
    induction l as [|s r IH]; intros k m ks Hne Hk Hwf Hh; [contradiction|].
    rewrite wf_stmts_cons in Hwf. apply andb_true_iff in Hwf. destruct Hwf as [Hws Hwr].
    rewrite max_height_cons in Hh. rewrite embed_stmts_cons.
    assert (Hnk : next_k k s <= length names) by (rewrite <- ndecls_cons in Hk; lia).
    pose proof (compile_stmt k m ks s f Hnk Hws ltac:(lia)) as Hc.
    destruct r as [|s2 r2].
    - (* the last statement *)
      cbn [embed_stmts cs_loop]. rewrite pcode_single. unfold bind. rewrite Hc.
      destruct (stmt_code k (length ks) s) as [c kk]. cbn [fst snd]. unfold ret.
      rewrite nil_after_stmt, I_app. rewrite <- ndecls_cons, <- nblocks_cons. cbn [ndecls nblocks]. rewrite !Nat.add_0_r.
      destruct (is_expr_stmt s); reflexivity.
    - (* more statements follow *)
      assert (Hr : s2 :: r2 <> []) by discriminate.
      rewrite (embed_stmts_cons (next_k k s) s2 r2), cs_loop_cons, <- (embed_stmts_cons (next_k k s) s2 r2).
      unfold bind at 1. rewrite Hc.
      destruct (stmt_code k (length ks) s) as [c kk] eqn:Es. cbn [fst snd].
      unfold bind at 1.
      rewrite (IH (next_k k s) (next_m m s) (ks ++ kk) Hr ltac:(rewrite ndecls_cons; exact Hk) Hwr ltac:(lia)).
      rewrite app_length, pcode_cons2, Es.
      destruct (pcode (next_k k s) (length ks + length kk) (s2 :: r2)) as [cr kr]. cbn [fst snd].
      unfold ret. rewrite pop_between_stmt, ndecls_cons, nblocks_cons, <- app_assoc, !I_app.
      destruct (is_expr_stmt s); reflexivity.
  Qed.

  Lemma strip_I l : map (fun s => match s with SI n => n | _ => PLACEHOLDER end) (I l) = l.
  Proof. unfold I. rewrite map_map. induction l; cbn; congruence. Qed.

  Lemma collect_decls_stmts st : forall l k, collect_decls (embed_stmts names k l) st = inr (tt, st).
  Proof.
    unfold collect_decls. induction l as [|s r IH]; intros k; [reflexivity|].
    rewrite embed_stmts_cons.
    destruct s as [e|i e|e|c t e]; cbn [VarProgFacts.embed_stmt]; try apply IH.
    destruct e; cbn [embed]; apply IH.
  Qed.

  Theorem compile_var_program l f :
    l <> [] -> ndecls l <= length names -> wf_stmts 0 l = true -> max_height l <= f ->
    compile_program (S f) [] (embed_stmts names 0 l) =
    inr (Code main_id main_id false 0 (fst (pcode 0 0 l)) (snd (pcode 0 0 l)) [] [] [],
         root_tb (ndecls l) (nblocks l) :: blocks (nblocks l)).
  Proof.
    intros Hne Hn Hwf Hh. unfold compile_program. rewrite init_is_pstate.
    unfold bind at 1. unfold ret at 1. unfold bind at 1.
    rewrite (collect_decls_stmts (pstate 0 0 []) l 0).
    destruct l as [|s r]; [contradiction|].
    rewrite embed_stmts_cons.
    change (fix cs (l0 : list node) : M (list slot) :=
              match l0 with
              | [] => ret []
              | [x] => bind (compile (S f) x) (fun a => ret (a ++ nil_after x))
              | x :: (_ :: _) as r0 => bind (compile (S f) x) (fun a => bind (cs r0) (fun b => ret (a ++ pop_between x ++ b)))
              end) with (cs_loop (S f)).
    change (match embed_stmts names (next_k 0 s) r with [] => _ | _ :: _ => _ end)
      with (cs_loop (S f) (embed_stmt 0 s :: embed_stmts names (next_k 0 s) r)).
    rewrite <- embed_stmts_cons. unfold bind at 1.
    rewrite (cs_program f (s :: r) 0 0 [] Hne Hn Hwf Hh). cbn [length app Nat.add].
    destruct (pcode 0 0 (s :: r)) as [c ks]. cbn [fst snd].
    unfold bind, cur, ret. cbn [gstate st_stack st_tabs main_w with_tab w_id w_name w_consts w_names w_children].
    rewrite strip_I. reflexivity.
  Qed.
End Names.
