(* Proofs about the import model, part A: which module names a parsed import statement can hand to the
   importer, and which files the importers derive from them. *)
From Coq Require Import List Bool Arith NArith ZArith Lia.
Require Import RV.model.Paths RV.proofs.PathsProofs RV.model.Lexer RV.model.Parser RV.model.Importer.
Import ListNotations.
Local Open Scope nat_scope.

Lemma byte_slash_dot : @slash ByteAlphabet <> @dot ByteAlphabet.
Proof. discriminate. Qed.

Notation bnormal := (@normal ByteAlphabet).
Notation bnoslash := (@noslash ByteAlphabet).
Local Notation split_aux := (@Paths.split_aux ByteAlphabet).
Local Notation split := (@Paths.split ByteAlphabet).
Local Notation join_segs := (@Paths.join_segs ByteAlphabet).
Local Notation clean := (@Paths.clean ByteAlphabet).
Local Notation clean_segs := (@Paths.clean_segs ByteAlphabet).
Local Notation clean_stack := (@Paths.clean_stack ByteAlphabet).
Local Notation comps := (@Paths.comps ByteAlphabet).
Local Notation is_rooted := (@Paths.is_rooted ByteAlphabet).
Local Notation is_slash := (@Paths.is_slash ByteAlphabet).
Local Notation is_dot := (@Paths.is_dot ByteAlphabet).
Local Notation is_dotdot := (@Paths.is_dotdot ByteAlphabet).
Local Notation slash := (@Paths.slash ByteAlphabet).

(* ---------- plain components ---------- *)

Definition plain (c : bstr) : Prop := c <> [] /\ Forall (fun ch => ch <> 47%N /\ ch <> 46%N) c.

Lemma plain_byte_spec ch : plain_byte ch = true <-> ch <> 47%N /\ ch <> 46%N.
Proof.
  unfold plain_byte. rewrite andb_true_iff, !negb_true_iff, !N.eqb_neq. tauto.
Qed.

Lemma plainb_spec c : plainb c = true <-> plain c.
Proof.
  unfold plainb, plain. rewrite andb_true_iff, negb_true_iff, forallb_forall, Forall_forall.
  split; intros (H1 & H2); split.
  - destruct c; [discriminate|discriminate].
  - intros x Hx. apply plain_byte_spec. auto.
  - destruct c; [contradiction|reflexivity].
  - intros x Hx. apply plain_byte_spec. auto.
Qed.

Lemma str_eqb_N (a b : bstr) : @str_eqb ByteAlphabet a b = true <-> a = b.
Proof. exact (@str_eqb_eq ByteAlphabet a b). Qed.

(* a string with no slash that contains a character other than '.' is a normal path element *)
Definition hasplain (c : bstr) : Prop := Exists (fun ch => ch <> 46%N) c.

Lemma good_normal c : bnoslash c -> hasplain c -> bnormal c.
Proof.
  intros Hs He. unfold normal. repeat split.
  - destruct c; [inversion He|reflexivity].
  - destruct (is_dot c) eqn:E; [|reflexivity]. apply str_eqb_N in E. subst c.
    inversion He as [? ? H|? ? H]; subst; [contradiction H; reflexivity|inversion H].
  - destruct (is_dotdot c) eqn:E; [|reflexivity]. apply str_eqb_N in E. subst c.
    inversion He as [? ? H|? ? H]; subst; [contradiction H; reflexivity|].
    inversion H as [? ? H'|? ? H']; subst; [contradiction H'; reflexivity|inversion H'].
  - exact Hs.
Qed.

Lemma plain_good c : plain c -> bnoslash c /\ hasplain c.
Proof.
  intros (NE & H). split.
  - unfold noslash. eapply Forall_impl; [|exact H]. cbn. intros a (Ha & _). exact Ha.
  - destruct c as [|x r]; [contradiction|]. inversion H as [|? ? (_ & Hx) _]; subst. left. exact Hx.
Qed.

Lemma plain_normal c : plain c -> bnormal c.
Proof. intros H. destruct (plain_good c H). apply good_normal; assumption. Qed.

(* ---------- split / join_segs ---------- *)

Lemma is_slash_N c : is_slash c = (c =? 47)%N.
Proof.
  unfold is_slash. destruct (@ceq ByteAlphabet c slash) as [E|E].
  - symmetry. apply N.eqb_eq. exact E.
  - symmetry. apply N.eqb_neq. exact E.
Qed.


Lemma split_aux_nonnil (cur s : bstr) : split_aux cur s <> [].
Proof. revert cur; induction s as [|c r IH]; intros cur; cbn; [discriminate|]. destruct (is_slash c); [discriminate|apply IH]. Qed.

Lemma join_segs_cons (x : bstr) (l : list bstr) : l <> [] -> join_segs (x :: l) = x ++ 47%N :: join_segs l.
Proof. destruct l; [contradiction|reflexivity]. Qed.

Lemma join_split_aux (cur s : bstr) : join_segs (split_aux cur s) = rev cur ++ s.
Proof.
  revert cur; induction s as [|c r IH]; intros cur; cbn [split_aux].
  - cbn. rewrite app_nil_r. reflexivity.
  - rewrite is_slash_N. destruct (c =? 47)%N eqn:E.
    + apply N.eqb_eq in E. subst c.
      rewrite join_segs_cons by apply split_aux_nonnil.
      f_equal. f_equal. exact (IH []).
    + rewrite IH. cbn [rev]. rewrite <- app_assoc. reflexivity.
Qed.

Lemma join_split (s : bstr) : join_segs (split s) = s.
Proof. unfold split. rewrite join_split_aux. reflexivity. Qed.

Definition name_ok (nm : bstr) : Prop := Forall plain (split nm).

Lemma name_okb_spec nm : name_okb nm = true <-> name_ok nm.
Proof.
  unfold name_okb, name_ok. rewrite forallb_forall, Forall_forall.
  split; intros H x Hx; apply plainb_spec; auto.
Qed.

Lemma name_ok_normal nm : name_ok nm -> Forall bnormal (split nm).
Proof. intros H. eapply Forall_impl; [|exact H]. apply plain_normal. Qed.

Lemma name_ok_unrooted nm : name_ok nm -> is_rooted nm = false.
Proof.
  intros H. destruct nm as [|c r]; [reflexivity|]. cbn. destruct (is_slash c) eqn:E; [|reflexivity].
  exfalso. unfold name_ok, split in H. cbn [split_aux] in H. rewrite E in H.
  inversion H as [|? ? (Hne & _) _]; subst. apply Hne. reflexivity.
Qed.

(* cleaning a well-formed module name is the identity *)
Lemma clean_name_ok nm : name_ok nm -> clean nm = nm.
Proof.
  intros H. unfold clean. rewrite (name_ok_unrooted nm H).
  unfold clean_segs. rewrite (name_ok_unrooted nm H).
  rewrite (@clean_stack_normal ByteAlphabet) by (apply name_ok_normal; exact H).
  rewrite app_nil_r, rev_involutive.
  destruct (split nm) as [|x l] eqn:E; [exfalso; exact (split_aux_nonnil [] nm E)|].
  rewrite <- E. apply join_split.
Qed.

Lemma name_ok_app a b : name_ok a -> name_ok b -> name_ok (a ++ 47%N :: b).
Proof.
  intros Ha Hb. unfold name_ok. change 47%N with slash. rewrite (@split_app ByteAlphabet).
  apply Forall_app. split; assumption.
Qed.

Lemma plain_name_ok c : plain c -> name_ok c.
Proof.
  intros H. unfold name_ok. rewrite (@split_noslash_id ByteAlphabet) by (apply plain_good; exact H).
  constructor; [exact H|constructor].
Qed.

Lemma name_ok_nonempty nm : name_ok nm -> nm <> [].
Proof. intros H E. subst nm. inversion H as [|? ? (Hne & _) _]. apply Hne. reflexivity. Qed.

(* ---------- validateImportPath ---------- *)

Lemma trim_quotes_left_cons c r :
  trim_quotes_left (c :: r) = if (c =? 34)%N then trim_quotes_left r else c :: r.
Proof.
  destruct c as [|p]; [reflexivity|].
  do 7 (try (destruct p as [p|p|]; try reflexivity)).
Qed.

Definition quotes (q : bstr) : Prop := Forall (fun ch => ch = 34%N) q.

Lemma trim_quotes_left_spec l : exists q, quotes q /\ l = q ++ trim_quotes_left l.
Proof.
  induction l as [|c r IH].
  - exists []. split; [constructor|reflexivity].
  - rewrite trim_quotes_left_cons. destruct (c =? 34)%N eqn:E.
    + apply N.eqb_eq in E. subst c. destruct IH as (q & Hq & Er).
      exists (34%N :: q). split; [constructor; [reflexivity|exact Hq]|]. cbn. f_equal. exact Er.
    + exists []. split; [constructor|reflexivity].
Qed.

Lemma valid_decompose p :
  valid_import_path p = true ->
  exists q1 core q2, p = q1 ++ core ++ q2 /\ quotes q1 /\ quotes q2 /\ valid_import_path_aux core true = true.
Proof.
  unfold valid_import_path. intros H.
  destruct (trim_quotes_left_spec p) as (q1 & Hq1 & E1).
  destruct (trim_quotes_left_spec (rev (trim_quotes_left p))) as (q2 & Hq2 & E2).
  exists q1, (rev (trim_quotes_left (rev (trim_quotes_left p)))), (rev q2).
  repeat split; try assumption.
  - rewrite E1 at 1. f_equal. rewrite <- rev_app_distr, <- E2, rev_involutive. reflexivity.
  - unfold quotes. apply Forall_rev. exact Hq2.
Qed.

Lemma ident_char_plain c : ident_char c = true -> c <> 47%N /\ c <> 46%N.
Proof.
  unfold ident_char, is_ascii_letter, is_digit. intros H. split; intros ->; vm_compute in H; discriminate.
Qed.
Lemma ident_start_char c : ident_start c = true -> ident_char c = true.
Proof.
  unfold ident_start, ident_char. rewrite !orb_true_iff. intros [H|H]; auto.
Qed.

Notation nds := (Forall (fun ch : N => ch <> 47%N /\ ch <> 46%N)).

Lemma quotes_nds q : quotes q -> nds q.
Proof. intros H. eapply Forall_impl; [|exact H]. cbn. intros a ->. split; discriminate. Qed.

Lemma nds_noslash (c : bstr) : nds c -> bnoslash c.
Proof. intros H. unfold noslash. eapply Forall_impl; [|exact H]. cbn. tauto. Qed.

Lemma rev_nil_inv {X} (l : list X) : rev l = [] -> l = [].
Proof. intros E. rewrite <- (rev_involutive l), E. reflexivity. Qed.

Lemma valid_aux_split l : forall (b : bool) (cur q2 : bstr),
  valid_import_path_aux l b = true -> (b = false -> cur <> []) -> nds cur -> nds q2 ->
  Forall plain (split_aux cur (l ++ q2)).
Proof.
  induction l as [|c r IH]; intros b cur q2 Hv Hb Hc Hq.
  - cbn in Hv. apply negb_true_iff in Hv. subst b. cbn [app].
    rewrite (@split_aux_noslash_id ByteAlphabet) by (apply nds_noslash; exact Hq).
    constructor; [|constructor]. split.
    + intros E. apply app_eq_nil in E. destruct E as (E & _).
      apply (Hb eq_refl). exact (rev_nil_inv _ E).
    + apply Forall_app. split; [apply Forall_rev; exact Hc|exact Hq].
  - cbn [app split_aux]. cbn [valid_import_path_aux] in Hv. destruct b.
    + apply andb_true_iff in Hv. destruct Hv as (Hs & Hv).
      pose proof (ident_char_plain c (ident_start_char c Hs)) as (Hns & Hnd).
      rewrite is_slash_N. apply N.eqb_neq in Hns. rewrite Hns.
      apply (IH false); [exact Hv|discriminate|constructor; [split; [apply N.eqb_neq; exact Hns|exact Hnd]|exact Hc]|exact Hq].
    + rewrite is_slash_N. destruct (c =? 47)%N eqn:E47.
      * apply N.eqb_eq in E47. subst c.
        constructor.
        -- split; [intros E; apply (Hb eq_refl); exact (rev_nil_inv _ E)|apply Forall_rev; exact Hc].
        -- apply (IH true); [exact Hv|discriminate|constructor|exact Hq].
      * apply andb_true_iff in Hv. destruct Hv as (Hs & Hv).
        pose proof (ident_char_plain c Hs) as (Hns & Hnd).
        apply (IH false); [exact Hv|discriminate|constructor; [split; assumption|exact Hc]|exact Hq].
Qed.

Lemma split_aux_prefix_noslash (q cur rest : bstr) :
  nds q -> split_aux cur (q ++ rest) = split_aux (rev q ++ cur) rest.
Proof.
  revert cur; induction q as [|c r IH]; intros cur H; [reflexivity|].
  inversion H as [|? ? (Hc & _) Hr]; subst. cbn [app split_aux]. rewrite is_slash_N.
  apply N.eqb_neq in Hc. rewrite Hc.
  rewrite IH by exact Hr. cbn [rev]. rewrite <- app_assoc. reflexivity.
Qed.

(* every path accepted by validateImportPath is a well-formed module name *)
Theorem valid_path_name_ok p : valid_import_path p = true -> name_ok p.
Proof.
  intros H. destruct (valid_decompose p H) as (q1 & core & q2 & -> & Hq1 & Hq2 & Hv).
  unfold name_ok, split. rewrite split_aux_prefix_noslash by (apply quotes_nds; exact Hq1).
  rewrite app_nil_r.
  apply (valid_aux_split core true); [exact Hv|discriminate|apply Forall_rev; apply quotes_nds; exact Hq1|apply quotes_nds; exact Hq2].
Qed.

(* identifiers *)
Lemma lex_ident_byte_plain c : lex_ident_byte c = true -> c <> 47%N /\ c <> 46%N.
Proof.
  unfold lex_ident_byte, is_ascii_letter, is_digit. intros H. split; intros ->; vm_compute in H; discriminate.
Qed.

Lemma lex_ident_plain s : lex_ident s = true -> plain s.
Proof.
  unfold lex_ident. rewrite andb_true_iff, negb_true_iff, forallb_forall. intros (H1 & H2). split.
  - destruct s; [discriminate|discriminate].
  - apply Forall_forall. intros x Hx. apply lex_ident_byte_plain. auto.
Qed.

(* ---------- filepath.Join of well-formed names ---------- *)

Lemma drop_empty_name_ok l : Forall name_ok l -> drop_empty l = l.
Proof.
  intros H. destruct l as [|e r]; [reflexivity|]. cbn. inversion H as [|? ? He _]; subst.
  destruct e; [exfalso; exact (name_ok_nonempty [] He eq_refl)|reflexivity].
Qed.

Lemma join_segs_name_ok l : l <> [] -> Forall name_ok l -> name_ok (join_segs l).
Proof.
  induction l as [|e r IH]; intros NE H; [contradiction|].
  inversion H as [|? ? He Hr]; subst. destruct r as [|e' r'].
  - exact He.
  - change (join_segs (e :: e' :: r')) with (e ++ slash :: join_segs (e' :: r')).
    apply name_ok_app; [exact He|]. apply IH; [discriminate|exact Hr].
Qed.

Lemma join_list_name_ok l : l <> [] -> Forall name_ok l -> join_list l = join_segs l /\ name_ok (join_list l).
Proof.
  intros NE H. unfold join_list. rewrite drop_empty_name_ok by exact H.
  destruct l as [|e r]; [contradiction|].
  pose proof (join_segs_name_ok (e :: r) NE H) as Hj.
  rewrite clean_name_ok by exact Hj. split; [reflexivity|exact Hj].
Qed.

Lemma from_parent_ok ps : ps <> [] -> Forall name_ok ps -> name_ok (from_parent ps).
Proof. intros NE H. apply join_list_name_ok; assumption. Qed.

Lemma from_name_ok ps nm : ps <> [] -> Forall name_ok ps -> name_ok nm -> name_ok (from_name ps nm).
Proof.
  intros NE H Hn. unfold from_name. apply join_list_name_ok; [discriminate|].
  constructor; [apply from_parent_ok; assumption|constructor; [exact Hn|constructor]].
Qed.

Lemma from_name_eq ps nm : ps <> [] -> Forall name_ok ps -> name_ok nm ->
  from_name ps nm = join_segs ps ++ 47%N :: nm.
Proof.
  intros NE H Hn. unfold from_name.
  destruct (join_list_name_ok ps NE H) as (E & Hp). unfold from_parent in *.
  destruct (join_list_name_ok [join_list ps; nm]) as (E2 & _); [discriminate|constructor; [exact Hp|constructor; [exact Hn|constructor]]|].
  rewrite E2. cbn [join_segs]. rewrite E. reflexivity.
Qed.

(* ---------- what a parsed statement can request ---------- *)

Lemma idents_name_ok l : forallb lex_ident l = true -> Forall name_ok l.
Proof.
  rewrite forallb_forall, Forall_forall. intros H x Hx. apply plain_name_ok, lex_ident_plain. auto.
Qed.

Theorem accepted_names_ok sp : accepted sp = true -> Forall name_ok (requested sp).
Proof.
  destruct sp as [id al|p al|ps imps g|p imps g]; cbn [accepted requested].
  - rewrite andb_true_iff. intros (_ & H). constructor; [apply valid_path_name_ok; exact H|constructor].
  - intros H. constructor; [apply valid_path_name_ok; exact H|constructor].
  - rewrite !andb_true_iff, !negb_true_iff. intros (((Hne & Hps) & _) & Himps).
    assert (NE : ps <> []) by (destruct ps; [discriminate|discriminate]).
    pose proof (idents_name_ok ps Hps) as Hok.
    constructor; [apply from_parent_ok; assumption|].
    apply Forall_map. rewrite forallb_forall in Himps. apply Forall_forall. intros i Hi.
    apply from_name_ok; [exact NE|exact Hok|]. apply plain_name_ok, lex_ident_plain. auto.
  - rewrite !andb_true_iff. intros ((Hp & _) & Himps).
    assert (Hok : Forall name_ok [p]) by (constructor; [apply valid_path_name_ok; exact Hp|constructor]).
    constructor; [apply from_parent_ok; [discriminate|exact Hok]|].
    apply Forall_map. rewrite forallb_forall in Himps. apply Forall_forall. intros i Hi.
    apply from_name_ok; [discriminate|exact Hok|]. apply plain_name_ok, lex_ident_plain. auto.
Qed.

(* ---------- the files ---------- *)

Definition good (c : bstr) : Prop := bnoslash c /\ hasplain c.

Lemma hasplain_app_l a b : hasplain a -> hasplain (a ++ b).
Proof. intros H. apply Exists_app. left. exact H. Qed.

(* appending an extension without a slash keeps every element normal *)
Lemma split_aux_ext (s ext cur : bstr) :
  bnoslash ext -> bnoslash cur -> Forall plain (split_aux cur s) -> Forall good (split_aux cur (s ++ ext)).
Proof.
  intros He. revert cur; induction s as [|c r IH]; intros cur Hc H.
  - cbn [app]. cbn [split_aux] in H. rewrite (@split_aux_noslash_id ByteAlphabet) by exact He.
    inversion H as [|? ? Hp _]; subst. destruct (plain_good _ Hp) as (Hs & Hh).
    constructor; [|constructor]. split.
    + unfold noslash. apply Forall_app. split; [exact Hs|exact He].
    + apply hasplain_app_l. exact Hh.
  - cbn [app split_aux] in *. destruct (is_slash c) eqn:E.
    + inversion H as [|? ? Hp Hr]; subst. constructor; [apply plain_good; exact Hp|].
      apply IH; [constructor|exact Hr].
    + apply IH; [|exact H]. constructor; [|exact Hc].
      rewrite is_slash_N in E. apply N.eqb_neq in E. exact E.
Qed.

Lemma file_elems nm ext : name_ok nm -> bnoslash ext -> Forall bnormal (split (nm ++ ext)).
Proof.
  intros H He. eapply Forall_impl; [|apply split_aux_ext; [exact He|constructor|exact H]].
  intros a (Hs & Hh). apply good_normal; assumption.
Qed.

(* FSImporter: the name handed to fs.FS.Open is a clean relative path of normal elements (fs.ValidPath) *)
Theorem fs_file_valid nm ext : name_ok nm -> bnoslash ext ->
  Forall bnormal (split (fs_file nm ext)) /\ clean (fs_file nm ext) = fs_file nm ext /\
  is_rooted (fs_file nm ext) = false.
Proof.
  intros H He. unfold fs_file. pose proof (file_elems nm ext H He) as Hn.
  assert (Hr : is_rooted (nm ++ ext) = false).
  { pose proof (name_ok_unrooted nm H) as U. pose proof (name_ok_nonempty nm H) as NE.
    destruct nm; [contradiction|exact U]. }
  split; [exact Hn|]. split; [|exact Hr].
  unfold clean. rewrite Hr. unfold clean_segs. rewrite Hr.
  rewrite (@clean_stack_normal ByteAlphabet) by exact Hn. rewrite app_nil_r, rev_involutive.
  destruct (split (nm ++ ext)) as [|x l] eqn:E; [exfalso; exact (split_aux_nonnil [] _ E)|].
  rewrite <- E. apply join_split.
Qed.

(* LocalImporter: the cleaned elements of the file are the cleaned elements of the root followed by the
   elements of name+ext, all normal: no "..", no ".", no empty element, no separator inside an element *)
Theorem local_file_elems root nm ext : root <> [] -> name_ok nm -> bnoslash ext ->
  clean_segs (root ++ 47%N :: nm ++ ext) = clean_segs root ++ split (nm ++ ext)
  /\ local_file root nm ext = clean (root ++ 47%N :: nm ++ ext).
Proof.
  intros NE H He. pose proof (file_elems nm ext H He) as Hn. split.
  - assert (Hr : is_rooted (root ++ 47%N :: nm ++ ext) = is_rooted root)
      by (exact (@is_rooted_app ByteAlphabet root (47%N :: nm ++ ext) NE)).
    assert (Hs : split (root ++ 47%N :: nm ++ ext) = split root ++ split (nm ++ ext))
      by (exact (@split_app ByteAlphabet root (nm ++ ext))).
    unfold Paths.clean_segs. rewrite Hr, Hs. rewrite (@clean_stack_app ByteAlphabet).
    rewrite (@clean_stack_normal ByteAlphabet) by exact Hn.
    rewrite rev_app_distr, rev_involutive. reflexivity.
  - unfold local_file, join. destruct root as [|c r]; [contradiction|].
    destruct (nm ++ ext) as [|x l] eqn:E; [|reflexivity].
    exfalso. apply app_eq_nil in E. destruct E as (E & _). exact (name_ok_nonempty nm H E).
Qed.

Theorem local_file_confined root nm ext : root <> [] -> Forall bnormal (clean_segs root) ->
  name_ok nm -> bnoslash ext ->
  comps (local_file root nm ext) = clean_segs root ++ split (nm ++ ext)
  /\ Forall bnormal (split (nm ++ ext)) /\ split (nm ++ ext) <> [].
Proof.
  intros NE Hroot H He. pose proof (file_elems nm ext H He) as Hn.
  destruct (local_file_elems root nm ext NE H He) as (Es & El).
  split; [|split; [exact Hn|apply split_aux_nonnil]].
  assert (Hall0 : Forall bnormal (clean_segs root ++ split (nm ++ ext))) by (apply Forall_app; split; assumption).
  pose proof (eq_ind_r (fun l => Forall bnormal l) Hall0 Es) as Hall. cbv beta in Hall.
  destruct (@comps_clean ByteAlphabet _ Hall) as [E|(E1 & _)].
  - exact (eq_trans (f_equal comps El) (eq_trans E Es)).
  - exfalso. pose proof (eq_trans (eq_sym Es) E1) as E2. apply app_eq_nil in E2. destruct E2 as (_ & E2).
    exact (split_aux_nonnil [] _ E2).
Qed.

(* the same statement for a base in the sense of C13 (non-empty, every component normal) *)
Lemma base_clean_segs root : @base_ok ByteAlphabet root -> clean_segs root = comps root.
Proof.
  intros (NE & Hn). unfold clean_segs. rewrite (@clean_stack_filter ByteAlphabet). fold (comps root).
  rewrite (@clean_stack_normal ByteAlphabet) by exact Hn. rewrite app_nil_r, rev_involutive. reflexivity.
Qed.

Theorem local_file_under_base root nm ext : @base_ok ByteAlphabet root -> name_ok nm -> bnoslash ext ->
  exists rest, comps (local_file root nm ext) = comps root ++ rest /\ Forall bnormal rest /\ rest <> [].
Proof.
  intros Hb H He. pose proof Hb as (NE & Hn).
  destruct (local_file_confined root nm ext NE) as (E & Hf & Hne); try assumption.
  - rewrite base_clean_segs by exact Hb. exact Hn.
  - exists (split (nm ++ ext)). rewrite E, base_clean_segs by exact Hb. repeat split; assumption.
Qed.

(* with an empty source directory the file is name+ext, relative to the process directory *)
Theorem local_file_empty_root nm ext : name_ok nm -> bnoslash ext -> local_file [] nm ext = nm ++ ext.
Proof.
  intros H He. unfold local_file, join.
  destruct (nm ++ ext) as [|x l] eqn:E.
  - exfalso. apply app_eq_nil in E. destruct E as (E & _). exact (name_ok_nonempty nm H E).
  - rewrite <- E. destruct (fs_file_valid nm ext H He) as (_ & Hc & _). exact Hc.
Qed.

Lemma default_exts_noslash : Forall bnoslash default_exts.
Proof. repeat constructor; discriminate. Qed.

(* ------------------------------------------------------------------ the source found for a name is stored under exactly that name *)

Lemma name_eqb_true : forall a b : name, name_eqb a b = true -> a = b.
Proof. intros a b H. unfold name_eqb in H. destruct (list_eq_dec N.eq_dec a b); [assumption|discriminate]. Qed.

Lemma find_file_exact : forall (T : tree) n ext src, find_file T n ext = Some src -> In (n, ext, src) T.
Proof.
  induction T as [|[[n' e'] s'] r IH]; intros n ext src H; simpl in H; [discriminate|].
  destruct (name_eqb n n' && name_eqb ext e') eqn:E.
  - apply andb_true_iff in E. destruct E as [E1 E2]. apply name_eqb_true in E1. apply name_eqb_true in E2.
    inversion H. subst. left. reflexivity.
  - right. apply IH. exact H.
Qed.

Theorem find_source_exact : forall (T : tree) exts n ext src,
  find_source T exts n = Some (ext, src) -> In ext exts /\ In (n, ext, src) T.
Proof.
  intros T exts. induction exts as [|e r IH]; intros n ext src H; simpl in H; [discriminate|].
  destruct (find_file T n e) as [s|] eqn:E.
  - inversion H. subst. split; [left; reflexivity|]. apply find_file_exact. exact E.
  - destruct (IH n ext src H) as [H1 H2]. split; [right; exact H1|exact H2].
Qed.
