(* ContainersProofs.v - index normalisation, Go slices refine lists, the store interpreter refines the
   reference containers for all operation sequences (C16). *)
From Coq Require Import List Bool ZArith Lia Permutation Sorted.
Require Import RV.model.Ops RV.model.Containers RV.proofs.OpsProofs.
Import ListNotations.
Open Scope Z_scope.

(* ================================================================ index normalisation *)

Lemma resolve_index_spec : forall i n, 0 <= n ->
  resolve_index i n = if (- n <=? i) && (i <? n) then Some (i mod n) else None.
Proof.
  intros i n Hn. unfold resolve_index. cbv zeta.
  destruct (Z.ltb_spec (n - 1) i) as [H1|H1].
  - assert (i <? n = false) as -> by (apply Z.ltb_ge; lia). rewrite andb_false_r. reflexivity.
  - assert (i <? n = true) as -> by (apply Z.ltb_lt; lia). rewrite andb_true_r.
    destruct (Z.leb_spec 0 i) as [H2|H2].
    + assert (- n <=? i = true) as -> by (apply Z.leb_le; lia). rewrite Z.mod_small by lia. reflexivity.
    + destruct (Z.ltb_spec (i + n) 0) as [H3|H3]; simpl.
      * assert (- n <=? i = false) as -> by (apply Z.leb_gt; lia). reflexivity.
      * assert (n - 1 <? i + n = false) as -> by (apply Z.ltb_ge; lia).
        assert (- n <=? i = true) as -> by (apply Z.leb_le; lia).
        f_equal. apply (Z.mod_unique i n (-1) (i + n)); lia.
Qed.

Lemma resolve_index_some : forall i n k, 0 <= n -> resolve_index i n = Some k -> 0 <= k < n.
Proof.
  intros i n k Hn H. rewrite resolve_index_spec in H by assumption.
  destruct ((- n <=? i) && (i <? n)) eqn:E; [|discriminate]. inversion H; subst.
  apply andb_true_iff in E. destruct E as [E1 E2]. apply Z.leb_le in E1. apply Z.ltb_lt in E2.
  apply Z.mod_pos_bound. lia.
Qed.

Definition norm_bound (b n : Z) : Z := if b <? 0 then n + b else b.

Lemma resolve_slice_core_spec : forall a b n, 0 <= n ->
  resolve_slice_core a b n =
  let a' := norm_bound a n in
  let b' := norm_bound b n in
  if (0 <=? a') && (a' <=? b') && (b' <=? n) && (a' <? n) then Some (a', b') else None.
Proof.
  intros a b n Hn. unfold resolve_slice_core, norm_bound. cbv zeta.
  destruct (Z.ltb_spec a 0); destruct (Z.ltb_spec b 0); simpl;
    repeat match goal with
           | |- context[?x <? ?y] => destruct (Z.ltb_spec x y); simpl
           | |- context[?x <=? ?y] => destruct (Z.leb_spec x y); simpl
           end; try reflexivity; try lia.
Qed.

Lemma resolve_slice_ok : forall lo hi n a b, 0 <= n -> resolve_slice lo hi n = Ok (a, b) -> 0 <= a <= b /\ b <= n /\ a < n.
Proof.
  intros lo hi n a b Hn H. unfold resolve_slice in H.
  destruct (match lo with None => Ok 0 | Some (VInt z) => Ok z | Some _ => Er EType end) as [s|]; [|discriminate].
  destruct (match hi with None => Ok n | Some (VInt z) => Ok z | Some _ => Er EType end) as [t|]; [|discriminate].
  rewrite resolve_slice_core_spec in H by assumption. cbv zeta in H.
  destruct ((0 <=? norm_bound s n) && (norm_bound s n <=? norm_bound t n) && (norm_bound t n <=? n) && (norm_bound s n <? n)) eqn:E;
    [|discriminate].
  inversion H; subst. apply andb_true_iff in E. destruct E as [E E4]. apply andb_true_iff in E. destruct E as [E E3].
  apply andb_true_iff in E. destruct E as [E1 E2].
  apply Z.leb_le in E1, E2, E3. apply Z.ltb_lt in E4. lia.
Qed.

(* ================================================================ Go slices refine lists *)

Lemma g_write_length : forall arr off vs, (off + length vs <= length arr)%nat -> length (g_write arr off vs) = length arr.
Proof.
  intros arr off vs H. unfold g_write. rewrite !app_length, firstn_length, skipn_length. lia.
Qed.

Lemma firstn_g_write_before : forall arr off vs n, (n <= off)%nat -> (off <= length arr)%nat ->
  firstn n (g_write arr off vs) = firstn n arr.
Proof.
  intros arr off vs n H1 H2. unfold g_write. rewrite firstn_app.
  rewrite firstn_length. replace (n - Nat.min off (length arr))%nat with O by lia.
  rewrite firstn_O, app_nil_r. rewrite firstn_firstn. f_equal. lia.
Qed.

Lemma firstn_g_write_through : forall arr off vs, (off + length vs <= length arr)%nat ->
  firstn (off + length vs) (g_write arr off vs) = firstn off arr ++ vs.
Proof.
  intros arr off vs H. unfold g_write. rewrite firstn_app. rewrite firstn_length.
  replace (Nat.min off (length arr)) with off by lia.
  rewrite firstn_firstn. replace (Nat.min (off + length vs) off) with off by lia.
  replace (off + length vs - off)%nat with (length vs) by lia.
  rewrite firstn_app. rewrite Nat.sub_diag, firstn_O, app_nil_r. rewrite firstn_all. reflexivity.
Qed.

Lemma g_append_abs : forall s vs, g_wf s -> g_abs (g_append s vs) = g_abs s ++ vs /\ g_wf (g_append s vs).
Proof.
  intros [arr len] vs W. unfold g_wf, g_abs, g_append in *. simpl in *.
  destruct (Nat.leb_spec (len + length vs) (length arr)).
  - simpl. split.
    + apply firstn_g_write_through. assumption.
    + rewrite g_write_length by assumption. assumption.
  - simpl. split.
    + rewrite app_assoc. rewrite firstn_app. rewrite app_length, firstn_length.
      replace (Nat.min len (length arr)) with len by lia.
      rewrite Nat.sub_diag, firstn_O, app_nil_r. apply firstn_all2. rewrite app_length, firstn_length. lia.
    + rewrite !app_length, firstn_length, repeat_length. lia.
Qed.

Lemma firstn_app_len : forall (A : Type) (a r : list A) n, firstn (length a + n) (a ++ r) = a ++ firstn n r.
Proof. intros. apply firstn_app_2. Qed.

Lemma firstn_app_exact : forall (A : Type) (a r : list A), firstn (length a) (a ++ r) = a.
Proof. intros. rewrite <- (Nat.add_0_r (length a)). rewrite firstn_app_2. simpl. apply app_nil_r. Qed.

Lemma skipn_app_exact : forall (A : Type) (a r : list A), skipn (length a) (a ++ r) = r.
Proof. induction a; simpl; auto. Qed.

Lemma skipn_app_len : forall (A : Type) (a r : list A) n, skipn (length a + n) (a ++ r) = skipn n r.
Proof. induction a; simpl; auto. Qed.

Lemma g_set_abs : forall s i v, g_wf s -> (i < g_len s)%nat ->
  g_abs (g_set s i v) = set_nth (g_abs s) i v /\ g_wf (g_set s i v).
Proof.
  intros [arr len] i v W H. unfold g_wf, g_abs, g_set, set_nth in *. cbn [g_arr g_len] in *. split.
  - destruct (nth_split arr VNil (n := i)) as (a & b & E & La); [lia|].
    set (x := nth i arr VNil) in *. clearbody x. subst arr.
    unfold g_write. cbn [length]. rewrite <- La.
    rewrite firstn_app_exact. rewrite skipn_app_len. change (skipn 1 (x :: b)) with b.
    rewrite app_length in W. cbn [length] in W.
    replace len with (length a + S (len - length a - 1))%nat by lia.
    rewrite !firstn_app_len. rewrite firstn_app_exact.
    cbn [firstn app].
    replace (S (length a)) with (length a + 1)%nat by lia. rewrite skipn_app_len. cbn [skipn]. reflexivity.
  - rewrite g_write_length; cbn [length]; lia.
Qed.

Lemma g_delete_abs : forall s i, g_wf s -> (i < g_len s)%nat ->
  g_abs (g_delete s i) = firstn i (g_abs s) ++ skipn (S i) (g_abs s) /\ g_wf (g_delete s i).
Proof.
  intros [arr len] i W H. unfold g_delete. cbn [g_arr g_len] in *.
  assert (W1 : g_wf (GS arr i)) by (unfold g_wf in *; cbn [g_arr g_len] in *; lia).
  destruct (g_append_abs (GS arr i) (firstn (len - i - 1) (skipn (S i) arr)) W1) as [A B].
  split; [|exact B]. rewrite A. unfold g_abs. cbn [g_arr g_len].
  rewrite firstn_firstn. replace (Nat.min i len) with i by lia.
  f_equal. rewrite skipn_firstn_comm. f_equal. lia.
Qed.

Lemma g_assign_abs : forall s l', g_wf s -> length l' = g_len s -> g_abs (g_assign s l') = l' /\ g_wf (g_assign s l').
Proof.
  intros [arr len] l' W H. unfold g_wf, g_abs, g_assign in *. simpl in *. split.
  - pose proof (firstn_g_write_through arr 0 l') as P. simpl in P. rewrite <- H. apply P. lia.
  - rewrite g_write_length; simpl; lia.
Qed.

Lemma g_write_at : forall (a mid b new : list value), length new = length mid ->
  g_write (a ++ mid ++ b) (length a) new = a ++ new ++ b.
Proof.
  intros a mid b new H. unfold g_write. rewrite firstn_app_exact. f_equal. f_equal.
  rewrite H. rewrite skipn_app_len. apply skipn_app_exact.
Qed.

Lemma g_arr_split : forall s, g_wf s -> g_arr s = g_abs s ++ skipn (g_len s) (g_arr s).
Proof. intros s W. unfold g_abs. symmetry. apply firstn_skipn. Qed.

Lemma g_abs_length : forall s, g_wf s -> length (g_abs s) = g_len s.
Proof. intros s W. unfold g_abs, g_wf in *. rewrite firstn_length. lia. Qed.

Lemma g_insert_abs : forall s z v, g_wf s -> g_abs (g_insert s z v) = ref_insert (g_abs s) z v /\ g_wf (g_insert s z v).
Proof.
  intros s z v W. unfold g_insert, ref_insert. cbv zeta.
  rewrite (g_abs_length s W).
  set (n := Z.of_nat (g_len s)).
  set (i := if z <? 0 then if n + z <? 0 then 0 else n + z else z).
  assert (Hi : 0 <= i \/ (n <= i)) by (unfold i; destruct (z <? 0) eqn:E1; [destruct (n + z <? 0) eqn:E2; lia | apply Z.ltb_ge in E1; lia]).
  destruct (Z.eqb_spec i 0) as [E0|E0].
  - (* new array with the item in front *)
    split.
    + unfold g_abs at 1. cbn [g_arr g_len].
      change (firstn (S (g_len s)) (v :: firstn (g_len s) (g_arr s))) with (v :: firstn (g_len s) (firstn (g_len s) (g_arr s))).
      rewrite firstn_firstn, Nat.min_id. fold (g_abs s).
      destruct (Z.leb_spec n i).
      * assert (g_len s = O) by lia. assert (L : length (g_abs s) = O) by (rewrite g_abs_length; auto).
        destruct (g_abs s); [reflexivity | discriminate].
      * rewrite E0. reflexivity.
    + unfold g_wf. cbn [g_arr g_len length]. rewrite firstn_length. unfold g_wf in W. lia.
  - destruct (Z.leb_spec n i) as [Hn|Hn].
    + apply g_append_abs. exact W.
    + (* shift the tail one slot to the right inside the (possibly reallocated) array *)
      assert (Hi0 : 0 < i < n) by lia. clear Hi E0 Hn.
      destruct (g_append_abs s [VNil] W) as [A1 W1].
      set (s1 := g_append s [VNil]) in *.
      assert (L1 : g_len s1 = S (g_len s)).
      { unfold s1, g_append. cbn [length]. destruct (g_len s + 1 <=? length (g_arr s))%nat; cbn [g_len]; lia. }
      set (k := Z.to_nat i). assert (Hk : (0 < k < g_len s)%nat) by (unfold k, n in *; lia).
      pose proof (g_arr_split s1 W1) as S1. rewrite A1 in S1.
      set (junk := skipn (g_len s1) (g_arr s1)) in *.
      pose proof (g_abs_length s W) as Ll.
      set (l := g_abs s) in *.
      assert (El : l = firstn k l ++ skipn k l) by (symmetry; apply firstn_skipn).
      set (a := firstn k l) in *. set (b := skipn k l) in *.
      assert (La : length a = k) by (unfold a; rewrite firstn_length; lia).
      assert (Lb : length b = (g_len s - k)%nat) by (unfold b; rewrite skipn_length; lia).
      destruct b as [|x b'] eqn:Eb; [simpl in Lb; lia|].
      assert (Earr : g_arr s1 = a ++ (x :: b') ++ VNil :: junk).
      { rewrite S1, El. rewrite <- !app_assoc. reflexivity. }
      assert (Esrc : firstn (g_len s - k) (skipn k (g_arr s1)) = x :: b').
      { rewrite Earr. rewrite <- La at 2. rewrite skipn_app_exact. rewrite <- Lb. apply firstn_app_exact. }
      rewrite Esrc.
      assert (Ew1 : g_write (g_arr s1) (S k) (x :: b') = (a ++ [x]) ++ (x :: b') ++ junk).
      { rewrite Earr.
        replace (a ++ (x :: b') ++ VNil :: junk) with ((a ++ [x]) ++ (b' ++ [VNil]) ++ junk)
          by (rewrite <- !app_assoc; reflexivity).
        replace (S k) with (length (a ++ [x])) by (rewrite app_length; simpl; lia).
        apply g_write_at. rewrite app_length. simpl. lia. }
      rewrite Ew1.
      assert (Ew2 : g_write ((a ++ [x]) ++ (x :: b') ++ junk) k [v] = a ++ [v] ++ (x :: b') ++ junk).
      { replace ((a ++ [x]) ++ (x :: b') ++ junk) with (a ++ [x] ++ (x :: b') ++ junk) by (rewrite <- !app_assoc; reflexivity).
        rewrite <- La. apply g_write_at. reflexivity. }
      rewrite Ew2. split.
      * unfold g_abs. cbn [g_arr g_len]. rewrite L1.
        replace (a ++ [v] ++ (x :: b') ++ junk) with ((a ++ v :: x :: b') ++ junk) by (rewrite <- !app_assoc; reflexivity).
        replace (S (g_len s)) with (length (a ++ v :: x :: b')) by (rewrite app_length; simpl in *; lia).
        rewrite firstn_app_exact. reflexivity.
      * unfold g_wf. cbn [g_arr g_len]. rewrite L1. rewrite !app_length. simpl in *. lia.
Qed.

Lemma rev_loop_spec : forall fuel mid pre post, (length mid <= 2 * fuel + 1)%nat ->
  g_rev_loop fuel (length pre) (length pre + length mid - 1) (pre ++ mid ++ post) = pre ++ rev mid ++ post.
Proof.
  induction fuel as [|f IH]; intros mid pre post Hf.
  - destruct mid as [|x [|y m]]; simpl in Hf; try lia; reflexivity.
  - destruct mid as [|x mid].
    + simpl. replace (length pre + 0 - 1 )%nat with (length pre - 1)%nat by lia.
      destruct (Nat.ltb_spec (length pre) (length pre - 1)); [lia | reflexivity].
    + destruct (exists_last (l := x :: mid)) as [m' [y E]]; [discriminate|].
      destruct m' as [|x' m].
      * (* single element *)
        simpl in E. inversion E; subst. simpl.
        replace (length pre + 1 - 1)%nat with (length pre) by lia.
        rewrite Nat.ltb_irrefl. reflexivity.
      * simpl in E. injection E as Ex Em. subst x' mid.
        cbn [g_rev_loop].
        assert (Lm : length (x :: m ++ [y]) = S (S (length m))) by (simpl; rewrite app_length; simpl; lia).
        rewrite Lm.
        replace (length pre + S (S (length m)) - 1)%nat with (length pre + S (length m))%nat by lia.
        assert ((length pre <? length pre + S (length m))%nat = true) as -> by (apply Nat.ltb_lt; lia).
        assert (N1 : nth (length pre) (pre ++ (x :: m ++ [y]) ++ post) VNil = x).
        { rewrite app_nth2 by lia. rewrite Nat.sub_diag. reflexivity. }
        assert (N2 : nth (length pre + S (length m)) (pre ++ (x :: m ++ [y]) ++ post) VNil = y).
        { rewrite app_nth2 by lia. replace (length pre + S (length m) - length pre)%nat with (S (length m)) by lia.
          simpl. rewrite <- app_assoc. rewrite app_nth2 by lia. rewrite Nat.sub_diag. reflexivity. }
        rewrite N1, N2.
        assert (W1 : g_write (pre ++ (x :: m ++ [y]) ++ post) (length pre) [y] = pre ++ [y] ++ (m ++ [y]) ++ post).
        { replace (pre ++ (x :: m ++ [y]) ++ post) with (pre ++ [x] ++ (m ++ [y]) ++ post) by (simpl; rewrite <- !app_assoc; reflexivity).
          apply g_write_at. reflexivity. }
        rewrite W1.
        assert (W2 : g_write (pre ++ [y] ++ (m ++ [y]) ++ post) (length pre + S (length m)) [x] = (pre ++ [y]) ++ m ++ [x] ++ post).
        { replace (pre ++ [y] ++ (m ++ [y]) ++ post) with ((pre ++ [y] ++ m) ++ [y] ++ post) by (rewrite <- !app_assoc; reflexivity).
          replace (length pre + S (length m))%nat with (length (pre ++ [y] ++ m)) by (rewrite !app_length; simpl; lia).
          rewrite g_write_at by reflexivity. rewrite <- !app_assoc. reflexivity. }
        rewrite W2.
        replace (S (length pre)) with (length (pre ++ [y])) by (rewrite app_length; simpl; lia).
        replace (Init.Nat.pred (length pre + S (length m))) with (length (pre ++ [y]) + length m - 1)%nat
          by (rewrite app_length; simpl; lia).
        rewrite IH by (rewrite Lm in Hf; lia).
        simpl. rewrite rev_app_distr. simpl. rewrite <- !app_assoc. reflexivity.
Qed.

Lemma g_reverse_abs : forall s, g_wf s -> g_abs (g_reverse s) = rev (g_abs s) /\ g_wf (g_reverse s).
Proof.
  intros s W. unfold g_reverse.
  pose proof (g_arr_split s W) as S. pose proof (g_abs_length s W) as L.
  set (l := g_abs s) in *. set (junk := skipn (g_len s) (g_arr s)) in *.
  assert (E : g_rev_loop (g_len s) 0 (Init.Nat.pred (g_len s)) (g_arr s) = rev l ++ junk).
  { rewrite S. change (l ++ junk) with ([] ++ l ++ junk).
    replace (Init.Nat.pred (g_len s)) with (length (@nil value) + length l - 1)%nat by (simpl; lia).
    change 0%nat with (length (@nil value)). rewrite rev_loop_spec by lia. reflexivity. }
  rewrite E. split.
  - unfold g_abs. cbn [g_arr g_len]. rewrite <- L. rewrite <- rev_length. apply firstn_app_exact.
  - unfold g_wf. cbn [g_arr g_len]. rewrite app_length, rev_length. lia.
Qed.

Lemma g_of_list_abs : forall l, g_abs (GS l (length l)) = l /\ g_wf (GS l (length l)).
Proof. intro l. unfold g_abs, g_wf. cbn [g_arr g_len]. split; [apply firstn_all | lia]. Qed.

(* ================================================================ any lawful list representation simulates plain lists *)

Lemma map_set_nth_obj : forall (A B : Type) (f : A -> B) s r o,
  map f (set_nth_obj s r o) = set_nth_obj (map f s) r (f o).
Proof. induction s as [|x s IH]; intros [|r] o; simpl; auto. rewrite IH. reflexivity. Qed.

Lemma Forall_set_nth_obj : forall (A : Type) (P : A -> Prop) s r o, Forall P s -> P o -> Forall P (set_nth_obj s r o).
Proof.
  induction s as [|x s IH]; intros [|r] o F Po; simpl; auto; inversion F; subst; constructor; auto.
Qed.

Lemma nth_error_map' : forall (A B : Type) (f : A -> B) s r, nth_error (map f s) r = option_map f (nth_error s r).
Proof. induction s as [|x s IH]; intros [|r]; simpl; auto. Qed.

Lemma Forall_nth_error : forall (A : Type) (P : A -> Prop) s r x, Forall P s -> nth_error s r = Some x -> P x.
Proof. intros A P s r x F E. rewrite Forall_forall in F. apply F. eapply nth_error_In; eauto. Qed.

Section Sim.
  Context {T : Type} (LO : lops T) (wf_t : T -> Prop).

  Record laws : Prop := {
    law_of : forall l, to_list LO (of_list LO l) = l /\ wf_t (of_list LO l);
    law_set : forall t i v, wf_t t -> (i < length (to_list LO t))%nat ->
      to_list LO (l_set LO t i v) = set_nth (to_list LO t) i v /\ wf_t (l_set LO t i v);
    law_append : forall t vs, wf_t t ->
      to_list LO (l_append LO t vs) = to_list LO t ++ vs /\ wf_t (l_append LO t vs);
    law_delete : forall t i, wf_t t -> (i < length (to_list LO t))%nat ->
      to_list LO (l_delete LO t i) = firstn i (to_list LO t) ++ skipn (S i) (to_list LO t) /\ wf_t (l_delete LO t i);
    law_insert : forall t z v, wf_t t ->
      to_list LO (l_insert LO t z v) = ref_insert (to_list LO t) z v /\ wf_t (l_insert LO t z v);
    law_reverse : forall t, wf_t t -> to_list LO (l_reverse LO t) = rev (to_list LO t) /\ wf_t (l_reverse LO t);
    law_assign : forall t l', wf_t t -> length l' = length (to_list LO t) ->
      to_list LO (l_assign LO t l') = l' /\ wf_t (l_assign LO t l')
  }.

  Hypothesis L : laws.

  Definition fobj (o : obj T) : obj (list value) :=
    match o with OList t => OList (to_list LO t) | OMap m => OMap m | OSet s => OSet s end.
  Definition wfo (o : obj T) : Prop := match o with OList t => wf_t t | _ => True end.

  Definition simgoal (s : list (obj T)) (o : op) : Prop :=
    step ref_lops (map fobj s) o = (map fobj (fst (step LO s o)), snd (step LO s o))
    /\ Forall wfo (fst (step LO s o)).

  Lemma sim_same : forall (s : list (obj T)) (out : outcome), Forall wfo s ->
    (map fobj s, out) = (map fobj (fst (s, out)), snd (s, out)) /\ Forall wfo (fst (s, out)).
  Proof. intros. simpl. auto. Qed.

  Lemma sim_alloc : forall (s : list (obj T)) (o : obj T), Forall wfo s -> wfo o ->
    alloc (map fobj s) (fobj o) = (map fobj (fst (alloc s o)), snd (alloc s o)) /\ Forall wfo (fst (alloc s o)).
  Proof.
    intros s o F W. unfold alloc. simpl. rewrite map_app, map_length. simpl. split; auto.
    apply Forall_app. split; auto.
  Qed.

  Lemma sim_new_list : forall (s : list (obj T)) l, Forall wfo s ->
    new_list ref_lops (map fobj s) l = (map fobj (fst (new_list LO s l)), snd (new_list LO s l))
    /\ Forall wfo (fst (new_list LO s l)).
  Proof.
    intros s l F. unfold new_list. destruct (law_of L l) as [E W].
    pose proof (sim_alloc s (OList (of_list LO l)) F W) as H. simpl fobj in H. rewrite E in H. exact H.
  Qed.

  Lemma sim_upd : forall (s : list (obj T)) r (o : obj T) (out : outcome), Forall wfo s -> wfo o ->
    (upd (map fobj s) r (fobj o), out) = (map fobj (fst (upd s r o, out)), snd (upd s r o, out))
    /\ Forall wfo (fst (upd s r o, out)).
  Proof.
    intros s r o out F W. unfold upd. simpl. rewrite map_set_nth_obj. split; auto.
    apply Forall_set_nth_obj; auto.
  Qed.

  Ltac open_step :=
    unfold simgoal, step; rewrite ?nth_error_map'.

  Ltac split_matches :=
    repeat match goal with
           | |- context[match ?x with _ => _ end] =>
               match x with
               | nth_error _ _ => fail 1
               | _ => destruct x eqn:?; cbn [option_map fobj to_list ref_lops fst snd]
               end
           end.

  Ltac easy_sim F :=
    cbn [option_map fobj to_list ref_lops];
    split_matches;
    try solve [ apply sim_same; exact F
              | apply sim_new_list; exact F
              | apply (sim_alloc _ (OMap _)); [exact F | exact I]
              | apply (sim_alloc _ (OSet _)); [exact F | exact I]
              | apply (sim_upd _ _ (OMap _)); [exact F | exact I]
              | apply (sim_upd _ _ (OSet _)); [exact F | exact I] ].

  Lemma index_in_range : forall z (l : list value) i,
    resolve_index z (Z.of_nat (length l)) = Some i -> (Z.to_nat i < length l)%nat.
  Proof. intros z l i H. apply resolve_index_some in H; lia. Qed.

  Lemma sim_simple : forall (s : list (obj T)) o, Forall wfo s ->
    match o with
    | NewList _ | NewMap _ | NewSet _ | Get _ _ | Slice _ _ _ | Contains _ _ | Len _ | Copy _ | Count _ _ | Index _ _
    | Reversed _ | Keys _ | Concat _ _ | MapCb _ _ | FilterCb _ _ | MGetD _ _ _ | MPop _ _ _ | MSetDefault _ _ _
    | MUpdate _ _ | MValues _ | MItems _ | SAdd _ _ | SRemove _ _ | SUnion _ _ | SInter _ _ | Sorted _
    | Enumerate _ => simgoal s o
    | _ => True
    end.
  Proof.
    intros s o F. destruct o; try exact I; open_step.
    - apply sim_new_list; exact F.
    - apply (sim_alloc _ (OMap _)); [exact F | exact I].
    - destruct (set_of_list l []); [apply (sim_alloc _ (OSet _)); [exact F | exact I] | apply sim_same; exact F].
    - destruct (nth_error s r) as [[t|m|st]|] eqn:En; easy_sim F.
    - destruct (nth_error s r) as [[t|m|st]|] eqn:En; easy_sim F.
    - destruct (nth_error s r) as [[t|m|st]|] eqn:En; easy_sim F.
    - destruct (nth_error s r) as [[t|m|st]|] eqn:En; easy_sim F.
    - destruct (nth_error s r) as [[t|m|st]|] eqn:En; easy_sim F.
    - destruct (nth_error s r) as [[t|m|st]|] eqn:En; easy_sim F.
    - destruct (nth_error s r) as [[t|m|st]|] eqn:En; easy_sim F.
    - destruct (nth_error s r) as [[t|m|st]|] eqn:En; easy_sim F.
    - destruct (nth_error s r) as [[t|m|st]|] eqn:En; easy_sim F.
    - destruct (nth_error s r) as [[t|m|st]|] eqn:En; easy_sim F.
    - destruct (nth_error s r) as [[t|m|st]|] eqn:En; destruct (nth_error s r2) as [[t2|m2|st2]|] eqn:En2; easy_sim F.
    - destruct (nth_error s r) as [[t|m|st]|] eqn:En; easy_sim F.
    - destruct (nth_error s r) as [[t|m|st]|] eqn:En; easy_sim F.
    - destruct (nth_error s r) as [[t|m|st]|] eqn:En; easy_sim F.
    - destruct (nth_error s r) as [[t|m|st]|] eqn:En; easy_sim F.
    - destruct (nth_error s r) as [[t|m|st]|] eqn:En; easy_sim F.
    - destruct (nth_error s r) as [[t|m|st]|] eqn:En; destruct (nth_error s r2) as [[t2|m2|st2]|] eqn:En2; easy_sim F.
    - destruct (nth_error s r) as [[t|m|st]|] eqn:En; easy_sim F.
    - destruct (nth_error s r) as [[t|m|st]|] eqn:En; easy_sim F.
    - destruct (nth_error s r) as [[t|m|st]|] eqn:En; easy_sim F.
    - destruct (nth_error s r) as [[t|m|st]|] eqn:En; easy_sim F.
    - destruct (nth_error s r) as [[t|m|st]|] eqn:En; destruct (nth_error s r2) as [[t2|m2|st2]|] eqn:En2; easy_sim F.
    - destruct (nth_error s r) as [[t|m|st]|] eqn:En; destruct (nth_error s r2) as [[t2|m2|st2]|] eqn:En2; easy_sim F.
    - destruct (nth_error s r) as [[t|m|st]|] eqn:En; easy_sim F.
  Qed.

  Ltac wf_at F En Wt := pose proof (Forall_nth_error _ wfo _ _ _ F En) as Wt; simpl in Wt.

  Lemma sim_mut : forall (s : list (obj T)) o, Forall wfo s ->
    match o with
    | SetItem _ _ _ | AddAssign _ _ _ | Del _ _ | Append _ _ | Insert _ _ _ | Pop _ _ | Remove _ _ | Extend _ _
    | Reverse _ | Sort _ | Clear _ | EachAppend _ _ => simgoal s o
    | _ => True
    end.
  Proof.
    intros s o F. destruct o; try exact I; open_step.
    - (* SetItem *)
      destruct (nth_error s r) as [[t|m|st]|] eqn:En; cbn [option_map fobj to_list of_list l_set l_append l_delete l_insert l_reverse l_assign ref_lops]; [|easy_sim F|easy_sim F|easy_sim F].
      destruct k; try (apply sim_same; exact F).
      destruct (resolve_index z (Z.of_nat (length (to_list LO t)))) as [i|] eqn:Ri; [|apply sim_same; exact F].
      wf_at F En Wt. destruct (law_set L t (Z.to_nat i) v Wt (index_in_range _ _ _ Ri)) as [E W].
      rewrite <- E. apply (sim_upd s r (OList (l_set LO t (Z.to_nat i) v))); auto.
    - (* AddAssign *)
      destruct (nth_error s r) as [[t|m|st]|] eqn:En; cbn [option_map fobj to_list of_list l_set l_append l_delete l_insert l_reverse l_assign ref_lops]; [|easy_sim F|easy_sim F|easy_sim F].
      destruct k; try (apply sim_same; exact F).
      destruct (resolve_index z (Z.of_nat (length (to_list LO t)))) as [i|] eqn:Ri; [|apply sim_same; exact F].
      destruct (add_values (nth (Z.to_nat i) (to_list LO t) VNil) v) as [[w|e]|]; try (apply sim_same; exact F).
      wf_at F En Wt. destruct (law_set L t (Z.to_nat i) w Wt (index_in_range _ _ _ Ri)) as [E W].
      rewrite <- E. apply (sim_upd s r (OList (l_set LO t (Z.to_nat i) w))); auto.
    - (* Del *)
      destruct (nth_error s r) as [[t|m|st]|] eqn:En; cbn [option_map fobj to_list of_list l_set l_append l_delete l_insert l_reverse l_assign ref_lops]; [|easy_sim F|easy_sim F|easy_sim F].
      destruct k; try (apply sim_same; exact F).
      destruct (resolve_index z (Z.of_nat (length (to_list LO t)))) as [i|] eqn:Ri; [|apply sim_same; exact F].
      wf_at F En Wt. destruct (law_delete L t (Z.to_nat i) Wt (index_in_range _ _ _ Ri)) as [E W].
      rewrite <- E. apply (sim_upd s r (OList (l_delete LO t (Z.to_nat i)))); auto.
    - (* Append *)
      destruct (nth_error s r) as [[t|m|st]|] eqn:En; cbn [option_map fobj to_list of_list l_set l_append l_delete l_insert l_reverse l_assign ref_lops]; [|easy_sim F|easy_sim F|easy_sim F].
      wf_at F En Wt. destruct (law_append L t [v] Wt) as [E W].
      rewrite <- E. apply (sim_upd s r (OList (l_append LO t [v]))); auto.
    - (* Insert *)
      destruct (nth_error s r) as [[t|m|st]|] eqn:En; cbn [option_map fobj to_list of_list l_set l_append l_delete l_insert l_reverse l_assign ref_lops]; [|easy_sim F|easy_sim F|easy_sim F].
      destruct (as_int i) as [z|]; [|apply sim_same; exact F].
      wf_at F En Wt. destruct (law_insert L t z v Wt) as [E W].
      rewrite <- E. apply (sim_upd s r (OList (l_insert LO t z v))); auto.
    - (* Pop *)
      destruct (nth_error s r) as [[t|m|st]|] eqn:En; cbn [option_map fobj to_list of_list l_set l_append l_delete l_insert l_reverse l_assign ref_lops]; [|easy_sim F|easy_sim F|easy_sim F].
      destruct (as_int i) as [z|]; [|apply sim_same; exact F].
      destruct (resolve_index z (Z.of_nat (length (to_list LO t)))) as [k|] eqn:Ri; [|apply sim_same; exact F].
      wf_at F En Wt. destruct (law_delete L t (Z.to_nat k) Wt (index_in_range _ _ _ Ri)) as [E W].
      rewrite <- E. apply (sim_upd s r (OList (l_delete LO t (Z.to_nat k)))); auto.
    - (* Remove *)
      destruct (nth_error s r) as [[t|m|st]|] eqn:En; cbn [option_map fobj to_list of_list l_set l_append l_delete l_insert l_reverse l_assign ref_lops]; [|easy_sim F|easy_sim F|easy_sim F].
      destruct (find_index v (to_list LO t) 0) as [k|] eqn:Fi; [|apply sim_same; exact F].
      assert (Hk : (k < length (to_list LO t))%nat).
      { clear - Fi. assert (G : forall l i0 k0, find_index v l i0 = Some k0 -> (i0 <= k0 < i0 + length l)%nat).
        { induction l as [|x l IH]; intros i0 k0 H; simpl in H; [discriminate|].
          destruct (equals v x); [inversion H; subst; simpl; lia | apply IH in H; simpl; lia]. }
        apply G in Fi. lia. }
      wf_at F En Wt. destruct (law_delete L t k Wt Hk) as [E W].
      rewrite <- E. apply (sim_upd s r (OList (l_delete LO t k))); auto.
    - (* Extend *)
      destruct (nth_error s r) as [[t|m|st]|] eqn:En; destruct (nth_error s r2) as [[t2|m2|st2]|] eqn:En2;
        cbn [option_map fobj to_list of_list l_set l_append l_delete l_insert l_reverse l_assign ref_lops]; try (apply sim_same; exact F).
      wf_at F En Wt. destruct (law_append L t (to_list LO t2) Wt) as [E W].
      rewrite <- E. apply (sim_upd s r (OList (l_append LO t (to_list LO t2)))); auto.
    - (* Reverse *)
      destruct (nth_error s r) as [[t|m|st]|] eqn:En; cbn [option_map fobj to_list of_list l_set l_append l_delete l_insert l_reverse l_assign ref_lops]; [|easy_sim F|easy_sim F|easy_sim F].
      wf_at F En Wt. destruct (law_reverse L t Wt) as [E W].
      rewrite <- E. apply (sim_upd s r (OList (l_reverse LO t))); auto.
    - (* Sort *)
      destruct (nth_error s r) as [[t|m|st]|] eqn:En; cbn [option_map fobj to_list of_list l_set l_append l_delete l_insert l_reverse l_assign ref_lops]; [|easy_sim F|easy_sim F|easy_sim F].
      destruct (sort_full (to_list LO t)) as [[l' er] pn] eqn:Sf.
      destruct pn; [apply sim_same; exact F|].
      assert (Hl : length l' = length (to_list LO t)).
      { unfold sort_full in Sf. destruct (isort_rev (fun v : value => v) (to_list LO t) [] false false) as [[rp er1] pn1] eqn:Is.
        inversion Sf; subst. apply isort_rev_perm in Is. rewrite app_nil_r in Is.
        rewrite rev_length. apply Permutation_length. exact Is. }
      wf_at F En Wt. destruct (law_assign L t l' Wt Hl) as [E W].
      rewrite <- E at 1. apply (sim_upd s r (OList (l_assign LO t l'))); auto.
    - (* Clear *)
      destruct (nth_error s r) as [[t|m|st]|] eqn:En; cbn [option_map fobj to_list of_list l_set l_append l_delete l_insert l_reverse l_assign ref_lops]; [|easy_sim F|easy_sim F|easy_sim F].
      destruct (law_of L []) as [E W].
      rewrite <- E at 1. apply (sim_upd s r (OList (of_list LO []))); auto.
    - (* EachAppend *)
      destruct (nth_error s r) as [[t|m|st]|] eqn:En; destruct (nth_error s r2) as [[t2|m2|st2]|] eqn:En2;
        cbn [option_map fobj to_list of_list l_set l_append l_delete l_insert l_reverse l_assign ref_lops]; try (apply sim_same; exact F).
      wf_at F En2 Wt. destruct (law_append L t2 (to_list LO t) Wt) as [E W].
      rewrite <- E. apply (sim_upd s r2 (OList (l_append LO t2 (to_list LO t)))); auto.
  Qed.

  Theorem step_sim : forall (s : list (obj T)) o, Forall wfo s -> simgoal s o.
  Proof.
    intros s o F.
    pose proof (sim_simple s o F) as A. pose proof (sim_mut s o F) as B.
    destruct o; try exact A; exact B.
  Qed.

  Theorem run_sim : forall ops (s : list (obj T)), Forall wfo s ->
    run ref_lops (map fobj s) ops = (map fobj (fst (run LO s ops)), snd (run LO s ops))
    /\ Forall wfo (fst (run LO s ops)).
  Proof.
    induction ops as [|o ops IH]; intros s F; simpl; [auto|].
    destruct (step_sim s o F) as [E W]. unfold simgoal in E.
    destruct (step LO s o) as [s1 out] eqn:S1. simpl in E, W. rewrite E.
    destruct (IH s1 W) as [E2 W2].
    destruct (run LO s1 ops) as [s2 outs] eqn:R2. simpl in E2, W2. rewrite E2. simpl. auto.
  Qed.
End Sim.

(* ================================================================ the code's containers refine the reference containers *)

Lemma go_laws : laws go_lops g_wf.
Proof.
  constructor; cbn [to_list of_list l_set l_append l_delete l_insert l_reverse l_assign go_lops].
  - apply g_of_list_abs.
  - intros t i v W H. apply g_set_abs; auto. rewrite <- (g_abs_length t W). exact H.
  - intros. apply g_append_abs; auto.
  - intros t i W H. apply g_delete_abs; auto. rewrite <- (g_abs_length t W). exact H.
  - intros. apply g_insert_abs; auto.
  - intros. apply g_reverse_abs; auto.
  - intros t l' W H. apply g_assign_abs; auto. rewrite H. apply g_abs_length. exact W.
Qed.

Definition wf_store (s : list (obj gslice)) : Prop := Forall wf_obj s.

Lemma wfo_wf_obj : forall o, wfo g_wf o <-> wf_obj o.
Proof. intros [t|m|st]; simpl; tauto. Qed.

Theorem refines : forall ops (s : list (obj gslice)), wf_store s ->
  arun (abs_store s) ops = (abs_store (fst (crun s ops)), snd (crun s ops)) /\ wf_store (fst (crun s ops)).
Proof.
  intros ops s W. unfold arun, crun, abs_store, wf_store in *.
  assert (W' : Forall (wfo g_wf) s) by (eapply Forall_impl; [|exact W]; intros; apply wfo_wf_obj; auto).
  destruct (run_sim go_lops g_wf go_laws ops s W') as [E F].
  split; [exact E|]. eapply Forall_impl; [|exact F]. intros; apply wfo_wf_obj; auto.
Qed.

Theorem step_refines : forall o (s : list (obj gslice)), wf_store s ->
  astep (abs_store s) o = (abs_store (fst (cstep s o)), snd (cstep s o)) /\ wf_store (fst (cstep s o)).
Proof.
  intros o s W. unfold astep, cstep, abs_store, wf_store in *.
  assert (W' : Forall (wfo g_wf) s) by (eapply Forall_impl; [|exact W]; intros; apply wfo_wf_obj; auto).
  destruct (step_sim go_lops g_wf go_laws s o W') as [E F]. unfold simgoal in E.
  split; [exact E|]. eapply Forall_impl; [|exact F]. intros; apply wfo_wf_obj; auto.
Qed.

(* ================================================================ structural facts about the code's interpreter *)

Lemma nth_error_set_nth_obj_other : forall (A : Type) (s : list A) r r' o, r <> r' ->
  nth_error (set_nth_obj s r o) r' = nth_error s r'.
Proof.
  induction s as [|x s IH]; intros [|r] [|r'] o H; simpl; auto; try congruence.
Qed.

Ltac split_all :=
  repeat match goal with
         | |- context[match ?x with _ => _ end] => destruct x
         end.

Theorem readonly_pure : forall o (s : list (obj gslice)), readonly o = true -> exists extra, fst (cstep s o) = s ++ extra.
Proof.
  intros o s H. destruct o; simpl in H; try discriminate; unfold cstep, step, new_list, alloc; split_all; cbn [fst];
    first [ exists []; rewrite app_nil_r; reflexivity | eexists; reflexivity ].
Qed.

Theorem frame : forall o (s : list (obj gslice)) r', target o <> Some r' -> (r' < length s)%nat ->
  nth_error (fst (cstep s o)) r' = nth_error s r'.
Proof.
  intros o s r' H L. destruct o; simpl in H; unfold cstep, step, new_list, alloc, upd; split_all; cbn [fst];
    first [ reflexivity | apply nth_error_app1; assumption | apply nth_error_set_nth_obj_other; congruence ].
Qed.

Ltac split_hyp H :=
  repeat match type of H with
         | context[match ?x with _ => _ end] => destruct x
         end.

Theorem error_keeps_state : forall o (s s' : list (obj gslice)) e,
  (forall r, o <> Sort r) -> cstep s o = (s', RErr e) -> s' = s.
Proof.
  intros o s s' e NS H. destruct o; unfold cstep, step, new_list, alloc, upd in H;
    try (exfalso; eapply NS; reflexivity);
    split_hyp H; try discriminate; inversion H; reflexivity.
Qed.

Theorem failed_sort_permutes : forall r (s s' : list (obj gslice)) e t,
  wf_store s -> nth_error s r = Some (OList t) -> cstep s (Sort r) = (s', RErr e) ->
  exists t', nth_error s' r = Some (OList t') /\ Permutation (g_abs t) (g_abs t') /\
             forall r', r' <> r -> nth_error s' r' = nth_error s r'.
Proof.
  intros r s s' e t W En H. unfold cstep, step in H. rewrite En in H.
  cbn [to_list go_lops l_assign] in H.
  destruct (sort_full (g_abs t)) as [[l' er] pn] eqn:Sf.
  destruct pn; [discriminate|]. destruct er; [|discriminate]. inversion H; subst. clear H.
  assert (Hp : Permutation (g_abs t) l').
  { unfold sort_full in Sf. destruct (isort_rev (fun v : value => v) (g_abs t) [] false false) as [[rp er1] pn1] eqn:Is.
    inversion Sf; subst. apply isort_rev_perm in Is. rewrite app_nil_r in Is.
    eapply perm_trans; [apply Permutation_sym; exact Is | apply Permutation_rev]. }
  assert (Wt : g_wf t) by (apply (Forall_nth_error _ wf_obj s r (OList t) W En)).
  destruct (g_assign_abs t l' Wt) as [A _].
  { rewrite <- (g_abs_length t Wt). symmetry. apply Permutation_length. exact Hp. }
  exists (g_assign t l'). split; [|split].
  - unfold upd. clear - En. revert r En. induction s as [|x s IH]; intros [|r] En; simpl in *; try discriminate; auto.
  - rewrite A. exact Hp.
  - intros r' Hr. unfold upd. apply nth_error_set_nth_obj_other. congruence.
Qed.

(* ---------------------------------------------------------------- what an access returns (reference containers) *)

Theorem get_spec : forall (s : list (obj (list value))) r l i, nth_error s r = Some (OList l) ->
  astep s (Get r (VInt i)) =
  (s, let n := Z.of_nat (length l) in
      if (- n <=? i) && (i <? n) then RVal (nth (Z.to_nat (i mod n)) l VNil) else RErr EIndex).
Proof.
  intros s r l i En. unfold astep, step. rewrite En. cbn [to_list ref_lops]. cbv zeta.
  rewrite resolve_index_spec by lia. destruct ((- Z.of_nat (length l) <=? i) && (i <? Z.of_nat (length l))); reflexivity.
Qed.

Theorem get_wrong_type : forall (s : list (obj (list value))) r l k, nth_error s r = Some (OList l) ->
  (forall z, k <> VInt z) -> astep s (Get r k) = (s, RErr EType).
Proof.
  intros s r l k En H. unfold astep, step. rewrite En. destruct k; try reflexivity. exfalso. eapply H. reflexivity.
Qed.

Theorem slice_spec : forall (s : list (obj (list value))) r l a b, nth_error s r = Some (OList l) ->
  astep s (Slice r (Some (VInt a)) (Some (VInt b))) =
  let n := Z.of_nat (length l) in
  let a' := norm_bound a n in
  let b' := norm_bound b n in
  if (0 <=? a') && (a' <=? b') && (b' <=? n) && (a' <? n)
  then (s ++ [OList (firstn (Z.to_nat b' - Z.to_nat a') (skipn (Z.to_nat a') l))], RRef (length s))
  else (s, RErr ESlice).
Proof.
  intros s r l a b En. unfold astep, step. rewrite En. cbn [to_list ref_lops]. unfold resolve_slice.
  rewrite resolve_slice_core_spec by lia. cbv zeta.
  destruct ((0 <=? norm_bound a (Z.of_nat (length l))) && (norm_bound a (Z.of_nat (length l)) <=? norm_bound b (Z.of_nat (length l)))
            && (norm_bound b (Z.of_nat (length l)) <=? Z.of_nat (length l)) && (norm_bound a (Z.of_nat (length l)) <? Z.of_nat (length l)));
    reflexivity.
Qed.

Theorem slice_wrong_type : forall (s : list (obj (list value))) r l lo hi, nth_error s r = Some (OList l) ->
  ((exists v, lo = Some v /\ forall z, v <> VInt z) \/ (exists v, hi = Some v /\ forall z, v <> VInt z)) ->
  exists e, astep s (Slice r lo hi) = (s, RErr e).
Proof.
  intros s r l lo hi En H. unfold astep, step. rewrite En. cbn [to_list ref_lops]. unfold resolve_slice.
  destruct H as [[v [-> Hv]]|[v [-> Hv]]].
  - destruct v; try (eexists; reflexivity). exfalso. eapply Hv. reflexivity.
  - destruct lo as [[]|]; try (eexists; reflexivity);
      destruct v; try (eexists; reflexivity); try (exfalso; eapply Hv; reflexivity);
      destruct (resolve_slice_core _ _ _) as [[]|]; eexists; reflexivity.
Qed.

(* ================================================================ maps and sets are finite maps and finite sets *)

Lemma assoc_map_set_same : forall m k v, assoc k (map_set k v m) = Some v.
Proof.
  induction m as [|[k' v'] m IH]; intros k v; simpl.
  - rewrite bytes_eqb_refl. reflexivity.
  - destruct (bytes_eqb k' k) eqn:E; simpl; rewrite E; auto.
Qed.

Lemma assoc_map_set_other : forall m k k' v, k' <> k -> assoc k' (map_set k v m) = assoc k' m.
Proof.
  induction m as [|[k0 v0] m IH]; intros k k' v H; simpl.
  - assert (bytes_eqb k k' = false) as -> by (apply bytes_eqb_neq; congruence). reflexivity.
  - destruct (bytes_eqb k0 k) eqn:E; simpl.
    + apply bytes_eqb_eq in E. subst k0.
      assert (bytes_eqb k k' = false) as -> by (apply bytes_eqb_neq; congruence). reflexivity.
    + destruct (bytes_eqb k0 k'); auto.
Qed.

Lemma keys_map_set : forall m k v,
  map fst (map_set k v m) = if existsb (bytes_eqb k) (map fst m) then map fst m else map fst m ++ [k].
Proof.
  induction m as [|[k0 v0] m IH]; intros k v; simpl; auto.
  rewrite (bytes_eqb_sym k k0). destruct (bytes_eqb k0 k) eqn:E; simpl; auto.
  rewrite IH. destruct (existsb (bytes_eqb k) (map fst m)); reflexivity.
Qed.

Lemma existsb_app_single : forall (f : bytes -> bool) l x, existsb f (l ++ [x]) = existsb f l || f x.
Proof. intros. rewrite existsb_app. simpl. rewrite orb_false_r. reflexivity. Qed.

Lemma keys_nodup_snoc : forall ks k, keys_nodup ks = true -> existsb (bytes_eqb k) ks = false -> keys_nodup (ks ++ [k]) = true.
Proof.
  induction ks as [|k0 ks IH]; intros k N E; simpl in *; auto.
  apply andb_true_iff in N. destruct N as [N1 N2]. apply orb_false_iff in E. destruct E as [E1 E2].
  rewrite existsb_app_single. apply negb_true_iff in N1. rewrite N1. rewrite (bytes_eqb_sym k0 k), E1. simpl.
  apply IH; auto.
Qed.

Lemma map_set_nodup : forall m k v, keys_nodup (map fst m) = true -> keys_nodup (map fst (map_set k v m)) = true.
Proof.
  intros m k v N. rewrite keys_map_set. destruct (existsb (bytes_eqb k) (map fst m)) eqn:E; auto.
  apply keys_nodup_snoc; auto.
Qed.

Lemma map_set_length : forall m k v,
  length (map_set k v m) = match assoc k m with Some _ => length m | None => S (length m) end.
Proof.
  induction m as [|[k0 v0] m IH]; intros k v; simpl; auto.
  destruct (bytes_eqb k0 k); simpl; auto. rewrite IH. destruct (assoc k m); reflexivity.
Qed.

Lemma assoc_map_del_other : forall m k k', k' <> k -> assoc k' (map_del k m) = assoc k' m.
Proof.
  induction m as [|[k0 v0] m IH]; intros k k' H; simpl; auto.
  destruct (bytes_eqb k0 k) eqn:E; simpl.
  - apply bytes_eqb_eq in E. subst k0.
    assert (bytes_eqb k k' = false) as -> by (apply bytes_eqb_neq; congruence). reflexivity.
  - destruct (bytes_eqb k0 k'); auto.
Qed.

Lemma assoc_not_in : forall m k, existsb (bytes_eqb k) (map fst m) = false -> assoc k m = None.
Proof.
  induction m as [|[k0 v0] m IH]; intros k H; simpl in *; auto.
  apply orb_false_iff in H. destruct H as [H1 H2]. rewrite (bytes_eqb_sym k0 k), H1. auto.
Qed.

Lemma assoc_map_del_same : forall m k, keys_nodup (map fst m) = true -> assoc k (map_del k m) = None.
Proof.
  induction m as [|[k0 v0] m IH]; intros k N; simpl in *; auto.
  apply andb_true_iff in N. destruct N as [N1 N2]. apply negb_true_iff in N1.
  destruct (bytes_eqb k0 k) eqn:E; simpl.
  - apply bytes_eqb_eq in E. subst k0. apply assoc_not_in. exact N1.
  - rewrite E. auto.
Qed.

Lemma keys_map_del_incl : forall m k x, In x (map fst (map_del k m)) -> In x (map fst m).
Proof.
  induction m as [|[k0 v0] m IH]; intros k x H; simpl in *; auto.
  destruct (bytes_eqb k0 k); simpl in *; auto. destruct H; auto. right. eapply IH; eauto.
Qed.

Lemma map_del_nodup : forall m k, keys_nodup (map fst m) = true -> keys_nodup (map fst (map_del k m)) = true.
Proof.
  induction m as [|[k0 v0] m IH]; intros k N; simpl in *; auto.
  apply andb_true_iff in N. destruct N as [N1 N2].
  destruct (bytes_eqb k0 k); simpl; auto.
  apply andb_true_iff. split; auto.
  apply negb_true_iff. apply negb_true_iff in N1.
  destruct (existsb (bytes_eqb k0) (map fst (map_del k m))) eqn:E; auto.
  apply existsb_exists in E. destruct E as [x [I Ex]]. apply keys_map_del_incl in I.
  assert (existsb (bytes_eqb k0) (map fst m) = true) by (apply existsb_exists; eauto). congruence.
Qed.

Lemma map_del_length : forall m k, keys_nodup (map fst m) = true ->
  length (map_del k m) = match assoc k m with Some _ => pred (length m) | None => length m end.
Proof.
  induction m as [|[k0 v0] m IH]; intros k N; simpl in *; auto.
  apply andb_true_iff in N. destruct N as [N1 N2].
  destruct (bytes_eqb k0 k); simpl; auto. rewrite IH by auto.
  destruct (assoc k m) eqn:A; auto. destruct m; [discriminate | reflexivity].
Qed.

Lemma assoc_map_update : forall o m k, keys_nodup (map fst o) = true ->
  assoc k (map_update m o) = match assoc k o with Some v => Some v | None => assoc k m end.
Proof.
  unfold map_update. induction o as [|[k0 v0] o IH]; intros m k N; simpl in *; auto.
  apply andb_true_iff in N. destruct N as [N1 N2]. apply negb_true_iff in N1.
  rewrite IH by auto. destruct (bytes_eqb k0 k) eqn:E.
  - apply bytes_eqb_eq in E. subst k0. rewrite (assoc_not_in o k N1). apply assoc_map_set_same.
  - destruct (assoc k o); auto. apply assoc_map_set_other. apply bytes_eqb_neq in E. congruence.
Qed.

Lemma map_update_nodup : forall o m, keys_nodup (map fst m) = true -> keys_nodup (map fst (map_update m o)) = true.
Proof.
  unfold map_update. induction o as [|[k0 v0] o IH]; intros m N; simpl; auto.
  apply IH. apply map_set_nodup. exact N.
Qed.

(* keys(): the keys in increasing order, each once *)
Lemma key_insert_perm : forall k ks, Permutation (key_insert k ks) (k :: ks).
Proof.
  induction ks as [|k0 ks IH]; simpl; auto.
  destruct (bytes_cmp k k0); auto.
  eapply perm_trans; [apply perm_skip; exact IH | apply perm_swap].
Qed.

Lemma sorted_keys_perm : forall m, Permutation (sorted_keys m) (map fst m).
Proof.
  unfold sorted_keys. intro m. induction (map fst m) as [|k ks IH]; simpl; auto.
  eapply perm_trans; [apply key_insert_perm|]. apply perm_skip. exact IH.
Qed.

Definition key_le (a b : bytes) : Prop := bytes_cmp a b <> Gt.

Lemma key_insert_sorted : forall k ks, StronglySorted key_le ks -> StronglySorted key_le (key_insert k ks).
Proof.
  induction ks as [|k0 ks IH]; intro S; simpl.
  - repeat constructor.
  - inversion S; subst. destruct (bytes_cmp k k0) eqn:C.
    + constructor; auto. constructor.
      * unfold key_le. rewrite C. discriminate.
      * rewrite Forall_forall in *. intros x Ix. unfold key_le in *. apply bytes_cmp_eq in C. subst k0. apply H2. exact Ix.
    + constructor; auto. constructor.
      * unfold key_le. rewrite C. discriminate.
      * rewrite Forall_forall in *. intros x Ix. specialize (H2 x Ix). unfold key_le in *.
        intro G. destruct (bytes_cmp k0 x) eqn:C2.
        -- apply bytes_cmp_eq in C2. subst x. congruence.
        -- assert (bytes_cmp k x = Lt) by (apply (bytes_cmp_trans k k0 x); rewrite C, C2; reflexivity). congruence.
        -- contradiction.
    + constructor; auto.
      eapply Permutation_Forall; [apply Permutation_sym; apply key_insert_perm|].
      constructor; auto. unfold key_le. rewrite (bytes_cmp_antisym k k0), C. simpl. discriminate.
Qed.

Lemma sorted_keys_sorted : forall m, StronglySorted key_le (sorted_keys m).
Proof.
  unfold sorted_keys. intro m. induction (map fst m) as [|k ks IH]; simpl; [constructor|].
  apply key_insert_sorted. exact IH.
Qed.

(* sets *)
Definition set_mem (k : hkey) (s : list value) : bool := match set_find k s with Some _ => true | None => false end.

Lemma set_find_add_same : forall s x k, hashkey x = Some k -> hkey_eqb k k = true -> set_find k (set_add x s) = Some x.
Proof.
  induction s as [|v s IH]; intros x k Hx R; simpl.
  - rewrite Hx. simpl. rewrite R. reflexivity.
  - rewrite Hx. destruct (ohkey_eqb (hashkey v) (Some k)) eqn:E; simpl.
    + rewrite Hx. simpl. rewrite R. reflexivity.
    + rewrite E. apply IH; auto.
Qed.

Lemma set_find_add_unhashable : forall s x k, hashkey x = None -> set_find k (set_add x s) = set_find k s.
Proof.
  induction s as [|v s IH]; intros x k Hx; simpl.
  - rewrite Hx. reflexivity.
  - rewrite Hx. assert (ohkey_eqb (hashkey v) None = false) as -> by (destruct (hashkey v); reflexivity).
    simpl. destruct (ohkey_eqb (hashkey v) (Some k)); auto.
Qed.

Lemma set_find_add_other : forall s x k k', hashkey x = Some k -> hkey_eqb k k' = false ->
  set_find k' (set_add x s) = set_find k' s.
Proof.
  induction s as [|v s IH]; intros x k k' Hx N; simpl.
  - rewrite Hx. simpl. rewrite N. reflexivity.
  - rewrite Hx. destruct (ohkey_eqb (hashkey v) (Some k)) eqn:E; simpl.
    + rewrite Hx. simpl. rewrite N.
      destruct (ohkey_eqb (hashkey v) (Some k')) eqn:E2; auto.
      pose proof E as E'. apply ohkey_eqb_eq in E. apply ohkey_eqb_eq in E2. rewrite E in E2. inversion E2; subst.
      rewrite E in E'. simpl in E'. congruence.
    + destruct (ohkey_eqb (hashkey v) (Some k')); auto. apply (IH x k k'); auto.
Qed.

Lemma set_find_del_other : forall s k k', hkey_eqb k k' = false -> set_find k' (set_del k s) = set_find k' s.
Proof.
  induction s as [|v s IH]; intros k k' N; simpl; auto.
  destruct (ohkey_eqb (hashkey v) (Some k)) eqn:E; simpl.
  - destruct (ohkey_eqb (hashkey v) (Some k')) eqn:E2; auto.
    pose proof E as E'. apply ohkey_eqb_eq in E. apply ohkey_eqb_eq in E2. rewrite E in E2. inversion E2; subst.
    rewrite E in E'. simpl in E'. congruence.
  - destruct (ohkey_eqb (hashkey v) (Some k')); auto.
Qed.

Lemma set_find_del_same : forall s k, hkeys_nodup s = true -> set_find k (set_del k s) = None.
Proof.
  induction s as [|v s IH]; intros k N; simpl in *; auto.
  destruct (hashkey v) as [kv|] eqn:Hv; [|discriminate].
  apply andb_true_iff in N. destruct N as [N1 N2]. apply negb_true_iff in N1.
  simpl. destruct (hkey_eqb kv k) eqn:E; simpl.
  - apply hkey_eqb_eq in E. subst kv.
    clear - N1. induction s as [|w s IH]; simpl in *; auto.
    apply orb_false_iff in N1. destruct N1 as [A B]. rewrite A. auto.
  - rewrite Hv. simpl. rewrite E. auto.
Qed.

Lemma set_mem_union : forall b a k, set_mem k (set_union a b) = set_mem k b || set_mem k a.
Proof.
  unfold set_union, set_mem. induction b as [|x b IH]; intros a k; simpl; auto.
  rewrite IH. destruct (ohkey_eqb (hashkey x) (Some k)) eqn:E.
  - simpl. destruct (set_find k b); simpl; auto.
    destruct (hashkey x) as [kx|] eqn:Hx; [|discriminate]. simpl in E.
    pose proof (hkey_eqb_eq _ _ E) as K. subst kx.
    rewrite (set_find_add_same a x k Hx E). reflexivity.
  - destruct (set_find k b); simpl; auto.
    destruct (hashkey x) as [kx|] eqn:Hx.
    + simpl in E. rewrite (set_find_add_other a x kx k Hx E). reflexivity.
    + rewrite (set_find_add_unhashable a x k Hx). reflexivity.
Qed.

Lemma set_find_filter_key : forall (f : value -> bool) a k,
  (forall v, ohkey_eqb (hashkey v) (Some k) = true -> f v = true) -> set_find k (filter f a) = set_find k a.
Proof.
  induction a as [|v a IH]; intros k H; simpl; auto.
  destruct (ohkey_eqb (hashkey v) (Some k)) eqn:E.
  - rewrite (H v E). simpl. rewrite E. reflexivity.
  - destruct (f v); simpl; [rewrite E|]; apply IH; auto.
Qed.

Lemma set_find_filter_none : forall (f : value -> bool) a k,
  (forall v, ohkey_eqb (hashkey v) (Some k) = true -> f v = false) -> set_find k (filter f a) = None.
Proof.
  induction a as [|v a IH]; intros k H; simpl; auto.
  destruct (f v) eqn:Fv; simpl.
  - destruct (ohkey_eqb (hashkey v) (Some k)) eqn:E; [rewrite (H v E) in Fv; discriminate | apply IH; auto].
  - apply IH; auto.
Qed.

Lemma set_mem_inter : forall a b k, set_mem k (set_inter a b) = set_mem k a && set_mem k b.
Proof.
  intros a b k. unfold set_mem, set_inter.
  destruct (set_find k b) as [w|] eqn:Fb.
  - rewrite set_find_filter_key; [rewrite andb_true_r; reflexivity|].
    intros v E. destruct (hashkey v) as [kv|] eqn:Hv; [|discriminate]. simpl in E. apply hkey_eqb_eq in E. subst kv.
    rewrite Fb. reflexivity.
  - rewrite set_find_filter_none; [rewrite andb_false_r; reflexivity|].
    intros v E. destruct (hashkey v) as [kv|] eqn:Hv; [|discriminate]. simpl in E. apply hkey_eqb_eq in E. subst kv.
    rewrite Fb. reflexivity.
Qed.

(* ================================================================ byte_slices *)

Lemma skipn_skipn' : forall (A : Type) (l : list A) x y, skipn x (skipn y l) = skipn (y + x) l.
Proof.
  intros A l x y. revert l. induction y as [|y IH]; intro l; simpl; auto.
  destruct l; simpl; [destruct x; reflexivity | apply IH].
Qed.


(* ---------------------------------------------------------------- every byte_slice owns its array *)

(* every object covers the whole of an array of its own *)
Definition bown (st : bstate) : Prop :=
  length (b_heap st) = length (b_objs st) /\
  forall r o, nth_error (b_objs st) r = Some o ->
    b_arr o = r /\ b_off o = O /\ b_len o = length (nth r (b_heap st) []).

Lemma bown_view : forall st r o, bown st -> nth_error (b_objs st) r = Some o -> b_view st o = nth r (b_heap st) [].
Proof.
  intros st r o [L H] En. destruct (H r o En) as (A & B & C). unfold b_view. rewrite A, B, C. simpl. apply firstn_all.
Qed.

Lemma babs_bown : forall st, bown st -> babs st = b_heap st.
Proof.
  intros st W. apply nth_ext with (d := []) (d' := []).
  - unfold babs. rewrite map_length. destruct W as [L _]. lia.
  - intros n Hn. unfold babs in *. rewrite map_length in Hn.
    destruct (nth_error (b_objs st) n) as [o|] eqn:En; [|apply nth_error_None in En; lia].
    rewrite (nth_indep _ [] (b_view st (BO 0 0 0))) by (rewrite map_length; lia).
    rewrite map_nth. erewrite nth_error_nth by exact En. apply (bown_view st n o W En).
Qed.

Lemma bown_alloc : forall st l, bown st -> bown (fst (b_alloc st l)).
Proof.
  intros [heap objs] l [L H]. unfold b_alloc, bown. cbn [fst b_heap b_objs] in *. split.
  - rewrite !app_length. simpl. lia.
  - intros r o En. destruct (Nat.lt_ge_cases r (length objs)) as [Hr|Hr].
    + rewrite nth_error_app1 in En by assumption. destruct (H r o En) as (A & B & C).
      rewrite app_nth1 by lia. auto.
    + rewrite nth_error_app2 in En by assumption.
      destruct (r - length objs)%nat as [|k] eqn:Ek; simpl in En; [|destruct k; discriminate].
      inversion En; subst. cbn [b_arr b_off b_len]. assert (r = length heap) by lia. subst r.
      rewrite app_nth2 by lia. rewrite Nat.sub_diag. simpl. auto.
Qed.

Lemma nth_set_nth_obj : forall (A : Type) (s : list A) r x d, (r < length s)%nat -> nth r (set_nth_obj s r x) d = x.
Proof. induction s as [|y s IH]; intros [|r] x d H; simpl in *; try lia; auto. apply IH. lia. Qed.

Lemma nth_set_nth_obj_other : forall (A : Type) (s : list A) r r' x d, r <> r' -> nth r' (set_nth_obj s r x) d = nth r' s d.
Proof. induction s as [|y s IH]; intros [|r] [|r'] x d H; simpl; auto; try congruence. Qed.

Lemma set_nth_obj_length : forall (A : Type) (s : list A) r x, length (set_nth_obj s r x) = length s.
Proof. induction s as [|y s IH]; intros [|r] x; simpl; auto. Qed.

Lemma zwrite_length : forall arr i x, (i < length arr)%nat -> length (zwrite arr i x) = length arr.
Proof. intros. unfold zwrite. rewrite app_length, firstn_length. cbn [length]. rewrite skipn_length. lia. Qed.

Lemma bstep_own_sim : forall st o, bown st ->
  rbstep (babs st) o = (babs (fst (bstep st o)), snd (bstep st o)) /\ bown (fst (bstep st o)).
Proof.
  intros st o W. pose proof (babs_bown st W) as Eb. destruct o; unfold rbstep, bstep.
  - pose proof (bown_alloc st l W) as W'. rewrite (babs_bown _ W'). rewrite Eb.
    split; [|exact W']. unfold b_alloc. cbn [fst snd b_heap b_objs]. destruct W as [L _]. rewrite L. reflexivity.
  - rewrite Eb. destruct (nth_error (b_objs st) r) as [bo|] eqn:En.
    + destruct W as [L Hw]. destruct (Hw r bo En) as (A & B & C).
      assert (Hr : (r < length (b_heap st))%nat) by (rewrite L; apply nth_error_Some; congruence).
      destruct (nth_error (b_heap st) r) as [arr|] eqn:Eh; [|apply nth_error_None in Eh; lia].
      assert (Ea : nth r (b_heap st) [] = arr) by (apply nth_error_nth; exact Eh).
      rewrite C, Ea. assert (Ev : b_view st bo = arr) by (rewrite <- Ea; apply (bown_view st r bo (conj L Hw) En)).
      destruct k; try (cbn [fst snd]; rewrite Eb; split; [reflexivity | split; assumption]).
      destruct (resolve_index z (Z.of_nat (length arr))); cbn [fst snd]; rewrite Eb, ?Ev;
        (split; [reflexivity | split; assumption]).
    + destruct (nth_error (b_heap st) r) as [arr|] eqn:Eh.
      * exfalso. destruct W as [L _]. apply nth_error_None in En. assert (r < length (b_heap st))%nat by (apply nth_error_Some; congruence). lia.
      * cbn [fst snd]. rewrite Eb. auto.
  - (* BSlice: a fresh array holding the selected bytes *)
    rewrite Eb. destruct (nth_error (b_objs st) r) as [bo|] eqn:En.
    + destruct W as [L Hw]. destruct (Hw r bo En) as (A & B & C).
      assert (Hr : (r < length (b_heap st))%nat) by (rewrite L; apply nth_error_Some; congruence).
      destruct (nth_error (b_heap st) r) as [arr|] eqn:Eh; [|apply nth_error_None in Eh; lia].
      assert (Ea : nth r (b_heap st) [] = arr) by (apply nth_error_nth; exact Eh).
      assert (Ev : b_view st bo = arr) by (rewrite <- Ea; apply (bown_view st r bo (conj L Hw) En)).
      rewrite C, Ea, Ev.
      destruct (resolve_slice lo hi (Z.of_nat (length arr))) as [[a b]|e];
        [|cbn [fst snd]; rewrite Eb; split; [reflexivity | split; assumption]].
      set (piece := firstn (Z.to_nat b - Z.to_nat a) (skipn (Z.to_nat a) arr)).
      pose proof (bown_alloc st piece (conj L Hw)) as W'. rewrite (babs_bown _ W').
      split; [|exact W']. unfold b_alloc. cbn [fst snd b_heap b_objs]. rewrite L. reflexivity.
    + destruct (nth_error (b_heap st) r) as [arr|] eqn:Eh.
      * exfalso. destruct W as [L _]. apply nth_error_None in En. assert (r < length (b_heap st))%nat by (apply nth_error_Some; congruence). lia.
      * cbn [fst snd]. rewrite Eb. auto.
  - rewrite Eb. destruct (nth_error (b_objs st) r) as [bo|] eqn:En.
    + destruct W as [L Hw]. destruct (Hw r bo En) as (A & B & C).
      assert (Hr : (r < length (b_heap st))%nat) by (rewrite L; apply nth_error_Some; congruence).
      destruct (nth_error (b_heap st) r) as [arr|] eqn:Eh; [|apply nth_error_None in Eh; lia].
      assert (Ea : nth r (b_heap st) [] = arr) by (apply nth_error_nth; exact Eh).
      rewrite C, Ea. rewrite A, B. simpl Nat.add. rewrite Ea.
      destruct k; try (cbn [fst snd]; rewrite Eb; split; [reflexivity | split; assumption]).
      destruct (resolve_index z (Z.of_nat (length arr))) as [i|] eqn:Ri;
        [|cbn [fst snd]; rewrite Eb; split; [reflexivity | split; assumption]].
      destruct (as_string v) as [[|x [|y t]]|];
        try (cbn [fst snd]; rewrite Eb; split; [reflexivity | split; assumption]).
      cbn [fst snd].
      assert (Hi : (Z.to_nat i < length arr)%nat) by (apply resolve_index_some in Ri; lia).
      assert (W' : bown (BS (set_nth_obj (b_heap st) r (zwrite arr (Z.to_nat i) x)) (b_objs st))).
      { split; cbn [b_heap b_objs].
        - rewrite set_nth_obj_length. exact L.
        - intros r' o' En'. destruct (Hw r' o' En') as (A' & B' & C'). repeat split; auto.
          destruct (Nat.eq_dec r r') as [->|Ne].
          + rewrite nth_set_nth_obj by (rewrite L; apply nth_error_Some; congruence).
            rewrite zwrite_length by assumption. rewrite C'. rewrite Ea. reflexivity.
          + rewrite nth_set_nth_obj_other by assumption. exact C'. }
      rewrite (babs_bown _ W'). cbn [b_heap]. split; [reflexivity | exact W'].
    + destruct (nth_error (b_heap st) r) as [arr|] eqn:Eh.
      * exfalso. destruct W as [L _]. apply nth_error_None in En. assert (r < length (b_heap st))%nat by (apply nth_error_Some; congruence). lia.
      * cbn [fst snd]. rewrite Eb. auto.
  - rewrite Eb. destruct (nth_error (b_objs st) r) as [bo|] eqn:En.
    + destruct W as [L Hw].
      assert (Hr : (r < length (b_heap st))%nat) by (rewrite L; apply nth_error_Some; congruence).
      destruct (nth_error (b_heap st) r) as [arr|] eqn:Eh; [|apply nth_error_None in Eh; lia].
      assert (Ea : nth r (b_heap st) [] = arr) by (apply nth_error_nth; exact Eh).
      assert (Ev : b_view st bo = arr) by (rewrite <- Ea; apply (bown_view st r bo (conj L Hw) En)).
      rewrite Ev. pose proof (bown_alloc st arr (conj L Hw)) as W'. rewrite (babs_bown _ W').
      split; [|exact W']. unfold b_alloc. cbn [fst snd b_heap b_objs]. rewrite L. reflexivity.
    + destruct (nth_error (b_heap st) r) as [arr|] eqn:Eh.
      * exfalso. destruct W as [L _]. apply nth_error_None in En. assert (r < length (b_heap st))%nat by (apply nth_error_Some; congruence). lia.
      * cbn [fst snd]. rewrite Eb. auto.
  - rewrite Eb. destruct (nth_error (b_objs st) r) as [bo|] eqn:En.
    + destruct W as [L Hw]. destruct (Hw r bo En) as (A & B & C).
      assert (Hr : (r < length (b_heap st))%nat) by (rewrite L; apply nth_error_Some; congruence).
      destruct (nth_error (b_heap st) r) as [arr|] eqn:Eh; [|apply nth_error_None in Eh; lia].
      assert (Ea : nth r (b_heap st) [] = arr) by (apply nth_error_nth; exact Eh).
      rewrite C, Ea. cbn [fst snd]. rewrite Eb. split; [reflexivity | split; assumption].
    + destruct (nth_error (b_heap st) r) as [arr|] eqn:Eh.
      * exfalso. destruct W as [L _]. apply nth_error_None in En. assert (r < length (b_heap st))%nat by (apply nth_error_Some; congruence). lia.
      * cbn [fst snd]. rewrite Eb. auto.
  - rewrite Eb.
    assert (Hsame : forall q, match nth_error (b_objs st) q, nth_error (b_heap st) q with
                              | Some bo, Some arr => b_view st bo = arr
                              | None, None => True
                              | _, _ => False end).
    { intro q. destruct (nth_error (b_objs st) q) as [bo|] eqn:En; destruct (nth_error (b_heap st) q) as [arr|] eqn:Eh; auto.
      - rewrite (bown_view st q bo W En). apply nth_error_nth. exact Eh.
      - destruct W as [L _]. apply nth_error_None in Eh. assert (q < length (b_objs st))%nat by (apply nth_error_Some; congruence). lia.
      - destruct W as [L _]. apply nth_error_None in En. assert (q < length (b_heap st))%nat by (apply nth_error_Some; congruence). lia. }
    pose proof (Hsame r) as H1. pose proof (Hsame r2) as H2.
    destruct (nth_error (b_objs st) r) as [bo|]; destruct (nth_error (b_heap st) r) as [arr|]; try contradiction;
      destruct (nth_error (b_objs st) r2) as [bo2|]; destruct (nth_error (b_heap st) r2) as [arr2|]; try contradiction;
      try (cbn [fst snd]; rewrite Eb; auto; fail).
    rewrite H1, H2. pose proof (bown_alloc st (arr ++ arr2) W) as W'. rewrite (babs_bown _ W').
    split; [|exact W']. unfold b_alloc. cbn [fst snd b_heap b_objs]. destruct W as [L _]. rewrite L. reflexivity.
Qed.

Theorem brun_own_refines : forall ops st, bown st ->
  rbrun (babs st) ops = (babs (fst (brun st ops)), snd (brun st ops)) /\ bown (fst (brun st ops)).
Proof.
  induction ops as [|o ops IH]; intros st W; simpl; [auto|].
  destruct (bstep_own_sim st o W) as [E W1]. rewrite E.
  destruct (bstep st o) as [s1 out]. cbn [fst snd] in *.
  destruct (IH s1 W1) as [E2 W2]. rewrite E2.
  destruct (brun s1 ops) as [s2 outs]. cbn [fst snd] in *. auto.
Qed.

(* ================================================================ strings: UTF-8 round trip, index and slice by code point *)

From Coq Require Import ZifyBool.

Section Utf8.
  Local Ltac Zify.zify_post_hook ::= Z.to_euclidean_division_equations.

  Ltac resolve_if :=
    match goal with
    | |- context[if ?c then _ else _] =>
        let H := fresh "Hc" in
        first [ assert (H : c = true) by lia; rewrite H; clear H
              | assert (H : c = false) by lia; rewrite H; clear H ]
    end.

  Lemma utf8_decode_encode : forall c rest f, valid_cp c = true ->
    utf8_decode (S f) (utf8_encode c ++ rest) = c :: utf8_decode f rest.
  Proof.
    intros c rest f V. unfold valid_cp in V.
    assert (R : 0 <= c <= 1114111 /\ ~ (55296 <= c <= 57343)) by lia. clear V. destruct R as [R1 R2].
    unfold utf8_encode.
    assert ((c <? 0) = false) as -> by lia.
    destruct (Z.ltb_spec c 128).
    - cbn [app utf8_decode]. assert ((c <? 128) = true) as -> by lia. reflexivity.
    - destruct (Z.ltb_spec c 2048).
      + cbn [app utf8_decode]. repeat resolve_if. f_equal. lia.
      + assert (((55296 <=? c) && (c <=? 57343)) = false) as -> by lia.
        destruct (Z.ltb_spec c 65536).
        * cbn [app utf8_decode]. repeat resolve_if.
          destruct (Z.eqb_spec (224 + c / 4096) 224); destruct (Z.eqb_spec (224 + c / 4096) 237);
            repeat resolve_if; f_equal; lia.
        * assert ((c <=? 1114111) = true) as -> by lia.
          cbn [app utf8_decode]. repeat resolve_if.
          destruct (Z.eqb_spec (240 + c / 262144) 240); destruct (Z.eqb_spec (240 + c / 262144) 244);
            repeat resolve_if; f_equal; lia.
  Qed.
End Utf8.

Lemma utf8_encode_nonempty : forall c, (1 <= length (utf8_encode c))%nat.
Proof.
  intro c. unfold utf8_encode.
  repeat match goal with |- context[if ?b then _ else _] => destruct b end; simpl; lia.
Qed.

Lemma utf8_string_length : forall cps, (length cps <= length (utf8_string cps))%nat.
Proof.
  induction cps as [|c cps IH]; simpl; auto. unfold utf8_string in *. simpl. rewrite app_length.
  pose proof (utf8_encode_nonempty c). lia.
Qed.

Lemma utf8_decode_string : forall cps f, forallb valid_cp cps = true -> (length cps <= f)%nat ->
  utf8_decode f (utf8_string cps) = cps.
Proof.
  induction cps as [|c cps IH]; intros f V L.
  - destruct f; reflexivity.
  - simpl in V. apply andb_true_iff in V. destruct V as [V1 V2].
    destruct f as [|f]; [simpl in L; lia|].
    change (utf8_string (c :: cps)) with (utf8_encode c ++ utf8_string cps).
    rewrite utf8_decode_encode by assumption. f_equal. apply IH; auto. simpl in L. lia.
Qed.

Theorem runes_utf8_string : forall cps, forallb valid_cp cps = true -> runes_of (utf8_string cps) = cps.
Proof.
  intros cps V. unfold runes_of. apply utf8_decode_string; auto.
  pose proof (utf8_string_length cps). lia.
Qed.

Theorem str_get_by_code_point : forall cps k, forallb valid_cp cps = true ->
  str_get (utf8_string cps) k = match cp_get cps k with Ok c => Ok (VStr (utf8_string c)) | Er e => Er e end.
Proof.
  intros cps k V. unfold str_get, cp_get. rewrite (runes_utf8_string cps V).
  destruct k; try reflexivity.
  destruct (resolve_index z (Z.of_nat (length cps))); try reflexivity.
  unfold utf8_string. simpl. rewrite app_nil_r. reflexivity.
Qed.

Theorem str_slice_by_code_point : forall cps lo hi, forallb valid_cp cps = true ->
  str_slice (utf8_string cps) lo hi = match cp_slice cps lo hi with Ok c => Ok (VStr (utf8_string c)) | Er e => Er e end.
Proof.
  intros cps lo hi V. unfold str_slice, cp_slice. rewrite (runes_utf8_string cps V).
  destruct (resolve_slice lo hi (Z.of_nat (length cps))) as [[a b]|e]; reflexivity.
Qed.

Theorem str_len_by_code_point : forall cps, forallb valid_cp cps = true ->
  str_len (utf8_string cps) = Z.of_nat (length cps).
Proof. intros cps V. unfold str_len. rewrite (runes_utf8_string cps V). reflexivity. Qed.

(* what an index / slice on code points returns *)
Theorem cp_get_spec : forall cps i,
  cp_get cps (VInt i) =
  let n := Z.of_nat (length cps) in
  if (- n <=? i) && (i <? n) then Ok [nth (Z.to_nat (i mod n)) cps 0] else Er EIndex.
Proof.
  intros cps i. unfold cp_get. cbv zeta. rewrite resolve_index_spec by lia.
  destruct ((- Z.of_nat (length cps) <=? i) && (i <? Z.of_nat (length cps))); reflexivity.
Qed.

