(* ContainersProofs.v - index normalisation, Go slices refine lists, the store interpreter refines the
   reference containers for all operation sequences (C16). *)
From Coq Require Import List Bool ZArith Lia Permutation Sorted.
Require Import RV.model.Ops RV.model.Containers RV.proofs.OpsProofs.
Import ListNotations.
Open Scope Z_scope.

(* ================================================================ index normalisation *)

Lemma resolve_index_spec : forall i n, 0 <= n ->
  resolve_index i n = if (- n <=? i) && (i <? n) then Some (i mod n) else None.
Proof.
  intros i n Hn. unfold resolve_index. cbv zeta.
  destruct (Z.ltb_spec (n - 1) i) as [H1|H1].
  - assert (i <? n = false) as -> by (apply Z.ltb_ge; lia). rewrite andb_false_r. reflexivity.
  - assert (i <? n = true) as -> by (apply Z.ltb_lt; lia). rewrite andb_true_r.
    destruct (Z.leb_spec 0 i) as [H2|H2].
    + assert (- n <=? i = true) as -> by (apply Z.leb_le; lia). rewrite Z.mod_small by lia. reflexivity.
    + destruct (Z.ltb_spec (i + n) 0) as [H3|H3]; simpl.
      * assert (- n <=? i = false) as -> by (apply Z.leb_gt; lia). reflexivity.
      * assert (n - 1 <? i + n = false) as -> by (apply Z.ltb_ge; lia).
        assert (- n <=? i = true) as -> by (apply Z.leb_le; lia).
        f_equal. apply (Z.mod_unique i n (-1) (i + n)); lia.
Qed.

Lemma resolve_index_some : forall i n k, 0 <= n -> resolve_index i n = Some k -> 0 <= k < n.
Proof.
  intros i n k Hn H. rewrite resolve_index_spec in H by assumption.
  destruct ((- n <=? i) && (i <? n)) eqn:E; [|discriminate]. inversion H; subst.
  apply andb_true_iff in E. destruct E as [E1 E2]. apply Z.leb_le in E1. apply Z.ltb_lt in E2.
  apply Z.mod_pos_bound. lia.
Qed.

Definition norm_bound (b n : Z) : Z := if b <? 0 then n + b else b.

Lemma resolve_slice_core_spec : forall a b n, 0 <= n ->
  resolve_slice_core a b n =
  let a' := norm_bound a n in
  let b' := norm_bound b n in
  if (0 <=? a') && (a' <=? b') && (b' <=? n) && (a' <? n) then Some (a', b') else None.
Proof.
  intros a b n Hn. unfold resolve_slice_core, norm_bound. cbv zeta.
  destruct (Z.ltb_spec a 0); destruct (Z.ltb_spec b 0); simpl;
    repeat match goal with
           | |- context[?x <? ?y] => destruct (Z.ltb_spec x y); simpl
           | |- context[?x <=? ?y] => destruct (Z.leb_spec x y); simpl
           end; try reflexivity; try lia.
Qed.

Lemma resolve_slice_ok : forall lo hi n a b, 0 <= n -> resolve_slice lo hi n = Ok (a, b) -> 0 <= a <= b /\ b <= n /\ a < n.
Proof.
  intros lo hi n a b Hn H. unfold resolve_slice in H.
  destruct (match lo with None => Ok 0 | Some (VInt z) => Ok z | Some _ => Er EType end) as [s|]; [|discriminate].
  destruct (match hi with None => Ok n | Some (VInt z) => Ok z | Some _ => Er EType end) as [t|]; [|discriminate].
  rewrite resolve_slice_core_spec in H by assumption. cbv zeta in H.
  destruct ((0 <=? norm_bound s n) && (norm_bound s n <=? norm_bound t n) && (norm_bound t n <=? n) && (norm_bound s n <? n)) eqn:E;
    [|discriminate].
  inversion H; subst. apply andb_true_iff in E. destruct E as [E E4]. apply andb_true_iff in E. destruct E as [E E3].
  apply andb_true_iff in E. destruct E as [E1 E2].
  apply Z.leb_le in E1, E2, E3. apply Z.ltb_lt in E4. lia.
Qed.

(* ================================================================ Go slices refine lists *)

Lemma g_write_length : forall arr off vs, (off + length vs <= length arr)%nat -> length (g_write arr off vs) = length arr.
Proof.
  intros arr off vs H. unfold g_write. rewrite !app_length, firstn_length, skipn_length. lia.
Qed.

Lemma firstn_g_write_before : forall arr off vs n, (n <= off)%nat -> (off <= length arr)%nat ->
  firstn n (g_write arr off vs) = firstn n arr.
Proof.
  intros arr off vs n H1 H2. unfold g_write. rewrite firstn_app.
  rewrite firstn_length. replace (n - Nat.min off (length arr))%nat with O by lia.
  rewrite firstn_O, app_nil_r. rewrite firstn_firstn. f_equal. lia.
Qed.

Lemma firstn_g_write_through : forall arr off vs, (off + length vs <= length arr)%nat ->
  firstn (off + length vs) (g_write arr off vs) = firstn off arr ++ vs.
Proof.
  intros arr off vs H. unfold g_write. rewrite firstn_app. rewrite firstn_length.
  replace (Nat.min off (length arr)) with off by lia.
  rewrite firstn_firstn. replace (Nat.min (off + length vs) off) with off by lia.
  replace (off + length vs - off)%nat with (length vs) by lia.
  rewrite firstn_app. rewrite Nat.sub_diag, firstn_O, app_nil_r. rewrite firstn_all. reflexivity.
Qed.

Lemma g_append_abs : forall s vs, g_wf s -> g_abs (g_append s vs) = g_abs s ++ vs /\ g_wf (g_append s vs).
Proof.
  intros [arr len] vs W. unfold g_wf, g_abs, g_append in *. simpl in *.
  destruct (Nat.leb_spec (len + length vs) (length arr)).
  - simpl. split.
    + apply firstn_g_write_through. assumption.
    + rewrite g_write_length by assumption. assumption.
  - simpl. split.
    + rewrite app_assoc. rewrite firstn_app. rewrite app_length, firstn_length.
      replace (Nat.min len (length arr)) with len by lia.
      rewrite Nat.sub_diag, firstn_O, app_nil_r. apply firstn_all2. rewrite app_length, firstn_length. lia.
    + rewrite !app_length, firstn_length, repeat_length. lia.
Qed.

Lemma firstn_app_len : forall (A : Type) (a r : list A) n, firstn (length a + n) (a ++ r) = a ++ firstn n r.
Proof. intros. apply firstn_app_2. Qed.

Lemma firstn_app_exact : forall (A : Type) (a r : list A), firstn (length a) (a ++ r) = a.
Proof. intros. rewrite <- (Nat.add_0_r (length a)). rewrite firstn_app_2. simpl. apply app_nil_r. Qed.

Lemma skipn_app_exact : forall (A : Type) (a r : list A), skipn (length a) (a ++ r) = r.
Proof. induction a; simpl; auto. Qed.

Lemma skipn_app_len : forall (A : Type) (a r : list A) n, skipn (length a + n) (a ++ r) = skipn n r.
Proof. induction a; simpl; auto. Qed.

Lemma g_set_abs : forall s i v, g_wf s -> (i < g_len s)%nat ->
  g_abs (g_set s i v) = set_nth (g_abs s) i v /\ g_wf (g_set s i v).
Proof.
  intros [arr len] i v W H. unfold g_wf, g_abs, g_set, set_nth in *. cbn [g_arr g_len] in *. split.
  - destruct (nth_split arr VNil (n := i)) as (a & b & E & La); [lia|].
    set (x := nth i arr VNil) in *. clearbody x. subst arr.
    unfold g_write. cbn [length]. rewrite <- La.
    rewrite firstn_app_exact. rewrite skipn_app_len. change (skipn 1 (x :: b)) with b.
    rewrite app_length in W. cbn [length] in W.
    replace len with (length a + S (len - length a - 1))%nat by lia.
    rewrite !firstn_app_len. rewrite firstn_app_exact.
    cbn [firstn app].
    replace (S (length a)) with (length a + 1)%nat by lia. rewrite skipn_app_len. cbn [skipn]. reflexivity.
  - rewrite g_write_length; cbn [length]; lia.
Qed.

Lemma g_delete_abs : forall s i, g_wf s -> (i < g_len s)%nat ->
  g_abs (g_delete s i) = firstn i (g_abs s) ++ skipn (S i) (g_abs s) /\ g_wf (g_delete s i).
Proof.
  intros [arr len] i W H. unfold g_delete. cbn [g_arr g_len] in *.
  assert (W1 : g_wf (GS arr i)) by (unfold g_wf in *; cbn [g_arr g_len] in *; lia).
  destruct (g_append_abs (GS arr i) (firstn (len - i - 1) (skipn (S i) arr)) W1) as [A B].
  split; [|exact B]. rewrite A. unfold g_abs. cbn [g_arr g_len].
  rewrite firstn_firstn. replace (Nat.min i len) with i by lia.
  f_equal. rewrite skipn_firstn_comm. f_equal. lia.
Qed.

Lemma g_assign_abs : forall s l', g_wf s -> length l' = g_len s -> g_abs (g_assign s l') = l' /\ g_wf (g_assign s l').
Proof.
  intros [arr len] l' W H. unfold g_wf, g_abs, g_assign in *. simpl in *. split.
  - pose proof (firstn_g_write_through arr 0 l') as P. simpl in P. rewrite <- H. apply P. lia.
  - rewrite g_write_length; simpl; lia.
Qed.

Lemma g_write_at : forall (a mid b new : list value), length new = length mid ->
  g_write (a ++ mid ++ b) (length a) new = a ++ new ++ b.
Proof.
  intros a mid b new H. unfold g_write. rewrite firstn_app_exact. f_equal. f_equal.
  rewrite H. rewrite skipn_app_len. apply skipn_app_exact.
Qed.

Lemma g_arr_split : forall s, g_wf s -> g_arr s = g_abs s ++ skipn (g_len s) (g_arr s).
Proof. intros s W. unfold g_abs. symmetry. apply firstn_skipn. Qed.

Lemma g_abs_length : forall s, g_wf s -> length (g_abs s) = g_len s.
Proof. intros s W. unfold g_abs, g_wf in *. rewrite firstn_length. lia. Qed.

Lemma g_insert_abs : forall s z v, g_wf s -> g_abs (g_insert s z v) = ref_insert (g_abs s) z v /\ g_wf (g_insert s z v).
Proof.
  intros s z v W. unfold g_insert, ref_insert. cbv zeta.
  rewrite (g_abs_length s W).
  set (n := Z.of_nat (g_len s)).
  set (i := if z <? 0 then if n + z <? 0 then 0 else n + z else z).
  assert (Hi : 0 <= i \/ (n <= i)) by (unfold i; destruct (z <? 0) eqn:E1; [destruct (n + z <? 0) eqn:E2; lia | apply Z.ltb_ge in E1; lia]).
  destruct (Z.eqb_spec i 0) as [E0|E0].
  - (* new array with the item in front *)
    split.
    + unfold g_abs at 1. cbn [g_arr g_len].
      change (firstn (S (g_len s)) (v :: firstn (g_len s) (g_arr s))) with (v :: firstn (g_len s) (firstn (g_len s) (g_arr s))).
      rewrite firstn_firstn, Nat.min_id. fold (g_abs s).
      destruct (Z.leb_spec n i).
      * assert (g_len s = O) by lia. assert (L : length (g_abs s) = O) by (rewrite g_abs_length; auto).
        destruct (g_abs s); [reflexivity | discriminate].
      * rewrite E0. reflexivity.
    + unfold g_wf. cbn [g_arr g_len length]. rewrite firstn_length. unfold g_wf in W. lia.
  - destruct (Z.leb_spec n i) as [Hn|Hn].
    + apply g_append_abs. exact W.
    + (* shift the tail one slot to the right inside the (possibly reallocated) array *)
      assert (Hi0 : 0 < i < n) by lia. clear Hi E0 Hn.
      destruct (g_append_abs s [VNil] W) as [A1 W1].
      set (s1 := g_append s [VNil]) in *.
      assert (L1 : g_len s1 = S (g_len s)).
      { unfold s1, g_append. cbn [length]. destruct (g_len s + 1 <=? length (g_arr s))%nat; cbn [g_len]; lia. }
      set (k := Z.to_nat i). assert (Hk : (0 < k < g_len s)%nat) by (unfold k, n in *; lia).
      pose proof (g_arr_split s1 W1) as S1. rewrite A1 in S1.
      set (junk := skipn (g_len s1) (g_arr s1)) in *.
      pose proof (g_abs_length s W) as Ll.
      set (l := g_abs s) in *.
      assert (El : l = firstn k l ++ skipn k l) by (symmetry; apply firstn_skipn).
      set (a := firstn k l) in *. set (b := skipn k l) in *.
      assert (La : length a = k) by (unfold a; rewrite firstn_length; lia).
      assert (Lb : length b = (g_len s - k)%nat) by (unfold b; rewrite skipn_length; lia).
      destruct b as [|x b'] eqn:Eb; [simpl in Lb; lia|].
      assert (Earr : g_arr s1 = a ++ (x :: b') ++ VNil :: junk).
      { rewrite S1, El. rewrite <- !app_assoc. reflexivity. }
      assert (Esrc : firstn (g_len s - k) (skipn k (g_arr s1)) = x :: b').
      { rewrite Earr. rewrite <- La at 2. rewrite skipn_app_exact. rewrite <- Lb. apply firstn_app_exact. }
      rewrite Esrc.
      assert (Ew1 : g_write (g_arr s1) (S k) (x :: b') = (a ++ [x]) ++ (x :: b') ++ junk).
      { rewrite Earr.
        replace (a ++ (x :: b') ++ VNil :: junk) with ((a ++ [x]) ++ (b' ++ [VNil]) ++ junk)
          by (rewrite <- !app_assoc; reflexivity).
        replace (S k) with (length (a ++ [x])) by (rewrite app_length; simpl; lia).
        apply g_write_at. rewrite app_length. simpl. lia. }
      rewrite Ew1.
      assert (Ew2 : g_write ((a ++ [x]) ++ (x :: b') ++ junk) k [v] = a ++ [v] ++ (x :: b') ++ junk).
      { replace ((a ++ [x]) ++ (x :: b') ++ junk) with (a ++ [x] ++ (x :: b') ++ junk) by (rewrite <- !app_assoc; reflexivity).
        rewrite <- La. apply g_write_at. reflexivity. }
      rewrite Ew2. split.
      * unfold g_abs. cbn [g_arr g_len]. rewrite L1.
        replace (a ++ [v] ++ (x :: b') ++ junk) with ((a ++ v :: x :: b') ++ junk) by (rewrite <- !app_assoc; reflexivity).
        replace (S (g_len s)) with (length (a ++ v :: x :: b')) by (rewrite app_length; simpl in *; lia).
        rewrite firstn_app_exact. reflexivity.
      * unfold g_wf. cbn [g_arr g_len]. rewrite L1. rewrite !app_length. simpl in *. lia.
Qed.

Lemma rev_loop_spec : forall fuel mid pre post, (length mid <= 2 * fuel + 1)%nat ->
  g_rev_loop fuel (length pre) (length pre + length mid - 1) (pre ++ mid ++ post) = pre ++ rev mid ++ post.
Proof.
  induction fuel as [|f IH]; intros mid pre post Hf.
  - destruct mid as [|x [|y m]]; simpl in Hf; try lia; reflexivity.
  - destruct mid as [|x mid].
    + simpl. replace (length pre + 0 - 1 )%nat with (length pre - 1)%nat by lia.
      destruct (Nat.ltb_spec (length pre) (length pre - 1)); [lia | reflexivity].
    + destruct (exists_last (l := x :: mid)) as [m' [y E]]; [discriminate|].
      destruct m' as [|x' m].
      * (* single element *)
        simpl in E. inversion E; subst. simpl.
        replace (length pre + 1 - 1)%nat with (length pre) by lia.
        rewrite Nat.ltb_irrefl. reflexivity.
      * simpl in E. injection E as Ex Em. subst x' mid.
        cbn [g_rev_loop].
        assert (Lm : length (x :: m ++ [y]) = S (S (length m))) by (simpl; rewrite app_length; simpl; lia).
        rewrite Lm.
        replace (length pre + S (S (length m)) - 1)%nat with (length pre + S (length m))%nat by lia.
        assert ((length pre <? length pre + S (length m))%nat = true) as -> by (apply Nat.ltb_lt; lia).
        assert (N1 : nth (length pre) (pre ++ (x :: m ++ [y]) ++ post) VNil = x).
        { rewrite app_nth2 by lia. rewrite Nat.sub_diag. reflexivity. }
        assert (N2 : nth (length pre + S (length m)) (pre ++ (x :: m ++ [y]) ++ post) VNil = y).
        { rewrite app_nth2 by lia. replace (length pre + S (length m) - length pre)%nat with (S (length m)) by lia.
          simpl. rewrite <- app_assoc. rewrite app_nth2 by lia. rewrite Nat.sub_diag. reflexivity. }
        rewrite N1, N2.
        assert (W1 : g_write (pre ++ (x :: m ++ [y]) ++ post) (length pre) [y] = pre ++ [y] ++ (m ++ [y]) ++ post).
        { replace (pre ++ (x :: m ++ [y]) ++ post) with (pre ++ [x] ++ (m ++ [y]) ++ post) by (simpl; rewrite <- !app_assoc; reflexivity).
          apply g_write_at. reflexivity. }
        rewrite W1.
        assert (W2 : g_write (pre ++ [y] ++ (m ++ [y]) ++ post) (length pre + S (length m)) [x] = (pre ++ [y]) ++ m ++ [x] ++ post).
        { replace (pre ++ [y] ++ (m ++ [y]) ++ post) with ((pre ++ [y] ++ m) ++ [y] ++ post) by (rewrite <- !app_assoc; reflexivity).
          replace (length pre + S (length m))%nat with (length (pre ++ [y] ++ m)) by (rewrite !app_length; simpl; lia).
          rewrite g_write_at by reflexivity. rewrite <- !app_assoc. reflexivity. }
        rewrite W2.
        replace (S (length pre)) with (length (pre ++ [y])) by (rewrite app_length; simpl; lia).
        replace (Init.Nat.pred (length pre + S (length m))) with (length (pre ++ [y]) + length m - 1)%nat
          by (rewrite app_length; simpl; lia).
        rewrite IH by (rewrite Lm in Hf; lia).
        simpl. rewrite rev_app_distr. simpl. rewrite <- !app_assoc. reflexivity.
Qed.

Lemma g_reverse_abs : forall s, g_wf s -> g_abs (g_reverse s) = rev (g_abs s) /\ g_wf (g_reverse s).
Proof.
  intros s W. unfold g_reverse.
  pose proof (g_arr_split s W) as S. pose proof (g_abs_length s W) as L.
  set (l := g_abs s) in *. set (junk := skipn (g_len s) (g_arr s)) in *.
  assert (E : g_rev_loop (g_len s) 0 (Init.Nat.pred (g_len s)) (g_arr s) = rev l ++ junk).
  { rewrite S. change (l ++ junk) with ([] ++ l ++ junk).
    replace (Init.Nat.pred (g_len s)) with (length (@nil value) + length l - 1)%nat by (simpl; lia).
    change 0%nat with (length (@nil value)). rewrite rev_loop_spec by lia. reflexivity. }
  rewrite E. split.
  - unfold g_abs. cbn [g_arr g_len]. rewrite <- L. rewrite <- rev_length. apply firstn_app_exact.
  - unfold g_wf. cbn [g_arr g_len]. rewrite app_length, rev_length. lia.
Qed.

Lemma g_of_list_abs : forall l, g_abs (GS l (length l)) = l /\ g_wf (GS l (length l)).
Proof. intro l. unfold g_abs, g_wf. cbn [g_arr g_len]. split; [apply firstn_all | lia]. Qed.

(* ================================================================ any lawful list representation simulates plain lists *)

Lemma map_set_nth_obj : forall (A B : Type) (f : A -> B) s r o,
  map f (set_nth_obj s r o) = set_nth_obj (map f s) r (f o).
Proof. induction s as [|x s IH]; intros [|r] o; simpl; auto. rewrite IH. reflexivity. Qed.

Lemma Forall_set_nth_obj : forall (A : Type) (P : A -> Prop) s r o, Forall P s -> P o -> Forall P (set_nth_obj s r o).
Proof.
  induction s as [|x s IH]; intros [|r] o F Po; simpl; auto; inversion F; subst; constructor; auto.
Qed.

Lemma nth_error_map' : forall (A B : Type) (f : A -> B) s r, nth_error (map f s) r = option_map f (nth_error s r).
Proof. induction s as [|x s IH]; intros [|r]; simpl; auto. Qed.

Lemma Forall_nth_error : forall (A : Type) (P : A -> Prop) s r x, Forall P s -> nth_error s r = Some x -> P x.
Proof. intros A P s r x F E. rewrite Forall_forall in F. apply F. eapply nth_error_In; eauto. Qed.

Section Sim.
  Context {T : Type} (LO : lops T) (wf_t : T -> Prop).

  Record laws : Prop := {
    law_of : forall l, to_list LO (of_list LO l) = l /\ wf_t (of_list LO l);
    law_set : forall t i v, wf_t t -> (i < length (to_list LO t))%nat ->
      to_list LO (l_set LO t i v) = set_nth (to_list LO t) i v /\ wf_t (l_set LO t i v);
    law_append : forall t vs, wf_t t ->
      to_list LO (l_append LO t vs) = to_list LO t ++ vs /\ wf_t (l_append LO t vs);
    law_delete : forall t i, wf_t t -> (i < length (to_list LO t))%nat ->
      to_list LO (l_delete LO t i) = firstn i (to_list LO t) ++ skipn (S i) (to_list LO t) /\ wf_t (l_delete LO t i);
    law_insert : forall t z v, wf_t t ->
      to_list LO (l_insert LO t z v) = ref_insert (to_list LO t) z v /\ wf_t (l_insert LO t z v);
    law_reverse : forall t, wf_t t -> to_list LO (l_reverse LO t) = rev (to_list LO t) /\ wf_t (l_reverse LO t);
    law_assign : forall t l', wf_t t -> length l' = length (to_list LO t) ->
      to_list LO (l_assign LO t l') = l' /\ wf_t (l_assign LO t l')
  }.

  Hypothesis L : laws.

  Definition fobj (o : obj T) : obj (list value) :=
    match o with OList t => OList (to_list LO t) | OMap m => OMap m | OSet s => OSet s end.
  Definition wfo (o : obj T) : Prop := match o with OList t => wf_t t | _ => True end.

  Definition simgoal (alias : bool) (s : list (obj T)) (o : op) : Prop :=
    step ref_lops alias (map fobj s) o = (map fobj (fst (step LO alias s o)), snd (step LO alias s o))
    /\ Forall wfo (fst (step LO alias s o)).

  Lemma sim_same : forall (s : list (obj T)) (out : outcome), Forall wfo s ->
    (map fobj s, out) = (map fobj (fst (s, out)), snd (s, out)) /\ Forall wfo (fst (s, out)).
  Proof. intros. simpl. auto. Qed.

  Lemma sim_alloc : forall (s : list (obj T)) (o : obj T), Forall wfo s -> wfo o ->
    alloc (map fobj s) (fobj o) = (map fobj (fst (alloc s o)), snd (alloc s o)) /\ Forall wfo (fst (alloc s o)).
  Proof.
    intros s o F W. unfold alloc. simpl. rewrite map_app, map_length. simpl. split; auto.
    apply Forall_app. split; auto.
  Qed.

  Lemma sim_new_list : forall (s : list (obj T)) l, Forall wfo s ->
    new_list ref_lops (map fobj s) l = (map fobj (fst (new_list LO s l)), snd (new_list LO s l))
    /\ Forall wfo (fst (new_list LO s l)).
  Proof.
    intros s l F. unfold new_list. destruct (law_of L l) as [E W].
    pose proof (sim_alloc s (OList (of_list LO l)) F W) as H. simpl fobj in H. rewrite E in H. exact H.
  Qed.

  Lemma sim_upd : forall (s : list (obj T)) r (o : obj T) (out : outcome), Forall wfo s -> wfo o ->
    (upd (map fobj s) r (fobj o), out) = (map fobj (fst (upd s r o, out)), snd (upd s r o, out))
    /\ Forall wfo (fst (upd s r o, out)).
  Proof.
    intros s r o out F W. unfold upd. simpl. rewrite map_set_nth_obj. split; auto.
    apply Forall_set_nth_obj; auto.
  Qed.

  Ltac open_step :=
    unfold simgoal, step; rewrite ?nth_error_map'.

  Ltac split_matches :=
    repeat match goal with
           | |- context[match ?x with _ => _ end] =>
               match x with
               | nth_error _ _ => fail 1
               | _ => destruct x eqn:?; cbn [option_map fobj to_list ref_lops fst snd]
               end
           end.

  Ltac easy_sim F :=
    cbn [option_map fobj to_list ref_lops];
    split_matches;
    try solve [ apply sim_same; exact F
              | apply sim_new_list; exact F
              | apply (sim_alloc _ (OMap _)); [exact F | exact I]
              | apply (sim_alloc _ (OSet _)); [exact F | exact I]
              | apply (sim_upd _ _ (OMap _)); [exact F | exact I]
              | apply (sim_upd _ _ (OSet _)); [exact F | exact I] ].

  Lemma index_in_range : forall z (l : list value) i,
    resolve_index z (Z.of_nat (length l)) = Some i -> (Z.to_nat i < length l)%nat.
  Proof. intros z l i H. apply resolve_index_some in H; lia. Qed.

  Lemma sim_simple : forall alias (s : list (obj T)) o, Forall wfo s ->
    match o with
    | NewList _ | NewMap _ | NewSet _ | Get _ _ | Slice _ _ _ | Contains _ _ | Len _ | Copy _ | Count _ _ | Index _ _
    | Reversed _ | Keys _ | Concat _ _ | MapCb _ _ | FilterCb _ _ | MGetD _ _ _ | MPop _ _ _ | MSetDefault _ _ _
    | MUpdate _ _ | MValues _ | MItems _ | SAdd _ _ | SRemove _ _ | SUnion _ _ | SInter _ _ | Sorted _ => simgoal alias s o
    | _ => True
    end.
  Proof.
    intros alias s o F. destruct o; try exact I; open_step.
    - apply sim_new_list; exact F.
    - apply (sim_alloc _ (OMap _)); [exact F | exact I].
    - destruct (set_of_list l []); [apply (sim_alloc _ (OSet _)); [exact F | exact I] | apply sim_same; exact F].
    - destruct (nth_error s r) as [[t|m|st]|] eqn:En; easy_sim F.
    - destruct (nth_error s r) as [[t|m|st]|] eqn:En; easy_sim F.
    - destruct (nth_error s r) as [[t|m|st]|] eqn:En; easy_sim F.
    - destruct (nth_error s r) as [[t|m|st]|] eqn:En; easy_sim F.
    - destruct (nth_error s r) as [[t|m|st]|] eqn:En; easy_sim F.
    - destruct (nth_error s r) as [[t|m|st]|] eqn:En; easy_sim F.
    - destruct (nth_error s r) as [[t|m|st]|] eqn:En; easy_sim F.
    - destruct (nth_error s r) as [[t|m|st]|] eqn:En; easy_sim F.
    - destruct (nth_error s r) as [[t|m|st]|] eqn:En; easy_sim F.
    - destruct (nth_error s r) as [[t|m|st]|] eqn:En; easy_sim F.
    - destruct (nth_error s r) as [[t|m|st]|] eqn:En; destruct (nth_error s r2) as [[t2|m2|st2]|] eqn:En2; easy_sim F.
    - destruct (nth_error s r) as [[t|m|st]|] eqn:En; easy_sim F.
    - destruct (nth_error s r) as [[t|m|st]|] eqn:En; easy_sim F.
    - destruct (nth_error s r) as [[t|m|st]|] eqn:En; easy_sim F.
    - destruct (nth_error s r) as [[t|m|st]|] eqn:En; easy_sim F.
    - destruct (nth_error s r) as [[t|m|st]|] eqn:En; easy_sim F.
    - destruct (nth_error s r) as [[t|m|st]|] eqn:En; destruct (nth_error s r2) as [[t2|m2|st2]|] eqn:En2; easy_sim F.
    - destruct (nth_error s r) as [[t|m|st]|] eqn:En; easy_sim F.
    - destruct (nth_error s r) as [[t|m|st]|] eqn:En; easy_sim F.
    - destruct (nth_error s r) as [[t|m|st]|] eqn:En; easy_sim F.
    - destruct (nth_error s r) as [[t|m|st]|] eqn:En; easy_sim F.
    - destruct (nth_error s r) as [[t|m|st]|] eqn:En; destruct (nth_error s r2) as [[t2|m2|st2]|] eqn:En2; easy_sim F.
    - destruct (nth_error s r) as [[t|m|st]|] eqn:En; destruct (nth_error s r2) as [[t2|m2|st2]|] eqn:En2; easy_sim F.
  Qed.

  Ltac wf_at F En Wt := pose proof (Forall_nth_error _ wfo _ _ _ F En) as Wt; simpl in Wt.

  Lemma sim_mut : forall alias (s : list (obj T)) o, Forall wfo s ->
    match o with
    | SetItem _ _ _ | AddAssign _ _ _ | Del _ _ | Append _ _ | Insert _ _ _ | Pop _ _ | Remove _ _ | Extend _ _
    | Reverse _ | Sort _ | Clear _ | EachAppend _ _ => simgoal alias s o
    | _ => True
    end.
  Proof.
    intros alias s o F. destruct o; try exact I; open_step.
    - (* SetItem *)
      destruct (nth_error s r) as [[t|m|st]|] eqn:En; cbn [option_map fobj to_list of_list l_set l_append l_delete l_insert l_reverse l_assign ref_lops]; [|easy_sim F|easy_sim F|easy_sim F].
      destruct k; try (apply sim_same; exact F).
      destruct (resolve_index z (Z.of_nat (length (to_list LO t)))) as [i|] eqn:Ri; [|apply sim_same; exact F].
      wf_at F En Wt. destruct (law_set L t (Z.to_nat i) v Wt (index_in_range _ _ _ Ri)) as [E W].
      rewrite <- E. apply (sim_upd s r (OList (l_set LO t (Z.to_nat i) v))); auto.
    - (* AddAssign *)
      destruct (nth_error s r) as [[t|m|st]|] eqn:En; cbn [option_map fobj to_list of_list l_set l_append l_delete l_insert l_reverse l_assign ref_lops]; [|easy_sim F|easy_sim F|easy_sim F].
      destruct k; try (apply sim_same; exact F).
      destruct (resolve_index z (Z.of_nat (length (to_list LO t)))) as [i|] eqn:Ri; [|apply sim_same; exact F].
      destruct (add_values (nth (Z.to_nat i) (to_list LO t) VNil) v) as [[w|e]|]; try (apply sim_same; exact F).
      wf_at F En Wt. destruct (law_set L t (Z.to_nat i) w Wt (index_in_range _ _ _ Ri)) as [E W].
      rewrite <- E. apply (sim_upd s r (OList (l_set LO t (Z.to_nat i) w))); auto.
    - (* Del *)
      destruct (nth_error s r) as [[t|m|st]|] eqn:En; cbn [option_map fobj to_list of_list l_set l_append l_delete l_insert l_reverse l_assign ref_lops]; [|easy_sim F|easy_sim F|easy_sim F].
      destruct k; try (apply sim_same; exact F).
      destruct (resolve_index z (Z.of_nat (length (to_list LO t)))) as [i|] eqn:Ri; [|apply sim_same; exact F].
      wf_at F En Wt. destruct (law_delete L t (Z.to_nat i) Wt (index_in_range _ _ _ Ri)) as [E W].
      rewrite <- E. apply (sim_upd s r (OList (l_delete LO t (Z.to_nat i)))); auto.
    - (* Append *)
      destruct (nth_error s r) as [[t|m|st]|] eqn:En; cbn [option_map fobj to_list of_list l_set l_append l_delete l_insert l_reverse l_assign ref_lops]; [|easy_sim F|easy_sim F|easy_sim F].
      wf_at F En Wt. destruct (law_append L t [v] Wt) as [E W].
      rewrite <- E. apply (sim_upd s r (OList (l_append LO t [v]))); auto.
    - (* Insert *)
      destruct (nth_error s r) as [[t|m|st]|] eqn:En; cbn [option_map fobj to_list of_list l_set l_append l_delete l_insert l_reverse l_assign ref_lops]; [|easy_sim F|easy_sim F|easy_sim F].
      destruct (as_int i) as [z|]; [|apply sim_same; exact F].
      wf_at F En Wt. destruct (law_insert L t z v Wt) as [E W].
      rewrite <- E. apply (sim_upd s r (OList (l_insert LO t z v))); auto.
    - (* Pop *)
      destruct (nth_error s r) as [[t|m|st]|] eqn:En; cbn [option_map fobj to_list of_list l_set l_append l_delete l_insert l_reverse l_assign ref_lops]; [|easy_sim F|easy_sim F|easy_sim F].
      destruct (as_int i) as [z|]; [|apply sim_same; exact F].
      destruct (resolve_index z (Z.of_nat (length (to_list LO t)))) as [k|] eqn:Ri; [|apply sim_same; exact F].
      wf_at F En Wt. destruct (law_delete L t (Z.to_nat k) Wt (index_in_range _ _ _ Ri)) as [E W].
      rewrite <- E. apply (sim_upd s r (OList (l_delete LO t (Z.to_nat k)))); auto.
    - (* Remove *)
      destruct (nth_error s r) as [[t|m|st]|] eqn:En; cbn [option_map fobj to_list of_list l_set l_append l_delete l_insert l_reverse l_assign ref_lops]; [|easy_sim F|easy_sim F|easy_sim F].
      destruct (find_index v (to_list LO t) 0) as [k|] eqn:Fi; [|apply sim_same; exact F].
      assert (Hk : (k < length (to_list LO t))%nat).
      { clear - Fi. assert (G : forall l i0 k0, find_index v l i0 = Some k0 -> (i0 <= k0 < i0 + length l)%nat).
        { induction l as [|x l IH]; intros i0 k0 H; simpl in H; [discriminate|].
          destruct (equals v x); [inversion H; subst; simpl; lia | apply IH in H; simpl; lia]. }
        apply G in Fi. lia. }
      wf_at F En Wt. destruct (law_delete L t k Wt Hk) as [E W].
      rewrite <- E. apply (sim_upd s r (OList (l_delete LO t k))); auto.
    - (* Extend *)
      destruct (nth_error s r) as [[t|m|st]|] eqn:En; destruct (nth_error s r2) as [[t2|m2|st2]|] eqn:En2;
        cbn [option_map fobj to_list of_list l_set l_append l_delete l_insert l_reverse l_assign ref_lops]; try (apply sim_same; exact F).
      wf_at F En Wt. destruct (law_append L t (to_list LO t2) Wt) as [E W].
      rewrite <- E. apply (sim_upd s r (OList (l_append LO t (to_list LO t2)))); auto.
    - (* Reverse *)
      destruct (nth_error s r) as [[t|m|st]|] eqn:En; cbn [option_map fobj to_list of_list l_set l_append l_delete l_insert l_reverse l_assign ref_lops]; [|easy_sim F|easy_sim F|easy_sim F].
      wf_at F En Wt. destruct (law_reverse L t Wt) as [E W].
      rewrite <- E. apply (sim_upd s r (OList (l_reverse LO t))); auto.
    - (* Sort *)
      destruct (nth_error s r) as [[t|m|st]|] eqn:En; cbn [option_map fobj to_list of_list l_set l_append l_delete l_insert l_reverse l_assign ref_lops]; [|easy_sim F|easy_sim F|easy_sim F].
      destruct (sort_full (to_list LO t)) as [[l' er] pn] eqn:Sf.
      destruct pn; [apply sim_same; exact F|].
      assert (Hl : length l' = length (to_list LO t)).
      { unfold sort_full in Sf. destruct (isort_rev (fun v : value => v) (to_list LO t) [] false false) as [[rp er1] pn1] eqn:Is.
        inversion Sf; subst. apply isort_rev_perm in Is. rewrite app_nil_r in Is.
        rewrite rev_length. apply Permutation_length. exact Is. }
      wf_at F En Wt. destruct (law_assign L t l' Wt Hl) as [E W].
      rewrite <- E at 1. apply (sim_upd s r (OList (l_assign LO t l'))); auto.
    - (* Clear *)
      destruct (nth_error s r) as [[t|m|st]|] eqn:En; cbn [option_map fobj to_list of_list l_set l_append l_delete l_insert l_reverse l_assign ref_lops]; [|easy_sim F|easy_sim F|easy_sim F].
      destruct (law_of L []) as [E W].
      rewrite <- E at 1. apply (sim_upd s r (OList (of_list LO []))); auto.
    - (* EachAppend *)
      destruct (nth_error s r) as [[t|m|st]|] eqn:En; destruct (nth_error s r2) as [[t2|m2|st2]|] eqn:En2;
        cbn [option_map fobj to_list of_list l_set l_append l_delete l_insert l_reverse l_assign ref_lops]; try (apply sim_same; exact F).
      wf_at F En2 Wt. destruct (law_append L t2 (to_list LO t) Wt) as [E W].
      rewrite <- E. apply (sim_upd s r2 (OList (l_append LO t2 (to_list LO t)))); auto.
  Qed.

  Theorem step_sim : forall alias (s : list (obj T)) o, Forall wfo s -> simgoal alias s o.
  Proof.
    intros alias s o F.
    pose proof (sim_simple alias s o F) as A. pose proof (sim_mut alias s o F) as B.
    destruct o; try exact A; exact B.
  Qed.

  Theorem run_sim : forall alias ops (s : list (obj T)), Forall wfo s ->
    run ref_lops alias (map fobj s) ops = (map fobj (fst (run LO alias s ops)), snd (run LO alias s ops))
    /\ Forall wfo (fst (run LO alias s ops)).
  Proof.
    intros alias. induction ops as [|o ops IH]; intros s F; simpl; [auto|].
    destruct (step_sim alias s o F) as [E W]. unfold simgoal in E.
    destruct (step LO alias s o) as [s1 out] eqn:S1. simpl in E, W. rewrite E.
    destruct (IH s1 W) as [E2 W2].
    destruct (run LO alias s1 ops) as [s2 outs] eqn:R2. simpl in E2, W2. rewrite E2. simpl. auto.
  Qed.
End Sim.

(* ================================================================ the code's containers refine the reference containers *)

Lemma go_laws : laws go_lops g_wf.
Proof.
  constructor; cbn [to_list of_list l_set l_append l_delete l_insert l_reverse l_assign go_lops].
  - apply g_of_list_abs.
  - intros t i v W H. apply g_set_abs; auto. rewrite <- (g_abs_length t W). exact H.
  - intros. apply g_append_abs; auto.
  - intros t i W H. apply g_delete_abs; auto. rewrite <- (g_abs_length t W). exact H.
  - intros. apply g_insert_abs; auto.
  - intros. apply g_reverse_abs; auto.
  - intros t l' W H. apply g_assign_abs; auto. rewrite H. apply g_abs_length. exact W.
Qed.

Lemma map_cb_alias : forall cb l, (cb = CbVal \/ cb = CbIdxCopy) -> map_cb_result true cb l = map_cb_result false cb l.
Proof. intros cb l [E|E]; subst; reflexivity. Qed.

Lemma step_alias : forall (s : list (obj (list value))) o, escapes_index o = false ->
  step ref_lops true s o = step ref_lops false s o.
Proof.
  intros s o H. destruct o; try reflexivity.
  destruct cb; simpl in H; try discriminate; unfold step;
    destruct (nth_error s r) as [[t|m|st]|]; try reflexivity; f_equal.
Qed.

Lemma run_alias : forall ops (s : list (obj (list value))), no_escape ops = true ->
  run ref_lops true s ops = run ref_lops false s ops.
Proof.
  induction ops as [|o ops IH]; intros s H; simpl; [reflexivity|].
  unfold no_escape in H. simpl in H. apply andb_true_iff in H. destruct H as [H1 H2].
  apply negb_true_iff in H1. rewrite (step_alias s o H1).
  destruct (step ref_lops false s o) as [s1 out]. rewrite (IH s1 H2). reflexivity.
Qed.

Definition wf_store (s : list (obj gslice)) : Prop := Forall wf_obj s.

Lemma wfo_wf_obj : forall o, wfo g_wf o <-> wf_obj o.
Proof. intros [t|m|st]; simpl; tauto. Qed.

Theorem refines : forall ops (s : list (obj gslice)), wf_store s -> no_escape ops = true ->
  arun (abs_store s) ops = (abs_store (fst (crun s ops)), snd (crun s ops)) /\ wf_store (fst (crun s ops)).
Proof.
  intros ops s W H. unfold arun, crun, abs_store, wf_store in *.
  assert (W' : Forall (wfo g_wf) s) by (eapply Forall_impl; [|exact W]; intros; apply wfo_wf_obj; auto).
  destruct (run_sim go_lops g_wf go_laws true ops s W') as [E F].
  rewrite <- (run_alias ops _ H).
  split; [exact E|]. eapply Forall_impl; [|exact F]. intros; apply wfo_wf_obj; auto.
Qed.

(* one step, without the guard: the only operation on which the two differ is the escaping list.map *)
Theorem step_refines : forall o (s : list (obj gslice)), wf_store s -> escapes_index o = false ->
  astep (abs_store s) o = (abs_store (fst (cstep s o)), snd (cstep s o)) /\ wf_store (fst (cstep s o)).
Proof.
  intros o s W H. unfold astep, cstep, abs_store, wf_store in *.
  assert (W' : Forall (wfo g_wf) s) by (eapply Forall_impl; [|exact W]; intros; apply wfo_wf_obj; auto).
  destruct (step_sim go_lops g_wf go_laws true s o W') as [E F]. unfold simgoal in E.
  rewrite <- (step_alias _ o H).
  split; [exact E|]. eapply Forall_impl; [|exact F]. intros; apply wfo_wf_obj; auto.
Qed.

(* ================================================================ structural facts about the code's interpreter *)

Lemma nth_error_set_nth_obj_other : forall (A : Type) (s : list A) r r' o, r <> r' ->
  nth_error (set_nth_obj s r o) r' = nth_error s r'.
Proof.
  induction s as [|x s IH]; intros [|r] [|r'] o H; simpl; auto; try congruence.
Qed.

Ltac split_all :=
  repeat match goal with
         | |- context[match ?x with _ => _ end] => destruct x
         end.

Theorem readonly_pure : forall o (s : list (obj gslice)), readonly o = true -> exists extra, fst (cstep s o) = s ++ extra.
Proof.
  intros o s H. destruct o; simpl in H; try discriminate; unfold cstep, step, new_list, alloc; split_all; cbn [fst];
    first [ exists []; rewrite app_nil_r; reflexivity | eexists; reflexivity ].
Qed.

Theorem frame : forall o (s : list (obj gslice)) r', target o <> Some r' -> (r' < length s)%nat ->
  nth_error (fst (cstep s o)) r' = nth_error s r'.
Proof.
  intros o s r' H L. destruct o; simpl in H; unfold cstep, step, new_list, alloc, upd; split_all; cbn [fst];
    first [ reflexivity | apply nth_error_app1; assumption | apply nth_error_set_nth_obj_other; congruence ].
Qed.

Ltac split_hyp H :=
  repeat match type of H with
         | context[match ?x with _ => _ end] => destruct x
         end.

Theorem error_keeps_state : forall o (s s' : list (obj gslice)) e,
  (forall r, o <> Sort r) -> cstep s o = (s', RErr e) -> s' = s.
Proof.
  intros o s s' e NS H. destruct o; unfold cstep, step, new_list, alloc, upd in H;
    try (exfalso; eapply NS; reflexivity);
    split_hyp H; try discriminate; inversion H; reflexivity.
Qed.

Theorem failed_sort_permutes : forall r (s s' : list (obj gslice)) e t,
  wf_store s -> nth_error s r = Some (OList t) -> cstep s (Sort r) = (s', RErr e) ->
  exists t', nth_error s' r = Some (OList t') /\ Permutation (g_abs t) (g_abs t') /\
             forall r', r' <> r -> nth_error s' r' = nth_error s r'.
Proof.
  intros r s s' e t W En H. unfold cstep, step in H. rewrite En in H.
  cbn [to_list go_lops l_assign] in H.
  destruct (sort_full (g_abs t)) as [[l' er] pn] eqn:Sf.
  destruct pn; [discriminate|]. destruct er; [|discriminate]. inversion H; subst. clear H.
  assert (Hp : Permutation (g_abs t) l').
  { unfold sort_full in Sf. destruct (isort_rev (fun v : value => v) (g_abs t) [] false false) as [[rp er1] pn1] eqn:Is.
    inversion Sf; subst. apply isort_rev_perm in Is. rewrite app_nil_r in Is.
    eapply perm_trans; [apply Permutation_sym; exact Is | apply Permutation_rev]. }
  assert (Wt : g_wf t) by (apply (Forall_nth_error _ wf_obj s r (OList t) W En)).
  destruct (g_assign_abs t l' Wt) as [A _].
  { rewrite <- (g_abs_length t Wt). symmetry. apply Permutation_length. exact Hp. }
  exists (g_assign t l'). split; [|split].
  - unfold upd. clear - En. revert r En. induction s as [|x s IH]; intros [|r] En; simpl in *; try discriminate; auto.
  - rewrite A. exact Hp.
  - intros r' Hr. unfold upd. apply nth_error_set_nth_obj_other. congruence.
Qed.

(* ---------------------------------------------------------------- what an access returns (reference containers) *)

Theorem get_spec : forall (s : list (obj (list value))) r l i, nth_error s r = Some (OList l) ->
  astep s (Get r (VInt i)) =
  (s, let n := Z.of_nat (length l) in
      if (- n <=? i) && (i <? n) then RVal (nth (Z.to_nat (i mod n)) l VNil) else RErr EIndex).
Proof.
  intros s r l i En. unfold astep, step. rewrite En. cbn [to_list ref_lops]. cbv zeta.
  rewrite resolve_index_spec by lia. destruct ((- Z.of_nat (length l) <=? i) && (i <? Z.of_nat (length l))); reflexivity.
Qed.

Theorem get_wrong_type : forall (s : list (obj (list value))) r l k, nth_error s r = Some (OList l) ->
  (forall z, k <> VInt z) -> astep s (Get r k) = (s, RErr EType).
Proof.
  intros s r l k En H. unfold astep, step. rewrite En. destruct k; try reflexivity. exfalso. eapply H. reflexivity.
Qed.

Theorem slice_spec : forall (s : list (obj (list value))) r l a b, nth_error s r = Some (OList l) ->
  astep s (Slice r (Some (VInt a)) (Some (VInt b))) =
  let n := Z.of_nat (length l) in
  let a' := norm_bound a n in
  let b' := norm_bound b n in
  if (0 <=? a') && (a' <=? b') && (b' <=? n) && (a' <? n)
  then (s ++ [OList (firstn (Z.to_nat b' - Z.to_nat a') (skipn (Z.to_nat a') l))], RRef (length s))
  else (s, RErr ESlice).
Proof.
  intros s r l a b En. unfold astep, step. rewrite En. cbn [to_list ref_lops]. unfold resolve_slice.
  rewrite resolve_slice_core_spec by lia. cbv zeta.
  destruct ((0 <=? norm_bound a (Z.of_nat (length l))) && (norm_bound a (Z.of_nat (length l)) <=? norm_bound b (Z.of_nat (length l)))
            && (norm_bound b (Z.of_nat (length l)) <=? Z.of_nat (length l)) && (norm_bound a (Z.of_nat (length l)) <? Z.of_nat (length l)));
    reflexivity.
Qed.

Theorem slice_wrong_type : forall (s : list (obj (list value))) r l lo hi, nth_error s r = Some (OList l) ->
  ((exists v, lo = Some v /\ forall z, v <> VInt z) \/ (exists v, hi = Some v /\ forall z, v <> VInt z)) ->
  exists e, astep s (Slice r lo hi) = (s, RErr e).
Proof.
  intros s r l lo hi En H. unfold astep, step. rewrite En. cbn [to_list ref_lops]. unfold resolve_slice.
  destruct H as [[v [-> Hv]]|[v [-> Hv]]].
  - destruct v; try (eexists; reflexivity). exfalso. eapply Hv. reflexivity.
  - destruct lo as [[]|]; try (eexists; reflexivity);
      destruct v; try (eexists; reflexivity); try (exfalso; eapply Hv; reflexivity);
      destruct (resolve_slice_core _ _ _) as [[]|]; eexists; reflexivity.
Qed.
