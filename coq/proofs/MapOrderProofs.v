(* The three loop shapes give the same result for every visiting order. *)
From Coq Require Import List Bool Arith Permutation Lia.
Require Import RV.model.MapOrder.
Import ListNotations.

Section Proofs.
  Variable K V : Type.
  Variable keq : forall a b : K, {a = b} + {a <> b}.

  (* ---- shape A ---- *)
  Lemma copy_into_lookup W (f : K -> V -> W) entries : forall m0 k,
    NoDup (map fst entries) ->
    copy_into K V keq W f entries m0 k =
    match find (fun kv => if keq k (fst kv) then true else false) entries with
    | Some kv => Some (f (fst kv) (snd kv))
    | None => m0 k
    end.
  Proof.
    induction entries as [|[k0 v0] r IH]; intros m0 k Hnd; [reflexivity|].
    cbn [copy_into fold_left] in *. inversion Hnd as [|? ? Hnotin Hnd']; subst.
    unfold copy_into in IH. rewrite IH by assumption. cbn [find fst snd].
    destruct (keq k k0) as [->|Hne].
    - (* k0 does not occur in r *)
      assert (Hf : find (fun kv => if keq k0 (fst kv) then true else false) r = None).
      { clear IH Hnd Hnd'. induction r as [|[k1 v1] r IHr]; [reflexivity|]. cbn.
        destruct (keq k0 k1) as [->|].
        - exfalso. apply Hnotin. left. reflexivity.
        - apply IHr. intros Hin. apply Hnotin. right. exact Hin. }
      rewrite Hf. unfold ins. destruct (keq k0 k0); [reflexivity|contradiction].
    - destruct (find (fun kv => if keq k (fst kv) then true else false) r); [reflexivity|].
      unfold ins. destruct (keq k k0); [contradiction|reflexivity].
  Qed.

  Lemma find_perm_nodup (entries entries' : list (K * V)) k :
    NoDup (map fst entries) -> Permutation entries entries' ->
    find (fun kv => if keq k (fst kv) then true else false) entries =
    find (fun kv => if keq k (fst kv) then true else false) entries'.
  Proof.
    intros Hnd Hp. induction Hp as [|x l l' Hp IH|x y l|l l' l'' Hp1 IH1 Hp2 IH2].
    - reflexivity.
    - cbn. destruct (keq k (fst x)); [reflexivity|]. apply IH. inversion Hnd; assumption.
    - cbn. destruct (keq k (fst y)) as [Ey|], (keq k (fst x)) as [Ex|]; try reflexivity.
      exfalso. cbn in Hnd. inversion Hnd as [|? ? Hnotin _]; subst. apply Hnotin. left. congruence.
    - rewrite IH1 by assumption. apply IH2.
      apply (Permutation_NoDup (Permutation_map fst Hp1)). assumption.
  Qed.

  Theorem copy_into_order_irrelevant W (f : K -> V -> W) entries entries' m0 :
    NoDup (map fst entries) -> Permutation entries entries' ->
    forall k, copy_into K V keq W f entries m0 k = copy_into K V keq W f entries' m0 k.
  Proof.
    intros Hnd Hp k.
    rewrite !copy_into_lookup; try assumption.
    - rewrite (find_perm_nodup entries entries' k Hnd Hp). reflexivity.
    - apply (Permutation_NoDup (Permutation_map fst Hp)). assumption.
  Qed.

  (* ---- shape C ---- *)
  Theorem aggregate_order_irrelevant A (op : A -> A -> A) (e : A) (f : K -> V -> A) entries entries' :
    (forall a b, op a b = op b a) -> (forall a b c, op a (op b c) = op (op a b) c) ->
    Permutation entries entries' ->
    aggregate K V A op e f entries = aggregate K V A op e f entries'.
  Proof.
    intros Hc Ha Hp. unfold aggregate.
    induction Hp as [|x l l' Hp IH|x y l|l l' l'' Hp1 IH1 Hp2 IH2]; cbn.
    - reflexivity.
    - rewrite IH. reflexivity.
    - rewrite !Ha. rewrite (Hc (f (fst y) (snd y))). reflexivity.
    - congruence.
  Qed.

  (* ---- shape B ---- *)
  Variable le : K -> K -> bool.
  Hypothesis le_total : forall a b, le a b = true \/ le b a = true.
  Hypothesis le_trans : forall a b c, le a b = true -> le b c = true -> le a c = true.
  Hypothesis le_antisym : forall a b, le a b = true -> le b a = true -> a = b.

  Inductive sorted : list K -> Prop :=
  | sorted_nil : sorted []
  | sorted_cons x l : (forall y, In y l -> le x y = true) -> sorted l -> sorted (x :: l).

  Lemma insert_perm x l : Permutation (x :: l) (insert_sorted K le x l).
  Proof.
    induction l as [|y r IH]; cbn; [reflexivity|].
    destruct (le x y); [reflexivity|]. rewrite perm_swap. constructor. exact IH.
  Qed.

  Lemma insert_sorted_sorted x l : sorted l -> sorted (insert_sorted K le x l).
  Proof.
    induction 1 as [|y r Hy Hs IH]; cbn.
    - constructor; [intros ? []|constructor].
    - destruct (le x y) eqn:E.
      + constructor; [|constructor; assumption].
        intros z [<-|Hz]; [assumption|]. eapply le_trans; [exact E|apply Hy; assumption].
      + constructor; [|exact IH].
        intros z Hz. apply (Permutation_in z (Permutation_sym (insert_perm x r))) in Hz.
        destruct Hz as [<-|Hz]; [|apply Hy; assumption].
        destruct (le_total x y) as [H|H]; [congruence|exact H].
  Qed.

  Lemma sort_keys_perm l : Permutation l (sort_keys K le l).
  Proof. induction l as [|x r IH]; cbn; [reflexivity|]. rewrite <- insert_perm. constructor. exact IH. Qed.
  Lemma sort_keys_sorted l : sorted (sort_keys K le l).
  Proof. induction l as [|x r IH]; cbn; [constructor|apply insert_sorted_sorted; exact IH]. Qed.

  Lemma sorted_perm_unique : forall l l', sorted l -> sorted l' -> Permutation l l' -> l = l'.
  Proof.
    induction l as [|x r IH]; intros l' Hs Hs' Hp.
    - apply Permutation_nil in Hp. subst. reflexivity.
    - destruct l' as [|y r']; [apply Permutation_sym, Permutation_nil in Hp; discriminate|].
      inversion Hs as [|? ? Hx Hr]; subst. inversion Hs' as [|? ? Hy Hr']; subst.
      assert (x = y).
      { assert (Hin1 : In x (y :: r')) by (apply (Permutation_in x Hp); left; reflexivity).
        assert (Hin2 : In y (x :: r)) by (apply (Permutation_in y (Permutation_sym Hp)); left; reflexivity).
        destruct Hin1 as [->|Hin1]; [reflexivity|]. destruct Hin2 as [->|Hin2]; [reflexivity|].
        apply le_antisym; [apply Hx; assumption|apply Hy; assumption]. }
      subst y. f_equal. apply IH; try assumption. exact (Permutation_cons_inv Hp).
  Qed.

  Theorem collect_sorted_order_irrelevant (entries entries' : list (K * V)) :
    Permutation entries entries' -> collect_sorted K V le entries = collect_sorted K V le entries'.
  Proof.
    intros Hp. unfold collect_sorted. apply sorted_perm_unique; try apply sort_keys_sorted.
    rewrite <- !sort_keys_perm. apply Permutation_map. exact Hp.
  Qed.
End Proofs.
