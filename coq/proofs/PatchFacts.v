(* the loop's back-patching (Compiler.patch) in terms of positions: [npatch off bt ct l] is the final code of the slot list
   [l] that starts [off] slots after the start of its loop, when break jumps to [bt] and continue to [ct] (both relative
   to the loop's start) *)
From Coq Require Import List ZArith NArith Bool Arith Lia.
Require Import RV.model.Syntax RV.model.Compiler RV.model.ScalarFrag RV.model.VarProg RV.proofs.VarProgFacts.
Import ListNotations.
Local Open Scope nat_scope.

Fixpoint npatch (off bt ct : nat) (l : list slot) : list N :=
  match l with
  | [] => []
  | SI n :: r => n :: npatch (S off) bt ct r
  | SBrk :: r => N.of_nat (bt - (off - 1)) :: npatch (S off) bt ct r
  | SCont :: r => N.of_nat (ct - (off - 1)) :: npatch (S off) bt ct r
  end.

Lemma strip_patch off bt ct : forall l o, o = N.of_nat off ->
  strip (patch o (N.of_nat bt) (N.of_nat ct) l) = npatch off bt ct l.
Proof.
  intros l. revert off. induction l as [|x l IH]; intros off o Ho; [reflexivity|].
  assert (Hs : (o + 1)%N = N.of_nat (S off)) by (subst o; lia).
  destruct x as [n| |]; cbn [patch strip map npatch]; fold (strip (patch (o + 1) (N.of_nat bt) (N.of_nat ct) l));
    rewrite (IH (S off) (o + 1)%N Hs); f_equal; subst o; lia.
Qed.

Lemma npatch_length off bt ct : forall l o, o = off -> length (npatch o bt ct l) = length l.
Proof. intros l. revert off. induction l as [|x l IH]; intros off o Ho; [reflexivity|]. destruct x; cbn; f_equal; apply (IH (S off)); lia. Qed.

Lemma npatch_app bt ct : forall a b off,
  npatch off bt ct (a ++ b) = npatch off bt ct a ++ npatch (off + length a) bt ct b.
Proof.
  induction a as [|x a IH]; intros b off.
  - cbn. rewrite Nat.add_0_r. reflexivity.
  - destruct x; cbn [app npatch length]; rewrite IH; replace (S off + length a) with (off + S (length a)) by lia; reflexivity.
Qed.

Lemma npatch_I bt ct : forall l off, npatch off bt ct (I l) = l.
Proof. induction l as [|x l IH]; intros off; [reflexivity|]. cbn [I map npatch]. f_equal. apply IH. Qed.

(* slot lists without placeholders *)
Definition no_ph (l : list slot) : Prop := forall x, In x l -> exists n, x = SI n.
Lemma no_ph_I l : no_ph (I l).
Proof. intros x Hx. unfold I in Hx. apply in_map_iff in Hx. destruct Hx as [n [<- _]]. eexists; reflexivity. Qed.
Lemma no_ph_app a b : no_ph a -> no_ph b -> no_ph (a ++ b).
Proof. intros Ha Hb x Hx. apply in_app_or in Hx. destruct Hx; auto. Qed.
Lemma no_ph_patch : forall l off bt ct, no_ph (patch off bt ct l).
Proof.
  induction l as [|x l IH]; intros off bt ct y Hy; [contradiction|].
  destruct x; cbn [patch] in Hy; destruct Hy as [<-|Hy]; try (eexists; reflexivity); exact (IH _ _ _ y Hy).
Qed.
Lemma npatch_no_ph bt ct : forall l off, no_ph l -> npatch off bt ct l = strip l.
Proof.
  induction l as [|x l IH]; intros off H; [reflexivity|].
  assert (Hl : no_ph l) by (intros y Hy; apply H; right; exact Hy).
  destruct (H x (or_introl eq_refl)) as [n ->]. cbn [npatch strip map]. f_equal. apply IH. exact Hl.
Qed.
Lemma strip_app a b : strip (a ++ b) = strip a ++ strip b.
Proof. apply map_app. Qed.
Lemma strip_I l : strip (I l) = l.
Proof. unfold strip, I. rewrite map_map. induction l; cbn; congruence. Qed.
Lemma strip_length l : length (strip l) = length l.
Proof. apply map_length. Qed.
Lemma patch_length : forall l off bt ct, length (patch off bt ct l) = length l.
Proof. induction l as [|x l IH]; intros off bt ct; [reflexivity|]. destruct x; cbn [patch length]; rewrite IH; reflexivity. Qed.
Lemma I_length l : length (I l) = length l.
Proof. apply map_length. Qed.

(* code that is not inside a loop has no placeholders: break / continue are not allowed there, and a loop patches its body *)
Definition stmt_nph (f : nat) : Prop :=
  forall s n k scope base, sheight s <= f -> wf_stmt false n s = true -> no_ph (fst (stmt_code k scope base s)).

Lemma list_no_ph f : stmt_nph f -> forall l n k scope base, max_height l <= f -> wf_stmts false n l = true ->
  no_ph (fst (scode k scope base l)).
Proof.
  intros Hs. induction l as [|s r IH]; intros n k scope base Hh Hwf; [intros x Hx; contradiction|].
  rewrite wf_stmts_cons in Hwf. apply andb_true_iff in Hwf. destruct Hwf as [Hws Hwr]. rewrite max_height_cons in Hh.
  pose proof (Hs s n k scope base ltac:(lia) Hws) as H1.
  destruct r as [|s2 r2].
  - rewrite scode_single. destruct (stmt_code k scope base s) as [c ks]. cbn [fst] in *.
    apply no_ph_app; [exact H1|]. destruct (is_expr_stmt s); [intros x Hx; contradiction|apply no_ph_I].
  - rewrite scode_cons2. destruct (stmt_code k scope base s) as [c ks]. cbn [fst] in H1.
    pose proof (IH (next_n n s) (k + nd s) (next_scope k scope s) (base + length ks) ltac:(lia) Hwr) as H2.
    destruct (scode (k + nd s) (next_scope k scope s) (base + length ks) (s2 :: r2)) as [cr kr]. cbn [fst] in *.
    apply no_ph_app; [exact H1|]. apply no_ph_app; [|exact H2].
    destruct (is_expr_stmt s); [apply no_ph_I|intros x Hx; contradiction].
Qed.

Lemma block_no_ph f : stmt_nph f -> forall l n k scope base, max_height l <= f -> wf_stmts false n l = true ->
  no_ph (fst (block_code k scope base l)).
Proof.
  intros Hs l n k scope base Hh Hwf. destruct l as [|s r]; [rewrite block_code_nil; apply no_ph_I|].
  rewrite block_code_cons. exact (list_no_ph f Hs (s :: r) n k scope base Hh Hwf).
Qed.

Lemma stmt_no_ph : forall f, stmt_nph f.
Proof.
  induction f as [f IH] using lt_wf_ind. intros s n k scope base Hh Hwf.
  destruct s as [e|i e|i o e|i up|e|c t e|c t|c b|b|e c p b| |].
  - cbn [stmt_code]. destruct (cexp_at (slot_of scope) base e). apply no_ph_I.
  - cbn [stmt_code]. destruct (cexp_at (slot_of scope) base e). apply no_ph_I.
  - cbn [stmt_code]. destruct (cexp_at (slot_of scope) base e). apply no_ph_I.
  - cbn [stmt_code fst]. apply no_ph_I.
  - cbn [stmt_code]. destruct (cexp_at (slot_of scope) base e). apply no_ph_I.
  - rewrite wf_SIf in Hwf. apply andb_true_iff in Hwf. destruct Hwf as [Hwct Hwe].
    apply andb_true_iff in Hwct. destruct Hwct as [Hwc Hwt].
    rewrite sheight_SIf in Hh. destruct f as [|f]; [lia|].
    rewrite code_SIf. destruct (cexp_at (slot_of scope) base c) as [cc kc].
    pose proof (block_no_ph f (IH f ltac:(lia)) t n k scope (base + length kc) ltac:(lia) Hwt) as Ht.
    destruct (block_code k scope (base + length kc) t) as [ct kt].
    pose proof (block_no_ph f (IH f ltac:(lia)) e n (k + ndecls t) scope (base + length kc + length kt) ltac:(lia) Hwe) as He.
    destruct (block_code (k + ndecls t) scope (base + length kc + length kt) e) as [ce ke]. cbn [fst] in *.
    repeat apply no_ph_app; try apply no_ph_I; assumption.
  - rewrite wf_SIf1 in Hwf. apply andb_true_iff in Hwf. destruct Hwf as [Hwc Hwt].
    rewrite sheight_SIf1 in Hh. destruct f as [|f]; [lia|].
    rewrite code_SIf1. destruct (cexp_at (slot_of scope) base c) as [cc kc].
    pose proof (block_no_ph f (IH f ltac:(lia)) t n k scope (base + length kc) ltac:(lia) Hwt) as Ht.
    destruct (block_code k scope (base + length kc) t) as [ct kt]. cbn [fst] in *.
    repeat apply no_ph_app; try apply no_ph_I; assumption.
  - rewrite code_SWhile. destruct (cexp_at (slot_of scope) base c) as [cc kc]. destruct (block_code k scope (base + length kc) b) as [cb kb].
    cbv zeta. cbn [fst]. apply no_ph_app; [apply no_ph_patch|apply no_ph_I].
  - rewrite code_SLoop. destruct (block_code k scope base b) as [cb kb].
    cbv zeta. cbn [fst]. apply no_ph_app; [apply no_ph_patch|apply no_ph_I].
  - rewrite code_SFor. destruct (cexp_at (slot_of scope) base e) as [ci ki]. cbv zeta.
    destruct (cexp_at (slot_of (scope ++ [k])) (base + length ki) c) as [cc kc].
    destruct (block_code (S k) (scope ++ [k]) (base + length ki + length kc) b) as [cb kb].
    destruct (stmt_code (S k) (scope ++ [k]) (base + length ki + length kc + length kb) p) as [cp kp].
    cbn [fst]. apply no_ph_app; [apply no_ph_I|]. apply no_ph_app; [apply no_ph_patch|apply no_ph_I].
  - discriminate.
  - discriminate.
Qed.

Lemma scode_no_ph l n k scope base : wf_stmts false n l = true -> no_ph (fst (scode k scope base l)).
Proof. intros H. exact (list_no_ph (max_height l) (stmt_no_ph _) l n k scope base (le_n _) H). Qed.
Lemma block_code_no_ph l n k scope base : wf_stmts false n l = true -> no_ph (fst (block_code k scope base l)).
Proof. intros H. exact (block_no_ph (max_height l) (stmt_no_ph _) l n k scope base (le_n _) H). Qed.

(* the offset only matters where there are placeholders *)
Lemma npatch_off (lp : bool) bt ct code o1 o2 :
  (lp = true -> o1 = o2) -> (lp = false -> no_ph code) -> npatch o1 bt ct code = npatch o2 bt ct code.
Proof.
  intros H1 H2. destruct lp.
  - rewrite (H1 eq_refl). reflexivity.
  - rewrite !npatch_no_ph by (apply H2; reflexivity). reflexivity.
Qed.
