(* Stages B-G, part 3: the VM model running [pcode] from an empty stack ends with exactly the value - or stops with
   exactly the error class - that [run_stmts] gives (whenever the latter's fuel suffices); the visible variable at
   position i lives in the global slot [scope]_i; conditionals and loops, nested to any depth, run through their jumps;
   when a block ends, its slots simply stay behind. *)
From Coq Require Import List ZArith NArith Bool Arith Lia.
Require Import RV.model.Syntax RV.model.Compiler RV.model.VM.
Require Import RV.proofs.VMScalarProofs.
Require RV.model.VarProg RV.proofs.VarProgFacts.
Require Import RV.proofs.PatchFacts.
Module P := RV.model.VarProg.
Module PF := RV.proofs.VarProgFacts.
Import ListNotations.
Local Open Scope nat_scope.

Lemma nth_lset_same (A : Type) (l : list A) i v d : i < length l -> nth i (lset l i v) d = v.
Proof. revert i; induction l as [|x l IH]; intros [|i] H; cbn in *; try lia; [reflexivity|apply IH; lia]. Qed.
Lemma nth_lset_other (A : Type) (l : list A) i j v d : i <> j -> nth j (lset l i v) d = nth j l d.
Proof. revert i j; induction l as [|x l IH]; intros [|i] [|j] H; cbn; try reflexivity; try lia. apply IH. lia. Qed.
Lemma length_lset (A : Type) (l : list A) i v : length (lset l i v) = length l.
Proof. revert i; induction l as [|x l IH]; intros [|i]; cbn; auto. Qed.

Section VarVM.
  Variable tabs : list table.
  Variable c : code.
  Variables (below : nat) (frames : list nat) (free : list (nat * nat)) (defers : list value) (is_main : bool).

  Notation runs f ip st s := (exec tabs f c ip st below frames free defers is_main s).
  Notation instr := (code_instr c).
  Notation opnd ip k := (N.to_nat (nth (ip + k) instr 0%N)).

  Lemma step_store f ip st v s :
    nth_error instr ip = Some 33%N ->
    runs (S f) ip (v :: st) s = runs f (ip + 2) st (upd_globals s (lset (globals s) (opnd ip 1) v)).
  Proof. intros H. cbn [exec]. rewrite H. reflexivity. Qed.

  Lemma step_pop f ip st v s :
    nth_error instr ip = Some 72%N -> runs (S f) ip (v :: st) s = runs f (S ip) st s.
  Proof. intros H. cbn [exec]. rewrite H. reflexivity. Qed.

  (* the global slots [scope] hold the visible variables [rho] *)
  Definition vm_inv (rho : list F.sval) (scope : list nat) (s : mstate) : Prop :=
    length scope = length rho /\ NoDup scope /\
    forall i, i < length rho -> nth (nth i scope 0) (globals s) VGoNil = inj (nth i rho F.VNil).
  (* every visible slot is below the next free one, and the slots this code will still claim exist *)
  Definition slots_ok (k need : nat) (scope : list nat) (s : mstate) : Prop :=
    Forall (fun sl => sl < k) scope /\ k + need <= length (globals s).

  Lemma vm_inv_globals_at rho scope s : vm_inv rho scope s -> globals_at s (P.slot_of scope) rho.
  Proof.
    intros [_ [_ H]] i v Hi. assert (Hlt : i < length rho) by (apply nth_error_Some; congruence).
    unfold P.slot_of. rewrite (H i Hlt). rewrite (nth_error_nth rho i F.VNil Hi). reflexivity.
  Qed.

  Lemma vm_inv_decl rho scope s v k : vm_inv rho scope s -> slots_ok k 1 scope s ->
    vm_inv (rho ++ [v]) (scope ++ [k]) (upd_globals s (lset (globals s) k (inj v))).
  Proof.
    intros [Hl [Hnd H]] [Hf Hk]. unfold vm_inv. cbn [globals upd_globals].
    assert (Hnotin : ~ In k scope) by (intros Hin; pose proof (proj1 (Forall_forall _ _) Hf k Hin) as H0; cbn in H0; lia).
    split; [rewrite !app_length; cbn; lia|]. split.
    - clear H Hl Hk Hf. induction scope as [|x sc IH]; cbn; [constructor; [intros []|constructor]|].
      inversion Hnd as [|? ? Hx Hsc]; subst. constructor.
      + intros Hin. apply in_app_or in Hin. destruct Hin as [Hin|[->|[]]]; [exact (Hx Hin)|apply Hnotin; left; reflexivity].
      + apply IH; [exact Hsc|intros Hin; apply Hnotin; right; exact Hin].
    - intros i Hi. rewrite app_length in Hi. cbn in Hi.
      destruct (Nat.eq_dec i (length rho)) as [->|Hd].
      + assert (E1 : nth (length rho) (scope ++ [k]) 0 = k) by (rewrite <- Hl, app_nth2 by lia; rewrite Nat.sub_diag; reflexivity).
        assert (E2 : nth (length rho) (rho ++ [v]) F.VNil = v) by (rewrite app_nth2 by lia; rewrite Nat.sub_diag; reflexivity).
        rewrite E1, E2. apply nth_lset_same. lia.
      + assert (Hi' : i < length rho) by lia.
        assert (E1 : nth i (scope ++ [k]) 0 = nth i scope 0) by (apply app_nth1; lia).
        assert (E2 : nth i (rho ++ [v]) F.VNil = nth i rho F.VNil) by (apply app_nth1; exact Hi').
        rewrite E1, E2. rewrite nth_lset_other; [exact (H i Hi')|].
        intros E. apply Hnotin. rewrite E. apply nth_In. lia.
  Qed.

  Lemma vm_inv_set rho scope s i v : vm_inv rho scope s -> i < length rho ->
    vm_inv (P.set_nth i v rho) scope (upd_globals s (lset (globals s) (P.slot_of scope i) (inj v))).
  Proof.
    intros [Hl [Hnd H]] Hi. unfold vm_inv, P.slot_of. cbn [globals upd_globals]. rewrite PF.set_nth_length.
    split; [exact Hl|]. split; [exact Hnd|]. intros j Hj.
    destruct (Nat.eq_dec j i) as [->|Hd].
    - rewrite PF.nth_set_nth_same by lia. rewrite nth_lset_same; [reflexivity|].
      (* the slot exists: it holds a value that is not the unset marker *)
      destruct (Nat.lt_ge_cases (nth i scope 0) (length (globals s))) as [Hlt|Hge]; [exact Hlt|].
      pose proof (H i Hi) as H0. rewrite nth_overflow in H0 by exact Hge. destruct (nth i rho F.VNil); discriminate.
    - rewrite PF.nth_set_nth_other by lia. rewrite nth_lset_other; [exact (H j Hj)|].
      intros E. apply Hd. symmetry. apply (proj1 (NoDup_nth scope 0) Hnd i j); [lia|lia|exact E].
  Qed.

  (* at the end of a block its variables are gone *)
  Lemma vm_inv_firstn rho scope x s n : vm_inv rho (scope ++ x) s -> length scope = n -> n <= length rho ->
    vm_inv (firstn n rho) scope s.
  Proof.
    intros [Hl [Hnd H]] Hn Hle. split; [rewrite firstn_length; lia|]. split.
    - clear H Hl Hn Hle. induction scope as [|y sc IH]; [constructor|]. cbn in Hnd. inversion Hnd as [|? ? Hy Hsc]; subst. constructor.
      + intros Hin. apply Hy. apply in_or_app. left. exact Hin.
      + exact (IH Hsc).
    - intros i Hi. rewrite firstn_length in Hi. assert (Hi' : i < n) by lia.
      pose proof (H i ltac:(lia)) as Hv. rewrite app_nth1 in Hv by lia.
      assert (E : nth i (firstn n rho) F.VNil = nth i rho F.VNil).
      { clear -Hi'. revert n i Hi'. induction rho as [|y r IH]; intros [|n] [|i] H; cbn; try reflexivity; try lia. apply IH. lia. }
      rewrite E. exact Hv.
  Qed.
  Lemma slots_ok_less k need need' scope s : slots_ok k need scope s -> need' <= need -> slots_ok k need' scope s.
  Proof. intros [Hf Hk] H. split; [exact Hf|lia]. Qed.
  Lemma slots_ok_next k need scope s st : slots_ok k (P.nd st + need) scope s ->
    slots_ok (k + P.nd st) need (P.next_scope k scope st) s.
  Proof.
    intros [Hf Hk]. split; [|lia].
    assert (H0 : Forall (fun sl => sl < k + P.nd st) scope) by (eapply Forall_impl; [|exact Hf]; cbn; intros; lia).
    destruct st; cbn [P.next_scope P.nd] in *; try exact H0.
    apply Forall_app. split; [exact H0|constructor; [lia|constructor]].
  Qed.
  Lemma slots_ok_shift k d need scope s : slots_ok k (d + need) scope s -> slots_ok (k + d) need scope s.
  Proof. intros [Hf Hk]. split; [eapply Forall_impl; [|exact Hf]; cbn; intros; lia|lia]. Qed.
  Lemma slots_ok_state k need scope s s' : slots_ok k need scope s -> length (globals s') = length (globals s) -> slots_ok k need scope s'.
  Proof. intros [Hf Hk] E. split; [exact Hf|rewrite E; exact Hk]. Qed.
  (* ---------------------------------------------------------------- positions *)
  Lemma at0 (A : Type) (l1 : list A) x l2 : nth_error (l1 ++ x :: l2) (length l1) = Some x.
  Proof. induction l1; cbn; auto. Qed.
  Lemma at1 (l1 : list N) x y l2 : nth (length l1 + 1) (l1 ++ x :: y :: l2) 0%N = y.
  Proof. induction l1; cbn; auto. Qed.
  Lemma step_jumpback f ip st s :
    nth_error instr ip = Some 10%N -> runs (S f) ip st s = runs f (ip - opnd ip 1) st s.
  Proof. intros H. cbn [exec]. rewrite H. reflexivity. Qed.


  Lemma consts_l (ka kb : list konst) base :
    (forall i k, nth_error (ka ++ kb) i = Some k -> nth (base + i) (code_consts c) (KInt 0) = k) ->
    forall i k, nth_error ka i = Some k -> nth (base + i) (code_consts c) (KInt 0) = k.
  Proof. intros H i k Hi. apply H. rewrite nth_error_app1; [exact Hi|]. apply nth_error_Some. congruence. Qed.
  Lemma consts_r (ka kb : list konst) base :
    (forall i k, nth_error (ka ++ kb) i = Some k -> nth (base + i) (code_consts c) (KInt 0) = k) ->
    forall i k, nth_error kb i = Some k -> nth (base + length ka + i) (code_consts c) (KInt 0) = k.
  Proof.
    intros H i k Hi. rewrite <- Nat.add_assoc. apply H.
    rewrite nth_error_app2 by lia. replace (length ka + i - length ka) with i by lia. exact Hi.
  Qed.

  (* ---------------------------------------------------------------- evaluate, then store into a global slot *)
  Notation cexp_in scope := (F.cexp_at (P.slot_of scope)).

  Lemma vm_store rho scope s e base pre post slot :
    vm_inv rho scope s -> F.wf (length rho) e = true ->
    instr = pre ++ fst (cexp_in scope base e) ++ [opStoreGlobal; N.of_nat slot] ++ post ->
    (forall i kk, nth_error (snd (cexp_in scope base e)) i = Some kk -> nth (base + i) (code_consts c) (KInt 0) = kk) ->
    below + F.need e <= MAXSTACK ->
    exists k, forall f,
      match F.sev rho e with
      | inl v => runs (k + f) (length pre) [] s =
                 runs f (length pre + length (fst (cexp_in scope base e) ++ [opStoreGlobal; N.of_nat slot])) []
                      (upd_globals s (lset (globals s) slot (inj v)))
      | inr x => runs (k + f) (length pre) [] s = (RErr (cls x) s, defers)
      end.
  Proof.
    intros Hinv Hwf Hi Hc Hn. pose proof (vm_inv_globals_at rho scope s Hinv) as Hg.
    destruct (vm_scalar_at tabs c below frames free defers is_main s (P.slot_of scope) rho Hg e base pre _ [] Hwf Hi Hc ltac:(cbn [length]; lia)) as [n Hr].
    unfold outcome_of in Hr.
    destruct (F.sev rho e) as [v|x].
    - exists (n + 1). intros f. rewrite <- Nat.add_assoc, Hr. cbn [Nat.add].
      set (ce := fst (cexp_in scope base e)) in *.
      assert (Hx : instr = (pre ++ ce) ++ opStoreGlobal :: N.of_nat slot :: post) by (rewrite Hi, <- !app_assoc; reflexivity).
      rewrite (step_store f (length pre + length ce) [] (inj v) s) by (rewrite Hx, <- app_length; apply at0).
      assert (E : nth (length pre + length ce + 1) instr 0%N = N.of_nat slot) by (rewrite Hx, <- app_length; apply at1).
      rewrite E, Nat2N.id, app_length. cbn [length].
      replace (length pre + (length ce + 2)) with (length pre + length ce + 2) by lia. reflexivity.
    - exists n. intros f. exact (Hr f).
  Qed.

  (* ---------------------------------------------------------------- x op= e  and  x++ / x-- *)
  Lemma vm_binstore s sl o (a b : F.sval) base_pos :
    (* at base_pos: the operator's two slots, then StoreGlobal sl; on the stack b above a *)
    is_cmp o = false ->
    forall x y post0 pre0, F.op_code o = [x; y] ->
    instr = pre0 ++ [x; y] ++ [opStoreGlobal; N.of_nat sl] ++ post0 -> base_pos = length pre0 ->
    below + 2 <= MAXSTACK ->
    forall f,
      runs (S (S f)) base_pos [inj b; inj a] s =
      match F.sbin o a b with
      | inl rv => runs f (base_pos + 4) [] (upd_globals s (lset (globals s) sl (inj rv)))
      | inr e => (RErr (cls e) s, defers)
      end.
  Proof.
    intros Hc x y post0 pre0 Ho Hins -> Hb f.
    assert (Hx : x = opBinaryOp) by (destruct o; try discriminate; cbn in Ho; congruence).
    subst x.
    rewrite (step_binop tabs c below frames free defers is_main s (S f) (length pre0) [] (inj a) (inj b));
      [|rewrite Hins; apply at0|cbn [length]; lia].
    assert (E : nth (length pre0 + 1) instr 0%N = y) by (rewrite Hins; apply at1).
    rewrite E, (binop_inj s o a b _ y Hc Ho).
    destruct (F.sbin o a b) as [rv|e]; [|reflexivity].
    assert (Hx : instr = (pre0 ++ [opBinaryOp; y]) ++ opStoreGlobal :: N.of_nat sl :: post0) by (rewrite Hins, <- !app_assoc; reflexivity).
    assert (Hl : length (pre0 ++ [opBinaryOp; y]) = length pre0 + 2) by (rewrite app_length; reflexivity).
    rewrite (step_store f (length pre0 + 2) [] (inj rv) s) by (rewrite Hx, <- Hl; apply at0).
    assert (E2 : nth (length pre0 + 2 + 1) instr 0%N = N.of_nat sl) by (rewrite Hx, <- Hl; apply at1).
    rewrite E2, Nat2N.id. replace (length pre0 + 2 + 2) with (length pre0 + 4) by lia. reflexivity.
  Qed.

  Lemma vm_setop rho scope s i o e base pre post :
    let sl := P.slot_of scope i in
    vm_inv rho scope s -> i < length rho -> P.is_compound o = true -> F.wf (length rho) e = true ->
    instr = pre ++ ([opLoadGlobal; N.of_nat sl] ++ fst (cexp_in scope base e) ++ F.op_code o ++ [opStoreGlobal; N.of_nat sl]) ++ post ->
    (forall j kk, nth_error (snd (cexp_in scope base e)) j = Some kk -> nth (base + j) (code_consts c) (KInt 0) = kk) ->
    below + S (F.need e) <= MAXSTACK ->
    exists k, forall f,
      match F.sev rho e with
      | inl v =>
          match F.sbin o (nth i rho F.VNil) v with
          | inl rv => runs (k + f) (length pre) [] s =
                      runs f (length pre + length ([opLoadGlobal; N.of_nat sl] ++ fst (cexp_in scope base e) ++ F.op_code o ++ [opStoreGlobal; N.of_nat sl])) []
                           (upd_globals s (lset (globals s) sl (inj rv)))
          | inr x => runs (k + f) (length pre) [] s = (RErr (cls x) s, defers)
          end
      | inr x => runs (k + f) (length pre) [] s = (RErr (cls x) s, defers)
      end.
  Proof.
    intros sl Hinv Hi Ho Hwf Hins Hc Hn. pose proof (vm_inv_globals_at rho scope s Hinv) as Hg.
    assert (Hnc : is_cmp o = false) by (destruct o; try discriminate; reflexivity).
    destruct (op_code_shape o) as [x [y [Hoc _]]].
    set (ce := fst (cexp_in scope base e)) in *.
    set (old := nth i rho F.VNil).
    assert (Hold : nth sl (globals s) VGoNil = inj old) by (destruct Hinv as [_ [_ H]]; exact (H i Hi)).
    set (pre1 := pre ++ [opLoadGlobal; N.of_nat sl]).
    assert (Hl1 : length pre1 = length pre + 2) by (unfold pre1; rewrite app_length; reflexivity).
    assert (Hi1 : instr = pre1 ++ ce ++ (F.op_code o ++ [opStoreGlobal; N.of_nat sl] ++ post))
      by (rewrite Hins; unfold pre1; rewrite <- !app_assoc; reflexivity).
    destruct (vm_scalar_at tabs c below frames free defers is_main s (P.slot_of scope) rho Hg e base pre1 _ [inj old] Hwf Hi1 Hc ltac:(cbn [length]; lia)) as [n Hr].
    unfold outcome_of in Hr. fold ce in Hr.
    assert (Hload : forall f, runs (S f) (length pre) [] s = runs f (length pre1) [inj old] s).
    { intros f. rewrite (step_loadglobal tabs c below frames free defers is_main s f (length pre) [] (inj old));
        [rewrite Hl1; reflexivity|rewrite Hins; apply at0|cbn [length]; lia| |apply inj_not_gonil].
      assert (E : nth (length pre + 1) instr 0%N = N.of_nat sl) by (rewrite Hins; apply at1).
      rewrite E, Nat2N.id. exact Hold. }
    destruct (F.sev rho e) as [v|xx].
    - exists (1 + (n + 2)). intros f.
      replace (1 + (n + 2) + f) with (S (n + (S (S f)))) by lia. rewrite Hload, Hr.
      assert (Hi2 : instr = (pre1 ++ ce) ++ [x; y] ++ [opStoreGlobal; N.of_nat sl] ++ post)
        by (rewrite Hi1, Hoc, <- !app_assoc; reflexivity).
      rewrite (vm_binstore s sl o old v (length pre1 + length ce) Hnc x y post (pre1 ++ ce) Hoc Hi2
                 ltac:(rewrite app_length; reflexivity) ltac:(pose proof (PF.need_pos e); lia) f).
      destruct (F.sbin o old v) as [rv|xx]; [|reflexivity].
      f_equal. rewrite Hl1, !app_length, Hoc. cbn [length]. fold ce. lia.
    - exists (1 + n). intros f. replace (1 + n + f) with (S (n + f)) by lia. rewrite Hload. exact (Hr f).
  Qed.

  Lemma vm_incdec rho scope s i (up : bool) base pre post :
    let sl := P.slot_of scope i in
    vm_inv rho scope s -> i < length rho ->
    instr = pre ++ [opLoadGlobal; N.of_nat sl; opLoadConst; N.of_nat base; opBinaryOp; bAdd; opStoreGlobal; N.of_nat sl] ++ post ->
    nth base (code_consts c) (KInt 0) = KInt (if up then 1 else -1) ->
    below + 2 <= MAXSTACK ->
    exists k, forall f,
      match F.sbin F.BAdd (nth i rho F.VNil) (F.VInt (if up then 1 else -1)) with
      | inl rv => runs (k + f) (length pre) [] s = runs f (length pre + 8) [] (upd_globals s (lset (globals s) sl (inj rv)))
      | inr x => runs (k + f) (length pre) [] s = (RErr (cls x) s, defers)
      end.
  Proof.
    intros sl Hinv Hi Hins Hk Hn.
    set (old := nth i rho F.VNil).
    assert (Hold : nth sl (globals s) VGoNil = inj old) by (destruct Hinv as [_ [_ H]]; exact (H i Hi)).
    exists 4. intros f. cbn [Nat.add].
    rewrite (step_loadglobal tabs c below frames free defers is_main s (S (S (S f))) (length pre) [] (inj old));
      [|rewrite Hins; apply at0|cbn [length]; lia| |apply inj_not_gonil].
    2:{ assert (E : nth (length pre + 1) instr 0%N = N.of_nat sl) by (rewrite Hins; apply at1). rewrite E, Nat2N.id. exact Hold. }
    assert (Hi1 : instr = (pre ++ [opLoadGlobal; N.of_nat sl]) ++ opLoadConst :: N.of_nat base :: ([opBinaryOp; bAdd; opStoreGlobal; N.of_nat sl] ++ post))
      by (rewrite Hins, <- !app_assoc; reflexivity).
    assert (Hl1 : length (pre ++ [opLoadGlobal; N.of_nat sl]) = length pre + 2) by (rewrite app_length; reflexivity).
    rewrite (step_const tabs c below frames free defers is_main s (S (S f)) (length pre + 2) [inj old]);
      [|rewrite Hi1, <- Hl1; apply at0|cbn [length]; lia].
    assert (E : nth (length pre + 2 + 1) instr 0%N = N.of_nat base) by (rewrite Hi1, <- Hl1; apply at1).
    rewrite E, Nat2N.id, Hk.
    assert (Hi2 : instr = (pre ++ [opLoadGlobal; N.of_nat sl; opLoadConst; N.of_nat base]) ++ [opBinaryOp; bAdd] ++ [opStoreGlobal; N.of_nat sl] ++ post)
      by (rewrite Hins, <- !app_assoc; reflexivity).
    change (const_value (KInt (if up then 1 else -1))) with (inj (F.VInt (if up then 1 else -1))).
    rewrite (vm_binstore s sl F.BAdd old (F.VInt (if up then 1 else -1)) (length pre + 2 + 2) eq_refl
               opBinaryOp bAdd post (pre ++ [opLoadGlobal; N.of_nat sl; opLoadConst; N.of_nat base]) eq_refl Hi2
               ltac:(rewrite app_length; cbn [length]; lia) Hn f).
    destruct (F.sbin F.BAdd old (F.VInt (if up then 1 else -1))) as [rv|xx]; [|reflexivity].
    f_equal. lia.
  Qed.

  (* ---------------------------------------------------------------- statements, lists, blocks, loops *)
  Definition consts_at (base : nat) (ks : list konst) : Prop :=
    forall i kk, nth_error ks i = Some kk -> nth (base + i) (code_consts c) (KInt 0) = kk.

  (* the state s' holds the variables rho' in the slots [scope], and has as many slots as s *)
  Definition good (scope : list nat) (s : mstate) (rho' : list F.sval) (s' : mstate) : Prop :=
    vm_inv rho' scope s' /\ length (globals s') = length (globals s).
  Definition good_ext (scope : list nat) (s : mstate) (rho' : list F.sval) (s' : mstate) : Prop :=
    exists x, good (scope ++ x) s rho' s'.

  (* how the machine goes on after a statement that ran as r: after its code with the given stack; or at the break /
     continue target of the enclosing loop (L = the loop's first instruction, bt / ct relative to it) with the stack
     empty.  okn / oks: what holds of the state after a normal end / after a break or continue *)
  Definition after (r : (list F.sval * F.sval) + P.stop) (okn oks : list F.sval -> mstate -> Prop) (s : mstate)
             (start stop L bt ct : nat) (stack : F.sval -> list value) : Prop :=
    exists k s',
      match r with
      | inr (P.StErr x) => forall f, runs (k + f) start [] s = (RErr (cls x) s', defers)
      | inl (rho', v) => okn rho' s' /\ forall f, runs (k + f) start [] s = runs f stop (stack v) s'
      | inr (P.StBrk rho') => oks rho' s' /\ forall f, runs (k + f) start [] s = runs f (L + bt) [] s'
      | inr (P.StCont rho') => oks rho' s' /\ forall f, runs (k + f) start [] s = runs f (L + ct) [] s'
      end.
  Lemma after_stop x (okn okn' oks oks' : list F.sval -> mstate -> Prop) s start stop stop' L bt ct st st' :
    (forall rho' s', oks rho' s' -> oks' rho' s') ->
    after (inr x) okn oks s start stop L bt ct st -> after (inr x) okn' oks' s start stop' L bt ct st'.
  Proof.
    intros Hr [k [s' H]]. exists k, s'. destruct x as [x|rho'|rho']; [exact H| |];
      (destruct H as [Hi H]; split; [exact (Hr _ _ Hi)|exact H]).
  Qed.
  Lemma good_good_ext scope s rho' s' : good scope s rho' s' -> good_ext scope s rho' s'.
  Proof. intros H. exists []. rewrite app_nil_r. exact H. Qed.

  (* the code lies inside the loop, before the continue target, which is not after the break target *)
  Definition inside (lp : bool) (pre : list N) (len L bt ct : nat) : Prop :=
    lp = true -> L <= length pre /\ length pre + len <= L + ct /\ ct <= bt.

  Fixpoint scope_after (k : nat) (scope : list nat) (l : list P.stmt) : list nat :=
    match l with [] => scope | s :: r => scope_after (k + P.nd s) (P.next_scope k scope s) r end.
  Lemma next_scope_ext k scope st : exists x, P.next_scope k scope st = scope ++ x.
  Proof. destruct st; cbn [P.next_scope]; try (exists []; rewrite app_nil_r; reflexivity). exists [k]. reflexivity. Qed.
  Lemma scope_after_ext : forall l k scope, exists x, scope_after k scope l = scope ++ x.
  Proof.
    induction l as [|st r IH]; intros k scope; [exists []; rewrite app_nil_r; reflexivity|].
    cbn [scope_after]. destruct (IH (k + P.nd st) (P.next_scope k scope st)) as [x Hx].
    destruct (next_scope_ext k scope st) as [y Hy]. exists (y ++ x). rewrite Hx, Hy, app_assoc. reflexivity.
  Qed.

  (* what holds of one statement run with source fuel n *)
  Definition stmt_vm (n : nat) : Prop :=
    forall st rho scope k s base pre post lp L bt ct r,
      vm_inv rho scope s -> slots_ok k (P.nd st) scope s -> P.wf_stmt lp (length rho) st = true ->
      instr = pre ++ npatch (length pre - L) bt ct (fst (P.stmt_code k scope base st)) ++ post ->
      consts_at base (snd (P.stmt_code k scope base st)) ->
      below + P.sneed st <= MAXSTACK ->
      inside lp pre (length (fst (P.stmt_code k scope base st))) L bt ct ->
      P.run_stmt n rho st = Some r ->
      after r (good (P.next_scope k scope st) s) (good scope s) s
            (length pre) (length pre + length (fst (P.stmt_code k scope base st))) L bt ct
            (fun v => if P.is_expr_stmt st then [inj v] else []).

  Lemma good_trans scope s s1 rho' s' : length (globals s1) = length (globals s) -> good scope s1 rho' s' -> good scope s rho' s'.
  Proof. intros E [H1 H2]. split; [exact H1|congruence]. Qed.

  Lemma vm_list n : stmt_vm n -> forall l rho scope k s base pre post last lp L bt ct r,
    l <> [] -> vm_inv rho scope s -> slots_ok k (P.ndecls l) scope s -> P.wf_stmts lp (length rho) l = true ->
    instr = pre ++ npatch (length pre - L) bt ct (fst (P.scode k scope base l)) ++ post ->
    consts_at base (snd (P.scode k scope base l)) ->
    below + P.max_need l <= MAXSTACK ->
    inside lp pre (length (fst (P.scode k scope base l))) L bt ct ->
    P.run_stmts n rho l last = Some r ->
    after r (good (scope_after k scope l) s) (good_ext scope s) s
          (length pre) (length pre + length (fst (P.scode k scope base l))) L bt ct (fun v => [inj v]).
  Proof.
    intros Hst. induction l as [|st r0 IH]; intros rho scope k s base pre post last lp L bt ct r Hne Hinv Hsl Hwf Hi Hc Hn Hin Hr; [contradiction|].
    rewrite PF.wf_stmts_cons in Hwf. apply andb_true_iff in Hwf. destruct Hwf as [Hws Hwr].
    pose proof (PF.sneed_pos st) as Hpos.
    rewrite PF.max_need_cons in Hn. rewrite PF.run_stmts_cons in Hr.
    rewrite PF.ndecls_cons in Hsl.
    assert (Hsl0 : slots_ok k (P.nd st) scope s) by (apply (slots_ok_less _ _ _ _ _ Hsl); lia).
    cbn [scope_after].
    destruct r0 as [|st2 r2].
    - (* the last statement *)
      rewrite PF.scode_single in Hi, Hc, Hin |- *. cbn [scope_after].
      destruct (P.stmt_code k scope base st) as [cc ks] eqn:Es. cbn [fst snd] in *.
      set (tail := if P.is_expr_stmt st then [] else I [opNil]) in *.
      rewrite npatch_app in Hi.
      assert (Htl : npatch (length pre - L + length cc) bt ct tail = if P.is_expr_stmt st then [] else [opNil])
        by (unfold tail; destruct (P.is_expr_stmt st); [reflexivity|apply npatch_I]).
      rewrite Htl in Hi.
      assert (Hi' : instr = pre ++ npatch (length pre - L) bt ct (fst (P.stmt_code k scope base st)) ++
                            ((if P.is_expr_stmt st then [] else [opNil]) ++ post))
        by (rewrite Es; cbn [fst]; rewrite Hi, <- !app_assoc; reflexivity).
      assert (Hc' : consts_at base (snd (P.stmt_code k scope base st))) by (rewrite Es; exact Hc).
      assert (Hin' : inside lp pre (length (fst (P.stmt_code k scope base st))) L bt ct).
      { rewrite Es. cbn [fst]. intros Hl. destruct (Hin Hl) as [H1 [H2 H3]]. rewrite app_length in H2. repeat split; lia. }
      destruct (P.run_stmt n rho st) as [[[rho1 v1]|x]|] eqn:Er; [| |discriminate].
      + destruct (Hst st rho scope k s base pre _ lp L bt ct _ Hinv Hsl0 Hws Hi' Hc' ltac:(lia) Hin' Er) as [k1 [s1 [Hinv1 Hrun]]].
        rewrite Es in Hrun. cbn [fst] in Hrun.
        cbn in Hr. inversion Hr; subst r. clear Hr.
        assert (Hlc : length (npatch (length pre - L) bt ct cc) = length cc) by (apply (npatch_length (length pre - L)); reflexivity).
        destruct (P.is_expr_stmt st) eqn:Ex.
        * exists k1, s1. split; [exact Hinv1|]. intros f. rewrite Hrun. unfold tail. rewrite app_nil_r. reflexivity.
        * exists (k1 + 1), s1. split; [exact Hinv1|]. intros f. rewrite <- Nat.add_assoc, Hrun. cbn [Nat.add].
          assert (Hx : instr = (pre ++ npatch (length pre - L) bt ct cc) ++ opNil :: post) by (rewrite Hi, <- !app_assoc; reflexivity).
          rewrite (step_push tabs c below frames free defers is_main s1 f (length pre + length cc) [] opNil VNil);
            [|rewrite Hx, <- Hlc, <- app_length; apply at0|auto|cbn [length]; lia].
          unfold tail. rewrite app_length, I_length. cbn [length].
          replace (length pre + (length cc + 1)) with (S (length pre + length cc)) by lia.
          rewrite (PF.run_stmt_value n rho st rho1 v1 Er Ex). reflexivity.
      + inversion Hr; subst r.
        exact (after_stop _ _ _ _ _ _ _ _ _ _ _ _ _ _ (good_good_ext scope s)
                 (Hst st rho scope k s base pre _ lp L bt ct _ Hinv Hsl0 Hws Hi' Hc' ltac:(lia) Hin' Er)).
    - (* more statements follow *)
      assert (Hr2 : st2 :: r2 <> []) by discriminate.
      rewrite PF.scode_cons2 in Hi, Hc, Hin |- *.
      destruct (P.stmt_code k scope base st) as [cc ks] eqn:Es.
      destruct (P.scode (k + P.nd st) (P.next_scope k scope st) (base + length ks) (st2 :: r2)) as [cr kr] eqn:Ep. cbn [fst snd] in *.
      set (glue := if P.is_expr_stmt st then I [opPopTop] else []) in *.
      set (pops := if P.is_expr_stmt st then [opPopTop] else []).
      rewrite !npatch_app in Hi.
      assert (Hgl : npatch (length pre - L + length cc) bt ct glue = pops)
        by (unfold glue, pops; destruct (P.is_expr_stmt st); [apply npatch_I|reflexivity]).
      rewrite Hgl in Hi.
      assert (Hlg : length glue = length pops) by (unfold glue, pops; destruct (P.is_expr_stmt st); reflexivity).
      set (pc := npatch (length pre - L) bt ct cc) in *.
      assert (Hlc : length pc = length cc) by (apply (npatch_length (length pre - L)); reflexivity).
      assert (Hi' : instr = pre ++ npatch (length pre - L) bt ct (fst (P.stmt_code k scope base st)) ++
                            (pops ++ npatch (length pre - L + length cc + length glue) bt ct cr ++ post))
        by (rewrite Es; cbn [fst]; rewrite Hi, <- !app_assoc; reflexivity).
      assert (Hc' : consts_at base (snd (P.stmt_code k scope base st))) by (rewrite Es; exact (consts_l ks kr base Hc)).
      assert (Hin' : inside lp pre (length (fst (P.stmt_code k scope base st))) L bt ct).
      { rewrite Es. cbn [fst]. intros Hl. destruct (Hin Hl) as [H1 [H2 H3]]. rewrite !app_length in H2. repeat split; lia. }
      destruct (P.run_stmt n rho st) as [[[rho1 v1]|x]|] eqn:Er; [| |discriminate].
      2:{ inversion Hr; subst r.
          exact (after_stop _ _ _ _ _ _ _ _ _ _ _ _ _ _ (good_good_ext scope s)
                   (Hst st rho scope k s base pre _ lp L bt ct _ Hinv Hsl0 Hws Hi' Hc' ltac:(lia) Hin' Er)). }
      destruct (Hst st rho scope k s base pre _ lp L bt ct _ Hinv Hsl0 Hws Hi' Hc' ltac:(lia) Hin' Er) as [k1 [s1 [[Hinv1 Hgl1] Hrun]]].
      rewrite Es in Hrun. cbn [fst] in Hrun.
      pose proof (PF.run_stmt_length n rho st _ Er) as Hlen1. cbn [PF.len_ok] in Hlen1.
      set (Q := pre ++ pc ++ pops).
      assert (HQ : length Q = length pre + length cc + length pops) by (unfold Q; rewrite !app_length; lia).
      rewrite <- Hlen1 in Hwr.
      assert (HoffQ : forall (HL : lp = true), length Q - L = length pre - L + length cc + length glue).
      { intros HL. destruct (Hin HL) as [H1 _]. rewrite HQ, Hlg. lia. }
      assert (Hcr : npatch (length pre - L + length cc + length glue) bt ct cr = npatch (length Q - L) bt ct cr).
      { apply (npatch_off lp); [intros HL; symmetry; exact (HoffQ HL)|].
        intros HL. subst lp.
        pose proof (scode_no_ph (st2 :: r2) (length rho1) (k + P.nd st) (P.next_scope k scope st) (base + length ks) Hwr) as H0.
        rewrite Ep in H0. exact H0. }
      assert (Hi2 : instr = Q ++ npatch (length Q - L) bt ct (fst (P.scode (k + P.nd st) (P.next_scope k scope st) (base + length ks) (st2 :: r2))) ++ post)
        by (rewrite Ep; cbn [fst]; rewrite Hi, Hcr; unfold Q; rewrite <- !app_assoc; reflexivity).
      assert (Hc2 : consts_at (base + length ks) (snd (P.scode (k + P.nd st) (P.next_scope k scope st) (base + length ks) (st2 :: r2))))
        by (rewrite Ep; exact (consts_r ks kr base Hc)).
      assert (Hin2 : inside lp Q (length (fst (P.scode (k + P.nd st) (P.next_scope k scope st) (base + length ks) (st2 :: r2)))) L bt ct).
      { rewrite Ep. cbn [fst]. intros Hl. destruct (Hin Hl) as [H1 [H2 H3]]. rewrite !app_length in H2. rewrite HQ, <- Hlg. repeat split; lia. }
      assert (Hsl1 : slots_ok (k + P.nd st) (P.ndecls (st2 :: r2)) (P.next_scope k scope st) s1)
        by (apply (slots_ok_state _ _ _ s); [apply slots_ok_next; exact Hsl|exact Hgl1]).
      destruct (IH rho1 (P.next_scope k scope st) (k + P.nd st) s1 (base + length ks) Q post v1 lp L bt ct r Hr2 Hinv1 Hsl1 Hwr Hi2 Hc2 ltac:(lia) Hin2 Hr) as [k2 [s2 Hrun2]].
      rewrite Ep in Hrun2. cbn [fst] in Hrun2.
      assert (Hglue : exists k0, forall f, runs (k0 + f) (length pre) [] s = runs f (length Q) [] s1).
      { unfold pops in *. destruct (P.is_expr_stmt st) eqn:Ex.
        - exists (k1 + 1). intros f. rewrite <- Nat.add_assoc, Hrun. cbn [Nat.add].
          assert (Hx : instr = (pre ++ pc) ++ opPopTop :: (npatch (length pre - L + length cc + length glue) bt ct cr ++ post))
            by (rewrite Hi, <- !app_assoc; reflexivity).
          rewrite (step_pop f (length pre + length cc) [] (inj v1) s1) by (rewrite Hx, <- Hlc, <- app_length; apply at0).
          rewrite HQ. cbn [length]. replace (length pre + length cc + 1) with (S (length pre + length cc)) by lia. reflexivity.
        - exists k1. intros f. rewrite Hrun, HQ. cbn [length]. rewrite Nat.add_0_r. reflexivity. }
      destruct Hglue as [k0 Hk0].
      exists (k0 + k2), s2.
      assert (Hpos2 : length pre + length (cc ++ glue ++ cr) = length Q + length cr)
        by (rewrite HQ, !app_length, Hlg; lia).
      destruct (next_scope_ext k scope st) as [y Hy].
      assert (Hext : forall rho' s', good_ext (P.next_scope k scope st) s1 rho' s' -> good_ext scope s rho' s').
      { intros rho' s' [x Hx]. exists (y ++ x). rewrite app_assoc, <- Hy. exact (good_trans _ _ _ _ _ Hgl1 Hx). }
      destruct r as [[rho2 vv]|[xx|rho2|rho2]].
      + destruct Hrun2 as [Hinv2 Hrun2]. split; [exact (good_trans _ _ _ _ _ Hgl1 Hinv2)|]. intros f.
        rewrite <- Nat.add_assoc, Hk0, Hrun2, Hpos2. reflexivity.
      + intros f. rewrite <- Nat.add_assoc, Hk0. apply Hrun2.
      + destruct Hrun2 as [Hinv2 Hrun2]. split; [exact (Hext _ _ Hinv2)|]. intros f. rewrite <- Nat.add_assoc, Hk0. apply Hrun2.
      + destruct Hrun2 as [Hinv2 Hrun2]. split; [exact (Hext _ _ Hinv2)|]. intros f. rewrite <- Nat.add_assoc, Hk0. apply Hrun2.
  Qed.

  (* a whole block: Nil for an empty one; at its end the variables it declared are gone (their slots stay behind) *)
  Lemma good_firstn scope x s (rho rho' : list F.sval) s' : good (scope ++ x) s rho' s' -> length scope = length rho -> length rho <= length rho' ->
    good scope s (firstn (length rho) rho') s'.
  Proof. intros [H1 H2] Hl Hle. split; [exact (vm_inv_firstn rho' scope x s' (length rho) H1 Hl Hle)|exact H2]. Qed.

  Lemma vm_block n : stmt_vm n -> forall l rho scope k s base pre post lp L bt ct r,
    vm_inv rho scope s -> slots_ok k (P.ndecls l) scope s -> P.wf_stmts lp (length rho) l = true ->
    instr = pre ++ npatch (length pre - L) bt ct (fst (P.block_code k scope base l)) ++ post ->
    consts_at base (snd (P.block_code k scope base l)) ->
    below + P.max_need l <= MAXSTACK ->
    inside lp pre (length (fst (P.block_code k scope base l))) L bt ct ->
    PF.run_blk n rho l = Some r ->
    after r (good scope s) (good scope s) s (length pre) (length pre + length (fst (P.block_code k scope base l))) L bt ct (fun v => [inj v]).
  Proof.
    intros Hst l rho scope k s base pre post lp L bt ct r Hinv Hsl Hwf Hi Hc Hn Hin Hr. unfold PF.run_blk in Hr. destruct l as [|st r0].
    - rewrite PF.block_code_nil in *. cbn [fst snd] in *. cbn in Hr. inversion Hr; subst r. rewrite firstn_all.
      rewrite npatch_I in Hi.
      exists 1, s. split; [split; [exact Hinv|reflexivity]|]. intros f. cbn [Nat.add length I map].
      rewrite (step_push tabs c below frames free defers is_main s f (length pre) [] opNil VNil);
        [rewrite Nat.add_1_r; reflexivity|rewrite Hi; apply at0|auto|pose proof (PF.max_need_pos []); cbn [length]; lia].
    - assert (Hne : st :: r0 <> []) by discriminate.
      rewrite PF.block_code_cons in *.
      destruct (P.run_stmts n rho (st :: r0) F.VNil) as [r1|] eqn:Er; [|discriminate]. cbn [option_map] in Hr. inversion Hr; subst r. clear Hr.
      pose proof (PF.run_stmts_length n (st :: r0) rho F.VNil r1 Er) as Hlen.
      destruct (vm_list n Hst (st :: r0) rho scope k s base pre post F.VNil lp L bt ct r1 Hne Hinv Hsl Hwf Hi Hc Hn Hin Er) as [k1 [s1 H1]].
      assert (Hls : length scope = length rho) by (destruct Hinv as [H _]; exact H).
      exists k1, s1.
      destruct r1 as [[rho1 v1]|[x|rho1|rho1]]; cbn [P.trunc PF.lens_ok] in *.
      + destruct H1 as [Hg H1]. split; [|exact H1].
        destruct (scope_after_ext (st :: r0) k scope) as [x Hx]. rewrite Hx in Hg. exact (good_firstn _ _ _ _ _ _ Hg Hls Hlen).
      + exact H1.
      + destruct H1 as [[x Hg] H1]. split; [exact (good_firstn _ _ _ _ _ _ Hg Hls Hlen)|exact H1].
      + destruct H1 as [[x Hg] H1]. split; [exact (good_firstn _ _ _ _ _ _ Hg Hls Hlen)|exact H1].
  Qed.

  (* the condition loop; kk = number of visible variables (the same at the start of every round).  Its own code carries no
     placeholder any more; break and continue of the body end here *)
  Lemma vm_loop cnd b base pre post kk k scope :
    instr = pre ++ P.strip (fst (P.stmt_code k scope base (P.SWhile cnd b))) ++ post ->
    consts_at base (snd (P.stmt_code k scope base (P.SWhile cnd b))) ->
    below + P.sneed (P.SWhile cnd b) <= MAXSTACK ->
    F.wf kk cnd = true -> P.wf_stmts true kk b = true ->
    forall m, (forall j, j < m -> stmt_vm j) ->
    forall rho s r L bt ct, length rho = kk -> vm_inv rho scope s -> slots_ok k (P.ndecls b) scope s ->
    P.run_stmt m rho (P.SWhile cnd b) = Some r ->
    PF.no_ctl r /\
    after r (good scope s) (good scope s) s
          (length pre) (length pre + length (fst (P.stmt_code k scope base (P.SWhile cnd b)))) L bt ct (fun _ => []).
  Proof.
    intros Hi Hc Hn Hwc Hwb.
    rewrite PF.code_SWhile in *. rewrite PF.sneed_SWhile in Hn.
    destruct (cexp_in scope base cnd) as [cc kc] eqn:Ec.
    destruct (P.block_code k scope (base + length kc) b) as [cb kb] eqn:Eb. cbv zeta in *. cbn [fst snd] in *.
    set (inner := I cc ++ I [opPopJumpForwardIfFalse; (nlen cb + 6)%N] ++ cb ++ I [opPopTop]) in *.
    set (len := length cc + 2 + length cb + 1).
    assert (Hlen : length inner = len) by (unfold inner, len; rewrite !app_length, !I_length; cbn [length]; lia).
    assert (Hjb : nlen inner = N.of_nat len) by (unfold nlen; rewrite Hlen; reflexivity).
    rewrite Hjb in *.
    replace (N.of_nat len + 2)%N with (N.of_nat (len + 2)) in * by lia.
    rewrite strip_app, strip_I, (strip_patch 0 (len + 2) len inner 0%N eq_refl) in Hi.
    unfold inner in Hi. rewrite !npatch_app, !npatch_I in Hi. rewrite !I_length in Hi. cbn [length Nat.add] in Hi.
    set (pb := npatch (length cc + 2) (len + 2) len cb) in *.
    assert (Hlpb : length pb = length cb) by (apply (npatch_length (length cc + 2)); reflexivity).
    set (off := (nlen cb + 6)%N) in *. set (jb := N.of_nat len) in *.
    assert (Hoff : N.to_nat off = length cb + 6) by (unfold off, nlen; rewrite N2Nat.inj_add, Nat2N.id; reflexivity).
    assert (Hjbn : N.to_nat jb = len) by (unfold jb; apply Nat2N.id).
    assert (Hcodelen : length (patch 0 (N.of_nat (len + 2)) jb inner ++ I [opJumpBackward; jb; opNop]) = len + 3)
      by (rewrite app_length, patch_length, Hlen, I_length; reflexivity).
    set (Pp := pre ++ cc).
    assert (HP : length Pp = length pre + length cc) by (unfold Pp; apply app_length).
    set (Q := Pp ++ [opPopJumpForwardIfFalse; off]).
    assert (HQ : length Q = length Pp + 2) by (unfold Q; rewrite app_length; reflexivity).
    set (R := Q ++ pb).
    assert (HR : length R = length Q + length cb) by (unfold R; rewrite app_length, Hlpb; reflexivity).
    assert (Hic : instr = pre ++ fst (cexp_in scope base cnd) ++ ([opPopJumpForwardIfFalse; off] ++ pb ++ [opPopTop] ++ [opJumpBackward; jb; opNop] ++ post))
      by (rewrite Ec; cbn [fst]; rewrite Hi, <- !app_assoc; reflexivity).
    assert (Hkc : consts_at base (snd (cexp_in scope base cnd))) by (rewrite Ec; exact (consts_l kc kb base Hc)).
    assert (Hc1 : instr = Pp ++ opPopJumpForwardIfFalse :: off :: (pb ++ [opPopTop] ++ [opJumpBackward; jb; opNop] ++ post))
      by (rewrite Hi; unfold Pp; rewrite <- !app_assoc; reflexivity).
    assert (Hib : instr = Q ++ npatch (length Q - length pre) (len + 2) len (fst (P.block_code k scope (base + length kc) b)) ++
                          ([opPopTop] ++ [opJumpBackward; jb; opNop] ++ post)).
    { rewrite Eb. cbn [fst]. replace (length Q - length pre) with (length cc + 2) by (rewrite HQ, HP; lia).
      fold pb. rewrite Hi. unfold Q, Pp. rewrite <- !app_assoc. reflexivity. }
    assert (Hkb : consts_at (base + length kc) (snd (P.block_code k scope (base + length kc) b)))
      by (rewrite Eb; exact (consts_r kc kb base Hc)).
    assert (Hinb : inside true Q (length (fst (P.block_code k scope (base + length kc) b))) (length pre) (len + 2) len).
    { rewrite Eb. cbn [fst]. intros _. rewrite HQ, HP. unfold len. repeat split; lia. }
    assert (Hpop : instr = R ++ opPopTop :: (opJumpBackward :: jb :: opNop :: post))
      by (rewrite Hi; unfold R, Q, Pp; rewrite <- !app_assoc; reflexivity).
    assert (Hjmp : instr = (R ++ [opPopTop]) ++ opJumpBackward :: jb :: (opNop :: post))
      by (rewrite Hi; unfold R, Q, Pp; rewrite <- !app_assoc; reflexivity).
    assert (HR1 : length (R ++ [opPopTop]) = S (length R)) by (rewrite app_length; cbn [length]; lia).
    assert (Hnop : instr = (R ++ [opPopTop; opJumpBackward; jb]) ++ opNop :: post)
      by (rewrite Hi; unfold R, Q, Pp; rewrite <- !app_assoc; reflexivity).
    assert (HR3 : length (R ++ [opPopTop; opJumpBackward; jb]) = length R + 3) by (rewrite app_length; reflexivity).
    assert (HposJ : S (length R) = length pre + len) by (rewrite HR, HQ, HP; unfold len; lia).
    induction m as [|m IH]; intros Hst rho s r L bt ct Hkk Hinv Hsl Hr; [discriminate|].
    rewrite PF.run_SWhile in Hr.
    pose proof (vm_inv_globals_at rho scope s Hinv) as Hg.
    rewrite <- Hkk in Hwc.
    destruct (vm_scalar_at tabs c below frames free defers is_main s (P.slot_of scope) rho Hg cnd base pre _ [] Hwc Hic Hkc ltac:(cbn [length]; lia)) as [n1 Hr1].
    rewrite Ec in Hr1. cbn [fst] in Hr1. unfold outcome_of in Hr1. rewrite <- HP in Hr1.
    destruct (F.sev rho cnd) as [vc|xc].
    2:{ inversion Hr; subst r. split; [exact Logic.I|]. exists n1, s. exact Hr1. }
    assert (Hs1 : forall f, runs (S f) (length Pp) [inj vc] s =
                            runs f (if F.struthy vc then length Pp + 2 else length Pp + (length cb + 6)) [] s).
    { intros f.
      rewrite (step_popjump tabs c below frames free defers is_main s f (length Pp) [] (inj vc) (F.struthy vc) opPopJumpForwardIfFalse);
        [|rewrite Hc1; apply at0|auto|apply truthy_inj].
      assert (E : nth (length Pp + 1) instr 0%N = off) by (rewrite Hc1; apply at1).
      rewrite E, Hoff. change (opPopJumpForwardIfFalse =? 12)%N with true. cbn iota.
      destruct (F.struthy vc); reflexivity. }
    destruct (F.struthy vc) eqn:Etr.
    2:{ (* the loop ends *)
        inversion Hr; subst r. split; [exact Logic.I|]. exists (n1 + 1), s. split; [split; [exact Hinv|reflexivity]|]. intros f.
        rewrite <- Nat.add_assoc, Hr1. cbn [Nat.add]. rewrite Hs1, Hcodelen, HP. unfold len.
        replace (length pre + length cc + (length cb + 6)) with (length pre + (length cc + 2 + length cb + 1 + 3)) by lia.
        reflexivity. }
    (* one round *)
    rewrite <- Hkk in Hwb.
    (* back at the start of the loop with the variables rho1 *)
    assert (Hagain : forall rho1 s1 k0, length rho1 = length rho -> good scope s rho1 s1 ->
              (forall f, runs (k0 + f) (length pre) [] s = runs f (length pre) [] s1) ->
              P.run_stmt m rho1 (P.SWhile cnd b) = Some r ->
              PF.no_ctl r /\
              after r (good scope s) (good scope s) s (length pre) (length pre + length (patch 0 (N.of_nat (len + 2)) jb inner ++ I [opJumpBackward; jb; opNop]))
                    L bt ct (fun _ => [])).
    { intros rho1 s1 k0 Hl1 [Hinv1 Hgl1] Hround Hr'.
      destruct (IH ltac:(intros j Hj; apply Hst; lia) rho1 s1 r L bt ct ltac:(lia) Hinv1 (slots_ok_state _ _ _ s s1 Hsl Hgl1) Hr') as [Hno [n3 [s3 Hr3]]].
      split; [exact Hno|]. exists (k0 + n3), s3.
      destruct r as [[rho3 v3]|[x3|rho3|rho3]]; cbn [PF.no_ctl] in Hno; try contradiction.
      - destruct Hr3 as [Hinv3 Hr3]. split; [exact (good_trans _ _ _ _ _ Hgl1 Hinv3)|]. intros f. rewrite <- Nat.add_assoc, Hround. apply Hr3.
      - intros f. rewrite <- Nat.add_assoc, Hround. apply Hr3. }
    assert (Hjump : forall f s1, runs (S f) (S (length R)) [] s1 = runs f (length pre) [] s1).
    { intros f s1. rewrite (step_jumpback f (S (length R)) [] s1) by (rewrite Hjmp, <- HR1; apply at0).
      assert (E : nth (S (length R) + 1) instr 0%N = jb) by (rewrite Hjmp, <- HR1; apply at1).
      rewrite E, Hjbn, HposJ. replace (length pre + len - len) with (length pre) by lia. reflexivity. }
    destruct (PF.run_blk m rho b) as [[[rho1 v1]|[xb|rho1|rho1]]|] eqn:Erb; [| | | |discriminate].
    - destruct (vm_block m (Hst m ltac:(lia)) b rho scope k s (base + length kc) Q _ true (length pre) (len + 2) len _ Hinv Hsl Hwb Hib Hkb ltac:(lia) Hinb Erb)
        as [n2 [s1 [Hinv1 Hr2]]].
      rewrite Eb in Hr2. cbn [fst] in Hr2.
      pose proof (PF.run_block_length m b rho _ Erb) as Hl1. cbn [PF.lenb_ok] in Hl1.
      apply (Hagain rho1 s1 (n1 + (1 + (n2 + (1 + 1)))) Hl1 Hinv1); [|exact Hr].
      intros f. rewrite <- !Nat.add_assoc, Hr1. replace (1 + (n2 + (1 + (1 + f)))) with (S (n2 + (S (S f)))) by lia.
      rewrite Hs1, <- HQ, Hr2, <- HR.
      rewrite (step_pop (S f) (length R) [] (inj v1) s1) by (rewrite Hpop; apply at0).
      apply Hjump.
    - destruct (vm_block m (Hst m ltac:(lia)) b rho scope k s (base + length kc) Q _ true (length pre) (len + 2) len _ Hinv Hsl Hwb Hib Hkb ltac:(lia) Hinb Erb)
        as [n2 [s1 Hr2]].
      inversion Hr; subst r. split; [exact Logic.I|]. exists (n1 + (1 + n2)), s1. intros f.
      rewrite <- Nat.add_assoc, Hr1. replace (1 + n2 + f) with (S (n2 + f)) by lia. rewrite Hs1, <- HQ. apply Hr2.
    - (* break: on to the Nop behind the loop *)
      destruct (vm_block m (Hst m ltac:(lia)) b rho scope k s (base + length kc) Q _ true (length pre) (len + 2) len _ Hinv Hsl Hwb Hib Hkb ltac:(lia) Hinb Erb)
        as [n2 [s1 [Hinv1 Hr2]]].
      inversion Hr; subst r. split; [exact Logic.I|]. exists (n1 + (1 + (n2 + 1))), s1. split; [exact Hinv1|]. intros f.
      rewrite <- !Nat.add_assoc, Hr1. replace (1 + (n2 + (1 + f))) with (S (n2 + S f)) by lia. rewrite Hs1, <- HQ, Hr2.
      replace (length pre + (len + 2)) with (length R + 3) by lia.
      rewrite (step_nop tabs c below frames free defers is_main s1 f (length R + 3) []) by (rewrite Hnop, <- HR3; apply at0).
      rewrite Hcodelen. replace (S (length R + 3)) with (length pre + (len + 3)) by lia. reflexivity.
    - (* continue: on to the JumpBackward *)
      destruct (vm_block m (Hst m ltac:(lia)) b rho scope k s (base + length kc) Q _ true (length pre) (len + 2) len _ Hinv Hsl Hwb Hib Hkb ltac:(lia) Hinb Erb)
        as [n2 [s1 [Hinv1 Hr2]]].
      pose proof (PF.run_block_length m b rho _ Erb) as Hl1. cbn [PF.lenb_ok] in Hl1.
      apply (Hagain rho1 s1 (n1 + (1 + (n2 + 1))) Hl1 Hinv1); [|exact Hr].
      intros f. rewrite <- !Nat.add_assoc, Hr1. replace (1 + (n2 + (1 + f))) with (S (n2 + S f)) by lia.
      rewrite Hs1, <- HQ, Hr2. rewrite <- HposJ. apply Hjump.
  Qed.


  (* the plain loop `for { b }` *)
  Lemma vm_ploop b base pre post kk k scope :
    instr = pre ++ P.strip (fst (P.stmt_code k scope base (P.SLoop b))) ++ post ->
    consts_at base (snd (P.stmt_code k scope base (P.SLoop b))) ->
    below + P.sneed (P.SLoop b) <= MAXSTACK ->
    P.wf_stmts true kk b = true ->
    forall m, (forall j, j < m -> stmt_vm j) ->
    forall rho s r L bt ct, length rho = kk -> vm_inv rho scope s -> slots_ok k (P.ndecls b) scope s ->
    P.run_stmt m rho (P.SLoop b) = Some r ->
    PF.no_ctl r /\
    after r (good scope s) (good scope s) s
          (length pre) (length pre + length (fst (P.stmt_code k scope base (P.SLoop b)))) L bt ct (fun _ => []).
  Proof.
    intros Hi Hc Hn Hwb.
    rewrite PF.code_SLoop in *. rewrite PF.sneed_SLoop in Hn.
    destruct (P.block_code k scope base b) as [cb kb] eqn:Eb. cbv zeta in *. cbn [fst snd] in *.
    set (inner := cb ++ I [opPopTop]) in *.
    set (len := length cb + 1).
    assert (Hlen : length inner = len) by (unfold inner, len; rewrite !app_length, !I_length; cbn [length]; lia).
    assert (Hjb : nlen inner = N.of_nat len) by (unfold nlen; rewrite Hlen; reflexivity).
    rewrite Hjb in *.
    replace (N.of_nat len + 2)%N with (N.of_nat (len + 2)) in * by lia.
    rewrite strip_app, strip_I, (strip_patch 0 (len + 2) len inner 0%N eq_refl) in Hi.
    unfold inner in Hi. rewrite !npatch_app, !npatch_I in Hi. cbn [length Nat.add] in Hi.
    set (pb := npatch 0 (len + 2) len cb) in *.
    assert (Hlpb : length pb = length cb) by (apply (npatch_length 0); reflexivity).
    set (jb := N.of_nat len) in *.
    assert (Hjbn : N.to_nat jb = len) by (unfold jb; apply Nat2N.id).
    assert (Hcodelen : length (patch 0 (N.of_nat (len + 2)) jb inner ++ I [opJumpBackward; jb; opNop]) = len + 3)
      by (rewrite app_length, patch_length, Hlen, I_length; reflexivity).
    set (R := pre ++ pb).
    assert (HR : length R = length pre + length cb) by (unfold R; rewrite app_length, Hlpb; reflexivity).
    assert (Hib : instr = pre ++ npatch (length pre - length pre) (len + 2) len (fst (P.block_code k scope base b)) ++
                          ([opPopTop] ++ [opJumpBackward; jb; opNop] ++ post)).
    { rewrite Eb. cbn [fst]. rewrite Nat.sub_diag. fold pb. rewrite Hi, <- !app_assoc. reflexivity. }
    assert (Hkb : consts_at base (snd (P.block_code k scope base b))) by (rewrite Eb; exact Hc).
    assert (Hinb : inside true pre (length (fst (P.block_code k scope base b))) (length pre) (len + 2) len).
    { rewrite Eb. cbn [fst]. intros _. unfold len. repeat split; lia. }
    assert (Hpop : instr = R ++ opPopTop :: (opJumpBackward :: jb :: opNop :: post))
      by (rewrite Hi; unfold R; rewrite <- !app_assoc; reflexivity).
    assert (Hjmp : instr = (R ++ [opPopTop]) ++ opJumpBackward :: jb :: (opNop :: post))
      by (rewrite Hi; unfold R; rewrite <- !app_assoc; reflexivity).
    assert (HR1 : length (R ++ [opPopTop]) = S (length R)) by (rewrite app_length; cbn [length]; lia).
    assert (Hnop : instr = (R ++ [opPopTop; opJumpBackward; jb]) ++ opNop :: post)
      by (rewrite Hi; unfold R; rewrite <- !app_assoc; reflexivity).
    assert (HR3 : length (R ++ [opPopTop; opJumpBackward; jb]) = length R + 3) by (rewrite app_length; reflexivity).
    assert (HposJ : S (length R) = length pre + len) by (rewrite HR; unfold len; lia).
    induction m as [|m IH]; intros Hst rho s r L bt ct Hkk Hinv Hsl Hr; [discriminate|].
    rewrite PF.run_SLoop in Hr.
    rewrite <- Hkk in Hwb.
    assert (Hagain : forall rho1 s1 k0, length rho1 = length rho -> good scope s rho1 s1 ->
              (forall f, runs (k0 + f) (length pre) [] s = runs f (length pre) [] s1) ->
              P.run_stmt m rho1 (P.SLoop b) = Some r ->
              PF.no_ctl r /\
              after r (good scope s) (good scope s) s (length pre) (length pre + length (patch 0 (N.of_nat (len + 2)) jb inner ++ I [opJumpBackward; jb; opNop]))
                    L bt ct (fun _ => [])).
    { intros rho1 s1 k0 Hl1 [Hinv1 Hgl1] Hround Hr'.
      destruct (IH ltac:(intros j Hj; apply Hst; lia) rho1 s1 r L bt ct ltac:(lia) Hinv1 (slots_ok_state _ _ _ s s1 Hsl Hgl1) Hr') as [Hno [n3 [s3 Hr3]]].
      split; [exact Hno|]. exists (k0 + n3), s3.
      destruct r as [[rho3 v3]|[x3|rho3|rho3]]; cbn [PF.no_ctl] in Hno; try contradiction.
      - destruct Hr3 as [Hinv3 Hr3]. split; [exact (good_trans _ _ _ _ _ Hgl1 Hinv3)|]. intros f. rewrite <- Nat.add_assoc, Hround. apply Hr3.
      - intros f. rewrite <- Nat.add_assoc, Hround. apply Hr3. }
    assert (Hjump : forall f s1, runs (S f) (S (length R)) [] s1 = runs f (length pre) [] s1).
    { intros f s1. rewrite (step_jumpback f (S (length R)) [] s1) by (rewrite Hjmp, <- HR1; apply at0).
      assert (E : nth (S (length R) + 1) instr 0%N = jb) by (rewrite Hjmp, <- HR1; apply at1).
      rewrite E, Hjbn, HposJ. replace (length pre + len - len) with (length pre) by lia. reflexivity. }
    destruct (PF.run_blk m rho b) as [[[rho1 v1]|[xb|rho1|rho1]]|] eqn:Erb; [| | | |discriminate].
    - destruct (vm_block m (Hst m ltac:(lia)) b rho scope k s base pre _ true (length pre) (len + 2) len _ Hinv Hsl Hwb Hib Hkb ltac:(lia) Hinb Erb)
        as [n2 [s1 [Hinv1 Hr2]]].
      rewrite Eb in Hr2. cbn [fst] in Hr2.
      pose proof (PF.run_block_length m b rho _ Erb) as Hl1. cbn [PF.lenb_ok] in Hl1.
      apply (Hagain rho1 s1 (n2 + (1 + 1)) Hl1 Hinv1); [|exact Hr].
      intros f. rewrite <- !Nat.add_assoc, Hr2, <- HR. replace (1 + (1 + f)) with (S (S f)) by lia.
      rewrite (step_pop (S f) (length R) [] (inj v1) s1) by (rewrite Hpop; apply at0).
      apply Hjump.
    - destruct (vm_block m (Hst m ltac:(lia)) b rho scope k s base pre _ true (length pre) (len + 2) len _ Hinv Hsl Hwb Hib Hkb ltac:(lia) Hinb Erb)
        as [n2 [s1 Hr2]].
      inversion Hr; subst r. split; [exact Logic.I|]. exists n2, s1. exact Hr2.
    - (* break: on to the Nop behind the loop *)
      destruct (vm_block m (Hst m ltac:(lia)) b rho scope k s base pre _ true (length pre) (len + 2) len _ Hinv Hsl Hwb Hib Hkb ltac:(lia) Hinb Erb)
        as [n2 [s1 [Hinv1 Hr2]]].
      inversion Hr; subst r. split; [exact Logic.I|]. exists (n2 + 1), s1. split; [exact Hinv1|]. intros f.
      rewrite <- !Nat.add_assoc, Hr2. cbn [Nat.add].
      replace (length pre + (len + 2)) with (length R + 3) by lia.
      rewrite (step_nop tabs c below frames free defers is_main s1 f (length R + 3) []) by (rewrite Hnop, <- HR3; apply at0).
      rewrite Hcodelen. replace (S (length R + 3)) with (length pre + (len + 3)) by lia. reflexivity.
    - (* continue: on to the JumpBackward *)
      destruct (vm_block m (Hst m ltac:(lia)) b rho scope k s base pre _ true (length pre) (len + 2) len _ Hinv Hsl Hwb Hib Hkb ltac:(lia) Hinb Erb)
        as [n2 [s1 [Hinv1 Hr2]]].
      pose proof (PF.run_block_length m b rho _ Erb) as Hl1. cbn [PF.lenb_ok] in Hl1.
      apply (Hagain rho1 s1 (n2 + 1) Hl1 Hinv1); [|exact Hr].
      intros f. rewrite <- !Nat.add_assoc, Hr2. cbn [Nat.add]. rewrite <- HposJ. apply Hjump.
  Qed.

  (* the rounds of a three-clause loop (after its init clause); [scope] includes the loop variable, k is the next free
     slot; n: the source fuel of body and post; kk: the rounds *)
  Lemma simple_wf_lp lp lp' n p : P.is_simple p = true -> P.wf_stmt lp n p = P.wf_stmt lp' n p.
  Proof. destruct p; try discriminate; reflexivity. Qed.
  Lemma simple_next_scope k scope p : P.is_simple p = true -> P.next_scope k scope p = scope.
  Proof. destruct p; try discriminate; reflexivity. Qed.
  Lemma simple_not_expr p : P.is_simple p = true -> P.is_expr_stmt p = false.
  Proof. destruct p; try discriminate; reflexivity. Qed.

  Lemma vm_floop n cnd p b base pre post kv k scope lp0 cc kc cb kb cp kp :
    stmt_vm n ->
    cexp_in scope base cnd = (cc, kc) -> P.block_code k scope (base + length kc) b = (cb, kb) ->
    P.stmt_code k scope (base + length kc + length kb) p = (cp, kp) ->
    let hl := length cc + 2 in
    let cont := hl + length cb + 1 in
    let jbn := cont + length cp in
    instr = pre ++ cc ++ [opPopJumpForwardIfFalse; N.of_nat (length cb + 1 + length cp + 4)] ++ npatch hl (jbn + 2) cont cb ++
            [opPopTop] ++ P.strip cp ++ [opJumpBackward; N.of_nat jbn] ++ post ->
    consts_at base (kc ++ kb ++ kp) ->
    below + Nat.max (F.need cnd) (Nat.max (P.sneed p) (P.max_need b)) <= MAXSTACK ->
    F.wf kv cnd = true -> P.is_simple p = true -> P.wf_stmt lp0 kv p = true -> P.wf_stmts true kv b = true ->
    forall kk rho s r L bt ct, length rho = kv -> vm_inv rho scope s -> slots_ok k (P.ndecls b) scope s ->
    P.loop3 (P.run_stmt n) cnd p b kk rho = Some r ->
    PF.no_ctl r /\
    after r (good scope s) (good scope s) s (length pre) (length pre + (jbn + 2)) L bt ct (fun _ => []).
  Proof.
    intros Hst Ec Eb Ep hl cont jbn Hi Hc Hn Hwc Hsp Hwp Hwb.
    set (pb := npatch hl (jbn + 2) cont cb) in *.
    assert (Hlpb : length pb = length cb) by (apply (npatch_length hl); reflexivity).
    assert (Hlcp : length (P.strip cp) = length cp) by apply strip_length.
    set (off := N.of_nat (length cb + 1 + length cp + 4)) in *. set (jb := N.of_nat jbn) in *.
    assert (Hoff : N.to_nat off = length cb + 1 + length cp + 4) by (unfold off; apply Nat2N.id).
    assert (Hjbn : N.to_nat jb = jbn) by (unfold jb; apply Nat2N.id).
    set (Pp := pre ++ cc).
    assert (HP : length Pp = length pre + length cc) by (unfold Pp; apply app_length).
    set (Q := Pp ++ [opPopJumpForwardIfFalse; off]).
    assert (HQ : length Q = length pre + hl) by (unfold Q, hl; rewrite app_length, HP; cbn [length]; lia).
    set (R := Q ++ pb).
    assert (HR : length R = length pre + hl + length cb) by (unfold R; rewrite app_length, Hlpb, HQ; reflexivity).
    set (R1 := R ++ [opPopTop]).
    assert (HR1 : length R1 = length pre + cont) by (unfold R1, cont; rewrite app_length, HR; cbn [length]; lia).
    set (R2 := R1 ++ P.strip cp).
    assert (HR2 : length R2 = length pre + jbn) by (unfold R2, jbn; rewrite app_length, HR1, Hlcp; lia).
    assert (Hic : instr = pre ++ fst (cexp_in scope base cnd) ++ ([opPopJumpForwardIfFalse; off] ++ pb ++ [opPopTop] ++ P.strip cp ++ [opJumpBackward; jb] ++ post))
      by (rewrite Ec; cbn [fst]; exact Hi).
    assert (Hkc : consts_at base (snd (cexp_in scope base cnd))) by (rewrite Ec; exact (consts_l kc (kb ++ kp) base Hc)).
    pose proof (consts_r kc (kb ++ kp) base Hc) as Hkrest.
    assert (Hc1 : instr = Pp ++ opPopJumpForwardIfFalse :: off :: (pb ++ [opPopTop] ++ P.strip cp ++ [opJumpBackward; jb] ++ post))
      by (rewrite Hi; unfold Pp; rewrite <- !app_assoc; reflexivity).
    assert (Hib : instr = Q ++ npatch (length Q - length pre) (jbn + 2) cont (fst (P.block_code k scope (base + length kc) b)) ++
                          ([opPopTop] ++ P.strip cp ++ [opJumpBackward; jb] ++ post)).
    { rewrite Eb. cbn [fst]. replace (length Q - length pre) with hl by (rewrite HQ; lia).
      fold pb. rewrite Hi. unfold Q, Pp. rewrite <- !app_assoc. reflexivity. }
    assert (Hkb : consts_at (base + length kc) (snd (P.block_code k scope (base + length kc) b)))
      by (rewrite Eb; exact (consts_l kb kp _ Hkrest)).
    assert (Hinb : inside true Q (length (fst (P.block_code k scope (base + length kc) b))) (length pre) (jbn + 2) cont).
    { rewrite Eb. cbn [fst]. intros _. rewrite HQ. unfold cont, jbn, cont. repeat split; lia. }
    assert (Hnpp : no_ph cp).
    { pose proof (stmt_no_ph (P.sheight p) p kv k scope (base + length kc + length kb) (le_n _)
                    ltac:(rewrite (simple_wf_lp false lp0 kv p Hsp); exact Hwp)) as H0. rewrite Ep in H0. exact H0. }
    assert (Hip : instr = R1 ++ npatch (length R1 - 0) 0 0 (fst (P.stmt_code k scope (base + length kc + length kb) p)) ++ ([opJumpBackward; jb] ++ post)).
    { rewrite Ep. cbn [fst]. rewrite (npatch_no_ph 0 0 cp _ Hnpp). rewrite Hi. unfold R1, R, Q, Pp. rewrite <- !app_assoc. reflexivity. }
    assert (Hkp : consts_at (base + length kc + length kb) (snd (P.stmt_code k scope (base + length kc + length kb) p)))
      by (rewrite Ep; exact (consts_r kb kp _ Hkrest)).
    assert (Hpop : instr = R ++ opPopTop :: (P.strip cp ++ [opJumpBackward; jb] ++ post))
      by (rewrite Hi; unfold R, Q, Pp; rewrite <- !app_assoc; reflexivity).
    assert (Hjmp : instr = R2 ++ opJumpBackward :: jb :: post)
      by (rewrite Hi; unfold R2, R1, R, Q, Pp; rewrite <- !app_assoc; reflexivity).
    assert (Hjump : forall f s1, runs (S f) (length pre + jbn) [] s1 = runs f (length pre) [] s1).
    { intros f s1. rewrite (step_jumpback f (length pre + jbn) [] s1) by (rewrite Hjmp, <- HR2; apply at0).
      assert (E : nth (length pre + jbn + 1) instr 0%N = jb) by (rewrite Hjmp, <- HR2; apply at1).
      rewrite E, Hjbn. replace (length pre + jbn - jbn) with (length pre) by lia. reflexivity. }
    induction kk as [|kk IH]; intros rho s r L bt ct Hkv Hinv Hsl Hr; [discriminate|].
    rewrite PF.loop3_S in Hr.
    pose proof (vm_inv_globals_at rho scope s Hinv) as Hg.
    rewrite <- Hkv in Hwc, Hwp, Hwb.
    destruct (vm_scalar_at tabs c below frames free defers is_main s (P.slot_of scope) rho Hg cnd base pre _ [] Hwc Hic Hkc ltac:(cbn [length]; lia)) as [n1 Hr1].
    rewrite Ec in Hr1. cbn [fst] in Hr1. unfold outcome_of in Hr1. rewrite <- HP in Hr1.
    destruct (F.sev rho cnd) as [vc|xc].
    2:{ inversion Hr; subst r. split; [exact Logic.I|]. exists n1, s. exact Hr1. }
    assert (Hs1 : forall f, runs (S f) (length Pp) [inj vc] s =
                            runs f (if F.struthy vc then length Pp + 2 else length Pp + (length cb + 1 + length cp + 4)) [] s).
    { intros f.
      rewrite (step_popjump tabs c below frames free defers is_main s f (length Pp) [] (inj vc) (F.struthy vc) opPopJumpForwardIfFalse);
        [|rewrite Hc1; apply at0|auto|apply truthy_inj].
      assert (E : nth (length Pp + 1) instr 0%N = off) by (rewrite Hc1; apply at1).
      rewrite E, Hoff. change (opPopJumpForwardIfFalse =? 12)%N with true. cbn iota.
      destruct (F.struthy vc); reflexivity. }
    destruct (F.struthy vc) eqn:Etr.
    2:{ (* the loop ends *)
        inversion Hr; subst r. split; [exact Logic.I|]. exists (n1 + 1), s. split; [split; [exact Hinv|reflexivity]|]. intros f.
        rewrite <- Nat.add_assoc, Hr1. cbn [Nat.add]. rewrite Hs1, HP. f_equal. unfold jbn, cont, hl. lia. }
    (* after the body: PopTop is done, the machine is at the post statement with the variables rho1 *)
    assert (Hafter : forall rho1 s1 k0, length rho1 = length rho -> good scope s rho1 s1 ->
              (forall f, runs (k0 + f) (length pre) [] s = runs f (length pre + cont) [] s1) ->
              match P.run_stmt n rho1 p with Some (inl (rho2, _)) => P.loop3 (P.run_stmt n) cnd p b kk rho2 | other => other end = Some r ->
              PF.no_ctl r /\ after r (good scope s) (good scope s) s (length pre) (length pre + (jbn + 2)) L bt ct (fun _ => [])).
    { intros rho1 s1 k0 Hl1 [Hinv1 Hgl1] Hround H.
      destruct (P.run_stmt n rho1 p) as [rp|] eqn:Erp; [|discriminate].
      pose proof (PF.simple_res n rho1 p rp Hsp Erp) as Hres.
      assert (Hslp : slots_ok k (P.nd p) scope s1).
      { rewrite (PF.nd_simple p Hsp). apply (slots_ok_state _ _ _ s); [|exact Hgl1]. apply (slots_ok_less _ _ _ _ _ Hsl). lia. }
      assert (Hwp1 : P.wf_stmt false (length rho1) p = true) by (rewrite Hl1, (simple_wf_lp false lp0 _ p Hsp); exact Hwp).
      destruct (Hst p rho1 scope k s1 (base + length kc + length kb) R1 _ false 0 0 0 rp Hinv1 Hslp Hwp1 Hip Hkp ltac:(lia)
                  ltac:(intros Hx; discriminate) Erp) as [n3 [s3 Hr3]].
      rewrite Ep in Hr3. cbn [fst] in Hr3. rewrite (simple_next_scope k scope p Hsp), (simple_not_expr p Hsp), HR1 in Hr3.
      destruct rp as [[rho2 v2]|[x|rho2|rho2]]; cbn [PF.same_len] in Hres; try contradiction.
      - destruct Hr3 as [[Hinv2 Hgl2] Hr3]. destruct Hres as [Hl2 _].
        assert (Hgl2' : length (globals s3) = length (globals s)) by congruence.
        destruct (IH rho2 s3 r L bt ct ltac:(lia) Hinv2 (slots_ok_state _ _ _ s s3 Hsl Hgl2') H) as [Hno [n4 [s4 Hr4]]].
        split; [exact Hno|]. exists (k0 + (n3 + (1 + n4))), s4.
        assert (Hgo : forall f, runs (k0 + (n3 + (1 + n4)) + f) (length pre) [] s = runs (n4 + f) (length pre) [] s3).
        { intros f. rewrite <- !Nat.add_assoc, Hround, Hr3.
          replace (length pre + cont + length cp) with (length pre + jbn) by (unfold jbn; lia).
          replace (1 + (n4 + f)) with (S (n4 + f)) by lia. apply Hjump. }
        destruct r as [[rho3 v3]|[x3|rho3|rho3]]; cbn [PF.no_ctl] in Hno; try contradiction.
        + destruct Hr4 as [Hinv4 Hr4]. split; [exact (good_trans _ _ _ _ _ Hgl2' Hinv4)|]. intros f. rewrite Hgo. apply Hr4.
        + intros f. rewrite Hgo. apply Hr4.
      - inversion H; subst r. split; [exact Logic.I|]. exists (k0 + n3), s3. intros f. rewrite <- Nat.add_assoc, Hround. apply Hr3. }
    destruct (PF.run_blk n rho b) as [[[rho1 v1]|[xb|rho1|rho1]]|] eqn:Erb; [| | | |discriminate].
    - destruct (vm_block n Hst b rho scope k s (base + length kc) Q _ true (length pre) (jbn + 2) cont _ Hinv Hsl Hwb Hib Hkb ltac:(lia) Hinb Erb)
        as [n2 [s1 [Hinv1 Hr2]]].
      rewrite Eb in Hr2. cbn [fst] in Hr2.
      pose proof (PF.run_block_length n b rho _ Erb) as Hl1. cbn [PF.lenb_ok] in Hl1.
      apply (Hafter rho1 s1 (n1 + (1 + (n2 + 1))) Hl1 Hinv1); [|exact Hr].
      intros f. rewrite <- !Nat.add_assoc, Hr1. replace (1 + (n2 + (1 + f))) with (S (n2 + (S f))) by lia.
      rewrite Hs1, HP. replace (length pre + length cc + 2) with (length Q) by (rewrite HQ; unfold hl; lia). rewrite Hr2.
      replace (length Q + length cb) with (length R) by (rewrite HR, HQ; reflexivity).
      rewrite (step_pop f (length R) [] (inj v1) s1) by (rewrite Hpop; apply at0).
      f_equal. rewrite HR. unfold cont. lia.
    - destruct (vm_block n Hst b rho scope k s (base + length kc) Q _ true (length pre) (jbn + 2) cont _ Hinv Hsl Hwb Hib Hkb ltac:(lia) Hinb Erb)
        as [n2 [s1 Hr2]].
      inversion Hr; subst r. split; [exact Logic.I|]. exists (n1 + (1 + n2)), s1. intros f.
      rewrite <- Nat.add_assoc, Hr1. replace (1 + n2 + f) with (S (n2 + f)) by lia. rewrite Hs1, HP.
      replace (length pre + length cc + 2) with (length Q) by (rewrite HQ; unfold hl; lia). apply Hr2.
    - (* break: on to the instruction behind the JumpBackward *)
      destruct (vm_block n Hst b rho scope k s (base + length kc) Q _ true (length pre) (jbn + 2) cont _ Hinv Hsl Hwb Hib Hkb ltac:(lia) Hinb Erb)
        as [n2 [s1 [Hinv1 Hr2]]].
      inversion Hr; subst r. split; [exact Logic.I|]. exists (n1 + (1 + n2)), s1. split; [exact Hinv1|]. intros f.
      rewrite <- !Nat.add_assoc, Hr1. replace (1 + (n2 + f)) with (S (n2 + f)) by lia. rewrite Hs1, HP.
      replace (length pre + length cc + 2) with (length Q) by (rewrite HQ; unfold hl; lia). apply Hr2.
    - (* continue: on to the post statement *)
      destruct (vm_block n Hst b rho scope k s (base + length kc) Q _ true (length pre) (jbn + 2) cont _ Hinv Hsl Hwb Hib Hkb ltac:(lia) Hinb Erb)
        as [n2 [s1 [Hinv1 Hr2]]].
      pose proof (PF.run_block_length n b rho _ Erb) as Hl1. cbn [PF.lenb_ok] in Hl1.
      apply (Hafter rho1 s1 (n1 + (1 + n2)) Hl1 Hinv1); [|exact Hr].
      intros f. rewrite <- !Nat.add_assoc, Hr1. replace (1 + (n2 + f)) with (S (n2 + f)) by lia. rewrite Hs1, HP.
      replace (length pre + length cc + 2) with (length Q) by (rewrite HQ; unfold hl; lia). apply Hr2.
  Qed.

  Theorem vm_stmt : forall n, stmt_vm n.
  Proof.
    induction n as [n IH] using lt_wf_ind.
    destruct n as [|n]; [intros st rho scope k s base pre post lp L bt ct r _ _ _ _ _ _ _ Hr; discriminate|].
    intros st rho scope k s base pre post lp L bt ct r Hinv Hsl Hwf Hi Hc Hn Hin Hr.
    destruct st as [e|i e|i o e|i up|e|cnd t el|cnd t|cnd b|b|e cnd p b| |].
    - (* x := e *)
      cbn [P.stmt_code P.wf_stmt P.is_expr_stmt P.run_stmt P.sneed P.nd P.next_scope] in *.
      destruct (cexp_in scope base e) as [ce ke] eqn:Ee. cbn [fst snd] in *. rewrite npatch_I in Hi. rewrite I_length.
      assert (Hi' : instr = pre ++ fst (cexp_in scope base e) ++ [opStoreGlobal; N.of_nat k] ++ post)
        by (rewrite Ee; cbn [fst]; rewrite Hi, <- !app_assoc; reflexivity).
      assert (Hc' : consts_at base (snd (cexp_in scope base e))) by (rewrite Ee; exact Hc).
      destruct (vm_store rho scope s e base pre post k Hinv Hwf Hi' Hc' Hn) as [k1 Hk].
      rewrite Ee in Hk. cbn [fst] in Hk.
      destruct (F.sev rho e) as [v|x]; cbn [P.of_sev] in Hr; inversion Hr; subst r.
      + exists k1, (upd_globals s (lset (globals s) k (inj v))).
        split; [split; [apply vm_inv_decl; assumption|apply length_lset]|exact Hk].
      + exists k1, s. exact Hk.
    - (* x = e *)
      cbn [P.stmt_code P.wf_stmt P.is_expr_stmt P.run_stmt P.sneed P.nd P.next_scope] in *.
      apply andb_true_iff in Hwf. destruct Hwf as [Hilt Hwf]. apply Nat.ltb_lt in Hilt.
      destruct (cexp_in scope base e) as [ce ke] eqn:Ee. cbn [fst snd] in *. rewrite npatch_I in Hi. rewrite I_length.
      assert (Hi' : instr = pre ++ fst (cexp_in scope base e) ++ [opStoreGlobal; N.of_nat (P.slot_of scope i)] ++ post)
        by (rewrite Ee; cbn [fst]; rewrite Hi, <- !app_assoc; reflexivity).
      assert (Hc' : consts_at base (snd (cexp_in scope base e))) by (rewrite Ee; exact Hc).
      destruct (vm_store rho scope s e base pre post (P.slot_of scope i) Hinv Hwf Hi' Hc' Hn) as [k1 Hk].
      rewrite Ee in Hk. cbn [fst] in Hk.
      destruct (F.sev rho e) as [v|x]; cbn [P.of_sev] in Hr; inversion Hr; subst r.
      + exists k1, (upd_globals s (lset (globals s) (P.slot_of scope i) (inj v))).
        split; [split; [apply vm_inv_set; assumption|apply length_lset]|exact Hk].
      + exists k1, s. exact Hk.
    - (* x op= e *)
      cbn [P.stmt_code P.wf_stmt P.is_expr_stmt P.run_stmt P.sneed P.nd P.next_scope] in *.
      apply andb_true_iff in Hwf. destruct Hwf as [Hwf Ho]. apply andb_true_iff in Hwf. destruct Hwf as [Hilt Hwf]. apply Nat.ltb_lt in Hilt.
      destruct (cexp_in scope base e) as [ce ke] eqn:Ee. cbn [fst snd] in *. rewrite npatch_I in Hi. rewrite I_length.
      assert (Hi' : instr = pre ++ ([opLoadGlobal; N.of_nat (P.slot_of scope i)] ++ fst (cexp_in scope base e) ++ F.op_code o ++ [opStoreGlobal; N.of_nat (P.slot_of scope i)]) ++ post)
        by (rewrite Ee; cbn [fst]; exact Hi).
      assert (Hc' : consts_at base (snd (cexp_in scope base e))) by (rewrite Ee; exact Hc).
      destruct (vm_setop rho scope s i o e base pre post Hinv Hilt Ho Hwf Hi' Hc' Hn) as [k1 Hk].
      rewrite Ee in Hk. cbn [fst] in Hk.
      destruct (F.sev rho e) as [v|x]; [|inversion Hr; subst r; exists k1, s; exact Hk].
      destruct (F.sbin o (nth i rho F.VNil) v) as [rv|x]; cbn [P.of_sev] in Hr; inversion Hr; subst r.
      + exists k1, (upd_globals s (lset (globals s) (P.slot_of scope i) (inj rv))). split; [split; [apply vm_inv_set; assumption|apply length_lset]|exact Hk].
      + exists k1, s. exact Hk.
    - (* x++ / x-- *)
      cbn [P.stmt_code P.wf_stmt P.is_expr_stmt P.run_stmt P.sneed P.nd P.next_scope fst snd] in *. apply Nat.ltb_lt in Hwf.
      rewrite npatch_I in Hi. rewrite I_length. cbn [length].
      assert (Hk0 : nth base (code_consts c) (KInt 0) = KInt (if up then 1 else -1)).
      { pose proof (Hc 0 (KInt (if up then 1 else -1)) eq_refl) as H0. rewrite Nat.add_0_r in H0. exact H0. }
      destruct (vm_incdec rho scope s i up base pre post Hinv Hwf Hi Hk0 ltac:(lia)) as [k1 Hk].
      destruct (F.sbin F.BAdd (nth i rho F.VNil) (F.VInt (if up then 1 else -1))) as [rv|x]; cbn [P.of_sev] in Hr; inversion Hr; subst r.
      + exists k1, (upd_globals s (lset (globals s) (P.slot_of scope i) (inj rv))). split; [split; [apply vm_inv_set; assumption|apply length_lset]|exact Hk].
      + exists k1, s. exact Hk.
    - (* e *)
      cbn [P.stmt_code P.wf_stmt P.is_expr_stmt P.run_stmt P.sneed P.nd P.next_scope fst snd] in *.
      destruct (cexp_in scope base e) as [ce ke] eqn:Ee. cbn [fst snd] in *.
      rewrite npatch_I in Hi. rewrite I_length.
      pose proof (vm_inv_globals_at rho scope s Hinv) as Hg.
      assert (Hi' : instr = pre ++ fst (cexp_in scope base e) ++ post) by (rewrite Ee; exact Hi).
      assert (Hc' : consts_at base (snd (cexp_in scope base e))) by (rewrite Ee; exact Hc).
      destruct (vm_scalar_at tabs c below frames free defers is_main s (P.slot_of scope) rho Hg e base pre post [] Hwf Hi' Hc' ltac:(cbn [length]; lia)) as [k1 Hk].
      rewrite Ee in Hk. cbn [fst] in Hk.
      unfold outcome_of in Hk. exists k1, s.
      destruct (F.sev rho e) as [v|x]; cbn [P.of_sev] in Hr; inversion Hr; subst r; [split; [split; [exact Hinv|reflexivity]|]|]; exact Hk.
    - (* if *)
      pose proof (vm_inv_globals_at rho scope s Hinv) as Hg.
      rewrite PF.wf_SIf in Hwf. apply andb_true_iff in Hwf. destruct Hwf as [Hwct Hwe].
      apply andb_true_iff in Hwct. destruct Hwct as [Hwc Hwt].
      rewrite PF.code_SIf in *. rewrite PF.sneed_SIf in Hn. rewrite PF.run_SIf in Hr. rewrite PF.nd_SIf in Hsl.
      assert (Hslt : slots_ok k (P.ndecls t) scope s) by (apply (slots_ok_less _ _ _ _ _ Hsl); lia).
      assert (Hsle : slots_ok (k + P.ndecls t) (P.ndecls el) scope s) by (apply slots_ok_shift; exact Hsl).
      cbn [P.next_scope P.is_expr_stmt] in *.
      destruct (cexp_in scope base cnd) as [cc kc] eqn:Ec.
      destruct (P.block_code k scope (base + length kc) t) as [ct0 kt] eqn:Et.
      destruct (P.block_code (k + P.ndecls t) scope (base + length kc + length kt) el) as [ce0 ke] eqn:Ee. cbn [fst snd] in *.
      set (o := length pre - L) in *.
      rewrite !npatch_app, !npatch_I, !I_length in Hi. cbn [length] in Hi.
      set (pt := npatch (o + length cc + 2) bt ct ct0) in *.
      set (pe := npatch (o + length cc + 2 + length ct0 + 2) bt ct ce0) in *.
      assert (Hlpt : length pt = length ct0) by (apply (npatch_length (o + length cc + 2)); reflexivity).
      assert (Hlpe : length pe = length ce0) by (apply (npatch_length (o + length cc + 2 + length ct0 + 2)); reflexivity).
      set (offF := (nlen ct0 + 4)%N) in *. set (offJ := (nlen ce0 + 2)%N) in *.
      assert (HoffF : N.to_nat offF = length ct0 + 4) by (unfold offF, nlen; rewrite N2Nat.inj_add, Nat2N.id; reflexivity).
      assert (HoffJ : N.to_nat offJ = length ce0 + 2) by (unfold offJ, nlen; rewrite N2Nat.inj_add, Nat2N.id; reflexivity).
      assert (Hlen : length (I cc ++ I [opPopJumpForwardIfFalse; offF] ++ ct0 ++ I [opJumpForward; offJ] ++ ce0) =
                     length cc + 2 + length ct0 + 2 + length ce0) by (rewrite !app_length, !I_length; cbn [length]; lia).
      rewrite Hlen in Hin |- *.
      (* the condition *)
      assert (Hic : instr = pre ++ fst (cexp_in scope base cnd) ++ ([opPopJumpForwardIfFalse; offF] ++ pt ++ [opJumpForward; offJ] ++ pe ++ post))
        by (rewrite Ec; cbn [fst]; rewrite Hi, <- !app_assoc; reflexivity).
      assert (Hkc : consts_at base (snd (cexp_in scope base cnd))) by (rewrite Ec; exact (consts_l kc (kt ++ ke) base Hc)).
      destruct (vm_scalar_at tabs c below frames free defers is_main s (P.slot_of scope) rho Hg cnd base pre _ [] Hwc Hic Hkc ltac:(cbn [length]; lia)) as [n1 Hr1].
      rewrite Ec in Hr1. cbn [fst] in Hr1. unfold outcome_of in Hr1.
      destruct (F.sev rho cnd) as [vc|xc].
      2:{ inversion Hr; subst r. exists n1, s. exact Hr1. }
      set (Pp := pre ++ cc).
      assert (HP : length Pp = length pre + length cc) by (unfold Pp; apply app_length).
      assert (Hc1 : instr = Pp ++ opPopJumpForwardIfFalse :: offF :: (pt ++ [opJumpForward; offJ] ++ pe ++ post))
        by (rewrite Hi; unfold Pp; rewrite <- !app_assoc; reflexivity).
      assert (Hs1 : forall f, runs (S f) (length Pp) [inj vc] s =
                              runs f (if F.struthy vc then length Pp + 2 else length Pp + (length ct0 + 4)) [] s).
      { intros f.
        rewrite (step_popjump tabs c below frames free defers is_main s f (length Pp) [] (inj vc) (F.struthy vc) opPopJumpForwardIfFalse);
          [|rewrite Hc1; apply at0|auto|apply truthy_inj].
        assert (E : nth (length Pp + 1) instr 0%N = offF) by (rewrite Hc1; apply at1).
        rewrite E, HoffF. change (opPopJumpForwardIfFalse =? 12)%N with true. cbn iota.
        destruct (F.struthy vc); reflexivity. }
      pose proof (consts_r kc (kt ++ ke) base Hc) as Hkrest.
      destruct (F.struthy vc) eqn:Etr.
      + (* then-branch, followed by the jump over the else-branch *)
        set (Q := Pp ++ [opPopJumpForwardIfFalse; offF]).
        assert (HQ : length Q = length Pp + 2) by (unfold Q; rewrite app_length; reflexivity).
        assert (Hpt : pt = npatch (length Q - L) bt ct ct0).
        { unfold pt. apply (npatch_off lp).
          - intros Hl. destruct (Hin Hl) as [H1 _]. rewrite HQ, HP. unfold o. lia.
          - intros Hl. subst lp. pose proof (block_code_no_ph t (length rho) k scope (base + length kc) Hwt) as H0. rewrite Et in H0. exact H0. }
        assert (Hit : instr = Q ++ npatch (length Q - L) bt ct (fst (P.block_code k scope (base + length kc) t)) ++ ([opJumpForward; offJ] ++ pe ++ post))
          by (rewrite Et; cbn [fst]; rewrite <- Hpt, Hi; unfold Q, Pp; rewrite <- !app_assoc; reflexivity).
        assert (Hkt : consts_at (base + length kc) (snd (P.block_code k scope (base + length kc) t)))
          by (rewrite Et; exact (consts_l kt ke _ Hkrest)).
        assert (Hint : inside lp Q (length (fst (P.block_code k scope (base + length kc) t))) L bt ct).
        { rewrite Et. cbn [fst]. intros Hl. destruct (Hin Hl) as [H1 [H2 H3]]. rewrite HQ, HP. repeat split; lia. }
        destruct (vm_block n (IH n ltac:(lia)) t rho scope k s (base + length kc) Q _ lp L bt ct r Hinv Hslt Hwt Hit Hkt ltac:(lia) Hint Hr) as [n2 [s2 Hr2]].
        rewrite Et in Hr2. cbn [fst] in Hr2. rewrite HQ in Hr2.
        assert (Hpre : forall f, runs (n1 + (1 + (n2 + f))) (length pre) [] s = runs (n2 + f) (length Pp + 2) [] s).
        { intros f. rewrite Hr1, <- HP. replace (1 + (n2 + f)) with (S (n2 + f)) by lia. apply Hs1. }
        destruct r as [[rho' v]|[x|rho'|rho']].
        * destruct Hr2 as [Hinv2 Hr2].
          exists (n1 + (1 + (n2 + 1))), s2. split; [exact Hinv2|]. intros f.
          rewrite <- !Nat.add_assoc, Hpre, Hr2. cbn [Nat.add].
          assert (Hj : instr = (Q ++ pt) ++ opJumpForward :: offJ :: (pe ++ post))
            by (rewrite Hi; unfold Q, Pp; rewrite <- !app_assoc; reflexivity).
          assert (HQt : length (Q ++ pt) = length Pp + 2 + length ct0) by (rewrite app_length, HQ, Hlpt; reflexivity).
          rewrite (step_jump tabs c below frames free defers is_main s2 f (length Pp + 2 + length ct0) [inj v]); [|rewrite Hj, <- HQt; apply at0].
          assert (E : nth (length Pp + 2 + length ct0 + 1) instr 0%N = offJ) by (rewrite Hj, <- HQt; apply at1).
          rewrite E, HoffJ.
          f_equal; rewrite ?HP; cbn [length]; lia.
        * exists (n1 + (1 + n2)), s2. intros f. rewrite <- !Nat.add_assoc, Hpre. exact (Hr2 f).
        * destruct Hr2 as [Hinv2 Hr2]. exists (n1 + (1 + n2)), s2. split; [exact Hinv2|]. intros f. rewrite <- !Nat.add_assoc, Hpre. exact (Hr2 f).
        * destruct Hr2 as [Hinv2 Hr2]. exists (n1 + (1 + n2)), s2. split; [exact Hinv2|]. intros f. rewrite <- !Nat.add_assoc, Hpre. exact (Hr2 f).
      + (* else-branch *)
        set (Q := Pp ++ [opPopJumpForwardIfFalse; offF] ++ pt ++ [opJumpForward; offJ]).
        assert (HQ : length Q = length Pp + (length ct0 + 4)) by (unfold Q; rewrite !app_length, Hlpt; cbn [length]; lia).
        assert (Hpe : pe = npatch (length Q - L) bt ct ce0).
        { unfold pe. apply (npatch_off lp).
          - intros Hl. destruct (Hin Hl) as [H1 _]. rewrite HQ, HP. unfold o. lia.
          - intros Hl. subst lp. pose proof (block_code_no_ph el (length rho) (k + P.ndecls t) scope (base + length kc + length kt) Hwe) as H0. rewrite Ee in H0. exact H0. }
        assert (Hie : instr = Q ++ npatch (length Q - L) bt ct (fst (P.block_code (k + P.ndecls t) scope (base + length kc + length kt) el)) ++ post)
          by (rewrite Ee; cbn [fst]; rewrite <- Hpe, Hi; unfold Q, Pp; rewrite <- !app_assoc; reflexivity).
        assert (Hke : consts_at (base + length kc + length kt) (snd (P.block_code (k + P.ndecls t) scope (base + length kc + length kt) el)))
          by (rewrite Ee; exact (consts_r kt ke _ Hkrest)).
        assert (Hine : inside lp Q (length (fst (P.block_code (k + P.ndecls t) scope (base + length kc + length kt) el))) L bt ct).
        { rewrite Ee. cbn [fst]. intros Hl. destruct (Hin Hl) as [H1 [H2 H3]]. rewrite HQ, HP. repeat split; lia. }
        destruct (vm_block n (IH n ltac:(lia)) el rho scope (k + P.ndecls t) s (base + length kc + length kt) Q post lp L bt ct r Hinv Hsle Hwe Hie Hke ltac:(lia) Hine Hr) as [n2 [s2 Hr2]].
        rewrite Ee in Hr2. cbn [fst] in Hr2. rewrite HQ in Hr2.
        assert (Hpre : forall f, runs (n1 + (1 + (n2 + f))) (length pre) [] s = runs (n2 + f) (length Pp + (length ct0 + 4)) [] s).
        { intros f. rewrite Hr1, <- HP. replace (1 + (n2 + f)) with (S (n2 + f)) by lia. apply Hs1. }
        exists (n1 + (1 + n2)), s2.
        destruct r as [[rho' v]|[x|rho'|rho']].
        * destruct Hr2 as [Hinv2 Hr2]. split; [exact Hinv2|]. intros f. rewrite <- !Nat.add_assoc, Hpre, Hr2.
          f_equal; rewrite ?HP; cbn [length]; lia.
        * intros f. rewrite <- !Nat.add_assoc, Hpre. exact (Hr2 f).
        * destruct Hr2 as [Hinv2 Hr2]. split; [exact Hinv2|]. intros f. rewrite <- !Nat.add_assoc, Hpre. exact (Hr2 f).
        * destruct Hr2 as [Hinv2 Hr2]. split; [exact Hinv2|]. intros f. rewrite <- !Nat.add_assoc, Hpre. exact (Hr2 f).
    - (* if without else: the else-branch is a lone Nil *)
      pose proof (vm_inv_globals_at rho scope s Hinv) as Hg.
      rewrite PF.wf_SIf1 in Hwf. apply andb_true_iff in Hwf. destruct Hwf as [Hwc Hwt].
      rewrite PF.code_SIf1 in *. rewrite PF.sneed_SIf1 in Hn. rewrite PF.run_SIf1 in Hr. rewrite PF.nd_SIf1 in Hsl.
      assert (Hslt : slots_ok k (P.ndecls t) scope s) by exact Hsl.
      cbn [P.next_scope P.is_expr_stmt] in *.
      destruct (cexp_in scope base cnd) as [cc kc] eqn:Ec.
      destruct (P.block_code k scope (base + length kc) t) as [ct0 kt] eqn:Et. cbn [fst snd] in *.
      set (o := length pre - L) in *.
      rewrite !npatch_app, !npatch_I, !I_length in Hi. cbn [length] in Hi.
      set (pt := npatch (o + length cc + 2) bt ct ct0) in *.
      assert (Hlpt : length pt = length ct0) by (apply (npatch_length (o + length cc + 2)); reflexivity).
      set (offF := (nlen ct0 + 4)%N) in *.
      assert (HoffF : N.to_nat offF = length ct0 + 4) by (unfold offF, nlen; rewrite N2Nat.inj_add, Nat2N.id; reflexivity).
      assert (Hlen : length (I cc ++ I [opPopJumpForwardIfFalse; offF] ++ ct0 ++ I [opJumpForward; 3%N] ++ I [opNil]) =
                     length cc + 2 + length ct0 + 2 + 1) by (rewrite !app_length, !I_length; cbn [length]; lia).
      rewrite Hlen in Hin |- *.
      assert (Hic : instr = pre ++ fst (cexp_in scope base cnd) ++ ([opPopJumpForwardIfFalse; offF] ++ pt ++ [opJumpForward; 3%N] ++ [opNil] ++ post))
        by (rewrite Ec; cbn [fst]; rewrite Hi, <- !app_assoc; reflexivity).
      assert (Hkc : consts_at base (snd (cexp_in scope base cnd))) by (rewrite Ec; exact (consts_l kc kt base Hc)).
      destruct (vm_scalar_at tabs c below frames free defers is_main s (P.slot_of scope) rho Hg cnd base pre _ [] Hwc Hic Hkc ltac:(cbn [length]; lia)) as [n1 Hr1].
      rewrite Ec in Hr1. cbn [fst] in Hr1. unfold outcome_of in Hr1.
      destruct (F.sev rho cnd) as [vc|xc].
      2:{ inversion Hr; subst r. exists n1, s. exact Hr1. }
      set (Pp := pre ++ cc).
      assert (HP : length Pp = length pre + length cc) by (unfold Pp; apply app_length).
      assert (Hc1 : instr = Pp ++ opPopJumpForwardIfFalse :: offF :: (pt ++ [opJumpForward; 3%N] ++ [opNil] ++ post))
        by (rewrite Hi; unfold Pp; rewrite <- !app_assoc; reflexivity).
      assert (Hs1 : forall f, runs (S f) (length Pp) [inj vc] s =
                              runs f (if F.struthy vc then length Pp + 2 else length Pp + (length ct0 + 4)) [] s).
      { intros f.
        rewrite (step_popjump tabs c below frames free defers is_main s f (length Pp) [] (inj vc) (F.struthy vc) opPopJumpForwardIfFalse);
          [|rewrite Hc1; apply at0|auto|apply truthy_inj].
        assert (E : nth (length Pp + 1) instr 0%N = offF) by (rewrite Hc1; apply at1).
        rewrite E, HoffF. change (opPopJumpForwardIfFalse =? 12)%N with true. cbn iota.
        destruct (F.struthy vc); reflexivity. }
      destruct (F.struthy vc) eqn:Etr.
      + (* the block, followed by the jump over the Nil *)
        set (Q := Pp ++ [opPopJumpForwardIfFalse; offF]).
        assert (HQ : length Q = length Pp + 2) by (unfold Q; rewrite app_length; reflexivity).
        assert (Hpt : pt = npatch (length Q - L) bt ct ct0).
        { unfold pt. apply (npatch_off lp).
          - intros Hl. destruct (Hin Hl) as [H1 _]. rewrite HQ, HP. unfold o. lia.
          - intros Hl. subst lp. pose proof (block_code_no_ph t (length rho) k scope (base + length kc) Hwt) as H0. rewrite Et in H0. exact H0. }
        assert (Hit : instr = Q ++ npatch (length Q - L) bt ct (fst (P.block_code k scope (base + length kc) t)) ++ ([opJumpForward; 3%N] ++ [opNil] ++ post))
          by (rewrite Et; cbn [fst]; rewrite <- Hpt, Hi; unfold Q, Pp; rewrite <- !app_assoc; reflexivity).
        assert (Hkt : consts_at (base + length kc) (snd (P.block_code k scope (base + length kc) t)))
          by (rewrite Et; exact (consts_r kc kt base Hc)).
        assert (Hint : inside lp Q (length (fst (P.block_code k scope (base + length kc) t))) L bt ct).
        { rewrite Et. cbn [fst]. intros Hl. destruct (Hin Hl) as [H1 [H2 H3]]. rewrite HQ, HP. repeat split; lia. }
        destruct (vm_block n (IH n ltac:(lia)) t rho scope k s (base + length kc) Q _ lp L bt ct r Hinv Hslt Hwt Hit Hkt ltac:(lia) Hint Hr) as [n2 [s2 Hr2]].
        rewrite Et in Hr2. cbn [fst] in Hr2. rewrite HQ in Hr2.
        assert (Hpre : forall f, runs (n1 + (1 + (n2 + f))) (length pre) [] s = runs (n2 + f) (length Pp + 2) [] s).
        { intros f. rewrite Hr1, <- HP. replace (1 + (n2 + f)) with (S (n2 + f)) by lia. apply Hs1. }
        destruct r as [[rho' v]|[x|rho'|rho']].
        * destruct Hr2 as [Hinv2 Hr2].
          exists (n1 + (1 + (n2 + 1))), s2. split; [exact Hinv2|]. intros f.
          rewrite <- !Nat.add_assoc, Hpre, Hr2. cbn [Nat.add].
          assert (Hj : instr = (Q ++ pt) ++ opJumpForward :: 3%N :: ([opNil] ++ post))
            by (rewrite Hi; unfold Q, Pp; rewrite <- !app_assoc; reflexivity).
          assert (HQt : length (Q ++ pt) = length Pp + 2 + length ct0) by (rewrite app_length, HQ, Hlpt; reflexivity).
          rewrite (step_jump tabs c below frames free defers is_main s2 f (length Pp + 2 + length ct0) [inj v]); [|rewrite Hj, <- HQt; apply at0].
          assert (E : nth (length Pp + 2 + length ct0 + 1) instr 0%N = 3%N) by (rewrite Hj, <- HQt; apply at1).
          rewrite E. change (N.to_nat 3) with 3.
          f_equal; rewrite ?HP; cbn [length]; lia.
        * exists (n1 + (1 + n2)), s2. intros f. rewrite <- !Nat.add_assoc, Hpre. exact (Hr2 f).
        * destruct Hr2 as [Hinv2 Hr2]. exists (n1 + (1 + n2)), s2. split; [exact Hinv2|]. intros f. rewrite <- !Nat.add_assoc, Hpre. exact (Hr2 f).
        * destruct Hr2 as [Hinv2 Hr2]. exists (n1 + (1 + n2)), s2. split; [exact Hinv2|]. intros f. rewrite <- !Nat.add_assoc, Hpre. exact (Hr2 f).
      + (* the condition is false: Nil *)
        inversion Hr; subst r. clear Hr.
        set (Q := Pp ++ [opPopJumpForwardIfFalse; offF] ++ pt ++ [opJumpForward; 3%N]).
        assert (HQ : length Q = length Pp + (length ct0 + 4)) by (unfold Q; rewrite !app_length, Hlpt; cbn [length]; lia).
        assert (Hnil : instr = Q ++ opNil :: post) by (rewrite Hi; unfold Q, Pp; rewrite <- !app_assoc; reflexivity).
        exists (n1 + (1 + 1)), s. split; [split; [exact Hinv|reflexivity]|]. intros f.
        rewrite <- Nat.add_assoc, Hr1, <- HP. replace (1 + 1 + f) with (S (S f)) by lia. rewrite Hs1, <- HQ.
        rewrite (step_push tabs c below frames free defers is_main s f (length Q) [] opNil VNil);
          [|rewrite Hnil; apply at0|auto|pose proof (PF.need_pos cnd); cbn [length]; lia].
        rewrite HQ.
        f_equal; rewrite ?HP; cbn [length]; lia.
    - (* for *)
      rewrite PF.wf_SWhile in Hwf. apply andb_true_iff in Hwf. destruct Hwf as [Hwc Hwb].
      cbn [P.next_scope P.is_expr_stmt] in *.
      assert (Hnp : no_ph (fst (P.stmt_code k scope base (P.SWhile cnd b)))).
      { rewrite PF.code_SWhile. destruct (cexp_in scope base cnd). destruct (P.block_code k scope (base + length l0) b).
        cbv zeta. cbn [fst]. apply no_ph_app; [apply no_ph_patch|apply no_ph_I]. }
      rewrite (npatch_no_ph bt ct _ _ Hnp) in Hi.
      rewrite PF.nd_SWhile in Hsl.
      exact (proj2 (vm_loop cnd b base pre post (length rho) k scope Hi Hc Hn Hwc Hwb (S n) ltac:(intros j Hj; apply IH; lia)
                     rho s r L bt ct eq_refl Hinv Hsl Hr)).
    - (* for { b } *)
      rewrite PF.wf_SLoop in Hwf.
      cbn [P.next_scope P.is_expr_stmt] in *.
      assert (Hnp : no_ph (fst (P.stmt_code k scope base (P.SLoop b)))).
      { rewrite PF.code_SLoop. destruct (P.block_code k scope base b).
        cbv zeta. cbn [fst]. apply no_ph_app; [apply no_ph_patch|apply no_ph_I]. }
      rewrite (npatch_no_ph bt ct _ _ Hnp) in Hi.
      rewrite PF.nd_SLoop in Hsl.
      exact (proj2 (vm_ploop b base pre post (length rho) k scope Hi Hc Hn Hwf (S n) ltac:(intros j Hj; apply IH; lia)
                     rho s r L bt ct eq_refl Hinv Hsl Hr)).
    - (* for x := e; cnd; p { b } *)
      rewrite PF.wf_SFor in Hwf. apply andb_true_iff in Hwf. destruct Hwf as [Hwf Hwb].
      apply andb_true_iff in Hwf. destruct Hwf as [Hwf Hwp]. apply andb_true_iff in Hwf. destruct Hwf as [Hwf Hsp].
      apply andb_true_iff in Hwf. destruct Hwf as [Hwe Hwc].
      cbn [P.next_scope P.is_expr_stmt] in *.
      assert (Hnp : no_ph (fst (P.stmt_code k scope base (P.SFor e cnd p b)))).
      { rewrite PF.code_SFor. destruct (cexp_in scope base e) as [ci0 ki0]. cbv zeta.
        destruct (cexp_in (scope ++ [k]) (base + length ki0) cnd) as [cc0 kc0].
        destruct (P.block_code (S k) (scope ++ [k]) (base + length ki0 + length kc0) b) as [cb0 kb0].
        destruct (P.stmt_code (S k) (scope ++ [k]) (base + length ki0 + length kc0 + length kb0) p) as [cp0 kp0].
        cbn [fst]. apply no_ph_app; [apply no_ph_I|]. apply no_ph_app; [apply no_ph_patch|apply no_ph_I]. }
      rewrite (npatch_no_ph bt ct _ _ Hnp) in Hi. clear Hnp Hin.
      rewrite PF.nd_SFor in Hsl. rewrite PF.sneed_SFor in Hn. rewrite PF.run_SFor in Hr.
      rewrite PF.code_SFor in *.
      destruct (cexp_in scope base e) as [ci ki] eqn:Ei. cbv zeta in *.
      destruct (cexp_in (scope ++ [k]) (base + length ki) cnd) as [cc kc] eqn:Ec.
      destruct (P.block_code (S k) (scope ++ [k]) (base + length ki + length kc) b) as [cb kb] eqn:Eb.
      destruct (P.stmt_code (S k) (scope ++ [k]) (base + length ki + length kc + length kb) p) as [cp kp] eqn:Ep.
      cbn [fst snd] in *.
      set (hl := length cc + 2). set (cont := hl + length cb + 1). set (jbn := cont + length cp).
      set (head := I cc ++ I [opPopJumpForwardIfFalse; (nlen cb + 1 + nlen cp + 2 + 2)%N]) in *.
      assert (Hhl : nlen head = N.of_nat hl) by (unfold nlen, head, hl; rewrite app_length, !I_length; reflexivity).
      rewrite Hhl in *.
      replace (N.of_nat hl + nlen cb + 1)%N with (N.of_nat cont) in * by (unfold nlen, cont; lia).
      replace (N.of_nat cont + nlen cp)%N with (N.of_nat jbn) in * by (unfold nlen, jbn; lia).
      replace (N.of_nat jbn + 2)%N with (N.of_nat (jbn + 2)) in * by lia.
      replace (nlen cb + 1 + nlen cp + 2 + 2)%N with (N.of_nat (length cb + 1 + length cp + 4)) in * by (unfold nlen; lia).
      assert (Hnpp : no_ph cp).
      { pose proof (stmt_no_ph (P.sheight p) p (S (length rho)) (S k) (scope ++ [k]) (base + length ki + length kc + length kb) (le_n _)
                      ltac:(rewrite (simple_wf_lp false lp _ p Hsp); exact Hwp)) as H0. rewrite Ep in H0. exact H0. }
      assert (Hlen : length (I (ci ++ [opStoreGlobal; N.of_nat k]) ++ patch 0 (N.of_nat (jbn + 2)) (N.of_nat cont) (head ++ cb ++ I [opPopTop] ++ cp) ++
                             I [opJumpBackward; N.of_nat jbn]) = length ci + 2 + (jbn + 2)).
      { rewrite !app_length, patch_length, !app_length, !I_length, app_length. unfold head. rewrite app_length, !I_length.
        unfold jbn, cont, hl. cbn [length]. lia. }
      rewrite Hlen.
      rewrite strip_app, strip_I, strip_app, strip_I, (strip_patch 0 (jbn + 2) cont _ 0%N eq_refl) in Hi.
      unfold head in Hi. rewrite !npatch_app, !npatch_I, !app_length, !I_length in Hi. cbn [length Nat.add] in Hi.
      replace (nlen cb + 1 + nlen cp + 2 + 2)%N with (N.of_nat (length cb + 1 + length cp + 4)) in Hi by (unfold nlen; lia).
      rewrite (npatch_no_ph _ _ cp _ Hnpp) in Hi.
      replace (length cc + 2) with hl in Hi by reflexivity.
      (* the init clause *)
      assert (Hi' : instr = pre ++ fst (cexp_in scope base e) ++ [opStoreGlobal; N.of_nat k] ++
                            ((cc ++ [opPopJumpForwardIfFalse; N.of_nat (length cb + 1 + length cp + 4)]) ++
                             npatch hl (jbn + 2) cont cb ++ [opPopTop] ++ P.strip cp) ++ [opJumpBackward; N.of_nat jbn] ++ post)
        by (rewrite Ei; cbn [fst]; rewrite Hi, <- !app_assoc; reflexivity).
      assert (Hc' : consts_at base (snd (cexp_in scope base e))) by (rewrite Ei; exact (consts_l ki (kc ++ kb ++ kp) base Hc)).
      destruct (vm_store rho scope s e base pre _ k Hinv Hwe Hi' Hc' ltac:(lia)) as [k1 Hk].
      rewrite Ei in Hk. cbn [fst] in Hk.
      destruct (F.sev rho e) as [v|x]; [|inversion Hr; subst r; exists k1, s; exact Hk].
      set (s0 := upd_globals s (lset (globals s) k (inj v))) in *.
      assert (Hgl0 : length (globals s0) = length (globals s)) by apply length_lset.
      assert (Hinv0 : vm_inv (rho ++ [v]) (scope ++ [k]) s0) by (apply vm_inv_decl; [exact Hinv|apply (slots_ok_less _ _ _ _ _ Hsl); lia]).
      assert (Hsl0 : slots_ok (S k) (P.ndecls b) (scope ++ [k]) s0).
      { destruct Hsl as [Hf Hk0]. split; [|rewrite Hgl0; lia].
        apply Forall_app. split; [eapply Forall_impl; [|exact Hf]; cbn; intros; lia|constructor; [lia|constructor]]. }
      destruct (P.loop3 (P.run_stmt n) cnd p b n (rho ++ [v])) as [r0|] eqn:E; [|discriminate]. cbn [option_map] in Hr. inversion Hr; subst r. clear Hr.
      set (pre1 := pre ++ ci ++ [opStoreGlobal; N.of_nat k]).
      assert (Hl1 : length pre1 = length pre + length (ci ++ [opStoreGlobal; N.of_nat k])) by (unfold pre1; rewrite app_length; reflexivity).
      assert (Hi1 : instr = pre1 ++ cc ++ [opPopJumpForwardIfFalse; N.of_nat (length cb + 1 + length cp + 4)] ++ npatch hl (jbn + 2) cont cb ++
                            [opPopTop] ++ P.strip cp ++ [opJumpBackward; N.of_nat jbn] ++ post)
        by (rewrite Hi; unfold pre1; rewrite <- !app_assoc; reflexivity).
      assert (Hlr : length (rho ++ [v]) = S (length rho)) by (rewrite app_length; cbn [length]; lia).
      destruct (vm_floop n cnd p b (base + length ki) pre1 post (S (length rho)) (S k) (scope ++ [k]) lp cc kc cb kb cp kp (IH n ltac:(lia))
                  Ec Eb Ep Hi1 (consts_r ki (kc ++ kb ++ kp) base Hc) ltac:(lia) Hwc Hsp Hwp Hwb n (rho ++ [v]) s0 r0 L bt ct Hlr Hinv0 Hsl0 E)
        as [Hno [n2 [s2 Hr2]]].
      exists (k1 + n2), s2.
      assert (Hls : length scope = length rho) by (destruct Hinv as [H0 _]; exact H0).
      assert (Hpos : length pre + length (ci ++ [opStoreGlobal; N.of_nat k]) = length pre1) by (rewrite Hl1; reflexivity).
      destruct r0 as [[rho' v']|[x|rho'|rho']]; cbn [PF.no_ctl P.trunc] in *; try contradiction.
      + destruct Hr2 as [Hg2 Hr2]. split.
        * assert (Hle : length rho <= length rho').
          { destruct Hg2 as [[Hl2 _] _]. rewrite app_length in Hl2. cbn [length] in Hl2. lia. }
          exact (good_trans _ _ _ _ _ Hgl0 (good_firstn scope [k] s0 rho rho' s2 Hg2 Hls Hle)).
        * intros f. rewrite <- Nat.add_assoc, Hk, Hpos, Hr2. f_equal. rewrite Hl1, app_length. cbn [length]. lia.
      + intros f. rewrite <- Nat.add_assoc, Hk, Hpos. apply Hr2.
    - (* break: jump to the loop's break target *)
      cbn [P.wf_stmt] in Hwf. subst lp. destruct (Hin eq_refl) as [H1 [H2 H3]].
      cbn [P.run_stmt] in Hr. inversion Hr; subst r. clear Hr.
      cbn [P.stmt_code fst snd npatch length P.next_scope] in *.
      exists 1, s. split; [split; [exact Hinv|reflexivity]|]. intros f. cbn [Nat.add].
      rewrite (step_jump tabs c below frames free defers is_main s f (length pre) []) by (rewrite Hi; apply at0).
      assert (E : nth (length pre + 1) instr 0%N = N.of_nat (bt - (S (length pre - L) - 1))) by (rewrite Hi; apply at1).
      rewrite E, Nat2N.id. replace (length pre + (bt - (S (length pre - L) - 1))) with (L + bt) by lia. reflexivity.
    - (* continue *)
      cbn [P.wf_stmt] in Hwf. subst lp. destruct (Hin eq_refl) as [H1 [H2 H3]].
      cbn [P.run_stmt] in Hr. inversion Hr; subst r. clear Hr.
      cbn [P.stmt_code fst snd npatch length P.next_scope] in *.
      exists 1, s. split; [split; [exact Hinv|reflexivity]|]. intros f. cbn [Nat.add].
      rewrite (step_jump tabs c below frames free defers is_main s f (length pre) []) by (rewrite Hi; apply at0).
      assert (E : nth (length pre + 1) instr 0%N = N.of_nat (ct - (S (length pre - L) - 1))) by (rewrite Hi; apply at1).
      rewrite E, Nat2N.id. replace (length pre + (ct - (S (length pre - L) - 1))) with (L + ct) by lia. reflexivity.
  Qed.

  (* a statement list that is not inside any loop *)
  Lemma vm_prog n : forall l rho scope k s base pre post last r,
    l <> [] -> vm_inv rho scope s -> slots_ok k (P.ndecls l) scope s -> P.wf_stmts false (length rho) l = true ->
    instr = pre ++ P.strip (fst (P.scode k scope base l)) ++ post ->
    consts_at base (snd (P.scode k scope base l)) ->
    below + P.max_need l <= MAXSTACK ->
    P.run_stmts n rho l last = Some r ->
    after r (good (scope_after k scope l) s) (good_ext scope s) s
          (length pre) (length pre + length (P.strip (fst (P.scode k scope base l)))) 0 0 0 (fun v => [inj v]).
  Proof.
    intros l rho scope k s base pre post last r Hne Hinv Hsl Hwf Hi Hc Hn Hr.
    rewrite strip_length.
    rewrite <- (npatch_no_ph 0 0 _ (length pre - 0) (scode_no_ph l (length rho) k scope base Hwf)) in Hi.
    exact (vm_list n (vm_stmt n) l rho scope k s base pre post last false 0 0 0 r Hne Hinv Hsl Hwf Hi Hc Hn
             ltac:(intros H; discriminate) Hr).
  Qed.

  (* a statement that is not inside a loop, stated without the loop context: its code has no placeholder, and it can only
     end normally or with an error *)
  Theorem vm_stmt_plain n st rho scope k s base pre post r :
    vm_inv rho scope s -> slots_ok k (P.nd st) scope s -> P.wf_stmt false (length rho) st = true ->
    instr = pre ++ P.strip (fst (P.stmt_code k scope base st)) ++ post ->
    consts_at base (snd (P.stmt_code k scope base st)) ->
    below + P.sneed st <= MAXSTACK ->
    P.run_stmt n rho st = Some r ->
    exists j s',
      match r with
      | inl (rho', v) =>
          vm_inv rho' (P.next_scope k scope st) s' /\
          forall f, runs (j + f) (length pre) [] s =
                    runs f (length pre + length (fst (P.stmt_code k scope base st)))
                         (if P.is_expr_stmt st then [inj v] else []) s'
      | inr (P.StErr x) => forall f, runs (j + f) (length pre) [] s = (RErr (cls x) s', defers)
      | inr _ => False
      end.
  Proof.
    intros Hinv Hsl Hwf Hi Hc Hn Hr.
    pose proof (PF.no_escape n rho st r (length rho) Hwf Hr) as Hno.
    assert (Hnp : no_ph (fst (P.stmt_code k scope base st))) by (exact (stmt_no_ph _ st (length rho) k scope base (le_n _) Hwf)).
    rewrite <- (npatch_no_ph 0 0 _ (length pre - 0) Hnp) in Hi.
    destruct (vm_stmt n st rho scope k s base pre post false 0 0 0 r Hinv Hsl Hwf Hi Hc Hn ltac:(intros H; discriminate) Hr) as [j [s' H]].
    exists j, s'. destruct r as [[rho' v]|[x|rho'|rho']]; cbn [PF.no_ctl] in Hno; try contradiction; [|exact H].
    destruct H as [[H1 _] H2]. split; assumption.
  Qed.
End VarVM.
