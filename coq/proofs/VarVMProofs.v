(* Stage B, part 3: the VM model running [pcode] from an empty stack ends with exactly the value - or stops with
   exactly the error class - that [run_stmts] gives; variable i lives in global slot i. *)
From Coq Require Import List ZArith NArith Bool Arith Lia.
Require Import RV.model.Syntax RV.model.Compiler RV.model.VM.
Require Import RV.proofs.VMScalarProofs.
Require RV.model.VarProg RV.proofs.VarProgFacts.
Module P := RV.model.VarProg.
Module PF := RV.proofs.VarProgFacts.
Import ListNotations.
Local Open Scope nat_scope.

Lemma nth_lset_same (A : Type) (l : list A) i v d : i < length l -> nth i (lset l i v) d = v.
Proof. revert i; induction l as [|x l IH]; intros [|i] H; cbn in *; try lia; [reflexivity|apply IH; lia]. Qed.
Lemma nth_lset_other (A : Type) (l : list A) i j v d : i <> j -> nth j (lset l i v) d = nth j l d.
Proof. revert i j; induction l as [|x l IH]; intros [|i] [|j] H; cbn; try reflexivity; try lia. apply IH. lia. Qed.
Lemma length_lset (A : Type) (l : list A) i v : length (lset l i v) = length l.
Proof. revert i; induction l as [|x l IH]; intros [|i]; cbn; auto. Qed.

Section VarVM.
  Variable tabs : list table.
  Variable c : code.
  Variables (below : nat) (frames : list nat) (free : list (nat * nat)) (defers : list value) (is_main : bool).

  Notation runs f ip st s := (exec tabs f c ip st below frames free defers is_main s).
  Notation instr := (code_instr c).
  Notation opnd ip k := (N.to_nat (nth (ip + k) instr 0%N)).

  Lemma step_store f ip st v s :
    nth_error instr ip = Some 33%N ->
    runs (S f) ip (v :: st) s = runs f (ip + 2) st (upd_globals s (lset (globals s) (opnd ip 1) v)).
  Proof. intros H. cbn [exec]. rewrite H. reflexivity. Qed.

  Lemma step_pop f ip st v s :
    nth_error instr ip = Some 72%N -> runs (S f) ip (v :: st) s = runs f (S ip) st s.
  Proof. intros H. cbn [exec]. rewrite H. reflexivity. Qed.

  (* the global slots hold the declared variables, and there is room for the ones still to be declared *)
  Definition vm_inv (rho : list F.sval) (room : nat) (s : mstate) : Prop :=
    length rho + room <= length (globals s) /\
    forall i, i < length rho -> nth i (globals s) VGoNil = inj (nth i rho F.VNil).

  Lemma vm_inv_globals_ok rho room s : vm_inv rho room s -> globals_ok s rho.
  Proof.
    intros [_ H] i v Hi. assert (Hlt : i < length rho) by (apply nth_error_Some; congruence).
    rewrite (H i Hlt). rewrite (nth_error_nth rho i F.VNil Hi). reflexivity.
  Qed.

  Lemma vm_inv_decl rho room s v : vm_inv rho (S room) s ->
    vm_inv (rho ++ [v]) room (upd_globals s (lset (globals s) (length rho) (inj v))).
  Proof.
    intros [Hl H]. unfold vm_inv. cbn [globals upd_globals]. rewrite length_lset, app_length. cbn [length].
    split; [lia|]. intros i Hi.
    destruct (Nat.eq_dec i (length rho)) as [->|Hd].
    - rewrite nth_lset_same by lia. rewrite app_nth2 by lia. rewrite Nat.sub_diag. reflexivity.
    - rewrite nth_lset_other by lia. rewrite app_nth1 by lia. apply H. lia.
  Qed.

  Lemma vm_inv_set rho room s i v : vm_inv rho room s -> i < length rho ->
    vm_inv (P.set_nth i v rho) room (upd_globals s (lset (globals s) i (inj v))).
  Proof.
    intros [Hl H] Hi. unfold vm_inv. cbn [globals upd_globals]. rewrite length_lset, PF.set_nth_length.
    split; [exact Hl|]. intros j Hj.
    destruct (Nat.eq_dec j i) as [->|Hd].
    - rewrite nth_lset_same by lia. rewrite PF.nth_set_nth_same by lia. reflexivity.
    - rewrite nth_lset_other by lia. rewrite PF.nth_set_nth_other by lia. apply H. exact Hj.
  Qed.
  (* ---------------------------------------------------------------- positions *)
  Lemma at0 (A : Type) (l1 : list A) x l2 : nth_error (l1 ++ x :: l2) (length l1) = Some x.
  Proof. induction l1; cbn; auto. Qed.
  Lemma at1 (l1 : list N) x y l2 : nth (length l1 + 1) (l1 ++ x :: y :: l2) 0%N = y.
  Proof. induction l1; cbn; auto. Qed.
  Lemma need_pos e : 1 <= F.need e.
  Proof. induction e; cbn [F.need]; lia. Qed.

  (* ---------------------------------------------------------------- the statements of a branch *)
  (* [room]: global slots still to be claimed by later declarations; branches declare nothing *)
  Lemma vm_simple rho room s m base pre post :
    vm_inv rho room s -> P.wf_simple (length rho) m = true ->
    instr = pre ++ fst (P.simple_code base m) ++ post ->
    (forall i kk, nth_error (snd (P.simple_code base m)) i = Some kk -> nth (base + i) (code_consts c) (KInt 0) = kk) ->
    below + F.need (P.simple_exp m) <= MAXSTACK ->
    exists n s',
      (match P.run_simple rho m with inl (rho', _) => vm_inv rho' room s' | inr _ => True end) /\
      forall f,
        match P.run_simple rho m with
        | inr x => runs (n + f) (length pre) [] s = (RErr (cls x) s', defers)
        | inl (rho', v) => runs (n + f) (length pre) [] s =
                           runs f (length pre + length (fst (P.simple_code base m)))
                                (if P.is_expr_simple m then [inj v] else []) s'
        end.
  Proof.
    intros Hinv Hwf Hi Hc Hn. pose proof (vm_inv_globals_ok rho room s Hinv) as Hg.
    destruct m as [i e|e]; cbn [P.simple_code P.simple_exp P.wf_simple P.is_expr_simple P.run_simple] in *.
    - apply andb_true_iff in Hwf. destruct Hwf as [Hilt Hwf]. apply Nat.ltb_lt in Hilt.
      destruct (F.cexp base e) as [ce ke] eqn:Ee. cbn [fst snd] in *.
      assert (Hi' : instr = pre ++ fst (F.cexp base e) ++ ([opStoreGlobal; N.of_nat i] ++ post))
        by (rewrite Ee; cbn [fst]; rewrite Hi, <- !app_assoc; reflexivity).
      assert (Hc' : forall j kk, nth_error (snd (F.cexp base e)) j = Some kk -> nth (base + j) (code_consts c) (KInt 0) = kk)
        by (rewrite Ee; exact Hc).
      destruct (vm_scalar tabs c below frames free defers is_main s rho Hg e base pre _ [] Hwf Hi' Hc' ltac:(cbn [length]; lia)) as [n Hr].
      rewrite Ee in Hr. cbn [fst] in Hr. unfold outcome_of in Hr.
      destruct (F.sev rho e) as [v|x].
      + exists (n + 1), (upd_globals s (lset (globals s) i (inj v))).
        split; [apply vm_inv_set; assumption|]. intros f.
        rewrite <- Nat.add_assoc, Hr. cbn [Nat.add].
        assert (Hx : instr = (pre ++ ce) ++ opStoreGlobal :: N.of_nat i :: post) by (rewrite Hi, <- !app_assoc; reflexivity).
        rewrite (step_store f (length pre + length ce) [] (inj v) s) by (rewrite Hx, <- app_length; apply at0).
        assert (E : nth (length pre + length ce + 1) instr 0%N = N.of_nat i) by (rewrite Hx, <- app_length; apply at1).
        rewrite E, Nat2N.id, app_length. cbn [length].
        replace (length pre + (length ce + 2)) with (length pre + length ce + 2) by lia. reflexivity.
      + exists n, s. split; [exact Logic.I|]. intros f. exact (Hr f).
    - destruct (vm_scalar tabs c below frames free defers is_main s rho Hg e base pre post [] Hwf Hi Hc ltac:(cbn [length]; lia)) as [n Hr].
      unfold outcome_of in Hr. exists n, s.
      destruct (F.sev rho e) as [v|x]; (split; [try exact Hinv; exact Logic.I|]); intros f; exact (Hr f).
  Qed.

  Lemma simples_need_cons m r : P.simples_need (m :: r) = Nat.max (F.need (P.simple_exp m)) (P.simples_need r).
  Proof. reflexivity. Qed.
  Lemma simples_need_pos l : 1 <= P.simples_need l.
  Proof. induction l as [|m r IH]; [cbn; lia|rewrite simples_need_cons; lia]. Qed.

  Lemma vm_simples : forall l rho room s base pre post last,
    l <> [] -> vm_inv rho room s -> forallb (P.wf_simple (length rho)) l = true ->
    instr = pre ++ fst (P.simples_code base l) ++ post ->
    (forall i kk, nth_error (snd (P.simples_code base l)) i = Some kk -> nth (base + i) (code_consts c) (KInt 0) = kk) ->
    below + P.simples_need l <= MAXSTACK ->
    exists n s',
      (match P.run_simples rho l last with inl (rho', _) => vm_inv rho' room s' | inr _ => True end) /\
      forall f,
        match P.run_simples rho l last with
        | inr x => runs (n + f) (length pre) [] s = (RErr (cls x) s', defers)
        | inl (rho', v) => runs (n + f) (length pre) [] s =
                           runs f (length pre + length (fst (P.simples_code base l))) [inj v] s'
        end.
  Proof.
    induction l as [|m r IH]; intros rho room s base pre post last Hne Hinv Hwf Hi Hc Hn; [contradiction|].
    cbn [forallb] in Hwf. apply andb_true_iff in Hwf. destruct Hwf as [Hw0 Hwr].
    rewrite simples_need_cons in Hn. rewrite PF.run_simples_cons.
    destruct r as [|m2 r2].
    - (* the last statement of the branch *)
      rewrite PF.simples_code_single in Hi, Hc |- *.
      destruct (P.simple_code base m) as [cc ks] eqn:Es. cbn [fst snd] in *.
      assert (Hi' : instr = pre ++ fst (P.simple_code base m) ++ ((if P.is_expr_simple m then [] else [opNil]) ++ post))
        by (rewrite Es; cbn [fst]; rewrite Hi, <- !app_assoc; reflexivity).
      assert (Hc' : forall i kk, nth_error (snd (P.simple_code base m)) i = Some kk -> nth (base + i) (code_consts c) (KInt 0) = kk)
        by (rewrite Es; exact Hc).
      destruct (vm_simple rho room s m base pre _ Hinv Hw0 Hi' Hc' ltac:(lia)) as [n [s1 [Hinv1 Hr]]].
      rewrite Es in Hr. cbn [fst] in Hr.
      destruct (P.run_simple rho m) as [[rho1 v1]|x] eqn:Er.
      + cbn [P.run_simples].
        destruct (P.is_expr_simple m) eqn:Ex.
        * exists n, s1. split; [exact Hinv1|]. intros f. rewrite Hr, app_nil_r. reflexivity.
        * exists (n + 1), s1. split; [exact Hinv1|]. intros f. rewrite <- Nat.add_assoc, Hr. cbn [Nat.add].
          assert (Hx : instr = (pre ++ cc) ++ opNil :: post) by (rewrite Hi, <- !app_assoc; reflexivity).
          rewrite (step_push tabs c below frames free defers is_main s1 f (length pre + length cc) [] opNil VNil);
            [|rewrite Hx, <- app_length; apply at0|auto|pose proof (need_pos (P.simple_exp m)); cbn [length]; lia].
          rewrite app_length. cbn [length].
          replace (length pre + (length cc + 1)) with (S (length pre + length cc)) by lia.
          destruct m; try discriminate. cbn [P.run_simple] in Er. destruct (F.sev rho e); inversion Er. reflexivity.
      + exists n, s1. split; [exact Logic.I|]. intros f. exact (Hr f).
    - (* more statements follow *)
      assert (Hr2 : m2 :: r2 <> []) by discriminate.
      rewrite PF.simples_code_cons2 in Hi, Hc |- *.
      destruct (P.simple_code base m) as [cc ks] eqn:Es.
      destruct (P.simples_code (base + length ks) (m2 :: r2)) as [cr kr] eqn:Ep. cbn [fst snd] in *.
      set (pops := if P.is_expr_simple m then [opPopTop] else []) in *.
      assert (Hi' : instr = pre ++ fst (P.simple_code base m) ++ (pops ++ cr ++ post))
        by (rewrite Es; cbn [fst]; rewrite Hi, <- !app_assoc; reflexivity).
      assert (Hc' : forall i kk, nth_error (snd (P.simple_code base m)) i = Some kk -> nth (base + i) (code_consts c) (KInt 0) = kk).
      { rewrite Es. cbn [snd]. intros i kk Hik. apply Hc. rewrite nth_error_app1; [exact Hik|]. apply nth_error_Some. congruence. }
      destruct (vm_simple rho room s m base pre _ Hinv Hw0 Hi' Hc' ltac:(lia)) as [n [s1 [Hinv1 Hr]]].
      rewrite Es in Hr. cbn [fst] in Hr.
      destruct (P.run_simple rho m) as [[rho1 v1]|x] eqn:Er.
      2:{ exists n, s1. split; [exact Logic.I|]. intros f. exact (Hr f). }
      pose proof (PF.run_simple_length rho m rho1 v1 Er) as Hlen1. rewrite <- Hlen1 in Hwr.
      set (Q := pre ++ cc ++ pops).
      assert (HQ : length Q = length pre + length cc + length pops) by (unfold Q; rewrite !app_length; lia).
      assert (Hi2 : instr = Q ++ fst (P.simples_code (base + length ks) (m2 :: r2)) ++ post)
        by (rewrite Ep; cbn [fst]; rewrite Hi; unfold Q; rewrite <- !app_assoc; reflexivity).
      assert (Hc2 : forall i kk, nth_error (snd (P.simples_code (base + length ks) (m2 :: r2))) i = Some kk ->
                                 nth (base + length ks + i) (code_consts c) (KInt 0) = kk).
      { rewrite Ep. cbn [snd]. intros i kk Hik. rewrite <- Nat.add_assoc. apply Hc.
        rewrite nth_error_app2 by lia. replace (length ks + i - length ks) with i by lia. exact Hik. }
      destruct (IH rho1 room s1 (base + length ks) Q post v1 Hr2 Hinv1 Hwr Hi2 Hc2 ltac:(lia)) as [n2 [s2 [Hinv2 Hr2']]].
      rewrite Ep in Hr2'. cbn [fst] in Hr2'.
      assert (Hglue : exists k, forall f, runs (k + f) (length pre) [] s = runs f (length Q) [] s1).
      { destruct (P.is_expr_simple m) eqn:Ex; subst pops.
        - exists (n + 1). intros f. rewrite <- Nat.add_assoc, Hr. cbn [Nat.add].
          assert (Hx : instr = (pre ++ cc) ++ opPopTop :: (cr ++ post)) by (rewrite Hi, <- !app_assoc; reflexivity).
          rewrite (step_pop f (length pre + length cc) [] (inj v1) s1) by (rewrite Hx, <- app_length; apply at0).
          rewrite HQ. cbn [length]. replace (length pre + length cc + 1) with (S (length pre + length cc)) by lia. reflexivity.
        - exists n. intros f. rewrite Hr, HQ. cbn [length]. rewrite Nat.add_0_r. reflexivity. }
      destruct Hglue as [k Hk].
      exists (k + n2), s2. split; [exact Hinv2|]. intros f. specialize (Hr2' f).
      rewrite <- Nat.add_assoc, Hk.
      destruct (P.run_simples rho1 (m2 :: r2) v1) as [[rho2 vv]|xx].
      + rewrite Hr2'. rewrite HQ, !app_length. subst pops.
        replace (length pre + (length cc + (length (if P.is_expr_simple m then [opPopTop] else []) + length cr)))
          with (length pre + length cc + length (if P.is_expr_simple m then [opPopTop] else []) + length cr) by lia.
        reflexivity.
      + exact Hr2'.
  Qed.

  (* a whole branch: Nil for an empty one *)
  Lemma vm_block l rho room s base pre post :
    vm_inv rho room s -> forallb (P.wf_simple (length rho)) l = true ->
    instr = pre ++ fst (P.block_code base l) ++ post ->
    (forall i kk, nth_error (snd (P.block_code base l)) i = Some kk -> nth (base + i) (code_consts c) (KInt 0) = kk) ->
    below + P.simples_need l <= MAXSTACK ->
    exists n s',
      (match P.run_simples rho l F.VNil with inl (rho', _) => vm_inv rho' room s' | inr _ => True end) /\
      forall f,
        match P.run_simples rho l F.VNil with
        | inr x => runs (n + f) (length pre) [] s = (RErr (cls x) s', defers)
        | inl (rho', v) => runs (n + f) (length pre) [] s =
                           runs f (length pre + length (fst (P.block_code base l))) [inj v] s'
        end.
  Proof.
    intros Hinv Hwf Hi Hc Hn. destruct l as [|m r].
    - cbn [P.block_code fst snd P.run_simples] in *. exists 1, s. split; [exact Hinv|]. intros f. cbn [Nat.add length].
      rewrite (step_push tabs c below frames free defers is_main s f (length pre) [] opNil VNil);
        [rewrite Nat.add_1_r; reflexivity|rewrite Hi; apply at0|auto|pose proof (simples_need_pos []); cbn [length]; lia].
    - assert (Hne : m :: r <> []) by discriminate.
      exact (vm_simples (m :: r) rho room s base pre post F.VNil Hne Hinv Hwf Hi Hc Hn).
  Qed.
  (* ---------------------------------------------------------------- one top-level statement *)
  Lemma vm_stmt rho room s st base pre post :
    vm_inv rho (P.ndecls [st] + room) s -> PF.wf_stmt (length rho) st = true ->
    instr = pre ++ fst (P.stmt_code (length rho) base st) ++ post ->
    (forall i kk, nth_error (snd (P.stmt_code (length rho) base st)) i = Some kk -> nth (base + i) (code_consts c) (KInt 0) = kk) ->
    below + P.stmt_need st <= MAXSTACK ->
    exists n s',
      (match P.run_stmt rho st with inl (rho', _) => vm_inv rho' room s' | inr _ => True end) /\
      forall f,
        match P.run_stmt rho st with
        | inr x => runs (n + f) (length pre) [] s = (RErr (cls x) s', defers)
        | inl (rho', v) => runs (n + f) (length pre) [] s =
                           runs f (length pre + length (fst (P.stmt_code (length rho) base st)))
                                (if P.is_expr_stmt st then [inj v] else []) s'
        end.
  Proof.
    intros Hinv Hwf Hi Hc Hn.
    destruct st as [e|i e|e|cnd t el]; cbn [P.stmt_code PF.wf_stmt P.is_expr_stmt P.run_stmt P.stmt_need P.ndecls Nat.add] in *.
    - (* x := e *)
      pose proof (vm_inv_globals_ok rho _ s Hinv) as Hg.
      destruct (F.cexp base e) as [ce ke] eqn:Ee. cbn [fst snd] in *.
      assert (Hi' : instr = pre ++ fst (F.cexp base e) ++ ([opStoreGlobal; N.of_nat (length rho)] ++ post))
        by (rewrite Ee; cbn [fst]; rewrite Hi, <- !app_assoc; reflexivity).
      assert (Hc' : forall i kk, nth_error (snd (F.cexp base e)) i = Some kk -> nth (base + i) (code_consts c) (KInt 0) = kk)
        by (rewrite Ee; exact Hc).
      destruct (vm_scalar tabs c below frames free defers is_main s rho Hg e base pre _ [] Hwf Hi' Hc' ltac:(cbn [length]; lia)) as [n Hr].
      rewrite Ee in Hr. cbn [fst] in Hr. unfold outcome_of in Hr.
      destruct (F.sev rho e) as [v|x].
      + exists (n + 1), (upd_globals s (lset (globals s) (length rho) (inj v))).
        split; [apply vm_inv_decl; exact Hinv|]. intros f.
        rewrite <- Nat.add_assoc, Hr. cbn [Nat.add].
        assert (Hx : instr = (pre ++ ce) ++ opStoreGlobal :: N.of_nat (length rho) :: post) by (rewrite Hi, <- !app_assoc; reflexivity).
        rewrite (step_store f (length pre + length ce) [] (inj v) s) by (rewrite Hx, <- app_length; apply at0).
        assert (E : nth (length pre + length ce + 1) instr 0%N = N.of_nat (length rho)) by (rewrite Hx, <- app_length; apply at1).
        rewrite E, Nat2N.id, app_length. cbn [length].
        replace (length pre + (length ce + 2)) with (length pre + length ce + 2) by lia. reflexivity.
      + exists n, s. split; [exact Logic.I|]. intros f. exact (Hr f).
    - (* x = e *)
      exact (vm_simple rho room s (P.MSet i e) base pre post Hinv Hwf Hi Hc Hn).
    - (* e *)
      exact (vm_simple rho room s (P.MExpr e) base pre post Hinv Hwf Hi Hc Hn).
    - (* if *)
      pose proof (vm_inv_globals_ok rho _ s Hinv) as Hg.
      apply andb_true_iff in Hwf. destruct Hwf as [Hwct Hwe]. apply andb_true_iff in Hwct. destruct Hwct as [Hwc Hwt].
      destruct (F.cexp base cnd) as [cc kc] eqn:Ec.
      destruct (P.block_code (base + length kc) t) as [ct kt] eqn:Et.
      destruct (P.block_code (base + length kc + length kt) el) as [ce ke] eqn:Ee. cbn [fst snd] in *.
      set (offF := (F.nlenN ct + 4)%N) in *. set (offJ := (F.nlenN ce + 2)%N) in *.
      assert (HoffF : N.to_nat offF = length ct + 4) by (unfold offF, F.nlenN; rewrite N2Nat.inj_add, Nat2N.id; reflexivity).
      assert (HoffJ : N.to_nat offJ = length ce + 2) by (unfold offJ, F.nlenN; rewrite N2Nat.inj_add, Nat2N.id; reflexivity).
      assert (Hlen : length (cc ++ [opPopJumpForwardIfFalse; offF] ++ ct ++ [opJumpForward; offJ] ++ ce) =
                     length cc + 2 + length ct + 2 + length ce) by (rewrite !app_length; cbn [length]; lia).
      (* the condition *)
      assert (Hic : instr = pre ++ fst (F.cexp base cnd) ++ ([opPopJumpForwardIfFalse; offF] ++ ct ++ [opJumpForward; offJ] ++ ce ++ post))
        by (rewrite Ec; cbn [fst]; rewrite Hi, <- !app_assoc; reflexivity).
      assert (Hkc : forall i kk, nth_error (snd (F.cexp base cnd)) i = Some kk -> nth (base + i) (code_consts c) (KInt 0) = kk).
      { rewrite Ec. cbn [snd]. intros i kk Hik. apply Hc. rewrite nth_error_app1; [exact Hik|]. apply nth_error_Some. congruence. }
      destruct (vm_scalar tabs c below frames free defers is_main s rho Hg cnd base pre _ [] Hwc Hic Hkc ltac:(cbn [length]; lia)) as [n1 Hr1].
      rewrite Ec in Hr1. cbn [fst] in Hr1. unfold outcome_of in Hr1.
      destruct (F.sev rho cnd) as [vc|xc].
      2:{ exists n1, s. split; [exact Logic.I|]. intros f. exact (Hr1 f). }
      set (Pp := pre ++ cc).
      assert (HP : length Pp = length pre + length cc) by (unfold Pp; apply app_length).
      assert (Hc1 : instr = Pp ++ opPopJumpForwardIfFalse :: offF :: (ct ++ [opJumpForward; offJ] ++ ce ++ post))
        by (rewrite Hi; unfold Pp; rewrite <- !app_assoc; reflexivity).
      assert (Hs1 : forall f, runs (S f) (length Pp) [inj vc] s =
                              runs f (if F.struthy vc then length Pp + 2 else length Pp + (length ct + 4)) [] s).
      { intros f.
        rewrite (step_popjump tabs c below frames free defers is_main s f (length Pp) [] (inj vc) (F.struthy vc) opPopJumpForwardIfFalse);
          [|rewrite Hc1; apply at0|auto|apply truthy_inj].
        assert (E : nth (length Pp + 1) instr 0%N = offF) by (rewrite Hc1; apply at1).
        rewrite E, HoffF. change (opPopJumpForwardIfFalse =? 12)%N with true. cbn iota.
        destruct (F.struthy vc); reflexivity. }
      assert (Hkrest : forall i kk, nth_error (kt ++ ke) i = Some kk -> nth (base + length kc + i) (code_consts c) (KInt 0) = kk).
      { intros i kk Hik. rewrite <- Nat.add_assoc. apply Hc.
        rewrite nth_error_app2 by lia. replace (length kc + i - length kc) with i by lia. exact Hik. }
      destruct (F.struthy vc) eqn:Etr.
      + (* then-branch, followed by the jump over the else-branch *)
        set (Q := Pp ++ [opPopJumpForwardIfFalse; offF]).
        assert (HQ : length Q = length Pp + 2) by (unfold Q; rewrite app_length; reflexivity).
        assert (Hit : instr = Q ++ fst (P.block_code (base + length kc) t) ++ ([opJumpForward; offJ] ++ ce ++ post))
          by (rewrite Et; cbn [fst]; rewrite Hi; unfold Q, Pp; rewrite <- !app_assoc; reflexivity).
        assert (Hkt : forall i kk, nth_error (snd (P.block_code (base + length kc) t)) i = Some kk ->
                                   nth (base + length kc + i) (code_consts c) (KInt 0) = kk).
        { rewrite Et. cbn [snd]. intros i kk Hik. apply Hkrest. rewrite nth_error_app1; [exact Hik|]. apply nth_error_Some. congruence. }
        destruct (vm_block t rho room s (base + length kc) Q _ Hinv Hwt Hit Hkt ltac:(lia)) as [n2 [s2 [Hinv2 Hr2]]].
        rewrite Et in Hr2. cbn [fst] in Hr2. rewrite HQ in Hr2.
        destruct (P.run_simples rho t F.VNil) as [[rho' v]|x].
        * exists (n1 + (1 + (n2 + 1))), s2. split; [exact Hinv2|]. intros f.
          rewrite <- Nat.add_assoc, Hr1, <- HP.
          replace (1 + (n2 + 1) + f) with (S (n2 + S f)) by lia. rewrite Hs1, Hr2.
          assert (Hj : instr = (Q ++ ct) ++ opJumpForward :: offJ :: (ce ++ post))
            by (rewrite Hi; unfold Q, Pp; rewrite <- !app_assoc; reflexivity).
          assert (HQt : length (Q ++ ct) = length Pp + 2 + length ct) by (rewrite app_length, HQ; reflexivity).
          rewrite (step_jump tabs c below frames free defers is_main s2 f (length Pp + 2 + length ct) [inj v]); [|rewrite Hj, <- HQt; apply at0].
          assert (E : nth (length Pp + 2 + length ct + 1) instr 0%N = offJ) by (rewrite Hj, <- HQt; apply at1).
          rewrite E, HoffJ, Hlen.
          replace (length pre + (length cc + 2 + length ct + 2 + length ce)) with (length Pp + 2 + length ct + (length ce + 2)) by lia.
          reflexivity.
        * exists (n1 + (1 + n2)), s2. split; [exact Logic.I|]. intros f.
          rewrite <- Nat.add_assoc, Hr1, <- HP. replace (1 + n2 + f) with (S (n2 + f)) by lia. rewrite Hs1. exact (Hr2 f).
      + (* else-branch *)
        set (Q := Pp ++ [opPopJumpForwardIfFalse; offF] ++ ct ++ [opJumpForward; offJ]).
        assert (HQ : length Q = length Pp + (length ct + 4)) by (unfold Q; rewrite !app_length; cbn [length]; lia).
        assert (Hie : instr = Q ++ fst (P.block_code (base + length kc + length kt) el) ++ post)
          by (rewrite Ee; cbn [fst]; rewrite Hi; unfold Q, Pp; rewrite <- !app_assoc; reflexivity).
        assert (Hke : forall i kk, nth_error (snd (P.block_code (base + length kc + length kt) el)) i = Some kk ->
                                   nth (base + length kc + length kt + i) (code_consts c) (KInt 0) = kk).
        { rewrite Ee. cbn [snd]. intros i kk Hik. rewrite <- Nat.add_assoc. apply Hkrest.
          rewrite nth_error_app2 by lia. replace (length kt + i - length kt) with i by lia. exact Hik. }
        destruct (vm_block el rho room s (base + length kc + length kt) Q post Hinv Hwe Hie Hke ltac:(lia)) as [n2 [s2 [Hinv2 Hr2]]].
        rewrite Ee in Hr2. cbn [fst] in Hr2. rewrite HQ in Hr2.
        exists (n1 + (1 + n2)), s2. split; [exact Hinv2|]. intros f.
        rewrite <- Nat.add_assoc, Hr1, <- HP. replace (1 + n2 + f) with (S (n2 + f)) by lia. rewrite Hs1.
        specialize (Hr2 f). destruct (P.run_simples rho el F.VNil) as [[rho' v]|x]; [|exact Hr2].
        rewrite Hr2, Hlen.
        replace (length pre + (length cc + 2 + length ct + 2 + length ce)) with (length Pp + (length ct + 4) + length ce) by lia.
        reflexivity.
  Qed.

  (* ---------------------------------------------------------------- the whole statement list *)
  Lemma stmt_need_pos st : 1 <= P.stmt_need st.
  Proof. destruct st as [e|i e|e|cnd t el]; cbn [P.stmt_need]; try apply need_pos. pose proof (need_pos cnd). lia. Qed.

  Lemma vm_prog : forall l rho s base pre post last,
    l <> [] -> vm_inv rho (P.ndecls l) s -> P.wf_stmts (length rho) l = true ->
    instr = pre ++ fst (P.pcode (length rho) base l) ++ post ->
    (forall i kk, nth_error (snd (P.pcode (length rho) base l)) i = Some kk -> nth (base + i) (code_consts c) (KInt 0) = kk) ->
    below + P.max_need l <= MAXSTACK ->
    exists n s', forall f,
      match P.run_stmts rho l last with
      | inr x => runs (n + f) (length pre) [] s = (RErr (cls x) s', defers)
      | inl v => runs (n + f) (length pre) [] s = runs f (length pre + length (fst (P.pcode (length rho) base l))) [inj v] s'
      end.
  Proof.
    induction l as [|st r IH]; intros rho s base pre post last Hne Hinv Hwf Hi Hc Hn; [contradiction|].
    rewrite PF.wf_stmts_cons in Hwf. apply andb_true_iff in Hwf. destruct Hwf as [Hws Hwr].
    pose proof (stmt_need_pos st) as Hpos.
    rewrite PF.max_need_cons in Hn. rewrite PF.run_stmts_cons.
    assert (Hd : P.ndecls (st :: r) = P.ndecls [st] + P.ndecls r) by (destruct st; reflexivity).
    rewrite Hd in Hinv.
    destruct r as [|st2 r2].
    - (* the last statement *)
      rewrite PF.pcode_single in Hi, Hc |- *.
      destruct (P.stmt_code (length rho) base st) as [cc ks] eqn:Es. cbn [fst snd] in *.
      assert (Hi' : instr = pre ++ fst (P.stmt_code (length rho) base st) ++ ((if P.is_expr_stmt st then [] else [opNil]) ++ post))
        by (rewrite Es; cbn [fst]; rewrite Hi, <- !app_assoc; reflexivity).
      assert (Hc' : forall i kk, nth_error (snd (P.stmt_code (length rho) base st)) i = Some kk -> nth (base + i) (code_consts c) (KInt 0) = kk)
        by (rewrite Es; exact Hc).
      destruct (vm_stmt rho _ s st base pre _ Hinv Hws Hi' Hc' ltac:(lia)) as [n [s1 [_ Hr]]].
      rewrite Es in Hr. cbn [fst] in Hr.
      destruct (P.run_stmt rho st) as [[rho1 v1]|x] eqn:Er.
      + cbn [P.run_stmts].
        destruct (P.is_expr_stmt st) eqn:Ex.
        * exists n, s1. intros f. rewrite Hr, app_nil_r. reflexivity.
        * exists (n + 1), s1. intros f. rewrite <- Nat.add_assoc, Hr. cbn [Nat.add].
          assert (Hx : instr = (pre ++ cc) ++ opNil :: post) by (rewrite Hi, <- !app_assoc; reflexivity).
          rewrite (step_push tabs c below frames free defers is_main s1 f (length pre + length cc) [] opNil VNil);
            [|rewrite Hx, <- app_length; apply at0|auto|cbn [length]; lia].
          rewrite app_length. cbn [length].
          replace (length pre + (length cc + 1)) with (S (length pre + length cc)) by lia.
          destruct st as [e|i e|e|cnd t el]; try discriminate; cbn [P.run_stmt] in Er;
            destruct (F.sev rho e); inversion Er; reflexivity.
      + exists n, s1. intros f. exact (Hr f).
    - (* more statements follow *)
      assert (Hr2 : st2 :: r2 <> []) by discriminate.
      rewrite PF.pcode_cons2 in Hi, Hc |- *.
      destruct (P.stmt_code (length rho) base st) as [cc ks] eqn:Es.
      destruct (P.pcode (PF.next_k (length rho) st) (base + length ks) (st2 :: r2)) as [cr kr] eqn:Ep. cbn [fst snd] in *.
      set (pops := if P.is_expr_stmt st then [opPopTop] else []) in *.
      assert (Hi' : instr = pre ++ fst (P.stmt_code (length rho) base st) ++ (pops ++ cr ++ post))
        by (rewrite Es; cbn [fst]; rewrite Hi, <- !app_assoc; reflexivity).
      assert (Hc' : forall i kk, nth_error (snd (P.stmt_code (length rho) base st)) i = Some kk -> nth (base + i) (code_consts c) (KInt 0) = kk).
      { rewrite Es. cbn [snd]. intros i kk Hik. apply Hc. rewrite nth_error_app1; [exact Hik|]. apply nth_error_Some. congruence. }
      destruct (vm_stmt rho _ s st base pre _ Hinv Hws Hi' Hc' ltac:(lia)) as [n [s1 [Hinv1 Hr]]].
      rewrite Es in Hr. cbn [fst] in Hr.
      destruct (P.run_stmt rho st) as [[rho1 v1]|x] eqn:Er.
      2:{ exists n, s1. intros f. exact (Hr f). }
      pose proof (PF.run_stmt_length rho st rho1 v1 Er) as Hlen1.
      set (Q := pre ++ cc ++ pops).
      assert (HQ : length Q = length pre + length cc + length pops) by (unfold Q; rewrite !app_length; lia).
      rewrite <- Hlen1 in Ep, Hwr.
      assert (Hi2 : instr = Q ++ fst (P.pcode (length rho1) (base + length ks) (st2 :: r2)) ++ post)
        by (rewrite Ep; cbn [fst]; rewrite Hi; unfold Q; rewrite <- !app_assoc; reflexivity).
      assert (Hc2 : forall i kk, nth_error (snd (P.pcode (length rho1) (base + length ks) (st2 :: r2))) i = Some kk ->
                                 nth (base + length ks + i) (code_consts c) (KInt 0) = kk).
      { rewrite Ep. cbn [snd]. intros i kk Hik. rewrite <- Nat.add_assoc. apply Hc.
        rewrite nth_error_app2 by lia. replace (length ks + i - length ks) with i by lia. exact Hik. }
      destruct (IH rho1 s1 (base + length ks) Q post v1 Hr2 Hinv1 Hwr Hi2 Hc2 ltac:(lia)) as [n2 [s2 Hr2']].
      rewrite Ep in Hr2'. cbn [fst] in Hr2'.
      assert (Hglue : exists k, forall f, runs (k + f) (length pre) [] s = runs f (length Q) [] s1).
      { destruct (P.is_expr_stmt st) eqn:Ex; subst pops.
        - exists (n + 1). intros f. rewrite <- Nat.add_assoc, Hr. cbn [Nat.add].
          assert (Hx : instr = (pre ++ cc) ++ opPopTop :: (cr ++ post)) by (rewrite Hi, <- !app_assoc; reflexivity).
          rewrite (step_pop f (length pre + length cc) [] (inj v1) s1) by (rewrite Hx, <- app_length; apply at0).
          rewrite HQ. cbn [length]. replace (length pre + length cc + 1) with (S (length pre + length cc)) by lia. reflexivity.
        - exists n. intros f. rewrite Hr, HQ. cbn [length]. rewrite Nat.add_0_r. reflexivity. }
      destruct Hglue as [k Hk].
      exists (k + n2), s2. intros f. specialize (Hr2' f).
      rewrite <- Nat.add_assoc, Hk.
      destruct (P.run_stmts rho1 (st2 :: r2) v1) as [vv|xx].
      + rewrite Hr2'. rewrite HQ, !app_length. subst pops.
        replace (length pre + (length cc + (length (if P.is_expr_stmt st then [opPopTop] else []) + length cr)))
          with (length pre + length cc + length (if P.is_expr_stmt st then [opPopTop] else []) + length cr) by lia.
        reflexivity.
      + exact Hr2'.
  Qed.
End VarVM.
