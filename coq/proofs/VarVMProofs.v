(* Stage B, part 3: the VM model running [pcode] from an empty stack ends with exactly the value - or stops with
   exactly the error class - that [run_stmts] gives; variable i lives in global slot i. *)
From Coq Require Import List ZArith NArith Bool Arith Lia.
Require Import RV.model.Syntax RV.model.Compiler RV.model.VM.
Require Import RV.proofs.VMScalarProofs.
Require RV.model.VarProg RV.proofs.VarProgFacts.
Module P := RV.model.VarProg.
Module PF := RV.proofs.VarProgFacts.
Import ListNotations.
Local Open Scope nat_scope.

Lemma nth_lset_same (A : Type) (l : list A) i v d : i < length l -> nth i (lset l i v) d = v.
Proof. revert i; induction l as [|x l IH]; intros [|i] H; cbn in *; try lia; [reflexivity|apply IH; lia]. Qed.
Lemma nth_lset_other (A : Type) (l : list A) i j v d : i <> j -> nth j (lset l i v) d = nth j l d.
Proof. revert i j; induction l as [|x l IH]; intros [|i] [|j] H; cbn; try reflexivity; try lia. apply IH. lia. Qed.
Lemma length_lset (A : Type) (l : list A) i v : length (lset l i v) = length l.
Proof. revert i; induction l as [|x l IH]; intros [|i]; cbn; auto. Qed.

Section VarVM.
  Variable tabs : list table.
  Variable c : code.
  Variables (below : nat) (frames : list nat) (free : list (nat * nat)) (defers : list value) (is_main : bool).

  Notation runs f ip st s := (exec tabs f c ip st below frames free defers is_main s).
  Notation instr := (code_instr c).
  Notation opnd ip k := (N.to_nat (nth (ip + k) instr 0%N)).

  Lemma step_store f ip st v s :
    nth_error instr ip = Some 33%N ->
    runs (S f) ip (v :: st) s = runs f (ip + 2) st (upd_globals s (lset (globals s) (opnd ip 1) v)).
  Proof. intros H. cbn [exec]. rewrite H. reflexivity. Qed.

  Lemma step_pop f ip st v s :
    nth_error instr ip = Some 72%N -> runs (S f) ip (v :: st) s = runs f (S ip) st s.
  Proof. intros H. cbn [exec]. rewrite H. reflexivity. Qed.

  (* the global slots hold the declared variables, and there is room for the ones still to be declared *)
  Definition vm_inv (rho : list F.sval) (room : nat) (s : mstate) : Prop :=
    length rho + room <= length (globals s) /\
    forall i, i < length rho -> nth i (globals s) VGoNil = inj (nth i rho F.VNil).

  Lemma vm_inv_globals_ok rho room s : vm_inv rho room s -> globals_ok s rho.
  Proof.
    intros [_ H] i v Hi. assert (Hlt : i < length rho) by (apply nth_error_Some; congruence).
    rewrite (H i Hlt). rewrite (nth_error_nth rho i F.VNil Hi). reflexivity.
  Qed.

  Lemma vm_inv_decl rho room s v : vm_inv rho (S room) s ->
    vm_inv (rho ++ [v]) room (upd_globals s (lset (globals s) (length rho) (inj v))).
  Proof.
    intros [Hl H]. unfold vm_inv. cbn [globals upd_globals]. rewrite length_lset, app_length. cbn [length].
    split; [lia|]. intros i Hi.
    destruct (Nat.eq_dec i (length rho)) as [->|Hd].
    - rewrite nth_lset_same by lia. rewrite app_nth2 by lia. rewrite Nat.sub_diag. reflexivity.
    - rewrite nth_lset_other by lia. rewrite app_nth1 by lia. apply H. lia.
  Qed.

  Lemma set_nth_length i v rho : length (P.set_nth i v rho) = length rho.
  Proof. revert i; induction rho as [|x r IH]; intros [|i]; cbn; auto. Qed.
  Lemma nth_set_nth_same i v rho d : i < length rho -> nth i (P.set_nth i v rho) d = v.
  Proof. revert i; induction rho as [|x r IH]; intros [|i] H; cbn in *; try lia; [reflexivity|apply IH; lia]. Qed.
  Lemma nth_set_nth_other i j v rho d : i <> j -> nth j (P.set_nth i v rho) d = nth j rho d.
  Proof. revert i j; induction rho as [|x r IH]; intros [|i] [|j] H; cbn; try reflexivity; try lia. apply IH. lia. Qed.

  Lemma vm_inv_set rho room s i v : vm_inv rho room s -> i < length rho ->
    vm_inv (P.set_nth i v rho) room (upd_globals s (lset (globals s) i (inj v))).
  Proof.
    intros [Hl H] Hi. unfold vm_inv. cbn [globals upd_globals]. rewrite length_lset, set_nth_length.
    split; [exact Hl|]. intros j Hj.
    destruct (Nat.eq_dec j i) as [->|Hd].
    - rewrite nth_lset_same by lia. rewrite nth_set_nth_same by lia. reflexivity.
    - rewrite nth_lset_other by lia. rewrite nth_set_nth_other by lia. apply H. exact Hj.
  Qed.
  (* ---------------------------------------------------------------- one statement *)
  Definition state_after (k : nat) (s : mstate) (st : P.stmt) (v : F.sval) : mstate :=
    match st with
    | P.SDecl _ => upd_globals s (lset (globals s) k (inj v))
    | P.SSet i _ => upd_globals s (lset (globals s) i (inj v))
    | P.SExpr _ => s
    end.

  Lemma at0 (A : Type) (l1 : list A) x l2 : nth_error (l1 ++ x :: l2) (length l1) = Some x.
  Proof. induction l1; cbn; auto. Qed.
  Lemma at1 (l1 : list N) x y l2 : nth (length l1 + 1) (l1 ++ x :: y :: l2) 0%N = y.
  Proof. induction l1; cbn; auto. Qed.

  Lemma vm_stmt rho s k st base pre post :
    length rho = k -> globals_ok s rho -> PF.wf_stmt k st = true ->
    instr = pre ++ fst (P.stmt_code k base st) ++ post ->
    (forall i kk, nth_error (snd (P.stmt_code k base st)) i = Some kk -> nth (base + i) (code_consts c) (KInt 0) = kk) ->
    below + F.need (P.stmt_exp st) <= MAXSTACK ->
    exists n, forall f,
      match F.sev rho (P.stmt_exp st) with
      | inr x => runs (n + f) (length pre) [] s = (RErr (cls x) s, defers)
      | inl v => runs (n + f) (length pre) [] s =
                 runs f (length pre + length (fst (P.stmt_code k base st)))
                      (if P.is_expr_stmt st then [inj v] else []) (state_after k s st v)
      end.
  Proof.
    intros Hk Hg Hwf Hi Hc Hn.
    destruct st as [e|i e|e]; cbn [P.stmt_code P.stmt_exp PF.wf_stmt P.is_expr_stmt state_after] in *.
    - (* x := e *)
      destruct (F.cexp base e) as [ce ke] eqn:Ee. cbn [fst snd] in *.
      assert (Hi' : instr = pre ++ fst (F.cexp base e) ++ ([opStoreGlobal; N.of_nat k] ++ post))
        by (rewrite Ee; cbn [fst]; rewrite Hi, <- !app_assoc; reflexivity).
      assert (Hc' : forall i kk, nth_error (snd (F.cexp base e)) i = Some kk -> nth (base + i) (code_consts c) (KInt 0) = kk)
        by (rewrite Ee; exact Hc).
      rewrite <- Hk in Hwf.
      destruct (vm_scalar tabs c below frames free defers is_main s rho Hg e base pre _ [] Hwf Hi' Hc' ltac:(cbn [length]; lia)) as [n Hr].
      rewrite Ee in Hr. cbn [fst] in Hr. unfold outcome_of in Hr.
      exists (n + 1). intros f. destruct (F.sev rho e) as [v|x].
      + rewrite <- Nat.add_assoc, Hr. cbn [Nat.add].
        assert (Hx : instr = (pre ++ ce) ++ opStoreGlobal :: N.of_nat k :: post) by (rewrite Hi, <- !app_assoc; reflexivity).
        rewrite (step_store f (length pre + length ce) [] (inj v) s) by (rewrite Hx, <- app_length; apply at0).
        assert (E : nth (length pre + length ce + 1) instr 0%N = N.of_nat k) by (rewrite Hx, <- app_length; apply at1).
        rewrite E, Nat2N.id, app_length. cbn [length].
        replace (length pre + (length ce + 2)) with (length pre + length ce + 2) by lia. reflexivity.
      + rewrite <- Nat.add_assoc, Hr. reflexivity.
    - (* x = e *)
      apply andb_true_iff in Hwf. destruct Hwf as [_ Hwf].
      destruct (F.cexp base e) as [ce ke] eqn:Ee. cbn [fst snd] in *.
      assert (Hi' : instr = pre ++ fst (F.cexp base e) ++ ([opStoreGlobal; N.of_nat i] ++ post))
        by (rewrite Ee; cbn [fst]; rewrite Hi, <- !app_assoc; reflexivity).
      assert (Hc' : forall j kk, nth_error (snd (F.cexp base e)) j = Some kk -> nth (base + j) (code_consts c) (KInt 0) = kk)
        by (rewrite Ee; exact Hc).
      rewrite <- Hk in Hwf.
      destruct (vm_scalar tabs c below frames free defers is_main s rho Hg e base pre _ [] Hwf Hi' Hc' ltac:(cbn [length]; lia)) as [n Hr].
      rewrite Ee in Hr. cbn [fst] in Hr. unfold outcome_of in Hr.
      exists (n + 1). intros f. destruct (F.sev rho e) as [v|x].
      + rewrite <- Nat.add_assoc, Hr. cbn [Nat.add].
        assert (Hx : instr = (pre ++ ce) ++ opStoreGlobal :: N.of_nat i :: post) by (rewrite Hi, <- !app_assoc; reflexivity).
        rewrite (step_store f (length pre + length ce) [] (inj v) s) by (rewrite Hx, <- app_length; apply at0).
        assert (E : nth (length pre + length ce + 1) instr 0%N = N.of_nat i) by (rewrite Hx, <- app_length; apply at1).
        rewrite E, Nat2N.id, app_length. cbn [length].
        replace (length pre + (length ce + 2)) with (length pre + length ce + 2) by lia. reflexivity.
      + rewrite <- Nat.add_assoc, Hr. reflexivity.
    - (* e *)
      rewrite <- Hk in Hwf.
      destruct (vm_scalar tabs c below frames free defers is_main s rho Hg e base pre post [] Hwf Hi Hc ltac:(cbn [length]; lia)) as [n Hr].
      unfold outcome_of in Hr. exists n. intros f. rewrite Hr. destruct (F.sev rho e); reflexivity.
  Qed.
  (* ---------------------------------------------------------------- the whole statement list *)
  Lemma need_pos e : 1 <= F.need e.
  Proof. induction e; cbn [F.need]; lia. Qed.

  Lemma vm_inv_next rho s k st v : length rho = k -> PF.wf_stmt k st = true ->
    forall room, vm_inv rho (P.ndecls [st] + room) s ->
    vm_inv (PF.next_rho rho st v) room (state_after k s st v) /\ length (PF.next_rho rho st v) = PF.next_k k st.
  Proof.
    intros Hk Hwf room Hinv. destruct st as [e|i e|e]; cbn [PF.next_rho state_after PF.next_k P.ndecls PF.wf_stmt] in *.
    - subst k. split; [apply vm_inv_decl; exact Hinv|rewrite app_length; cbn; lia].
    - apply andb_true_iff in Hwf. destruct Hwf as [Hi _]. apply Nat.ltb_lt in Hi. subst k.
      split; [apply vm_inv_set; assumption|apply set_nth_length].
    - split; [exact Hinv|exact Hk].
  Qed.

  Lemma vm_prog : forall l rho s k base pre post last,
    l <> [] -> length rho = k -> vm_inv rho (P.ndecls l) s -> P.wf_stmts k l = true ->
    instr = pre ++ fst (P.pcode k base l) ++ post ->
    (forall i kk, nth_error (snd (P.pcode k base l)) i = Some kk -> nth (base + i) (code_consts c) (KInt 0) = kk) ->
    below + P.max_need l <= MAXSTACK ->
    exists n s', forall f,
      match P.run_stmts rho l last with
      | inr x => runs (n + f) (length pre) [] s = (RErr (cls x) s', defers)
      | inl v => runs (n + f) (length pre) [] s = runs f (length pre + length (fst (P.pcode k base l))) [inj v] s'
      end.
  Proof.
    induction l as [|st r IH]; intros rho s k base pre post last Hne Hk Hinv Hwf Hi Hc Hn; [contradiction|].
    rewrite PF.wf_stmts_cons in Hwf. apply andb_true_iff in Hwf. destruct Hwf as [Hws Hwr].
    rewrite PF.max_need_cons in Hn. rewrite PF.run_stmts_cons.
    pose proof (vm_inv_globals_ok rho _ s Hinv) as Hg.
    destruct r as [|st2 r2].
    - (* the last statement *)
      rewrite PF.pcode_single in Hi, Hc |- *.
      destruct (P.stmt_code k base st) as [cc ks] eqn:Es. cbn [fst snd] in *.
      assert (Hi' : instr = pre ++ fst (P.stmt_code k base st) ++ ((if P.is_expr_stmt st then [] else [opNil]) ++ post))
        by (rewrite Es; cbn [fst]; rewrite Hi, <- !app_assoc; reflexivity).
      assert (Hc' : forall i kk, nth_error (snd (P.stmt_code k base st)) i = Some kk -> nth (base + i) (code_consts c) (KInt 0) = kk)
        by (rewrite Es; exact Hc).
      destruct (vm_stmt rho s k st base pre _ Hk Hg Hws Hi' Hc' ltac:(lia)) as [n Hr].
      rewrite Es in Hr. cbn [fst] in Hr.
      destruct (F.sev rho (P.stmt_exp st)) as [v|x].
      + cbn [P.run_stmts].
        destruct (P.is_expr_stmt st) eqn:Ex.
        * exists n, (state_after k s st v). intros f. rewrite Hr, app_nil_r.
          destruct st; try discriminate. reflexivity.
        * exists (n + 1), (state_after k s st v). intros f. rewrite <- Nat.add_assoc, Hr. cbn [Nat.add].
          assert (Hx : instr = (pre ++ cc) ++ opNil :: post) by (rewrite Hi, <- !app_assoc; reflexivity).
          rewrite (step_push tabs c below frames free defers is_main (state_after k s st v) f (length pre + length cc) [] opNil VNil);
            [|rewrite Hx, <- app_length; apply at0|auto|pose proof (need_pos (P.stmt_exp st)); cbn [length]; lia].
          rewrite app_length. cbn [length].
          replace (length pre + (length cc + 1)) with (S (length pre + length cc)) by lia.
          destruct st; try discriminate; reflexivity.
      + exists n, s. intros f. exact (Hr f).
    - (* more statements follow *)
      assert (Hr2 : st2 :: r2 <> []) by discriminate.
      rewrite PF.pcode_cons2 in Hi, Hc |- *.
      destruct (P.stmt_code k base st) as [cc ks] eqn:Es.
      destruct (P.pcode (PF.next_k k st) (base + length ks) (st2 :: r2)) as [cr kr] eqn:Ep. cbn [fst snd] in *.
      set (pops := if P.is_expr_stmt st then [opPopTop] else []) in *.
      assert (Hi' : instr = pre ++ fst (P.stmt_code k base st) ++ (pops ++ cr ++ post))
        by (rewrite Es; cbn [fst]; rewrite Hi, <- !app_assoc; reflexivity).
      assert (Hc' : forall i kk, nth_error (snd (P.stmt_code k base st)) i = Some kk -> nth (base + i) (code_consts c) (KInt 0) = kk).
      { rewrite Es. cbn [snd]. intros i kk Hik. apply Hc. rewrite nth_error_app1; [exact Hik|]. apply nth_error_Some. congruence. }
      destruct (vm_stmt rho s k st base pre _ Hk Hg Hws Hi' Hc' ltac:(lia)) as [n Hr].
      rewrite Es in Hr. cbn [fst] in Hr.
      destruct (F.sev rho (P.stmt_exp st)) as [v|x].
      2:{ exists n, s. intros f. exact (Hr f). }
      (* the state and the variable values after this statement *)
      assert (Hd : P.ndecls (st :: st2 :: r2) = P.ndecls [st] + P.ndecls (st2 :: r2)) by (destruct st; reflexivity).
      rewrite Hd in Hinv.
      destruct (vm_inv_next rho s k st v Hk Hws _ Hinv) as [Hinv' Hlen'].
      set (Q := pre ++ cc ++ pops).
      assert (HQ : length Q = length pre + length cc + length pops) by (unfold Q; rewrite !app_length; lia).
      assert (Hi2 : instr = Q ++ fst (P.pcode (PF.next_k k st) (base + length ks) (st2 :: r2)) ++ post)
        by (rewrite Ep; cbn [fst]; rewrite Hi; unfold Q; rewrite <- !app_assoc; reflexivity).
      assert (Hc2 : forall i kk, nth_error (snd (P.pcode (PF.next_k k st) (base + length ks) (st2 :: r2))) i = Some kk ->
                                 nth (base + length ks + i) (code_consts c) (KInt 0) = kk).
      { rewrite Ep. cbn [snd]. intros i kk Hik. rewrite <- Nat.add_assoc. apply Hc.
        rewrite nth_error_app2 by lia. replace (length ks + i - length ks) with i by lia. exact Hik. }
      destruct (IH (PF.next_rho rho st v) (state_after k s st v) (PF.next_k k st) (base + length ks) Q post (PF.stmt_value st v)
                   Hr2 Hlen' Hinv' Hwr Hi2 Hc2 ltac:(lia)) as [n2 [s2 Hr2']].
      rewrite Ep in Hr2'. cbn [fst] in Hr2'.
      (* glue: this statement, the PopTop after an expression statement, the rest *)
      assert (Hglue : exists m, forall f,
                 runs (m + f) (length pre) [] s = runs f (length Q) [] (state_after k s st v)).
      { destruct (P.is_expr_stmt st) eqn:Ex; subst pops.
        - exists (n + 1). intros f. rewrite <- Nat.add_assoc, Hr. cbn [Nat.add].
          assert (Hx : instr = (pre ++ cc) ++ opPopTop :: (cr ++ post)) by (rewrite Hi, <- !app_assoc; reflexivity).
          rewrite (step_pop f (length pre + length cc) [] (inj v) (state_after k s st v)) by (rewrite Hx, <- app_length; apply at0).
          rewrite HQ. cbn [length]. replace (length pre + length cc + 1) with (S (length pre + length cc)) by lia. reflexivity.
        - exists n. intros f. rewrite Hr, HQ. cbn [length]. rewrite Nat.add_0_r. reflexivity. }
      destruct Hglue as [m Hm].
      exists (m + n2), s2. intros f. specialize (Hr2' f).
      rewrite <- Nat.add_assoc, Hm.
      destruct (P.run_stmts (PF.next_rho rho st v) (st2 :: r2) (PF.stmt_value st v)) as [vv|xx].
      + rewrite Hr2'. rewrite HQ, !app_length. subst pops.
        replace (length pre + (length cc + (length (if P.is_expr_stmt st then [opPopTop] else []) + length cr)))
          with (length pre + length cc + length (if P.is_expr_stmt st then [opPopTop] else []) + length cr) by lia.
        reflexivity.
      + exact Hr2'.
  Qed.
End VarVM.
