(* Stages B-D, part 3: the VM model running [pcode] from an empty stack ends with exactly the value - or stops with
   exactly the error class - that [run_stmts] gives (whenever the latter's fuel suffices); variable i lives in global
   slot i; conditionals and loops, nested to any depth, run through their jumps. *)
From Coq Require Import List ZArith NArith Bool Arith Lia.
Require Import RV.model.Syntax RV.model.Compiler RV.model.VM.
Require Import RV.proofs.VMScalarProofs.
Require RV.model.VarProg RV.proofs.VarProgFacts.
Module P := RV.model.VarProg.
Module PF := RV.proofs.VarProgFacts.
Import ListNotations.
Local Open Scope nat_scope.

Lemma nth_lset_same (A : Type) (l : list A) i v d : i < length l -> nth i (lset l i v) d = v.
Proof. revert i; induction l as [|x l IH]; intros [|i] H; cbn in *; try lia; [reflexivity|apply IH; lia]. Qed.
Lemma nth_lset_other (A : Type) (l : list A) i j v d : i <> j -> nth j (lset l i v) d = nth j l d.
Proof. revert i j; induction l as [|x l IH]; intros [|i] [|j] H; cbn; try reflexivity; try lia. apply IH. lia. Qed.
Lemma length_lset (A : Type) (l : list A) i v : length (lset l i v) = length l.
Proof. revert i; induction l as [|x l IH]; intros [|i]; cbn; auto. Qed.

Section VarVM.
  Variable tabs : list table.
  Variable c : code.
  Variables (below : nat) (frames : list nat) (free : list (nat * nat)) (defers : list value) (is_main : bool).

  Notation runs f ip st s := (exec tabs f c ip st below frames free defers is_main s).
  Notation instr := (code_instr c).
  Notation opnd ip k := (N.to_nat (nth (ip + k) instr 0%N)).

  Lemma step_store f ip st v s :
    nth_error instr ip = Some 33%N ->
    runs (S f) ip (v :: st) s = runs f (ip + 2) st (upd_globals s (lset (globals s) (opnd ip 1) v)).
  Proof. intros H. cbn [exec]. rewrite H. reflexivity. Qed.

  Lemma step_pop f ip st v s :
    nth_error instr ip = Some 72%N -> runs (S f) ip (v :: st) s = runs f (S ip) st s.
  Proof. intros H. cbn [exec]. rewrite H. reflexivity. Qed.

  (* the global slots hold the declared variables, and there is room for the ones still to be declared *)
  Definition vm_inv (rho : list F.sval) (room : nat) (s : mstate) : Prop :=
    length rho + room <= length (globals s) /\
    forall i, i < length rho -> nth i (globals s) VGoNil = inj (nth i rho F.VNil).

  Lemma vm_inv_globals_ok rho room s : vm_inv rho room s -> globals_ok s rho.
  Proof.
    intros [_ H] i v Hi. assert (Hlt : i < length rho) by (apply nth_error_Some; congruence).
    rewrite (H i Hlt). rewrite (nth_error_nth rho i F.VNil Hi). reflexivity.
  Qed.

  Lemma vm_inv_decl rho room s v : vm_inv rho (S room) s ->
    vm_inv (rho ++ [v]) room (upd_globals s (lset (globals s) (length rho) (inj v))).
  Proof.
    intros [Hl H]. unfold vm_inv. cbn [globals upd_globals]. rewrite length_lset, app_length. cbn [length].
    split; [lia|]. intros i Hi.
    destruct (Nat.eq_dec i (length rho)) as [->|Hd].
    - rewrite nth_lset_same by lia. rewrite app_nth2 by lia. rewrite Nat.sub_diag. reflexivity.
    - rewrite nth_lset_other by lia. rewrite app_nth1 by lia. apply H. lia.
  Qed.

  Lemma vm_inv_set rho room s i v : vm_inv rho room s -> i < length rho ->
    vm_inv (P.set_nth i v rho) room (upd_globals s (lset (globals s) i (inj v))).
  Proof.
    intros [Hl H] Hi. unfold vm_inv. cbn [globals upd_globals]. rewrite length_lset, PF.set_nth_length.
    split; [exact Hl|]. intros j Hj.
    destruct (Nat.eq_dec j i) as [->|Hd].
    - rewrite nth_lset_same by lia. rewrite PF.nth_set_nth_same by lia. reflexivity.
    - rewrite nth_lset_other by lia. rewrite PF.nth_set_nth_other by lia. apply H. exact Hj.
  Qed.
  (* ---------------------------------------------------------------- positions *)
  Lemma at0 (A : Type) (l1 : list A) x l2 : nth_error (l1 ++ x :: l2) (length l1) = Some x.
  Proof. induction l1; cbn; auto. Qed.
  Lemma at1 (l1 : list N) x y l2 : nth (length l1 + 1) (l1 ++ x :: y :: l2) 0%N = y.
  Proof. induction l1; cbn; auto. Qed.
  Lemma step_jumpback f ip st s :
    nth_error instr ip = Some 10%N -> runs (S f) ip st s = runs f (ip - opnd ip 1) st s.
  Proof. intros H. cbn [exec]. rewrite H. reflexivity. Qed.


  Ltac split_consts Hc := let i := fresh "i" in let kk := fresh "kk" in let Hik := fresh "Hik" in
    intros i kk Hik; apply Hc; rewrite nth_error_app1; [exact Hik|apply nth_error_Some; congruence].

  Lemma consts_l (ka kb : list konst) base :
    (forall i k, nth_error (ka ++ kb) i = Some k -> nth (base + i) (code_consts c) (KInt 0) = k) ->
    forall i k, nth_error ka i = Some k -> nth (base + i) (code_consts c) (KInt 0) = k.
  Proof. intros H i k Hi. apply H. rewrite nth_error_app1; [exact Hi|]. apply nth_error_Some. congruence. Qed.
  Lemma consts_r (ka kb : list konst) base :
    (forall i k, nth_error (ka ++ kb) i = Some k -> nth (base + i) (code_consts c) (KInt 0) = k) ->
    forall i k, nth_error kb i = Some k -> nth (base + length ka + i) (code_consts c) (KInt 0) = k.
  Proof.
    intros H i k Hi. rewrite <- Nat.add_assoc. apply H.
    rewrite nth_error_app2 by lia. replace (length ka + i - length ka) with i by lia. exact Hi.
  Qed.

  (* ---------------------------------------------------------------- evaluate, then store into a global slot *)
  Lemma vm_store rho room s e base pre post slot :
    vm_inv rho room s -> F.wf (length rho) e = true ->
    instr = pre ++ fst (F.cexp base e) ++ [opStoreGlobal; N.of_nat slot] ++ post ->
    (forall i kk, nth_error (snd (F.cexp base e)) i = Some kk -> nth (base + i) (code_consts c) (KInt 0) = kk) ->
    below + F.need e <= MAXSTACK ->
    exists k, forall f,
      match F.sev rho e with
      | inl v => runs (k + f) (length pre) [] s =
                 runs f (length pre + length (fst (F.cexp base e) ++ [opStoreGlobal; N.of_nat slot])) []
                      (upd_globals s (lset (globals s) slot (inj v)))
      | inr x => runs (k + f) (length pre) [] s = (RErr (cls x) s, defers)
      end.
  Proof.
    intros Hinv Hwf Hi Hc Hn. pose proof (vm_inv_globals_ok rho room s Hinv) as Hg.
    destruct (vm_scalar tabs c below frames free defers is_main s rho Hg e base pre _ [] Hwf Hi Hc ltac:(cbn [length]; lia)) as [n Hr].
    unfold outcome_of in Hr.
    destruct (F.sev rho e) as [v|x].
    - exists (n + 1). intros f. rewrite <- Nat.add_assoc, Hr. cbn [Nat.add].
      set (ce := fst (F.cexp base e)) in *.
      assert (Hx : instr = (pre ++ ce) ++ opStoreGlobal :: N.of_nat slot :: post) by (rewrite Hi, <- !app_assoc; reflexivity).
      rewrite (step_store f (length pre + length ce) [] (inj v) s) by (rewrite Hx, <- app_length; apply at0).
      assert (E : nth (length pre + length ce + 1) instr 0%N = N.of_nat slot) by (rewrite Hx, <- app_length; apply at1).
      rewrite E, Nat2N.id, app_length. cbn [length].
      replace (length pre + (length ce + 2)) with (length pre + length ce + 2) by lia. reflexivity.
    - exists n. intros f. exact (Hr f).
  Qed.

  (* ---------------------------------------------------------------- statements, lists, blocks, loops *)
  Definition consts_at (base : nat) (ks : list konst) : Prop :=
    forall i kk, nth_error ks i = Some kk -> nth (base + i) (code_consts c) (KInt 0) = kk.

  Definition after (r : (list F.sval * F.sval) + F.serr) (room : nat) (s : mstate) (start stop : nat)
             (stack : F.sval -> list value) : Prop :=
    exists k s',
      match r with
      | inr x => forall f, runs (k + f) start [] s = (RErr (cls x) s', defers)
      | inl (rho', v) => vm_inv rho' room s' /\ forall f, runs (k + f) start [] s = runs f stop (stack v) s'
      end.

  (* what holds of one statement run with source fuel n *)
  Definition stmt_vm (n : nat) : Prop :=
    forall st rho room s base pre post top r,
      vm_inv rho (P.ndecls [st] + room) s -> P.wf_stmt top (length rho) st = true ->
      instr = pre ++ fst (P.stmt_code (length rho) base st) ++ post ->
      consts_at base (snd (P.stmt_code (length rho) base st)) ->
      below + P.sneed st <= MAXSTACK ->
      P.run_stmt n rho st = Some r ->
      after r room s (length pre) (length pre + length (fst (P.stmt_code (length rho) base st)))
            (fun v => if P.is_expr_stmt st then [inj v] else []).

  Lemma ndecls_split st r : P.ndecls (st :: r) = P.ndecls [st] + P.ndecls r.
  Proof. destruct st; reflexivity. Qed.

  Lemma vm_list n : stmt_vm n -> forall l rho room s base pre post last top r,
    l <> [] -> vm_inv rho (P.ndecls l + room) s -> P.wf_stmts top (length rho) l = true ->
    instr = pre ++ fst (P.pcode (length rho) base l) ++ post ->
    consts_at base (snd (P.pcode (length rho) base l)) ->
    below + P.max_need l <= MAXSTACK ->
    P.run_stmts n rho l last = Some r ->
    after r room s (length pre) (length pre + length (fst (P.pcode (length rho) base l))) (fun v => [inj v]).
  Proof.
    intros Hst. induction l as [|st r0 IH]; intros rho room s base pre post last top r Hne Hinv Hwf Hi Hc Hn Hr; [contradiction|].
    rewrite PF.wf_stmts_cons in Hwf. apply andb_true_iff in Hwf. destruct Hwf as [Hws Hwr].
    pose proof (PF.sneed_pos st) as Hpos.
    rewrite PF.max_need_cons in Hn. rewrite PF.run_stmts_cons in Hr.
    rewrite ndecls_split, <- Nat.add_assoc in Hinv.
    destruct r0 as [|st2 r2].
    - (* the last statement *)
      rewrite PF.pcode_single in Hi, Hc |- *.
      destruct (P.stmt_code (length rho) base st) as [cc ks] eqn:Es. cbn [fst snd] in *.
      assert (Hi' : instr = pre ++ fst (P.stmt_code (length rho) base st) ++ ((if P.is_expr_stmt st then [] else [opNil]) ++ post))
        by (rewrite Es; cbn [fst]; rewrite Hi, <- !app_assoc; reflexivity).
      assert (Hc' : consts_at base (snd (P.stmt_code (length rho) base st))) by (rewrite Es; exact Hc).
      destruct (P.run_stmt n rho st) as [[[rho1 v1]|x]|] eqn:Er; [| |discriminate].
      + destruct (Hst st rho (P.ndecls [] + room) s base pre _ top _ Hinv Hws Hi' Hc' ltac:(lia) Er) as [k [s1 [Hinv1 Hrun]]].
        rewrite Es in Hrun. cbn [fst] in Hrun.
        cbn in Hr. inversion Hr; subst r. clear Hr.
        destruct (P.is_expr_stmt st) eqn:Ex.
        * exists k, s1. split; [exact Hinv1|]. intros f. rewrite Hrun, app_nil_r. reflexivity.
        * exists (k + 1), s1. split; [exact Hinv1|]. intros f. rewrite <- Nat.add_assoc, Hrun. cbn [Nat.add].
          assert (Hx : instr = (pre ++ cc) ++ opNil :: post) by (rewrite Hi, <- !app_assoc; reflexivity).
          rewrite (step_push tabs c below frames free defers is_main s1 f (length pre + length cc) [] opNil VNil);
            [|rewrite Hx, <- app_length; apply at0|auto|cbn [length]; lia].
          rewrite app_length. cbn [length].
          replace (length pre + (length cc + 1)) with (S (length pre + length cc)) by lia.
          rewrite (PF.run_stmt_value n rho st rho1 v1 Er Ex). reflexivity.
      + destruct (Hst st rho (P.ndecls [] + room) s base pre _ top _ Hinv Hws Hi' Hc' ltac:(lia) Er) as [k [s1 Hrun]].
        inversion Hr; subst r. exists k, s1. exact Hrun.
    - (* more statements follow *)
      assert (Hr2 : st2 :: r2 <> []) by discriminate.
      rewrite PF.pcode_cons2 in Hi, Hc |- *.
      destruct (P.stmt_code (length rho) base st) as [cc ks] eqn:Es.
      destruct (P.pcode (P.next_k (length rho) st) (base + length ks) (st2 :: r2)) as [cr kr] eqn:Ep. cbn [fst snd] in *.
      set (pops := if P.is_expr_stmt st then [opPopTop] else []) in *.
      assert (Hi' : instr = pre ++ fst (P.stmt_code (length rho) base st) ++ (pops ++ cr ++ post))
        by (rewrite Es; cbn [fst]; rewrite Hi, <- !app_assoc; reflexivity).
      assert (Hc' : consts_at base (snd (P.stmt_code (length rho) base st))) by (rewrite Es; exact (consts_l ks kr base Hc)).
      destruct (P.run_stmt n rho st) as [[[rho1 v1]|x]|] eqn:Er; [| |discriminate].
      2:{ destruct (Hst st rho _ s base pre _ top _ Hinv Hws Hi' Hc' ltac:(lia) Er) as [k [s1 Hrun]].
          inversion Hr; subst r. exists k, s1. exact Hrun. }
      destruct (Hst st rho _ s base pre _ top _ Hinv Hws Hi' Hc' ltac:(lia) Er) as [k [s1 [Hinv1 Hrun]]].
      rewrite Es in Hrun. cbn [fst] in Hrun.
      pose proof (PF.run_stmt_length n rho st top rho1 v1 Hws Er) as Hlen1.
      set (Q := pre ++ cc ++ pops).
      assert (HQ : length Q = length pre + length cc + length pops) by (unfold Q; rewrite !app_length; lia).
      rewrite <- Hlen1 in Ep, Hwr.
      assert (Hi2 : instr = Q ++ fst (P.pcode (length rho1) (base + length ks) (st2 :: r2)) ++ post)
        by (rewrite Ep; cbn [fst]; rewrite Hi; unfold Q; rewrite <- !app_assoc; reflexivity).
      assert (Hc2 : consts_at (base + length ks) (snd (P.pcode (length rho1) (base + length ks) (st2 :: r2))))
        by (rewrite Ep; exact (consts_r ks kr base Hc)).
      destruct (IH rho1 room s1 (base + length ks) Q post v1 top r Hr2 Hinv1 Hwr Hi2 Hc2 ltac:(lia) Hr) as [k2 [s2 Hrun2]].
      rewrite Ep in Hrun2. cbn [fst] in Hrun2.
      assert (Hglue : exists k0, forall f, runs (k0 + f) (length pre) [] s = runs f (length Q) [] s1).
      { destruct (P.is_expr_stmt st) eqn:Ex; subst pops.
        - exists (k + 1). intros f. rewrite <- Nat.add_assoc, Hrun. cbn [Nat.add].
          assert (Hx : instr = (pre ++ cc) ++ opPopTop :: (cr ++ post)) by (rewrite Hi, <- !app_assoc; reflexivity).
          rewrite (step_pop f (length pre + length cc) [] (inj v1) s1) by (rewrite Hx, <- app_length; apply at0).
          rewrite HQ. cbn [length]. replace (length pre + length cc + 1) with (S (length pre + length cc)) by lia. reflexivity.
        - exists k. intros f. rewrite Hrun, HQ. cbn [length]. rewrite Nat.add_0_r. reflexivity. }
      destruct Hglue as [k0 Hk0].
      exists (k0 + k2), s2.
      assert (Hpos2 : length pre + length (cc ++ pops ++ cr) = length Q + length cr)
        by (rewrite HQ, !app_length; lia).
      destruct r as [[rho2 vv]|xx].
      + destruct Hrun2 as [Hinv2 Hrun2]. split; [exact Hinv2|]. intros f.
        rewrite <- Nat.add_assoc, Hk0, Hrun2, Hpos2. reflexivity.
      + intros f. rewrite <- Nat.add_assoc, Hk0. apply Hrun2.
  Qed.

  (* a whole block: Nil for an empty one *)
  Lemma vm_block n : stmt_vm n -> forall l rho room s base pre post r,
    vm_inv rho room s -> P.wf_stmts false (length rho) l = true ->
    instr = pre ++ fst (P.block_code (length rho) base l) ++ post ->
    consts_at base (snd (P.block_code (length rho) base l)) ->
    below + P.max_need l <= MAXSTACK ->
    P.run_stmts n rho l F.VNil = Some r ->
    after r room s (length pre) (length pre + length (fst (P.block_code (length rho) base l))) (fun v => [inj v]).
  Proof.
    intros Hst l rho room s base pre post r Hinv Hwf Hi Hc Hn Hr. destruct l as [|st r0].
    - rewrite PF.block_code_nil in *. cbn [fst snd] in *. cbn in Hr. inversion Hr; subst r.
      exists 1, s. split; [exact Hinv|]. intros f. cbn [Nat.add length].
      rewrite (step_push tabs c below frames free defers is_main s f (length pre) [] opNil VNil);
        [rewrite Nat.add_1_r; reflexivity|rewrite Hi; apply at0|auto|pose proof (PF.max_need_pos []); cbn [length]; lia].
    - assert (Hne : st :: r0 <> []) by discriminate.
      rewrite PF.block_code_cons in *.
      rewrite <- (Nat.add_0_l room) in Hinv. rewrite <- (PF.wf_false_ndecls _ _ Hwf) in Hinv.
      exact (vm_list n Hst (st :: r0) rho room s base pre post F.VNil false r Hne Hinv Hwf Hi Hc Hn Hr).
  Qed.

  (* the condition loop; kk = number of declared variables (constant while the loop runs) *)
  Lemma vm_loop cnd b base pre post kk :
    instr = pre ++ fst (P.stmt_code kk base (P.SWhile cnd b)) ++ post ->
    consts_at base (snd (P.stmt_code kk base (P.SWhile cnd b))) ->
    below + P.sneed (P.SWhile cnd b) <= MAXSTACK ->
    F.wf kk cnd = true -> P.wf_stmts false kk b = true ->
    forall m, (forall j, j < m -> stmt_vm j) ->
    forall rho room s r, length rho = kk -> vm_inv rho room s ->
    P.run_stmt m rho (P.SWhile cnd b) = Some r ->
    after r room s (length pre) (length pre + length (fst (P.stmt_code kk base (P.SWhile cnd b)))) (fun _ => []).
  Proof.
    intros Hi Hc Hn Hwc Hwb.
    rewrite PF.code_SWhile in *. rewrite PF.sneed_SWhile in Hn.
    destruct (F.cexp base cnd) as [cc kc] eqn:Ec.
    destruct (P.block_code kk (base + length kc) b) as [cb kb] eqn:Eb. cbn [fst snd] in *.
    set (off := (F.nlenN cb + 6)%N) in *. set (jb := (F.nlenN cc + 2 + F.nlenN cb + 1)%N) in *.
    assert (Hoff : N.to_nat off = length cb + 6) by (unfold off, F.nlenN; rewrite N2Nat.inj_add, Nat2N.id; reflexivity).
    assert (Hjb : N.to_nat jb = length cc + 2 + length cb + 1)
      by (unfold jb, F.nlenN; rewrite !N2Nat.inj_add, !Nat2N.id; reflexivity).
    assert (Hlen : length (cc ++ [opPopJumpForwardIfFalse; off] ++ cb ++ [opPopTop; opJumpBackward; jb; opNop]) =
                   length cc + 2 + length cb + 4) by (rewrite !app_length; cbn [length]; lia).
    set (Pp := pre ++ cc).
    assert (HP : length Pp = length pre + length cc) by (unfold Pp; apply app_length).
    set (Q := Pp ++ [opPopJumpForwardIfFalse; off]).
    assert (HQ : length Q = length Pp + 2) by (unfold Q; rewrite app_length; reflexivity).
    set (R := Q ++ cb).
    assert (HR : length R = length Q + length cb) by (unfold R; apply app_length).
    assert (Hic : instr = pre ++ fst (F.cexp base cnd) ++ ([opPopJumpForwardIfFalse; off] ++ cb ++ [opPopTop; opJumpBackward; jb; opNop] ++ post))
      by (rewrite Ec; cbn [fst]; rewrite Hi, <- !app_assoc; reflexivity).
    assert (Hkc : consts_at base (snd (F.cexp base cnd))) by (rewrite Ec; exact (consts_l kc kb base Hc)).
    assert (Hc1 : instr = Pp ++ opPopJumpForwardIfFalse :: off :: (cb ++ [opPopTop; opJumpBackward; jb; opNop] ++ post))
      by (rewrite Hi; unfold Pp; rewrite <- !app_assoc; reflexivity).
    assert (Hib : instr = Q ++ fst (P.block_code kk (base + length kc) b) ++ ([opPopTop; opJumpBackward; jb; opNop] ++ post))
      by (rewrite Eb; cbn [fst]; rewrite Hi; unfold Q, Pp; rewrite <- !app_assoc; reflexivity).
    assert (Hkb : consts_at (base + length kc) (snd (P.block_code kk (base + length kc) b)))
      by (rewrite Eb; exact (consts_r kc kb base Hc)).
    assert (Hpop : instr = R ++ opPopTop :: (opJumpBackward :: jb :: opNop :: post))
      by (rewrite Hi; unfold R, Q, Pp; rewrite <- !app_assoc; reflexivity).
    assert (Hjmp : instr = (R ++ [opPopTop]) ++ opJumpBackward :: jb :: (opNop :: post))
      by (rewrite Hi; unfold R, Q, Pp; rewrite <- !app_assoc; reflexivity).
    assert (HR1 : length (R ++ [opPopTop]) = S (length R)) by (rewrite app_length; cbn [length]; lia).
    induction m as [|m IH]; intros Hst rho room s r Hkk Hinv Hr; [discriminate|].
    rewrite PF.run_SWhile in Hr.
    pose proof (vm_inv_globals_ok rho room s Hinv) as Hg.
    rewrite <- Hkk in Hwc.
    destruct (vm_scalar tabs c below frames free defers is_main s rho Hg cnd base pre _ [] Hwc Hic Hkc ltac:(cbn [length]; lia)) as [n1 Hr1].
    rewrite Ec in Hr1. cbn [fst] in Hr1. unfold outcome_of in Hr1. rewrite <- HP in Hr1.
    destruct (F.sev rho cnd) as [vc|xc].
    2:{ inversion Hr; subst r. exists n1, s. exact Hr1. }
    assert (Hs1 : forall f, runs (S f) (length Pp) [inj vc] s =
                            runs f (if F.struthy vc then length Pp + 2 else length Pp + (length cb + 6)) [] s).
    { intros f.
      rewrite (step_popjump tabs c below frames free defers is_main s f (length Pp) [] (inj vc) (F.struthy vc) opPopJumpForwardIfFalse);
        [|rewrite Hc1; apply at0|auto|apply truthy_inj].
      assert (E : nth (length Pp + 1) instr 0%N = off) by (rewrite Hc1; apply at1).
      rewrite E, Hoff. change (opPopJumpForwardIfFalse =? 12)%N with true. cbn iota.
      destruct (F.struthy vc); reflexivity. }
    destruct (F.struthy vc) eqn:Etr.
    2:{ (* the loop ends *)
        inversion Hr; subst r. exists (n1 + 1), s. split; [exact Hinv|]. intros f.
        rewrite <- Nat.add_assoc, Hr1. cbn [Nat.add]. rewrite Hs1, Hlen, HP.
        replace (length pre + length cc + (length cb + 6)) with (length pre + (length cc + 2 + length cb + 4)) by lia.
        reflexivity. }
    (* one round: body, PopTop, JumpBackward *)
    rewrite <- Hkk in Hwb, Hib, Hkb.
    destruct (P.run_stmts m rho b F.VNil) as [[[rho1 v1]|xb]|] eqn:Erb; [| |discriminate].
    - destruct (vm_block m (Hst m ltac:(lia)) b rho room s (base + length kc) Q _ _ Hinv Hwb Hib Hkb ltac:(lia) Erb)
        as [n2 [s1 [Hinv1 Hr2]]].
      rewrite Hkk, Eb in Hr2. cbn [fst] in Hr2.
      pose proof (PF.run_stmts_length m b rho F.VNil rho1 v1 Hwb Erb) as Hl1.
      destruct (IH ltac:(intros j Hj; apply Hst; lia) rho1 room s1 r ltac:(lia) Hinv1 Hr) as [n3 [s3 Hr3]].
      assert (Hround : forall f, runs (n1 + (1 + (n2 + (1 + (1 + f))))) (length pre) [] s = runs f (length pre) [] s1).
      { intros f. rewrite Hr1. replace (1 + (n2 + (1 + (1 + f)))) with (S (n2 + (S (S f)))) by lia.
        rewrite Hs1, <- HQ, Hr2, <- HR.
        rewrite (step_pop (S f) (length R) [] (inj v1) s1) by (rewrite Hpop; apply at0).
        rewrite (step_jumpback f (S (length R)) [] s1) by (rewrite Hjmp, <- HR1; apply at0).
        assert (E : nth (S (length R) + 1) instr 0%N = jb) by (rewrite Hjmp, <- HR1; apply at1).
        rewrite E, Hjb, HR, HQ, HP.
        replace (S (length pre + length cc + 2 + length cb) - (length cc + 2 + length cb + 1)) with (length pre) by lia.
        reflexivity. }
      exists (n1 + (1 + (n2 + (1 + (1 + n3))))), s3.
      destruct r as [[rho3 v3]|x3].
      + destruct Hr3 as [Hinv3 Hr3]. split; [exact Hinv3|]. intros f.
        replace (n1 + (1 + (n2 + (1 + (1 + n3)))) + f) with (n1 + (1 + (n2 + (1 + (1 + (n3 + f)))))) by lia.
        rewrite Hround. apply Hr3.
      + intros f. replace (n1 + (1 + (n2 + (1 + (1 + n3)))) + f) with (n1 + (1 + (n2 + (1 + (1 + (n3 + f)))))) by lia.
        rewrite Hround. apply Hr3.
    - destruct (vm_block m (Hst m ltac:(lia)) b rho room s (base + length kc) Q _ _ Hinv Hwb Hib Hkb ltac:(lia) Erb)
        as [n2 [s1 Hr2]].
      inversion Hr; subst r. exists (n1 + (1 + n2)), s1. intros f.
      rewrite <- Nat.add_assoc, Hr1. replace (1 + n2 + f) with (S (n2 + f)) by lia. rewrite Hs1, <- HQ. apply Hr2.
  Qed.

  Theorem vm_stmt : forall n, stmt_vm n.
  Proof.
    induction n as [n IH] using lt_wf_ind.
    destruct n as [|n]; [intros st rho room s base pre post top r _ _ _ _ _ Hr; discriminate|].
    intros st rho room s base pre post top r Hinv Hwf Hi Hc Hn Hr.
    destruct st as [e|i e|e|cnd t el|cnd t|cnd b].
    - (* x := e *)
      cbn [P.stmt_code P.wf_stmt P.is_expr_stmt P.run_stmt P.sneed P.ndecls Nat.add] in *.
      apply andb_true_iff in Hwf. destruct Hwf as [_ Hwf].
      destruct (F.cexp base e) as [ce ke] eqn:Ee. cbn [fst snd] in *.
      assert (Hi' : instr = pre ++ fst (F.cexp base e) ++ [opStoreGlobal; N.of_nat (length rho)] ++ post)
        by (rewrite Ee; cbn [fst]; rewrite Hi, <- !app_assoc; reflexivity).
      assert (Hc' : consts_at base (snd (F.cexp base e))) by (rewrite Ee; exact Hc).
      destruct (vm_store rho _ s e base pre post (length rho) Hinv Hwf Hi' Hc' Hn) as [k Hk].
      rewrite Ee in Hk. cbn [fst] in Hk.
      destruct (F.sev rho e) as [v|x]; inversion Hr; subst r.
      + exists k, (upd_globals s (lset (globals s) (length rho) (inj v))).
        split; [apply vm_inv_decl; exact Hinv|exact Hk].
      + exists k, s. exact Hk.
    - (* x = e *)
      cbn [P.stmt_code P.wf_stmt P.is_expr_stmt P.run_stmt P.sneed P.ndecls Nat.add] in *.
      apply andb_true_iff in Hwf. destruct Hwf as [Hilt Hwf]. apply Nat.ltb_lt in Hilt.
      destruct (F.cexp base e) as [ce ke] eqn:Ee. cbn [fst snd] in *.
      assert (Hi' : instr = pre ++ fst (F.cexp base e) ++ [opStoreGlobal; N.of_nat i] ++ post)
        by (rewrite Ee; cbn [fst]; rewrite Hi, <- !app_assoc; reflexivity).
      assert (Hc' : consts_at base (snd (F.cexp base e))) by (rewrite Ee; exact Hc).
      destruct (vm_store rho _ s e base pre post i Hinv Hwf Hi' Hc' Hn) as [k Hk].
      rewrite Ee in Hk. cbn [fst] in Hk.
      destruct (F.sev rho e) as [v|x]; inversion Hr; subst r.
      + exists k, (upd_globals s (lset (globals s) i (inj v))).
        split; [apply vm_inv_set; assumption|exact Hk].
      + exists k, s. exact Hk.
    - (* e *)
      cbn [P.stmt_code P.wf_stmt P.is_expr_stmt P.run_stmt P.sneed P.ndecls Nat.add] in *.
      pose proof (vm_inv_globals_ok rho _ s Hinv) as Hg.
      destruct (vm_scalar tabs c below frames free defers is_main s rho Hg e base pre post [] Hwf Hi Hc ltac:(cbn [length]; lia)) as [k Hk].
      unfold outcome_of in Hk. exists k, s.
      destruct (F.sev rho e) as [v|x]; inversion Hr; subst r; [split; [exact Hinv|]|]; exact Hk.
    - (* if *)
      pose proof (vm_inv_globals_ok rho _ s Hinv) as Hg.
      rewrite PF.wf_SIf in Hwf. apply andb_true_iff in Hwf. destruct Hwf as [Hwct Hwe].
      apply andb_true_iff in Hwct. destruct Hwct as [Hwc Hwt].
      rewrite PF.code_SIf in *. rewrite PF.sneed_SIf in Hn. rewrite PF.run_SIf in Hr.
      cbn [P.ndecls Nat.add P.is_expr_stmt] in *.
      destruct (F.cexp base cnd) as [cc kc] eqn:Ec.
      destruct (P.block_code (length rho) (base + length kc) t) as [ct kt] eqn:Et.
      destruct (P.block_code (length rho) (base + length kc + length kt) el) as [ce ke] eqn:Ee. cbn [fst snd] in *.
      set (offF := (F.nlenN ct + 4)%N) in *. set (offJ := (F.nlenN ce + 2)%N) in *.
      assert (HoffF : N.to_nat offF = length ct + 4) by (unfold offF, F.nlenN; rewrite N2Nat.inj_add, Nat2N.id; reflexivity).
      assert (HoffJ : N.to_nat offJ = length ce + 2) by (unfold offJ, F.nlenN; rewrite N2Nat.inj_add, Nat2N.id; reflexivity).
      assert (Hlen : length (cc ++ [opPopJumpForwardIfFalse; offF] ++ ct ++ [opJumpForward; offJ] ++ ce) =
                     length cc + 2 + length ct + 2 + length ce) by (rewrite !app_length; cbn [length]; lia).
      (* the condition *)
      assert (Hic : instr = pre ++ fst (F.cexp base cnd) ++ ([opPopJumpForwardIfFalse; offF] ++ ct ++ [opJumpForward; offJ] ++ ce ++ post))
        by (rewrite Ec; cbn [fst]; rewrite Hi, <- !app_assoc; reflexivity).
      assert (Hkc : consts_at base (snd (F.cexp base cnd))) by (rewrite Ec; exact (consts_l kc (kt ++ ke) base Hc)).
      destruct (vm_scalar tabs c below frames free defers is_main s rho Hg cnd base pre _ [] Hwc Hic Hkc ltac:(cbn [length]; lia)) as [n1 Hr1].
      rewrite Ec in Hr1. cbn [fst] in Hr1. unfold outcome_of in Hr1.
      destruct (F.sev rho cnd) as [vc|xc].
      2:{ inversion Hr; subst r. exists n1, s. exact Hr1. }
      set (Pp := pre ++ cc).
      assert (HP : length Pp = length pre + length cc) by (unfold Pp; apply app_length).
      assert (Hc1 : instr = Pp ++ opPopJumpForwardIfFalse :: offF :: (ct ++ [opJumpForward; offJ] ++ ce ++ post))
        by (rewrite Hi; unfold Pp; rewrite <- !app_assoc; reflexivity).
      assert (Hs1 : forall f, runs (S f) (length Pp) [inj vc] s =
                              runs f (if F.struthy vc then length Pp + 2 else length Pp + (length ct + 4)) [] s).
      { intros f.
        rewrite (step_popjump tabs c below frames free defers is_main s f (length Pp) [] (inj vc) (F.struthy vc) opPopJumpForwardIfFalse);
          [|rewrite Hc1; apply at0|auto|apply truthy_inj].
        assert (E : nth (length Pp + 1) instr 0%N = offF) by (rewrite Hc1; apply at1).
        rewrite E, HoffF. change (opPopJumpForwardIfFalse =? 12)%N with true. cbn iota.
        destruct (F.struthy vc); reflexivity. }
      pose proof (consts_r kc (kt ++ ke) base Hc) as Hkrest.
      destruct (F.struthy vc) eqn:Etr.
      + (* then-branch, followed by the jump over the else-branch *)
        set (Q := Pp ++ [opPopJumpForwardIfFalse; offF]).
        assert (HQ : length Q = length Pp + 2) by (unfold Q; rewrite app_length; reflexivity).
        assert (Hit : instr = Q ++ fst (P.block_code (length rho) (base + length kc) t) ++ ([opJumpForward; offJ] ++ ce ++ post))
          by (rewrite Et; cbn [fst]; rewrite Hi; unfold Q, Pp; rewrite <- !app_assoc; reflexivity).
        assert (Hkt : consts_at (base + length kc) (snd (P.block_code (length rho) (base + length kc) t)))
          by (rewrite Et; exact (consts_l kt ke _ Hkrest)).
        destruct (vm_block n (IH n ltac:(lia)) t rho room s (base + length kc) Q _ r Hinv Hwt Hit Hkt ltac:(lia) Hr) as [n2 [s2 Hr2]].
        rewrite Et in Hr2. cbn [fst] in Hr2. rewrite HQ in Hr2.
        destruct r as [[rho' v]|x].
        * destruct Hr2 as [Hinv2 Hr2].
          exists (n1 + (1 + (n2 + 1))), s2. split; [exact Hinv2|]. intros f.
          rewrite <- Nat.add_assoc, Hr1, <- HP.
          replace (1 + (n2 + 1) + f) with (S (n2 + S f)) by lia. rewrite Hs1, Hr2.
          assert (Hj : instr = (Q ++ ct) ++ opJumpForward :: offJ :: (ce ++ post))
            by (rewrite Hi; unfold Q, Pp; rewrite <- !app_assoc; reflexivity).
          assert (HQt : length (Q ++ ct) = length Pp + 2 + length ct) by (rewrite app_length, HQ; reflexivity).
          rewrite (step_jump tabs c below frames free defers is_main s2 f (length Pp + 2 + length ct) [inj v]); [|rewrite Hj, <- HQt; apply at0].
          assert (E : nth (length Pp + 2 + length ct + 1) instr 0%N = offJ) by (rewrite Hj, <- HQt; apply at1).
          rewrite E, HoffJ, Hlen.
          replace (length pre + (length cc + 2 + length ct + 2 + length ce)) with (length Pp + 2 + length ct + (length ce + 2)) by lia.
          reflexivity.
        * exists (n1 + (1 + n2)), s2. intros f.
          rewrite <- Nat.add_assoc, Hr1, <- HP. replace (1 + n2 + f) with (S (n2 + f)) by lia. rewrite Hs1. exact (Hr2 f).
      + (* else-branch *)
        set (Q := Pp ++ [opPopJumpForwardIfFalse; offF] ++ ct ++ [opJumpForward; offJ]).
        assert (HQ : length Q = length Pp + (length ct + 4)) by (unfold Q; rewrite !app_length; cbn [length]; lia).
        assert (Hie : instr = Q ++ fst (P.block_code (length rho) (base + length kc + length kt) el) ++ post)
          by (rewrite Ee; cbn [fst]; rewrite Hi; unfold Q, Pp; rewrite <- !app_assoc; reflexivity).
        assert (Hke : consts_at (base + length kc + length kt) (snd (P.block_code (length rho) (base + length kc + length kt) el)))
          by (rewrite Ee; exact (consts_r kt ke _ Hkrest)).
        destruct (vm_block n (IH n ltac:(lia)) el rho room s (base + length kc + length kt) Q post r Hinv Hwe Hie Hke ltac:(lia) Hr) as [n2 [s2 Hr2]].
        rewrite Ee in Hr2. cbn [fst] in Hr2. rewrite HQ in Hr2.
        exists (n1 + (1 + n2)), s2.
        destruct r as [[rho' v]|x].
        * destruct Hr2 as [Hinv2 Hr2]. split; [exact Hinv2|]. intros f.
          rewrite <- Nat.add_assoc, Hr1, <- HP. replace (1 + n2 + f) with (S (n2 + f)) by lia. rewrite Hs1.
          rewrite Hr2, Hlen.
          replace (length pre + (length cc + 2 + length ct + 2 + length ce)) with (length Pp + (length ct + 4) + length ce) by lia.
          reflexivity.
        * intros f. rewrite <- Nat.add_assoc, Hr1, <- HP. replace (1 + n2 + f) with (S (n2 + f)) by lia. rewrite Hs1. exact (Hr2 f).
    - (* if without else: the else-branch is a lone Nil *)
      pose proof (vm_inv_globals_ok rho _ s Hinv) as Hg.
      rewrite PF.wf_SIf1 in Hwf. apply andb_true_iff in Hwf. destruct Hwf as [Hwc Hwt].
      rewrite PF.code_SIf1 in *. rewrite PF.sneed_SIf1 in Hn. rewrite PF.run_SIf1 in Hr.
      cbn [P.ndecls Nat.add P.is_expr_stmt] in *.
      destruct (F.cexp base cnd) as [cc kc] eqn:Ec.
      destruct (P.block_code (length rho) (base + length kc) t) as [ct kt] eqn:Et. cbn [fst snd] in *.
      set (offF := (F.nlenN ct + 4)%N) in *.
      assert (HoffF : N.to_nat offF = length ct + 4) by (unfold offF, F.nlenN; rewrite N2Nat.inj_add, Nat2N.id; reflexivity).
      assert (Hlen : length (cc ++ [opPopJumpForwardIfFalse; offF] ++ ct ++ [opJumpForward; 3%N] ++ [opNil]) =
                     length cc + 2 + length ct + 2 + 1) by (rewrite !app_length; cbn [length]; lia).
      assert (Hic : instr = pre ++ fst (F.cexp base cnd) ++ ([opPopJumpForwardIfFalse; offF] ++ ct ++ [opJumpForward; 3%N] ++ [opNil] ++ post))
        by (rewrite Ec; cbn [fst]; rewrite Hi, <- !app_assoc; reflexivity).
      assert (Hkc : consts_at base (snd (F.cexp base cnd))) by (rewrite Ec; exact (consts_l kc kt base Hc)).
      destruct (vm_scalar tabs c below frames free defers is_main s rho Hg cnd base pre _ [] Hwc Hic Hkc ltac:(cbn [length]; lia)) as [n1 Hr1].
      rewrite Ec in Hr1. cbn [fst] in Hr1. unfold outcome_of in Hr1.
      destruct (F.sev rho cnd) as [vc|xc].
      2:{ inversion Hr; subst r. exists n1, s. exact Hr1. }
      set (Pp := pre ++ cc).
      assert (HP : length Pp = length pre + length cc) by (unfold Pp; apply app_length).
      assert (Hc1 : instr = Pp ++ opPopJumpForwardIfFalse :: offF :: (ct ++ [opJumpForward; 3%N] ++ [opNil] ++ post))
        by (rewrite Hi; unfold Pp; rewrite <- !app_assoc; reflexivity).
      assert (Hs1 : forall f, runs (S f) (length Pp) [inj vc] s =
                              runs f (if F.struthy vc then length Pp + 2 else length Pp + (length ct + 4)) [] s).
      { intros f.
        rewrite (step_popjump tabs c below frames free defers is_main s f (length Pp) [] (inj vc) (F.struthy vc) opPopJumpForwardIfFalse);
          [|rewrite Hc1; apply at0|auto|apply truthy_inj].
        assert (E : nth (length Pp + 1) instr 0%N = offF) by (rewrite Hc1; apply at1).
        rewrite E, HoffF. change (opPopJumpForwardIfFalse =? 12)%N with true. cbn iota.
        destruct (F.struthy vc); reflexivity. }
      destruct (F.struthy vc) eqn:Etr.
      + (* the block, followed by the jump over the Nil *)
        set (Q := Pp ++ [opPopJumpForwardIfFalse; offF]).
        assert (HQ : length Q = length Pp + 2) by (unfold Q; rewrite app_length; reflexivity).
        assert (Hit : instr = Q ++ fst (P.block_code (length rho) (base + length kc) t) ++ ([opJumpForward; 3%N] ++ [opNil] ++ post))
          by (rewrite Et; cbn [fst]; rewrite Hi; unfold Q, Pp; rewrite <- !app_assoc; reflexivity).
        assert (Hkt : consts_at (base + length kc) (snd (P.block_code (length rho) (base + length kc) t)))
          by (rewrite Et; exact (consts_r kc kt base Hc)).
        destruct (vm_block n (IH n ltac:(lia)) t rho room s (base + length kc) Q _ r Hinv Hwt Hit Hkt ltac:(lia) Hr) as [n2 [s2 Hr2]].
        rewrite Et in Hr2. cbn [fst] in Hr2. rewrite HQ in Hr2.
        destruct r as [[rho' v]|x].
        * destruct Hr2 as [Hinv2 Hr2].
          exists (n1 + (1 + (n2 + 1))), s2. split; [exact Hinv2|]. intros f.
          rewrite <- Nat.add_assoc, Hr1, <- HP.
          replace (1 + (n2 + 1) + f) with (S (n2 + S f)) by lia. rewrite Hs1, Hr2.
          assert (Hj : instr = (Q ++ ct) ++ opJumpForward :: 3%N :: ([opNil] ++ post))
            by (rewrite Hi; unfold Q, Pp; rewrite <- !app_assoc; reflexivity).
          assert (HQt : length (Q ++ ct) = length Pp + 2 + length ct) by (rewrite app_length, HQ; reflexivity).
          rewrite (step_jump tabs c below frames free defers is_main s2 f (length Pp + 2 + length ct) [inj v]); [|rewrite Hj, <- HQt; apply at0].
          assert (E : nth (length Pp + 2 + length ct + 1) instr 0%N = 3%N) by (rewrite Hj, <- HQt; apply at1).
          rewrite E, Hlen. change (N.to_nat 3) with 3.
          replace (length pre + (length cc + 2 + length ct + 2 + 1)) with (length Pp + 2 + length ct + 3) by lia.
          reflexivity.
        * exists (n1 + (1 + n2)), s2. intros f.
          rewrite <- Nat.add_assoc, Hr1, <- HP. replace (1 + n2 + f) with (S (n2 + f)) by lia. rewrite Hs1. exact (Hr2 f).
      + (* the condition is false: Nil *)
        inversion Hr; subst r. clear Hr.
        set (Q := Pp ++ [opPopJumpForwardIfFalse; offF] ++ ct ++ [opJumpForward; 3%N]).
        assert (HQ : length Q = length Pp + (length ct + 4)) by (unfold Q; rewrite !app_length; cbn [length]; lia).
        assert (Hnil : instr = Q ++ opNil :: post) by (rewrite Hi; unfold Q, Pp; rewrite <- !app_assoc; reflexivity).
        exists (n1 + (1 + 1)), s. split; [exact Hinv|]. intros f.
        rewrite <- Nat.add_assoc, Hr1, <- HP. replace (1 + 1 + f) with (S (S f)) by lia. rewrite Hs1, <- HQ.
        rewrite (step_push tabs c below frames free defers is_main s f (length Q) [] opNil VNil);
          [|rewrite Hnil; apply at0|auto|pose proof (need_pos cnd); cbn [length]; lia].
        rewrite Hlen, HQ.
        replace (length pre + (length cc + 2 + length ct + 2 + 1)) with (S (length Pp + (length ct + 4))) by lia.
        reflexivity.
    - (* for *)
      rewrite PF.wf_SWhile in Hwf. apply andb_true_iff in Hwf. destruct Hwf as [Hwc Hwb].
      cbn [P.ndecls Nat.add P.is_expr_stmt] in *.
      exact (vm_loop cnd b base pre post (length rho) Hi Hc Hn Hwc Hwb (S n) ltac:(intros j Hj; apply IH; lia)
               rho room s r eq_refl Hinv Hr).
  Qed.

  Lemma vm_prog n : forall l rho room s base pre post last r,
    l <> [] -> vm_inv rho (P.ndecls l + room) s -> P.wf_stmts true (length rho) l = true ->
    instr = pre ++ fst (P.pcode (length rho) base l) ++ post ->
    consts_at base (snd (P.pcode (length rho) base l)) ->
    below + P.max_need l <= MAXSTACK ->
    P.run_stmts n rho l last = Some r ->
    after r room s (length pre) (length pre + length (fst (P.pcode (length rho) base l))) (fun v => [inj v]).
  Proof. intros l rho room s base pre post last r. exact (vm_list n (vm_stmt n) l rho room s base pre post last true r). Qed.
End VarVM.
