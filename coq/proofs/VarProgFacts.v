(* unfolding lemmas and small facts about model/VarProg.v, shared by the three proofs about programs *)
From Coq Require Import List ZArith NArith Bool Arith Lia.
Require Import RV.model.Syntax RV.model.Compiler RV.model.ScalarFrag RV.model.VarProg.
Import ListNotations.
Local Open Scope nat_scope.

Definition next_n (n : nat) (s : stmt) : nat := match s with SDecl _ => S n | _ => n end.

Lemma embed_stmts_cons names k scope s r :
  embed_stmts names k scope (s :: r) = embed_stmt names k scope s :: embed_stmts names (k + nd s) (next_scope k scope s) r.
Proof. reflexivity. Qed.
Lemma embed_SIf names k scope c t e : embed_stmt names k scope (SIf c t e) =
  NIf (embed (vnames names scope) c) (embed_stmts names k scope t) (Some (embed_stmts names (k + ndecls t) scope e)).
Proof. reflexivity. Qed.
Lemma embed_SIf1 names k scope c t : embed_stmt names k scope (SIf1 c t) =
  NIf (embed (vnames names scope) c) (embed_stmts names k scope t) None.
Proof. reflexivity. Qed.
Lemma embed_SWhile names k scope c b : embed_stmt names k scope (SWhile c b) =
  NFor (Some (embed (vnames names scope) c)) None None (embed_stmts names k scope b).
Proof. reflexivity. Qed.

Lemma embed_SLoop names k scope b : embed_stmt names k scope (SLoop b) = NFor None None None (embed_stmts names k scope b).
Proof. reflexivity. Qed.
Lemma embed_SFor names k scope e c p b : embed_stmt names k scope (SFor e c p b) =
  NFor (Some (embed (vnames names (scope ++ [k])) c)) (Some (NVar (nth k names []) (embed (vnames names scope) e)))
       (Some (embed_stmt names (S k) (scope ++ [k]) p)) (embed_stmts names (S k) (scope ++ [k]) b).
Proof. reflexivity. Qed.

Lemma wf_stmts_cons lp n s r : wf_stmts lp n (s :: r) = wf_stmt lp n s && wf_stmts lp (next_n n s) r.
Proof. reflexivity. Qed.
Lemma wf_SIf lp n c t e : wf_stmt lp n (SIf c t e) = wf n c && wf_stmts lp n t && wf_stmts lp n e.
Proof. reflexivity. Qed.
Lemma wf_SIf1 lp n c t : wf_stmt lp n (SIf1 c t) = wf n c && wf_stmts lp n t.
Proof. reflexivity. Qed.
Lemma wf_SWhile lp n c b : wf_stmt lp n (SWhile c b) = wf n c && wf_stmts true n b.
Proof. reflexivity. Qed.

Lemma wf_SLoop lp n b : wf_stmt lp n (SLoop b) = wf_stmts true n b.
Proof. reflexivity. Qed.
Lemma wf_SFor lp n e c p b : wf_stmt lp n (SFor e c p b) =
  wf n e && wf (S n) c && is_simple p && wf_stmt lp (S n) p && wf_stmts true (S n) b.
Proof. reflexivity. Qed.

Lemma ndecls_cons s r : ndecls (s :: r) = nd s + ndecls r.
Proof. reflexivity. Qed.
Lemma nd_SIf c t e : nd (SIf c t e) = ndecls t + ndecls e.
Proof. reflexivity. Qed.
Lemma nd_SIf1 c t : nd (SIf1 c t) = ndecls t.
Proof. reflexivity. Qed.
Lemma nd_SWhile c b : nd (SWhile c b) = ndecls b.
Proof. reflexivity. Qed.
Lemma nd_SLoop b : nd (SLoop b) = ndecls b.
Proof. reflexivity. Qed.
Lemma nd_SFor e c p b : nd (SFor e c p b) = S (ndecls b).
Proof. reflexivity. Qed.
Lemma nd_simple p : is_simple p = true -> nd p = 0.
Proof. destruct p; try discriminate; reflexivity. Qed.
Lemma next_scope_length k scope s : length (next_scope k scope s) = next_n (length scope) s.
Proof. destruct s; cbn [next_scope next_n]; try reflexivity. rewrite app_length. cbn. lia. Qed.

Lemma max_height_cons s r : max_height (s :: r) = Nat.max (sheight s) (max_height r).
Proof. reflexivity. Qed.
Lemma max_need_cons s r : max_need (s :: r) = Nat.max (sneed s) (max_need r).
Proof. reflexivity. Qed.
Lemma sheight_SIf c t e : sheight (SIf c t e) = S (Nat.max (height c) (Nat.max (max_height t) (max_height e))).
Proof. reflexivity. Qed.
Lemma sheight_SIf1 c b : sheight (SIf1 c b) = S (Nat.max (height c) (max_height b)).
Proof. reflexivity. Qed.
Lemma sheight_SWhile c b : sheight (SWhile c b) = S (Nat.max (height c) (max_height b)).
Proof. reflexivity. Qed.
Lemma sheight_SLoop b : sheight (SLoop b) = S (max_height b).
Proof. reflexivity. Qed.
Lemma sneed_SLoop b : sneed (SLoop b) = max_need b.
Proof. reflexivity. Qed.
Lemma sheight_SFor e c p b : sheight (SFor e c p b) = S (Nat.max (height e) (Nat.max (height c) (Nat.max (sheight p) (max_height b)))).
Proof. reflexivity. Qed.
Lemma sneed_SFor e c p b : sneed (SFor e c p b) = Nat.max (need e) (Nat.max (need c) (Nat.max (sneed p) (max_need b))).
Proof. reflexivity. Qed.
Lemma sneed_SIf c t e : sneed (SIf c t e) = Nat.max (need c) (Nat.max (max_need t) (max_need e)).
Proof. reflexivity. Qed.
Lemma sneed_SIf1 c b : sneed (SIf1 c b) = Nat.max (need c) (max_need b).
Proof. reflexivity. Qed.
Lemma sneed_SWhile c b : sneed (SWhile c b) = Nat.max (need c) (max_need b).
Proof. reflexivity. Qed.
Lemma need_pos e : 1 <= need e.
Proof. induction e; cbn [need]; lia. Qed.
Lemma max_need_pos l : 1 <= max_need l.
Proof. induction l as [|s r IH]; [cbn; lia|rewrite max_need_cons; lia]. Qed.
Lemma sneed_pos s : 1 <= sneed s.
Proof.
  destruct s as [e|i e|i o e|i up|e|c t e|c t|c b|b|e c p b| |]; try (cbn [sneed]; apply need_pos); try (cbn [sneed]; lia).
  - rewrite sneed_SIf. pose proof (need_pos c). lia.
  - rewrite sneed_SIf1. pose proof (need_pos c). lia.
  - rewrite sneed_SWhile. pose proof (need_pos c). lia.
  - rewrite sneed_SLoop. apply max_need_pos.
  - rewrite sneed_SFor. pose proof (need_pos c). lia.
Qed.

Lemma embed_is_expression names e : is_expression (embed names e) = true.
Proof. destruct e; reflexivity. Qed.
Lemma embed_stmt_is_expression names k scope s : is_expression (embed_stmt names k scope s) = is_expr_stmt s.
Proof. destruct s; try reflexivity. apply embed_is_expression. Qed.

(* ---------------------------------------------------------------- source-level meaning *)
Lemma run_stmts_cons n rho s r last : run_stmts n rho (s :: r) last =
  match run_stmt n rho s with Some (inl (rho', v)) => run_stmts n rho' r v | other => other end.
Proof. reflexivity. Qed.
Definition run_blk (n : nat) (rho : list sval) (l : list stmt) : result :=
  option_map (trunc (length rho)) (run_stmts n rho l VNil).
Lemma run_SIf n rho c t e : run_stmt (S n) rho (SIf c t e) =
  match sev rho c with
  | inl vc => run_blk n rho (if struthy vc then t else e)
  | inr x => Some (inr (StErr x))
  end.
Proof. reflexivity. Qed.
Lemma run_SIf1 n rho c t : run_stmt (S n) rho (SIf1 c t) =
  match sev rho c with
  | inl vc => if struthy vc then run_blk n rho t else Some (inl (rho, VNil))
  | inr x => Some (inr (StErr x))
  end.
Proof. reflexivity. Qed.
Lemma run_SWhile n rho c b : run_stmt (S n) rho (SWhile c b) =
  match sev rho c with
  | inl vc => if struthy vc then
                match run_blk n rho b with
                | Some (inl (rho', _)) | Some (inr (StCont rho')) => run_stmt n rho' (SWhile c b)
                | Some (inr (StBrk rho')) => Some (inl (rho', VNil))
                | other => other
                end
              else Some (inl (rho, VNil))
  | inr x => Some (inr (StErr x))
  end.
Proof. reflexivity. Qed.

Lemma run_SLoop n rho b : run_stmt (S n) rho (SLoop b) =
  match run_blk n rho b with
  | Some (inl (rho', _)) | Some (inr (StCont rho')) => run_stmt n rho' (SLoop b)
  | Some (inr (StBrk rho')) => Some (inl (rho', VNil))
  | other => other
  end.
Proof. reflexivity. Qed.
Lemma run_SFor n rho e c p b : run_stmt (S n) rho (SFor e c p b) =
  match sev rho e with
  | inl v => option_map (trunc (length rho)) (loop3 (run_stmt n) c p b n (rho ++ [v]))
  | inr x => Some (inr (StErr x))
  end.
Proof. reflexivity. Qed.
Lemma loop3_S n c p b k rho : loop3 (run_stmt n) c p b (S k) rho =
  match sev rho c with
  | inl vc => if struthy vc then
                match run_blk n rho b with
                | Some (inl (rho1, _)) | Some (inr (StCont rho1)) =>
                    match run_stmt n rho1 p with
                    | Some (inl (rho2, _)) => loop3 (run_stmt n) c p b k rho2
                    | other => other
                    end
                | Some (inr (StBrk rho1)) => Some (inl (rho1, VNil))
                | other => other
                end
              else Some (inl (rho, VNil))
  | inr x => Some (inr (StErr x))
  end.
Proof. reflexivity. Qed.

(* ---------------------------------------------------------------- emitted code *)
Lemma scode_single k scope base s : scode k scope base [s] =
  let '(c, ks) := stmt_code k scope base s in (c ++ (if is_expr_stmt s then [] else I [opNil]), ks).
Proof. reflexivity. Qed.
Lemma scode_cons2 k scope base s s2 r2 : scode k scope base (s :: s2 :: r2) =
  let '(c, ks) := stmt_code k scope base s in
  let '(cr, kr) := scode (k + nd s) (next_scope k scope s) (base + length ks) (s2 :: r2) in
  (c ++ (if is_expr_stmt s then I [opPopTop] else []) ++ cr, ks ++ kr).
Proof. reflexivity. Qed.
Lemma block_code_nil k scope base : block_code k scope base [] = (I [opNil], []).
Proof. reflexivity. Qed.
Lemma block_code_cons k scope base s r : block_code k scope base (s :: r) = scode k scope base (s :: r).
Proof. reflexivity. Qed.
Lemma code_SIf k scope base c t e : stmt_code k scope base (SIf c t e) =
  let '(cc, kc) := cexp_at (slot_of scope) base c in
  let '(ct, kt) := block_code k scope (base + length kc) t in
  let '(ce, ke) := block_code (k + ndecls t) scope (base + length kc + length kt) e in
  (I cc ++ I [opPopJumpForwardIfFalse; (nlen ct + 4)%N] ++ ct ++ I [opJumpForward; (nlen ce + 2)%N] ++ ce, kc ++ kt ++ ke).
Proof. reflexivity. Qed.
Lemma code_SIf1 k scope base c t : stmt_code k scope base (SIf1 c t) =
  let '(cc, kc) := cexp_at (slot_of scope) base c in
  let '(ct, kt) := block_code k scope (base + length kc) t in
  (I cc ++ I [opPopJumpForwardIfFalse; (nlen ct + 4)%N] ++ ct ++ I [opJumpForward; 3%N] ++ I [opNil], kc ++ kt).
Proof. reflexivity. Qed.
Lemma code_SWhile k scope base c b : stmt_code k scope base (SWhile c b) =
  let '(cc, kc) := cexp_at (slot_of scope) base c in
  let '(cb, kb) := block_code k scope (base + length kc) b in
  let inner := I cc ++ I [opPopJumpForwardIfFalse; (nlen cb + 6)%N] ++ cb ++ I [opPopTop] in
  let jb := nlen inner in
  (patch 0 (jb + 2) jb inner ++ I [opJumpBackward; jb; opNop], kc ++ kb).
Proof. reflexivity. Qed.

Lemma code_SLoop k scope base b : stmt_code k scope base (SLoop b) =
  let '(cb, kb) := block_code k scope base b in
  let inner := cb ++ I [opPopTop] in
  let jb := nlen inner in
  (patch 0 (jb + 2) jb inner ++ I [opJumpBackward; jb; opNop], kb).
Proof. reflexivity. Qed.
Lemma code_SFor k scope base e c p b : stmt_code k scope base (SFor e c p b) =
  let '(ci, ki) := cexp_at (slot_of scope) base e in
  let sc1 := scope ++ [k] in
  let '(cc, kc) := cexp_at (slot_of sc1) (base + length ki) c in
  let '(cb, kb) := block_code (S k) sc1 (base + length ki + length kc) b in
  let '(cp, kp) := stmt_code (S k) sc1 (base + length ki + length kc + length kb) p in
  let head := I cc ++ I [opPopJumpForwardIfFalse; (nlen cb + 1 + nlen cp + 2 + 2)%N] in
  let cont := (nlen head + nlen cb + 1)%N in
  let jb := (cont + nlen cp)%N in
  (I (ci ++ [opStoreGlobal; N.of_nat k]) ++ patch 0 (jb + 2) cont (head ++ cb ++ I [opPopTop] ++ cp) ++ I [opJumpBackward; jb],
   ki ++ kc ++ kb ++ kp).
Proof. reflexivity. Qed.

(* ---------------------------------------------------------------- assignment *)
Lemma set_nth_length i v rho : length (set_nth i v rho) = length rho.
Proof. revert i; induction rho as [|x r IH]; intros [|i]; cbn; auto. Qed.
Lemma nth_set_nth_same i v rho d : i < length rho -> nth i (set_nth i v rho) d = v.
Proof. revert i; induction rho as [|x r IH]; intros [|i] H; cbn in *; try lia; [reflexivity|apply IH; lia]. Qed.
Lemma nth_set_nth_other i j v rho d : i <> j -> nth j (set_nth i v rho) d = nth j rho d.
Proof. revert i j; induction rho as [|x r IH]; intros [|i] [|j] H; cbn; try reflexivity; try lia. apply IH. lia. Qed.

(* ---------------------------------------------------------------- what a run does to the list of visible variables *)
(* after a normal end a declaration has added its variable; a break / continue that leaves a STATEMENT carries as many
   variables as the statement started with (the blocks it crossed have dropped theirs) *)
Definition len_ok (rho : list sval) (s : stmt) (r : (list sval * sval) + stop) : Prop :=
  match r with
  | inl (rho', _) => length rho' = next_n (length rho) s
  | inr (StBrk rho') | inr (StCont rho') => length rho' = length rho
  | inr (StErr _) => True
  end.
Definition length_ok (n : nat) : Prop :=
  forall rho s r, run_stmt n rho s = Some r -> len_ok rho s r.
(* in a list the variables declared so far are still there *)
Definition lens_ok (rho : list sval) (r : (list sval * sval) + stop) : Prop :=
  match r with
  | inl (rho', _) | inr (StBrk rho') | inr (StCont rho') => length rho <= length rho'
  | inr (StErr _) => True
  end.
(* at the end of a block they are gone *)
Definition lenb_ok (rho : list sval) (r : (list sval * sval) + stop) : Prop :=
  match r with
  | inl (rho', _) | inr (StBrk rho') | inr (StCont rho') => length rho' = length rho
  | inr (StErr _) => True
  end.

Lemma run_list_length n : length_ok n -> forall l rho last r,
  run_stmts n rho l last = Some r -> lens_ok rho r.
Proof.
  intros Hn. induction l as [|s r0 IH]; intros rho last r Hr.
  - cbn in Hr. inversion Hr. cbn. lia.
  - rewrite run_stmts_cons in Hr.
    destruct (run_stmt n rho s) as [[[rho1 v1]|x]|] eqn:E; try discriminate.
    + pose proof (Hn rho s _ E) as Hl. cbn [len_ok] in Hl.
      pose proof (IH rho1 v1 r Hr) as H2.
      assert (Hle : length rho <= length rho1) by (rewrite Hl; destruct s; cbn [next_n]; lia).
      destruct r as [[rho2 v2]|[e|rho2|rho2]]; cbn [lens_ok] in *; lia.
    + inversion Hr; subst r. pose proof (Hn rho s _ E) as Hl. destruct x; cbn [len_ok lens_ok] in *; lia.
Qed.

Lemma trunc_lenb n rho r : lens_ok rho r -> n = length rho -> lenb_ok rho (trunc n r).
Proof.
  intros H ->. destruct r as [[rho' v]|[x|rho'|rho']]; cbn [trunc lenb_ok lens_ok] in *; try exact Logic.I;
    rewrite firstn_length; lia.
Qed.

Lemma run_blk_length n : length_ok n -> forall l rho r, run_blk n rho l = Some r -> lenb_ok rho r.
Proof.
  intros Hn l rho r Hr. unfold run_blk in Hr.
  destruct (run_stmts n rho l VNil) as [r0|] eqn:E; [|discriminate]. cbn in Hr. inversion Hr; subst r.
  apply trunc_lenb; [exact (run_list_length n Hn l rho VNil r0 E)|reflexivity].
Qed.

(* a post statement changes one variable: it ends normally with as many variables, or with an error *)
Definition same_len (rho : list sval) (r : (list sval * sval) + stop) : Prop :=
  match r with
  | inl (rho', v) => length rho' = length rho /\ v = VNil
  | inr (StErr _) => True
  | inr _ => False
  end.
Lemma simple_res n rho p r : is_simple p = true -> run_stmt n rho p = Some r -> same_len rho r.
Proof.
  intros Hs Hr. destruct n as [|n]; [discriminate|].
  destruct p as [e|i e|i o e|i up|e|c t e|c t|c b|b|e c p b| |]; try discriminate; cbn [run_stmt] in Hr.
  - destruct (sev rho e); inversion Hr; cbn [same_len]; [split; [apply set_nth_length|reflexivity]|exact Logic.I].
  - destruct (sev rho e); [|inversion Hr; exact Logic.I].
    destruct (sbin o (nth i rho VNil) s); inversion Hr; cbn [same_len]; [split; [apply set_nth_length|reflexivity]|exact Logic.I].
  - destruct (sbin BAdd (nth i rho VNil) (VInt (if up then 1%Z else (-1)%Z))); inversion Hr; cbn [same_len];
      [split; [apply set_nth_length|reflexivity]|exact Logic.I].
Qed.
(* so do the rounds of a three-clause loop *)
Lemma loop3_res n c p b : length_ok n -> is_simple p = true -> forall k rho r,
  loop3 (run_stmt n) c p b k rho = Some r -> same_len rho r.
Proof.
  intros Hn Hs. induction k as [|k IH]; intros rho r Hr; [discriminate|].
  rewrite loop3_S in Hr. destruct (sev rho c) as [vc|x]; [|inversion Hr; exact Logic.I].
  destruct (struthy vc); [|inversion Hr; split; reflexivity].
  assert (Hgo : forall rho1, length rho1 = length rho ->
            match run_stmt n rho1 p with Some (inl (rho2, _)) => loop3 (run_stmt n) c p b k rho2 | other => other end = Some r ->
            same_len rho r).
  { intros rho1 Hl1 H. destruct (run_stmt n rho1 p) as [rp|] eqn:Ep; [|discriminate].
    pose proof (simple_res n rho1 p rp Hs Ep) as Hp.
    destruct rp as [[rho2 v2]|[x|rho2|rho2]]; cbn [same_len] in Hp; try contradiction.
    - pose proof (IH rho2 r H) as H2. destruct Hp as [Hp _].
      destruct r as [[rho3 v3]|[x|rho3|rho3]]; cbn [same_len] in *; try exact H2. destruct H2 as [H2 H3]. split; [congruence|exact H3].
    - inversion H; exact Logic.I. }
  destruct (run_blk n rho b) as [[[rho1 v1]|[x|rho1|rho1]]|] eqn:E; try discriminate;
    try (pose proof (run_blk_length n Hn b rho _ E) as Hl; cbn [lenb_ok] in Hl).
  - exact (Hgo rho1 Hl Hr).
  - inversion Hr; exact Logic.I.
  - inversion Hr; subst r. split; [exact Hl|reflexivity].
  - exact (Hgo rho1 Hl Hr).
Qed.

(* whatever the post statement is, the rounds never lose a variable *)
Lemma loop3_len n c p b : length_ok n -> forall k rho r, loop3 (run_stmt n) c p b k rho = Some r -> lens_ok rho r.
Proof.
  intros Hn. induction k as [|k IH]; intros rho r Hr; [discriminate|].
  rewrite loop3_S in Hr. destruct (sev rho c) as [vc|x]; [|inversion Hr; exact Logic.I].
  destruct (struthy vc); [|inversion Hr; cbn; lia].
  assert (Hgo : forall rho1, length rho1 = length rho ->
            match run_stmt n rho1 p with Some (inl (rho2, _)) => loop3 (run_stmt n) c p b k rho2 | other => other end = Some r ->
            lens_ok rho r).
  { intros rho1 Hl1 H. destruct (run_stmt n rho1 p) as [rp|] eqn:Ep; [|discriminate].
    pose proof (Hn rho1 p rp Ep) as Hp.
    destruct rp as [[rho2 v2]|[x|rho2|rho2]]; cbn [len_ok] in Hp.
    - pose proof (IH rho2 r H) as H2.
      assert (Hle : length rho <= length rho2) by (rewrite Hp, <- Hl1; destruct p; cbn [next_n]; lia).
      destruct r as [[rho3 v3]|[x|rho3|rho3]]; cbn [lens_ok] in *; lia.
    - inversion H; exact Logic.I.
    - inversion H; subst r. cbn [lens_ok]. lia.
    - inversion H; subst r. cbn [lens_ok]. lia. }
  destruct (run_blk n rho b) as [[[rho1 v1]|[x|rho1|rho1]]|] eqn:E; try discriminate;
    try (pose proof (run_blk_length n Hn b rho _ E) as Hl; cbn [lenb_ok] in Hl).
  - exact (Hgo rho1 Hl Hr).
  - inversion Hr; exact Logic.I.
  - inversion Hr; subst r. cbn [lens_ok]. lia.
  - exact (Hgo rho1 Hl Hr).
Qed.

Lemma run_stmt_length : forall n, length_ok n.
Proof.
  induction n as [|n IH]; intros rho s r Hr; [discriminate|].
  destruct s as [e|i e|i o e|i up|e|c t e|c t|c b|b|e c p b| |].
  12:{ cbn [run_stmt] in Hr. inversion Hr. reflexivity. }
  11:{ cbn [run_stmt] in Hr. inversion Hr. reflexivity. }
  9:{ rewrite run_SLoop in Hr.
      destruct (run_blk n rho b) as [[[rho1 v1]|[x|rho1|rho1]]|] eqn:E; try discriminate.
      + pose proof (run_blk_length n IH b rho _ E) as Hl. cbn [lenb_ok] in Hl.
        pose proof (IH rho1 (SLoop b) r Hr) as H2.
        destruct r as [[rho2 v2]|[x|rho2|rho2]]; cbn [len_ok next_n] in *; congruence.
      + inversion Hr; exact Logic.I.
      + pose proof (run_blk_length n IH b rho _ E) as Hl. cbn [lenb_ok] in Hl. inversion Hr; subst r. exact Hl.
      + pose proof (run_blk_length n IH b rho _ E) as Hl. cbn [lenb_ok] in Hl.
        pose proof (IH rho1 (SLoop b) r Hr) as H2.
        destruct r as [[rho2 v2]|[x|rho2|rho2]]; cbn [len_ok next_n] in *; congruence. }
  9:{ rewrite run_SFor in Hr. destruct (sev rho e) as [v|x]; [|inversion Hr; exact Logic.I].
      destruct (loop3 (run_stmt n) c p b n (rho ++ [v])) as [r0|] eqn:E; [|discriminate]. cbn [option_map] in Hr. inversion Hr; subst r.
      pose proof (loop3_len n c p b IH n (rho ++ [v]) r0 E) as Hl. rewrite ?app_length in Hl.
      destruct r0 as [[rho1 v1]|[x|rho1|rho1]]; cbn [trunc len_ok next_n lens_ok] in *; try exact Logic.I;
        rewrite app_length in Hl; cbn [length] in Hl; rewrite firstn_length; lia. }
  - cbn [run_stmt] in Hr. destruct (sev rho e); inversion Hr; cbn [len_ok next_n]; [rewrite app_length; cbn; lia|exact Logic.I].
  - cbn [run_stmt] in Hr. destruct (sev rho e); inversion Hr; cbn [len_ok next_n]; [apply set_nth_length|exact Logic.I].
  - cbn [run_stmt] in Hr. destruct (sev rho e); [|inversion Hr; exact Logic.I].
    destruct (sbin o (nth i rho VNil) s); inversion Hr; cbn [len_ok next_n]; [apply set_nth_length|exact Logic.I].
  - cbn [run_stmt] in Hr. destruct (sbin BAdd (nth i rho VNil) (VInt (if up then 1%Z else (-1)%Z))); inversion Hr; cbn [len_ok next_n];
      [apply set_nth_length|exact Logic.I].
  - cbn [run_stmt] in Hr. destruct (sev rho e); inversion Hr; cbn [len_ok next_n]; [reflexivity|exact Logic.I].
  - rewrite run_SIf in Hr. destruct (sev rho c) as [vc|x]; [|inversion Hr; exact Logic.I].
    pose proof (run_blk_length n IH _ rho r Hr) as H.
    destruct r as [[rho2 v2]|[x|rho2|rho2]]; exact H.
  - rewrite run_SIf1 in Hr. destruct (sev rho c) as [vc|x]; [|inversion Hr; exact Logic.I].
    destruct (struthy vc); [|inversion Hr; reflexivity].
    pose proof (run_blk_length n IH _ rho r Hr) as H.
    destruct r as [[rho2 v2]|[x|rho2|rho2]]; exact H.
  - rewrite run_SWhile in Hr. destruct (sev rho c) as [vc|x]; [|inversion Hr; exact Logic.I].
    destruct (struthy vc); [|inversion Hr; reflexivity].
    destruct (run_blk n rho b) as [[[rho1 v1]|[x|rho1|rho1]]|] eqn:E; try discriminate.
    + pose proof (run_blk_length n IH b rho _ E) as Hl. cbn [lenb_ok] in Hl.
      pose proof (IH rho1 (SWhile c b) r Hr) as H2.
      destruct r as [[rho2 v2]|[x|rho2|rho2]]; cbn [len_ok next_n] in *; congruence.
    + inversion Hr; exact Logic.I.
    + pose proof (run_blk_length n IH b rho _ E) as Hl. cbn [lenb_ok] in Hl. inversion Hr; subst r. exact Hl.
    + pose proof (run_blk_length n IH b rho _ E) as Hl. cbn [lenb_ok] in Hl.
      pose proof (IH rho1 (SWhile c b) r Hr) as H2.
      destruct r as [[rho2 v2]|[x|rho2|rho2]]; cbn [len_ok next_n] in *; congruence.
Qed.

Lemma run_stmts_length n l rho last r : run_stmts n rho l last = Some r -> lens_ok rho r.
Proof. apply run_list_length. apply run_stmt_length. Qed.
Lemma run_block_length n l rho r : run_blk n rho l = Some r -> lenb_ok rho r.
Proof. apply run_blk_length. apply run_stmt_length. Qed.

(* a statement that is not an expression has the value nil *)
Lemma run_stmt_value : forall n rho s rho' v, run_stmt n rho s = Some (inl (rho', v)) -> is_expr_stmt s = false -> v = VNil.
Proof.
  induction n as [|n IH]; intros rho s rho' v Hr Hx; [discriminate|].
  destruct s as [e|i e|i o e|i up|e|c t e|c t|c b|b|e c p b| |]; try discriminate.
  6:{ rewrite run_SLoop in Hr.
      destruct (run_blk n rho b) as [[[rho1 v1]|[x|rho1|rho1]]|]; try discriminate.
      + exact (IH rho1 (SLoop b) rho' v Hr eq_refl).
      + inversion Hr. reflexivity.
      + exact (IH rho1 (SLoop b) rho' v Hr eq_refl). }
  6:{ (* the value of a three-clause loop: that of its last round *)
      rewrite run_SFor in Hr. destruct (sev rho e) as [v0|x]; [|discriminate].
      destruct (loop3 (run_stmt n) c p b n (rho ++ [v0])) as [r0|] eqn:E; [|discriminate]. cbn [option_map] in Hr.
      assert (Hv : forall k rho1 rho2 v2, loop3 (run_stmt n) c p b k rho1 = Some (inl (rho2, v2)) -> v2 = VNil).
      { induction k as [|k IHk]; intros rho1 rho2 v2 H; [discriminate|].
        rewrite loop3_S in H. destruct (sev rho1 c) as [vc|x]; [|discriminate].
        destruct (struthy vc); [|inversion H; reflexivity].
        assert (Hgo : forall rho3, match run_stmt n rho3 p with Some (inl (rho4, _)) => loop3 (run_stmt n) c p b k rho4 | other => other end
                                   = Some (inl (rho2, v2)) -> v2 = VNil).
        { intros rho3 H3. destruct (run_stmt n rho3 p) as [[[rho4 v4]|x]|] eqn:Ep; try discriminate.
          exact (IHk rho4 rho2 v2 H3). }
        destruct (run_blk n rho1 b) as [[[rho3 v3]|[x|rho3|rho3]]|]; try discriminate.
        - exact (Hgo rho3 H). - inversion H; reflexivity. - exact (Hgo rho3 H). }
      destruct r0 as [[rho1 v1]|[x|rho1|rho1]]; cbn [trunc] in Hr; inversion Hr; subst. exact (Hv n _ _ _ E). }
  - cbn [run_stmt] in Hr. destruct (sev rho e); inversion Hr. reflexivity.
  - cbn [run_stmt] in Hr. destruct (sev rho e); inversion Hr. reflexivity.
  - cbn [run_stmt] in Hr. destruct (sev rho e); [|discriminate]. destruct (sbin o (nth i rho VNil) s); inversion Hr. reflexivity.
  - cbn [run_stmt] in Hr. destruct (sbin BAdd (nth i rho VNil) (VInt (if up then 1%Z else (-1)%Z))); inversion Hr. reflexivity.
  - rewrite run_SWhile in Hr. destruct (sev rho c) as [vc|x]; [|discriminate].
    destruct (struthy vc); [|inversion Hr; reflexivity].
    destruct (run_blk n rho b) as [[[rho1 v1]|[x|rho1|rho1]]|]; try discriminate.
    + exact (IH rho1 (SWhile c b) rho' v Hr eq_refl).
    + inversion Hr. reflexivity.
    + exact (IH rho1 (SWhile c b) rho' v Hr eq_refl).
Qed.

(* break and continue do not leave a statement that is not inside a loop *)
Definition no_ctl (r : (list sval * sval) + stop) : Prop :=
  match r with inr (StBrk _) | inr (StCont _) => False | _ => True end.
Lemma no_ctl_trunc n r : no_ctl r -> no_ctl (trunc n r).
Proof. destruct r as [[rho v]|[x|rho|rho]]; cbn; auto. Qed.
Lemma no_escape : forall n rho s r k, wf_stmt false k s = true -> run_stmt n rho s = Some r -> no_ctl r.
Proof.
  induction n as [|n IH]; intros rho s r k Hwf Hr; [discriminate|].
  assert (Hlist : forall l rho0 last r0 k0, wf_stmts false k0 l = true -> run_stmts n rho0 l last = Some r0 -> no_ctl r0).
  { induction l as [|s0 l0 IHl]; intros rho0 last r0 k0 Hw H0.
    - cbn in H0. inversion H0. exact Logic.I.
    - rewrite wf_stmts_cons in Hw. apply andb_true_iff in Hw. destruct Hw as [Hs Hw].
      rewrite run_stmts_cons in H0.
      destruct (run_stmt n rho0 s0) as [[[rho1 v1]|x]|] eqn:E; try discriminate.
      + exact (IHl rho1 v1 r0 _ Hw H0).
      + inversion H0; subst r0. exact (IH rho0 s0 _ k0 Hs E). }
  assert (Hblk : forall l rho0 r0 k0, wf_stmts false k0 l = true -> run_blk n rho0 l = Some r0 -> no_ctl r0).
  { intros l rho0 r0 k0 Hw H0. unfold run_blk in H0. destruct (run_stmts n rho0 l VNil) as [r1|] eqn:E; [|discriminate].
    cbn in H0. inversion H0; subst r0. apply no_ctl_trunc. exact (Hlist l rho0 VNil r1 k0 Hw E). }
  destruct s as [e|i e|i o e|i up|e|c t e|c t|c b|b|e c p b| |].
  9:{ rewrite wf_SLoop in Hwf. rewrite run_SLoop in Hr.
      destruct (run_blk n rho b) as [[[rho1 v1]|[x|rho1|rho1]]|] eqn:E; try discriminate.
      + apply (IH rho1 (SLoop b) r k); [rewrite wf_SLoop; exact Hwf|exact Hr].
      + inversion Hr; exact Logic.I.
      + inversion Hr; exact Logic.I.
      + apply (IH rho1 (SLoop b) r k); [rewrite wf_SLoop; exact Hwf|exact Hr]. }
  9:{ rewrite wf_SFor in Hwf. repeat (apply andb_true_iff in Hwf; destruct Hwf as [Hwf ?]).
      rewrite run_SFor in Hr. destruct (sev rho e) as [v0|x]; [|inversion Hr; exact Logic.I].
      destruct (loop3 (run_stmt n) c p b n (rho ++ [v0])) as [r0|] eqn:E; [|discriminate]. cbn [option_map] in Hr. inversion Hr; subst r.
      pose proof (loop3_res n c p b (run_stmt_length n) ltac:(assumption) n _ _ E) as Hres.
      destruct r0 as [[rho1 v1]|[x|rho1|rho1]]; cbn [same_len trunc no_ctl] in *; try contradiction; exact Logic.I. }
  - cbn [run_stmt] in Hr. destruct (sev rho e); inversion Hr; exact Logic.I.
  - cbn [run_stmt] in Hr. destruct (sev rho e); inversion Hr; exact Logic.I.
  - cbn [run_stmt] in Hr. destruct (sev rho e); [|inversion Hr; exact Logic.I]. destruct (sbin o (nth i rho VNil) s); inversion Hr; exact Logic.I.
  - cbn [run_stmt] in Hr. destruct (sbin BAdd (nth i rho VNil) (VInt (if up then 1%Z else (-1)%Z))); inversion Hr; exact Logic.I.
  - cbn [run_stmt] in Hr. destruct (sev rho e); inversion Hr; exact Logic.I.
  - rewrite wf_SIf in Hwf. apply andb_true_iff in Hwf. destruct Hwf as [Hwct Hwe].
    apply andb_true_iff in Hwct. destruct Hwct as [Hwc Hwt].
    rewrite run_SIf in Hr. destruct (sev rho c) as [vc|x]; [|inversion Hr; exact Logic.I].
    destruct (struthy vc); [exact (Hblk t rho r k Hwt Hr)|exact (Hblk e rho r k Hwe Hr)].
  - rewrite wf_SIf1 in Hwf. apply andb_true_iff in Hwf. destruct Hwf as [Hwc Hwt].
    rewrite run_SIf1 in Hr. destruct (sev rho c) as [vc|x]; [|inversion Hr; exact Logic.I].
    destruct (struthy vc); [exact (Hblk t rho r k Hwt Hr)|inversion Hr; exact Logic.I].
  - rewrite wf_SWhile in Hwf. apply andb_true_iff in Hwf. destruct Hwf as [Hwc Hwb].
    rewrite run_SWhile in Hr. destruct (sev rho c) as [vc|x]; [|inversion Hr; exact Logic.I].
    destruct (struthy vc); [|inversion Hr; exact Logic.I].
    destruct (run_blk n rho b) as [[[rho1 v1]|[x|rho1|rho1]]|] eqn:E; try discriminate.
    + apply (IH rho1 (SWhile c b) r k); [rewrite wf_SWhile, Hwc, Hwb; reflexivity|exact Hr].
    + inversion Hr; exact Logic.I.
    + inversion Hr; exact Logic.I.
    + apply (IH rho1 (SWhile c b) r k); [rewrite wf_SWhile, Hwc, Hwb; reflexivity|exact Hr].
  - discriminate.
  - discriminate.
Qed.
Lemma no_escape_stmts n : forall l rho last r k,
  wf_stmts false k l = true -> run_stmts n rho l last = Some r -> no_ctl r.
Proof.
  induction l as [|s l IH]; intros rho last r k Hw Hr.
  - cbn in Hr. inversion Hr. exact Logic.I.
  - rewrite wf_stmts_cons in Hw. apply andb_true_iff in Hw. destruct Hw as [Hs Hw].
    rewrite run_stmts_cons in Hr.
    destruct (run_stmt n rho s) as [[[rho1 v1]|x]|] eqn:E; try discriminate.
    + exact (IH rho1 v1 r _ Hw Hr).
    + inversion Hr; subst r. exact (no_escape n rho s _ k Hs E).
Qed.
