(* unfolding lemmas and small facts about model/VarProg.v, shared by the three proofs about programs *)
From Coq Require Import List ZArith NArith Bool Arith Lia.
Require Import RV.model.Syntax RV.model.Compiler RV.model.ScalarFrag RV.model.VarProg.
Import ListNotations.
Local Open Scope nat_scope.

Lemma embed_stmts_cons names k s r :
  embed_stmts names k (s :: r) = embed_stmt names k s :: embed_stmts names (next_k k s) r.
Proof. reflexivity. Qed.
Lemma embed_SIf names k c t e : embed_stmt names k (SIf c t e) =
  NIf (embed names c) (embed_stmts names k t) (Some (embed_stmts names k e)).
Proof. reflexivity. Qed.
Lemma embed_SIf1 names k c t : embed_stmt names k (SIf1 c t) = NIf (embed names c) (embed_stmts names k t) None.
Proof. reflexivity. Qed.
Lemma embed_SWhile names k c b : embed_stmt names k (SWhile c b) =
  NFor (Some (embed names c)) None None (embed_stmts names k b).
Proof. reflexivity. Qed.

Lemma wf_stmts_cons top k s r : wf_stmts top k (s :: r) = wf_stmt top k s && wf_stmts top (next_k k s) r.
Proof. reflexivity. Qed.
Lemma wf_SIf top k c t e : wf_stmt top k (SIf c t e) = wf k c && wf_stmts false k t && wf_stmts false k e.
Proof. reflexivity. Qed.
Lemma wf_SIf1 top k c t : wf_stmt top k (SIf1 c t) = wf k c && wf_stmts false k t.
Proof. reflexivity. Qed.
Lemma wf_SWhile top k c b : wf_stmt top k (SWhile c b) = wf k c && wf_stmts false k b.
Proof. reflexivity. Qed.
Lemma wf_false_next k s : wf_stmt false k s = true -> next_k k s = k.
Proof. destruct s; try reflexivity. discriminate. Qed.
Lemma wf_false_top k s : wf_stmt false k s = true -> wf_stmt true k s = true.
Proof. destruct s; try (intros H; exact H). discriminate. Qed.
Lemma wf_false_ndecls : forall l k, wf_stmts false k l = true -> ndecls l = 0.
Proof.
  induction l as [|s r IH]; intros k H; [reflexivity|].
  rewrite wf_stmts_cons in H. apply andb_true_iff in H. destruct H as [Hs Hr].
  destruct s; try discriminate; cbn [ndecls]; exact (IH _ Hr).
Qed.

Lemma max_height_cons s r : max_height (s :: r) = Nat.max (sheight s) (max_height r).
Proof. reflexivity. Qed.
Lemma max_need_cons s r : max_need (s :: r) = Nat.max (sneed s) (max_need r).
Proof. reflexivity. Qed.
Lemma sheight_SIf c t e : sheight (SIf c t e) = S (Nat.max (height c) (Nat.max (max_height t) (max_height e))).
Proof. reflexivity. Qed.
Lemma sheight_SIf1 c b : sheight (SIf1 c b) = S (Nat.max (height c) (max_height b)).
Proof. reflexivity. Qed.
Lemma sheight_SWhile c b : sheight (SWhile c b) = S (Nat.max (height c) (max_height b)).
Proof. reflexivity. Qed.
Lemma sneed_SIf c t e : sneed (SIf c t e) = Nat.max (need c) (Nat.max (max_need t) (max_need e)).
Proof. reflexivity. Qed.
Lemma sneed_SIf1 c b : sneed (SIf1 c b) = Nat.max (need c) (max_need b).
Proof. reflexivity. Qed.
Lemma sneed_SWhile c b : sneed (SWhile c b) = Nat.max (need c) (max_need b).
Proof. reflexivity. Qed.
Lemma need_pos e : 1 <= need e.
Proof. induction e; cbn [need]; lia. Qed.
Lemma max_need_pos l : 1 <= max_need l.
Proof. induction l as [|s r IH]; [cbn; lia|rewrite max_need_cons; lia]. Qed.
Lemma sneed_pos s : 1 <= sneed s.
Proof.
  destruct s as [e|i e|e|c t e|c t|c b]; try (cbn [sneed]; apply need_pos).
  - rewrite sneed_SIf. pose proof (need_pos c). lia.
  - rewrite sneed_SIf1. pose proof (need_pos c). lia.
  - rewrite sneed_SWhile. pose proof (need_pos c). lia.
Qed.

Lemma ndecls_cons k s r : next_k k s + ndecls r = k + ndecls (s :: r).
Proof. destruct s; cbn [next_k ndecls]; lia. Qed.
Lemma embed_is_expression names e : is_expression (embed names e) = true.
Proof. destruct e; reflexivity. Qed.
Lemma embed_stmt_is_expression names k s : is_expression (embed_stmt names k s) = is_expr_stmt s.
Proof. destruct s; try reflexivity. apply embed_is_expression. Qed.

(* ---------------------------------------------------------------- source-level meaning *)
Lemma run_stmts_cons n rho s r last : run_stmts n rho (s :: r) last =
  match run_stmt n rho s with Some (inl (rho', v)) => run_stmts n rho' r v | other => other end.
Proof. reflexivity. Qed.
Lemma run_SIf n rho c t e : run_stmt (S n) rho (SIf c t e) =
  match sev rho c with
  | inl vc => run_stmts n rho (if struthy vc then t else e) VNil
  | inr x => Some (inr x)
  end.
Proof. reflexivity. Qed.
Lemma run_SIf1 n rho c t : run_stmt (S n) rho (SIf1 c t) =
  match sev rho c with
  | inl vc => if struthy vc then run_stmts n rho t VNil else Some (inl (rho, VNil))
  | inr x => Some (inr x)
  end.
Proof. reflexivity. Qed.
Lemma run_SWhile n rho c b : run_stmt (S n) rho (SWhile c b) =
  match sev rho c with
  | inl vc => if struthy vc then
                match run_stmts n rho b VNil with
                | Some (inl (rho', _)) => run_stmt n rho' (SWhile c b)
                | other => other
                end
              else Some (inl (rho, VNil))
  | inr x => Some (inr x)
  end.
Proof. reflexivity. Qed.

(* ---------------------------------------------------------------- emitted code *)
Lemma pcode_single k base s : pcode k base [s] =
  let '(c, ks) := stmt_code k base s in (c ++ (if is_expr_stmt s then [] else [opNil]), ks).
Proof. reflexivity. Qed.
Lemma pcode_cons2 k base s s2 r2 : pcode k base (s :: s2 :: r2) =
  let '(c, ks) := stmt_code k base s in
  let '(cr, kr) := pcode (next_k k s) (base + length ks) (s2 :: r2) in
  (c ++ (if is_expr_stmt s then [opPopTop] else []) ++ cr, ks ++ kr).
Proof. reflexivity. Qed.
Lemma block_code_nil k base : block_code k base [] = ([opNil], []).
Proof. reflexivity. Qed.
Lemma block_code_cons k base s r : block_code k base (s :: r) = pcode k base (s :: r).
Proof. reflexivity. Qed.
Lemma code_SIf k base c t e : stmt_code k base (SIf c t e) =
  let '(cc, kc) := cexp base c in
  let '(ct, kt) := block_code k (base + length kc) t in
  let '(ce, ke) := block_code k (base + length kc + length kt) e in
  (cc ++ [opPopJumpForwardIfFalse; (nlenN ct + 4)%N] ++ ct ++ [opJumpForward; (nlenN ce + 2)%N] ++ ce, kc ++ kt ++ ke).
Proof. reflexivity. Qed.
Lemma code_SIf1 k base c t : stmt_code k base (SIf1 c t) =
  let '(cc, kc) := cexp base c in
  let '(ct, kt) := block_code k (base + length kc) t in
  (cc ++ [opPopJumpForwardIfFalse; (nlenN ct + 4)%N] ++ ct ++ [opJumpForward; 3%N] ++ [opNil], kc ++ kt).
Proof. reflexivity. Qed.
Lemma code_SWhile k base c b : stmt_code k base (SWhile c b) =
  let '(cc, kc) := cexp base c in
  let '(cb, kb) := block_code k (base + length kc) b in
  (cc ++ [opPopJumpForwardIfFalse; (nlenN cb + 6)%N] ++ cb ++
   [opPopTop; opJumpBackward; (nlenN cc + 2 + nlenN cb + 1)%N; opNop], kc ++ kb).
Proof. reflexivity. Qed.

(* ---------------------------------------------------------------- assignment *)
Lemma set_nth_length i v rho : length (set_nth i v rho) = length rho.
Proof. revert i; induction rho as [|x r IH]; intros [|i]; cbn; auto. Qed.
Lemma nth_set_nth_same i v rho d : i < length rho -> nth i (set_nth i v rho) d = v.
Proof. revert i; induction rho as [|x r IH]; intros [|i] H; cbn in *; try lia; [reflexivity|apply IH; lia]. Qed.
Lemma nth_set_nth_other i j v rho d : i <> j -> nth j (set_nth i v rho) d = nth j rho d.
Proof. revert i j; induction rho as [|x r IH]; intros [|i] [|j] H; cbn; try reflexivity; try lia. apply IH. lia. Qed.

(* ---------------------------------------------------------------- what a run does to the variable list *)
Definition length_ok (n : nat) : Prop :=
  forall rho s top rho' v, wf_stmt top (length rho) s = true -> run_stmt n rho s = Some (inl (rho', v)) ->
    length rho' = next_k (length rho) s.

Lemma run_list_length n : length_ok n -> forall l rho last rho' v,
  wf_stmts false (length rho) l = true -> run_stmts n rho l last = Some (inl (rho', v)) -> length rho' = length rho.
Proof.
  intros Hn. induction l as [|s r IH]; intros rho last rho' v Hwf Hr.
  - cbn in Hr. inversion Hr. reflexivity.
  - rewrite wf_stmts_cons in Hwf. apply andb_true_iff in Hwf. destruct Hwf as [Hs Hwr].
    rewrite run_stmts_cons in Hr.
    destruct (run_stmt n rho s) as [[[rho1 v1]|x]|] eqn:E; try discriminate.
    pose proof (Hn rho s false rho1 v1 Hs E) as Hl. rewrite (wf_false_next _ _ Hs) in Hl, Hwr.
    rewrite <- Hl in Hwr. rewrite (IH rho1 v1 rho' v Hwr Hr). exact Hl.
Qed.

Lemma run_stmt_length : forall n, length_ok n.
Proof.
  induction n as [|n IH]; intros rho s top rho' v Hwf Hr; [discriminate|].
  destruct s as [e|i e|e|c t e|c t|c b].
  - cbn [run_stmt] in Hr. destruct (sev rho e); inversion Hr. rewrite app_length. cbn. lia.
  - cbn [run_stmt] in Hr. destruct (sev rho e); inversion Hr. apply set_nth_length.
  - cbn [run_stmt] in Hr. destruct (sev rho e); inversion Hr. reflexivity.
  - rewrite wf_SIf in Hwf. apply andb_true_iff in Hwf. destruct Hwf as [Hwct Hwe].
    apply andb_true_iff in Hwct. destruct Hwct as [Hwc Hwt].
    rewrite run_SIf in Hr. destruct (sev rho c) as [vc|x]; [|discriminate]. cbn [next_k].
    destruct (struthy vc); [exact (run_list_length n IH t rho VNil rho' v Hwt Hr)|exact (run_list_length n IH e rho VNil rho' v Hwe Hr)].
  - rewrite wf_SIf1 in Hwf. apply andb_true_iff in Hwf. destruct Hwf as [Hwc Hwt].
    rewrite run_SIf1 in Hr. destruct (sev rho c) as [vc|x]; [|discriminate]. cbn [next_k].
    destruct (struthy vc); [exact (run_list_length n IH t rho VNil rho' v Hwt Hr)|inversion Hr; reflexivity].
  - rewrite wf_SWhile in Hwf. apply andb_true_iff in Hwf. destruct Hwf as [Hwc Hwb].
    rewrite run_SWhile in Hr. destruct (sev rho c) as [vc|x]; [|discriminate]. cbn [next_k].
    destruct (struthy vc); [|inversion Hr; reflexivity].
    destruct (run_stmts n rho b VNil) as [[[rho1 v1]|x]|] eqn:E; try discriminate.
    pose proof (run_list_length n IH b rho VNil rho1 v1 Hwb E) as Hl.
    assert (Hw' : wf_stmt top (length rho1) (SWhile c b) = true)
      by (rewrite wf_SWhile, Hl, Hwc, Hwb; reflexivity).
    rewrite (IH rho1 (SWhile c b) top rho' v Hw' Hr). cbn [next_k]. exact Hl.
Qed.

Lemma run_stmts_length n l rho last rho' v :
  wf_stmts false (length rho) l = true -> run_stmts n rho l last = Some (inl (rho', v)) -> length rho' = length rho.
Proof. apply run_list_length. apply run_stmt_length. Qed.

(* a statement that is not an expression has the value nil *)
Lemma run_stmt_value : forall n rho s rho' v, run_stmt n rho s = Some (inl (rho', v)) -> is_expr_stmt s = false -> v = VNil.
Proof.
  induction n as [|n IH]; intros rho s rho' v Hr Hx; [discriminate|].
  destruct s as [e|i e|e|c t e|c t|c b]; try discriminate.
  - cbn [run_stmt] in Hr. destruct (sev rho e); inversion Hr. reflexivity.
  - cbn [run_stmt] in Hr. destruct (sev rho e); inversion Hr. reflexivity.
  - rewrite run_SWhile in Hr. destruct (sev rho c) as [vc|x]; [|discriminate].
    destruct (struthy vc); [|inversion Hr; reflexivity].
    destruct (run_stmts n rho b VNil) as [[[rho1 v1]|x]|]; try discriminate.
    exact (IH rho1 (SWhile c b) rho' v Hr eq_refl).
Qed.
