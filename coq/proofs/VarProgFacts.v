(* one statement at a time: the pieces of VarProg's list functions, and their unfolding lemmas *)
From Coq Require Import List ZArith NArith Bool Arith Lia.
Require Import RV.model.Syntax RV.model.Compiler RV.model.ScalarFrag RV.model.VarProg.
Import ListNotations.
Local Open Scope nat_scope.

Definition next_k (k : nat) (s : stmt) : nat := match s with SDecl _ => S k | _ => k end.
Definition embed_stmt (names : list (list N)) (k : nat) (s : stmt) : node :=
  match s with
  | SDecl e => NVar (nth k names []) (embed names e)
  | SSet i e => NAssign (nth i names []) [61%N] (embed names e)
  | SExpr e => embed names e
  | SIf c t e => NIf (embed names c) (map (embed_simple names) t) (Some (map (embed_simple names) e))
  end.
Definition wf_stmt (k : nat) (s : stmt) : bool :=
  match s with
  | SDecl e => wf k e | SSet i e => Nat.ltb i k && wf k e | SExpr e => wf k e
  | SIf c t e => wf k c && forallb (wf_simple k) t && forallb (wf_simple k) e
  end.

Lemma embed_stmts_cons names k s r :
  embed_stmts names k (s :: r) = embed_stmt names k s :: embed_stmts names (next_k k s) r.
Proof. destruct s; reflexivity. Qed.
Lemma wf_stmts_cons k s r : wf_stmts k (s :: r) = wf_stmt k s && wf_stmts (next_k k s) r.
Proof. destruct s; cbn [wf_stmts wf_stmt next_k]; rewrite ?andb_assoc; reflexivity. Qed.
Lemma max_height_cons s r : max_height (s :: r) = Nat.max (stmt_height s) (max_height r).
Proof. reflexivity. Qed.
Lemma max_need_cons s r : max_need (s :: r) = Nat.max (stmt_need s) (max_need r).
Proof. reflexivity. Qed.
Lemma ndecls_cons k s r : next_k k s + ndecls r = k + ndecls (s :: r).
Proof. destruct s; cbn [next_k ndecls]; lia. Qed.
Lemma embed_is_expression names e : is_expression (embed names e) = true.
Proof. destruct e; reflexivity. Qed.

Lemma run_stmts_cons rho s r last : run_stmts rho (s :: r) last =
  match run_stmt rho s with inl (rho', v) => run_stmts rho' r v | inr x => inr x end.
Proof. reflexivity. Qed.
Lemma run_simples_cons rho m r last : run_simples rho (m :: r) last =
  match run_simple rho m with inl (rho', v) => run_simples rho' r v | inr x => inr x end.
Proof. reflexivity. Qed.

Lemma pcode_single k base s : pcode k base [s] =
  let '(c, ks) := stmt_code k base s in (c ++ (if is_expr_stmt s then [] else [opNil]), ks).
Proof. reflexivity. Qed.
Lemma pcode_cons2 k base s s2 r2 : pcode k base (s :: s2 :: r2) =
  let '(c, ks) := stmt_code k base s in
  let '(cr, kr) := pcode (next_k k s) (base + length ks) (s2 :: r2) in
  (c ++ (if is_expr_stmt s then [opPopTop] else []) ++ cr, ks ++ kr).
Proof. destruct s; reflexivity. Qed.
Lemma simples_code_single base m : simples_code base [m] =
  let '(c, ks) := simple_code base m in (c ++ (if is_expr_simple m then [] else [opNil]), ks).
Proof. reflexivity. Qed.
Lemma simples_code_cons2 base m m2 r2 : simples_code base (m :: m2 :: r2) =
  let '(c, ks) := simple_code base m in
  let '(cr, kr) := simples_code (base + length ks) (m2 :: r2) in
  (c ++ (if is_expr_simple m then [opPopTop] else []) ++ cr, ks ++ kr).
Proof. reflexivity. Qed.

(* a statement never shortens the list of variable values; a declaration extends it by one *)
Lemma set_nth_length i v rho : length (set_nth i v rho) = length rho.
Proof. revert i; induction rho as [|x r IH]; intros [|i]; cbn; auto. Qed.
Lemma nth_set_nth_same i v rho d : i < length rho -> nth i (set_nth i v rho) d = v.
Proof. revert i; induction rho as [|x r IH]; intros [|i] H; cbn in *; try lia; [reflexivity|apply IH; lia]. Qed.
Lemma nth_set_nth_other i j v rho d : i <> j -> nth j (set_nth i v rho) d = nth j rho d.
Proof. revert i j; induction rho as [|x r IH]; intros [|i] [|j] H; cbn; try reflexivity; try lia. apply IH. lia. Qed.

Lemma run_simple_length rho m rho' v : run_simple rho m = inl (rho', v) -> length rho' = length rho.
Proof.
  destruct m as [i e|e]; cbn [run_simple]; destruct (sev rho e); intros H; inversion H; subst;
    [apply set_nth_length|reflexivity].
Qed.
Lemma run_simples_length : forall l rho last rho' v, run_simples rho l last = inl (rho', v) -> length rho' = length rho.
Proof.
  induction l as [|m r IH]; intros rho last rho' v H; [inversion H; reflexivity|].
  rewrite run_simples_cons in H. destruct (run_simple rho m) as [[rho1 v1]|x] eqn:E; [|discriminate].
  rewrite (IH _ _ _ _ H). exact (run_simple_length _ _ _ _ E).
Qed.
Lemma run_stmt_length rho s rho' v : run_stmt rho s = inl (rho', v) -> length rho' = next_k (length rho) s.
Proof.
  destruct s as [e|i e|e|c t e]; cbn [run_stmt next_k].
  - destruct (sev rho e); intros H; inversion H. rewrite app_length. cbn. lia.
  - destruct (sev rho e); intros H; inversion H. apply set_nth_length.
  - destruct (sev rho e); intros H; inversion H. reflexivity.
  - destruct (sev rho c); [|discriminate]. apply run_simples_length.
Qed.
