(* one statement at a time: the pieces of VarProg's list functions, and their unfolding lemmas *)
From Coq Require Import List ZArith NArith Bool Arith Lia.
Require Import RV.model.Syntax RV.model.Compiler RV.model.ScalarFrag RV.model.VarProg.
Import ListNotations.
Local Open Scope nat_scope.

Definition next_k (k : nat) (s : stmt) : nat := match s with SDecl _ => S k | _ => k end.
Definition embed_stmt (names : list (list N)) (k : nat) (s : stmt) : node :=
  match s with
  | SDecl e => NVar (nth k names []) (embed names e)
  | SSet i e => NAssign (nth i names []) [61%N] (embed names e)
  | SExpr e => embed names e
  end.
Definition wf_stmt (k : nat) (s : stmt) : bool :=
  match s with SDecl e => wf k e | SSet i e => Nat.ltb i k && wf k e | SExpr e => wf k e end.

Lemma embed_stmts_cons names k s r :
  embed_stmts names k (s :: r) = embed_stmt names k s :: embed_stmts names (next_k k s) r.
Proof. destruct s; reflexivity. Qed.
Lemma wf_stmts_cons k s r : wf_stmts k (s :: r) = wf_stmt k s && wf_stmts (next_k k s) r.
Proof. destruct s; cbn [wf_stmts wf_stmt next_k]; rewrite ?andb_assoc; reflexivity. Qed.
Lemma max_height_cons s r : max_height (s :: r) = Nat.max (height (stmt_exp s)) (max_height r).
Proof. reflexivity. Qed.
Lemma max_need_cons s r : max_need (s :: r) = Nat.max (need (stmt_exp s)) (max_need r).
Proof. reflexivity. Qed.
Lemma ndecls_cons k s r : next_k k s + ndecls r = k + ndecls (s :: r).
Proof. destruct s; cbn [next_k ndecls]; lia. Qed.
Lemma embed_is_expression names e : is_expression (embed names e) = true.
Proof. destruct e; reflexivity. Qed.

(* the variable values after one statement *)
Definition next_rho (rho : list sval) (s : stmt) (v : sval) : list sval :=
  match s with SDecl _ => rho ++ [v] | SSet i _ => set_nth i v rho | SExpr _ => rho end.
Definition stmt_value (s : stmt) (v : sval) : sval := match s with SExpr _ => v | _ => VNil end.

Lemma run_stmts_cons rho s r last : run_stmts rho (s :: r) last =
  match sev rho (stmt_exp s) with
  | inl v => run_stmts (next_rho rho s v) r (stmt_value s v)
  | inr x => inr x
  end.
Proof. destruct s; reflexivity. Qed.

Lemma pcode_single k base s : pcode k base [s] =
  let '(c, ks) := stmt_code k base s in (c ++ (if is_expr_stmt s then [] else [opNil]), ks).
Proof. reflexivity. Qed.
Lemma pcode_cons2 k base s s2 r2 : pcode k base (s :: s2 :: r2) =
  let '(c, ks) := stmt_code k base s in
  let '(cr, kr) := pcode (next_k k s) (base + length ks) (s2 :: r2) in
  (c ++ (if is_expr_stmt s then [opPopTop] else []) ++ cr, ks ++ kr).
Proof. destruct s; reflexivity. Qed.

