(* unfolding lemmas and small facts about model/VarProg.v, shared by the three proofs about programs *)
From Coq Require Import List ZArith NArith Bool Arith Lia.
Require Import RV.model.Syntax RV.model.Compiler RV.model.ScalarFrag RV.model.VarProg.
Import ListNotations.
Local Open Scope nat_scope.

Lemma embed_stmts_cons names k s r :
  embed_stmts names k (s :: r) = embed_stmt names k s :: embed_stmts names (next_k k s) r.
Proof. reflexivity. Qed.
Lemma embed_SIf names k c t e : embed_stmt names k (SIf c t e) =
  NIf (embed names c) (embed_stmts names k t) (Some (embed_stmts names k e)).
Proof. reflexivity. Qed.
Lemma embed_SIf1 names k c t : embed_stmt names k (SIf1 c t) = NIf (embed names c) (embed_stmts names k t) None.
Proof. reflexivity. Qed.
Lemma embed_SWhile names k c b : embed_stmt names k (SWhile c b) =
  NFor (Some (embed names c)) None None (embed_stmts names k b).
Proof. reflexivity. Qed.

Lemma wf_stmts_cons top lp k s r : wf_stmts top lp k (s :: r) = wf_stmt top lp k s && wf_stmts top lp (next_k k s) r.
Proof. reflexivity. Qed.
Lemma wf_SIf top lp k c t e : wf_stmt top lp k (SIf c t e) = wf k c && wf_stmts false lp k t && wf_stmts false lp k e.
Proof. reflexivity. Qed.
Lemma wf_SIf1 top lp k c t : wf_stmt top lp k (SIf1 c t) = wf k c && wf_stmts false lp k t.
Proof. reflexivity. Qed.
Lemma wf_SWhile top lp k c b : wf_stmt top lp k (SWhile c b) = wf k c && wf_stmts false true k b.
Proof. reflexivity. Qed.
Lemma wf_false_next lp k s : wf_stmt false lp k s = true -> next_k k s = k.
Proof. destruct s; try reflexivity. discriminate. Qed.
Lemma wf_false_ndecls lp : forall l k, wf_stmts false lp k l = true -> ndecls l = 0.
Proof.
  induction l as [|s r IH]; intros k H; [reflexivity|].
  rewrite wf_stmts_cons in H. apply andb_true_iff in H. destruct H as [Hs Hr].
  destruct s; try discriminate; cbn [ndecls]; exact (IH _ Hr).
Qed.

Lemma max_height_cons s r : max_height (s :: r) = Nat.max (sheight s) (max_height r).
Proof. reflexivity. Qed.
Lemma max_need_cons s r : max_need (s :: r) = Nat.max (sneed s) (max_need r).
Proof. reflexivity. Qed.
Lemma sheight_SIf c t e : sheight (SIf c t e) = S (Nat.max (height c) (Nat.max (max_height t) (max_height e))).
Proof. reflexivity. Qed.
Lemma sheight_SIf1 c b : sheight (SIf1 c b) = S (Nat.max (height c) (max_height b)).
Proof. reflexivity. Qed.
Lemma sheight_SWhile c b : sheight (SWhile c b) = S (Nat.max (height c) (max_height b)).
Proof. reflexivity. Qed.
Lemma sneed_SIf c t e : sneed (SIf c t e) = Nat.max (need c) (Nat.max (max_need t) (max_need e)).
Proof. reflexivity. Qed.
Lemma sneed_SIf1 c b : sneed (SIf1 c b) = Nat.max (need c) (max_need b).
Proof. reflexivity. Qed.
Lemma sneed_SWhile c b : sneed (SWhile c b) = Nat.max (need c) (max_need b).
Proof. reflexivity. Qed.
Lemma need_pos e : 1 <= need e.
Proof. induction e; cbn [need]; lia. Qed.
Lemma max_need_pos l : 1 <= max_need l.
Proof. induction l as [|s r IH]; [cbn; lia|rewrite max_need_cons; lia]. Qed.
Lemma sneed_pos s : 1 <= sneed s.
Proof.
  destruct s as [e|i e|i o e|i up|e|c t e|c t|c b| |]; try (cbn [sneed]; apply need_pos); try (cbn [sneed]; lia).
  - rewrite sneed_SIf. pose proof (need_pos c). lia.
  - rewrite sneed_SIf1. pose proof (need_pos c). lia.
  - rewrite sneed_SWhile. pose proof (need_pos c). lia.
Qed.

Lemma ndecls_cons k s r : next_k k s + ndecls r = k + ndecls (s :: r).
Proof. destruct s; cbn [next_k ndecls]; lia. Qed.
Lemma embed_is_expression names e : is_expression (embed names e) = true.
Proof. destruct e; reflexivity. Qed.
Lemma embed_stmt_is_expression names k s : is_expression (embed_stmt names k s) = is_expr_stmt s.
Proof. destruct s; try reflexivity. apply embed_is_expression. Qed.

(* ---------------------------------------------------------------- source-level meaning *)
Lemma run_stmts_cons n rho s r last : run_stmts n rho (s :: r) last =
  match run_stmt n rho s with Some (inl (rho', v)) => run_stmts n rho' r v | other => other end.
Proof. reflexivity. Qed.
Lemma run_SIf n rho c t e : run_stmt (S n) rho (SIf c t e) =
  match sev rho c with
  | inl vc => run_stmts n rho (if struthy vc then t else e) VNil
  | inr x => Some (inr (StErr x))
  end.
Proof. reflexivity. Qed.
Lemma run_SIf1 n rho c t : run_stmt (S n) rho (SIf1 c t) =
  match sev rho c with
  | inl vc => if struthy vc then run_stmts n rho t VNil else Some (inl (rho, VNil))
  | inr x => Some (inr (StErr x))
  end.
Proof. reflexivity. Qed.
Lemma run_SWhile n rho c b : run_stmt (S n) rho (SWhile c b) =
  match sev rho c with
  | inl vc => if struthy vc then
                match run_stmts n rho b VNil with
                | Some (inl (rho', _)) | Some (inr (StCont rho')) => run_stmt n rho' (SWhile c b)
                | Some (inr (StBrk rho')) => Some (inl (rho', VNil))
                | other => other
                end
              else Some (inl (rho, VNil))
  | inr x => Some (inr (StErr x))
  end.
Proof. reflexivity. Qed.

(* ---------------------------------------------------------------- emitted code *)
Lemma scode_single k base s : scode k base [s] =
  let '(c, ks) := stmt_code k base s in (c ++ (if is_expr_stmt s then [] else I [opNil]), ks).
Proof. reflexivity. Qed.
Lemma scode_cons2 k base s s2 r2 : scode k base (s :: s2 :: r2) =
  let '(c, ks) := stmt_code k base s in
  let '(cr, kr) := scode (next_k k s) (base + length ks) (s2 :: r2) in
  (c ++ (if is_expr_stmt s then I [opPopTop] else []) ++ cr, ks ++ kr).
Proof. reflexivity. Qed.
Lemma block_code_nil k base : block_code k base [] = (I [opNil], []).
Proof. reflexivity. Qed.
Lemma block_code_cons k base s r : block_code k base (s :: r) = scode k base (s :: r).
Proof. reflexivity. Qed.
Lemma code_SIf k base c t e : stmt_code k base (SIf c t e) =
  let '(cc, kc) := cexp base c in
  let '(ct, kt) := block_code k (base + length kc) t in
  let '(ce, ke) := block_code k (base + length kc + length kt) e in
  (I cc ++ I [opPopJumpForwardIfFalse; (nlen ct + 4)%N] ++ ct ++ I [opJumpForward; (nlen ce + 2)%N] ++ ce, kc ++ kt ++ ke).
Proof. reflexivity. Qed.
Lemma code_SIf1 k base c t : stmt_code k base (SIf1 c t) =
  let '(cc, kc) := cexp base c in
  let '(ct, kt) := block_code k (base + length kc) t in
  (I cc ++ I [opPopJumpForwardIfFalse; (nlen ct + 4)%N] ++ ct ++ I [opJumpForward; 3%N] ++ I [opNil], kc ++ kt).
Proof. reflexivity. Qed.
Lemma code_SWhile k base c b : stmt_code k base (SWhile c b) =
  let '(cc, kc) := cexp base c in
  let '(cb, kb) := block_code k (base + length kc) b in
  let inner := I cc ++ I [opPopJumpForwardIfFalse; (nlen cb + 6)%N] ++ cb ++ I [opPopTop] in
  let jb := nlen inner in
  (patch 0 (jb + 2) jb inner ++ I [opJumpBackward; jb; opNop], kc ++ kb).
Proof. reflexivity. Qed.

(* ---------------------------------------------------------------- assignment *)
Lemma set_nth_length i v rho : length (set_nth i v rho) = length rho.
Proof. revert i; induction rho as [|x r IH]; intros [|i]; cbn; auto. Qed.
Lemma nth_set_nth_same i v rho d : i < length rho -> nth i (set_nth i v rho) d = v.
Proof. revert i; induction rho as [|x r IH]; intros [|i] H; cbn in *; try lia; [reflexivity|apply IH; lia]. Qed.
Lemma nth_set_nth_other i j v rho d : i <> j -> nth j (set_nth i v rho) d = nth j rho d.
Proof. revert i j; induction rho as [|x r IH]; intros [|i] [|j] H; cbn; try reflexivity; try lia. apply IH. lia. Qed.

(* ---------------------------------------------------------------- what a run does to the variable list *)
(* the variable list a result carries: after a normal end the declaration (if any) is added; a break / continue
   carries the list of its own moment, of the same length (blocks declare nothing) *)
Definition len_ok (rho : list sval) (s : stmt) (r : (list sval * sval) + stop) : Prop :=
  match r with
  | inl (rho', _) => length rho' = next_k (length rho) s
  | inr (StBrk rho') | inr (StCont rho') => length rho' = length rho
  | inr (StErr _) => True
  end.
Definition length_ok (n : nat) : Prop :=
  forall rho s top lp r, wf_stmt top lp (length rho) s = true -> run_stmt n rho s = Some r -> len_ok rho s r.

Definition lens_ok (rho : list sval) (r : (list sval * sval) + stop) : Prop :=
  match r with
  | inl (rho', _) | inr (StBrk rho') | inr (StCont rho') => length rho' = length rho
  | inr (StErr _) => True
  end.

Lemma run_list_length n : length_ok n -> forall l rho last lp r,
  wf_stmts false lp (length rho) l = true -> run_stmts n rho l last = Some r -> lens_ok rho r.
Proof.
  intros Hn. induction l as [|s r0 IH]; intros rho last lp r Hwf Hr.
  - cbn in Hr. inversion Hr. reflexivity.
  - rewrite wf_stmts_cons in Hwf. apply andb_true_iff in Hwf. destruct Hwf as [Hs Hwr].
    rewrite run_stmts_cons in Hr.
    destruct (run_stmt n rho s) as [[[rho1 v1]|x]|] eqn:E; try discriminate.
    + pose proof (Hn rho s false lp _ Hs E) as Hl. cbn [len_ok] in Hl. rewrite (wf_false_next _ _ _ Hs) in Hl, Hwr.
      rewrite <- Hl in Hwr. pose proof (IH rho1 v1 lp r Hwr Hr) as H2.
      destruct r as [[rho2 v2]|[e|rho2|rho2]]; cbn [lens_ok] in *; congruence.
    + inversion Hr; subst r. pose proof (Hn rho s false lp _ Hs E) as Hl. destruct x; exact Hl.
Qed.

Lemma run_stmt_length : forall n, length_ok n.
Proof.
  induction n as [|n IH]; intros rho s top lp r Hwf Hr; [discriminate|].
  destruct s as [e|i e|i o e|i up|e|c t e|c t|c b| |].
  - cbn [run_stmt] in Hr. destruct (sev rho e); inversion Hr; cbn [len_ok next_k]; [rewrite app_length; cbn; lia|exact Logic.I].
  - cbn [run_stmt] in Hr. destruct (sev rho e); inversion Hr; cbn [len_ok next_k]; [apply set_nth_length|exact Logic.I].
  - cbn [run_stmt] in Hr. destruct (sev rho e); [|inversion Hr; exact Logic.I].
    destruct (sbin o (nth i rho VNil) s); inversion Hr; cbn [len_ok next_k]; [apply set_nth_length|exact Logic.I].
  - cbn [run_stmt] in Hr. destruct (sbin BAdd (nth i rho VNil) (VInt (if up then 1%Z else (-1)%Z))); inversion Hr; cbn [len_ok next_k];
      [apply set_nth_length|exact Logic.I].
  - cbn [run_stmt] in Hr. destruct (sev rho e); inversion Hr; cbn [len_ok next_k]; [reflexivity|exact Logic.I].
  - rewrite wf_SIf in Hwf. apply andb_true_iff in Hwf. destruct Hwf as [Hwct Hwe].
    apply andb_true_iff in Hwct. destruct Hwct as [Hwc Hwt].
    rewrite run_SIf in Hr. destruct (sev rho c) as [vc|x]; [|inversion Hr; exact Logic.I].
    assert (H : lens_ok rho r).
    { destruct (struthy vc); [exact (run_list_length n IH t rho VNil lp r Hwt Hr)|exact (run_list_length n IH e rho VNil lp r Hwe Hr)]. }
    destruct r as [[rho2 v2]|[x|rho2|rho2]]; exact H.
  - rewrite wf_SIf1 in Hwf. apply andb_true_iff in Hwf. destruct Hwf as [Hwc Hwt].
    rewrite run_SIf1 in Hr. destruct (sev rho c) as [vc|x]; [|inversion Hr; exact Logic.I].
    destruct (struthy vc); [|inversion Hr; reflexivity].
    pose proof (run_list_length n IH t rho VNil lp r Hwt Hr) as H.
    destruct r as [[rho2 v2]|[x|rho2|rho2]]; exact H.
  - rewrite wf_SWhile in Hwf. apply andb_true_iff in Hwf. destruct Hwf as [Hwc Hwb].
    rewrite run_SWhile in Hr. destruct (sev rho c) as [vc|x]; [|inversion Hr; exact Logic.I].
    destruct (struthy vc); [|inversion Hr; reflexivity].
    destruct (run_stmts n rho b VNil) as [[[rho1 v1]|[x|rho1|rho1]]|] eqn:E; try discriminate.
    + pose proof (run_list_length n IH b rho VNil true _ Hwb E) as Hl. cbn [lens_ok] in Hl.
      assert (Hw' : wf_stmt top lp (length rho1) (SWhile c b) = true) by (rewrite wf_SWhile, Hl, Hwc, Hwb; reflexivity).
      pose proof (IH rho1 (SWhile c b) top lp r Hw' Hr) as H2.
      destruct r as [[rho2 v2]|[x|rho2|rho2]]; cbn [len_ok next_k] in *; congruence.
    + inversion Hr; exact Logic.I.
    + pose proof (run_list_length n IH b rho VNil true _ Hwb E) as Hl. cbn [lens_ok] in Hl.
      inversion Hr; subst r. exact Hl.
    + pose proof (run_list_length n IH b rho VNil true _ Hwb E) as Hl. cbn [lens_ok] in Hl.
      assert (Hw' : wf_stmt top lp (length rho1) (SWhile c b) = true) by (rewrite wf_SWhile, Hl, Hwc, Hwb; reflexivity).
      pose proof (IH rho1 (SWhile c b) top lp r Hw' Hr) as H2.
      destruct r as [[rho2 v2]|[x|rho2|rho2]]; cbn [len_ok next_k] in *; congruence.
  - cbn [run_stmt] in Hr. inversion Hr. reflexivity.
  - cbn [run_stmt] in Hr. inversion Hr. reflexivity.
Qed.

Lemma run_stmts_length n l rho last lp r :
  wf_stmts false lp (length rho) l = true -> run_stmts n rho l last = Some r -> lens_ok rho r.
Proof. apply run_list_length. apply run_stmt_length. Qed.

(* a statement that is not an expression has the value nil *)
Lemma run_stmt_value : forall n rho s rho' v, run_stmt n rho s = Some (inl (rho', v)) -> is_expr_stmt s = false -> v = VNil.
Proof.
  induction n as [|n IH]; intros rho s rho' v Hr Hx; [discriminate|].
  destruct s as [e|i e|i o e|i up|e|c t e|c t|c b| |]; try discriminate.
  - cbn [run_stmt] in Hr. destruct (sev rho e); inversion Hr. reflexivity.
  - cbn [run_stmt] in Hr. destruct (sev rho e); inversion Hr. reflexivity.
  - cbn [run_stmt] in Hr. destruct (sev rho e); [|discriminate]. destruct (sbin o (nth i rho VNil) s); inversion Hr. reflexivity.
  - cbn [run_stmt] in Hr. destruct (sbin BAdd (nth i rho VNil) (VInt (if up then 1%Z else (-1)%Z))); inversion Hr. reflexivity.
  - rewrite run_SWhile in Hr. destruct (sev rho c) as [vc|x]; [|discriminate].
    destruct (struthy vc); [|inversion Hr; reflexivity].
    destruct (run_stmts n rho b VNil) as [[[rho1 v1]|[x|rho1|rho1]]|]; try discriminate.
    + exact (IH rho1 (SWhile c b) rho' v Hr eq_refl).
    + inversion Hr. reflexivity.
    + exact (IH rho1 (SWhile c b) rho' v Hr eq_refl).
Qed.

(* break and continue do not leave a statement that is not inside a loop *)
Definition no_ctl (r : (list sval * sval) + stop) : Prop :=
  match r with inr (StBrk _) | inr (StCont _) => False | _ => True end.
Lemma no_escape : forall n rho s top r, wf_stmt top false (length rho) s = true -> run_stmt n rho s = Some r -> no_ctl r.
Proof.
  induction n as [|n IH]; intros rho s top r Hwf Hr; [discriminate|].
  assert (Hlist : forall l rho0 last r0, wf_stmts false false (length rho0) l = true -> run_stmts n rho0 l last = Some r0 -> no_ctl r0).
  { induction l as [|s0 l0 IHl]; intros rho0 last r0 Hw H0.
    - cbn in H0. inversion H0. exact Logic.I.
    - rewrite wf_stmts_cons in Hw. apply andb_true_iff in Hw. destruct Hw as [Hs Hw].
      rewrite run_stmts_cons in H0.
      destruct (run_stmt n rho0 s0) as [[[rho1 v1]|x]|] eqn:E; try discriminate.
      + pose proof (run_stmt_length n rho0 s0 false false _ Hs E) as Hl. cbn [len_ok] in Hl.
        rewrite (wf_false_next _ _ _ Hs) in Hl, Hw. rewrite <- Hl in Hw. exact (IHl rho1 v1 r0 Hw H0).
      + inversion H0; subst r0. exact (IH rho0 s0 false _ Hs E). }
  destruct s as [e|i e|i o e|i up|e|c t e|c t|c b| |].
  - cbn [run_stmt] in Hr. destruct (sev rho e); inversion Hr; exact Logic.I.
  - cbn [run_stmt] in Hr. destruct (sev rho e); inversion Hr; exact Logic.I.
  - cbn [run_stmt] in Hr. destruct (sev rho e); [|inversion Hr; exact Logic.I]. destruct (sbin o (nth i rho VNil) s); inversion Hr; exact Logic.I.
  - cbn [run_stmt] in Hr. destruct (sbin BAdd (nth i rho VNil) (VInt (if up then 1%Z else (-1)%Z))); inversion Hr; exact Logic.I.
  - cbn [run_stmt] in Hr. destruct (sev rho e); inversion Hr; exact Logic.I.
  - rewrite wf_SIf in Hwf. apply andb_true_iff in Hwf. destruct Hwf as [Hwct Hwe].
    apply andb_true_iff in Hwct. destruct Hwct as [Hwc Hwt].
    rewrite run_SIf in Hr. destruct (sev rho c) as [vc|x]; [|inversion Hr; exact Logic.I].
    destruct (struthy vc); [exact (Hlist t rho VNil r Hwt Hr)|exact (Hlist e rho VNil r Hwe Hr)].
  - rewrite wf_SIf1 in Hwf. apply andb_true_iff in Hwf. destruct Hwf as [Hwc Hwt].
    rewrite run_SIf1 in Hr. destruct (sev rho c) as [vc|x]; [|inversion Hr; exact Logic.I].
    destruct (struthy vc); [exact (Hlist t rho VNil r Hwt Hr)|inversion Hr; exact Logic.I].
  - rewrite wf_SWhile in Hwf. apply andb_true_iff in Hwf. destruct Hwf as [Hwc Hwb].
    rewrite run_SWhile in Hr. destruct (sev rho c) as [vc|x]; [|inversion Hr; exact Logic.I].
    destruct (struthy vc); [|inversion Hr; exact Logic.I].
    destruct (run_stmts n rho b VNil) as [[[rho1 v1]|[x|rho1|rho1]]|] eqn:E; try discriminate.
    + pose proof (run_stmts_length n b rho VNil true _ Hwb E) as Hl. cbn [lens_ok] in Hl.
      apply (IH rho1 (SWhile c b) top r); [rewrite wf_SWhile, Hl, Hwc, Hwb; reflexivity|exact Hr].
    + inversion Hr; exact Logic.I.
    + inversion Hr; exact Logic.I.
    + pose proof (run_stmts_length n b rho VNil true _ Hwb E) as Hl. cbn [lens_ok] in Hl.
      apply (IH rho1 (SWhile c b) top r); [rewrite wf_SWhile, Hl, Hwc, Hwb; reflexivity|exact Hr].
  - discriminate.
  - discriminate.
Qed.

Lemma no_escape_stmts n : forall l rho top last r,
  wf_stmts top false (length rho) l = true -> run_stmts n rho l last = Some r -> no_ctl r.
Proof.
  induction l as [|s l IH]; intros rho top last r Hw Hr.
  - cbn in Hr. inversion Hr. exact Logic.I.
  - rewrite wf_stmts_cons in Hw. apply andb_true_iff in Hw. destruct Hw as [Hs Hw].
    rewrite run_stmts_cons in Hr.
    destruct (run_stmt n rho s) as [[[rho1 v1]|x]|] eqn:E; try discriminate.
    + pose proof (run_stmt_length n rho s top false _ Hs E) as Hl. cbn [len_ok] in Hl.
      rewrite <- Hl in Hw. exact (IH rho1 top v1 r Hw Hr).
    + inversion Hr; subst r. exact (no_escape n rho s top _ Hs E).
Qed.
