(* Proofs about the path model: filepath.Clean element stack, ResolvePath confinement,
   mount selection.  Ported from the design-round prototype (Appendix A.4). *)
From Coq Require Import List Bool Arith Lia.
Require Import RV.model.Paths.
Import ListNotations.

Section PathsProofs.
  Context {A : Alphabet}.
  Hypothesis slash_dot : slash <> dot.
  Notation str := (list char).


  (* split on '/', keeping empty segments *)
  Lemma str_eqb_eq a b : str_eqb a b = true <-> a = b.
  Proof.
    revert b; induction a as [|x a IH]; intros [|y b]; cbn; try (split; congruence).
    destruct (ceq x y) as [->|N].
    - rewrite IH. split; congruence.
    - split; [discriminate|]. intros E; injection E as E1 E2; contradiction.
  Qed.

  (* the element stack of filepath.Clean, top of stack = head of the list *)
  (* ---------- facts about the cleaned element list ---------- *)

  Definition normal (s : str) : Prop :=
    is_empty s = false /\ is_dot s = false /\ is_dotdot s = false /\ Forall (fun c => c <> slash) s.

  Definition noslash (s : str) : Prop := Forall (fun c => c <> slash) s.

  Lemma split_aux_noslash cur s : noslash cur -> Forall noslash (split_aux cur s).
  Proof.
    revert cur; induction s as [|c r IH]; intros cur Hc; cbn.
    - constructor; [|constructor]. unfold noslash. apply Forall_rev. exact Hc.
    - unfold is_slash. destruct (ceq c slash) as [->|N].
      + constructor; [apply Forall_rev; exact Hc|]. apply IH. constructor.
      + apply IH. constructor; assumption.
  Qed.

  Lemma split_noslash s : Forall noslash (split s).
  Proof. apply split_aux_noslash. constructor. Qed.

  (* stack invariant: below any normal element there is no "..";  all elements are normal or ".." *)
  Inductive stack_ok (rooted : bool) : list str -> Prop :=
  | so_nil : stack_ok rooted []
  | so_norm s st : normal s -> stack_ok rooted st -> stack_ok rooted (s :: st)
  | so_dd st : rooted = false -> Forall (fun x => is_dotdot x = true) st -> stack_ok rooted (dotdot :: st).

  Lemma stack_ok_dd_tail rooted top st :
    stack_ok rooted (top :: st) -> is_dotdot top = true -> rooted = false /\ Forall (fun x => is_dotdot x = true) (top :: st).
  Proof.
    intros H E. inversion H as [|s st' Hn Hs|st' Hr Hf]; subst.
    - destruct Hn as (_ & _ & Hd & _). congruence.
    - split; [auto|]. constructor; auto.
  Qed.

  Lemma clean_stack_ok rooted st segs :
    Forall noslash segs -> stack_ok rooted st -> stack_ok rooted (clean_stack rooted st segs).
  Proof.
    revert st; induction segs as [|s r IH]; intros st Hs Hst; cbn; [exact Hst|].
    inversion Hs as [|? ? Hs1 Hs2]; subst.
    destruct (is_empty s) eqn:Ee; cbn [orb]; [apply IH; assumption|].
    destruct (is_dot s) eqn:Ed; [apply IH; assumption|].
    destruct (is_dotdot s) eqn:Edd.
    - apply str_eqb_eq in Edd. subst s.
      destruct st as [|top st'].
      + destruct rooted eqn:Er; [apply IH; [assumption|constructor]|].
        apply IH; [assumption|]. apply so_dd; [reflexivity|constructor].
      + destruct (is_dotdot top) eqn:Et.
        * destruct (stack_ok_dd_tail _ _ _ Hst Et) as (Hr & Hf).
          apply IH; [assumption|]. apply so_dd; assumption.
        * apply IH; [assumption|]. inversion Hst as [|s0 st0 Hn Hs0|st0 Hr Hf]; subst; [assumption|].
          cbn in Et. destruct (ceq dot dot); [|contradiction]. destruct (ceq dot dot); [|contradiction]. discriminate.
    - apply IH; [assumption|]. apply so_norm; [|assumption].
      repeat split; assumption.
  Qed.

  (* consequence: a rooted clean path has only normal elements; an unrooted one is "..".."" then normal *)
  Lemma stack_ok_rooted st : stack_ok true st -> Forall normal st.
  Proof. induction 1 as [|s st Hn Hs IH|st Hr Hf]; [constructor|constructor; assumption|discriminate]. Qed.

  Lemma clean_segs_rooted s : is_rooted s = true -> Forall normal (clean_segs s).
  Proof.
    intros Hr. unfold clean_segs. rewrite Hr. apply Forall_rev. apply stack_ok_rooted.
    apply clean_stack_ok; [apply split_noslash|constructor].
  Qed.

  (* unrooted: either the first element (bottom of the stack) is "..", or everything is normal *)
  Lemma stack_ok_unrooted st :
    stack_ok false st -> Forall normal st \/ (exists st', rev st = dotdot :: st').
  Proof.
    induction 1 as [|s st Hn Hs IH|st Hr Hf].
    - left; constructor.
    - destruct IH as [IH|(st' & E)]; [left; constructor; assumption|].
      right. cbn. rewrite E. eexists; reflexivity.
    - right. cbn. destruct (rev st) as [|x l] eqn:E; [eexists; reflexivity|].
      assert (Hx : In x (rev st)) by (rewrite E; left; reflexivity).
      apply in_rev in Hx. rewrite Forall_forall in Hf. specialize (Hf x Hx).
      apply str_eqb_eq in Hf. subst x. eexists; reflexivity.
  Qed.

  Lemma clean_segs_unrooted s :
    is_rooted s = false ->
    Forall normal (clean_segs s) \/ exists r, clean_segs s = dotdot :: r.
  Proof.
    intros Hr. unfold clean_segs. rewrite Hr.
    destruct (stack_ok_unrooted (clean_stack false [] (split s))) as [H|H].
    - apply clean_stack_ok; [apply split_noslash|constructor].
    - left. apply Forall_rev. exact H.
    - right. exact H.
  Qed.

  (* cleaning a list of normal elements is the identity on the stack *)
  Lemma clean_stack_normal rooted st segs :
    Forall normal segs -> clean_stack rooted st segs = rev segs ++ st.
  Proof.
    revert st; induction segs as [|s r IH]; intros st H; cbn; [reflexivity|].
    inversion H as [|? ? (He & Hd & Hdd & _) Hr]; subst.
    rewrite He, Hd, Hdd. cbn. rewrite IH by assumption. rewrite <- app_assoc. reflexivity.
  Qed.

  (* ---------- strings <-> elements ---------- *)

  Lemma split_aux_app cur a b :
    split_aux cur (a ++ slash :: b) = split_aux cur a ++ split b.
  Proof.
    revert cur; induction a as [|c r IH]; intros cur; cbn.
    - unfold is_slash. destruct (ceq slash slash); [reflexivity|contradiction].
    - destruct (is_slash c); [cbn; f_equal; apply IH|apply IH].
  Qed.

  Lemma split_app a b : split (a ++ slash :: b) = split a ++ split b.
  Proof. apply split_aux_app. Qed.

  Lemma split_aux_noslash_id cur s : noslash s -> split_aux cur s = [rev cur ++ s].
  Proof.
    revert cur; induction s as [|c r IH]; intros cur H; cbn.
    - rewrite app_nil_r. reflexivity.
    - inversion H as [|? ? Hc Hr]; subst. unfold is_slash. destruct (ceq c slash); [contradiction|].
      rewrite IH by assumption. cbn. rewrite <- app_assoc. reflexivity.
  Qed.

  Lemma split_noslash_id s : noslash s -> split s = [s].
  Proof. intros H. unfold split. rewrite split_aux_noslash_id by assumption. reflexivity. Qed.

  Lemma normal_noslash s : normal s -> noslash s.
  Proof. intros (_ & _ & _ & H). exact H. Qed.
  Lemma normal_nonempty s : normal s -> nonempty s = true.
  Proof. intros (H & _). unfold nonempty. rewrite H. reflexivity. Qed.

  Lemma split_join segs : segs <> [] -> Forall normal segs -> split (join_segs segs) = segs.
  Proof.
    induction segs as [|s r IH]; intros NE H; [contradiction|].
    inversion H as [|? ? Hs Hr]; subst.
    destruct r as [|s' r'].
    - cbn. apply split_noslash_id. apply normal_noslash; assumption.
    - change (join_segs (s :: s' :: r')) with (s ++ slash :: join_segs (s' :: r')).
      rewrite split_app. rewrite split_noslash_id by (apply normal_noslash; assumption).
      rewrite IH by (try discriminate; assumption). reflexivity.
  Qed.

  Lemma filter_normal segs : Forall normal segs -> filter nonempty segs = segs.
  Proof.
    induction 1 as [|s r Hs Hr IH]; [reflexivity|]. cbn. rewrite (normal_nonempty s Hs). rewrite IH. reflexivity.
  Qed.

  Lemma comps_join segs : Forall normal segs -> comps (join_segs segs) = segs.
  Proof.
    intros H. destruct segs as [|s r]; [reflexivity|].
    unfold comps. rewrite split_join by (try discriminate; assumption). apply filter_normal; assumption.
  Qed.

  Lemma comps_rooted_join segs : Forall normal segs -> comps (slash :: join_segs segs) = segs.
  Proof.
    intros H. unfold comps. change (slash :: join_segs segs) with ([] ++ slash :: join_segs segs).
    rewrite split_app. cbn [split split_aux rev app filter nonempty is_empty negb].
    fold (comps (join_segs segs)). apply comps_join; assumption.
  Qed.

  (* clean ignores empty elements *)
  Lemma clean_stack_filter rooted st segs :
    clean_stack rooted st segs = clean_stack rooted st (filter nonempty segs).
  Proof.
    revert st; induction segs as [|s r IH]; intros st; [reflexivity|].
    cbn [filter]. unfold nonempty at 1. destruct (is_empty s) eqn:E; cbn [negb].
    - cbn [clean_stack]. rewrite E. cbn [orb]. apply IH.
    - cbn [clean_stack]. rewrite E. cbn [orb].
      destruct (is_dot s); [apply IH|].
      destruct (is_dotdot s).
      + destruct st as [|top st']; [destruct rooted; apply IH|destruct (is_dotdot top); apply IH].
      + apply IH.
  Qed.

  Lemma clean_stack_app rooted st a b :
    clean_stack rooted st (a ++ b) = clean_stack rooted (clean_stack rooted st a) b.
  Proof.
    revert st; induction a as [|s r IH]; intros st; [reflexivity|].
    cbn [app clean_stack].
    destruct (is_empty s || is_dot s); [apply IH|].
    destruct (is_dotdot s).
    - destruct st as [|top st']; [destruct rooted; apply IH|destruct (is_dotdot top); apply IH].
    - apply IH.
  Qed.

  (* ---------- ResolvePath ---------- *)

  Lemma has_prefix_app p s : has_prefix (p ++ s) p = true.
  Proof. induction p as [|a p IH]; cbn; [destruct s; reflexivity|]. destruct (ceq a a); [exact IH|contradiction]. Qed.

  Lemma clean_dotdot_prefix s r :
    is_rooted s = false -> clean_segs s = dotdot :: r -> has_prefix (clean s) dotdot = true.
  Proof.
    intros Hr E. unfold clean. rewrite Hr, E.
    destruct r as [|x r'].
    - cbn [join_segs]. rewrite <- (app_nil_r dotdot) at 1. apply has_prefix_app.
    - change (join_segs (dotdot :: x :: r')) with (dotdot ++ slash :: join_segs (x :: r')). apply has_prefix_app.
  Qed.

  (* the elements of a cleaned path that was accepted are all normal *)
  Lemma accepted_normal path :
    has_prefix (clean path) dotdot = false -> Forall normal (clean_segs path).
  Proof.
    intros H. destruct (is_rooted path) eqn:Hr; [apply clean_segs_rooted; assumption|].
    destruct (clean_segs_unrooted path Hr) as [Hn|(r & E)]; [assumption|].
    rewrite (clean_dotdot_prefix path r Hr E) in H. discriminate.
  Qed.

  Lemma comps_clean path : Forall normal (clean_segs path) -> comps (clean path) = clean_segs path
                                                             \/ (clean_segs path = [] /\ clean path = [dot]).
  Proof.
    intros H. unfold clean. destruct (is_rooted path).
    - left. apply comps_rooted_join; assumption.
    - destruct (clean_segs path) as [|s r] eqn:E; [right; split; reflexivity|].
      left. apply comps_join; assumption.
  Qed.

  Definition base_ok (base : str) : Prop :=
    base <> [] /\ Forall normal (comps base).

  Lemma is_rooted_app base r : base <> [] -> is_rooted (base ++ r) = is_rooted base.
  Proof. destruct base; [contradiction|reflexivity]. Qed.

  Lemma dot_comps : comps [dot] = [[dot]].
  Proof.
    unfold comps, split. cbn. unfold is_slash. destruct (ceq dot slash) as [E|_]; [symmetry in E; contradiction|].
    reflexivity.
  Qed.

  Lemma clean_stack_dot rooted st : clean_stack rooted st [[dot]] = st.
  Proof. cbn. destruct (ceq dot dot); [reflexivity|contradiction]. Qed.

  Lemma split_aux_head cur s : exists x rest, split_aux cur s = (rev cur ++ x) :: rest.
  Proof.
    revert cur; induction s as [|c r IH]; intros cur; cbn.
    - exists [], []. rewrite app_nil_r. reflexivity.
    - destruct (is_slash c).
      + exists [], (split_aux [] r). rewrite app_nil_r. reflexivity.
      + destruct (IH (c :: cur)) as (x & rest & E). exists (c :: x), rest. rewrite E. cbn.
        rewrite <- app_assoc. reflexivity.
  Qed.

  Lemma comps_unrooted_nonempty c b : is_slash c = false -> comps (c :: b) <> [].
  Proof.
    intros Hc. unfold comps, split. cbn [split_aux]. rewrite Hc.
    destruct (split_aux_head [c] b) as (x & rest & E). rewrite E. cbn. discriminate.
  Qed.

  Theorem resolve_confined base path q :
    base_ok base -> resolve_path base path = Ok q ->
    is_empty base || str_eqb base [slash] = false ->
    exists rest, comps q = comps base ++ rest /\ Forall normal rest.
  Proof.
    intros (NE & Hb) R Hnb. unfold resolve_path in R.
    destruct (has_prefix (clean path) dotdot) eqn:Hp; [discriminate|].
    rewrite Hnb in R. injection R as <-.
    pose proof (accepted_normal path Hp) as Hn.
    exists (clean_segs path). split; [|assumption].
    unfold join2.
    set (p := clean path). set (whole := base ++ slash :: p).
    assert (Hr : is_rooted whole = is_rooted base) by (apply is_rooted_app; assumption).
    assert (Hseg : clean_segs whole = comps base ++ clean_segs path).
    { unfold clean_segs at 1. rewrite Hr. unfold whole. rewrite split_app.
      rewrite clean_stack_app. rewrite (clean_stack_filter _ _ (split base)). fold (comps base).
      rewrite (clean_stack_normal _ _ (comps base)) by assumption. rewrite app_nil_r.
      rewrite (clean_stack_filter _ _ (split p)). fold (comps p).
      destruct (comps_clean path Hn) as [E|(E1 & E2)].
      - unfold p. rewrite E. rewrite clean_stack_normal by assumption. rewrite rev_app_distr, !rev_involutive. reflexivity.
      - unfold p. rewrite E2, dot_comps, clean_stack_dot, E1, app_nil_r, rev_involutive. reflexivity. }
    assert (Hall : Forall normal (comps base ++ clean_segs path)) by (apply Forall_app; split; assumption).
    unfold clean. rewrite Hr, Hseg.
    destruct (is_rooted base) eqn:Hrb.
    - apply comps_rooted_join; assumption.
    - destruct (comps base ++ clean_segs path) as [|s r] eqn:E.
      + (* impossible: base is non-empty, unrooted and its elements are normal, so comps base is non-empty *)
        exfalso. apply app_eq_nil in E. destruct E as (E & _).
        destruct base as [|c b]; [contradiction|]. cbn in Hrb.
        exact (comps_unrooted_nonempty c b Hrb E).
      + rewrite <- E in *. apply comps_join; assumption.
  Qed.


  (* what localfs.New accepts as a base *)
  Lemma clean_nonempty p : clean p <> [].
  Proof.
    unfold clean. destruct (is_rooted p) eqn:Hr; [discriminate|].
    destruct (clean_segs p) as [|x r] eqn:E; [discriminate|].
    destruct (clean_segs_unrooted p Hr) as [Hn|(r' & E')].
    - rewrite E in Hn. inversion Hn as [|? ? Hx Hr']; subst.
      destruct Hx as (Hx & _). destruct x; [discriminate|]. destruct r; cbn; discriminate.
    - rewrite E in E'. injection E' as -> ->. destruct r'; cbn; discriminate.
  Qed.

  Lemma new_base_ok orig :
    has_prefix (clean orig) dotdot = false -> clean orig <> [dot] -> base_ok (clean orig).
  Proof.
    intros Hp Hd. split; [apply clean_nonempty|].
    pose proof (accepted_normal orig Hp) as Hn.
    destruct (comps_clean orig Hn) as [E|(_ & E)]; [rewrite E; assumption|contradiction].
  Qed.

  Lemma resolve_two_confined base p1 p2 q1 q2 :
    base_ok base -> is_empty base || str_eqb base [slash] = false ->
    resolve_two base p1 p2 = Some (q1, q2) ->
    (exists r1, comps q1 = comps base ++ r1 /\ Forall normal r1) /\
    (exists r2, comps q2 = comps base ++ r2 /\ Forall normal r2).
  Proof.
    intros Hb Hn H. unfold resolve_two in H.
    destruct (resolve_path base p1) as [a|] eqn:E1; [|discriminate].
    destruct (resolve_path base p2) as [b|] eqn:E2; [|discriminate].
    injection H as <- <-. split; eapply resolve_confined; eassumption.
  Qed.

  Lemma resolve_two_rejects base p1 p2 :
    (resolve_path base p1 = Invalid \/ resolve_path base p2 = Invalid) -> resolve_two base p1 p2 = None.
  Proof.
    intros [H|H]; unfold resolve_two; rewrite H; [reflexivity|].
    destruct (resolve_path base p1); reflexivity.
  Qed.
End PathsProofs.
