From Coq Require Import List Bool PArith.
Require Import RV.model.Graph RV.model.CallGraph RV.proofs.GraphProofs.
Import ListNotations.

Theorem mediated_sound : forall g cuts builtins real,
  mediated_check g cuts builtins real = true ->
  forall b r, In b builtins -> In r real -> ~ Reach (cut_graph g cuts) [b] r.
Proof.
  intros g cuts builtins real H b r Hb Hr Hreach. unfold mediated_check in H.
  destruct (reach_from (cut_graph g cuts) builtins) as [s|] eqn:Hs; [|discriminate].
  unfold reach_from in Hs. pose proof (reach_complete _ _ _ _ Hs r) as Hc.
  assert (Hin : PS.In r s).
  { apply Hc. eapply Reach_mono; [| |exact Hreach]; [auto|].
    intros x [->|[]]. exact Hb. }
  rewrite forallb_forall in H. specialize (H r Hr). apply PS.mem_spec in Hin. rewrite Hin in H. discriminate.
Qed.

Theorem reaches_some_sound : forall g cuts roots real,
  reaches_some g cuts roots real = true -> exists r, In r real /\ Reach (cut_graph g cuts) roots r.
Proof.
  intros g cuts roots real H. unfold reaches_some in H.
  destruct (reach_from (cut_graph g cuts) roots) as [s|] eqn:Hs; [|discriminate].
  apply existsb_exists in H. destruct H as [r [Hr Hm]]. exists r. split; [exact Hr|].
  unfold reach_from in Hs. apply (reach_complete _ _ _ _ Hs r). apply PS.mem_spec. exact Hm.
Qed.
