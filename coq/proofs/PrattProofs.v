(* parse (print e) = e for the reduced Pratt parser, for ANY binding-power table in which every
   binary operator binds tighter than LOWEST and no tighter than PREFIX (Appendix A.3). *)
From Coq Require Import List Arith Lia Bool.
Require Import RV.model.Pratt.
Import ListNotations.

Arguments Nat.ltb : simpl never.
Arguments Nat.leb : simpl never.

Section PrattProofs.
  Variable bp : nat -> nat.
  Variable minus : nat.
  Variables LOWEST PREFIX : nat.
  Hypothesis bp_pos : forall o, LOWEST < bp o.
  Hypothesis bp_lt_prefix : forall o, bp o <= PREFIX.

  Notation parse := (Pratt.parse bp minus LOWEST PREFIX).
  Notation loop := (Pratt.loop bp minus LOWEST PREFIX).
  Notation flat := (Pratt.flat bp minus PREFIX).
  Notation pre_tok := (Pratt.pre_tok minus).

Lemma parse_S f prec ts :
  parse (S f) prec ts =
  match ts with
  | TInt n :: r => loop f prec f (Int n) r
  | TL :: r => match parse f LOWEST r with
               | Some (e, TR :: r') => loop f prec f e r'
               | _ => None
               end
  | TOp o :: r => if Nat.eqb o minus then
                    match parse f PREFIX r with
                    | Some (e, r') => loop f prec f (Prefix PNeg e) r'
                    | None => None
                    end
                  else None
  | TBang :: r => match parse f PREFIX r with
                  | Some (e, r') => loop f prec f (Prefix PNot e) r'
                  | None => None
                  end
  | _ => None
  end.
Proof.
  assert (E : forall g left ts0,
             (fix loop (g : nat) (left : expr) (ts : list tok) {struct g} : option (expr * list tok) :=
                match g with
                | O => None
                | S g' =>
                  match ts with
                  | TOp o :: r =>
                      if prec <? bp o then
                        match parse f (bp o) r with
                        | Some (rt, r') => loop g' (Infix o left rt) r'
                        | None => None
                        end
                      else Some (left, ts)
                  | _ => Some (left, ts)
                  end
                end) g left ts0 = loop f prec g left ts0).
  { induction g as [|g IH]; intros left ts0; [reflexivity|]. cbn.
    destruct ts0 as [|[n|o| | |] r]; try reflexivity.
    destruct (prec <? bp o); [|reflexivity]. destruct (parse f (bp o) r) as [[rt r']|]; [apply IH|reflexivity]. }
  cbn [parse]. destruct ts as [|[n|o| | |] r]; try reflexivity; rewrite ?E; try reflexivity.
  - destruct (Nat.eqb o minus); [|reflexivity]. destruct (parse f PREFIX r) as [[e r']|]; [apply E|reflexivity].
  - destruct (parse f PREFIX r) as [[e r']|]; [apply E|reflexivity].
  - destruct (parse f LOWEST r) as [[e [|[n|o| | |] r']]|]; try reflexivity. apply E.
Qed.

(* ---------- fuel monotonicity ---------- *)

Lemma loop_mono_g f prec : forall g left ts r g', loop f prec g left ts = Some r -> g <= g' -> loop f prec g' left ts = Some r.
Proof.
  induction g as [|g IH]; intros left ts r g' H Hg; [discriminate|].
  destruct g' as [|g']; [lia|]. cbn [loop] in *.
  destruct ts as [|[n|o| | |] rest]; try exact H.
  destruct (prec <? bp o); [|exact H].
  destruct (parse f (bp o) rest) as [[rt r']|]; [|discriminate]. apply (IH _ _ _ g' H). lia.
Qed.

Lemma loop_mono_f f prec
      (P : forall prec ts r f', parse f prec ts = Some r -> f <= f' -> parse f' prec ts = Some r) :
  forall g left ts r f', loop f prec g left ts = Some r -> f <= f' -> loop f' prec g left ts = Some r.
Proof.
  induction g as [|g IHg]; intros left ts r f' H Hf; [discriminate|].
  cbn [loop] in *. destruct ts as [|[n|o| | |] rest]; try exact H.
  destruct (prec <? bp o); [|exact H].
  destruct (parse f (bp o) rest) as [[rt r']|] eqn:E; [|discriminate].
  rewrite (P _ _ _ f' E Hf). apply IHg; assumption.
Qed.

Lemma parse_mono : forall f prec ts r f', parse f prec ts = Some r -> f <= f' -> parse f' prec ts = Some r.
Proof.
  induction f as [|f IH]; intros prec ts r f' H Hf; [discriminate|].
  destruct f' as [|f']; [lia|]. assert (Hf' : f <= f') by lia.
  pose proof (fun prec => loop_mono_f f prec IH) as L.
  assert (LL : forall prec left ts r, loop f prec f left ts = Some r -> loop f' prec f' left ts = Some r).
  { intros prec0 left ts0 r0 H0. apply (loop_mono_g f' prec0 f); [|exact Hf']. apply L; assumption. }
  rewrite parse_S in *.
  destruct ts as [|[n|o| | |] rest]; try discriminate.
  - apply LL; exact H.
  - destruct (Nat.eqb o minus); [|discriminate].
    destruct (parse f PREFIX rest) as [[e r']|] eqn:E; [|discriminate].
    rewrite (IH _ _ _ f' E Hf'). apply LL; exact H.
  - destruct (parse f PREFIX rest) as [[e r']|] eqn:E; [|discriminate].
    rewrite (IH _ _ _ f' E Hf'). apply LL; exact H.
  - destruct (parse f LOWEST rest) as [[e [|[n|o| | |] r']]|] eqn:E; try discriminate.
    rewrite (IH _ _ _ f' E Hf'). apply LL; exact H.
Qed.

Lemma loop_mono f prec g left ts r f' g' :
  loop f prec g left ts = Some r -> f <= f' -> g <= g' -> loop f' prec g' left ts = Some r.
Proof.
  intros H Hf Hg. apply (loop_mono_g f' prec g); [|exact Hg].
  apply (loop_mono_f f prec (parse_mono f)); assumption.
Qed.

(* ---------- the round trip ---------- *)

Definition next_bp_le (b : nat) (rest : list tok) : Prop :=
  match rest with TOp o :: _ => bp o <= b | _ => True end.

Lemma loop_stop f prec g left rest : next_bp_le prec rest -> loop f prec (S g) left rest = Some (left, rest).
Proof.
  intros H. cbn [loop]. destruct rest as [|[n|o| | |] r]; try reflexivity.
  cbn in H. replace (prec <? bp o) with false by (symmetry; apply Nat.ltb_ge; exact H). reflexivity.
Qed.

Lemma loop_op f prec g left o r :
  loop f prec (S g) left (TOp o :: r) =
  if prec <? bp o then
    match parse f (bp o) r with Some (rt, r') => loop f prec g (Infix o left rt) r' | None => None end
  else Some (left, TOp o :: r).
Proof. reflexivity. Qed.

Definition tailc (q : nat) (e : expr) (rest : list tok) : Prop :=
  match e with
  | Infix o _ _ => if bp o <=? q then True else next_bp_le (bp o) rest
  | _ => True
  end.


(* parsing, at a lower precedence p, the tokens of e printed at level q >= p rebuilds e and then
   continues the loop at p *)
Lemma roundtrip_gen e :
  forall p q rest res f0 g0,
    p <= q -> tailc q e rest ->
    loop f0 p g0 e rest = Some res ->
    exists f1, forall f, f1 <= f -> parse f p (flat q e ++ rest) = Some res.
Proof.
  induction e as [n|o l IHl r IHr|pr e IH]; intros p q rest res f0 g0 Hpq Ht Hl.
  - exists (S (Nat.max f0 g0)). intros f Hf. destruct f as [|f]; [lia|]. cbn [flat app]. rewrite parse_S.
    apply (loop_mono f0 p g0); [exact Hl|lia|lia].
  - cbn [flat]. destruct (bp o <=? q) eqn:Eq.
    + (* parenthesised: an atom *)
      apply Nat.leb_le in Eq.
      assert (Hin : exists f1, forall f, f1 <= f ->
                     parse f LOWEST ((flat (bp o - 1) l ++ TOp o :: flat (bp o) r) ++ TR :: rest) = Some (Infix o l r, TR :: rest)).
      { (* inner expression at LOWEST, followed by ')' *)
        destruct (IHr (bp o) (bp o) (TR :: rest) (r, TR :: rest) 0 1 (le_n _)) as (fr & Hr).
        { destruct r as [n|o' l' r'|pr' e']; cbn; try exact I. destruct (bp o' <=? bp o); exact I. }
        { apply loop_stop. exact I. }
        destruct (IHl LOWEST (bp o - 1) (TOp o :: flat (bp o) r ++ TR :: rest) (Infix o l r, TR :: rest) (S fr) 2) as (fl & Hlft).
        { pose proof (bp_pos o). lia. }
        { destruct l as [n|o' l' r'|pr' e']; cbn; try exact I.
          destruct (bp o' <=? bp o - 1) eqn:E'; [exact I|]. apply Nat.leb_gt in E'. cbn. lia. }
        { rewrite loop_op. replace (LOWEST <? bp o) with true by (symmetry; apply Nat.ltb_lt; apply bp_pos).
          rewrite (Hr (S fr)) by lia. apply loop_stop; exact I. }
        exists fl. intros f Hf. rewrite <- app_assoc. cbn [app]. apply Hlft. exact Hf. }
      destruct Hin as (f1 & Hin).
      exists (S (Nat.max f1 (Nat.max f0 g0))). intros f Hf. destruct f as [|f]; [lia|].
      cbn [app]. rewrite <- (app_assoc _ [TR] rest). cbn [app]. rewrite parse_S. rewrite Hin by lia.
      apply (loop_mono f0 p g0); [exact Hl|lia|lia].
    + (* bare infix *)
      apply Nat.leb_gt in Eq. cbn [tailc] in Ht. replace (bp o <=? q) with false in Ht by (symmetry; apply Nat.leb_gt; exact Eq).
      destruct (IHr (bp o) (bp o) rest (r, rest) 0 1 (le_n _)) as (fr & Hr).
      { destruct r as [n|o' l' r'|pr' e']; cbn; try exact I.
        destruct (bp o' <=? bp o) eqn:E'; [exact I|]. apply Nat.leb_gt in E'.
        destruct rest as [|[n|o''| | |] rr]; cbn in *; try exact I. lia. }
      { apply loop_stop. exact Ht. }
      destruct g0 as [|g0]; [discriminate|].
      destruct (IHl p (bp o - 1) (TOp o :: flat (bp o) r ++ rest) res (S (Nat.max fr f0)) (S (S g0))) as (fl & Hlft).
      { lia. }
      { destruct l as [n|o' l' r'|pr' e']; cbn; try exact I.
        destruct (bp o' <=? bp o - 1) eqn:E'; [exact I|]. apply Nat.leb_gt in E'. cbn. lia. }
      { rewrite loop_op. replace (p <? bp o) with true by (symmetry; apply Nat.ltb_lt; lia).
        rewrite (Hr (S (Nat.max fr f0))) by lia.
        apply (loop_mono f0 p (S g0)); [exact Hl|lia|lia]. }
      exists fl. intros f Hf. rewrite <- app_assoc. cbn [app]. apply Hlft. exact Hf.
  - (* prefix operator: operand at PREFIX, every infix inside is parenthesised *)
    destruct (IH PREFIX PREFIX rest (e, rest) 0 1 (le_n _)) as (fe & He).
    { destruct e as [n|o' l' r'|pr' e']; cbn; try exact I.
      replace (bp o' <=? PREFIX) with true by (symmetry; apply Nat.leb_le; apply bp_lt_prefix). exact I. }
    { apply loop_stop. destruct rest as [|[n|o''| | |] rr]; cbn; try exact I. apply bp_lt_prefix. }
    exists (S (Nat.max fe (Nat.max f0 g0))). intros f Hf. destruct f as [|f]; [lia|].
    cbn [flat app]. rewrite parse_S.
    destruct pr; cbn [pre_tok]; rewrite ?Nat.eqb_refl, He by lia; apply (loop_mono f0 p g0); try exact Hl; lia.
Qed.

Theorem parse_print e p rest :
  next_bp_le p rest ->
  exists f1, forall f, f1 <= f -> parse f p (flat p e ++ rest) = Some (e, rest).
Proof.
  intros Ht. apply (roundtrip_gen e p p rest (e, rest) 0 1 (le_n _)).
  - destruct e as [n|o l r|pr e']; cbn; try exact I.
    destruct (bp o <=? p) eqn:E; [exact I|]. apply Nat.leb_gt in E.
    destruct rest as [|[n|o'| | |] rr]; cbn in *; try exact I. lia.
  - apply loop_stop. exact Ht.
Qed.

End PrattProofs.
