From Coq Require Import List Bool.
Require Import RV.model.Repl.
Import ListNotations.

Section ReplProofs.
  Variable store value : Type.
  Variable nilv : value.
  Notation stmt := (stmt store value).
  Notation run_stmts := (run_stmts store value).
  Notation run_pieces := (run_pieces store value nilv).

  Lemma run_stmts_app (a b : list stmt) s last :
    run_stmts (a ++ b) s last =
    match run_stmts a s last with
    | Done _ _ s' v => run_stmts b s' v
    | Fail _ _ s' => Fail _ _ s'
    end.
  Proof.
    revert s last; induction a as [|st r IH]; intros s last; cbn; [reflexivity|].
    destruct (st s) as [s' v|s']; [apply IH|reflexivity].
  Qed.

  (* the value a non-empty statement list ends with does not depend on the initial [last] *)
  Lemma run_stmts_last_irrelevant (l : list stmt) s a b :
    l <> [] -> run_stmts l s a = run_stmts l s b.
  Proof.
    destruct l as [|st r]; [contradiction|]. intros _. cbn. destruct (st s); reflexivity.
  Qed.

  (* Incremental = whole, for every split into pieces, with rejected pieces anywhere, as long as no
     accepted statement fails: same final store; and the value of the last accepted non-empty piece
     is the whole program's value. *)
  Lemma accepted_cons_acc l r : accepted_stmts store value (Accepted _ _ l :: r) = l ++ accepted_stmts store value r.
  Proof. reflexivity. Qed.
  Lemma accepted_cons_rej r : accepted_stmts store value (Rejected _ _ :: r) = accepted_stmts store value r.
  Proof. reflexivity. Qed.

  (* the store a statement list ends in does not depend on the value carried in *)
  Lemma run_stmts_store_indep : forall (l0 : list stmt) st a b,
    match run_stmts l0 st a, run_stmts l0 st b with
    | Done _ _ x _, Done _ _ y _ => x = y
    | Fail _ _ x, Fail _ _ y => x = y
    | _, _ => False end.
  Proof. induction l0 as [|q l0 IHl]; intros st a b; cbn; [reflexivity|]. destruct (q st); [apply IHl|reflexivity]. Qed.

  Theorem incremental_equals_whole : forall ps s s' v,
    run_stmts (accepted_stmts store value ps) s nilv = Done _ _ s' v ->
    fst (run_pieces ps s) = s'.
  Proof.
    induction ps as [|p r IH]; intros s s' v H.
    - cbn in *. injection H as <- _. reflexivity.
    - destruct p as [l|].
      + rewrite accepted_cons_acc, run_stmts_app in H. cbn [Repl.run_pieces].
        destruct (run_stmts l s nilv) as [s1 v1|s1] eqn:E; [|discriminate].
        pose proof (run_stmts_store_indep (accepted_stmts store value r) s1 v1 nilv) as G. rewrite H in G.
        destruct (run_stmts (accepted_stmts store value r) s1 nilv) as [s3 v3|s3] eqn:E3; [|contradiction].
        subst s3. specialize (IH s1 s' v3 E3).
        destruct (run_pieces r s1) as [s2 rs]. exact IH.
      + rewrite accepted_cons_rej in H. cbn [Repl.run_pieces]. specialize (IH s s' v H).
        destruct (run_pieces r s) as [s2 rs]. exact IH.
  Qed.

  (* rejected pieces are inert: removing them changes neither the final store nor the results of
     the other pieces *)
  Theorem rejected_inert : forall ps s,
    fst (run_pieces ps s) = fst (run_pieces (drop_rejected store value ps) s) /\
    filter (fun r => match r with PRejected _ => false | _ => true end) (snd (run_pieces ps s)) =
    snd (run_pieces (drop_rejected store value ps) s).
  Proof.
    induction ps as [|p r IH]; intros s; [split; reflexivity|].
    destruct p as [l|].
    - change (drop_rejected store value (Accepted _ _ l :: r)) with (Accepted _ _ l :: drop_rejected store value r).
      cbn [Repl.run_pieces].
      destruct (run_stmts l s nilv) as [s1 v1|s1]; destruct (IH s1) as (I1 & I2);
        destruct (run_pieces r s1) as [a ra]; destruct (run_pieces (drop_rejected store value r) s1) as [b rb];
        cbn in *; (split; [exact I1|f_equal; exact I2]).
    - change (drop_rejected store value (Rejected _ _ :: r)) with (drop_rejected store value r).
      cbn [Repl.run_pieces]. destruct (IH s) as (I1 & I2).
      destruct (run_pieces r s) as [a ra]. cbn in *. split; assumption.
  Qed.
End ReplProofs.
