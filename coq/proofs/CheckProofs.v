(* Certificate checker for risor bytecode stack discipline: soundness proof.
   [Bytecode.pass] (untrusted) proposes a labelling pc -> height; [check] validates it locally;
   [check_sound] shows that every abstract execution from (0,0) stays within the labelling, never
   underflows, never decodes an unknown opcode, never jumps before 0, and can only leave the code at
   its end with at most one value (main) - for all paths, taken or not, and for any number of
   loop iterations. *)
From Coq Require Import List Bool Arith Lia.
Import ListNotations.
Require Import RV.model.Bytecode.

(* the abstract height machine: exactly the control flow and stack arithmetic of vm.eval's loop *)
Inductive astep (code : list nat) : nat * nat -> nat * nat -> Prop :=
| AS pc h sh pc' h' :
    pc < length code ->
    shape_of (nth pc code 0) (nth (pc + 1) code 0) (nth (pc + 2) code 0) = Some sh ->
    pops sh <= h ->
    let a := nth (pc + 1) code 0 in
    let hn := h - pops sh + pushes sh in
    match kind sh with
    | 0 => pc' = pc + size sh /\ h' = hn
    | 1 => pc' = pc + a /\ h' = hn
    | 2 => a <= pc /\ pc' = pc - a /\ h' = hn
    | 3 => (pc' = pc + a \/ pc' = pc + size sh) /\ h' = hn
    | 4 => False
    | _ => (pc' = pc + a /\ h' = h - 1) \/ (pc' = pc + size sh /\ h' = hn)
    end ->
    astep code (pc, h) (pc', h').

Inductive asteps (code : list nat) (s : nat * nat) : nat * nat -> Prop :=
| A0 : asteps code s s
| A1 t u : asteps code s t -> astep code t u -> asteps code s u.

(* what "nothing goes wrong at this state" means *)
Definition safe (code : list nat) (is_main : bool) (st : nat * nat) : Prop :=
  let '(pc, h) := st in
  if length code <=? pc then is_main = true /\ h = 1
  else exists sh,
      shape_of (nth pc code 0) (nth (pc + 1) code 0) (nth (pc + 2) code 0) = Some sh /\
      pops sh <= h /\ (kind sh = 2 -> nth (pc + 1) code 0 <= pc).

Lemma lookup_In pc h L : lookup pc L = Some h -> In (pc, h) L.
Proof.
  induction L as [|[p x] L IH]; cbn; [discriminate|].
  destruct (Nat.eqb_spec p pc) as [->|Hne]; intros H.
  - injection H as ->. now left.
  - right. auto.
Qed.

Lemma labelled_spec L pc h : labelled L pc h = true -> lookup pc L = Some h.
Proof.
  unfold labelled. destruct (lookup pc L) as [x|]; [|discriminate].
  intros H. apply Nat.eqb_eq in H. now subst.
Qed.

Lemma In_le_max (L : labels) pc h : In (pc, h) L -> h <= maxlabel L.
Proof.
  induction L as [|[p x] L' IH]; cbn; [tauto|].
  intros [H|H].
  - inversion H; subst. lia.
  - specialize (IH H). unfold maxlabel in IH. lia.
Qed.

Section Sound.
  Variables (code : list nat) (is_main : bool) (L : labels).
  Hypothesis Hc : check code is_main L = true.

  Lemma ok_of_label pc h : lookup pc L = Some h -> ok_at code is_main L pc h = true.
  Proof.
    intros Hl. unfold check in Hc. apply andb_true_iff in Hc as [_ Hall].
    rewrite forallb_forall in Hall. exact (Hall (pc, h) (lookup_In _ _ _ Hl)).
  Qed.

  Lemma step_label pc h pc' h' :
    lookup pc L = Some h -> astep code (pc, h) (pc', h') -> lookup pc' L = Some h'.
  Proof.
    intros Hl Hs. pose proof (ok_of_label _ _ Hl) as Hok. unfold ok_at in Hok.
    inversion Hs as [pc0 h0 sh pc1 h1 Hlt Hsh Hpo a hn Hk]; subst.
    destruct (Nat.leb_spec (length code) pc) as [Hge|_]; [lia|].
    rewrite Hsh in Hok. apply andb_true_iff in Hok as [_ Hok].
    subst a hn.
    destruct (kind sh) as [|[|[|[|[|k]]]]].
    - destruct Hk as [-> ->]. now apply labelled_spec.
    - destruct Hk as [-> ->]. now apply labelled_spec.
    - destruct Hk as (_ & -> & ->). apply andb_true_iff in Hok as [_ Hok]. now apply labelled_spec.
    - destruct Hk as [[->| ->] ->]; apply andb_true_iff in Hok as [H1 H2]; now apply labelled_spec.
    - contradiction.
    - apply andb_true_iff in Hok as [H1 H2].
      destruct Hk as [[-> ->]|[-> ->]]; now apply labelled_spec.
  Qed.

  Lemma label_safe pc h : lookup pc L = Some h -> safe code is_main (pc, h).
  Proof.
    intros Hl. pose proof (ok_of_label _ _ Hl) as Hok. unfold ok_at in Hok. unfold safe.
    destruct (length code <=? pc).
    - apply andb_true_iff in Hok as [H1 H2]. apply Nat.eqb_eq in H2. auto.
    - destruct (shape_of _ _ _) as [sh|]; [|discriminate].
      exists sh. apply andb_true_iff in Hok as [H1 H2]. apply Nat.leb_le in H1.
      repeat split; auto.
      intros Hk. rewrite Hk in H2. apply andb_true_iff in H2 as [H2 _]. now apply Nat.leb_le in H2.
  Qed.

  Theorem reach_labelled st : asteps code (0, 0) st -> lookup (fst st) L = Some (snd st).
  Proof.
    induction 1 as [|t u Hst IH Hstep].
    - unfold check in Hc. apply andb_true_iff in Hc as [H0 _]. now apply labelled_spec.
    - destruct t as [pc h], u as [pc' h']. cbn in *. eapply step_label; eauto.
  Qed.

  (* C04 for one code object: every state on every path is safe *)
  Theorem check_sound st : asteps code (0, 0) st -> safe code is_main st.
  Proof. intros H. destruct st as [pc h]. apply label_safe. exact (reach_labelled _ H). Qed.

  (* and heights are bounded by the largest label *)
  Theorem check_bound st : asteps code (0, 0) st -> snd st <= maxlabel L.
  Proof. intros H. destruct st as [pc h]. apply (In_le_max L pc). apply lookup_In. exact (reach_labelled _ H). Qed.
End Sound.

(* the statement the per-program evidence rests on *)
Theorem certify_sound code is_main m :
  certify code is_main = Some m ->
  forall st, asteps code (0, 0) st -> safe code is_main st /\ snd st <= m.
Proof.
  unfold certify. destruct (verify code is_main) as [mh L|]; [|discriminate].
  destruct (check code is_main L) eqn:Hc; [|discriminate].
  intros H st Hst. injection H as <-. split; [eapply check_sound|eapply check_bound]; eauto.
Qed.

(* the labelling returned by [certify_labels] is exact on every reachable state: the height at a
   pc is a function of the pc alone, on every path and for any number of iterations *)
Theorem certify_labels_sound code is_main L :
  certify_labels code is_main = Some L ->
  forall st, asteps code (0, 0) st ->
    lookup (fst st) L = Some (snd st) /\ safe code is_main st /\ snd st <= maxlabel L.
Proof.
  unfold certify_labels. destruct (verify code is_main) as [mh L'|]; [|discriminate].
  destruct (check code is_main L') eqn:Hc; [|discriminate].
  intros H st Hst. injection H as <-.
  split; [eapply reach_labelled; eauto|]. split; [eapply check_sound|eapply check_bound]; eauto.
Qed.

(* consequence: two visits of the same pc on any path have the same height *)
Corollary height_function_of_pc code is_main L :
  certify_labels code is_main = Some L ->
  forall pc h1 h2, asteps code (0, 0) (pc, h1) -> asteps code (0, 0) (pc, h2) -> h1 = h2.
Proof.
  intros Hc pc h1 h2 H1 H2.
  destruct (certify_labels_sound _ _ _ Hc _ H1) as (E1 & _).
  destruct (certify_labels_sound _ _ _ Hc _ H2) as (E2 & _).
  cbn in E1, E2. congruence.
Qed.

(* a finished evaluation of main leaves exactly its result *)
Theorem finished_leaves_result code L :
  certify_labels code true = Some L ->
  forall pc h, asteps code (0, 0) (pc, h) -> length code <= pc -> h = 1.
Proof.
  intros Hc pc h Hst Hend.
  destruct (certify_labels_sound _ _ _ Hc _ Hst) as (_ & Hs & _).
  unfold safe in Hs. apply Nat.leb_le in Hend. rewrite Hend in Hs. tauto.
Qed.
