(* Stage A, part 3: the VM model running the code [cexp] emits - inside any code object, at any position, under
   any stack with room for it - pushes the value [sev] gives, or stops with the error class it gives; the state
   is untouched.  With parts 1 and 2: on the scalar fragment, compile-then-execute equals the reference semantics. *)
From Coq Require Import List ZArith NArith Bool Arith Lia.
Require Import RV.model.Syntax RV.model.Compiler RV.model.VM.
Require RV.model.ScalarFrag.
Module F := RV.model.ScalarFrag.
Import ListNotations.
Local Open Scope nat_scope.

Section VMScalar.
  Variable tabs : list table.
  Variable c : code.
  Variables (below : nat) (frames : list nat) (free : list (nat * nat)) (defers : list value) (is_main : bool) (s : mstate).

  Notation run f ip st := (exec tabs f c ip st below frames free defers is_main s).
  Notation instr := (code_instr c).
  Notation opnd ip k := (N.to_nat (nth (ip + k) instr 0%N)).

  Lemma step_nop f ip st : nth_error instr ip = Some 1%N -> run (S f) ip st = run f (S ip) st.
  Proof. intros H. cbn [exec]. rewrite H. reflexivity. Qed.

  Lemma step_push f ip st opc v :
    nth_error instr ip = Some opc ->
    (opc = 80%N /\ v = VNil) \/ (opc = 81%N /\ v = VBool false) \/ (opc = 82%N /\ v = VBool true) ->
    below + length st < MAXSTACK ->
    run (S f) ip st = run f (S ip) (v :: st).
  Proof.
    intros H Hv Hb. cbn [exec]. rewrite H.
    assert (E : (MAXSTACK <=? below + length st) = false) by (apply Nat.leb_gt; exact Hb).
    destruct Hv as [[-> ->]|[[-> ->]|[-> ->]]]; rewrite E; reflexivity.
  Qed.

  Lemma step_const f ip st :
    nth_error instr ip = Some 24%N -> below + length st < MAXSTACK ->
    run (S f) ip st = run f (ip + 2) (const_value (nth (opnd ip 1) (code_consts c) (KInt 0)) :: st).
  Proof.
    intros H Hb. cbn [exec]. rewrite H.
    assert (E : (MAXSTACK <=? below + length st) = false) by (apply Nat.leb_gt; exact Hb).
    rewrite E. reflexivity.
  Qed.

  Lemma step_loadglobal f ip st v :
    nth_error instr ip = Some 23%N -> below + length st < MAXSTACK ->
    nth (opnd ip 1) (globals s) VGoNil = v -> v <> VGoNil ->
    run (S f) ip st = run f (ip + 2) (v :: st).
  Proof.
    intros H Hb Hv Hn. cbn [exec]. rewrite H, Hv.
    assert (E : (MAXSTACK <=? below + length st) = false) by (apply Nat.leb_gt; exact Hb).
    destruct v; try (rewrite E; reflexivity). contradiction.
  Qed.

  Lemma step_neg f ip st v :
    nth_error instr ip = Some 42%N -> below + length st < MAXSTACK ->
    run (S f) ip (v :: st) =
    match v with
    | VInt z => run f (S ip) (VInt (wrap64 (- z)%Z) :: st)
    | VGoNil => (RErr XPanic s, defers)
    | _ => (RErr XType s, defers)
    end.
  Proof.
    intros H Hb. cbn [exec]. rewrite H.
    assert (E : (MAXSTACK <=? below + length st) = false) by (apply Nat.leb_gt; exact Hb).
    destruct v; try reflexivity. rewrite E. reflexivity.
  Qed.

  Lemma step_not f ip st v b :
    nth_error instr ip = Some 43%N -> below + length st < MAXSTACK -> truthy s v = Some b ->
    run (S f) ip (v :: st) = run f (S ip) (VBool (negb b) :: st).
  Proof.
    intros H Hb Ht. cbn [exec]. rewrite H, Ht.
    assert (E : (MAXSTACK <=? below + length st) = false) by (apply Nat.leb_gt; exact Hb).
    rewrite E. reflexivity.
  Qed.

  Lemma step_binop f ip st a b :
    nth_error instr ip = Some 40%N -> below + length st < MAXSTACK ->
    run (S f) ip (b :: a :: st) =
    match binary_op s (N.of_nat (opnd ip 1)) a b with
    | RVal v s' => exec tabs f c (ip + 2) (v :: st) below frames free defers is_main s'
    | RErr e s' => (RErr e s', defers)
    end.
  Proof.
    intros H Hb. cbn [exec]. rewrite H.
    assert (E : (MAXSTACK <=? below + length st) = false) by (apply Nat.leb_gt; exact Hb).
    destruct (binary_op s (N.of_nat (opnd ip 1)) a b); [rewrite E|]; reflexivity.
  Qed.

  Lemma step_cmp f ip st a b :
    nth_error instr ip = Some 41%N -> below + length st < MAXSTACK ->
    run (S f) ip (b :: a :: st) =
    match compare_op s (N.of_nat (opnd ip 1)) a b with
    | RVal v s' => exec tabs f c (ip + 2) (v :: st) below frames free defers is_main s'
    | RErr e s' => (RErr e s', defers)
    end.
  Proof.
    intros H Hb. cbn [exec]. rewrite H.
    assert (E : (MAXSTACK <=? below + length st) = false) by (apply Nat.leb_gt; exact Hb).
    destruct (compare_op s (N.of_nat (opnd ip 1)) a b); [rewrite E|]; reflexivity.
  Qed.

  Lemma step_copy0 f ip st v :
    nth_error instr ip = Some 71%N -> opnd ip 1 = 0 -> below + length (v :: st) < MAXSTACK ->
    run (S f) ip (v :: st) = run f (ip + 2) (v :: v :: st).
  Proof.
    intros H H0 Hb. cbn [exec]. rewrite H, H0. cbn [nth_error].
    assert (E : (MAXSTACK <=? below + length (v :: st)) = false) by (apply Nat.leb_gt; exact Hb).
    rewrite E. reflexivity.
  Qed.

  Lemma step_popjump f ip st v b opc :
    nth_error instr ip = Some opc -> (opc = 12%N \/ opc = 13%N) -> truthy s v = Some b ->
    run (S f) ip (v :: st) =
    run f (if (if (opc =? 12)%N then negb b else b) then ip + opnd ip 1 else ip + 2) st.
  Proof.
    intros H Ho Ht. cbn [exec]. rewrite H. destruct Ho as [-> | ->]; rewrite Ht; reflexivity.
  Qed.

  Lemma step_jump f ip st :
    nth_error instr ip = Some 11%N -> run (S f) ip st = run f (ip + opnd ip 1) st.
  Proof. intros H. cbn [exec]. rewrite H. reflexivity. Qed.

  (* ---------------------------------------------------------------- values and operators *)
  Definition inj (v : F.sval) : value :=
    match v with F.VNil => VNil | F.VBool b => VBool b | F.VInt z => VInt z | F.VStr t => VStr t end.
  Definition cls (x : F.serr) : errk := match x with F.EType => XType | F.EDiv0 => XDiv0 end.

  Lemma truthy_inj v : truthy s (inj v) = Some (F.struthy v).
  Proof. destruct v; reflexivity. Qed.

  Lemma veq_inj a b : veq 200 s (inj a) (inj b) = F.sveq a b.
  Proof. destruct a, b; reflexivity. Qed.

  Definition is_cmp (o : F.bop) : bool :=
    match o with F.CLt | F.CLe | F.CEq | F.CNe | F.CGt | F.CGe => true | _ => false end.

  Lemma op_code_shape o : exists x y, F.op_code o = [x; y] /\
    x = (if is_cmp o then opCompareOp else opBinaryOp).
  Proof. destruct o; eexists; eexists; split; reflexivity. Qed.

  Lemma binop_inj o a b x y : is_cmp o = false -> F.op_code o = [x; y] ->
    binary_op s (N.of_nat (N.to_nat y)) (inj a) (inj b) =
    match F.sbin o a b with inl v => RVal (inj v) s | inr e => RErr (cls e) s end.
  Proof.
    intros Hc Ho. rewrite N2Nat.id.
    destruct o; try discriminate; cbn in Ho; injection Ho as <- <-;
      destruct a as [|p|p|p], b as [|q|q|q]; try reflexivity;
      cbn [F.sbin inj]; unfold binary_op; cbn [is_gonil inj];
      try reflexivity; destruct (q =? 0)%Z; reflexivity.
  Qed.

  Lemma cmp_inj o a b x y : is_cmp o = true -> F.op_code o = [x; y] ->
    compare_op s (N.of_nat (N.to_nat y)) (inj a) (inj b) =
    match F.sbin o a b with inl v => RVal (inj v) s | inr e => RErr (cls e) s end.
  Proof.
    intros Hc Ho. rewrite N2Nat.id.
    destruct o; try discriminate; cbn in Ho; injection Ho as <- <-;
      destruct a as [|p|p|p], b as [|q|q|q]; try reflexivity;
      cbn [F.sbin inj F.cmp_res]; unfold compare_op; cbn [is_gonil inj];
      try reflexivity; try (destruct p, q; reflexivity); try (destruct (p ?= q)%Z; reflexivity);
      try (destruct (p =? q)%Z; reflexivity); try (destruct (F.str_cmp p q); reflexivity).
  Qed.

  (* ---------------------------------------------------------------- positions *)
  Lemma at0 (A : Type) (l1 : list A) x l2 : nth_error (l1 ++ x :: l2) (length l1) = Some x.
  Proof. induction l1; cbn; auto. Qed.
  Lemma at1 (l1 : list N) x y l2 : nth (length l1 + 1) (l1 ++ x :: y :: l2) 0%N = y.
  Proof. induction l1; cbn; auto. Qed.

  Lemma consts_left (ka kb : list konst) base :
    (forall i k, nth_error (ka ++ kb) i = Some k -> nth (base + i) (code_consts c) (KInt 0) = k) ->
    forall i k, nth_error ka i = Some k -> nth (base + i) (code_consts c) (KInt 0) = k.
  Proof.
    intros H i k Hi. apply H. rewrite nth_error_app1; [exact Hi|]. apply nth_error_Some. congruence.
  Qed.
  Lemma consts_right (ka kb : list konst) base :
    (forall i k, nth_error (ka ++ kb) i = Some k -> nth (base + i) (code_consts c) (KInt 0) = k) ->
    forall i k, nth_error kb i = Some k -> nth (base + length ka + i) (code_consts c) (KInt 0) = k.
  Proof.
    intros H i k Hi. rewrite <- Nat.add_assoc. apply H.
    rewrite nth_error_app2 by lia. replace (length ka + i - length ka) with i by lia. exact Hi.
  Qed.

  Lemma need_pos e : 1 <= F.need e.
  Proof. induction e; cbn [F.need]; lia. Qed.

  (* the global slots 0 .. hold the current values of the declared variables *)
  Variable slot : nat -> nat.       (* the global slot of variable i *)
  Definition globals_at (rho : list F.sval) : Prop :=
    forall i v, nth_error rho i = Some v -> nth (slot i) (globals s) VGoNil = inj v.

  Lemma inj_not_gonil v : inj v <> VGoNil.
  Proof. destruct v; discriminate. Qed.

  Variable rho : list F.sval.
  Hypothesis Hglob : globals_at rho.

  Definition outcome_of (e : F.sexp) (f : nat) (ip : nat) (st : list value) : res * list value :=
    match F.sev rho e with
    | inl v => run f ip (inj v :: st)
    | inr x => (RErr (cls x) s, defers)
    end.

  Theorem vm_scalar_at : forall e base pre post st,
    F.wf (length rho) e = true ->
    instr = pre ++ fst (F.cexp_at slot base e) ++ post ->
    (forall i k, nth_error (snd (F.cexp_at slot base e)) i = Some k -> nth (base + i) (code_consts c) (KInt 0) = k) ->
    below + length st + F.need e <= MAXSTACK ->
    exists k, forall f,
      run (k + f) (length pre) st = outcome_of e f (length pre + length (fst (F.cexp_at slot base e))) st.
  Proof.
    induction e as [z|b| |str|i|a IHa|a IHa|o a IHa b IHb|a IHa b IHb|a IHa b IHb|cnd IHc t IHt el IHe];
      intros base pre post st Hwf Hi Hk Hn; unfold outcome_of; cbn [F.sev]; cbn [F.wf] in Hwf.
    - (* SInt *)
      cbn [F.cexp_at fst snd] in *. exists 1. intros f. cbn [Nat.add].
      rewrite step_const; [|rewrite Hi; apply at0|cbn [F.need] in Hn; lia].
      assert (Hop : nth (length pre + 1) instr 0%N = N.of_nat base) by (rewrite Hi; apply at1).
      rewrite Hop, Nat2N.id. pose proof (Hk 0 (KInt z) eq_refl) as Hz. rewrite Nat.add_0_r in Hz. rewrite Hz. reflexivity.
    - (* SBool *)
      cbn [F.cexp_at fst snd] in *. exists 1. intros f. cbn [Nat.add length].
      rewrite (step_push f (length pre) st (if b then opTrue else opFalse) (VBool b));
        [rewrite Nat.add_1_r; reflexivity|rewrite Hi; apply at0|destruct b; auto|cbn [F.need] in Hn; lia].
    - (* SNil *)
      cbn [F.cexp_at fst snd] in *. exists 1. intros f. cbn [Nat.add length].
      rewrite (step_push f (length pre) st opNil VNil);
        [rewrite Nat.add_1_r; reflexivity|rewrite Hi; apply at0|auto|cbn [F.need] in Hn; lia].
    - (* SStr *)
      cbn [F.cexp_at fst snd] in *. exists 1. intros f. cbn [Nat.add].
      rewrite step_const; [|rewrite Hi; apply at0|cbn [F.need] in Hn; lia].
      assert (Hop : nth (length pre + 1) instr 0%N = N.of_nat base) by (rewrite Hi; apply at1).
      rewrite Hop, Nat2N.id. pose proof (Hk 0 (KStr str) eq_refl) as Hz. rewrite Nat.add_0_r in Hz. rewrite Hz. reflexivity.
    - (* SVar *)
      apply Nat.ltb_lt in Hwf. destruct (nth_error rho i) as [v|] eqn:Ei; [|apply nth_error_None in Ei; lia].
      cbn [F.cexp_at fst snd] in *. exists 1. intros f. cbn [Nat.add].
      assert (Hop : nth (length pre + 1) instr 0%N = N.of_nat (slot i)) by (rewrite Hi; apply at1).
      rewrite (step_loadglobal f (length pre) st (inj v)); [reflexivity|rewrite Hi; apply at0|cbn [F.need] in Hn; lia| |apply inj_not_gonil].
      rewrite Hop, Nat2N.id. apply Hglob. exact Ei.
    - (* SNeg *)
      cbn [F.cexp_at] in *. destruct (F.cexp_at slot base a) as [ca ka] eqn:Ea. cbn [fst snd] in *. cbn [F.need] in Hn.
      assert (Hi' : instr = pre ++ fst (F.cexp_at slot base a) ++ ([opUnaryNegative] ++ post))
        by (rewrite Ea; cbn [fst]; rewrite Hi, <- app_assoc; reflexivity).
      assert (Hk' : forall i k, nth_error (snd (F.cexp_at slot base a)) i = Some k -> nth (base + i) (code_consts c) (KInt 0) = k)
        by (rewrite Ea; exact Hk).
      destruct (IHa base pre _ st Hwf Hi' Hk' ltac:(lia)) as [k Hrun].
      rewrite Ea in Hrun. cbn [fst] in Hrun. unfold outcome_of in Hrun.
      exists (k + 1). intros f. rewrite <- Nat.add_assoc, Hrun.
      destruct (F.sev rho a) as [va|x]; [|reflexivity]. cbn [Nat.add].
      assert (Hop : nth_error instr (length pre + length ca) = Some 42%N).
      { assert (Hx : instr = (pre ++ ca) ++ opUnaryNegative :: post) by (rewrite Hi, <- !app_assoc; reflexivity).
        rewrite Hx, <- app_length. apply at0. }
      rewrite (step_neg f _ st (inj va) Hop) by (pose proof (need_pos a); lia).
      rewrite app_length. cbn [length].
      replace (length pre + (length ca + 1)) with (S (length pre + length ca)) by lia.
      destruct va; reflexivity.
    - (* SNot *)
      cbn [F.cexp_at] in *. destruct (F.cexp_at slot base a) as [ca ka] eqn:Ea. cbn [fst snd] in *. cbn [F.need] in Hn.
      assert (Hi' : instr = pre ++ fst (F.cexp_at slot base a) ++ ([opUnaryNot] ++ post))
        by (rewrite Ea; cbn [fst]; rewrite Hi, <- app_assoc; reflexivity).
      assert (Hk' : forall i k, nth_error (snd (F.cexp_at slot base a)) i = Some k -> nth (base + i) (code_consts c) (KInt 0) = k)
        by (rewrite Ea; exact Hk).
      destruct (IHa base pre _ st Hwf Hi' Hk' ltac:(lia)) as [k Hrun].
      rewrite Ea in Hrun. cbn [fst] in Hrun. unfold outcome_of in Hrun.
      exists (k + 1). intros f. rewrite <- Nat.add_assoc, Hrun.
      destruct (F.sev rho a) as [va|x]; [|reflexivity]. cbn [Nat.add].
      assert (Hop : nth_error instr (length pre + length ca) = Some 43%N).
      { assert (Hx : instr = (pre ++ ca) ++ opUnaryNot :: post) by (rewrite Hi, <- !app_assoc; reflexivity).
        rewrite Hx, <- app_length. apply at0. }
      rewrite (step_not f _ st (inj va) _ Hop ltac:(pose proof (need_pos a); lia) (truthy_inj va)).
      rewrite app_length. cbn [length].
      replace (length pre + (length ca + 1)) with (S (length pre + length ca)) by lia.
      reflexivity.
    - (* SBin *)
      apply andb_true_iff in Hwf. destruct Hwf as [Hwa Hwb].
      cbn [F.cexp_at] in *. destruct (F.cexp_at slot base a) as [ca ka] eqn:Ea.
      destruct (F.cexp_at slot (base + length ka) b) as [cb kb] eqn:Eb. cbn [fst snd] in *. cbn [F.need] in Hn.
      destruct (op_code_shape o) as [x [y [Ho Hx]]]. rewrite Ho in *.
      assert (Hia : instr = pre ++ fst (F.cexp_at slot base a) ++ (cb ++ [x; y] ++ post))
        by (rewrite Ea; cbn [fst]; rewrite Hi, <- !app_assoc; reflexivity).
      assert (Hka : forall i k, nth_error (snd (F.cexp_at slot base a)) i = Some k -> nth (base + i) (code_consts c) (KInt 0) = k)
        by (rewrite Ea; cbn [snd]; exact (consts_left ka kb base Hk)).
      destruct (IHa base pre _ st Hwa Hia Hka ltac:(lia)) as [k1 Hr1].
      rewrite Ea in Hr1. cbn [fst] in Hr1. unfold outcome_of in Hr1.
      destruct (F.sev rho a) as [va|xa].
      2:{ exists k1. intros f. rewrite Hr1. reflexivity. }
      assert (Hib : instr = (pre ++ ca) ++ fst (F.cexp_at slot (base + length ka) b) ++ ([x; y] ++ post))
        by (rewrite Eb; cbn [fst]; rewrite Hi, <- !app_assoc; reflexivity).
      assert (Hkb : forall i k, nth_error (snd (F.cexp_at slot (base + length ka) b)) i = Some k ->
                                nth (base + length ka + i) (code_consts c) (KInt 0) = k)
        by (rewrite Eb; cbn [snd]; exact (consts_right ka kb base Hk)).
      destruct (IHb (base + length ka) (pre ++ ca) _ (inj va :: st) Hwb Hib Hkb ltac:(cbn [length]; lia)) as [k2 Hr2].
      rewrite Eb in Hr2. cbn [fst] in Hr2. unfold outcome_of in Hr2. rewrite app_length in Hr2.
      destruct (F.sev rho b) as [vb|xb].
      2:{ exists (k1 + k2). intros f. rewrite <- Nat.add_assoc, Hr1, Hr2. reflexivity. }
      exists (k1 + (k2 + 1)). intros f. rewrite <- Nat.add_assoc, Hr1, <- Nat.add_assoc, Hr2. cbn [Nat.add].
      assert (Hxy : instr = ((pre ++ ca) ++ cb) ++ x :: y :: post) by (rewrite Hi, <- !app_assoc; reflexivity).
      assert (Hop : nth_error instr (length pre + length ca + length cb) = Some x)
        by (rewrite Hxy, <- !app_length; apply at0).
      assert (Hy : nth (length pre + length ca + length cb + 1) instr 0%N = y)
        by (rewrite Hxy, <- !app_length; apply at1).
      assert (Hroom : below + length st < MAXSTACK) by (pose proof (need_pos a); lia).
      rewrite !app_length. cbn [length].
      replace (length pre + (length ca + (length cb + 2))) with (length pre + length ca + length cb + 2) by lia.
      destruct (is_cmp o) eqn:Ec; subst x.
      + rewrite (step_cmp f _ st (inj va) (inj vb) Hop Hroom). rewrite Hy, (cmp_inj o va vb _ y Ec Ho).
        destruct (F.sbin o va vb); reflexivity.
      + rewrite (step_binop f _ st (inj va) (inj vb) Hop Hroom). rewrite Hy, (binop_inj o va vb _ y Ec Ho).
        destruct (F.sbin o va vb); reflexivity.
    - (* SLand *)
      apply andb_true_iff in Hwf. destruct Hwf as [Hwa Hwb].
      cbn [F.cexp_at] in *. destruct (F.cexp_at slot base a) as [ca ka] eqn:Ea.
      destruct (F.cexp_at slot (base + length ka) b) as [cb kb] eqn:Eb. cbn [fst snd] in *. cbn [F.need] in Hn.
      set (body := cb ++ [opBinaryOp; bAnd; opNop]) in *.
      set (off := (F.nlenN body + 2)%N) in *.
      assert (Hia : instr = pre ++ fst (F.cexp_at slot base a) ++ ([opCopy; 0%N; opPopJumpForwardIfFalse; off] ++ body ++ post))
        by (rewrite Ea; cbn [fst]; rewrite Hi, <- !app_assoc; reflexivity).
      assert (Hka : forall i k, nth_error (snd (F.cexp_at slot base a)) i = Some k -> nth (base + i) (code_consts c) (KInt 0) = k)
        by (rewrite Ea; cbn [snd]; exact (consts_left ka kb base Hk)).
      destruct (IHa base pre _ st Hwa Hia Hka ltac:(lia)) as [k1 Hr1].
      rewrite Ea in Hr1. cbn [fst] in Hr1. unfold outcome_of in Hr1.
      destruct (F.sev rho a) as [va|xa].
      2:{ exists k1. intros f. rewrite Hr1. reflexivity. }
      set (P := pre ++ ca).
      assert (HP : length P = length pre + length ca) by (unfold P; apply app_length).
      assert (Hc0 : instr = P ++ opCopy :: 0%N :: ([opPopJumpForwardIfFalse; off] ++ body ++ post))
        by (unfold P; rewrite Hi, <- !app_assoc; reflexivity).
      assert (Hc1 : instr = (P ++ [opCopy; 0%N]) ++ opPopJumpForwardIfFalse :: off :: (body ++ post))
        by (unfold P; rewrite Hi, <- !app_assoc; reflexivity).
      assert (HP2 : length (P ++ [opCopy; 0%N]) = length P + 2) by (rewrite app_length; reflexivity).
      assert (Hoff : N.to_nat off = length body + 2)
        by (unfold off, F.nlenN; rewrite N2Nat.inj_add, Nat2N.id; reflexivity).
      assert (Hlen : length (ca ++ [opCopy; 0%N; opPopJumpForwardIfFalse; off] ++ body) = length ca + 4 + length body)
        by (rewrite !app_length; cbn [length]; lia).
      assert (Hs1 : forall f, run (S (S f)) (length P) (inj va :: st) =
                              run f (if F.struthy va then length P + 4 else length P + 2 + (length body + 2)) (inj va :: st)).
      { intros f.
        assert (E0 : nth (length P + 1) instr 0%N = 0%N) by (rewrite Hc0; apply at1).
        rewrite (step_copy0 (S f) (length P) st (inj va)); [|rewrite Hc0; apply at0|rewrite E0; reflexivity|cbn [length]; lia].
        rewrite (step_popjump f (length P + 2) (inj va :: st) (inj va) (F.struthy va) opPopJumpForwardIfFalse);
          [|rewrite Hc1, <- HP2; apply at0|auto|apply truthy_inj].
        assert (E : nth (length P + 2 + 1) instr 0%N = off) by (rewrite Hc1, <- HP2; apply at1).
        rewrite E, Hoff. change (opPopJumpForwardIfFalse =? 12)%N with true. cbn iota.
        destruct (F.struthy va); cbn [negb]; [replace (length P + 2 + 2) with (length P + 4) by lia|]; reflexivity. }
      destruct (F.struthy va) eqn:Et.
      + (* a is truthy: evaluate b, then BinaryOp And keeps b *)
        set (Q := P ++ [opCopy; 0%N; opPopJumpForwardIfFalse; off]).
        assert (HQ : length Q = length P + 4) by (unfold Q; rewrite app_length; reflexivity).
        assert (Hib : instr = Q ++ fst (F.cexp_at slot (base + length ka) b) ++ ([opBinaryOp; bAnd; opNop] ++ post))
          by (rewrite Eb; cbn [fst]; rewrite Hi; unfold Q, P, body; rewrite <- !app_assoc; reflexivity).
        assert (Hkb : forall i k, nth_error (snd (F.cexp_at slot (base + length ka) b)) i = Some k ->
                                  nth (base + length ka + i) (code_consts c) (KInt 0) = k)
          by (rewrite Eb; cbn [snd]; exact (consts_right ka kb base Hk)).
        destruct (IHb (base + length ka) Q _ (inj va :: st) Hwb Hib Hkb ltac:(cbn [length]; lia)) as [k2 Hr2].
        rewrite Eb in Hr2. cbn [fst] in Hr2. unfold outcome_of in Hr2. rewrite HQ in Hr2.
        destruct (F.sev rho b) as [vb|xb].
        2:{ exists (k1 + (2 + k2)). intros f. rewrite <- Nat.add_assoc, Hr1, <- HP.
            replace (2 + k2 + f) with (S (S (k2 + f))) by lia. rewrite Hs1, Hr2. reflexivity. }
        exists (k1 + (2 + (k2 + 2))). intros f. rewrite <- Nat.add_assoc, Hr1, <- HP.
        replace (2 + (k2 + 2) + f) with (S (S (k2 + (2 + f)))) by lia. rewrite Hs1, Hr2. cbn [Nat.add].
        assert (Hq : instr = (Q ++ cb) ++ opBinaryOp :: bAnd :: (opNop :: post))
          by (rewrite Hi; unfold Q, P, body; rewrite <- !app_assoc; reflexivity).
        assert (HQb : length (Q ++ cb) = length P + 4 + length cb) by (rewrite app_length, HQ; reflexivity).
        rewrite (step_binop (S f) (length P + 4 + length cb) st (inj va) (inj vb));
          [|rewrite Hq, <- HQb; apply at0|lia].
        assert (E2 : nth (length P + 4 + length cb + 1) instr 0%N = bAnd) by (rewrite Hq, <- HQb; apply at1).
        rewrite E2. change (N.of_nat (N.to_nat bAnd)) with 6%N.
        unfold binary_op. replace (is_gonil (inj va)) with false by (destruct va; reflexivity).
        change (6 =? 6)%N with true. cbn iota. rewrite !truthy_inj, Et.
        assert (Hq2 : instr = ((Q ++ cb) ++ [opBinaryOp; bAnd]) ++ opNop :: post)
          by (rewrite Hq, <- !app_assoc; reflexivity).
        rewrite (step_nop f (length P + 4 + length cb + 2) (inj vb :: st));
          [|rewrite Hq2; replace (length P + 4 + length cb + 2) with (length ((Q ++ cb) ++ [opBinaryOp; bAnd]))
              by (rewrite app_length, HQb; reflexivity); apply at0].
        rewrite Hlen. unfold body. rewrite app_length. cbn [length].
        replace (length pre + (length ca + 4 + (length cb + 3))) with (S (length P + 4 + length cb + 2)) by lia.
        reflexivity.
      + (* a is falsy: the jump skips b and leaves a *)
        exists (k1 + 2). intros f. rewrite <- Nat.add_assoc, Hr1, <- HP. cbn [Nat.add]. rewrite Hs1.
        rewrite Hlen. replace (length pre + (length ca + 4 + length body)) with (length P + 2 + (length body + 2)) by lia.
        reflexivity.
    - (* SLor *)
      apply andb_true_iff in Hwf. destruct Hwf as [Hwa Hwb].
      cbn [F.cexp_at] in *. destruct (F.cexp_at slot base a) as [ca ka] eqn:Ea.
      destruct (F.cexp_at slot (base + length ka) b) as [cb kb] eqn:Eb. cbn [fst snd] in *. cbn [F.need] in Hn.
      set (body := cb ++ [opBinaryOp; bOr; opNop]) in *.
      set (off := (F.nlenN body + 2)%N) in *.
      assert (Hia : instr = pre ++ fst (F.cexp_at slot base a) ++ ([opCopy; 0%N; opPopJumpForwardIfTrue; off] ++ body ++ post))
        by (rewrite Ea; cbn [fst]; rewrite Hi, <- !app_assoc; reflexivity).
      assert (Hka : forall i k, nth_error (snd (F.cexp_at slot base a)) i = Some k -> nth (base + i) (code_consts c) (KInt 0) = k)
        by (rewrite Ea; cbn [snd]; exact (consts_left ka kb base Hk)).
      destruct (IHa base pre _ st Hwa Hia Hka ltac:(lia)) as [k1 Hr1].
      rewrite Ea in Hr1. cbn [fst] in Hr1. unfold outcome_of in Hr1.
      destruct (F.sev rho a) as [va|xa].
      2:{ exists k1. intros f. rewrite Hr1. reflexivity. }
      set (P := pre ++ ca).
      assert (HP : length P = length pre + length ca) by (unfold P; apply app_length).
      assert (Hc0 : instr = P ++ opCopy :: 0%N :: ([opPopJumpForwardIfTrue; off] ++ body ++ post))
        by (unfold P; rewrite Hi, <- !app_assoc; reflexivity).
      assert (Hc1 : instr = (P ++ [opCopy; 0%N]) ++ opPopJumpForwardIfTrue :: off :: (body ++ post))
        by (unfold P; rewrite Hi, <- !app_assoc; reflexivity).
      assert (HP2 : length (P ++ [opCopy; 0%N]) = length P + 2) by (rewrite app_length; reflexivity).
      assert (Hoff : N.to_nat off = length body + 2)
        by (unfold off, F.nlenN; rewrite N2Nat.inj_add, Nat2N.id; reflexivity).
      assert (Hlen : length (ca ++ [opCopy; 0%N; opPopJumpForwardIfTrue; off] ++ body) = length ca + 4 + length body)
        by (rewrite !app_length; cbn [length]; lia).
      assert (Hs1 : forall f, run (S (S f)) (length P) (inj va :: st) =
                              run f (if F.struthy va then length P + 2 + (length body + 2) else length P + 4) (inj va :: st)).
      { intros f.
        assert (E0 : nth (length P + 1) instr 0%N = 0%N) by (rewrite Hc0; apply at1).
        rewrite (step_copy0 (S f) (length P) st (inj va)); [|rewrite Hc0; apply at0|rewrite E0; reflexivity|cbn [length]; lia].
        rewrite (step_popjump f (length P + 2) (inj va :: st) (inj va) (F.struthy va) opPopJumpForwardIfTrue);
          [|rewrite Hc1, <- HP2; apply at0|auto|apply truthy_inj].
        assert (E : nth (length P + 2 + 1) instr 0%N = off) by (rewrite Hc1, <- HP2; apply at1).
        rewrite E, Hoff. change (opPopJumpForwardIfTrue =? 12)%N with false. cbn iota.
        destruct (F.struthy va); [|replace (length P + 2 + 2) with (length P + 4) by lia]; reflexivity. }
      destruct (F.struthy va) eqn:Et.
      + (* a is truthy: the jump skips b and leaves a *)
        exists (k1 + 2). intros f. rewrite <- Nat.add_assoc, Hr1, <- HP. cbn [Nat.add]. rewrite Hs1.
        rewrite Hlen. replace (length pre + (length ca + 4 + length body)) with (length P + 2 + (length body + 2)) by lia.
        reflexivity.
      + (* a is falsy: evaluate b, then BinaryOp Or keeps b *)
        set (Q := P ++ [opCopy; 0%N; opPopJumpForwardIfTrue; off]).
        assert (HQ : length Q = length P + 4) by (unfold Q; rewrite app_length; reflexivity).
        assert (Hib : instr = Q ++ fst (F.cexp_at slot (base + length ka) b) ++ ([opBinaryOp; bOr; opNop] ++ post))
          by (rewrite Eb; cbn [fst]; rewrite Hi; unfold Q, P, body; rewrite <- !app_assoc; reflexivity).
        assert (Hkb : forall i k, nth_error (snd (F.cexp_at slot (base + length ka) b)) i = Some k ->
                                  nth (base + length ka + i) (code_consts c) (KInt 0) = k)
          by (rewrite Eb; cbn [snd]; exact (consts_right ka kb base Hk)).
        destruct (IHb (base + length ka) Q _ (inj va :: st) Hwb Hib Hkb ltac:(cbn [length]; lia)) as [k2 Hr2].
        rewrite Eb in Hr2. cbn [fst] in Hr2. unfold outcome_of in Hr2. rewrite HQ in Hr2.
        destruct (F.sev rho b) as [vb|xb].
        2:{ exists (k1 + (2 + k2)). intros f. rewrite <- Nat.add_assoc, Hr1, <- HP.
            replace (2 + k2 + f) with (S (S (k2 + f))) by lia. rewrite Hs1, Hr2. reflexivity. }
        exists (k1 + (2 + (k2 + 2))). intros f. rewrite <- Nat.add_assoc, Hr1, <- HP.
        replace (2 + (k2 + 2) + f) with (S (S (k2 + (2 + f)))) by lia. rewrite Hs1, Hr2. cbn [Nat.add].
        assert (Hq : instr = (Q ++ cb) ++ opBinaryOp :: bOr :: (opNop :: post))
          by (rewrite Hi; unfold Q, P, body; rewrite <- !app_assoc; reflexivity).
        assert (HQb : length (Q ++ cb) = length P + 4 + length cb) by (rewrite app_length, HQ; reflexivity).
        rewrite (step_binop (S f) (length P + 4 + length cb) st (inj va) (inj vb));
          [|rewrite Hq, <- HQb; apply at0|lia].
        assert (E2 : nth (length P + 4 + length cb + 1) instr 0%N = bOr) by (rewrite Hq, <- HQb; apply at1).
        rewrite E2. change (N.of_nat (N.to_nat bOr)) with 7%N.
        unfold binary_op. replace (is_gonil (inj va)) with false by (destruct va; reflexivity).
        change (7 =? 6)%N with false. change (7 =? 7)%N with true. cbn iota. rewrite !truthy_inj, Et.
        assert (Hq2 : instr = ((Q ++ cb) ++ [opBinaryOp; bOr]) ++ opNop :: post)
          by (rewrite Hq, <- !app_assoc; reflexivity).
        rewrite (step_nop f (length P + 4 + length cb + 2) (inj vb :: st));
          [|rewrite Hq2; replace (length P + 4 + length cb + 2) with (length ((Q ++ cb) ++ [opBinaryOp; bOr]))
              by (rewrite app_length, HQb; reflexivity); apply at0].
        rewrite Hlen. unfold body. rewrite app_length. cbn [length].
        replace (length pre + (length ca + 4 + (length cb + 3))) with (S (length P + 4 + length cb + 2)) by lia.
        reflexivity.
    - (* STern *)
      apply andb_true_iff in Hwf. destruct Hwf as [Hwct Hwe]. apply andb_true_iff in Hwct. destruct Hwct as [Hwc Hwt].
      cbn [F.cexp_at] in *. destruct (F.cexp_at slot base cnd) as [cc kc] eqn:Ec.
      destruct (F.cexp_at slot (base + length kc) t) as [ct kt] eqn:Et.
      destruct (F.cexp_at slot (base + length kc + length kt) el) as [cf kf] eqn:Ef. cbn [fst snd] in *. cbn [F.need] in Hn.
      set (offF := (F.nlenN ct + 4)%N) in *. set (offJ := (F.nlenN cf + 2)%N) in *.
      assert (Hic : instr = pre ++ fst (F.cexp_at slot base cnd) ++ ([opPopJumpForwardIfFalse; offF] ++ ct ++ [opJumpForward; offJ] ++ cf ++ post))
        by (rewrite Ec; cbn [fst]; rewrite Hi, <- !app_assoc; reflexivity).
      assert (Hkc : forall i k, nth_error (snd (F.cexp_at slot base cnd)) i = Some k -> nth (base + i) (code_consts c) (KInt 0) = k)
        by (rewrite Ec; cbn [snd]; exact (consts_left kc (kt ++ kf) base Hk)).
      destruct (IHc base pre _ st Hwc Hic Hkc ltac:(lia)) as [k1 Hr1].
      rewrite Ec in Hr1. cbn [fst] in Hr1. unfold outcome_of in Hr1.
      destruct (F.sev rho cnd) as [vc|xc].
      2:{ exists k1. intros f. rewrite Hr1. reflexivity. }
      set (P := pre ++ cc).
      assert (HP : length P = length pre + length cc) by (unfold P; apply app_length).
      assert (Hc1 : instr = P ++ opPopJumpForwardIfFalse :: offF :: (ct ++ [opJumpForward; offJ] ++ cf ++ post))
        by (rewrite Hi; unfold P; rewrite <- !app_assoc; reflexivity).
      assert (HoffF : N.to_nat offF = length ct + 4)
        by (unfold offF, F.nlenN; rewrite N2Nat.inj_add, Nat2N.id; reflexivity).
      assert (HoffJ : N.to_nat offJ = length cf + 2)
        by (unfold offJ, F.nlenN; rewrite N2Nat.inj_add, Nat2N.id; reflexivity).
      assert (Hlen : length (cc ++ [opPopJumpForwardIfFalse; offF] ++ ct ++ [opJumpForward; offJ] ++ cf) =
                     length cc + 2 + length ct + 2 + length cf)
        by (rewrite !app_length; cbn [length]; lia).
      assert (Hs1 : forall f, run (S f) (length P) (inj vc :: st) =
                              run f (if F.struthy vc then length P + 2 else length P + (length ct + 4)) st).
      { intros f.
        rewrite (step_popjump f (length P) st (inj vc) (F.struthy vc) opPopJumpForwardIfFalse);
          [|rewrite Hc1; apply at0|auto|apply truthy_inj].
        assert (E : nth (length P + 1) instr 0%N = offF) by (rewrite Hc1; apply at1).
        rewrite E, HoffF. change (opPopJumpForwardIfFalse =? 12)%N with true. cbn iota.
        destruct (F.struthy vc); reflexivity. }
      assert (Hkrest : forall i k, nth_error (kt ++ kf) i = Some k -> nth (base + length kc + i) (code_consts c) (KInt 0) = k)
        by (exact (consts_right kc (kt ++ kf) base Hk)).
      destruct (F.struthy vc) eqn:Etr.
      + (* then-branch, followed by the jump over the else-branch *)
        set (Q := P ++ [opPopJumpForwardIfFalse; offF]).
        assert (HQ : length Q = length P + 2) by (unfold Q; rewrite app_length; reflexivity).
        assert (Hit : instr = Q ++ fst (F.cexp_at slot (base + length kc) t) ++ ([opJumpForward; offJ] ++ cf ++ post))
          by (rewrite Et; cbn [fst]; rewrite Hi; unfold Q, P; rewrite <- !app_assoc; reflexivity).
        assert (Hkt : forall i k, nth_error (snd (F.cexp_at slot (base + length kc) t)) i = Some k ->
                                  nth (base + length kc + i) (code_consts c) (KInt 0) = k)
          by (rewrite Et; cbn [snd]; exact (consts_left kt kf (base + length kc) Hkrest)).
        destruct (IHt (base + length kc) Q _ st Hwt Hit Hkt ltac:(lia)) as [k2 Hr2].
        rewrite Et in Hr2. cbn [fst] in Hr2. unfold outcome_of in Hr2. rewrite HQ in Hr2.
        destruct (F.sev rho t) as [vt|xt].
        2:{ exists (k1 + (1 + k2)). intros f. rewrite <- Nat.add_assoc, Hr1, <- HP.
            replace (1 + k2 + f) with (S (k2 + f)) by lia. rewrite Hs1, Hr2. reflexivity. }
        exists (k1 + (1 + (k2 + 1))). intros f. rewrite <- Nat.add_assoc, Hr1, <- HP.
        replace (1 + (k2 + 1) + f) with (S (k2 + (S f))) by lia. rewrite Hs1, Hr2.
        assert (Hj : instr = (Q ++ ct) ++ opJumpForward :: offJ :: (cf ++ post))
          by (rewrite Hi; unfold Q, P; rewrite <- !app_assoc; reflexivity).
        assert (HQt : length (Q ++ ct) = length P + 2 + length ct) by (rewrite app_length, HQ; reflexivity).
        rewrite (step_jump f (length P + 2 + length ct) (inj vt :: st)); [|rewrite Hj, <- HQt; apply at0].
        assert (E : nth (length P + 2 + length ct + 1) instr 0%N = offJ) by (rewrite Hj, <- HQt; apply at1).
        rewrite E, HoffJ, Hlen.
        replace (length pre + (length cc + 2 + length ct + 2 + length cf)) with (length P + 2 + length ct + (length cf + 2)) by lia.
        reflexivity.
      + (* else-branch *)
        set (Q := P ++ [opPopJumpForwardIfFalse; offF] ++ ct ++ [opJumpForward; offJ]).
        assert (HQ : length Q = length P + (length ct + 4)) by (unfold Q; rewrite !app_length; cbn [length]; lia).
        assert (Hif : instr = Q ++ fst (F.cexp_at slot (base + length kc + length kt) el) ++ post)
          by (rewrite Ef; cbn [fst]; rewrite Hi; unfold Q, P; rewrite <- !app_assoc; reflexivity).
        assert (Hkf : forall i k, nth_error (snd (F.cexp_at slot (base + length kc + length kt) el)) i = Some k ->
                                  nth (base + length kc + length kt + i) (code_consts c) (KInt 0) = k)
          by (rewrite Ef; cbn [snd]; exact (consts_right kt kf (base + length kc) Hkrest)).
        destruct (IHe (base + length kc + length kt) Q _ st Hwe Hif Hkf ltac:(lia)) as [k2 Hr2].
        rewrite Ef in Hr2. cbn [fst] in Hr2. unfold outcome_of in Hr2. rewrite HQ in Hr2.
        exists (k1 + (1 + k2)). intros f. rewrite <- Nat.add_assoc, Hr1, <- HP.
        replace (1 + k2 + f) with (S (k2 + f)) by lia. rewrite Hs1, Hr2, Hlen.
        replace (length pre + (length cc + 2 + length ct + 2 + length cf)) with (length P + (length ct + 4) + length cf) by lia.
        reflexivity.
  Qed.
  (* the shape of the statement "every expression adds exactly one value" *)
  Corollary scalar_pushes_one_at : forall e base pre post st,
    F.wf (length rho) e = true ->
    instr = pre ++ fst (F.cexp_at slot base e) ++ post ->
    (forall i k, nth_error (snd (F.cexp_at slot base e)) i = Some k -> nth (base + i) (code_consts c) (KInt 0) = k) ->
    below + length st + F.need e <= MAXSTACK ->
    exists k, forall f,
      (exists v, run (k + f) (length pre) st = run f (length pre + length (fst (F.cexp_at slot base e))) (v :: st))
      \/ (exists x, run (k + f) (length pre) st = (RErr x s, defers)).
  Proof.
    intros e base pre post st Hwf Hi Hk Hn.
    destruct (vm_scalar_at e base pre post st Hwf Hi Hk Hn) as [k Hr].
    exists k. intros f. specialize (Hr f). unfold outcome_of in Hr.
    destruct (F.sev rho e) as [v|x]; [left; exists (inj v)|right; exists (cls x)]; exact Hr.
  Qed.
End VMScalar.

(* the instances for variables that live in the slot of their own number *)
Definition globals_ok (s : mstate) (rho : list F.sval) : Prop := globals_at s (fun i => i) rho.
Theorem vm_scalar tabs c below frames free defers is_main s rho (Hglob : globals_ok s rho) : forall e base pre post st,
  F.wf (length rho) e = true ->
  code_instr c = pre ++ fst (F.cexp base e) ++ post ->
  (forall i k, nth_error (snd (F.cexp base e)) i = Some k -> nth (base + i) (code_consts c) (KInt 0) = k) ->
  below + length st + F.need e <= MAXSTACK ->
  exists k, forall f,
    exec tabs (k + f) c (length pre) st below frames free defers is_main s =
    outcome_of tabs c below frames free defers is_main s rho e f (length pre + length (fst (F.cexp base e))) st.
Proof. exact (vm_scalar_at tabs c below frames free defers is_main s (fun i => i) rho Hglob). Qed.
Corollary scalar_pushes_one tabs c below frames free defers is_main s rho (Hglob : globals_ok s rho) : forall e base pre post st,
  F.wf (length rho) e = true ->
  code_instr c = pre ++ fst (F.cexp base e) ++ post ->
  (forall i k, nth_error (snd (F.cexp base e)) i = Some k -> nth (base + i) (code_consts c) (KInt 0) = k) ->
  below + length st + F.need e <= MAXSTACK ->
  exists k, forall f,
    (exists v, exec tabs (k + f) c (length pre) st below frames free defers is_main s =
               exec tabs f c (length pre + length (fst (F.cexp base e))) (v :: st) below frames free defers is_main s)
    \/ (exists x, exec tabs (k + f) c (length pre) st below frames free defers is_main s = (RErr x s, defers)).
Proof. exact (scalar_pushes_one_at tabs c below frames free defers is_main s (fun i => i) rho Hglob). Qed.
