(* Proofs about the channel model (model/Chan.v): delivery invariants over ALL schedules. *)
From Coq Require Import List Bool Arith NArith Lia Permutation.
Require Import RV.model.Chan.
Import ListNotations.

Arguments Nat.ltb : simpl never.
Arguments Nat.max : simpl never.
Arguments Nat.sub : simpl never.
Arguments from : simpl never.
Arguments tag : simpl never.
Arguments by_key : simpl never.
Arguments iter_of : simpl never.
Arguments drop_iter : simpl never.
Arguments busy : simpl never.

(* ------------------------------------------------------------------ small list facts *)

Lemma from_app i a b : from i (a ++ b) = from i a ++ from i b.
Proof. apply filter_app. Qed.

Lemma by_key_app {A} j (a b : list (nat * A)) : by_key j (a ++ b) = by_key j a ++ by_key j b.
Proof. unfold by_key. rewrite filter_app, map_app. reflexivity. Qed.

Lemma by_key_one_same {A} j (x : A) : by_key j [(j, x)] = [x].
Proof. unfold by_key. cbn. rewrite Nat.eqb_refl. reflexivity. Qed.

Lemma by_key_one_other {A} j k (x : A) : k <> j -> by_key j [(k, x)] = [].
Proof. intros H. unfold by_key. cbn. destruct (Nat.eqb k j) eqn:E; [apply Nat.eqb_eq in E; contradiction|reflexivity]. Qed.

Lemma tag_cons i v l : tag i (v :: l) = (i, v) :: tag i l.
Proof. reflexivity. Qed.

Lemma from_one_same i v : from i [(i, v)] = [(i, v)].
Proof. unfold from. cbn. rewrite Nat.eqb_refl. reflexivity. Qed.

Lemma from_one_other i k v : k <> i -> from i [(k, v)] = [].
Proof. intros H. unfold from. cbn. destruct (Nat.eqb k i) eqn:E; [apply Nat.eqb_eq in E; contradiction|reflexivity]. Qed.

Lemma delivered_app a b : delivered (a ++ b) = delivered a ++ delivered b.
Proof. induction a as [|e a IH]; cbn; [reflexivity|]. destruct e; cbn; rewrite ?IH; reflexivity. Qed.

Lemma entry_keys_app a b : entry_keys (a ++ b) = entry_keys a ++ entry_keys b.
Proof. induction a as [|e a IH]; cbn; [reflexivity|]. destruct e; cbn; rewrite ?IH; reflexivity. Qed.

(* ---- the table of receivers inside ForIter *)

Lemma iter_of_cons_same {j x} l : iter_of j ((j, x) :: l) = Some x.
Proof. unfold iter_of, is_key. cbn. rewrite Nat.eqb_refl. reflexivity. Qed.

Lemma iter_of_cons_other {j k x} l : k <> j -> iter_of j ((k, x) :: l) = iter_of j l.
Proof. intros H. unfold iter_of, is_key. cbn. destruct (Nat.eqb k j) eqn:E; [apply Nat.eqb_eq in E; contradiction|reflexivity]. Qed.

Lemma iter_of_nil j : iter_of j [] = None.
Proof. reflexivity. Qed.

Lemma iter_of_drop_same j l : iter_of j (drop_iter j l) = None.
Proof.
  unfold iter_of, drop_iter, is_key. induction l as [|(k, x) l IH]; cbn; [reflexivity|].
  destruct (Nat.eqb k j) eqn:E; cbn; [exact IH|]. rewrite E. exact IH.
Qed.

Lemma iter_of_drop_other j k l : k <> j -> iter_of j (drop_iter k l) = iter_of j l.
Proof.
  intros H. unfold iter_of, drop_iter, is_key. induction l as [|(q, x) l IH]; cbn; [reflexivity|].
  destruct (Nat.eqb q k) eqn:E; cbn.
  - apply Nat.eqb_eq in E. subst q. destruct (Nat.eqb k j) eqn:E2; [apply Nat.eqb_eq in E2; contradiction|exact IH].
  - destruct (Nat.eqb q j); [reflexivity|exact IH].
Qed.

Lemma iter_of_some_in j l x : iter_of j l = Some x -> In (j, x) l.
Proof.
  unfold iter_of, is_key. induction l as [|(k, y) l IH]; cbn; [discriminate|].
  destruct (Nat.eqb k j) eqn:E; cbn.
  - apply Nat.eqb_eq in E. subst. intros [= <-]. left. reflexivity.
  - intros H. right. apply IH. exact H.
Qed.

Lemma iter_of_none_notin j l : iter_of j l = None -> ~ In j (map fst l).
Proof.
  unfold iter_of, is_key. induction l as [|(k, y) l IH]; cbn; [intros _ []|].
  destruct (Nat.eqb k j) eqn:E; cbn; [discriminate|]. intros H [->|Hin]; [rewrite Nat.eqb_refl in E; discriminate|].
  apply IH; assumption.
Qed.

Lemma drop_iter_in j l p : In p (drop_iter j l) -> In p l /\ fst p <> j.
Proof.
  unfold drop_iter, is_key. intros H. apply filter_In in H. destruct H as (H1 & H2). split; [exact H1|].
  intros E. rewrite E, Nat.eqb_refl in H2. discriminate.
Qed.

Lemma nodup_keys_filter {A} (f : nat * A -> bool) l : NoDup (map fst l) -> NoDup (map fst (filter f l)).
Proof.
  induction l as [|x l IH]; cbn; intros N; [constructor|]. inversion N as [|? ? Hx Nl]; subst.
  destruct (f x); cbn; [|apply IH; exact Nl]. constructor; [|apply IH; exact Nl].
  intros Hin. apply Hx. apply in_map_iff in Hin. destruct Hin as (y & Ey & Hy). apply filter_In in Hy.
  apply in_map_iff. exists y. split; [exact Ey|apply Hy].
Qed.

Lemma drop_iter_length j l x : NoDup (map fst l) -> iter_of j l = Some x -> S (length (drop_iter j l)) = length l.
Proof.
  unfold iter_of, drop_iter, is_key. induction l as [|(k, y) l IH]; cbn; intros N H; [discriminate|].
  inversion N as [|? ? Hk Nl]; subst. destruct (Nat.eqb k j) eqn:E; cbn.
  - apply Nat.eqb_eq in E. subst k. f_equal.
    assert (Hn : ~ In j (map fst l)) by exact Hk. clear -Hn.
    induction l as [|(q, z) l IH]; cbn; [reflexivity|]. destruct (Nat.eqb q j) eqn:E; cbn.
    + apply Nat.eqb_eq in E. subst. exfalso. apply Hn. left. reflexivity.
    + f_equal. apply IH. intros H. apply Hn. right. exact H.
  - f_equal. apply IH; assumption.
Qed.

Lemma busy_false j s : busy j s = false <-> iter_of j (iters s) = None.
Proof. unfold busy. destruct (iter_of j (iters s)); split; congruence. Qed.

Lemma mem_true j l : mem j l = true <-> In j l.
Proof.
  unfold mem. rewrite existsb_exists. split.
  - intros (x & Hx & E). apply Nat.eqb_eq in E. subst. exact Hx.
  - intros H. exists j. split; [exact H|apply Nat.eqb_refl].
Qed.

(* ------------------------------------------------------------------ runs with their events *)

Fixpoint run_ev (s : st) (sch : list act) : option (st * list ev) :=
  match sch with
  | [] => Some (s, [])
  | a :: r => match step s a with
              | Some (s', e) => match run_ev s' r with Some (s'', es) => Some (s'', e :: es) | None => None end
              | None => None
              end
  end.

Lemma run_run_ev s sch s' : run s sch = Some s' <-> exists es, run_ev s sch = Some (s', es).
Proof.
  revert s. induction sch as [|a r IH]; intros s; cbn.
  - split; [intros [= <-]; eexists; reflexivity|intros (es & [= <- _]); reflexivity].
  - destruct (step s a) as [(s1, e)|]; [|split; [discriminate|intros (? & ?); discriminate]].
    rewrite IH. split.
    + intros (es & H). rewrite H. eexists; reflexivity.
    + intros (es & H). destruct (run_ev s1 r) as [(s2, es')|]; [|discriminate]. injection H as <- _. eexists; reflexivity.
Qed.

Lemma step_seen s a s' e : step s a = Some (s', e) -> seen s' = seen s ++ [e].
Proof.
  destruct a; cbn; intros H;
    repeat match type of H with
           | context [match ?x with _ => _ end] => destruct x eqn:?; try discriminate
           end; injection H as <- <-; reflexivity.
Qed.

Lemma run_ev_seen s sch s' es : run_ev s sch = Some (s', es) -> seen s' = seen s ++ es.
Proof.
  revert s es. induction sch as [|a r IH]; intros s es; cbn.
  - intros [= <- <-]. rewrite app_nil_r. reflexivity.
  - destruct (step s a) as [(s1, e)|] eqn:E; [|discriminate].
    destruct (run_ev s1 r) as [(s2, es')|] eqn:R; [|discriminate]. intros [= <- <-].
    rewrite (IH _ _ R), (step_seen _ _ _ _ E), <- app_assoc. reflexivity.
Qed.

(* a property preserved by every step holds after every run *)
Lemma run_invariant (P : st -> Prop) :
  (forall s a s' e, P s -> step s a = Some (s', e) -> P s') ->
  forall sch s s', P s -> run s sch = Some s' -> P s'.
Proof.
  intros Hs. induction sch as [|a r IH]; intros s s' H R; cbn in R.
  - injection R as <-. exact H.
  - destruct (step s a) as [(s1, e)|] eqn:E; [|discriminate]. eapply IH; [|exact R]. eapply Hs; eassumption.
Qed.

(* case analysis of a successful step: one goal per way a step can succeed *)
Ltac destr_step H :=
  cbn in H;
  repeat match type of H with
  | context [match todo ?s ?i with _ => _ end] => destruct (todo s i) eqn:?
  | context [if busy ?j ?s then _ else _] => destruct (busy j s) eqn:?
  | context [match buf ?s with _ => _ end] => destruct (buf s) eqn:?
  | context [match iter_of ?j ?l with _ => _ end] => destruct (iter_of j l) as [[[] ?]|] eqn:?
  | context [if closed ?s then _ else _] => destruct (closed s) eqn:?
  | context [if room ?s then _ else _] => destruct (room s) eqn:?
  | context [match last ?s with _ => _ end] => destruct (last s) eqn:?
  | context [if cancelled ?s && _ then _ else _] => destruct (cancelled s) eqn:?; cbn in H
  | context [if negb (busy ?j ?s) then _ else _] => destruct (busy j s) eqn:?; cbn in H
  | context [if cancelled ?s then _ else _] => destruct (cancelled s) eqn:?
  end; try discriminate; injection H as <- <-.

(* ------------------------------------------------------------------ 1. the channel is FIFO and loses nothing *)

(* per sender: what the channel has released, then what is queued, then what is still to be sent,
   is that sender's program, in order *)
Definition Inv (prog : nat -> list N) (s : st) : Prop :=
  forall i, from i (map snd (deq s) ++ buf s) ++ tag i (todo s i) = tag i (prog i).

Lemma inv_init c prog : Inv prog (init c prog).
Proof. intros i. reflexivity. Qed.

Lemma inv_step prog s a s' e : Inv prog s -> step s a = Some (s', e) -> Inv prog s'.
Proof.
  intros I H. destruct a as [i|j|j|j|j|j|j|j|k| |i|j|j]; destr_step H;
    try (intros k0; specialize (I k0); cbn in *; exact I).
  - (* Send *)
    intros k. cbn. unfold upd. specialize (I k). rewrite app_assoc, from_app.
    destruct (Nat.eqb k i) eqn:Ek.
    + apply Nat.eqb_eq in Ek. subst k.
      match goal with E : todo s i = _ |- _ => rewrite E, tag_cons in I end.
      rewrite from_one_same, <- app_assoc. exact I.
    + apply Nat.eqb_neq in Ek. rewrite from_one_other by congruence. rewrite app_nil_r. exact I.
  - (* Recv *)
    intros k. cbn. specialize (I k). match goal with E : buf s = _ |- _ => rewrite E in I end.
    rewrite map_app. cbn [map snd]. rewrite <- app_assoc. exact I.
  - (* Take *)
    intros k. cbn. specialize (I k). match goal with E : buf s = _ |- _ => rewrite E in I end.
    rewrite map_app. cbn [map snd]. rewrite <- app_assoc. exact I.
  - (* Next *)
    intros k. cbn. specialize (I k). match goal with E : buf s = _ |- _ => rewrite E in I end.
    rewrite map_app. cbn [map snd]. rewrite <- app_assoc. exact I.
Qed.

Theorem fifo_all_schedules prog c sch s : run (init c prog) sch = Some s -> Inv prog s.
Proof. apply (run_invariant (Inv prog)); [apply inv_step|apply inv_init]. Qed.

(* ------------------------------------------------------------------ 2. what holds of the iteration protocol under EVERY schedule *)

(* as many values handed to scripts (plus iterations in progress) as the channel released;
   nothing is handed out that the channel did not release *)
Definition Weak (s : st) : Prop :=
  length (delivered (seen s)) + length (iters s) = length (deq s) /\
  NoDup (map fst (iters s)) /\
  (forall m, last s = Some m -> In m (map snd (deq s))) /\
  (forall p, In p (delivered (seen s)) -> In (snd p) (map snd (deq s))) /\
  (forall j ph m, In (j, (ph, m)) (iters s) -> In m (map snd (deq s))).

Lemma weak_init c prog : Weak (init c prog).
Proof. unfold Weak; cbn. split; [reflexivity|]. split; [constructor|]. split; [discriminate|]. split; intros; contradiction. Qed.

(* steps that only add an event which hands no value to a script *)
Lemma weak_ext s s' e :
  deq s' = deq s -> seen s' = seen s ++ [e] -> last s' = last s -> iters s' = iters s ->
  delivered [e] = [] -> Weak s -> Weak s'.
Proof.
  intros Hd Hs Hl Hi De W. unfold Weak in *. rewrite Hd, Hs, Hl, Hi, delivered_app, De, app_nil_r. exact W.
Qed.

Lemma weak_rephase s j ph ph' m :
  iter_of j (iters s) = Some (ph, m) -> NoDup (map fst (iters s)) ->
  (forall j ph m, In (j, (ph, m)) (iters s) -> In m (map snd (deq s))) ->
  length ((j, (ph', m)) :: drop_iter j (iters s)) = length (iters s) /\
  NoDup (map fst ((j, (ph', m)) :: drop_iter j (iters s))) /\
  (forall j0 ph0 m0, In (j0, (ph0, m0)) ((j, (ph', m)) :: drop_iter j (iters s)) -> In m0 (map snd (deq s))).
Proof.
  intros It N D. split; [cbn; apply (drop_iter_length _ _ _ N It)|]. split.
  - cbn. constructor; [|apply nodup_keys_filter; exact N].
    intros Hin. apply in_map_iff in Hin. destruct Hin as (p & Ep & Hp). apply drop_iter_in in Hp. destruct Hp as (_ & Ne). contradiction.
  - intros j0 ph0 m0 [E|Hin].
    + injection E as <- <- <-. eapply D. apply iter_of_some_in. exact It.
    + apply drop_iter_in in Hin. eapply D. apply Hin.
Qed.

Lemma weak_step s a s' e : Weak s -> step s a = Some (s', e) -> Weak s'.
Proof.
  intros W H. destruct a as [i|j|j|j|j|j|j|j|k| |i|j|j]; destr_step H;
    try (eapply weak_ext; [..|exact W]; reflexivity).
  - (* Recv value *)
    destruct W as (L & N & La & D & I). unfold Weak; cbn. rewrite delivered_app, map_app. cbn. rewrite !app_length. cbn.
    split; [lia|]. split; [exact N|]. split; [|split].
    + intros m' Hm. apply in_or_app. left. apply La. exact Hm.
    + intros q Hq. apply in_app_or in Hq. apply in_or_app. destruct Hq as [Hq|[<-|[]]]; [left; apply D; exact Hq|right; left; reflexivity].
    + intros j0 ph0 m0 Hin. apply in_or_app. left. eapply I. exact Hin.
  - (* Take value *)
    destruct W as (L & N & La & D & I). unfold Weak; cbn. rewrite delivered_app, map_app. cbn. rewrite !app_length, app_nil_r. cbn.
    split; [lia|]. split; [|split; [|split]].
    + constructor; [|exact N]. apply iter_of_none_notin. apply busy_false. assumption.
    + intros m' Hm. apply in_or_app. left. apply La. exact Hm.
    + intros q Hq. apply in_or_app. left. apply D. exact Hq.
    + intros j0 ph0 m0 [E|Hin]; apply in_or_app; [right; injection E as _ _ <-; left; reflexivity|left; eapply I; exact Hin].
  - (* Fin *)
    destruct W as (L & N & La & D & I).
    match goal with It : iter_of j (iters s) = Some (Taken, ?m) |- _ =>
      pose proof (drop_iter_length _ _ _ N It) as Le; pose proof (I _ _ _ (iter_of_some_in _ _ _ It)) as Hm end.
    unfold Weak; cbn [seen deq last iters]. rewrite delivered_app. cbn [delivered]. rewrite app_length. cbn [length].
    split; [lia|]. split; [apply nodup_keys_filter; exact N|]. split; [exact La|]. split.
    + intros q Hq. apply in_app_or in Hq. destruct Hq as [Hq|[<-|[]]]; [apply D; exact Hq|]. cbn. exact Hm.
    + intros j0 ph0 m0 Hin. apply drop_iter_in in Hin. eapply I. apply Hin.
  - (* Next value *)
    destruct W as (L & N & La & D & I). unfold Weak; cbn. rewrite delivered_app, map_app. cbn. rewrite !app_length, app_nil_r. cbn.
    split; [lia|]. split; [|split; [|split]].
    + constructor; [|exact N]. apply iter_of_none_notin. apply busy_false. assumption.
    + intros m' Hm. apply in_or_app. left. apply La. exact Hm.
    + intros q Hq. apply in_or_app. left. apply D. exact Hq.
    + intros j0 ph0 m0 [E|Hin]; apply in_or_app; [right; injection E as _ _ <-; left; reflexivity|left; eapply I; exact Hin].
  - (* Store *)
    destruct W as (L & N & La & D & I).
    match goal with It : iter_of j (iters s) = Some (Got, ?m) |- _ => destruct (weak_rephase s j Got Stored m It N I) as (Le & Nd & I') end.
    unfold Weak; cbn [seen deq last iters]. rewrite delivered_app. cbn [delivered]. rewrite app_nil_r, Le.
    split; [exact L|]. split; [exact Nd|]. split; [|split; [exact D|exact I']].
    intros m' [= <-]. eapply I. apply iter_of_some_in. eassumption.
  - (* Count *)
    destruct W as (L & N & La & D & I).
    match goal with It : iter_of j (iters s) = Some (Stored, ?m) |- _ => destruct (weak_rephase s j Stored Counted m It N I) as (Le & Nd & I') end.
    unfold Weak; cbn [seen deq last iters]. rewrite delivered_app. cbn [delivered]. rewrite app_nil_r, Le.
    split; [exact L|]. split; [exact Nd|]. split; [exact La|split; [exact D|exact I']].
  - (* Entry *)
    destruct W as (L & N & La & D & I).
    match goal with It : iter_of j (iters s) = Some (Counted, ?m) |- _ => pose proof (drop_iter_length _ _ _ N It) as Le end.
    match goal with E : last s = Some _ |- _ => rewrite E in La end.
    unfold Weak; cbn [seen deq last iters]. rewrite delivered_app. cbn [delivered]. rewrite app_length. cbn [length].
    split; [lia|]. split; [apply nodup_keys_filter; exact N|]. split; [exact La|]. split.
    + intros q Hq. apply in_app_or in Hq. destruct Hq as [Hq|[<-|[]]]; [apply D; exact Hq|]. cbn. apply La. reflexivity.
    + intros j0 ph0 m0 Hin. apply drop_iter_in in Hin. eapply I. apply Hin.
Qed.

Theorem weak_all_schedules prog c sch s : run (init c prog) sch = Some s -> Weak s.
Proof. apply (run_invariant Weak); [apply weak_step|apply weak_init]. Qed.

(* ------------------------------------------------------------------ 3. exactly-once delivery *)

Definition guard_ok (s : st) (a : act) : bool :=
  match a with Next _ => is_nil (iters s) | Take _ => all_taken (iters s) | _ => true end.

Definition counted (l : list (nat * (phase * (nat * N)))) : nat :=
  length (filter (fun p => match fst (snd p) with Counted => true | _ => false end) l).

(* per receiver: what its script has been handed, plus the value it holds inside NextEntry or the protocol,
   is exactly what the channel released to it, in order; range keys count 0,1,2,... *)
Definition Excl (s : st) : Prop :=
  (forall j, by_key j (deq s) = by_key j (delivered (seen s)) ++ held s j) /\
  (all_taken (iters s) = true \/ length (iters s) <= 1) /\
  (forall j ph m, iter_of j (iters s) = Some (ph, m) -> ph = Stored \/ ph = Counted -> last s = Some m) /\
  rxcount s = length (entry_keys (seen s)) + counted (iters s) /\
  entry_keys (seen s) = seq 0 (length (entry_keys (seen s))).

Lemma excl_init c prog : Excl (init c prog).
Proof. unfold Excl; cbn. repeat split; auto. intros j ph m H. discriminate. Qed.

Lemma excl_ext s s' e :
  deq s' = deq s -> seen s' = seen s ++ [e] -> last s' = last s -> iters s' = iters s ->
  rxcount s' = rxcount s -> delivered [e] = [] -> entry_keys [e] = [] -> Excl s -> Excl s'.
Proof.
  intros Hd Hs Hl Hp Hr De Ke X. unfold Excl, held in *.
  rewrite Hd, Hs, Hl, Hp, Hr, delivered_app, entry_keys_app, De, Ke, !app_nil_r. exact X.
Qed.

Lemma iters_single s j x : length (iters s) <= 1 -> iter_of j (iters s) = Some x -> iters s = [(j, x)].
Proof.
  intros L H. destruct (iters s) as [|(k, y) [|q r]]; cbn in L; [discriminate| |lia].
  destruct (Nat.eq_dec k j) as [->|Ne].
  - rewrite iter_of_cons_same in H. injection H as <-. reflexivity.
  - rewrite (iter_of_cons_other _ Ne) in H. discriminate.
Qed.

Lemma drop_single j (x : phase * (nat * N)) : drop_iter j [(j, x)] = [].
Proof. unfold drop_iter, is_key. cbn. rewrite Nat.eqb_refl. reflexivity. Qed.

Lemma held_single s j k x : iters s = [(j, x)] -> held s k = if Nat.eqb j k then [snd x] else [].
Proof.
  intros E. unfold held. rewrite E. destruct (Nat.eqb j k) eqn:Ek.
  - apply Nat.eqb_eq in Ek. subst k. rewrite iter_of_cons_same. destruct x; reflexivity.
  - apply Nat.eqb_neq in Ek. rewrite (iter_of_cons_other _ Ek). reflexivity.
Qed.

Lemma all_taken_phase l j ph m : all_taken l = true -> iter_of j l = Some (ph, m) -> ph = Taken.
Proof.
  intros A H. apply iter_of_some_in in H. unfold all_taken in A. rewrite forallb_forall in A. specialize (A _ H).
  cbn in A. destruct ph; try discriminate. reflexivity.
Qed.

Lemma all_taken_counted l : all_taken l = true -> counted l = 0.
Proof.
  unfold all_taken, counted. induction l as [|(k, (ph, m)) l IH]; cbn; [reflexivity|].
  destruct ph; cbn; try discriminate. exact IH.
Qed.

Lemma all_taken_drop j l : all_taken l = true -> all_taken (drop_iter j l) = true.
Proof.
  unfold all_taken, drop_iter. intros A. apply forallb_forall. intros x Hx. apply filter_In in Hx.
  rewrite forallb_forall in A. apply A. apply Hx.
Qed.

(* a receiver inside the protocol is the only one inside anything *)
Lemma protocol_single s j ph m :
  (all_taken (iters s) = true \/ length (iters s) <= 1) -> iter_of j (iters s) = Some (ph, m) -> ph <> Taken ->
  iters s = [(j, (ph, m))].
Proof.
  intros [A|L] H Np; [exfalso; apply Np; eapply all_taken_phase; eassumption|]. apply iters_single; assumption.
Qed.

Lemma excl_step s a s' e : Excl s -> guard_ok s a = true -> step s a = Some (s', e) -> Excl s'.
Proof.
  intros X G H. destruct a as [i|j|j|j|j|j|j|j|k| |i|j|j]; destr_step H;
    try (eapply excl_ext; [..|exact X]; reflexivity).
  - (* Recv value *)
    destruct X as (A & B & Cc & D & K). unfold Excl, held. cbn.
    rewrite delivered_app, entry_keys_app. cbn. rewrite app_nil_r. split; [|repeat split; assumption].
    intros k. rewrite !by_key_app. specialize (A k). unfold held in A. destruct (Nat.eq_dec j k) as [->|Ne].
    + match goal with Bz : busy k s = false |- _ => apply busy_false in Bz; rewrite Bz in * end.
      rewrite app_nil_r in *. rewrite A. reflexivity.
    + rewrite (by_key_one_other k j) by exact Ne. rewrite !app_nil_r. exact A.
  - (* Take value: the receiver now holds it *)
    destruct X as (A & B & Cc & D & K). cbn in G.
    unfold Excl, held. cbn [deq seen last iters rxcount]. rewrite delivered_app, entry_keys_app. cbn [delivered entry_keys]. rewrite !app_nil_r.
    split; [|split; [left; cbn; exact G|split; [|split; [|exact K]]]].
    + intros k. rewrite by_key_app. specialize (A k). unfold held in A. destruct (Nat.eq_dec j k) as [->|Ne].
      * match goal with Bz : busy k s = false |- _ => apply busy_false in Bz; rewrite Bz in A end.
        rewrite iter_of_cons_same, by_key_one_same, A, app_nil_r. reflexivity.
      * rewrite (iter_of_cons_other _ Ne), by_key_one_other by exact Ne. rewrite app_nil_r. exact A.
    + intros k ph m Hk Hp. destruct (Nat.eq_dec j k) as [->|Ne].
      * rewrite iter_of_cons_same in Hk. injection Hk as <- _. destruct Hp; discriminate.
      * rewrite (iter_of_cons_other _ Ne) in Hk. eapply Cc; eassumption.
    + unfold counted in *. cbn. exact D.
  - (* Fin: the receiver is handed the value it holds *)
    destruct X as (A & B & Cc & D & K).
    match goal with It : iter_of j (iters s) = Some (Taken, ?m) |- _ => rename m into m0; rename It into It0 end.
    assert (AT : all_taken (iters s) = true).
    { destruct B as [B|B]; [exact B|]. rewrite (iters_single s j _ B It0). reflexivity. }
    rewrite (all_taken_counted _ AT) in D.
    unfold Excl, held. cbn [deq seen last iters rxcount]. rewrite delivered_app, entry_keys_app. cbn [delivered entry_keys].
    rewrite app_length. cbn [length].
    split; [|split; [left; apply all_taken_drop; exact AT|split; [|split]]].
    + intros k. rewrite by_key_app. specialize (A k). unfold held in A. destruct (Nat.eq_dec j k) as [->|Ne].
      * rewrite It0 in A. rewrite iter_of_drop_same, by_key_one_same, app_nil_r. exact A.
      * rewrite (iter_of_drop_other _ _ _ Ne), by_key_one_other by exact Ne. rewrite app_nil_r. exact A.
    + intros k ph m Hk Hp. exfalso. pose proof (all_taken_phase _ _ _ _ (all_taken_drop j _ AT) Hk) as E. subst ph. destruct Hp; discriminate.
    + rewrite (all_taken_counted _ (all_taken_drop j _ AT)). lia.
    + rewrite seq_app. cbn. rewrite <- K. f_equal. f_equal. lia.
  - (* Next value *)
    destruct X as (A & B & Cc & D & K). cbn in G. destruct (iters s) as [|q qs] eqn:P; [|discriminate].
    unfold Excl, held. cbn. rewrite delivered_app, entry_keys_app. cbn. rewrite !app_nil_r.
    split; [|split; [right; cbn; lia|split; [|split; [exact D|exact K]]]].
    + intros k. rewrite by_key_app. specialize (A k). unfold held in A. rewrite P, iter_of_nil, app_nil_r in A.
      destruct (Nat.eq_dec j k) as [->|Ne].
      * rewrite iter_of_cons_same, by_key_one_same, A. reflexivity.
      * rewrite (iter_of_cons_other _ Ne), iter_of_nil, by_key_one_other by exact Ne. rewrite !app_nil_r. exact A.
    + intros k ph m Hk Hg. destruct (Nat.eq_dec j k) as [->|Ne].
      * rewrite iter_of_cons_same in Hk. injection Hk as <- _. destruct Hg; discriminate.
      * rewrite (iter_of_cons_other _ Ne), iter_of_nil in Hk. discriminate.
  - (* Store *)
    destruct X as (A & B & Cc & D & K).
    match goal with It : iter_of j (iters s) = Some (Got, ?m) |- _ => pose proof (protocol_single s j _ _ B It ltac:(discriminate)) as P; rename m into m0 end.
    unfold Excl. cbn [deq seen last iters rxcount]. rewrite P, drop_single, delivered_app, entry_keys_app. cbn [delivered entry_keys]. rewrite !app_nil_r.
    split; [|split; [right; cbn; lia|split; [|split; [|exact K]]]].
    + intros k. specialize (A k). rewrite (held_single s j k _ P) in A. unfold held. cbn [iters].
      destruct (Nat.eq_dec j k) as [->|Ne].
      * rewrite iter_of_cons_same. rewrite Nat.eqb_refl in A. exact A.
      * rewrite (iter_of_cons_other _ Ne), iter_of_nil. apply Nat.eqb_neq in Ne. rewrite Ne in A. exact A.
    + intros k ph m Hk _. destruct (Nat.eq_dec j k) as [->|Ne].
      * rewrite iter_of_cons_same in Hk. injection Hk as _ <-. reflexivity.
      * rewrite (iter_of_cons_other _ Ne), iter_of_nil in Hk. discriminate.
    + rewrite P in D. cbn in D. cbn. exact D.
  - (* Count *)
    destruct X as (A & B & Cc & D & K).
    match goal with It : iter_of j (iters s) = Some (Stored, ?m) |- _ =>
      pose proof (protocol_single s j _ _ B It ltac:(discriminate)) as P; pose proof (Cc j Stored m It (or_introl eq_refl)) as Lm; rename m into m0 end.
    unfold Excl. cbn [deq seen last iters rxcount]. rewrite P, drop_single, delivered_app, entry_keys_app. cbn [delivered entry_keys]. rewrite !app_nil_r.
    split; [|split; [right; cbn; lia|split; [|split; [|exact K]]]].
    + intros k. specialize (A k). rewrite (held_single s j k _ P) in A. unfold held. cbn [iters].
      destruct (Nat.eq_dec j k) as [->|Ne].
      * rewrite iter_of_cons_same. rewrite Nat.eqb_refl in A. exact A.
      * rewrite (iter_of_cons_other _ Ne), iter_of_nil. apply Nat.eqb_neq in Ne. rewrite Ne in A. exact A.
    + intros k ph m Hk _. destruct (Nat.eq_dec j k) as [->|Ne].
      * rewrite iter_of_cons_same in Hk. injection Hk as _ <-. exact Lm.
      * rewrite (iter_of_cons_other _ Ne), iter_of_nil in Hk. discriminate.
    + rewrite P in D. cbn in D. cbn. lia.
  - (* Entry *)
    destruct X as (A & B & Cc & D & K).
    match goal with It : iter_of j (iters s) = Some (Counted, ?m) |- _ =>
      pose proof (protocol_single s j _ _ B It ltac:(discriminate)) as P; pose proof (Cc j Counted m It (or_intror eq_refl)) as Lm; rename m into m0 end.
    match goal with E : last s = Some ?q |- _ => lazymatch q with m0 => fail | _ => assert (q = m0) by congruence; subst q end end.
    unfold Excl. cbn [deq seen last iters rxcount]. rewrite P, drop_single, delivered_app, entry_keys_app. cbn [delivered entry_keys].
    rewrite app_length. cbn [length]. rewrite P in D. cbn in D.
    split; [|split; [right; cbn; lia|split; [|split; [cbn; lia|]]]].
    + intros k. specialize (A k). rewrite (held_single s j k _ P) in A. unfold held. cbn [iters]. rewrite iter_of_nil, app_nil_r, by_key_app.
      destruct (Nat.eq_dec j k) as [->|Ne].
      * rewrite Nat.eqb_refl in A. rewrite by_key_one_same. exact A.
      * rewrite by_key_one_other by exact Ne. apply Nat.eqb_neq in Ne. rewrite Ne in A. exact A.
    + intros k ph m Hk _. rewrite iter_of_nil in Hk. discriminate.
    + rewrite seq_app. cbn. rewrite <- K. f_equal. f_equal. lia.
Qed.

Lemma excl_run sch : forall s s', Excl s -> exclusive s sch = true -> run s sch = Some s' -> Excl s'.
Proof.
  induction sch as [|a r IH]; intros s s' X G R; cbn in *.
  - injection R as <-. exact X.
  - destruct (step s a) as [(s1, e)|] eqn:E; [|discriminate].
    apply andb_prop in G. destruct G as (Ga & Gr).
    apply (IH s1); [|exact Gr|exact R]. eapply excl_step; [exact X| |exact E]. destruct a; exact Ga || reflexivity.
Qed.

Theorem exclusive_exactly_once prog c sch s :
  run (init c prog) sch = Some s -> exclusive (init c prog) sch = true -> Excl s.
Proof. intros R G. eapply excl_run; [apply excl_init|exact G|exact R]. Qed.

(* at most one receiver uses the protocol and nobody ranges => the guard holds *)
Lemma single_exclusive j0 sch : forall s,
  (forall j, In j (map fst (iters s)) -> j = j0) -> single_iter j0 sch = true -> exclusive s sch = true.
Proof.
  induction sch as [|a r IH]; intros s P S; cbn in *; [reflexivity|].
  apply andb_prop in S. destruct S as (Sa & Sr).
  destruct (step s a) as [(s1, e)|] eqn:E; [|reflexivity].
  apply andb_true_intro. split.
  - destruct a; try reflexivity; [discriminate|]. apply Nat.eqb_eq in Sa. subst j. cbn in E.
    destruct (busy j0 s) eqn:M; [discriminate|]. apply busy_false in M. apply iter_of_none_notin in M.
    destruct (iters s) as [|q qs]; [reflexivity|]. exfalso. apply M. left. apply P. left. reflexivity.
  - apply IH; [|exact Sr]. intros j Hj.
    destruct a as [i|k|k|k|k|k|k|k|k| |i|k|k]; try discriminate Sa; destr_step E; cbn in Hj; try (apply P; exact Hj);
      try (apply Nat.eqb_eq in Sa; subst k).
    + destruct Hj as [<-|Hj]; [reflexivity|apply P; exact Hj].
    + destruct Hj as [<-|Hj]; [reflexivity|]. apply in_map_iff in Hj. destruct Hj as (q & <- & Hp).
      apply drop_iter_in in Hp. apply P. apply in_map. apply Hp.
    + destruct Hj as [<-|Hj]; [reflexivity|]. apply in_map_iff in Hj. destruct Hj as (q & <- & Hp).
      apply drop_iter_in in Hp. apply P. apply in_map. apply Hp.
    + apply in_map_iff in Hj. destruct Hj as (q & <- & Hp). apply drop_iter_in in Hp. apply P. apply in_map. apply Hp.
Qed.

Lemma single_exclusive_init j0 c prog sch : single_iter j0 sch = true -> exclusive (init c prog) sch = true.
Proof. apply single_exclusive. intros j []. Qed.

(* schedules without the Next/Entry protocol (send, receive, range, close, cancellation) never put a
   receiver inside it: every such schedule satisfies the guard *)
Lemma one_step_step s a s' e : two_step a = false -> all_taken (iters s) = true -> step s a = Some (s', e) -> all_taken (iters s') = true.
Proof.
  intros T P H. destruct a as [i|j|j|j|j|j|j|j|k| |i|j|j]; try discriminate; destr_step H; cbn; try assumption.
  apply all_taken_drop. exact P.
Qed.

Lemma one_step_exclusive sch : forall s, one_step_only sch = true -> all_taken (iters s) = true -> exclusive s sch = true.
Proof.
  induction sch as [|a r IH]; intros s O P; cbn in *; [reflexivity|].
  apply andb_prop in O. destruct O as (Oa & Or). apply negb_true_iff in Oa.
  destruct (step s a) as [(s1, e)|] eqn:E; [|reflexivity].
  rewrite (IH _ Or (one_step_step _ _ _ _ Oa P E)), andb_true_r.
  destruct a; try reflexivity; try discriminate. exact P.
Qed.

(* ------------------------------------------------------------------ 4. closed and drained: nil, end of iteration, for ever *)

Lemma recv_closed_drained s j :
  closed s = true -> buf s = [] -> busy j s = false ->
  step s (Recv j) = Some (note s (EvRecvNil j), EvRecvNil j).
Proof. intros C B M. cbn. rewrite M, B, C. reflexivity. Qed.

Lemma recv_nil_only_when s j s' :
  step s (Recv j) = Some (s', EvRecvNil j) -> closed s = true /\ buf s = [] /\ s' = note s (EvRecvNil j).
Proof.
  cbn. destruct (busy j s); [discriminate|]. destruct (buf s); [|discriminate].
  destruct (closed s); [|discriminate]. intros [= <-]. repeat split.
Qed.

Lemma next_closed_drained s j :
  closed s = true -> buf s = [] -> busy j s = false ->
  step s (Next j) = Some (note s (EvIterEnd j), EvIterEnd j).
Proof. intros C B M. cbn. rewrite M, B, C. reflexivity. Qed.

Lemma iter_end_only_when s j s' :
  step s (Next j) = Some (s', EvIterEnd j) -> closed s = true /\ buf s = [] /\ s' = note s (EvIterEnd j).
Proof.
  cbn. destruct (busy j s); [discriminate|]. destruct (buf s); [|discriminate].
  destruct (closed s); [|discriminate]. intros [= <-]. repeat split.
Qed.

(* while the channel is open or still holds a value, a receive never yields nil and a range never ends *)
Lemma open_or_nonempty_no_nil s j s' e :
  (closed s = false \/ buf s <> []) -> (step s (Recv j) = Some (s', e) \/ step s (Next j) = Some (s', e)) ->
  e <> EvRecvNil j /\ e <> EvIterEnd j.
Proof.
  intros O [H|H]; cbn in H; destruct (busy j s); try discriminate;
    destruct (buf s) as [|m r]; try (injection H as <- <-; split; discriminate);
    destruct (closed s); try discriminate; destruct O as [O|O]; congruence.
Qed.

Definition Drained (s : st) : Prop := closed s = true /\ buf s = [].

Definition no_value (e : ev) : Prop :=
  match e with EvSent _ _ | EvRecv _ _ | EvNext _ | EvClosed _ => False | _ => True end.

Lemma drained_step s a s' e : Drained s -> step s a = Some (s', e) -> Drained s' /\ no_value e.
Proof.
  intros (C & B) H. destruct a as [i|j|j|j|j|j|j|j|k| |i|j|j]; cbn in H; rewrite ?C, ?B in H; destr_step H;
    (split; [split; cbn; (assumption || reflexivity)|cbn; exact I]).
Qed.

Theorem drained_forever sch : forall s s' es,
  Drained s -> run_ev s sch = Some (s', es) -> Drained s' /\ Forall no_value es.
Proof.
  induction sch as [|a r IH]; intros s s' es D R; cbn in R.
  - injection R as <- <-. split; [exact D|constructor].
  - destruct (step s a) as [(s1, e)|] eqn:E; [|discriminate].
    destruct (run_ev s1 r) as [(s2, es')|] eqn:R'; [|discriminate]. injection R as <- <-.
    destruct (drained_step _ _ _ _ D E) as (D1 & Ne). destruct (IH _ _ _ D1 R') as (D2 & F).
    split; [exact D2|constructor; assumption].
Qed.

(* ------------------------------------------------------------------ 5. the statements at quiescence *)

Theorem guarded_delivery prog c sch s :
  run (init c prog) sch = Some s -> exclusive (init c prog) sch = true ->
  buf s = [] -> iters s = [] ->
  (forall i, from i (map snd (deq s)) ++ tag i (todo s i) = tag i (prog i)) /\
  (forall j, by_key j (delivered (seen s)) = by_key j (deq s)) /\
  entry_keys (seen s) = seq 0 (length (entry_keys (seen s))).
Proof.
  intros R G B P. pose proof (fifo_all_schedules _ _ _ _ R) as I.
  destruct (exclusive_exactly_once _ _ _ _ R G) as (A & _ & _ & _ & K). repeat split.
  - intros i. specialize (I i). rewrite B, app_nil_r in I. exact I.
  - intros j. specialize (A j). unfold held in A. rewrite P, iter_of_nil, app_nil_r in A. symmetry. exact A.
  - exact K.
Qed.

(* when a range loop ends: the channel is closed, everything that was sent has been released, and the
   loop has been handed everything the channel released to it *)
Theorem iteration_complete prog c sch s j s' :
  run (init c prog) sch = Some s -> exclusive (init c prog) sch = true ->
  step s (Next j) = Some (s', EvIterEnd j) ->
  closed s = true /\
  (forall i, from i (map snd (deq s)) ++ tag i (todo s i) = tag i (prog i)) /\
  by_key j (delivered (seen s)) = by_key j (deq s).
Proof.
  intros R G H. pose proof (fifo_all_schedules _ _ _ _ R) as I.
  destruct (exclusive_exactly_once _ _ _ _ R G) as (A & _).
  assert (M : busy j s = false).
  { cbn in H. destruct (busy j s); [discriminate|reflexivity]. }
  destruct (iter_end_only_when _ _ _ H) as (C & B & _). repeat split.
  - exact C.
  - intros i. specialize (I i). rewrite B, app_nil_r in I. exact I.
  - specialize (A j). unfold held in A. apply busy_false in M. rewrite M, app_nil_r in A. symmetry. exact A.
Qed.

Theorem one_step_delivery prog c sch s :
  run (init c prog) sch = Some s -> one_step_only sch = true -> buf s = [] -> iters s = [] ->
  (forall i, from i (map snd (deq s)) ++ tag i (todo s i) = tag i (prog i)) /\
  (forall j, by_key j (delivered (seen s)) = by_key j (deq s)) /\
  entry_keys (seen s) = seq 0 (length (entry_keys (seen s))).
Proof.
  intros R O B P. apply (guarded_delivery prog c sch s R); [|exact B|exact P].
  apply one_step_exclusive; [exact O|reflexivity].
Qed.

(* ------------------------------------------------------------------ 6. refutation: two receivers range over one channel *)

Definition prog2 : nat -> list N := fun i => if Nat.eqb i 0 then [10%N; 11%N] else [].
Definition sch_bad : list act :=
  [Send 0; Send 0; Next 1; Next 2; Store 1; Count 1; Store 2; Count 2; Entry 1; Entry 2; Close 0; Next 1; Next 2].

Lemma range_multi_witness :
  exists s, run (init 2 prog2) sch_bad = Some s /\
            buf s = [] /\ iters s = [] /\ (forall i, todo s i = []) /\
            map snd (deq s) = [(0, 10%N); (0, 11%N)] /\
            delivered (seen s) = [(1, (0, 11%N)); (2, (0, 11%N))] /\
            multi_iter sch_bad = true /\ exclusive (init 2 prog2) sch_bad = false.
Proof.
  eexists. split; [vm_compute; reflexivity|]. cbn [buf iters todo deq seen].
  repeat split; try reflexivity. intros i. unfold upd. destruct i; reflexivity.
Qed.

(* ------------------------------------------------------------------ 7. soundness of the history acceptor *)

Lemma nth_set_nth_same {A} (d : A) n x l : n < length l -> nth n (set_nth n x l) d = x.
Proof. revert n. induction l as [|y l IH]; intros [|n] H; cbn in *; try lia; [reflexivity|]. apply IH. lia. Qed.

Lemma nth_set_nth_other {A} (d : A) n k x l : n <> k -> nth k (set_nth n x l) d = nth k l d.
Proof.
  revert n k. induction l as [|y l IH]; intros n k H; cbn.
  - destruct n; reflexivity.
  - destruct n, k; cbn; try reflexivity; [contradiction|]. apply IH. congruence.
Qed.

Lemma nth_nonempty_lt {A} n (l : list (list A)) x r : nth n l [] = x :: r -> n < length l.
Proof.
  intros H. destruct (Nat.lt_ge_cases n (length l)) as [L|L]; [exact L|].
  rewrite nth_overflow in H by exact L. discriminate.
Qed.

Lemma all_nil_nth {A} (ls : list (list A)) n : all_nil ls = true -> nth n ls [] = [].
Proof.
  unfold all_nil. intros H. destruct (Nat.lt_ge_cases n (length ls)) as [L|L].
  - rewrite forallb_forall in H. specialize (H (nth n ls []) (nth_In _ _ L)). destruct (nth n ls []); [reflexivity|discriminate].
  - apply nth_overflow. exact L.
Qed.

Lemma pick_spec progs logs k j :
  pick progs logs k = Some j -> k <= j /\ head_ok progs (nth (j - k) logs []) = true.
Proof.
  revert k. induction logs as [|lg r IH]; intros k H; cbn in H; [discriminate|].
  destruct (head_ok progs lg) eqn:E.
  - injection H as <-. rewrite Nat.sub_diag. split; [lia|exact E].
  - destruct (IH _ H) as (L & Hk). split; [lia|].
    replace (j - k) with (S (j - S k)) by lia. exact Hk.
Qed.

Definition payloads (l : list msg) : list val := map snd l.

Lemma merge_sound fuel : forall progs logs d,
  merge fuel progs logs = Some d ->
  (forall i, payloads (from i (map snd d)) = nth i progs []) /\
  (forall j, by_key j d = nth j logs []).
Proof.
  assert (Base : forall progs logs d,
            (if all_nil progs && all_nil logs then Some [] else None) = Some d ->
            (forall i, payloads (from i (map snd d)) = nth i progs []) /\ (forall j, by_key j d = nth j logs [])).
  { intros progs logs d H. destruct (all_nil progs) eqn:P; [|discriminate]. destruct (all_nil logs) eqn:L; [|discriminate].
    injection H as <-. split; intros k; [rewrite all_nil_nth by exact P|rewrite all_nil_nth by exact L]; reflexivity. }
  induction fuel as [|f IH]; intros progs logs d H; cbn in H; [apply Base; exact H|].
  destruct (pick progs logs 0) as [j|] eqn:Pk; [|apply Base; exact H].
  destruct (pick_spec _ _ _ _ Pk) as (_ & Hk). rewrite Nat.sub_0_r in Hk.
  destruct (nth j logs []) as [|(i, v) lrest] eqn:Lj; [discriminate|].
  cbn in Hk. destruct (nth i progs []) as [|w prest] eqn:Pi; [discriminate|]. apply N.eqb_eq in Hk. subst w.
  destruct (merge f _ _) as [d'|] eqn:M; [|discriminate]. injection H as <-.
  destruct (IH _ _ _ M) as (S1 & S2). cbn [tl] in S1.
  pose proof (nth_nonempty_lt _ _ _ _ Pi) as Li. pose proof (nth_nonempty_lt _ _ _ _ Lj) as Lj'.
  split.
  - intros k. cbn [map snd]. specialize (S1 k). unfold from, payloads in *. cbn [filter fst].
    destruct (Nat.eqb i k) eqn:E.
    + apply Nat.eqb_eq in E. subst k. cbn [map snd]. rewrite S1, nth_set_nth_same by exact Li. symmetry. exact Pi.
    + apply Nat.eqb_neq in E. rewrite S1. apply nth_set_nth_other. exact E.
  - intros k. specialize (S2 k). unfold by_key in *. cbn [filter fst].
    destruct (Nat.eqb j k) eqn:E.
    + apply Nat.eqb_eq in E. subst k. cbn [map snd]. rewrite S2, nth_set_nth_same by exact Lj'. symmetry. exact Lj.
    + apply Nat.eqb_neq in E. rewrite S2. apply nth_set_nth_other. exact E.
Qed.

Theorem accept_sound progs logs :
  accept progs logs = true ->
  exists d, (forall i, payloads (from i (map snd d)) = nth i progs []) /\ (forall j, by_key j d = nth j logs []).
Proof.
  unfold accept. destruct (merge (total logs) progs logs) as [d|] eqn:M; [|discriminate].
  intros _. exists d. eapply merge_sound. exact M.
Qed.

(* ------------------------------------------------------------------ 8. the multiset form (n senders) *)

Lemma filter_or_perm {A} (p q : A -> bool) l :
  (forall x, p x && q x = false) ->
  Permutation (filter (fun x => p x || q x) l) (filter p l ++ filter q l).
Proof.
  intros Dj. induction l as [|x l IH]; cbn; [constructor|].
  specialize (Dj x). destruct (p x) eqn:Px, (q x) eqn:Qx; cbn in *; try discriminate.
  - constructor. exact IH.
  - apply Permutation_cons_app. exact IH.
  - exact IH.
Qed.

Definition key_is {A} (k : nat) (p : nat * A) : bool := Nat.eqb (fst p) k.

Lemma partition_keys {A} n (l : list (nat * A)) :
  Permutation (filter (fun p => fst p <? n) l) (flat_map (fun k => filter (key_is k) l) (seq 0 n)).
Proof.
  induction n as [|n IH].
  - cbn. replace (filter _ l) with (@nil (nat * A)); [constructor|].
    induction l as [|x l IHl]; cbn; [reflexivity|exact IHl].
  - rewrite seq_S, flat_map_app. cbn [flat_map Nat.add]. rewrite app_nil_r.
    rewrite (filter_ext (fun p => fst p <? S n) (fun p => (fst p <? n) || key_is n p)).
    + etransitivity; [apply filter_or_perm|apply Permutation_app_tail; exact IH].
      intros x. unfold key_is. destruct (fst x <? n) eqn:E1, (fst x =? n) eqn:E2; try reflexivity.
      apply Nat.ltb_lt in E1. apply Nat.eqb_eq in E2. lia.
    + intros x. unfold key_is. destruct (fst x <? S n) eqn:E0, (fst x <? n) eqn:E1, (fst x =? n) eqn:E2; try reflexivity;
        rewrite ?Nat.ltb_lt, ?Nat.ltb_ge, ?Nat.eqb_eq, ?Nat.eqb_neq in *; lia.
Qed.

Lemma filter_all {A} (p : A -> bool) l : (forall x, In x l -> p x = true) -> filter p l = l.
Proof.
  induction l as [|x l IH]; intros H; cbn; [reflexivity|].
  rewrite (H x (or_introl eq_refl)). f_equal. apply IH. intros y Hy. apply H. right. exact Hy.
Qed.

Definition bound {A} (l : list (nat * A)) : nat := fold_right (fun p m => Nat.max (S (fst p)) m) 0 l.

Lemma bound_spec {A} (l : list (nat * A)) p : In p l -> fst p < bound l.
Proof. unfold bound. induction l as [|x l IH]; intros H; [destruct H|]. destruct H as [<-|H]; cbn [fold_right]; [lia|]. specialize (IH H). lia. Qed.

Lemma filter_key_by_key {A} k (l : list (nat * A)) : filter (key_is k) l = map (pair k) (by_key k l).
Proof.
  unfold by_key, key_is. induction l as [|(a, x) l IH]; cbn; [reflexivity|].
  destruct (Nat.eqb a k) eqn:E; cbn; [|exact IH]. apply Nat.eqb_eq in E. subst. f_equal. exact IH.
Qed.

Lemma keyed_perm {A} (a b : list (nat * A)) : (forall j, by_key j a = by_key j b) -> Permutation a b.
Proof.
  intros H. set (n := Nat.max (bound a) (bound b)).
  rewrite <- (filter_all (fun p => fst p <? n) a), <- (filter_all (fun p => fst p <? n) b).
  - rewrite !partition_keys. erewrite flat_map_ext; [reflexivity|].
    intros k. rewrite !filter_key_by_key, H. reflexivity.
  - intros x Hx. apply Nat.ltb_lt. pose proof (bound_spec _ _ Hx). lia.
  - intros x Hx. apply Nat.ltb_lt. pose proof (bound_spec _ _ Hx). lia.
Qed.

Lemma payloads_tags l (prog : nat -> list val) :
  payloads (flat_map (fun i => tag i (prog i)) l) = flat_map prog l.
Proof.
  unfold payloads. induction l as [|i l IH]; [reflexivity|]. simpl flat_map. rewrite map_app, IH. f_equal.
  unfold tag. rewrite map_map. cbn. apply map_id.
Qed.

Lemma from_is_filter_key i (l : list msg) : from i l = filter (key_is i) l.
Proof. reflexivity. Qed.

(* n senders; everything sent, queue drained, no iteration in progress: the scripts were handed exactly
   the multiset of values of the senders' programs *)
Theorem guarded_multiset prog c sch s n :
  run (init c prog) sch = Some s -> exclusive (init c prog) sch = true ->
  buf s = [] -> iters s = [] -> (forall i, todo s i = []) -> (forall i, n <= i -> prog i = []) ->
  Permutation (payloads (map snd (delivered (seen s)))) (flat_map prog (seq 0 n)).
Proof.
  intros R G B P T Z. destruct (guarded_delivery _ _ _ _ R G B P) as (F & D & _).
  assert (F' : forall i, from i (map snd (deq s)) = tag i (prog i)).
  { intros i. specialize (F i). rewrite T in F. unfold tag in F at 1. cbn in F. rewrite app_nil_r in F. exact F. }
  assert (Pd : Permutation (delivered (seen s)) (deq s)) by (apply keyed_perm; exact D).
  unfold payloads. rewrite Pd. fold (payloads (map snd (deq s))).
  rewrite <- payloads_tags. unfold payloads. apply Permutation_map.
  rewrite <- (filter_all (fun p => fst p <? n) (map snd (deq s))).
  - rewrite partition_keys. erewrite flat_map_ext; [reflexivity|].
    intros i. rewrite <- from_is_filter_key. apply F'.
  - intros m Hm. apply Nat.ltb_lt. destruct (Nat.lt_ge_cases (fst m) n) as [L|L]; [exact L|exfalso].
    assert (Hin : In m (from (fst m) (map snd (deq s)))).
    { unfold from. apply filter_In. split; [exact Hm|apply Nat.eqb_refl]. }
    rewrite F', (Z _ L) in Hin. exact Hin.
Qed.

Theorem one_step_multiset prog c sch s n :
  run (init c prog) sch = Some s -> one_step_only sch = true ->
  buf s = [] -> iters s = [] -> (forall i, todo s i = []) -> (forall i, n <= i -> prog i = []) ->
  Permutation (payloads (map snd (delivered (seen s)))) (flat_map prog (seq 0 n)).
Proof.
  intros R O B P T Z. apply (guarded_multiset prog c sch s n R); try assumption.
  apply one_step_exclusive; [exact O|reflexivity].
Qed.

(* ------------------------------------------------------------------ 9. range loops (Take / Fin = Chan.NextEntry) end at close *)

Lemma take_closed_drained s j :
  closed s = true -> buf s = [] -> busy j s = false ->
  step s (Take j) = Some (note s (EvIterEnd j), EvIterEnd j).
Proof. intros C B M. cbn. rewrite M, B, C. reflexivity. Qed.

Lemma take_end_only_when s j s' :
  step s (Take j) = Some (s', EvIterEnd j) -> closed s = true /\ buf s = [] /\ s' = note s (EvIterEnd j).
Proof.
  cbn. destruct (busy j s); [discriminate|]. destruct (buf s); [|discriminate].
  destruct (closed s); [|discriminate]. intros [= <-]. repeat split.
Qed.

(* when a range loop ends: the channel is closed, everything that was sent has been released, and the loop
   has been handed everything the channel released to it - under every schedule of sends, receives and ranges *)
Theorem range_complete prog c sch s j s' :
  run (init c prog) sch = Some s -> one_step_only sch = true ->
  step s (Take j) = Some (s', EvIterEnd j) ->
  closed s = true /\
  (forall i, from i (map snd (deq s)) ++ tag i (todo s i) = tag i (prog i)) /\
  by_key j (delivered (seen s)) = by_key j (deq s).
Proof.
  intros R O H. pose proof (fifo_all_schedules _ _ _ _ R) as I.
  assert (G : exclusive (init c prog) sch = true) by (apply one_step_exclusive; [exact O|reflexivity]).
  destruct (exclusive_exactly_once _ _ _ _ R G) as (A & _).
  assert (M : busy j s = false) by (cbn in H; destruct (busy j s); [discriminate|reflexivity]).
  destruct (take_end_only_when _ _ _ H) as (C & B & _). repeat split.
  - exact C.
  - intros i. specialize (I i). rewrite B, app_nil_r in I. exact I.
  - specialize (A j). unfold held in A. apply busy_false in M. rewrite M, app_nil_r in A. symmetry. exact A.
Qed.
