(* Stage B, part 2: the reference semantics Sem.run on straight-line programs over top-level variables computes
   exactly [run_stmts]. *)
From Coq Require Import List ZArith NArith Bool Arith Lia.
Require Import RV.model.Syntax RV.model.Sem RV.proofs.SemScalarProofs.
Require RV.model.ScalarFrag RV.model.VarProg RV.proofs.VarProgFacts.
Module P := RV.model.VarProg.
Module PF := RV.proofs.VarProgFacts.
Import ListNotations.
Local Open Scope nat_scope.

Lemma eval_NVar f e s name v : eval (S f) e s (NVar name v) =
  match eval f e s v with
  | (OVal x, e1, s1) => let '(l, s2) := alloc s1 x in (OVal VNil, bind_name e1 name l false, s2)
  | other => other
  end.
Proof. reflexivity. Qed.

Lemma eval_NAssign_eq f e s name v : eval (S f) e s (NAssign name [61%N] v) =
  match eval f e s v with
  | (OVal x, e1, s1) =>
      match (match lookup e1 name with Some (l, _) => Some (set_store s1 l x) | None => None end) with
      | Some s2 => (OVal VNil, e1, s2)
      | None => (OErr XUndefined, e1, s1)
      end
  | other => other
  end.
Proof. reflexivity. Qed.

(* the statement loop and the block of Sem.eval, as standalone functions of the evaluator one fuel level down *)
Definition es_loop (f : nat) : env -> state -> list node -> value -> outcome * env * state :=
  fix es (e : env) (s : state) (l : list node) (last : value) : outcome * env * state :=
    match l with
    | [] => (OVal last, e, s)
    | x :: r => match eval f e s x with
                | (OVal v, e', s') => es e' s' r (if is_expression x then v else VNil)
                | other => other
                end
    end.
Definition eblock (f : nat) (e : env) (s : state) (l : list node) : outcome * env * state :=
  match es_loop f ([] :: e) s l VNil with (o, _, s') => (o, e, s') end.

Lemma eval_NIf f e s c cns al : eval (S f) e s (NIf c cns (Some al)) =
  match eval f e s c with
  | (OVal v, e1, s1) => if truthy s1 v then eblock f e1 s1 cns else eblock f e1 s1 al
  | other => other
  end.
Proof. reflexivity. Qed.

Lemma sbeq_refl (a : list N) : beq a a = true.
Proof. unfold beq. destruct (list_eq_dec N.eq_dec a a); [reflexivity|contradiction]. Qed.
Lemma sbeq_neq (a b : list N) : a <> b -> beq a b = false.
Proof. intros H. unfold beq. destruct (list_eq_dec N.eq_dec a b); [contradiction|reflexivity]. Qed.

Lemma nth_list_set_same (A : Type) (l : list A) i v d : i < length l -> nth i (list_set l i v) d = v.
Proof. revert i; induction l as [|x l IH]; intros [|i] H; cbn in *; try lia; [reflexivity|apply IH; lia]. Qed.
Lemma nth_list_set_other (A : Type) (l : list A) i j v d : i <> j -> nth j (list_set l i v) d = nth j l d.
Proof. revert i j; induction l as [|x l IH]; intros [|i] [|j] H; cbn; try reflexivity; try lia. apply IH. lia. Qed.
Lemma length_list_set (A : Type) (l : list A) i v : length (list_set l i v) = length l.
Proof. revert i; induction l as [|x l IH]; intros [|i]; cbn; auto. Qed.

Section Names.
  Variable names : list (list N).
  Hypothesis names_nodup : NoDup names.
  Hypothesis names_nonempty : Forall (fun nm => nm <> []) names.

  Lemma names_distinct i j : i < length names -> j < length names -> i <> j -> nth i names [] <> nth j names [].
  Proof. intros Hi Hj Hne Heq. apply Hne. exact (proj1 (NoDup_nth names []) names_nodup i j Hi Hj Heq). Qed.
  Lemma name_nonempty i : i < length names -> nth i names [] <> [].
  Proof. intros Hi. exact (proj1 (Forall_forall _ names) names_nonempty _ (nth_In names [] Hi)). Qed.

  (* the environment and the store after the variables rho have been declared *)
  Definition sem_inv (rho : list F.sval) (e : env) (s : state) : Prop :=
    length rho <= length names /\
    e <> [] /\
    length (store s) = 2 + length rho /\
    forall i, i < length rho ->
      lookup e (nth i names []) = Some (2 + i, false) /\ nth (2 + i) (store s) VNil = inj (nth i rho F.VNil).

  Lemma sem_inv_env_ok rho e s : sem_inv rho e s -> env_ok names rho e s.
  Proof.
    intros [Hl [_ [_ H]]] i v Hi.
    assert (Hlt : i < length rho) by (apply nth_error_Some; congruence).
    split; [apply name_nonempty; lia|].
    destruct (H i Hlt) as [Hk Hv]. exists (2 + i), false. split; [exact Hk|].
    rewrite Hv. rewrite (nth_error_nth rho i F.VNil Hi). reflexivity.
  Qed.

  Lemma sem_inv_init : sem_inv [] ([] :: global_env) init_state.
  Proof. split; [cbn; lia|]. split; [discriminate|]. split; [reflexivity|]. intros i Hi. cbn in Hi. lia. Qed.

  Lemma lookup_bind_same e nm l c : e <> [] -> lookup (bind_name e nm l c) nm = Some (l, c).
  Proof. destruct e as [|sc r]; [contradiction|]. intros _. cbn. rewrite sbeq_refl. reflexivity. Qed.
  Lemma lookup_bind_other e nm nm' l c : e <> [] -> nm' <> nm -> lookup (bind_name e nm l c) nm' = lookup e nm'.
  Proof. destruct e as [|sc r]; [contradiction|]. intros _ H. cbn. rewrite (sbeq_neq nm' nm H). reflexivity. Qed.
  Lemma bind_nonempty e nm l c : bind_name e nm l c <> [].
  Proof. destruct e; discriminate. Qed.

  (* declaring the next variable *)
  Lemma sem_inv_decl rho e s v : sem_inv rho e s -> length rho < length names ->
    sem_inv (rho ++ [v]) (bind_name e (nth (length rho) names []) (length (store s)) false) (snd (alloc s (inj v))).
  Proof.
    intros [Hl [Hne [Hst H]]] Hlt. unfold sem_inv, alloc. cbn [snd store].
    split; [rewrite app_length; cbn; lia|]. split; [apply bind_nonempty|].
    split; [rewrite !app_length; cbn; lia|].
    intros i Hi. rewrite app_length in Hi. cbn in Hi.
    destruct (Nat.eq_dec i (length rho)) as [->|Hd].
    - rewrite lookup_bind_same by exact Hne. rewrite Hst. split; [reflexivity|].
      rewrite app_nth2 by lia. rewrite Hst, Nat.sub_diag. rewrite app_nth2 by lia. rewrite Nat.sub_diag. reflexivity.
    - assert (Hi' : i < length rho) by lia.
      rewrite lookup_bind_other by (try exact Hne; apply names_distinct; lia).
      destruct (H i Hi') as [Hk Hv]. split; [exact Hk|].
      rewrite app_nth1 by lia. rewrite Hv. rewrite app_nth1 by lia. reflexivity.
  Qed.

  (* assigning to a declared variable *)
  Lemma sem_inv_set rho e s i v : sem_inv rho e s -> i < length rho ->
    sem_inv (P.set_nth i v rho) e (set_store s (2 + i) (inj v)).
  Proof.
    intros [Hl [Hne [Hst H]]] Hi. unfold sem_inv, set_store. cbn [store].
    split; [rewrite PF.set_nth_length; exact Hl|]. split; [exact Hne|].
    split; [rewrite length_list_set, PF.set_nth_length; exact Hst|].
    intros j Hj. rewrite PF.set_nth_length in Hj. destruct (H j Hj) as [Hk Hv]. split; [exact Hk|].
    destruct (Nat.eq_dec j i) as [->|Hd].
    - rewrite nth_list_set_same by lia. rewrite PF.nth_set_nth_same by lia. reflexivity.
    - rewrite nth_list_set_other by lia. rewrite PF.nth_set_nth_other by lia. exact Hv.
  Qed.

  (* entering and leaving a block: an empty scope on top changes nothing the invariant talks about *)
  Lemma sem_inv_push rho e s : sem_inv rho e s -> sem_inv rho ([] :: e) s.
  Proof. intros [Hl [Hne [Hst H]]]. split; [exact Hl|]. split; [discriminate|]. split; [exact Hst|]. exact H. Qed.
  Lemma sem_inv_pop rho e s : e <> [] -> sem_inv rho ([] :: e) s -> sem_inv rho e s.
  Proof. intros Hne [Hl [_ [Hst H]]]. split; [exact Hl|]. split; [exact Hne|]. split; [exact Hst|]. exact H. Qed.

  (* ---------------------------------------------------------------- the statements of a branch *)
  Lemma eval_simple rho e s m f :
    sem_inv rho e s -> P.wf_simple (length rho) m = true -> F.height (P.simple_exp m) <= f ->
    match P.run_simple rho m with
    | inr x => exists s', eval (S f) e s (P.embed_simple names m) = (lift (inr x), e, s')
    | inl (rho', v) => exists s', eval (S f) e s (P.embed_simple names m) = (OVal (inj v), e, s') /\ sem_inv rho' e s'
    end.
  Proof.
    intros Hinv Hwf Hf. pose proof (sem_inv_env_ok rho e s Hinv) as Henv.
    destruct m as [i x|x]; cbn [P.embed_simple P.wf_simple P.simple_exp P.run_simple] in *.
    - apply andb_true_iff in Hwf. destruct Hwf as [Hi Hwf]. apply Nat.ltb_lt in Hi.
      rewrite eval_NAssign_eq, (sem_scalar names rho x f e s Hf Hwf Henv).
      destruct (F.sev rho x) as [v|[|]]; cbn [lift]; try (eexists; reflexivity).
      destruct Hinv as [Hl [Hne [Hst H]]]. destruct (H i Hi) as [Hlk _]. rewrite Hlk.
      eexists. split; [reflexivity|].
      exact (sem_inv_set rho e s i v (conj Hl (conj Hne (conj Hst H))) Hi).
    - rewrite (sem_scalar names rho x (S f) e s ltac:(lia) Hwf Henv).
      destruct (F.sev rho x) as [v|[|]]; cbn [lift]; try (eexists; reflexivity).
      exists s. split; [reflexivity|exact Hinv].
  Qed.

  Lemma simple_last m v : (if is_expression (P.embed_simple names m) then inj v else VNil) =
                          inj (match m with P.MExpr _ => v | _ => F.VNil end).
  Proof. destruct m; cbn [P.embed_simple]; [reflexivity|rewrite PF.embed_is_expression; reflexivity]. Qed.

  Lemma run_simple_value rho m rho' v : P.run_simple rho m = inl (rho', v) ->
    v = match m with P.MExpr _ => v | _ => F.VNil end.
  Proof. destruct m as [i x|x]; cbn [P.run_simple]; destruct (F.sev rho x); intros H; inversion H; reflexivity. Qed.

  Lemma es_simples f : forall l rho e s last,
    sem_inv rho e s -> forallb (P.wf_simple (length rho)) l = true -> P.simples_height l <= f ->
    match P.run_simples rho l last with
    | inr x => exists e' s', es_loop (S f) e s (map (P.embed_simple names) l) (inj last) = (lift (inr x), e', s')
    | inl (rho', v) => exists s', es_loop (S f) e s (map (P.embed_simple names) l) (inj last) = (OVal (inj v), e, s') /\
                                  sem_inv rho' e s'
    end.
  Proof.
    induction l as [|m r IH]; intros rho e s last Hinv Hwf Hh.
    - exists s. split; [reflexivity|exact Hinv].
    - cbn [forallb] in Hwf. apply andb_true_iff in Hwf. destruct Hwf as [Hw0 Hwr].
      change (P.simples_height (m :: r)) with (Nat.max (F.height (P.simple_exp m)) (P.simples_height r)) in Hh.
      rewrite PF.run_simples_cons. cbn [map es_loop]. fold (es_loop (S f)).
      pose proof (eval_simple rho e s m f Hinv Hw0 ltac:(lia)) as He.
      destruct (P.run_simple rho m) as [[rho1 v1]|x] eqn:Er.
      + destruct He as [s1 [He Hinv1]]. rewrite He, simple_last.
        rewrite <- (run_simple_value rho m rho1 v1 Er).
        rewrite <- (PF.run_simple_length rho m rho1 v1 Er) in Hwr.
        exact (IH rho1 e s1 v1 Hinv1 Hwr ltac:(lia)).
      + destruct He as [s1 He]. rewrite He. exists e, s1. destruct x; reflexivity.
  Qed.

  Lemma eblock_simples f l rho e s :
    sem_inv rho e s -> forallb (P.wf_simple (length rho)) l = true -> P.simples_height l <= f ->
    match P.run_simples rho l F.VNil with
    | inr x => exists s', eblock (S f) e s (map (P.embed_simple names) l) = (lift (inr x), e, s')
    | inl (rho', v) => exists s', eblock (S f) e s (map (P.embed_simple names) l) = (OVal (inj v), e, s') /\ sem_inv rho' e s'
    end.
  Proof.
    intros Hinv Hwf Hh. unfold eblock.
    pose proof (es_simples f l rho ([] :: e) s F.VNil (sem_inv_push rho e s Hinv) Hwf Hh) as H.
    destruct Hinv as [Hl [Hne Hrest]].
    destruct (P.run_simples rho l F.VNil) as [[rho' v]|x].
    - destruct H as [s' [H Hinv']]. change (inj F.VNil) with VNil in H. rewrite H.
      exists s'. split; [reflexivity|exact (sem_inv_pop rho' e s' Hne Hinv')].
    - destruct H as [e' [s' H]]. change (inj F.VNil) with VNil in H. rewrite H. exists s'. reflexivity.
  Qed.

  (* ---------------------------------------------------------------- one top-level statement *)
  Lemma eval_stmt rho e s st f :
    sem_inv rho e s -> PF.wf_stmt (length rho) st = true -> PF.next_k (length rho) st <= length names ->
    P.stmt_height st <= f ->
    match P.run_stmt rho st with
    | inr x => exists e' s', eval (S f) e s (PF.embed_stmt names (length rho) st) = (lift (inr x), e', s')
    | inl (rho', v) => exists e' s',
        eval (S f) e s (PF.embed_stmt names (length rho) st) = (OVal (inj v), e', s') /\ sem_inv rho' e' s'
    end.
  Proof.
    intros Hinv Hwf Hk Hf. pose proof (sem_inv_env_ok rho e s Hinv) as Henv.
    destruct st as [x|i x|x|c t el]; cbn [PF.embed_stmt PF.wf_stmt PF.next_k P.stmt_height P.run_stmt] in *.
    - (* x := e *)
      rewrite eval_NVar, (sem_scalar names rho x f e s Hf Hwf Henv).
      destruct (F.sev rho x) as [v|[|]]; cbn [lift]; try (eexists; eexists; reflexivity).
      eexists. eexists. split; [reflexivity|].
      destruct Hinv as [Hl [Hne [Hst H]]].
      exact (sem_inv_decl rho e s v (conj Hl (conj Hne (conj Hst H))) ltac:(lia)).
    - (* x = e *)
      pose proof (eval_simple rho e s (P.MSet i x) f Hinv Hwf Hf) as H. cbn [P.run_simple P.embed_simple] in H.
      destruct (F.sev rho x) as [v|xx].
      + destruct H as [s' [H Hinv']]. exists e, s'. split; assumption.
      + destruct H as [s' H]. exists e, s'. exact H.
    - (* e *)
      pose proof (eval_simple rho e s (P.MExpr x) f Hinv Hwf Hf) as H. cbn [P.run_simple P.embed_simple] in H.
      destruct (F.sev rho x) as [v|xx].
      + destruct H as [s' [H Hinv']]. exists e, s'. split; assumption.
      + destruct H as [s' H]. exists e, s'. exact H.
    - (* if *)
      apply andb_true_iff in Hwf. destruct Hwf as [Hwct Hwe]. apply andb_true_iff in Hwct. destruct Hwct as [Hwc Hwt].
      destruct f as [|f]; [lia|]. destruct f as [|f]; [lia|].
      rewrite eval_NIf, (sem_scalar names rho c (S (S f)) e s ltac:(lia) Hwc Henv).
      destruct (F.sev rho c) as [vc|[|]]; cbn [lift]; try (eexists; eexists; reflexivity).
      rewrite truthy_inj.
      destruct (F.struthy vc).
      + pose proof (eblock_simples (S f) t rho e s Hinv Hwt ltac:(lia)) as H.
        destruct (P.run_simples rho t F.VNil) as [[rho' v]|xx].
        * destruct H as [s' [H Hinv']]. exists e, s'. split; assumption.
        * destruct H as [s' H]. exists e, s'. exact H.
      + pose proof (eblock_simples (S f) el rho e s Hinv Hwe ltac:(lia)) as H.
        destruct (P.run_simples rho el F.VNil) as [[rho' v]|xx].
        * destruct H as [s' [H Hinv']]. exists e, s'. split; assumption.
        * destruct H as [s' H]. exists e, s'. exact H.
  Qed.

  (* ---------------------------------------------------------------- the statement loop of Sem.run *)
  Definition go_loop (fuel : nat) : env -> state -> list node -> value -> outcome * state :=
    fix go (e : env) (s : state) (l : list node) (last : value) : outcome * state :=
      match l with
      | [] => (OVal last, s)
      | x :: r => match eval fuel e s x with
                  | (OVal v, e', s') => go e' s' r (if is_expression x then v else VNil)
                  | (o, _, s') => (o, s')
                  end
      end.

  Lemma run_stmt_value rho st rho' v : P.run_stmt rho st = inl (rho', v) ->
    (if is_expression (PF.embed_stmt names (length rho) st) then inj v else VNil) = inj v.
  Proof.
    destruct st as [x|i x|x|c t el]; cbn [P.run_stmt PF.embed_stmt].
    - destruct (F.sev rho x); intros H; inversion H; reflexivity.
    - destruct (F.sev rho x); intros H; inversion H; reflexivity.
    - intros _. rewrite PF.embed_is_expression. reflexivity.
    - intros _. reflexivity.
  Qed.

  Lemma go_program f : forall l rho e s last,
    sem_inv rho e s -> P.wf_stmts (length rho) l = true -> length rho + P.ndecls l <= length names ->
    P.max_height l <= f ->
    fst (go_loop (S f) e s (P.embed_stmts names (length rho) l) (inj last)) = lift (P.run_stmts rho l last).
  Proof.
    induction l as [|st r IH]; intros rho e s last Hinv Hwf Hn Hh; [reflexivity|].
    rewrite PF.wf_stmts_cons in Hwf. apply andb_true_iff in Hwf. destruct Hwf as [Hws Hwr].
    rewrite PF.max_height_cons in Hh. rewrite PF.embed_stmts_cons, PF.run_stmts_cons.
    assert (Hnk : PF.next_k (length rho) st <= length names) by (rewrite <- PF.ndecls_cons in Hn; lia).
    pose proof (eval_stmt rho e s st f Hinv Hws Hnk ltac:(lia)) as He.
    cbn [go_loop]. fold (go_loop (S f)).
    destruct (P.run_stmt rho st) as [[rho' v]|x] eqn:Er.
    - destruct He as [e' [s' [He Hinv']]]. rewrite He, (run_stmt_value rho st rho' v Er).
      pose proof (PF.run_stmt_length rho st rho' v Er) as Hlen.
      rewrite <- Hlen. apply IH; [exact Hinv'|rewrite Hlen; exact Hwr|rewrite Hlen, PF.ndecls_cons; exact Hn|lia].
    - destruct He as [e' [s' He]]. rewrite He. destruct x; reflexivity.
  Qed.

  Lemma predeclare_none : forall l k acc,
    fold_left (fun acc st =>
                 match st with
                 | NFunc (Some nm) _ _ _ => let '(e, s) := acc in let '(l, s') := alloc s VNil in (bind_name e nm l true, s')
                 | _ => acc end) (P.embed_stmts names k l) acc = acc.
  Proof.
    induction l as [|st r IH]; intros k acc; [reflexivity|].
    rewrite PF.embed_stmts_cons. cbn [fold_left].
    destruct st as [x|i x|x|c t el]; cbn [PF.embed_stmt]; try apply IH.
    destruct x; cbn [F.embed]; apply IH.
  Qed.

  Theorem sem_var_program l f :
    P.wf_stmts 0 l = true -> P.ndecls l <= length names -> P.max_height l <= f ->
    fst (Sem.run (S f) (P.embed_stmts names 0 l)) = lift (P.run_stmts [] l F.VNil).
  Proof.
    intros Hwf Hn Hh. unfold Sem.run. rewrite predeclare_none.
    exact (go_program f l [] ([] :: global_env) init_state F.VNil sem_inv_init Hwf Hn Hh).
  Qed.
End Names.
