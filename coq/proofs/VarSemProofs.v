(* Stages B-D, part 2: the reference semantics Sem.run on programs over top-level variables (conditionals and condition
   loops nested to any depth) computes exactly [run_stmts], whenever the latter's fuel suffices. *)
From Coq Require Import List ZArith NArith Bool Arith Lia.
Require Import RV.model.Syntax RV.model.Sem RV.proofs.SemScalarProofs.
Require RV.model.ScalarFrag RV.model.VarProg RV.proofs.VarProgFacts.
Module P := RV.model.VarProg.
Module PF := RV.proofs.VarProgFacts.
Import ListNotations.
Local Open Scope nat_scope.

Lemma eval_NVar f e s name v : eval (S f) e s (NVar name v) =
  match eval f e s v with
  | (OVal x, e1, s1) => let '(l, s2) := alloc s1 x in (OVal VNil, bind_name e1 name l false, s2)
  | other => other
  end.
Proof. reflexivity. Qed.

Lemma eval_NAssign_eq f e s name v : eval (S f) e s (NAssign name [61%N] v) =
  match eval f e s v with
  | (OVal x, e1, s1) =>
      match (match lookup e1 name with Some (l, _) => Some (set_store s1 l x) | None => None end) with
      | Some s2 => (OVal VNil, e1, s2)
      | None => (OErr XUndefined, e1, s1)
      end
  | other => other
  end.
Proof. reflexivity. Qed.

(* the statement loop and the block of Sem.eval, as standalone functions of the evaluator one fuel level down *)
Definition es_loop (f : nat) : env -> state -> list node -> value -> outcome * env * state :=
  fix es (e : env) (s : state) (l : list node) (last : value) : outcome * env * state :=
    match l with
    | [] => (OVal last, e, s)
    | x :: r => match eval f e s x with
                | (OVal v, e', s') => es e' s' r (if is_expression x then v else VNil)
                | other => other
                end
    end.
Definition eblock (f : nat) (e : env) (s : state) (l : list node) : outcome * env * state :=
  match es_loop f ([] :: e) s l VNil with (o, _, s') => (o, e, s') end.

Lemma eval_NIf f e s c cns al : eval (S f) e s (NIf c cns (Some al)) =
  match eval f e s c with
  | (OVal v, e1, s1) => if truthy s1 v then eblock f e1 s1 cns else eblock f e1 s1 al
  | other => other
  end.
Proof. reflexivity. Qed.

(* the condition loop of Sem.eval, as a standalone function of the evaluator one fuel level down *)
Definition wloop (f : nat) (e : env) (c : node) (body : list node) : nat -> state -> outcome * env * state :=
  fix lp (k : nat) (s : state) : outcome * env * state :=
    match k with
    | O => (OErr XFuel, e, s)
    | S k' =>
        match eval f ([] :: e) s c with
        | (OVal cv, _, s1) =>
            if truthy s1 cv then
              match eblock f ([] :: e) s1 body with
              | (OVal _, _, s') | (OCont, _, s') => lp k' s'
              | (OBrk, _, s') => (OVal VNil, e, s')
              | (o, _, s') => (o, e, s')
              end
            else (OVal VNil, e, s1)
        | (o, _, s1) => (o, e, s1)
        end
    end.
Lemma eval_NFor_cond names f e s c body : eval (S f) e s (NFor (Some (F.embed names c)) None None body) =
  wloop f e (F.embed names c) body f s.
Proof. destruct c; reflexivity. Qed.

Lemma eval_NIf1 f e s c cns : eval (S f) e s (NIf c cns None) =
  match eval f e s c with
  | (OVal v, e1, s1) => if truthy s1 v then eblock f e1 s1 cns else (OVal VNil, e1, s1)
  | other => other
  end.
Proof. reflexivity. Qed.

Lemma sbeq_refl (a : list N) : beq a a = true.
Proof. unfold beq. destruct (list_eq_dec N.eq_dec a a); [reflexivity|contradiction]. Qed.
Lemma sbeq_neq (a b : list N) : a <> b -> beq a b = false.
Proof. intros H. unfold beq. destruct (list_eq_dec N.eq_dec a b); [contradiction|reflexivity]. Qed.

Lemma nth_list_set_same (A : Type) (l : list A) i v d : i < length l -> nth i (list_set l i v) d = v.
Proof. revert i; induction l as [|x l IH]; intros [|i] H; cbn in *; try lia; [reflexivity|apply IH; lia]. Qed.
Lemma nth_list_set_other (A : Type) (l : list A) i j v d : i <> j -> nth j (list_set l i v) d = nth j l d.
Proof. revert i j; induction l as [|x l IH]; intros [|i] [|j] H; cbn; try reflexivity; try lia. apply IH. lia. Qed.
Lemma length_list_set (A : Type) (l : list A) i v : length (list_set l i v) = length l.
Proof. revert i; induction l as [|x l IH]; intros [|i]; cbn; auto. Qed.

Section Names.
  Variable names : list (list N).
  Hypothesis names_nodup : NoDup names.
  Hypothesis names_nonempty : Forall (fun nm => nm <> []) names.

  Lemma names_distinct i j : i < length names -> j < length names -> i <> j -> nth i names [] <> nth j names [].
  Proof. intros Hi Hj Hne Heq. apply Hne. exact (proj1 (NoDup_nth names []) names_nodup i j Hi Hj Heq). Qed.
  Lemma name_nonempty i : i < length names -> nth i names [] <> [].
  Proof. intros Hi. exact (proj1 (Forall_forall _ names) names_nonempty _ (nth_In names [] Hi)). Qed.

  (* the environment and the store after the variables rho have been declared *)
  Definition sem_inv (rho : list F.sval) (e : env) (s : state) : Prop :=
    length rho <= length names /\
    e <> [] /\
    length (store s) = 2 + length rho /\
    forall i, i < length rho ->
      lookup e (nth i names []) = Some (2 + i, false) /\ nth (2 + i) (store s) VNil = inj (nth i rho F.VNil).

  Lemma sem_inv_env_ok rho e s : sem_inv rho e s -> env_ok names rho e s.
  Proof.
    intros [Hl [_ [_ H]]] i v Hi.
    assert (Hlt : i < length rho) by (apply nth_error_Some; congruence).
    split; [apply name_nonempty; lia|].
    destruct (H i Hlt) as [Hk Hv]. exists (2 + i), false. split; [exact Hk|].
    rewrite Hv. rewrite (nth_error_nth rho i F.VNil Hi). reflexivity.
  Qed.

  Lemma sem_inv_init : sem_inv [] ([] :: global_env) init_state.
  Proof. split; [cbn; lia|]. split; [discriminate|]. split; [reflexivity|]. intros i Hi. cbn in Hi. lia. Qed.

  Lemma lookup_bind_same e nm l c : e <> [] -> lookup (bind_name e nm l c) nm = Some (l, c).
  Proof. destruct e as [|sc r]; [contradiction|]. intros _. cbn. rewrite sbeq_refl. reflexivity. Qed.
  Lemma lookup_bind_other e nm nm' l c : e <> [] -> nm' <> nm -> lookup (bind_name e nm l c) nm' = lookup e nm'.
  Proof. destruct e as [|sc r]; [contradiction|]. intros _ H. cbn. rewrite (sbeq_neq nm' nm H). reflexivity. Qed.
  Lemma bind_nonempty e nm l c : bind_name e nm l c <> [].
  Proof. destruct e; discriminate. Qed.

  (* declaring the next variable *)
  Lemma sem_inv_decl rho e s v : sem_inv rho e s -> length rho < length names ->
    sem_inv (rho ++ [v]) (bind_name e (nth (length rho) names []) (length (store s)) false) (snd (alloc s (inj v))).
  Proof.
    intros [Hl [Hne [Hst H]]] Hlt. unfold sem_inv, alloc. cbn [snd store].
    split; [rewrite app_length; cbn; lia|]. split; [apply bind_nonempty|].
    split; [rewrite !app_length; cbn; lia|].
    intros i Hi. rewrite app_length in Hi. cbn in Hi.
    destruct (Nat.eq_dec i (length rho)) as [->|Hd].
    - rewrite lookup_bind_same by exact Hne. rewrite Hst. split; [reflexivity|].
      rewrite app_nth2 by lia. rewrite Hst, Nat.sub_diag. rewrite app_nth2 by lia. rewrite Nat.sub_diag. reflexivity.
    - assert (Hi' : i < length rho) by lia.
      rewrite lookup_bind_other by (try exact Hne; apply names_distinct; lia).
      destruct (H i Hi') as [Hk Hv]. split; [exact Hk|].
      rewrite app_nth1 by lia. rewrite Hv. rewrite app_nth1 by lia. reflexivity.
  Qed.

  (* assigning to a declared variable *)
  Lemma sem_inv_set rho e s i v : sem_inv rho e s -> i < length rho ->
    sem_inv (P.set_nth i v rho) e (set_store s (2 + i) (inj v)).
  Proof.
    intros [Hl [Hne [Hst H]]] Hi. unfold sem_inv, set_store. cbn [store].
    split; [rewrite PF.set_nth_length; exact Hl|]. split; [exact Hne|].
    split; [rewrite length_list_set, PF.set_nth_length; exact Hst|].
    intros j Hj. rewrite PF.set_nth_length in Hj. destruct (H j Hj) as [Hk Hv]. split; [exact Hk|].
    destruct (Nat.eq_dec j i) as [->|Hd].
    - rewrite nth_list_set_same by lia. rewrite PF.nth_set_nth_same by lia. reflexivity.
    - rewrite nth_list_set_other by lia. rewrite PF.nth_set_nth_other by lia. exact Hv.
  Qed.

  (* entering and leaving a block: an empty scope on top changes nothing the invariant talks about *)
  Lemma sem_inv_push rho e s : sem_inv rho e s -> sem_inv rho ([] :: e) s.
  Proof. intros [Hl [Hne [Hst H]]]. split; [exact Hl|]. split; [discriminate|]. split; [exact Hst|]. exact H. Qed.
  Lemma sem_inv_pop rho e s : e <> [] -> sem_inv rho ([] :: e) s -> sem_inv rho e s.
  Proof. intros Hne [Hl [_ [Hst H]]]. split; [exact Hl|]. split; [exact Hne|]. split; [exact Hst|]. exact H. Qed.

  (* the environment half of the invariant does not depend on the state, the store half not on the environment *)
  Lemma sem_inv_swap rho e s rho' e' s' : sem_inv rho e s -> sem_inv rho' e' s' -> length rho' = length rho ->
    sem_inv rho' e s'.
  Proof.
    intros [Hl [Hne [Hst H]]] [Hl' [Hne' [Hst' H']]] Hlen.
    split; [exact Hl'|]. split; [exact Hne|]. split; [exact Hst'|].
    intros i Hi. split; [apply H; lia|apply H'; exact Hi].
  Qed.

  Lemma es_loop_cons f e s x r last : es_loop f e s (x :: r) last =
    match eval f e s x with
    | (OVal v, e', s') => es_loop f e' s' r (if is_expression x then v else VNil)
    | other => other
    end.
  Proof. reflexivity. Qed.
  Lemma wloop_S f e c body k s : wloop f e c body (S k) s =
    match eval f ([] :: e) s c with
    | (OVal cv, _, s1) =>
        if truthy s1 cv then
          match eblock f ([] :: e) s1 body with
          | (OVal _, _, s') | (OCont, _, s') => wloop f e c body k s'
          | (OBrk, _, s') => (OVal VNil, e, s')
          | (o, _, s') => (o, e, s')
          end
        else (OVal VNil, e, s1)
    | (o, _, s1) => (o, e, s1)
    end.
  Proof. reflexivity. Qed.

  (* ---------------------------------------------------------------- statements, lists, blocks, loops *)
  (* what holds of one statement run with source fuel n, evaluated with fuel S f *)
  Definition stmt_sem (n : nat) : Prop :=
    forall st rho e s f top,
      sem_inv rho e s -> P.wf_stmt top (length rho) st = true -> P.next_k (length rho) st <= length names ->
      P.sheight st <= f -> n <= f ->
      match P.run_stmt n rho st with
      | None => True
      | Some (inr x) => exists e' s', eval (S f) e s (P.embed_stmt names (length rho) st) = (lift (inr x), e', s')
      | Some (inl (rho', v)) => exists e' s',
          eval (S f) e s (P.embed_stmt names (length rho) st) = (OVal (inj v), e', s') /\ sem_inv rho' e' s'
      end.

  Lemma stmt_last n rho st rho' v : P.run_stmt n rho st = Some (inl (rho', v)) ->
    (if is_expression (P.embed_stmt names (length rho) st) then inj v else VNil) = inj v.
  Proof.
    intros Hr. rewrite PF.embed_stmt_is_expression. destruct (P.is_expr_stmt st) eqn:E; [reflexivity|].
    rewrite (PF.run_stmt_value n rho st rho' v Hr E). reflexivity.
  Qed.

  Lemma es_list n f : stmt_sem n -> n <= f -> forall l rho e s last top,
    sem_inv rho e s -> P.wf_stmts top (length rho) l = true -> length rho + P.ndecls l <= length names ->
    P.max_height l <= f ->
    match P.run_stmts n rho l last with
    | None => True
    | Some (inr x) => exists e' s', es_loop (S f) e s (P.embed_stmts names (length rho) l) (inj last) = (lift (inr x), e', s')
    | Some (inl (rho', v)) => exists e' s',
        es_loop (S f) e s (P.embed_stmts names (length rho) l) (inj last) = (OVal (inj v), e', s') /\ sem_inv rho' e' s'
    end.
  Proof.
    intros Hst Hnf. induction l as [|st r IH]; intros rho e s last top Hinv Hwf Hn Hh.
    - cbn. exists e, s. split; [reflexivity|exact Hinv].
    - rewrite PF.wf_stmts_cons in Hwf. apply andb_true_iff in Hwf. destruct Hwf as [Hws Hwr].
      rewrite PF.max_height_cons in Hh. rewrite PF.embed_stmts_cons, PF.run_stmts_cons, es_loop_cons.
      assert (Hnk : P.next_k (length rho) st <= length names) by (rewrite <- PF.ndecls_cons in Hn; lia).
      pose proof (Hst st rho e s f top Hinv Hws Hnk ltac:(lia) Hnf) as He.
      destruct (P.run_stmt n rho st) as [[[rho1 v1]|x]|] eqn:Er; [| |exact Logic.I].
      + destruct He as [e1 [s1 [He Hinv1]]]. rewrite He, (stmt_last n rho st rho1 v1 Er).
        pose proof (PF.run_stmt_length n rho st top rho1 v1 Hws Er) as Hlen.
        rewrite <- Hlen.
        apply (IH rho1 e1 s1 v1 top Hinv1); [rewrite Hlen; exact Hwr|rewrite Hlen, PF.ndecls_cons; exact Hn|lia].
      + destruct He as [e1 [s1 He]]. rewrite He. exists e1, s1. destruct x; reflexivity.
  Qed.

  Lemma eblock_list n f : stmt_sem n -> n <= f -> forall l rho e s,
    sem_inv rho e s -> P.wf_stmts false (length rho) l = true -> P.max_height l <= f ->
    match P.run_stmts n rho l F.VNil with
    | None => True
    | Some (inr x) => exists s', eblock (S f) e s (P.embed_stmts names (length rho) l) = (lift (inr x), e, s')
    | Some (inl (rho', v)) => exists s',
        eblock (S f) e s (P.embed_stmts names (length rho) l) = (OVal (inj v), e, s') /\ sem_inv rho' e s'
    end.
  Proof.
    intros Hst Hnf l rho e s Hinv Hwf Hh. unfold eblock.
    assert (Hn : length rho + P.ndecls l <= length names)
      by (rewrite (PF.wf_false_ndecls _ _ Hwf); destruct Hinv as [Hl _]; lia).
    pose proof (es_list n f Hst Hnf l rho ([] :: e) s F.VNil false (sem_inv_push rho e s Hinv) Hwf Hn Hh) as H.
    destruct (P.run_stmts n rho l F.VNil) as [[[rho' v]|x]|] eqn:Er; [| |exact Logic.I].
    - destruct H as [e' [s' [H Hinv']]]. change (inj F.VNil) with VNil in H. rewrite H.
      exists s'. split; [reflexivity|].
      exact (sem_inv_swap rho e s rho' e' s' Hinv Hinv' (PF.run_stmts_length n l rho F.VNil rho' v Hwf Er)).
    - destruct H as [e' [s' H]]. change (inj F.VNil) with VNil in H. rewrite H. exists s'. reflexivity.
  Qed.

  (* the condition loop: source fuel m, at most k rounds, body evaluated with fuel S f *)
  Lemma wloop_sem f c b e : forall m, (forall j, j < m -> stmt_sem j) -> m <= S f ->
    F.height c <= S f -> P.max_height b <= f ->
    forall k rho s, m <= k -> sem_inv rho e s -> F.wf (length rho) c = true -> P.wf_stmts false (length rho) b = true ->
    match P.run_stmt m rho (P.SWhile c b) with
    | None => True
    | Some (inr x) => exists s', wloop (S f) e (F.embed names c) (P.embed_stmts names (length rho) b) k s = (lift (inr x), e, s')
    | Some (inl (rho', v)) => exists s',
        wloop (S f) e (F.embed names c) (P.embed_stmts names (length rho) b) k s = (OVal VNil, e, s') /\
        sem_inv rho' e s' /\ v = F.VNil
    end.
  Proof.
    induction m as [|m IH]; intros Hst Hmf Hhc Hhb k rho s Hk Hinv Hwc Hwb; [exact Logic.I|].
    destruct k as [|k]; [lia|].
    rewrite PF.run_SWhile, wloop_S.
    pose proof (sem_inv_push rho e s Hinv) as Hinv1.
    rewrite (sem_scalar names rho c (S f) ([] :: e) s Hhc Hwc (sem_inv_env_ok rho ([] :: e) s Hinv1)).
    destruct (F.sev rho c) as [vc|x]; [|exists s; destruct x; reflexivity].
    cbn [lift]. rewrite truthy_inj.
    destruct (F.struthy vc); [|exists s; split; [reflexivity|split; [exact Hinv|reflexivity]]].
    pose proof (eblock_list m f (Hst m ltac:(lia)) ltac:(lia) b rho ([] :: e) s Hinv1 Hwb Hhb) as Hb.
    destruct (P.run_stmts m rho b F.VNil) as [[[rho1 v1]|x]|] eqn:Er; [| |exact Logic.I].
    - destruct Hb as [s1 [Hb Hinv2]]. rewrite Hb.
      pose proof (PF.run_stmts_length m b rho F.VNil rho1 v1 Hwb Er) as Hlen.
      assert (Hinv3 : sem_inv rho1 e s1) by (destruct Hinv as [_ [Hne _]]; exact (sem_inv_pop rho1 e s1 Hne Hinv2)).
      rewrite <- Hlen.
      apply (IH ltac:(intros j Hj; apply Hst; lia) ltac:(lia) Hhc Hhb k rho1 s1 ltac:(lia) Hinv3);
        rewrite Hlen; assumption.
    - destruct Hb as [s1 Hb]. rewrite Hb. exists s1. destruct x; reflexivity.
  Qed.

  Theorem eval_stmt : forall n, stmt_sem n.
  Proof.
    induction n as [n IH] using lt_wf_ind.
    destruct n as [|n]; [intros st rho e s f top _ _ _ _ _; exact Logic.I|].
    intros st rho e s f top Hinv Hwf Hk Hf Hnf. pose proof (sem_inv_env_ok rho e s Hinv) as Henv.
    destruct st as [x|i x|x|c t el|c t|c b].
    - (* x := e *)
      cbn [P.embed_stmt P.wf_stmt P.next_k P.sheight P.run_stmt] in *.
      apply andb_true_iff in Hwf. destruct Hwf as [_ Hwf].
      rewrite eval_NVar, (sem_scalar names rho x f e s Hf Hwf Henv).
      destruct (F.sev rho x) as [v|[|]]; cbn [lift]; try (eexists; eexists; reflexivity).
      eexists. eexists. split; [reflexivity|].
      destruct Hinv as [Hl [Hne [Hst H]]].
      exact (sem_inv_decl rho e s v (conj Hl (conj Hne (conj Hst H))) ltac:(lia)).
    - (* x = e *)
      cbn [P.embed_stmt P.wf_stmt P.next_k P.sheight P.run_stmt] in *.
      apply andb_true_iff in Hwf. destruct Hwf as [Hi Hwf]. apply Nat.ltb_lt in Hi.
      rewrite eval_NAssign_eq, (sem_scalar names rho x f e s Hf Hwf Henv).
      destruct (F.sev rho x) as [v|[|]]; cbn [lift]; try (eexists; eexists; reflexivity).
      destruct Hinv as [Hl [Hne [Hst H]]]. destruct (H i Hi) as [Hlk _]. rewrite Hlk.
      eexists. eexists. split; [reflexivity|].
      exact (sem_inv_set rho e s i v (conj Hl (conj Hne (conj Hst H))) Hi).
    - (* e *)
      cbn [P.embed_stmt P.wf_stmt P.next_k P.sheight P.run_stmt] in *.
      rewrite (sem_scalar names rho x (S f) e s ltac:(lia) Hwf Henv).
      destruct (F.sev rho x) as [v|[|]]; cbn [lift]; try (eexists; eexists; reflexivity).
      exists e, s. split; [reflexivity|exact Hinv].
    - (* if *)
      rewrite PF.wf_SIf in Hwf. apply andb_true_iff in Hwf. destruct Hwf as [Hwct Hwe].
      apply andb_true_iff in Hwct. destruct Hwct as [Hwc Hwt].
      rewrite PF.sheight_SIf in Hf. destruct f as [|f]; [lia|].
      rewrite PF.embed_SIf, PF.run_SIf, eval_NIf, (sem_scalar names rho c (S f) e s ltac:(lia) Hwc Henv).
      destruct (F.sev rho c) as [vc|[|]]; cbn [lift]; try (eexists; eexists; reflexivity).
      rewrite truthy_inj.
      destruct (F.struthy vc).
      + pose proof (eblock_list n f (IH n ltac:(lia)) ltac:(lia) t rho e s Hinv Hwt ltac:(lia)) as H.
        destruct (P.run_stmts n rho t F.VNil) as [[[rho' v]|xx]|]; [| |exact Logic.I].
        * destruct H as [s' [H Hinv']]. exists e, s'. split; assumption.
        * destruct H as [s' H]. exists e, s'. exact H.
      + pose proof (eblock_list n f (IH n ltac:(lia)) ltac:(lia) el rho e s Hinv Hwe ltac:(lia)) as H.
        destruct (P.run_stmts n rho el F.VNil) as [[[rho' v]|xx]|]; [| |exact Logic.I].
        * destruct H as [s' [H Hinv']]. exists e, s'. split; assumption.
        * destruct H as [s' H]. exists e, s'. exact H.
    - (* if without else *)
      rewrite PF.wf_SIf1 in Hwf. apply andb_true_iff in Hwf. destruct Hwf as [Hwc Hwt].
      rewrite PF.sheight_SIf1 in Hf. destruct f as [|f]; [lia|].
      rewrite PF.embed_SIf1, PF.run_SIf1, eval_NIf1, (sem_scalar names rho c (S f) e s ltac:(lia) Hwc Henv).
      destruct (F.sev rho c) as [vc|[|]]; cbn [lift]; try (eexists; eexists; reflexivity).
      rewrite truthy_inj.
      destruct (F.struthy vc).
      + pose proof (eblock_list n f (IH n ltac:(lia)) ltac:(lia) t rho e s Hinv Hwt ltac:(lia)) as H.
        destruct (P.run_stmts n rho t F.VNil) as [[[rho' v]|xx]|]; [| |exact Logic.I].
        * destruct H as [s' [H Hinv']]. exists e, s'. split; assumption.
        * destruct H as [s' H]. exists e, s'. exact H.
      + exists e, s. split; [reflexivity|exact Hinv].
    - (* for *)
      rewrite PF.wf_SWhile in Hwf. apply andb_true_iff in Hwf. destruct Hwf as [Hwc Hwb].
      rewrite PF.sheight_SWhile in Hf. destruct f as [|f]; [lia|].
      rewrite PF.embed_SWhile, eval_NFor_cond.
      pose proof (wloop_sem f c b e (S n) ltac:(intros j Hj; apply IH; lia) ltac:(lia) ltac:(lia) ltac:(lia)
                    (S f) rho s ltac:(lia) Hinv Hwc Hwb) as H.
      destruct (P.run_stmt (S n) rho (P.SWhile c b)) as [[[rho' v]|xx]|]; [| |exact Logic.I].
      + destruct H as [s' [H [Hinv' ->]]]. exists e, s'. split; assumption.
      + destruct H as [s' H]. exists e, s'. exact H.
  Qed.

  (* ---------------------------------------------------------------- the statement loop of Sem.run *)
  Definition go_loop (fuel : nat) : env -> state -> list node -> value -> outcome * state :=
    fix go (e : env) (s : state) (l : list node) (last : value) : outcome * state :=
      match l with
      | [] => (OVal last, s)
      | x :: r => match eval fuel e s x with
                  | (OVal v, e', s') => go e' s' r (if is_expression x then v else VNil)
                  | (o, _, s') => (o, s')
                  end
      end.
  Lemma go_loop_cons fuel e s x r last : go_loop fuel e s (x :: r) last =
    match eval fuel e s x with
    | (OVal v, e', s') => go_loop fuel e' s' r (if is_expression x then v else VNil)
    | (o, _, s') => (o, s')
    end.
  Proof. reflexivity. Qed.

  Definition lift_top (r : (list F.sval * F.sval) + F.serr) : outcome :=
    match r with inl (_, v) => OVal (inj v) | inr x => lift (inr x) end.

  Lemma go_program n f : n <= f -> forall l rho e s last,
    sem_inv rho e s -> P.wf_stmts true (length rho) l = true -> length rho + P.ndecls l <= length names ->
    P.max_height l <= f ->
    match P.run_stmts n rho l last with
    | None => True
    | Some r => fst (go_loop (S f) e s (P.embed_stmts names (length rho) l) (inj last)) = lift_top r
    end.
  Proof.
    intros Hnf. induction l as [|st r IH]; intros rho e s last Hinv Hwf Hn Hh; [reflexivity|].
    rewrite PF.wf_stmts_cons in Hwf. apply andb_true_iff in Hwf. destruct Hwf as [Hws Hwr].
    rewrite PF.max_height_cons in Hh. rewrite PF.embed_stmts_cons, PF.run_stmts_cons, go_loop_cons.
    assert (Hnk : P.next_k (length rho) st <= length names) by (rewrite <- PF.ndecls_cons in Hn; lia).
    pose proof (eval_stmt n st rho e s f true Hinv Hws Hnk ltac:(lia) Hnf) as He.
    destruct (P.run_stmt n rho st) as [[[rho1 v1]|x]|] eqn:Er; [| |exact Logic.I].
    - destruct He as [e1 [s1 [He Hinv1]]]. rewrite He, (stmt_last n rho st rho1 v1 Er).
      pose proof (PF.run_stmt_length n rho st true rho1 v1 Hws Er) as Hlen.
      rewrite <- Hlen. apply IH; [exact Hinv1|rewrite Hlen; exact Hwr|rewrite Hlen, PF.ndecls_cons; exact Hn|lia].
    - destruct He as [e1 [s1 He]]. rewrite He. destruct x; reflexivity.
  Qed.

  Lemma predeclare_none : forall l k acc,
    fold_left (fun acc st =>
                 match st with
                 | NFunc (Some nm) _ _ _ => let '(e, s) := acc in let '(l, s') := alloc s VNil in (bind_name e nm l true, s')
                 | _ => acc end) (P.embed_stmts names k l) acc = acc.
  Proof.
    induction l as [|st r IH]; intros k acc; [reflexivity|].
    rewrite PF.embed_stmts_cons. cbn [fold_left].
    destruct st as [x|i x|x|c t el|c t|c b]; cbn [P.embed_stmt]; try apply IH.
    destruct x; cbn [F.embed]; apply IH.
  Qed.

  Theorem sem_var_program l n f r :
    P.wf_stmts true 0 l = true -> P.ndecls l <= length names -> P.max_height l <= f -> n <= f ->
    P.run_stmts n [] l F.VNil = Some r ->
    fst (Sem.run (S f) (P.embed_stmts names 0 l)) = lift_top r.
  Proof.
    intros Hwf Hn Hh Hnf Hr. unfold Sem.run. rewrite predeclare_none.
    pose proof (go_program n f Hnf l [] ([] :: global_env) init_state F.VNil sem_inv_init Hwf Hn Hh) as H.
    rewrite Hr in H. exact H.
  Qed.
End Names.
