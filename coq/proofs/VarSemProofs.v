(* Stages B-G, part 2: the reference semantics Sem.run on programs over variables (declared at the top level and in blocks;
   conditionals, plain loops, condition loops and three-clause loops with break / continue nested to any depth) computes exactly [run_stmts], whenever
   the latter's fuel suffices.  The variable at position i of the visible ones is bound, in the environment, to a store
   location of its own that holds its value; the bindings a block adds are gone when the block ends. *)
From Coq Require Import List ZArith NArith Bool Arith Lia.
Require Import RV.model.Syntax RV.model.Sem RV.proofs.SemScalarProofs.
Require RV.model.ScalarFrag RV.model.VarProg RV.proofs.VarProgFacts.
Module P := RV.model.VarProg.
Module PF := RV.proofs.VarProgFacts.
Import ListNotations.
Local Open Scope nat_scope.

Lemma eval_NVar f e s name v : eval (S f) e s (NVar name v) =
  match eval f e s v with
  | (OVal x, e1, s1) => let '(l, s2) := alloc s1 x in (OVal VNil, bind_name e1 name l false, s2)
  | other => other
  end.
Proof. reflexivity. Qed.

Lemma eval_NAssign_eq f e s name v : eval (S f) e s (NAssign name [61%N] v) =
  match eval f e s v with
  | (OVal x, e1, s1) =>
      match (match lookup e1 name with Some (l, _) => Some (set_store s1 l x) | None => None end) with
      | Some s2 => (OVal VNil, e1, s2)
      | None => (OErr XUndefined, e1, s1)
      end
  | other => other
  end.
Proof. reflexivity. Qed.

(* the statement loop and the block of Sem.eval, as standalone functions of the evaluator one fuel level down *)
Definition es_loop (f : nat) : env -> state -> list node -> value -> outcome * env * state :=
  fix es (e : env) (s : state) (l : list node) (last : value) : outcome * env * state :=
    match l with
    | [] => (OVal last, e, s)
    | x :: r => match eval f e s x with
                | (OVal v, e', s') => es e' s' r (if is_expression x then v else VNil)
                | other => other
                end
    end.
Definition eblock (f : nat) (e : env) (s : state) (l : list node) : outcome * env * state :=
  match es_loop f ([] :: e) s l VNil with (o, _, s') => (o, e, s') end.

Lemma eval_NIf f e s c cns al : eval (S f) e s (NIf c cns (Some al)) =
  match eval f e s c with
  | (OVal v, e1, s1) => if truthy s1 v then eblock f e1 s1 cns else eblock f e1 s1 al
  | other => other
  end.
Proof. reflexivity. Qed.

(* the condition loop of Sem.eval, as a standalone function of the evaluator one fuel level down *)
Definition wloop (f : nat) (e : env) (c : node) (body : list node) : nat -> state -> outcome * env * state :=
  fix lp (k : nat) (s : state) : outcome * env * state :=
    match k with
    | O => (OErr XFuel, e, s)
    | S k' =>
        match eval f ([] :: e) s c with
        | (OVal cv, _, s1) =>
            if truthy s1 cv then
              match eblock f ([] :: e) s1 body with
              | (OVal _, _, s') | (OCont, _, s') => lp k' s'
              | (OBrk, _, s') => (OVal VNil, e, s')
              | (o, _, s') => (o, e, s')
              end
            else (OVal VNil, e, s1)
        | (o, _, s1) => (o, e, s1)
        end
    end.
Lemma eval_NFor_cond names f e s c body : eval (S f) e s (NFor (Some (F.embed names c)) None None body) =
  wloop f e (F.embed names c) body f s.
Proof. destruct c; reflexivity. Qed.

(* the plain loop `for { }` of Sem.eval *)
Definition ploop (f : nat) (e : env) (body : list node) : nat -> state -> outcome * env * state :=
  fix lp (k : nat) (s : state) : outcome * env * state :=
    match k with
    | O => (OErr XFuel, e, s)
    | S k' => match eblock f ([] :: e) s body with
              | (OVal _, _, s') | (OCont, _, s') => lp k' s'
              | (OBrk, _, s') => (OVal VNil, e, s')
              | (o, _, s') => (o, e, s')
              end
    end.
Lemma eval_NFor_plain f e s body : eval (S f) e s (NFor None None None body) = ploop f e body f s.
Proof. reflexivity. Qed.
Lemma ploop_S f e body k s : ploop f e body (S k) s =
  match eblock f ([] :: e) s body with
  | (OVal _, _, s') | (OCont, _, s') => ploop f e body k s'
  | (OBrk, _, s') => (OVal VNil, e, s')
  | (o, _, s') => (o, e, s')
  end.
Proof. reflexivity. Qed.

(* the rounds of the three-clause loop of Sem.eval (after the init clause): [le] is the loop's environment *)
Definition floop (f : nat) (e le : env) (c p : node) (body : list node) : nat -> state -> outcome * env * state :=
  fix lp (k : nat) (s : state) : outcome * env * state :=
    match k with
    | O => (OErr XFuel, e, s)
    | S k' =>
        match eval f le s c with
        | (OVal cv, _, s1) =>
            if truthy s1 cv then
              let after_body (s' : state) : outcome * env * state :=
                  match eval f le s' p with
                  | (OVal _, _, s'') => lp k' s''
                  | (o, _, s'') => (o, e, s'')
                  end in
              match eblock f le s1 body with
              | (OVal _, _, s') | (OCont, _, s') => after_body s'
              | (OBrk, _, s') => (OVal VNil, e, s')
              | (o, _, s') => (o, e, s')
              end
            else (OVal VNil, e, s1)
        | (o, _, s1) => (o, e, s1)
        end
    end.
Lemma eval_NFor3 f e s c i p body : eval (S f) e s (NFor (Some c) (Some i) (Some p) body) =
  match eval f ([] :: e) s i with
  | (OVal _, le, s0) => floop f e le c p body f s0
  | (o, _, s0) => (o, e, s0)
  end.
Proof. reflexivity. Qed.
Lemma floop_S f e le c p body k s : floop f e le c p body (S k) s =
  match eval f le s c with
  | (OVal cv, _, s1) =>
      if truthy s1 cv then
        match eblock f le s1 body with
        | (OVal _, _, s') | (OCont, _, s') =>
            match eval f le s' p with
            | (OVal _, _, s'') => floop f e le c p body k s''
            | (o, _, s'') => (o, e, s'')
            end
        | (OBrk, _, s') => (OVal VNil, e, s')
        | (o, _, s') => (o, e, s')
        end
      else (OVal VNil, e, s1)
  | (o, _, s1) => (o, e, s1)
  end.
Proof. reflexivity. Qed.

Lemma eval_NIf1 f e s c cns : eval (S f) e s (NIf c cns None) =
  match eval f e s c with
  | (OVal v, e1, s1) => if truthy s1 v then eblock f e1 s1 cns else (OVal VNil, e1, s1)
  | other => other
  end.
Proof. reflexivity. Qed.

Lemma eval_NAssign_op f e s name o v : P.is_compound o = true ->
  eval (S f) e s (NAssign name (F.op_text o ++ [61%N]) v) =
  match lookup e name with
  | None => (OErr XUndefined, e, s)
  | Some (l, _) =>
      match eval f e s v with
      | (OVal x, e1, s1) =>
          match binop s1 (F.op_text o) (nth l (store s) VNil) x with
          | (OVal r, s2) => (OVal VNil, e1, set_store s2 l r)
          | (o', s2) => (o', e1, s2)
          end
      | other => other
      end
  end.
Proof. destruct o; try discriminate; reflexivity. Qed.
Lemma eval_NPostfix f e s name (up : bool) :
  eval (S f) e s (NPostfix name (if up then [43; 43]%N else [45; 45]%N)) =
  match lookup e name with
  | None => (OErr XUndefined, e, s)
  | Some (l, _) =>
      match nth l (store s) VNil with
      | VInt z => (OVal VNil, e, set_store s l (VInt (wrap64 (if up then z + 1 else z - 1))))
      | _ => (OErr XType, e, s)
      end
  end.
Proof. destruct up; reflexivity. Qed.

Lemma eval_NBreak f e s : eval (S f) e s NBreak = (OBrk, e, s).
Proof. reflexivity. Qed.
Lemma eval_NContinue f e s : eval (S f) e s NContinue = (OCont, e, s).
Proof. reflexivity. Qed.

Lemma sbeq_refl (a : list N) : beq a a = true.
Proof. unfold beq. destruct (list_eq_dec N.eq_dec a a); [reflexivity|contradiction]. Qed.
Lemma sbeq_neq (a b : list N) : a <> b -> beq a b = false.
Proof. intros H. unfold beq. destruct (list_eq_dec N.eq_dec a b); [contradiction|reflexivity]. Qed.

Lemma nth_list_set_same (A : Type) (l : list A) i v d : i < length l -> nth i (list_set l i v) d = v.
Proof. revert i; induction l as [|x l IH]; intros [|i] H; cbn in *; try lia; [reflexivity|apply IH; lia]. Qed.
Lemma nth_list_set_other (A : Type) (l : list A) i j v d : i <> j -> nth j (list_set l i v) d = nth j l d.
Proof. revert i j; induction l as [|x l IH]; intros [|i] [|j] H; cbn; try reflexivity; try lia. apply IH. lia. Qed.
Lemma length_list_set (A : Type) (l : list A) i v : length (list_set l i v) = length l.
Proof. revert i; induction l as [|x l IH]; intros [|i]; cbn; auto. Qed.

Lemma NoDup_app_snoc (A : Type) (l : list A) x : NoDup l -> ~ In x l -> NoDup (l ++ [x]).
Proof.
  intros Hn Hx. induction l as [|y l IH]; cbn; [constructor; [intros []|constructor]|].
  inversion Hn as [|? ? Hy Hl]; subst. constructor.
  - intros Hin. apply in_app_or in Hin. destruct Hin as [Hin|[->|[]]]; [exact (Hy Hin)|apply Hx; left; reflexivity].
  - apply IH; [exact Hl|intros Hin; apply Hx; right; exact Hin].
Qed.
Lemma NoDup_app_remove_r (A : Type) (l x : list A) : NoDup (l ++ x) -> NoDup l.
Proof.
  induction l as [|y l IH]; intros H; [constructor|]. cbn in H. inversion H as [|? ? Hy Hl]; subst. constructor.
  - intros Hin. apply Hy. apply in_or_app. left. exact Hin.
  - exact (IH Hl).
Qed.
Lemma nth_firstn_lt (A : Type) (l : list A) n i d : i < n -> nth i (firstn n l) d = nth i l d.
Proof. revert n i; induction l as [|x l IH]; intros [|n] [|i] H; cbn; try reflexivity; try lia. apply IH. lia. Qed.

Section Names.
  Variable names : list (list N).
  Hypothesis names_nodup : NoDup names.
  Hypothesis names_nonempty : Forall (fun nm => nm <> []) names.

  Lemma names_distinct i j : i < length names -> j < length names -> i <> j -> nth i names [] <> nth j names [].
  Proof. intros Hi Hj Hne Heq. apply Hne. exact (proj1 (NoDup_nth names []) names_nodup i j Hi Hj Heq). Qed.
  Lemma name_nonempty i : i < length names -> nth i names [] <> [].
  Proof. intros Hi. exact (proj1 (Forall_forall _ names) names_nonempty _ (nth_In names [] Hi)). Qed.

  (* the environment knows the visible variables (slots [scope]) at the store locations [locs] ... *)
  Definition env_part (scope locs : list nat) (e : env) : Prop :=
    e <> [] /\ length locs = length scope /\
    forall i, i < length scope -> lookup e (nth (nth i scope 0) names []) = Some (nth i locs 0, false).
  (* ... and the store holds their values [rho] there; different variables have different locations *)
  Definition store_part (rho : list F.sval) (locs : list nat) (s : state) : Prop :=
    length locs = length rho /\ NoDup locs /\
    forall i, i < length rho -> nth (nth i locs 0) (store s) VNil = inj (nth i rho F.VNil) /\ nth i locs 0 < length (store s).
  Definition sem_inv (rho : list F.sval) (scope locs : list nat) (e : env) (s : state) : Prop :=
    env_part scope locs e /\ store_part rho locs s.
  (* every visible slot is below the next free one, which is within the names *)
  Definition scope_ok (k : nat) (scope : list nat) : Prop := Forall (fun sl => sl < k) scope /\ k <= length names.

  Lemma vnames_nth scope i : i < length scope -> nth i (P.vnames names scope) [] = nth (nth i scope 0) names [].
  Proof.
    intros Hi. unfold P.vnames. rewrite (nth_indep _ [] (nth 0 names [])) by (rewrite map_length; exact Hi).
    exact (map_nth (fun sl => nth sl names []) scope 0 i).
  Qed.
  Lemma scope_slot k scope i : scope_ok k scope -> i < length scope -> nth i scope 0 < length names.
  Proof. intros [H Hk] Hi. pose proof (proj1 (Forall_forall _ _) H _ (nth_In scope 0 Hi)) as H0. cbn in H0. lia. Qed.

  Lemma sem_inv_env_ok rho scope locs e s k : sem_inv rho scope locs e s -> scope_ok k scope ->
    env_ok (P.vnames names scope) rho e s.
  Proof.
    intros [[Hne [Hll H]] [Hlr [_ Hs]]] Hok i v Hi.
    assert (Hlt : i < length rho) by (apply nth_error_Some; congruence).
    assert (Hls : i < length scope) by lia.
    rewrite (vnames_nth scope i Hls). split; [apply name_nonempty; exact (scope_slot k scope i Hok Hls)|].
    exists (nth i locs 0), false. split; [exact (H i Hls)|].
    destruct (Hs i Hlt) as [Hv _]. rewrite Hv, (nth_error_nth rho i F.VNil Hi). reflexivity.
  Qed.

  Lemma sem_inv_init : sem_inv [] [] [] ([] :: global_env) init_state.
  Proof.
    split; [split; [discriminate|split; [reflexivity|intros i Hi; cbn in Hi; lia]]|].
    split; [reflexivity|split; [constructor|intros i Hi; cbn in Hi; lia]].
  Qed.

  Lemma lookup_bind_same e nm l c : e <> [] -> lookup (bind_name e nm l c) nm = Some (l, c).
  Proof. destruct e as [|sc r]; [contradiction|]. intros _. cbn. rewrite sbeq_refl. reflexivity. Qed.
  Lemma lookup_bind_other e nm nm' l c : e <> [] -> nm' <> nm -> lookup (bind_name e nm l c) nm' = lookup e nm'.
  Proof. destruct e as [|sc r]; [contradiction|]. intros _ H. cbn. rewrite (sbeq_neq nm' nm H). reflexivity. Qed.
  Lemma bind_nonempty e nm l c : bind_name e nm l c <> [].
  Proof. destruct e; discriminate. Qed.

  (* declaring the next variable (slot k): a new location *)
  Lemma sem_inv_decl rho scope locs e s v k : sem_inv rho scope locs e s -> scope_ok k scope -> k < length names ->
    sem_inv (rho ++ [v]) (scope ++ [k]) (locs ++ [length (store s)])
            (bind_name e (nth k names []) (length (store s)) false) (snd (alloc s (inj v))).
  Proof.
    intros [[Hne [Hll H]] [Hlr [Hnd Hs]]] Hok Hk. unfold alloc. cbn [snd store].
    split.
    - split; [apply bind_nonempty|]. split; [rewrite !app_length; cbn; lia|].
      intros i Hi. rewrite app_length in Hi. cbn in Hi.
      destruct (Nat.eq_dec i (length scope)) as [->|Hd].
      + assert (E1 : nth (length scope) (scope ++ [k]) 0 = k) by (rewrite app_nth2 by lia; rewrite Nat.sub_diag; reflexivity).
        assert (E2 : nth (length scope) (locs ++ [length (store s)]) 0 = length (store s))
          by (rewrite <- Hll, app_nth2 by lia; rewrite Nat.sub_diag; reflexivity).
        rewrite E1, E2. apply lookup_bind_same. exact Hne.
      + assert (Hi' : i < length scope) by lia.
        assert (E1 : nth i (scope ++ [k]) 0 = nth i scope 0) by (apply app_nth1; exact Hi').
        assert (E2 : nth i (locs ++ [length (store s)]) 0 = nth i locs 0) by (apply app_nth1; lia).
        rewrite E1, E2. rewrite lookup_bind_other; [exact (H i Hi')|exact Hne|].
        apply names_distinct; [exact (scope_slot k scope i Hok Hi')|exact Hk|].
        destruct Hok as [Hf _]. pose proof (proj1 (Forall_forall _ _) Hf _ (nth_In scope 0 Hi')) as H0. cbn in H0. lia.
    - split; [rewrite !app_length; cbn; lia|]. split.
      + apply NoDup_app_snoc; [exact Hnd|]. intros Hin. apply In_nth with (d := 0) in Hin. destruct Hin as [j [Hj Ej]].
        destruct (Hs j ltac:(lia)) as [_ Hlt]. lia.
      + intros i Hi. rewrite app_length in Hi. cbn in Hi. cbn [store].
        destruct (Nat.eq_dec i (length rho)) as [->|Hd].
        * assert (E1 : nth (length rho) (locs ++ [length (store s)]) 0 = length (store s))
            by (rewrite <- Hlr, app_nth2 by lia; rewrite Nat.sub_diag; reflexivity).
          assert (E2 : nth (length rho) (rho ++ [v]) F.VNil = v) by (rewrite app_nth2 by lia; rewrite Nat.sub_diag; reflexivity).
          rewrite E1, E2. rewrite app_nth2 by lia. rewrite Nat.sub_diag. cbn [nth].
          split; [reflexivity|rewrite app_length; cbn; lia].
        * assert (Hi' : i < length rho) by lia. destruct (Hs i Hi') as [Hv Hlt].
          assert (E1 : nth i (locs ++ [length (store s)]) 0 = nth i locs 0) by (apply app_nth1; lia).
          assert (E2 : nth i (rho ++ [v]) F.VNil = nth i rho F.VNil) by (apply app_nth1; exact Hi').
          rewrite E1, E2, (app_nth1 _ _ _ Hlt). split; [exact Hv|rewrite app_length; lia].
  Qed.

  (* assigning to a visible variable *)
  Lemma sem_inv_set rho scope locs e s i v : sem_inv rho scope locs e s -> i < length rho ->
    sem_inv (P.set_nth i v rho) scope locs e (set_store s (nth i locs 0) (inj v)).
  Proof.
    intros [Henv [Hlr [Hnd Hs]]] Hi. split; [exact Henv|]. unfold set_store. cbn [store].
    split; [rewrite PF.set_nth_length; exact Hlr|]. split; [exact Hnd|].
    intros j Hj. rewrite PF.set_nth_length in Hj. destruct (Hs j Hj) as [Hv Hlt]. cbn [store]. rewrite length_list_set.
    destruct (Nat.eq_dec j i) as [->|Hd].
    - rewrite nth_list_set_same by exact Hlt. rewrite PF.nth_set_nth_same by lia. split; [reflexivity|exact Hlt].
    - rewrite nth_list_set_other.
      + rewrite PF.nth_set_nth_other by lia. split; [exact Hv|exact Hlt].
      + intros E. apply Hd. symmetry. apply (proj1 (NoDup_nth locs 0) Hnd i j); [lia|lia|exact E].
  Qed.

  (* entering a block: an empty scope on top changes nothing *)
  Lemma env_part_push scope locs e : env_part scope locs e -> env_part scope locs ([] :: e).
  Proof. intros [Hne [Hll H]]. split; [discriminate|]. split; [exact Hll|exact H]. Qed.
  (* leaving it: the variables declared in it (and their locations) are forgotten *)
  Lemma store_part_firstn rho locs x s n : store_part rho (locs ++ x) s -> length locs = n -> n <= length rho ->
    store_part (firstn n rho) locs s.
  Proof.
    intros [Hlr [Hnd Hs]] Hn Hle. split; [rewrite firstn_length; lia|]. split; [exact (NoDup_app_remove_r _ _ _ Hnd)|].
    intros i Hi. rewrite firstn_length in Hi. assert (Hi' : i < n) by lia.
    destruct (Hs i ltac:(lia)) as [Hv Hlt]. rewrite app_nth1 in Hv, Hlt by lia.
    rewrite nth_firstn_lt by exact Hi'. split; assumption.
  Qed.

  Lemma es_loop_cons f e s x r last : es_loop f e s (x :: r) last =
    match eval f e s x with
    | (OVal v, e', s') => es_loop f e' s' r (if is_expression x then v else VNil)
    | other => other
    end.
  Proof. reflexivity. Qed.
  Lemma wloop_S f e c body k s : wloop f e c body (S k) s =
    match eval f ([] :: e) s c with
    | (OVal cv, _, s1) =>
        if truthy s1 cv then
          match eblock f ([] :: e) s1 body with
          | (OVal _, _, s') | (OCont, _, s') => wloop f e c body k s'
          | (OBrk, _, s') => (OVal VNil, e, s')
          | (o, _, s') => (o, e, s')
          end
        else (OVal VNil, e, s1)
    | (o, _, s1) => (o, e, s1)
    end.
  Proof. reflexivity. Qed.

  (* ---------------------------------------------------------------- statements, lists, blocks, loops *)
  (* the visible slots after a list of statements *)
  Fixpoint scope_after (k : nat) (scope : list nat) (l : list P.stmt) : list nat :=
    match l with [] => scope | s :: r => scope_after (k + P.nd s) (P.next_scope k scope s) r end.

  Lemma scope_ok_next k scope st : scope_ok k scope -> k + P.nd st <= length names ->
    scope_ok (k + P.nd st) (P.next_scope k scope st).
  Proof.
    intros [Hf Hk] Hn. split; [|exact Hn].
    assert (H0 : Forall (fun sl => sl < k + P.nd st) scope) by (eapply Forall_impl; [|exact Hf]; cbn; intros; lia).
    destruct st; cbn [P.next_scope P.nd] in *; try exact H0.
    apply Forall_app. split; [exact H0|constructor; [lia|constructor]].
  Qed.

  (* what the evaluator returns for a statement / a list whose source-level run gave r; [sc']: the scope afterwards *)
  Definition run_concl (locs sc' : list nat) (r : (list F.sval * F.sval) + P.stop) (res : outcome * env * state) : Prop :=
    match r with
    | inl (rho', v) => exists e' s' x, res = (OVal (inj v), e', s') /\ sem_inv rho' sc' (locs ++ x) e' s'
    | inr (P.StErr x) => exists e' s', res = (lift (inr x), e', s')
    | inr (P.StBrk rho') => exists e' s' x, res = (OBrk, e', s') /\ store_part rho' (locs ++ x) s'
    | inr (P.StCont rho') => exists e' s' x, res = (OCont, e', s') /\ store_part rho' (locs ++ x) s'
    end.
  (* the same for a block: the environment and the scope are the ones the block was entered with *)
  Definition block_concl (scope locs : list nat) (e : env) (r : (list F.sval * F.sval) + P.stop) (res : outcome * env * state) : Prop :=
    match r with
    | inl (rho', v) => exists s', res = (OVal (inj v), e, s') /\ sem_inv rho' scope locs e s'
    | inr (P.StErr x) => exists s', res = (lift (inr x), e, s')
    | inr (P.StBrk rho') => exists s', res = (OBrk, e, s') /\ store_part rho' locs s'
    | inr (P.StCont rho') => exists s', res = (OCont, e, s') /\ store_part rho' locs s'
    end.
  Lemma block_run_concl scope locs e r res : block_concl scope locs e r res -> run_concl locs scope r res.
  Proof.
    destruct r as [[rho' v]|[x|rho'|rho']]; cbn [block_concl run_concl].
    - intros [s' [H Hi]]. exists e, s', []. rewrite app_nil_r. split; assumption.
    - intros [s' H]. exists e, s'. exact H.
    - intros [s' [H Hi]]. exists e, s', []. rewrite app_nil_r. split; assumption.
    - intros [s' [H Hi]]. exists e, s', []. rewrite app_nil_r. split; assumption.
  Qed.

  (* what holds of one statement run with source fuel n, evaluated with fuel S f *)
  Definition stmt_sem (n : nat) : Prop :=
    forall st rho scope locs e s f lp k r,
      sem_inv rho scope locs e s -> scope_ok k scope -> k + P.nd st <= length names ->
      P.wf_stmt lp (length rho) st = true -> P.sheight st <= f -> n <= f -> P.run_stmt n rho st = Some r ->
      run_concl locs (P.next_scope k scope st) r (eval (S f) e s (P.embed_stmt names k scope st)).

  Lemma stmt_last n rho k scope st rho' v : P.run_stmt n rho st = Some (inl (rho', v)) ->
    (if is_expression (P.embed_stmt names k scope st) then inj v else VNil) = inj v.
  Proof.
    intros Hr. rewrite PF.embed_stmt_is_expression. destruct (P.is_expr_stmt st) eqn:E; [reflexivity|].
    rewrite (PF.run_stmt_value n rho st rho' v Hr E). reflexivity.
  Qed.

  Lemma es_list n f : stmt_sem n -> n <= f -> forall l rho scope locs e s last lp k r,
    sem_inv rho scope locs e s -> scope_ok k scope -> k + P.ndecls l <= length names ->
    P.wf_stmts lp (length rho) l = true -> P.max_height l <= f -> P.run_stmts n rho l last = Some r ->
    run_concl locs (scope_after k scope l) r (es_loop (S f) e s (P.embed_stmts names k scope l) (inj last)).
  Proof.
    intros Hst Hnf. induction l as [|st r0 IH]; intros rho scope locs e s last lp k r Hinv Hok Hn Hwf Hh Hr.
    - cbn in Hr. inversion Hr; subst r. cbn. exists e, s, []. rewrite app_nil_r. split; [reflexivity|exact Hinv].
    - rewrite PF.wf_stmts_cons in Hwf. apply andb_true_iff in Hwf. destruct Hwf as [Hws Hwr].
      rewrite PF.max_height_cons in Hh. rewrite PF.ndecls_cons in Hn. rewrite PF.run_stmts_cons in Hr.
      rewrite PF.embed_stmts_cons, es_loop_cons. cbn [scope_after].
      destruct (P.run_stmt n rho st) as [[[rho1 v1]|x]|] eqn:Er; [| |discriminate].
      + pose proof (Hst st rho scope locs e s f lp k _ Hinv Hok ltac:(lia) Hws ltac:(lia) Hnf Er) as He. cbn [run_concl] in He.
        destruct He as [e1 [s1 [x1 [He Hinv1]]]]. rewrite He, (stmt_last n rho k scope st rho1 v1 Er).
        pose proof (PF.run_stmt_length n rho st _ Er) as Hlen. cbn [PF.len_ok] in Hlen. rewrite <- Hlen in Hwr.
        pose proof (IH rho1 (P.next_scope k scope st) (locs ++ x1) e1 s1 v1 lp (k + P.nd st) r Hinv1
                      (scope_ok_next k scope st Hok ltac:(lia)) ltac:(lia) Hwr ltac:(lia) Hr) as H2.
        destruct r as [[rho2 v2]|[xx|rho2|rho2]]; cbn [run_concl] in *.
        * destruct H2 as [e2 [s2 [x2 [H2 Hi2]]]]. exists e2, s2, (x1 ++ x2). rewrite app_assoc. split; assumption.
        * exact H2.
        * destruct H2 as [e2 [s2 [x2 [H2 Hi2]]]]. exists e2, s2, (x1 ++ x2). rewrite app_assoc. split; assumption.
        * destruct H2 as [e2 [s2 [x2 [H2 Hi2]]]]. exists e2, s2, (x1 ++ x2). rewrite app_assoc. split; assumption.
      + inversion Hr; subst r.
        pose proof (Hst st rho scope locs e s f lp k _ Hinv Hok ltac:(lia) Hws ltac:(lia) Hnf Er) as He.
        destruct x as [x|rho1|rho1]; cbn [run_concl] in *.
        * destruct He as [e1 [s1 He]]. rewrite He. exists e1, s1. destruct x; reflexivity.
        * destruct He as [e1 [s1 [x1 [He Hi]]]]. rewrite He. exists e1, s1, x1. split; [reflexivity|exact Hi].
        * destruct He as [e1 [s1 [x1 [He Hi]]]]. rewrite He. exists e1, s1, x1. split; [reflexivity|exact Hi].
  Qed.

  Lemma eblock_list n f : stmt_sem n -> n <= f -> forall l rho scope locs e s lp k r,
    sem_inv rho scope locs e s -> scope_ok k scope -> k + P.ndecls l <= length names ->
    P.wf_stmts lp (length rho) l = true -> P.max_height l <= f -> PF.run_blk n rho l = Some r ->
    block_concl scope locs e r (eblock (S f) e s (P.embed_stmts names k scope l)).
  Proof.
    intros Hst Hnf l rho scope locs e s lp k r Hinv Hok Hn Hwf Hh Hr. unfold eblock.
    unfold PF.run_blk in Hr. destruct (P.run_stmts n rho l F.VNil) as [r0|] eqn:Er; [|discriminate].
    cbn in Hr. inversion Hr; subst r. clear Hr.
    destruct Hinv as [Henv Hsto].
    pose proof (es_list n f Hst Hnf l rho scope locs ([] :: e) s F.VNil lp k r0 (conj (env_part_push _ _ _ Henv) Hsto) Hok Hn Hwf Hh Er) as H.
    pose proof (PF.run_stmts_length n l rho F.VNil r0 Er) as Hlen.
    assert (Hll : length locs = length rho) by (destruct Hsto as [H0 _]; exact H0).
    change (inj F.VNil) with VNil in H.
    destruct r0 as [[rho' v]|[x|rho'|rho']]; cbn [run_concl block_concl P.trunc PF.lens_ok] in *.
    - destruct H as [e' [s' [x [H [_ Hs']]]]]. rewrite H. exists s'. split; [reflexivity|].
      split; [exact Henv|exact (store_part_firstn rho' locs x s' (length rho) Hs' Hll Hlen)].
    - destruct H as [e' [s' H]]. rewrite H. exists s'. reflexivity.
    - destruct H as [e' [s' [x [H Hs']]]]. rewrite H. exists s'. split; [reflexivity|].
      exact (store_part_firstn rho' locs x s' (length rho) Hs' Hll Hlen).
    - destruct H as [e' [s' [x [H Hs']]]]. rewrite H. exists s'. split; [reflexivity|].
      exact (store_part_firstn rho' locs x s' (length rho) Hs' Hll Hlen).
  Qed.

  (* the condition loop: source fuel m, at most j rounds, body evaluated with fuel S f *)
  Lemma wloop_sem f c b e scope locs k : forall m, (forall j, j < m -> stmt_sem j) -> m <= S f ->
    F.height c <= S f -> P.max_height b <= f -> scope_ok k scope -> k + P.ndecls b <= length names ->
    env_part scope locs e ->
    forall j rho s r, m <= j -> store_part rho locs s -> length rho = length scope ->
    F.wf (length rho) c = true -> P.wf_stmts true (length rho) b = true ->
    P.run_stmt m rho (P.SWhile c b) = Some r ->
    match r with
    | inl (rho', v) => exists s',
        wloop (S f) e (F.embed (P.vnames names scope) c) (P.embed_stmts names k scope b) j s = (OVal VNil, e, s') /\
        store_part rho' locs s' /\ v = F.VNil
    | inr (P.StErr x) => exists s', wloop (S f) e (F.embed (P.vnames names scope) c) (P.embed_stmts names k scope b) j s = (lift (inr x), e, s')
    | inr _ => False
    end.
  Proof.
    induction m as [|m IH]; intros Hst Hmf Hhc Hhb Hok Hn Henv j rho s r Hj Hsto Hls Hwc Hwb Hr; [discriminate|].
    destruct j as [|j]; [lia|].
    rewrite PF.run_SWhile in Hr. rewrite wloop_S.
    assert (Hinv1 : sem_inv rho scope locs ([] :: e) s) by (split; [apply env_part_push; exact Henv|exact Hsto]).
    rewrite (sem_scalar (P.vnames names scope) rho c (S f) ([] :: e) s Hhc Hwc (sem_inv_env_ok rho scope locs ([] :: e) s k Hinv1 Hok)).
    destruct (F.sev rho c) as [vc|x]; [|inversion Hr; subst r; exists s; destruct x; reflexivity].
    cbn [lift]. rewrite truthy_inj.
    destruct (F.struthy vc); [|inversion Hr; subst r; exists s; split; [reflexivity|split; [exact Hsto|reflexivity]]].
    destruct (PF.run_blk m rho b) as [rb|] eqn:Er; [|discriminate].
    pose proof (eblock_list m f (Hst m ltac:(lia)) ltac:(lia) b rho scope locs ([] :: e) s true k rb Hinv1 Hok Hn Hwb Hhb Er) as Hb.
    pose proof (PF.run_block_length m b rho rb Er) as Hlen.
    destruct rb as [[rho1 v1]|[x|rho1|rho1]]; cbn [block_concl PF.lenb_ok] in *.
    - destruct Hb as [s1 [Hb [_ Hs1]]]. rewrite Hb.
      apply (IH ltac:(intros i Hi; apply Hst; lia) ltac:(lia) Hhc Hhb Hok Hn Henv j rho1 s1 r ltac:(lia) Hs1 ltac:(lia));
        try (rewrite Hlen; assumption). exact Hr.
    - destruct Hb as [s1 Hb]. rewrite Hb. inversion Hr; subst r. exists s1. destruct x; reflexivity.
    - destruct Hb as [s1 [Hb Hs1]]. rewrite Hb. inversion Hr; subst r.
      exists s1. split; [reflexivity|]. split; [exact Hs1|reflexivity].
    - destruct Hb as [s1 [Hb Hs1]]. rewrite Hb.
      apply (IH ltac:(intros i Hi; apply Hst; lia) ltac:(lia) Hhc Hhb Hok Hn Henv j rho1 s1 r ltac:(lia) Hs1 ltac:(lia));
        try (rewrite Hlen; assumption). exact Hr.
  Qed.

  (* the plain loop: source fuel m, at most j rounds, body evaluated with fuel S f *)
  Lemma ploop_sem f b e scope locs k : forall m, (forall j, j < m -> stmt_sem j) -> m <= S f ->
    P.max_height b <= f -> scope_ok k scope -> k + P.ndecls b <= length names ->
    env_part scope locs e ->
    forall j rho s r, m <= j -> store_part rho locs s -> length rho = length scope ->
    P.wf_stmts true (length rho) b = true ->
    P.run_stmt m rho (P.SLoop b) = Some r ->
    match r with
    | inl (rho', v) => exists s',
        ploop (S f) e (P.embed_stmts names k scope b) j s = (OVal VNil, e, s') /\ store_part rho' locs s' /\ v = F.VNil
    | inr (P.StErr x) => exists s', ploop (S f) e (P.embed_stmts names k scope b) j s = (lift (inr x), e, s')
    | inr _ => False
    end.
  Proof.
    induction m as [|m IH]; intros Hst Hmf Hhb Hok Hn Henv j rho s r Hj Hsto Hls Hwb Hr; [discriminate|].
    destruct j as [|j]; [lia|].
    rewrite PF.run_SLoop in Hr. rewrite ploop_S.
    assert (Hinv1 : sem_inv rho scope locs ([] :: e) s) by (split; [apply env_part_push; exact Henv|exact Hsto]).
    destruct (PF.run_blk m rho b) as [rb|] eqn:Er; [|discriminate].
    pose proof (eblock_list m f (Hst m ltac:(lia)) ltac:(lia) b rho scope locs ([] :: e) s true k rb Hinv1 Hok Hn Hwb Hhb Er) as Hb.
    pose proof (PF.run_block_length m b rho rb Er) as Hlen.
    destruct rb as [[rho1 v1]|[x|rho1|rho1]]; cbn [block_concl PF.lenb_ok] in *.
    - destruct Hb as [s1 [Hb [_ Hs1]]]. rewrite Hb.
      apply (IH ltac:(intros i Hi; apply Hst; lia) ltac:(lia) Hhb Hok Hn Henv j rho1 s1 r ltac:(lia) Hs1 ltac:(lia));
        try (rewrite Hlen; assumption). exact Hr.
    - destruct Hb as [s1 Hb]. rewrite Hb. inversion Hr; subst r. exists s1. destruct x; reflexivity.
    - destruct Hb as [s1 [Hb Hs1]]. rewrite Hb. inversion Hr; subst r.
      exists s1. split; [reflexivity|]. split; [exact Hs1|reflexivity].
    - destruct Hb as [s1 [Hb Hs1]]. rewrite Hb.
      apply (IH ltac:(intros i Hi; apply Hst; lia) ltac:(lia) Hhb Hok Hn Henv j rho1 s1 r ltac:(lia) Hs1 ltac:(lia));
        try (rewrite Hlen; assumption). exact Hr.
  Qed.

  (* the rounds of a three-clause loop: [scope] and [locs] include the loop variable; source fuel n for body and post,
     kk rounds allowed at the source level, j >= kk in Sem *)
  Lemma floop_sem n f c p b e le scope locs k lp : stmt_sem n -> n <= f ->
    F.height c <= S f -> P.sheight p <= f -> P.max_height b <= f -> scope_ok k scope -> k + P.ndecls b <= length names ->
    env_part scope locs le -> P.is_simple p = true ->
    forall kk j rho s r, kk <= j -> store_part rho locs s -> length rho = length scope ->
    F.wf (length rho) c = true -> P.wf_stmt lp (length rho) p = true -> P.wf_stmts true (length rho) b = true ->
    P.loop3 (P.run_stmt n) c p b kk rho = Some r ->
    match r with
    | inl (rho', v) => exists s',
        floop (S f) e le (F.embed (P.vnames names scope) c) (P.embed_stmt names k scope p) (P.embed_stmts names k scope b) j s = (OVal VNil, e, s') /\
        store_part rho' locs s' /\ v = F.VNil
    | inr (P.StErr x) => exists s',
        floop (S f) e le (F.embed (P.vnames names scope) c) (P.embed_stmt names k scope p) (P.embed_stmts names k scope b) j s = (lift (inr x), e, s')
    | inr _ => False
    end.
  Proof.
    intros Hst Hnf Hhc Hhp Hhb Hok Hn Henv Hsp.
    induction kk as [|kk IH]; intros j rho s r Hj Hsto Hls Hwc Hwp Hwb Hr; [discriminate|].
    destruct j as [|j]; [lia|].
    rewrite PF.loop3_S in Hr. rewrite floop_S.
    assert (Hinv1 : sem_inv rho scope locs le s) by (split; assumption).
    rewrite (sem_scalar (P.vnames names scope) rho c (S f) le s Hhc Hwc (sem_inv_env_ok rho scope locs le s k Hinv1 Hok)).
    destruct (F.sev rho c) as [vc|x]; [|inversion Hr; subst r; exists s; destruct x; reflexivity].
    cbn [lift]. rewrite truthy_inj.
    destruct (F.struthy vc); [|inversion Hr; subst r; exists s; split; [reflexivity|split; [exact Hsto|reflexivity]]].
    destruct (PF.run_blk n rho b) as [rb|] eqn:Er; [|discriminate].
    pose proof (eblock_list n f Hst Hnf b rho scope locs le s true k rb Hinv1 Hok Hn Hwb Hhb Er) as Hb.
    pose proof (PF.run_block_length n b rho rb Er) as Hlen.
    (* after the body (ended normally or by continue): the post statement, then the next round *)
    assert (Hpost : forall rho1 s1, store_part rho1 locs s1 -> length rho1 = length rho ->
              match P.run_stmt n rho1 p with Some (inl (rho2, _)) => P.loop3 (P.run_stmt n) c p b kk rho2 | other => other end = Some r ->
              match r with
              | inl (rho', v) => exists s',
                  match eval (S f) le s1 (P.embed_stmt names k scope p) with
                  | (OVal _, _, s'') => floop (S f) e le (F.embed (P.vnames names scope) c) (P.embed_stmt names k scope p) (P.embed_stmts names k scope b) j s''
                  | (o, _, s'') => (o, e, s'')
                  end = (OVal VNil, e, s') /\ store_part rho' locs s' /\ v = F.VNil
              | inr (P.StErr x) => exists s',
                  match eval (S f) le s1 (P.embed_stmt names k scope p) with
                  | (OVal _, _, s'') => floop (S f) e le (F.embed (P.vnames names scope) c) (P.embed_stmt names k scope p) (P.embed_stmts names k scope b) j s''
                  | (o, _, s'') => (o, e, s'')
                  end = (lift (inr x), e, s')
              | inr _ => False
              end).
    { intros rho1 s1 Hs1 Hl1 H.
      destruct (P.run_stmt n rho1 p) as [rp|] eqn:Ep; [|discriminate].
      pose proof (PF.simple_res n rho1 p rp Hsp Ep) as Hres.
      assert (Hwp1 : P.wf_stmt lp (length rho1) p = true) by (rewrite Hl1; exact Hwp).
      pose proof (Hst p rho1 scope locs le s1 f lp k rp (conj Henv Hs1) Hok ltac:(rewrite (PF.nd_simple p Hsp); destruct Hok; lia) Hwp1 Hhp Hnf Ep) as Hp.
      assert (Hns : P.next_scope k scope p = scope) by (destruct p; try discriminate; reflexivity).
      rewrite Hns in Hp.
      destruct rp as [[rho2 v2]|[x|rho2|rho2]]; cbn [PF.same_len run_concl] in *; try contradiction.
      - destruct Hp as [e2 [s2 [x2 [Hp Hinv2]]]]. rewrite Hp.
        assert (Hx : x2 = []).
        { destruct Hinv2 as [[_ [Hl2 _]] _]. destruct Henv as [_ [Hl0 _]]. rewrite app_length in Hl2.
          destruct x2; [reflexivity|cbn [length] in Hl2; lia]. }
        subst x2. rewrite app_nil_r in Hinv2. destruct Hinv2 as [_ Hs2]. destruct Hres as [Hl2 _].
        exact (IH j rho2 s2 r ltac:(lia) Hs2 ltac:(lia) ltac:(rewrite Hl2, Hl1; exact Hwc) ltac:(rewrite Hl2, Hl1; exact Hwp)
                  ltac:(rewrite Hl2, Hl1; exact Hwb) H).
      - destruct Hp as [e2 [s2 Hp]]. rewrite Hp. inversion H; subst r. exists s2. destruct x; reflexivity. }
    destruct rb as [[rho1 v1]|[x|rho1|rho1]]; cbn [block_concl PF.lenb_ok] in *.
    - destruct Hb as [s1 [Hb [_ Hs1]]]. rewrite Hb. exact (Hpost rho1 s1 Hs1 Hlen Hr).
    - destruct Hb as [s1 Hb]. rewrite Hb. inversion Hr; subst r. exists s1. destruct x; reflexivity.
    - destruct Hb as [s1 [Hb Hs1]]. rewrite Hb. inversion Hr; subst r.
      exists s1. split; [reflexivity|]. split; [exact Hs1|reflexivity].
    - destruct Hb as [s1 [Hb Hs1]]. rewrite Hb. exact (Hpost rho1 s1 Hs1 Hlen Hr).
  Qed.

  Lemma scope_ok_mono k k' scope : scope_ok k scope -> k <= k' -> k' <= length names -> scope_ok k' scope.
  Proof. intros [Hf _] Hle Hn. split; [eapply Forall_impl; [|exact Hf]; cbn; intros; lia|exact Hn]. Qed.

  Theorem eval_stmt : forall n, stmt_sem n.
  Proof.
    induction n as [n IH] using lt_wf_ind.
    destruct n as [|n]; [intros st rho scope locs e s f lp k r _ _ _ _ _ _ Hr; discriminate|].
    intros st rho scope locs e s f lp k r Hinv Hok Hk Hwf Hf Hnf Hr.
    pose proof (sem_inv_env_ok rho scope locs e s k Hinv Hok) as Henv.
    assert (Hls : length scope = length rho) by (destruct Hinv as [[_ [H1 _]] [H2 _]]; lia).
    destruct st as [x|i x|i o x|i up|x|c t el|c t|c b|b|x c p b| |].
    - (* x := e *)
      cbn [P.embed_stmt P.wf_stmt P.next_scope P.nd P.sheight P.run_stmt] in *.
      rewrite eval_NVar, (sem_scalar (P.vnames names scope) rho x f e s Hf Hwf Henv).
      destruct (F.sev rho x) as [v|xx]; cbn [P.of_sev] in Hr; inversion Hr; subst r; cbn [lift run_concl].
      + exists (bind_name e (nth k names []) (length (store s)) false), (snd (alloc s (inj v))), [length (store s)].
        split; [reflexivity|]. exact (sem_inv_decl rho scope locs e s v k Hinv Hok ltac:(lia)).
      + destruct xx; eexists; eexists; reflexivity.
    - (* x = e *)
      cbn [P.embed_stmt P.wf_stmt P.next_scope P.nd P.sheight P.run_stmt] in *.
      apply andb_true_iff in Hwf. destruct Hwf as [Hi Hwf]. apply Nat.ltb_lt in Hi.
      rewrite (vnames_nth scope i ltac:(lia)).
      rewrite eval_NAssign_eq, (sem_scalar (P.vnames names scope) rho x f e s Hf Hwf Henv).
      destruct (F.sev rho x) as [v|xx]; cbn [P.of_sev] in Hr; inversion Hr; subst r; cbn [lift run_concl].
      + destruct Hinv as [[Hne [Hll H]] Hsto]. rewrite (H i ltac:(lia)).
        exists e, (set_store s (nth i locs 0) (inj v)), []. rewrite app_nil_r. split; [reflexivity|].
        exact (sem_inv_set rho scope locs e s i v (conj (conj Hne (conj Hll H)) Hsto) Hi).
      + destruct xx; eexists; eexists; reflexivity.
    - (* x += e *)
      cbn [P.embed_stmt P.wf_stmt P.next_scope P.nd P.sheight P.run_stmt] in *.
      apply andb_true_iff in Hwf. destruct Hwf as [Hwf Ho]. apply andb_true_iff in Hwf. destruct Hwf as [Hi Hwf]. apply Nat.ltb_lt in Hi.
      assert (Hnc : is_cmp o = false) by (destruct o; try discriminate; reflexivity).
      rewrite (vnames_nth scope i ltac:(lia)), (eval_NAssign_op f e s _ o _ Ho).
      pose proof Hinv as [[Hne [Hll H]] [Hlr [Hnd Hs]]]. rewrite (H i ltac:(lia)). destruct (Hs i Hi) as [Hval _]. rewrite Hval.
      rewrite (sem_scalar (P.vnames names scope) rho x f e s Hf Hwf Henv).
      destruct (F.sev rho x) as [v|xx].
      2:{ inversion Hr; subst r. cbn [lift run_concl]. destruct xx; eexists; eexists; reflexivity. }
      cbn [lift]. rewrite (binop_inj s o _ v Hnc).
      destruct (F.sbin o (nth i rho F.VNil) v) as [rv|xx]; cbn [P.of_sev] in Hr; inversion Hr; subst r; cbn [lift run_concl].
      + exists e, (set_store s (nth i locs 0) (inj rv)), []. rewrite app_nil_r. split; [reflexivity|].
        exact (sem_inv_set rho scope locs e s i rv Hinv Hi).
      + destruct xx; eexists; eexists; reflexivity.
    - (* x++ / x-- *)
      cbn [P.embed_stmt P.wf_stmt P.next_scope P.nd P.sheight P.run_stmt] in *. apply Nat.ltb_lt in Hwf.
      rewrite (vnames_nth scope i ltac:(lia)), eval_NPostfix.
      pose proof Hinv as [[Hne [Hll H]] [Hlr [Hnd Hs]]]. rewrite (H i ltac:(lia)). destruct (Hs i Hwf) as [Hval _]. rewrite Hval.
      destruct (nth i rho F.VNil) as [|bb|z|t0] eqn:En; cbn [inj F.sbin P.of_sev] in *; inversion Hr; subst r; cbn [lift run_concl];
        try (eexists; eexists; reflexivity).
      destruct up; (exists e; eexists; exists []; rewrite app_nil_r; split; [reflexivity|]);
        exact (sem_inv_set rho scope locs e s i _ Hinv Hwf).
    - (* e *)
      cbn [P.embed_stmt P.wf_stmt P.next_scope P.nd P.sheight P.run_stmt] in *.
      rewrite (sem_scalar (P.vnames names scope) rho x (S f) e s ltac:(lia) Hwf Henv).
      destruct (F.sev rho x) as [v|xx]; cbn [P.of_sev] in Hr; inversion Hr; subst r; cbn [lift run_concl].
      + exists e, s, []. rewrite app_nil_r. split; [reflexivity|exact Hinv].
      + destruct xx; eexists; eexists; reflexivity.
    - (* if *)
      rewrite PF.wf_SIf in Hwf. apply andb_true_iff in Hwf. destruct Hwf as [Hwct Hwe].
      apply andb_true_iff in Hwct. destruct Hwct as [Hwc Hwt].
      rewrite PF.sheight_SIf in Hf. destruct f as [|f]; [lia|]. rewrite PF.nd_SIf in Hk.
      rewrite PF.run_SIf in Hr. cbn [P.next_scope].
      rewrite PF.embed_SIf, eval_NIf, (sem_scalar (P.vnames names scope) rho c (S f) e s ltac:(lia) Hwc Henv).
      destruct (F.sev rho c) as [vc|xx].
      2:{ inversion Hr; subst r. cbn [lift run_concl]. destruct xx; eexists; eexists; reflexivity. }
      cbn [lift]. rewrite truthy_inj.
      destruct (F.struthy vc); apply (block_run_concl scope locs e).
      + exact (eblock_list n f (IH n ltac:(lia)) ltac:(lia) t rho scope locs e s lp k r Hinv Hok ltac:(lia) Hwt ltac:(lia) Hr).
      + exact (eblock_list n f (IH n ltac:(lia)) ltac:(lia) el rho scope locs e s lp (k + P.ndecls t) r Hinv
                 (scope_ok_mono k (k + P.ndecls t) scope Hok ltac:(lia) ltac:(lia)) ltac:(lia) Hwe ltac:(lia) Hr).
    - (* if without else *)
      rewrite PF.wf_SIf1 in Hwf. apply andb_true_iff in Hwf. destruct Hwf as [Hwc Hwt].
      rewrite PF.sheight_SIf1 in Hf. destruct f as [|f]; [lia|]. rewrite PF.nd_SIf1 in Hk.
      rewrite PF.run_SIf1 in Hr. cbn [P.next_scope].
      rewrite PF.embed_SIf1, eval_NIf1, (sem_scalar (P.vnames names scope) rho c (S f) e s ltac:(lia) Hwc Henv).
      destruct (F.sev rho c) as [vc|xx].
      2:{ inversion Hr; subst r. cbn [lift run_concl]. destruct xx; eexists; eexists; reflexivity. }
      cbn [lift]. rewrite truthy_inj.
      destruct (F.struthy vc).
      + apply (block_run_concl scope locs e).
        exact (eblock_list n f (IH n ltac:(lia)) ltac:(lia) t rho scope locs e s lp k r Hinv Hok ltac:(lia) Hwt ltac:(lia) Hr).
      + inversion Hr; subst r. exists e, s, []. rewrite app_nil_r. split; [reflexivity|exact Hinv].
    - (* for *)
      rewrite PF.wf_SWhile in Hwf. apply andb_true_iff in Hwf. destruct Hwf as [Hwc Hwb].
      rewrite PF.sheight_SWhile in Hf. destruct f as [|f]; [lia|]. rewrite PF.nd_SWhile in Hk. cbn [P.next_scope].
      rewrite PF.embed_SWhile, eval_NFor_cond.
      destruct Hinv as [Henvp Hsto].
      pose proof (wloop_sem f c b e scope locs k (S n) ltac:(intros j Hj; apply IH; lia) ltac:(lia) ltac:(lia) ltac:(lia) Hok Hk Henvp
                    (S f) rho s r ltac:(lia) Hsto ltac:(lia) Hwc Hwb Hr) as H.
      destruct r as [[rho' v]|[xx|rho'|rho']]; cbn [run_concl]; try contradiction.
      + destruct H as [s' [H [Hs' ->]]]. exists e, s', []. rewrite app_nil_r. split; [exact H|split; assumption].
      + destruct H as [s' H]. exists e, s'. exact H.
    - (* for { b } *)
      rewrite PF.wf_SLoop in Hwf. rename Hwf into Hwb.
      rewrite PF.sheight_SLoop in Hf. destruct f as [|f]; [lia|]. rewrite PF.nd_SLoop in Hk. cbn [P.next_scope].
      rewrite PF.embed_SLoop, eval_NFor_plain.
      destruct Hinv as [Henvp Hsto].
      pose proof (ploop_sem f b e scope locs k (S n) ltac:(intros j Hj; apply IH; lia) ltac:(lia) ltac:(lia) Hok Hk Henvp
                    (S f) rho s r ltac:(lia) Hsto ltac:(lia) Hwb Hr) as H.
      destruct r as [[rho' v]|[xx|rho'|rho']]; cbn [run_concl]; try contradiction.
      + destruct H as [s' [H [Hs' ->]]]. exists e, s', []. rewrite app_nil_r. split; [exact H|split; assumption].
      + destruct H as [s' H]. exists e, s'. exact H.
    - (* for x := e; c; p { b } *)
      rewrite PF.wf_SFor in Hwf. apply andb_true_iff in Hwf. destruct Hwf as [Hwf Hwb].
      apply andb_true_iff in Hwf. destruct Hwf as [Hwf Hwp]. apply andb_true_iff in Hwf. destruct Hwf as [Hwf Hsp].
      apply andb_true_iff in Hwf. destruct Hwf as [Hwx Hwc].
      rewrite PF.sheight_SFor in Hf. destruct f as [|f]; [lia|]. rewrite PF.nd_SFor in Hk. cbn [P.next_scope].
      rewrite PF.embed_SFor, eval_NFor3. rewrite PF.run_SFor in Hr.
      destruct Hinv as [Henvp Hsto].
      assert (Hinv1 : sem_inv rho scope locs ([] :: e) s) by (split; [apply env_part_push; exact Henvp|exact Hsto]).
      rewrite eval_NVar, (sem_scalar (P.vnames names scope) rho x f ([] :: e) s ltac:(lia) Hwx (sem_inv_env_ok rho scope locs ([] :: e) s k Hinv1 Hok)).
      destruct (F.sev rho x) as [v|xx]; [|inversion Hr; subst r; cbn [lift run_concl]; destruct xx; eexists; eexists; reflexivity].
      cbn [lift].
      pose proof (sem_inv_decl rho scope locs ([] :: e) s v k Hinv1 Hok ltac:(lia)) as [Henv2 Hsto2].
      unfold alloc in *. cbn [fst snd] in *.
      destruct (P.loop3 (P.run_stmt n) c p b n (rho ++ [v])) as [r0|] eqn:E; [|discriminate]. cbn [option_map] in Hr. inversion Hr; subst r. clear Hr.
      assert (Hok2 : scope_ok (S k) (scope ++ [k])).
      { destruct Hok as [Hf0 Hk0]. split; [|lia]. apply Forall_app. split; [eapply Forall_impl; [|exact Hf0]; cbn; intros; lia|constructor; [lia|constructor]]. }
      assert (Hl2 : length (rho ++ [v]) = length (scope ++ [k])) by (rewrite !app_length; cbn [length]; lia).
      assert (Hlr : length (rho ++ [v]) = S (length rho)) by (rewrite app_length; cbn [length]; lia).
      pose proof (floop_sem n f c p b e _ (scope ++ [k]) (locs ++ [length (store s)]) (S k) lp
                    (IH n ltac:(lia)) ltac:(lia) ltac:(lia) ltac:(lia) ltac:(lia) Hok2 ltac:(lia) Henv2 Hsp
                    n (S f) (rho ++ [v]) _ r0 ltac:(lia) Hsto2 Hl2 ltac:(rewrite Hlr; exact Hwc) ltac:(rewrite Hlr; exact Hwp)
                    ltac:(rewrite Hlr; exact Hwb) E) as H.
      pose proof (PF.loop3_len n c p b (PF.run_stmt_length n) n (rho ++ [v]) r0 E) as Hlen.
      assert (Hll : length locs = length rho) by (destruct Hsto as [H0 _]; exact H0).
      destruct r0 as [[rho' v']|[xx|rho'|rho']]; cbn [run_concl P.trunc PF.lens_ok] in *; try contradiction.
      + destruct H as [s' [H [Hs' ->]]]. exists e, s', []. rewrite app_nil_r. split; [exact H|].
        split; [exact Henvp|]. apply (store_part_firstn rho' locs [length (store s)] s' (length rho) Hs' Hll). rewrite Hlr in Hlen. lia.
      + destruct H as [s' H]. exists e, s'. exact H.
    - (* break *)
      cbn [P.run_stmt] in Hr. inversion Hr; subst r. cbn [P.embed_stmt run_concl]. rewrite eval_NBreak.
      exists e, s, []. rewrite app_nil_r. split; [reflexivity|exact (proj2 Hinv)].
    - (* continue *)
      cbn [P.run_stmt] in Hr. inversion Hr; subst r. cbn [P.embed_stmt run_concl]. rewrite eval_NContinue.
      exists e, s, []. rewrite app_nil_r. split; [reflexivity|exact (proj2 Hinv)].
  Qed.

  (* ---------------------------------------------------------------- the statement loop of Sem.run *)
  Definition go_loop (fuel : nat) : env -> state -> list node -> value -> outcome * state :=
    fix go (e : env) (s : state) (l : list node) (last : value) : outcome * state :=
      match l with
      | [] => (OVal last, s)
      | x :: r => match eval fuel e s x with
                  | (OVal v, e', s') => go e' s' r (if is_expression x then v else VNil)
                  | (o, _, s') => (o, s')
                  end
      end.
  Lemma go_loop_cons fuel e s x r last : go_loop fuel e s (x :: r) last =
    match eval fuel e s x with
    | (OVal v, e', s') => go_loop fuel e' s' r (if is_expression x then v else VNil)
    | (o, _, s') => (o, s')
    end.
  Proof. reflexivity. Qed.

  (* the outcome of a whole program: break / continue cannot reach the top level of a well-formed program *)
  Definition lift_top (r : (list F.sval * F.sval) + P.stop) : outcome :=
    match r with inl (_, v) => OVal (inj v) | inr (P.StErr x) => lift (inr x) | inr (P.StBrk _) => OBrk | inr (P.StCont _) => OCont end.

  Lemma go_program n f : n <= f -> forall l rho scope locs e s last k r,
    sem_inv rho scope locs e s -> scope_ok k scope -> k + P.ndecls l <= length names ->
    P.wf_stmts false (length rho) l = true -> P.max_height l <= f -> P.run_stmts n rho l last = Some r ->
    fst (go_loop (S f) e s (P.embed_stmts names k scope l) (inj last)) = lift_top r.
  Proof.
    intros Hnf. induction l as [|st r0 IH]; intros rho scope locs e s last k r Hinv Hok Hn Hwf Hh Hr.
    - cbn in Hr. inversion Hr. reflexivity.
    - rewrite PF.wf_stmts_cons in Hwf. apply andb_true_iff in Hwf. destruct Hwf as [Hws Hwr].
      rewrite PF.max_height_cons in Hh. rewrite PF.ndecls_cons in Hn. rewrite PF.run_stmts_cons in Hr.
      rewrite PF.embed_stmts_cons, go_loop_cons.
      destruct (P.run_stmt n rho st) as [[[rho1 v1]|x]|] eqn:Er; [| |discriminate].
      + pose proof (eval_stmt n st rho scope locs e s f false k _ Hinv Hok ltac:(lia) Hws ltac:(lia) Hnf Er) as He. cbn [run_concl] in He.
        destruct He as [e1 [s1 [x1 [He Hinv1]]]]. rewrite He, (stmt_last n rho k scope st rho1 v1 Er).
        pose proof (PF.run_stmt_length n rho st _ Er) as Hlen. cbn [PF.len_ok] in Hlen. rewrite <- Hlen in Hwr.
        exact (IH rho1 _ _ e1 s1 v1 (k + P.nd st) r Hinv1 (scope_ok_next k scope st Hok ltac:(lia)) ltac:(lia) Hwr ltac:(lia) Hr).
      + inversion Hr; subst r.
        pose proof (eval_stmt n st rho scope locs e s f false k _ Hinv Hok ltac:(lia) Hws ltac:(lia) Hnf Er) as He.
        pose proof (PF.no_escape n rho st _ _ Hws Er) as Hno.
        destruct x as [x|rho1|rho1]; cbn [run_concl PF.no_ctl] in *; try contradiction.
        destruct He as [e1 [s1 He]]. rewrite He. destruct x; reflexivity.
  Qed.

  Lemma predeclare_none : forall l k scope acc,
    fold_left (fun acc st =>
                 match st with
                 | NFunc (Some nm) _ _ _ => let '(e, s) := acc in let '(l, s') := alloc s VNil in (bind_name e nm l true, s')
                 | _ => acc end) (P.embed_stmts names k scope l) acc = acc.
  Proof.
    induction l as [|st r IH]; intros k scope acc; [reflexivity|].
    rewrite PF.embed_stmts_cons. cbn [fold_left].
    destruct st as [x|i x|i o x|i up|x|c t el|c t|c b|b|x c p b| |]; cbn [P.embed_stmt]; try apply IH.
    destruct x; cbn [F.embed]; apply IH.
  Qed.

  Theorem sem_var_program l n f r :
    P.wf_stmts false 0 l = true -> P.ndecls l <= length names -> P.max_height l <= f -> n <= f ->
    P.run_stmts n [] l F.VNil = Some r ->
    fst (Sem.run (S f) (P.embed_stmts names 0 [] l)) = lift_top r.
  Proof.
    intros Hwf Hn Hh Hnf Hr. unfold Sem.run. rewrite predeclare_none.
    exact (go_program n f Hnf l [] [] [] ([] :: global_env) init_state F.VNil 0 r sem_inv_init
             (conj (Forall_nil _) (Nat.le_0_l _)) Hn Hwf Hh Hr).
  Qed.
End Names.
