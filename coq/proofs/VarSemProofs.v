(* Stage B, part 2: the reference semantics Sem.run on straight-line programs over top-level variables computes
   exactly [run_stmts]. *)
From Coq Require Import List ZArith NArith Bool Arith Lia.
Require Import RV.model.Syntax RV.model.Sem RV.proofs.SemScalarProofs.
Require RV.model.ScalarFrag RV.model.VarProg RV.proofs.VarProgFacts.
Module P := RV.model.VarProg.
Module PF := RV.proofs.VarProgFacts.
Import ListNotations.
Local Open Scope nat_scope.

Lemma eval_NVar f e s name v : eval (S f) e s (NVar name v) =
  match eval f e s v with
  | (OVal x, e1, s1) => let '(l, s2) := alloc s1 x in (OVal VNil, bind_name e1 name l false, s2)
  | other => other
  end.
Proof. reflexivity. Qed.

Lemma eval_NAssign_eq f e s name v : eval (S f) e s (NAssign name [61%N] v) =
  match eval f e s v with
  | (OVal x, e1, s1) =>
      match (match lookup e1 name with Some (l, _) => Some (set_store s1 l x) | None => None end) with
      | Some s2 => (OVal VNil, e1, s2)
      | None => (OErr XUndefined, e1, s1)
      end
  | other => other
  end.
Proof. reflexivity. Qed.

Lemma sbeq_refl (a : list N) : beq a a = true.
Proof. unfold beq. destruct (list_eq_dec N.eq_dec a a); [reflexivity|contradiction]. Qed.
Lemma sbeq_neq (a b : list N) : a <> b -> beq a b = false.
Proof. intros H. unfold beq. destruct (list_eq_dec N.eq_dec a b); [contradiction|reflexivity]. Qed.

Lemma nth_list_set_same (A : Type) (l : list A) i v d : i < length l -> nth i (list_set l i v) d = v.
Proof. revert i; induction l as [|x l IH]; intros [|i] H; cbn in *; try lia; [reflexivity|apply IH; lia]. Qed.
Lemma nth_list_set_other (A : Type) (l : list A) i j v d : i <> j -> nth j (list_set l i v) d = nth j l d.
Proof. revert i j; induction l as [|x l IH]; intros [|i] [|j] H; cbn; try reflexivity; try lia. apply IH. lia. Qed.
Lemma length_list_set (A : Type) (l : list A) i v : length (list_set l i v) = length l.
Proof. revert i; induction l as [|x l IH]; intros [|i]; cbn; auto. Qed.

Section Names.
  Variable names : list (list N).
  Hypothesis names_nodup : NoDup names.
  Hypothesis names_nonempty : Forall (fun nm => nm <> []) names.

  Lemma names_distinct i j : i < length names -> j < length names -> i <> j -> nth i names [] <> nth j names [].
  Proof. intros Hi Hj Hne Heq. apply Hne. exact (proj1 (NoDup_nth names []) names_nodup i j Hi Hj Heq). Qed.
  Lemma name_nonempty i : i < length names -> nth i names [] <> [].
  Proof. intros Hi. exact (proj1 (Forall_forall _ names) names_nonempty _ (nth_In names [] Hi)). Qed.

  (* the environment and the store after the variables rho have been declared *)
  Definition sem_inv (rho : list F.sval) (e : env) (s : state) : Prop :=
    length rho <= length names /\
    e <> [] /\
    length (store s) = 2 + length rho /\
    forall i, i < length rho ->
      lookup e (nth i names []) = Some (2 + i, false) /\ nth (2 + i) (store s) VNil = inj (nth i rho F.VNil).

  Lemma sem_inv_env_ok rho e s : sem_inv rho e s -> env_ok names rho e s.
  Proof.
    intros [Hl [_ [_ H]]] i v Hi.
    assert (Hlt : i < length rho) by (apply nth_error_Some; congruence).
    split; [apply name_nonempty; lia|].
    destruct (H i Hlt) as [Hk Hv]. exists (2 + i), false. split; [exact Hk|].
    rewrite Hv. rewrite (nth_error_nth rho i F.VNil Hi). reflexivity.
  Qed.

  Lemma sem_inv_init : sem_inv [] ([] :: global_env) init_state.
  Proof. split; [cbn; lia|]. split; [discriminate|]. split; [reflexivity|]. intros i Hi. cbn in Hi. lia. Qed.

  Lemma lookup_bind_same e nm l c : e <> [] -> lookup (bind_name e nm l c) nm = Some (l, c).
  Proof. destruct e as [|sc r]; [contradiction|]. intros _. cbn. rewrite sbeq_refl. reflexivity. Qed.
  Lemma lookup_bind_other e nm nm' l c : e <> [] -> nm' <> nm -> lookup (bind_name e nm l c) nm' = lookup e nm'.
  Proof. destruct e as [|sc r]; [contradiction|]. intros _ H. cbn. rewrite (sbeq_neq nm' nm H). reflexivity. Qed.
  Lemma bind_nonempty e nm l c : bind_name e nm l c <> [].
  Proof. destruct e; discriminate. Qed.

  (* declaring the next variable *)
  Lemma sem_inv_decl rho e s v : sem_inv rho e s -> length rho < length names ->
    sem_inv (rho ++ [v]) (bind_name e (nth (length rho) names []) (length (store s)) false) (snd (alloc s (inj v))).
  Proof.
    intros [Hl [Hne [Hst H]]] Hlt. unfold sem_inv, alloc. cbn [snd store].
    split; [rewrite app_length; cbn; lia|]. split; [apply bind_nonempty|].
    split; [rewrite !app_length; cbn; lia|].
    intros i Hi. rewrite app_length in Hi. cbn in Hi.
    destruct (Nat.eq_dec i (length rho)) as [->|Hd].
    - rewrite lookup_bind_same by exact Hne. rewrite Hst. split; [reflexivity|].
      rewrite app_nth2 by lia. rewrite Hst, Nat.sub_diag. rewrite app_nth2 by lia. rewrite Nat.sub_diag. reflexivity.
    - assert (Hi' : i < length rho) by lia.
      rewrite lookup_bind_other by (try exact Hne; apply names_distinct; lia).
      destruct (H i Hi') as [Hk Hv]. split; [exact Hk|].
      rewrite app_nth1 by lia. rewrite Hv. rewrite app_nth1 by lia. reflexivity.
  Qed.

  (* assigning to a declared variable *)
  Lemma set_nth_length i v rho : length (P.set_nth i v rho) = length rho.
  Proof. revert i; induction rho as [|x r IH]; intros [|i]; cbn; auto. Qed.
  Lemma nth_set_nth_same i v rho d : i < length rho -> nth i (P.set_nth i v rho) d = v.
  Proof. revert i; induction rho as [|x r IH]; intros [|i] H; cbn in *; try lia; [reflexivity|apply IH; lia]. Qed.
  Lemma nth_set_nth_other i j v rho d : i <> j -> nth j (P.set_nth i v rho) d = nth j rho d.
  Proof. revert i j; induction rho as [|x r IH]; intros [|i] [|j] H; cbn; try reflexivity; try lia. apply IH. lia. Qed.

  Lemma sem_inv_set rho e s i v : sem_inv rho e s -> i < length rho ->
    sem_inv (P.set_nth i v rho) e (set_store s (2 + i) (inj v)).
  Proof.
    intros [Hl [Hne [Hst H]]] Hi. unfold sem_inv, set_store. cbn [store].
    split; [rewrite set_nth_length; exact Hl|]. split; [exact Hne|].
    split; [rewrite length_list_set, set_nth_length; exact Hst|].
    intros j Hj. rewrite set_nth_length in Hj. destruct (H j Hj) as [Hk Hv]. split; [exact Hk|].
    destruct (Nat.eq_dec j i) as [->|Hd].
    - rewrite nth_list_set_same by lia. rewrite nth_set_nth_same by lia. reflexivity.
    - rewrite nth_list_set_other by lia. rewrite nth_set_nth_other by lia. exact Hv.
  Qed.
  (* ---------------------------------------------------------------- one statement *)
  Lemma eval_stmt rho e s st f :
    sem_inv rho e s -> PF.wf_stmt (length rho) st = true -> PF.next_k (length rho) st <= length names ->
    F.height (P.stmt_exp st) <= f ->
    match F.sev rho (P.stmt_exp st) with
    | inr x => eval (S f) e s (PF.embed_stmt names (length rho) st) = (lift (inr x), e, s)
    | inl v => exists e' s',
        eval (S f) e s (PF.embed_stmt names (length rho) st) = (OVal (inj (PF.stmt_value st v)), e', s') /\
        sem_inv (PF.next_rho rho st v) e' s'
    end.
  Proof.
    intros Hinv Hwf Hk Hf. pose proof (sem_inv_env_ok rho e s Hinv) as Henv.
    destruct st as [x|i x|x]; cbn [PF.embed_stmt PF.wf_stmt PF.next_k P.stmt_exp PF.next_rho PF.stmt_value] in *.
    - (* x := e *)
      rewrite eval_NVar, (sem_scalar names rho x f e s Hf Hwf Henv).
      destruct (F.sev rho x) as [v|[|]]; cbn [lift]; try reflexivity.
      eexists. eexists. split; [reflexivity|].
      destruct Hinv as [Hl [Hne [Hst H]]].
      exact (sem_inv_decl rho e s v (conj Hl (conj Hne (conj Hst H))) ltac:(lia)).
    - (* x = e *)
      apply andb_true_iff in Hwf. destruct Hwf as [Hi Hwf]. apply Nat.ltb_lt in Hi.
      rewrite eval_NAssign_eq, (sem_scalar names rho x f e s Hf Hwf Henv).
      destruct (F.sev rho x) as [v|[|]]; cbn [lift]; try reflexivity.
      destruct Hinv as [Hl [Hne [Hst H]]]. destruct (H i Hi) as [Hlk _]. rewrite Hlk.
      eexists. eexists. split; [reflexivity|].
      exact (sem_inv_set rho e s i v (conj Hl (conj Hne (conj Hst H))) Hi).
    - (* e *)
      rewrite (sem_scalar names rho x (S f) e s ltac:(lia) Hwf Henv).
      destruct (F.sev rho x) as [v|[|]]; cbn [lift]; try reflexivity.
      exists e, s. split; [reflexivity|exact Hinv].
  Qed.

  (* ---------------------------------------------------------------- the statement loop of Sem.run *)
  Definition go_loop (fuel : nat) : env -> state -> list node -> value -> outcome * state :=
    fix go (e : env) (s : state) (l : list node) (last : value) : outcome * state :=
      match l with
      | [] => (OVal last, s)
      | x :: r => match eval fuel e s x with
                  | (OVal v, e', s') => go e' s' r (if is_expression x then v else VNil)
                  | (o, _, s') => (o, s')
                  end
      end.

  Lemma stmt_last st k v : (if is_expression (PF.embed_stmt names k st) then inj (PF.stmt_value st v) else VNil) = inj (PF.stmt_value st v).
  Proof. destruct st; cbn [PF.embed_stmt PF.stmt_value]; try reflexivity. rewrite PF.embed_is_expression. reflexivity. Qed.

  Lemma go_program f : forall l rho e s last,
    sem_inv rho e s -> P.wf_stmts (length rho) l = true -> length rho + P.ndecls l <= length names ->
    P.max_height l <= f ->
    fst (go_loop (S f) e s (P.embed_stmts names (length rho) l) (inj last)) = lift (P.run_stmts rho l last).
  Proof.
    induction l as [|st r IH]; intros rho e s last Hinv Hwf Hn Hh; [reflexivity|].
    rewrite PF.wf_stmts_cons in Hwf. apply andb_true_iff in Hwf. destruct Hwf as [Hws Hwr].
    rewrite PF.max_height_cons in Hh. rewrite PF.embed_stmts_cons, PF.run_stmts_cons.
    assert (Hnk : PF.next_k (length rho) st <= length names) by (rewrite <- PF.ndecls_cons in Hn; lia).
    pose proof (eval_stmt rho e s st f Hinv Hws Hnk ltac:(lia)) as He.
    cbn [go_loop]. fold (go_loop (S f)).
    destruct (F.sev rho (P.stmt_exp st)) as [v|x].
    - destruct He as [e' [s' [He Hinv']]]. rewrite He, stmt_last.
      assert (Hlen : length (PF.next_rho rho st v) = PF.next_k (length rho) st).
      { destruct st; cbn [PF.next_rho PF.next_k]; [rewrite app_length; cbn; lia|apply set_nth_length|reflexivity]. }
      rewrite <- Hlen. apply IH; [exact Hinv'|rewrite Hlen; exact Hwr|rewrite Hlen, PF.ndecls_cons; exact Hn|lia].
    - rewrite He. destruct x; reflexivity.
  Qed.

  Lemma predeclare_none : forall l k acc,
    fold_left (fun acc st =>
                 match st with
                 | NFunc (Some nm) _ _ _ => let '(e, s) := acc in let '(l, s') := alloc s VNil in (bind_name e nm l true, s')
                 | _ => acc end) (P.embed_stmts names k l) acc = acc.
  Proof.
    induction l as [|st r IH]; intros k acc; [reflexivity|].
    rewrite PF.embed_stmts_cons. cbn [fold_left].
    destruct st as [x|i x|x]; cbn [PF.embed_stmt]; try apply IH.
    destruct x; cbn [F.embed]; apply IH.
  Qed.

  Theorem sem_var_program l f :
    P.wf_stmts 0 l = true -> P.ndecls l <= length names -> P.max_height l <= f ->
    fst (Sem.run (S f) (P.embed_stmts names 0 l)) = lift (P.run_stmts [] l F.VNil).
  Proof.
    intros Hwf Hn Hh. unfold Sem.run. rewrite predeclare_none.
    exact (go_program f l [] ([] :: global_env) init_state F.VNil sem_inv_init Hwf Hn Hh).
  Qed.
End Names.
