(* Stages B-D, part 2: the reference semantics Sem.run on programs over top-level variables (conditionals and condition
   loops nested to any depth) computes exactly [run_stmts], whenever the latter's fuel suffices. *)
From Coq Require Import List ZArith NArith Bool Arith Lia.
Require Import RV.model.Syntax RV.model.Sem RV.proofs.SemScalarProofs.
Require RV.model.ScalarFrag RV.model.VarProg RV.proofs.VarProgFacts.
Module P := RV.model.VarProg.
Module PF := RV.proofs.VarProgFacts.
Import ListNotations.
Local Open Scope nat_scope.

Lemma eval_NVar f e s name v : eval (S f) e s (NVar name v) =
  match eval f e s v with
  | (OVal x, e1, s1) => let '(l, s2) := alloc s1 x in (OVal VNil, bind_name e1 name l false, s2)
  | other => other
  end.
Proof. reflexivity. Qed.

Lemma eval_NAssign_eq f e s name v : eval (S f) e s (NAssign name [61%N] v) =
  match eval f e s v with
  | (OVal x, e1, s1) =>
      match (match lookup e1 name with Some (l, _) => Some (set_store s1 l x) | None => None end) with
      | Some s2 => (OVal VNil, e1, s2)
      | None => (OErr XUndefined, e1, s1)
      end
  | other => other
  end.
Proof. reflexivity. Qed.

(* the statement loop and the block of Sem.eval, as standalone functions of the evaluator one fuel level down *)
Definition es_loop (f : nat) : env -> state -> list node -> value -> outcome * env * state :=
  fix es (e : env) (s : state) (l : list node) (last : value) : outcome * env * state :=
    match l with
    | [] => (OVal last, e, s)
    | x :: r => match eval f e s x with
                | (OVal v, e', s') => es e' s' r (if is_expression x then v else VNil)
                | other => other
                end
    end.
Definition eblock (f : nat) (e : env) (s : state) (l : list node) : outcome * env * state :=
  match es_loop f ([] :: e) s l VNil with (o, _, s') => (o, e, s') end.

Lemma eval_NIf f e s c cns al : eval (S f) e s (NIf c cns (Some al)) =
  match eval f e s c with
  | (OVal v, e1, s1) => if truthy s1 v then eblock f e1 s1 cns else eblock f e1 s1 al
  | other => other
  end.
Proof. reflexivity. Qed.

(* the condition loop of Sem.eval, as a standalone function of the evaluator one fuel level down *)
Definition wloop (f : nat) (e : env) (c : node) (body : list node) : nat -> state -> outcome * env * state :=
  fix lp (k : nat) (s : state) : outcome * env * state :=
    match k with
    | O => (OErr XFuel, e, s)
    | S k' =>
        match eval f ([] :: e) s c with
        | (OVal cv, _, s1) =>
            if truthy s1 cv then
              match eblock f ([] :: e) s1 body with
              | (OVal _, _, s') | (OCont, _, s') => lp k' s'
              | (OBrk, _, s') => (OVal VNil, e, s')
              | (o, _, s') => (o, e, s')
              end
            else (OVal VNil, e, s1)
        | (o, _, s1) => (o, e, s1)
        end
    end.
Lemma eval_NFor_cond names f e s c body : eval (S f) e s (NFor (Some (F.embed names c)) None None body) =
  wloop f e (F.embed names c) body f s.
Proof. destruct c; reflexivity. Qed.

Lemma eval_NIf1 f e s c cns : eval (S f) e s (NIf c cns None) =
  match eval f e s c with
  | (OVal v, e1, s1) => if truthy s1 v then eblock f e1 s1 cns else (OVal VNil, e1, s1)
  | other => other
  end.
Proof. reflexivity. Qed.

Lemma eval_NAssign_op f e s name o v : P.is_compound o = true ->
  eval (S f) e s (NAssign name (F.op_text o ++ [61%N]) v) =
  match lookup e name with
  | None => (OErr XUndefined, e, s)
  | Some (l, _) =>
      match eval f e s v with
      | (OVal x, e1, s1) =>
          match binop s1 (F.op_text o) (nth l (store s) VNil) x with
          | (OVal r, s2) => (OVal VNil, e1, set_store s2 l r)
          | (o', s2) => (o', e1, s2)
          end
      | other => other
      end
  end.
Proof. destruct o; try discriminate; reflexivity. Qed.
Lemma eval_NPostfix f e s name (up : bool) :
  eval (S f) e s (NPostfix name (if up then [43; 43]%N else [45; 45]%N)) =
  match lookup e name with
  | None => (OErr XUndefined, e, s)
  | Some (l, _) =>
      match nth l (store s) VNil with
      | VInt z => (OVal VNil, e, set_store s l (VInt (wrap64 (if up then z + 1 else z - 1))))
      | _ => (OErr XType, e, s)
      end
  end.
Proof. destruct up; reflexivity. Qed.

Lemma eval_NBreak f e s : eval (S f) e s NBreak = (OBrk, e, s).
Proof. reflexivity. Qed.
Lemma eval_NContinue f e s : eval (S f) e s NContinue = (OCont, e, s).
Proof. reflexivity. Qed.

Lemma sbeq_refl (a : list N) : beq a a = true.
Proof. unfold beq. destruct (list_eq_dec N.eq_dec a a); [reflexivity|contradiction]. Qed.
Lemma sbeq_neq (a b : list N) : a <> b -> beq a b = false.
Proof. intros H. unfold beq. destruct (list_eq_dec N.eq_dec a b); [contradiction|reflexivity]. Qed.

Lemma nth_list_set_same (A : Type) (l : list A) i v d : i < length l -> nth i (list_set l i v) d = v.
Proof. revert i; induction l as [|x l IH]; intros [|i] H; cbn in *; try lia; [reflexivity|apply IH; lia]. Qed.
Lemma nth_list_set_other (A : Type) (l : list A) i j v d : i <> j -> nth j (list_set l i v) d = nth j l d.
Proof. revert i j; induction l as [|x l IH]; intros [|i] [|j] H; cbn; try reflexivity; try lia. apply IH. lia. Qed.
Lemma length_list_set (A : Type) (l : list A) i v : length (list_set l i v) = length l.
Proof. revert i; induction l as [|x l IH]; intros [|i]; cbn; auto. Qed.

Section Names.
  Variable names : list (list N).
  Hypothesis names_nodup : NoDup names.
  Hypothesis names_nonempty : Forall (fun nm => nm <> []) names.

  Lemma names_distinct i j : i < length names -> j < length names -> i <> j -> nth i names [] <> nth j names [].
  Proof. intros Hi Hj Hne Heq. apply Hne. exact (proj1 (NoDup_nth names []) names_nodup i j Hi Hj Heq). Qed.
  Lemma name_nonempty i : i < length names -> nth i names [] <> [].
  Proof. intros Hi. exact (proj1 (Forall_forall _ names) names_nonempty _ (nth_In names [] Hi)). Qed.

  (* the environment and the store after the variables rho have been declared *)
  Definition sem_inv (rho : list F.sval) (e : env) (s : state) : Prop :=
    length rho <= length names /\
    e <> [] /\
    length (store s) = 2 + length rho /\
    forall i, i < length rho ->
      lookup e (nth i names []) = Some (2 + i, false) /\ nth (2 + i) (store s) VNil = inj (nth i rho F.VNil).

  Lemma sem_inv_env_ok rho e s : sem_inv rho e s -> env_ok names rho e s.
  Proof.
    intros [Hl [_ [_ H]]] i v Hi.
    assert (Hlt : i < length rho) by (apply nth_error_Some; congruence).
    split; [apply name_nonempty; lia|].
    destruct (H i Hlt) as [Hk Hv]. exists (2 + i), false. split; [exact Hk|].
    rewrite Hv. rewrite (nth_error_nth rho i F.VNil Hi). reflexivity.
  Qed.

  Lemma sem_inv_init : sem_inv [] ([] :: global_env) init_state.
  Proof. split; [cbn; lia|]. split; [discriminate|]. split; [reflexivity|]. intros i Hi. cbn in Hi. lia. Qed.

  Lemma lookup_bind_same e nm l c : e <> [] -> lookup (bind_name e nm l c) nm = Some (l, c).
  Proof. destruct e as [|sc r]; [contradiction|]. intros _. cbn. rewrite sbeq_refl. reflexivity. Qed.
  Lemma lookup_bind_other e nm nm' l c : e <> [] -> nm' <> nm -> lookup (bind_name e nm l c) nm' = lookup e nm'.
  Proof. destruct e as [|sc r]; [contradiction|]. intros _ H. cbn. rewrite (sbeq_neq nm' nm H). reflexivity. Qed.
  Lemma bind_nonempty e nm l c : bind_name e nm l c <> [].
  Proof. destruct e; discriminate. Qed.

  (* declaring the next variable *)
  Lemma sem_inv_decl rho e s v : sem_inv rho e s -> length rho < length names ->
    sem_inv (rho ++ [v]) (bind_name e (nth (length rho) names []) (length (store s)) false) (snd (alloc s (inj v))).
  Proof.
    intros [Hl [Hne [Hst H]]] Hlt. unfold sem_inv, alloc. cbn [snd store].
    split; [rewrite app_length; cbn; lia|]. split; [apply bind_nonempty|].
    split; [rewrite !app_length; cbn; lia|].
    intros i Hi. rewrite app_length in Hi. cbn in Hi.
    destruct (Nat.eq_dec i (length rho)) as [->|Hd].
    - rewrite lookup_bind_same by exact Hne. rewrite Hst. split; [reflexivity|].
      rewrite app_nth2 by lia. rewrite Hst, Nat.sub_diag. rewrite app_nth2 by lia. rewrite Nat.sub_diag. reflexivity.
    - assert (Hi' : i < length rho) by lia.
      rewrite lookup_bind_other by (try exact Hne; apply names_distinct; lia).
      destruct (H i Hi') as [Hk Hv]. split; [exact Hk|].
      rewrite app_nth1 by lia. rewrite Hv. rewrite app_nth1 by lia. reflexivity.
  Qed.

  (* assigning to a declared variable *)
  Lemma sem_inv_set rho e s i v : sem_inv rho e s -> i < length rho ->
    sem_inv (P.set_nth i v rho) e (set_store s (2 + i) (inj v)).
  Proof.
    intros [Hl [Hne [Hst H]]] Hi. unfold sem_inv, set_store. cbn [store].
    split; [rewrite PF.set_nth_length; exact Hl|]. split; [exact Hne|].
    split; [rewrite length_list_set, PF.set_nth_length; exact Hst|].
    intros j Hj. rewrite PF.set_nth_length in Hj. destruct (H j Hj) as [Hk Hv]. split; [exact Hk|].
    destruct (Nat.eq_dec j i) as [->|Hd].
    - rewrite nth_list_set_same by lia. rewrite PF.nth_set_nth_same by lia. reflexivity.
    - rewrite nth_list_set_other by lia. rewrite PF.nth_set_nth_other by lia. exact Hv.
  Qed.

  (* entering and leaving a block: an empty scope on top changes nothing the invariant talks about *)
  Lemma sem_inv_push rho e s : sem_inv rho e s -> sem_inv rho ([] :: e) s.
  Proof. intros [Hl [Hne [Hst H]]]. split; [exact Hl|]. split; [discriminate|]. split; [exact Hst|]. exact H. Qed.
  Lemma sem_inv_pop rho e s : e <> [] -> sem_inv rho ([] :: e) s -> sem_inv rho e s.
  Proof. intros Hne [Hl [_ [Hst H]]]. split; [exact Hl|]. split; [exact Hne|]. split; [exact Hst|]. exact H. Qed.

  (* the environment half of the invariant does not depend on the state, the store half not on the environment *)
  Lemma sem_inv_swap rho e s rho' e' s' : sem_inv rho e s -> sem_inv rho' e' s' -> length rho' = length rho ->
    sem_inv rho' e s'.
  Proof.
    intros [Hl [Hne [Hst H]]] [Hl' [Hne' [Hst' H']]] Hlen.
    split; [exact Hl'|]. split; [exact Hne|]. split; [exact Hst'|].
    intros i Hi. split; [apply H; lia|apply H'; exact Hi].
  Qed.

  Lemma es_loop_cons f e s x r last : es_loop f e s (x :: r) last =
    match eval f e s x with
    | (OVal v, e', s') => es_loop f e' s' r (if is_expression x then v else VNil)
    | other => other
    end.
  Proof. reflexivity. Qed.
  Lemma wloop_S f e c body k s : wloop f e c body (S k) s =
    match eval f ([] :: e) s c with
    | (OVal cv, _, s1) =>
        if truthy s1 cv then
          match eblock f ([] :: e) s1 body with
          | (OVal _, _, s') | (OCont, _, s') => wloop f e c body k s'
          | (OBrk, _, s') => (OVal VNil, e, s')
          | (o, _, s') => (o, e, s')
          end
        else (OVal VNil, e, s1)
    | (o, _, s1) => (o, e, s1)
    end.
  Proof. reflexivity. Qed.

  (* ---------------------------------------------------------------- statements, lists, blocks, loops *)
  (* what the evaluator returns for a statement whose source-level run gave r *)
  Definition stmt_concl (r : (list F.sval * F.sval) + P.stop) (res : outcome * env * state) : Prop :=
    match r with
    | inl (rho', v) => exists e' s', res = (OVal (inj v), e', s') /\ sem_inv rho' e' s'
    | inr (P.StErr x) => exists e' s', res = (lift (inr x), e', s')
    | inr (P.StBrk rho') => exists e' s', res = (OBrk, e', s') /\ sem_inv rho' e' s'
    | inr (P.StCont rho') => exists e' s', res = (OCont, e', s') /\ sem_inv rho' e' s'
    end.
  (* the same for a block: the environment is the one the block was entered with *)
  Definition block_concl (e : env) (r : (list F.sval * F.sval) + P.stop) (res : outcome * env * state) : Prop :=
    match r with
    | inl (rho', v) => exists s', res = (OVal (inj v), e, s') /\ sem_inv rho' e s'
    | inr (P.StErr x) => exists s', res = (lift (inr x), e, s')
    | inr (P.StBrk rho') => exists s', res = (OBrk, e, s') /\ sem_inv rho' e s'
    | inr (P.StCont rho') => exists s', res = (OCont, e, s') /\ sem_inv rho' e s'
    end.
  Lemma block_stmt_concl e r res : block_concl e r res -> stmt_concl r res.
  Proof.
    destruct r as [[rho' v]|[x|rho'|rho']]; cbn [block_concl stmt_concl].
    - intros [s' [H Hi]]. exists e, s'. split; assumption.
    - intros [s' H]. exists e, s'. exact H.
    - intros [s' [H Hi]]. exists e, s'. split; assumption.
    - intros [s' [H Hi]]. exists e, s'. split; assumption.
  Qed.

  (* what holds of one statement run with source fuel n, evaluated with fuel S f *)
  Definition stmt_sem (n : nat) : Prop :=
    forall st rho e s f top lp r,
      sem_inv rho e s -> P.wf_stmt top lp (length rho) st = true -> P.next_k (length rho) st <= length names ->
      P.sheight st <= f -> n <= f -> P.run_stmt n rho st = Some r ->
      stmt_concl r (eval (S f) e s (P.embed_stmt names (length rho) st)).

  Lemma stmt_last n rho st rho' v : P.run_stmt n rho st = Some (inl (rho', v)) ->
    (if is_expression (P.embed_stmt names (length rho) st) then inj v else VNil) = inj v.
  Proof.
    intros Hr. rewrite PF.embed_stmt_is_expression. destruct (P.is_expr_stmt st) eqn:E; [reflexivity|].
    rewrite (PF.run_stmt_value n rho st rho' v Hr E). reflexivity.
  Qed.

  Lemma es_list n f : stmt_sem n -> n <= f -> forall l rho e s last top lp r,
    sem_inv rho e s -> P.wf_stmts top lp (length rho) l = true -> length rho + P.ndecls l <= length names ->
    P.max_height l <= f -> P.run_stmts n rho l last = Some r ->
    stmt_concl r (es_loop (S f) e s (P.embed_stmts names (length rho) l) (inj last)).
  Proof.
    intros Hst Hnf. induction l as [|st r0 IH]; intros rho e s last top lp r Hinv Hwf Hn Hh Hr.
    - cbn in Hr. inversion Hr; subst r. cbn. exists e, s. split; [reflexivity|exact Hinv].
    - rewrite PF.wf_stmts_cons in Hwf. apply andb_true_iff in Hwf. destruct Hwf as [Hws Hwr].
      rewrite PF.max_height_cons in Hh. rewrite PF.run_stmts_cons in Hr. rewrite PF.embed_stmts_cons, es_loop_cons.
      assert (Hnk : P.next_k (length rho) st <= length names) by (rewrite <- PF.ndecls_cons in Hn; lia).
      destruct (P.run_stmt n rho st) as [[[rho1 v1]|x]|] eqn:Er; [| |discriminate].
      + pose proof (Hst st rho e s f top lp _ Hinv Hws Hnk ltac:(lia) Hnf Er) as He. cbn [stmt_concl] in He.
        destruct He as [e1 [s1 [He Hinv1]]]. rewrite He, (stmt_last n rho st rho1 v1 Er).
        pose proof (PF.run_stmt_length n rho st top lp _ Hws Er) as Hlen. cbn [PF.len_ok] in Hlen.
        rewrite <- Hlen.
        apply (IH rho1 e1 s1 v1 top lp r Hinv1); [rewrite Hlen; exact Hwr|rewrite Hlen, PF.ndecls_cons; exact Hn|lia|exact Hr].
      + inversion Hr; subst r.
        pose proof (Hst st rho e s f top lp _ Hinv Hws Hnk ltac:(lia) Hnf Er) as He.
        destruct x as [x|rho1|rho1]; cbn [stmt_concl] in *.
        * destruct He as [e1 [s1 He]]. rewrite He. exists e1, s1. destruct x; reflexivity.
        * destruct He as [e1 [s1 [He Hi]]]. rewrite He. exists e1, s1. split; [reflexivity|exact Hi].
        * destruct He as [e1 [s1 [He Hi]]]. rewrite He. exists e1, s1. split; [reflexivity|exact Hi].
  Qed.

  Lemma eblock_list n f : stmt_sem n -> n <= f -> forall l rho e s lp r,
    sem_inv rho e s -> P.wf_stmts false lp (length rho) l = true -> P.max_height l <= f ->
    P.run_stmts n rho l F.VNil = Some r ->
    block_concl e r (eblock (S f) e s (P.embed_stmts names (length rho) l)).
  Proof.
    intros Hst Hnf l rho e s lp r Hinv Hwf Hh Hr. unfold eblock.
    assert (Hn : length rho + P.ndecls l <= length names)
      by (rewrite (PF.wf_false_ndecls _ _ _ Hwf); destruct Hinv as [Hl _]; lia).
    pose proof (es_list n f Hst Hnf l rho ([] :: e) s F.VNil false lp r (sem_inv_push rho e s Hinv) Hwf Hn Hh Hr) as H.
    pose proof (PF.run_stmts_length n l rho F.VNil lp r Hwf Hr) as Hlen.
    change (inj F.VNil) with VNil in H.
    destruct r as [[rho' v]|[x|rho'|rho']]; cbn [stmt_concl block_concl PF.lens_ok] in *.
    - destruct H as [e' [s' [H Hinv']]]. rewrite H. exists s'. split; [reflexivity|].
      exact (sem_inv_swap rho e s rho' e' s' Hinv Hinv' Hlen).
    - destruct H as [e' [s' H]]. rewrite H. exists s'. reflexivity.
    - destruct H as [e' [s' [H Hinv']]]. rewrite H. exists s'. split; [reflexivity|].
      exact (sem_inv_swap rho e s rho' e' s' Hinv Hinv' Hlen).
    - destruct H as [e' [s' [H Hinv']]]. rewrite H. exists s'. split; [reflexivity|].
      exact (sem_inv_swap rho e s rho' e' s' Hinv Hinv' Hlen).
  Qed.

  (* the condition loop: source fuel m, at most k rounds, body evaluated with fuel S f *)
  Lemma wloop_sem f c b e : forall m, (forall j, j < m -> stmt_sem j) -> m <= S f ->
    F.height c <= S f -> P.max_height b <= f ->
    forall k rho s r, m <= k -> sem_inv rho e s -> F.wf (length rho) c = true -> P.wf_stmts false true (length rho) b = true ->
    P.run_stmt m rho (P.SWhile c b) = Some r ->
    match r with
    | inl (rho', v) => exists s',
        wloop (S f) e (F.embed names c) (P.embed_stmts names (length rho) b) k s = (OVal VNil, e, s') /\
        sem_inv rho' e s' /\ v = F.VNil
    | inr (P.StErr x) => exists s', wloop (S f) e (F.embed names c) (P.embed_stmts names (length rho) b) k s = (lift (inr x), e, s')
    | inr _ => False
    end.
  Proof.
    induction m as [|m IH]; intros Hst Hmf Hhc Hhb k rho s r Hk Hinv Hwc Hwb Hr; [discriminate|].
    destruct k as [|k]; [lia|].
    rewrite PF.run_SWhile in Hr. rewrite wloop_S.
    pose proof (sem_inv_push rho e s Hinv) as Hinv1.
    rewrite (sem_scalar names rho c (S f) ([] :: e) s Hhc Hwc (sem_inv_env_ok rho ([] :: e) s Hinv1)).
    destruct (F.sev rho c) as [vc|x]; [|inversion Hr; subst r; exists s; destruct x; reflexivity].
    cbn [lift]. rewrite truthy_inj.
    destruct (F.struthy vc); [|inversion Hr; subst r; exists s; split; [reflexivity|split; [exact Hinv|reflexivity]]].
    assert (Hne : e <> []) by (destruct Hinv as [_ [Hne _]]; exact Hne).
    assert (Hnext : forall rho1 s1, length rho1 = length rho -> sem_inv rho1 ([] :: e) s1 ->
              P.run_stmt m rho1 (P.SWhile c b) = Some r ->
              match r with
              | inl (rho', v) => exists s', wloop (S f) e (F.embed names c) (P.embed_stmts names (length rho) b) k s1 = (OVal VNil, e, s') /\
                                            sem_inv rho' e s' /\ v = F.VNil
              | inr (P.StErr x) => exists s', wloop (S f) e (F.embed names c) (P.embed_stmts names (length rho) b) k s1 = (lift (inr x), e, s')
              | inr _ => False
              end).
    { intros rho1 s1 Hlen Hinv2 Hr1. rewrite <- Hlen.
      apply (IH ltac:(intros j Hj; apply Hst; lia) ltac:(lia) Hhc Hhb k rho1 s1 r ltac:(lia) (sem_inv_pop rho1 e s1 Hne Hinv2));
        try (rewrite Hlen; assumption). exact Hr1. }
    destruct (P.run_stmts m rho b F.VNil) as [[[rho1 v1]|[x|rho1|rho1]]|] eqn:Er; [| | | |discriminate].
    - pose proof (eblock_list m f (Hst m ltac:(lia)) ltac:(lia) b rho ([] :: e) s true _ Hinv1 Hwb Hhb Er) as Hb.
      cbn [block_concl] in Hb. destruct Hb as [s1 [Hb Hinv2]]. rewrite Hb.
      pose proof (PF.run_stmts_length m b rho F.VNil true _ Hwb Er) as Hlen. cbn [PF.lens_ok] in Hlen.
      exact (Hnext rho1 s1 Hlen Hinv2 Hr).
    - pose proof (eblock_list m f (Hst m ltac:(lia)) ltac:(lia) b rho ([] :: e) s true _ Hinv1 Hwb Hhb Er) as Hb.
      cbn [block_concl] in Hb. destruct Hb as [s1 Hb]. rewrite Hb. inversion Hr; subst r. exists s1. destruct x; reflexivity.
    - (* break: the loop ends *)
      pose proof (eblock_list m f (Hst m ltac:(lia)) ltac:(lia) b rho ([] :: e) s true _ Hinv1 Hwb Hhb Er) as Hb.
      cbn [block_concl] in Hb. destruct Hb as [s1 [Hb Hinv2]]. rewrite Hb. inversion Hr; subst r.
      exists s1. split; [reflexivity|]. split; [exact (sem_inv_pop rho1 e s1 Hne Hinv2)|reflexivity].
    - (* continue: the next round *)
      pose proof (eblock_list m f (Hst m ltac:(lia)) ltac:(lia) b rho ([] :: e) s true _ Hinv1 Hwb Hhb Er) as Hb.
      cbn [block_concl] in Hb. destruct Hb as [s1 [Hb Hinv2]]. rewrite Hb.
      pose proof (PF.run_stmts_length m b rho F.VNil true _ Hwb Er) as Hlen. cbn [PF.lens_ok] in Hlen.
      exact (Hnext rho1 s1 Hlen Hinv2 Hr).
  Qed.

  Theorem eval_stmt : forall n, stmt_sem n.
  Proof.
    induction n as [n IH] using lt_wf_ind.
    destruct n as [|n]; [intros st rho e s f top lp r _ _ _ _ _ Hr; discriminate|].
    intros st rho e s f top lp r Hinv Hwf Hk Hf Hnf Hr. pose proof (sem_inv_env_ok rho e s Hinv) as Henv.
    destruct st as [x|i x|i o x|i up|x|c t el|c t|c b| |].
    - (* x := e *)
      cbn [P.embed_stmt P.wf_stmt P.next_k P.sheight P.run_stmt] in *.
      apply andb_true_iff in Hwf. destruct Hwf as [_ Hwf].
      rewrite eval_NVar, (sem_scalar names rho x f e s Hf Hwf Henv).
      destruct (F.sev rho x) as [v|xx]; cbn [P.of_sev] in Hr; inversion Hr; subst r; cbn [lift stmt_concl].
      + eexists. eexists. split; [reflexivity|].
        destruct Hinv as [Hl [Hne [Hst H]]].
        exact (sem_inv_decl rho e s v (conj Hl (conj Hne (conj Hst H))) ltac:(lia)).
      + destruct xx; eexists; eexists; reflexivity.
    - (* x = e *)
      cbn [P.embed_stmt P.wf_stmt P.next_k P.sheight P.run_stmt] in *.
      apply andb_true_iff in Hwf. destruct Hwf as [Hi Hwf]. apply Nat.ltb_lt in Hi.
      rewrite eval_NAssign_eq, (sem_scalar names rho x f e s Hf Hwf Henv).
      destruct (F.sev rho x) as [v|xx]; cbn [P.of_sev] in Hr; inversion Hr; subst r; cbn [lift stmt_concl].
      + destruct Hinv as [Hl [Hne [Hst H]]]. destruct (H i Hi) as [Hlk _]. rewrite Hlk.
        eexists. eexists. split; [reflexivity|].
        exact (sem_inv_set rho e s i v (conj Hl (conj Hne (conj Hst H))) Hi).
      + destruct xx; eexists; eexists; reflexivity.
    - (* x += e *)
      cbn [P.embed_stmt P.wf_stmt P.next_k P.sheight P.run_stmt] in *.
      apply andb_true_iff in Hwf. destruct Hwf as [Hwf Ho]. apply andb_true_iff in Hwf. destruct Hwf as [Hi Hwf]. apply Nat.ltb_lt in Hi.
      assert (Hnc : is_cmp o = false) by (destruct o; try discriminate; reflexivity).
      rewrite (eval_NAssign_op f e s _ o _ Ho).
      destruct Hinv as [Hl [Hne [Hst H]]]. destruct (H i Hi) as [Hlk Hval]. rewrite Hlk, Hval.
      rewrite (sem_scalar names rho x f e s Hf Hwf Henv).
      destruct (F.sev rho x) as [v|xx].
      2:{ inversion Hr; subst r. cbn [lift stmt_concl]. destruct xx; eexists; eexists; reflexivity. }
      cbn [lift]. rewrite (binop_inj s o _ v Hnc).
      destruct (F.sbin o (nth i rho F.VNil) v) as [rv|xx]; cbn [P.of_sev] in Hr; inversion Hr; subst r; cbn [lift stmt_concl].
      + eexists. eexists. split; [reflexivity|].
        exact (sem_inv_set rho e s i rv (conj Hl (conj Hne (conj Hst H))) Hi).
      + destruct xx; eexists; eexists; reflexivity.
    - (* x++ / x-- *)
      cbn [P.embed_stmt P.wf_stmt P.next_k P.sheight P.run_stmt] in *. apply Nat.ltb_lt in Hwf.
      rewrite eval_NPostfix.
      destruct Hinv as [Hl [Hne [Hst H]]]. destruct (H i Hwf) as [Hlk Hval]. rewrite Hlk, Hval.
      destruct (nth i rho F.VNil) as [|b|z|t0] eqn:En; cbn [inj F.sbin P.of_sev] in *; inversion Hr; subst r; cbn [lift stmt_concl];
        try (eexists; eexists; reflexivity).
      destruct up; (eexists; eexists; split; [reflexivity|]);
        exact (sem_inv_set rho e s i _ (conj Hl (conj Hne (conj Hst H))) Hwf).
    - (* e *)
      cbn [P.embed_stmt P.wf_stmt P.next_k P.sheight P.run_stmt] in *.
      rewrite (sem_scalar names rho x (S f) e s ltac:(lia) Hwf Henv).
      destruct (F.sev rho x) as [v|xx]; cbn [P.of_sev] in Hr; inversion Hr; subst r; cbn [lift stmt_concl].
      + exists e, s. split; [reflexivity|exact Hinv].
      + destruct xx; eexists; eexists; reflexivity.
    - (* if *)
      rewrite PF.wf_SIf in Hwf. apply andb_true_iff in Hwf. destruct Hwf as [Hwct Hwe].
      apply andb_true_iff in Hwct. destruct Hwct as [Hwc Hwt].
      rewrite PF.sheight_SIf in Hf. destruct f as [|f]; [lia|].
      rewrite PF.run_SIf in Hr.
      rewrite PF.embed_SIf, eval_NIf, (sem_scalar names rho c (S f) e s ltac:(lia) Hwc Henv).
      destruct (F.sev rho c) as [vc|xx].
      2:{ inversion Hr; subst r. cbn [lift stmt_concl]. destruct xx; eexists; eexists; reflexivity. }
      cbn [lift]. rewrite truthy_inj.
      destruct (F.struthy vc); apply (block_stmt_concl e).
      + exact (eblock_list n f (IH n ltac:(lia)) ltac:(lia) t rho e s lp r Hinv Hwt ltac:(lia) Hr).
      + exact (eblock_list n f (IH n ltac:(lia)) ltac:(lia) el rho e s lp r Hinv Hwe ltac:(lia) Hr).
    - (* if without else *)
      rewrite PF.wf_SIf1 in Hwf. apply andb_true_iff in Hwf. destruct Hwf as [Hwc Hwt].
      rewrite PF.sheight_SIf1 in Hf. destruct f as [|f]; [lia|].
      rewrite PF.run_SIf1 in Hr.
      rewrite PF.embed_SIf1, eval_NIf1, (sem_scalar names rho c (S f) e s ltac:(lia) Hwc Henv).
      destruct (F.sev rho c) as [vc|xx].
      2:{ inversion Hr; subst r. cbn [lift stmt_concl]. destruct xx; eexists; eexists; reflexivity. }
      cbn [lift]. rewrite truthy_inj.
      destruct (F.struthy vc).
      + apply (block_stmt_concl e). exact (eblock_list n f (IH n ltac:(lia)) ltac:(lia) t rho e s lp r Hinv Hwt ltac:(lia) Hr).
      + inversion Hr; subst r. exists e, s. split; [reflexivity|exact Hinv].
    - (* for *)
      rewrite PF.wf_SWhile in Hwf. apply andb_true_iff in Hwf. destruct Hwf as [Hwc Hwb].
      rewrite PF.sheight_SWhile in Hf. destruct f as [|f]; [lia|].
      rewrite PF.embed_SWhile, eval_NFor_cond.
      pose proof (wloop_sem f c b e (S n) ltac:(intros j Hj; apply IH; lia) ltac:(lia) ltac:(lia) ltac:(lia)
                    (S f) rho s r ltac:(lia) Hinv Hwc Hwb Hr) as H.
      destruct r as [[rho' v]|[xx|rho'|rho']]; cbn [stmt_concl]; try contradiction.
      + destruct H as [s' [H [Hinv' ->]]]. exists e, s'. split; assumption.
      + destruct H as [s' H]. exists e, s'. exact H.
    - (* break *)
      cbn [P.run_stmt] in Hr. inversion Hr; subst r. cbn [P.embed_stmt stmt_concl]. rewrite eval_NBreak.
      exists e, s. split; [reflexivity|exact Hinv].
    - (* continue *)
      cbn [P.run_stmt] in Hr. inversion Hr; subst r. cbn [P.embed_stmt stmt_concl]. rewrite eval_NContinue.
      exists e, s. split; [reflexivity|exact Hinv].
  Qed.

  (* ---------------------------------------------------------------- the statement loop of Sem.run *)
  Definition go_loop (fuel : nat) : env -> state -> list node -> value -> outcome * state :=
    fix go (e : env) (s : state) (l : list node) (last : value) : outcome * state :=
      match l with
      | [] => (OVal last, s)
      | x :: r => match eval fuel e s x with
                  | (OVal v, e', s') => go e' s' r (if is_expression x then v else VNil)
                  | (o, _, s') => (o, s')
                  end
      end.
  Lemma go_loop_cons fuel e s x r last : go_loop fuel e s (x :: r) last =
    match eval fuel e s x with
    | (OVal v, e', s') => go_loop fuel e' s' r (if is_expression x then v else VNil)
    | (o, _, s') => (o, s')
    end.
  Proof. reflexivity. Qed.

  (* the outcome of a whole program: break / continue cannot reach the top level of a well-formed program *)
  Definition lift_top (r : (list F.sval * F.sval) + P.stop) : outcome :=
    match r with inl (_, v) => OVal (inj v) | inr (P.StErr x) => lift (inr x) | inr (P.StBrk _) => OBrk | inr (P.StCont _) => OCont end.

  Lemma go_program n f : n <= f -> forall l rho e s last r,
    sem_inv rho e s -> P.wf_stmts true false (length rho) l = true -> length rho + P.ndecls l <= length names ->
    P.max_height l <= f -> P.run_stmts n rho l last = Some r ->
    fst (go_loop (S f) e s (P.embed_stmts names (length rho) l) (inj last)) = lift_top r.
  Proof.
    intros Hnf. induction l as [|st r0 IH]; intros rho e s last r Hinv Hwf Hn Hh Hr.
    - cbn in Hr. inversion Hr. reflexivity.
    - rewrite PF.wf_stmts_cons in Hwf. apply andb_true_iff in Hwf. destruct Hwf as [Hws Hwr].
      rewrite PF.max_height_cons in Hh. rewrite PF.run_stmts_cons in Hr. rewrite PF.embed_stmts_cons, go_loop_cons.
      assert (Hnk : P.next_k (length rho) st <= length names) by (rewrite <- PF.ndecls_cons in Hn; lia).
      destruct (P.run_stmt n rho st) as [[[rho1 v1]|x]|] eqn:Er; [| |discriminate].
      + pose proof (eval_stmt n st rho e s f true false _ Hinv Hws Hnk ltac:(lia) Hnf Er) as He. cbn [stmt_concl] in He.
        destruct He as [e1 [s1 [He Hinv1]]]. rewrite He, (stmt_last n rho st rho1 v1 Er).
        pose proof (PF.run_stmt_length n rho st true false _ Hws Er) as Hlen. cbn [PF.len_ok] in Hlen.
        rewrite <- Hlen. apply IH; [exact Hinv1|rewrite Hlen; exact Hwr|rewrite Hlen, PF.ndecls_cons; exact Hn|lia|exact Hr].
      + inversion Hr; subst r.
        pose proof (eval_stmt n st rho e s f true false _ Hinv Hws Hnk ltac:(lia) Hnf Er) as He.
        pose proof (PF.no_escape n rho st true _ Hws Er) as Hno.
        destruct x as [x|rho1|rho1]; cbn [stmt_concl PF.no_ctl] in *; try contradiction.
        destruct He as [e1 [s1 He]]. rewrite He. destruct x; reflexivity.
  Qed.

  Lemma predeclare_none : forall l k acc,
    fold_left (fun acc st =>
                 match st with
                 | NFunc (Some nm) _ _ _ => let '(e, s) := acc in let '(l, s') := alloc s VNil in (bind_name e nm l true, s')
                 | _ => acc end) (P.embed_stmts names k l) acc = acc.
  Proof.
    induction l as [|st r IH]; intros k acc; [reflexivity|].
    rewrite PF.embed_stmts_cons. cbn [fold_left].
    destruct st as [x|i x|i o x|i up|x|c t el|c t|c b| |]; cbn [P.embed_stmt]; try apply IH.
    destruct x; cbn [F.embed]; apply IH.
  Qed.

  Theorem sem_var_program l n f r :
    P.wf_stmts true false 0 l = true -> P.ndecls l <= length names -> P.max_height l <= f -> n <= f ->
    P.run_stmts n [] l F.VNil = Some r ->
    fst (Sem.run (S f) (P.embed_stmts names 0 l)) = lift_top r.
  Proof.
    intros Hwf Hn Hh Hnf Hr. unfold Sem.run. rewrite predeclare_none.
    exact (go_program n f Hnf l [] ([] :: global_env) init_state F.VNil r sem_inv_init Hwf Hn Hh Hr).
  Qed.
End Names.
